/-
C05 — SIMULATION between the queue layer as the code has it (Cab.lean: five token deques + waiting cabinet +
running set) and the abstract waiting queue of Model.lean (`undo : List Tk` in arrival order, `doing : List Nat`).

Until this round the two layers were compared by the replay after every step; here the comparison is a theorem.

  * `absCab q`  — the abstraction of the concrete layer: level ↦ the tokens waiting at that level, front first.
  * `lv u`      — the same view of an abstract queue `u : List Tk`: level ↦ ids of the entries of that level, in
                  arrival order (`Model.lean`: "the per-priority deques of the code are the sub-lists of equal `lvl`").
  * `A`         — the abstract queue state, moved ONLY by the functions `Model.step` itself uses
                  (`undo ++ [t]`, `removeId`, `popOne`, `cancelAns`, `statusOf`, `doing.filter (· != id)`);
                  `C05_model_steps_are_abstract` states that `Model.step` moves `undo` / `doing` by exactly these.
  * `Sim q a`   — `absCab q = lv a.undo` on the five levels, same running set, same id counter, `QInv q`.

`C05_cab_refines_model`: every Cab operation with every argument commutes with the abstract step and gives the
same answer (cancel code, status, popped token, `undo_tasks_cabinet.size()` = length of the abstract queue);
`C05_cab_run_refines` lifts it to every run from the empty pool; `C05_cab_priority_fifo` is `C05_priority_fifo`
transferred to the deques; `C05_abs_unique` + `C05_abs_run_sorted`: the concrete state determines the abstract queue (the
relation is a function, up to the `cb` flag the token layer does not store); `SimM` / `C05_cab_answers_are_models` /
`C05_replay_lockstep_kept`: the same between `Cab.Q` and `Model.State` under the replay's token map, for the model's own
steps.  Ids: the abstract entry of a task carries its token id (the replay's `tk` map is the
renaming between `State.nextTask` numbering and cabinet ids; a withdrawn execute() consumes a cabinet id and no
task number, so the renaming is not an offset).
-/
import TboxModel.C05.CabProofs
import TboxModel.C05.TaskProofs
namespace Tbox.C05.Cab
open Tbox.C05

/-- the abstraction function: level ↦ waiting tokens of that level, front first -/
def absCab (q : Q) : Nat → List Tok := fun l => q.deq l

/-- the level view of an abstract waiting queue -/
def lv (u : List Tk) (l : Nat) : List Nat := (u.filter (fun t => t.lvl == l)).map (·.id)

/-- the abstract queue state: the fields of `Model.State` the queue operations touch, and the id counter -/
structure A where
  undo  : List Tk := []
  doing : List Nat := []
  next  : Nat := 0

/-- the abstract state as a `Model.State` (only `undo` and `doing` are read by `statusOf` / `cancelAns`) -/
def A.st (a : A) : State := { cfg := { min := 1, max := 1 }, undo := a.undo, doing := a.doing }

def A.step (a : A) : Op → A
  | .execute lvl => if lvl < nPrio then { a with undo := a.undo ++ [{ id := a.next + 1, lvl := lvl, cb := false }], next := a.next + 1 } else a
  | .executeWithdrawn lvl => if lvl < nPrio then { a with next := a.next + 1 } else a
  | .cancel tok => if cancelAns a.st tok = 0 then { a with undo := removeId a.undo tok } else a
  | .status _ => a
  | .pop => match popOne a.undo with
    | none => a
    | some t => { a with undo := removeId a.undo t.id, doing := t.id :: a.doing }
  | .finish tok => { a with doing := a.doing.filter (· != tok) }
  | .cleanup => { a with undo := [] }

def A.run (a : A) : List Op → A
  | [] => a
  | o :: os => A.run (a.step o) os

structure Sim (q : Q) (a : A) : Prop where
  view  : ∀ l, l < nPrio → absCab q l = lv a.undo l
  lvls  : ∀ t ∈ a.undo, t.lvl < nPrio
  doing : q.doing = a.doing
  last  : q.last = a.next
  inv   : QInv q

/-! ## the view -/

theorem lv_append (u : List Tk) (t : Tk) (l : Nat) :
    lv (u ++ [t]) l = if t.lvl = l then lv u l ++ [t.id] else lv u l := by
  by_cases h : t.lvl = l <;> simp [lv, List.filter_append, h]

theorem lv_removeId (u : List Tk) (id l : Nat) : lv (removeId u id) l = (lv u l).filter (· != id) := by
  simp only [lv, removeId, List.filter_map, List.filter_filter, Function.comp_def]
  congr 1
  apply List.filter_congr
  intro x _
  exact Bool.and_comm _ _

theorem mem_lv {u : List Tk} {l id : Nat} : id ∈ lv u l ↔ ∃ t ∈ u, t.lvl = l ∧ t.id = id := by
  simp [lv, and_assoc]

theorem Sim.inUndo_eq {q : Q} {a : A} (h : Sim q a) (tok : Tok) : inUndo a.st tok = inDeques q tok := by
  rw [Bool.eq_iff_iff, inUndo_true, inDeques_iff]
  constructor
  · rintro ⟨t, ht, hid⟩
    have hl := h.lvls t ht
    refine ⟨t.lvl, hl, ?_⟩
    have := h.view t.lvl hl
    simp only [absCab] at this
    rw [this]
    exact mem_lv.2 ⟨t, ht, rfl, hid⟩
  · rintro ⟨l, hl, hm⟩
    have := h.view l hl
    simp only [absCab] at this
    rw [this] at hm
    obtain ⟨t, ht, _, hid⟩ := mem_lv.1 hm
    exact ⟨t, ht, hid⟩

/-- `undo_tasks_cabinet.size()` (spawn test of execute(), exit test of threadProc()) = length of the abstract queue -/
theorem lv_total (u : List Tk) (hl : ∀ t ∈ u, t.lvl < nPrio) :
    (lv u 0).length + (lv u 1).length + (lv u 2).length + (lv u 3).length + (lv u 4).length = u.length := by
  induction u with
  | nil => simp [lv]
  | cons t u ih =>
    have ih' := ih (fun x hx => hl x (by simp [hx]))
    have ht := hl t (by simp)
    simp only [lv, List.length_map] at ih' ⊢
    rcases lt5 ht with h | h | h | h | h <;> simp [h] <;> omega

theorem Sim.size {q : Q} {a : A} (h : Sim q a) : cabSize q = a.undo.length := by
  have h1 := h.inv.size_unfolded
  have h2 := lv_total a.undo h.lvls
  have v := fun l hl => h.view l hl
  simp only [absCab] at v
  have hn := nPrio_eq
  rw [v 0 (by omega), v 1 (by omega), v 2 (by omega), v 3 (by omega), v 4 (by omega)] at h1
  simp only [cabSize]; omega

/-! ## answers -/

theorem Sim.status_eq {q : Q} {a : A} (h : Sim q a) (tok : Tok) : status q tok = statusOf a.st tok := by
  simp only [status, statusOf, C05_status_cabinet_eq_deques h.inv, ← h.inUndo_eq, h.doing]
  rfl

theorem Sim.cancel_eq {q : Q} {a : A} (h : Sim q a) (tok : Tok) : (cancel q tok).2 = cancelAns a.st tok := by
  have hc := C05_cancel_answers h.inv tok
  have hd : a.st.doing = q.doing := h.doing.symm
  by_cases h2 : tok ∈ q.doing
  · rw [hc.1.2 h2]; simp [cancelAns, hd, h2]
  · cases hin : inDeques q tok with
    | true =>
      rw [hc.2.1.2 ⟨h2, hin⟩]; simp [cancelAns, hd, h2, h.inUndo_eq, hin]
    | false =>
      rw [hc.2.2.1.2 ⟨h2, hin⟩]; simp [cancelAns, hd, h2, h.inUndo_eq, hin]

/-- the level loop of popOneTask() on the deques and `scanFrom` on the abstract queue find the same entry -/
theorem scan_agree {q : Q} {u : List Tk} : ∀ (n i : Nat), (∀ l, i ≤ l → l < i + n → q.deq l = lv u l) →
    match firstNonEmpty q i n with
    | none => scanFrom u i n = none
    | some j => ∃ t, scanFrom u i n = some t ∧ t.lvl = j ∧ (q.deq j).head? = some t.id := by
  intro n
  induction n with
  | zero => intro i _; simp [firstNonEmpty, scanFrom]
  | succ n ih =>
    intro i hv
    have hvi := hv i (Nat.le_refl _) (by omega)
    have hhead : (lv u i).head? = (u.find? (fun t => t.lvl == i)).map (·.id) := by
      simp [lv, List.head?_map, List.head?_filter]
    simp only [firstNonEmpty, scanFrom]
    cases hf : u.find? (fun t => t.lvl == i) with
    | none =>
      have he : q.deq i = [] := by
        rw [hf] at hhead
        rw [hvi]
        simpa using hhead
      simp only [he, List.isEmpty_nil, if_true]
      exact ih (i + 1) (fun l h1 h2 => hv l (by omega) (by omega))
    | some t =>
      have hne : (q.deq i).head? = some t.id := by
        rw [hvi, hhead, hf]; rfl
      have hne' : (q.deq i).isEmpty = false := by
        cases hq : q.deq i with
        | nil => rw [hq] at hne; simp at hne
        | cons _ _ => rfl
      simp only [hne', Bool.false_eq_true, if_false]
      have hl : t.lvl = i := by have := List.find?_some hf; simpa using this
      exact ⟨t, rfl, hl, hne⟩


/-! ## one lemma per operation -/

theorem Sim.init : Sim ({} : Q) ({} : A) :=
  ⟨fun _ _ => rfl, (fun t ht => by cases ht), rfl, rfl, QInv.init⟩

/-- removal of a waiting token (cancel(), popOneTask()): the deque update `erase` is `removeId` on the abstract queue -/
theorem Sim.remove {q q' : Q} {a a' : A} (h : Sim q a) (hq' : QInv q') {i : Nat} {tok : Tok} (hm : tok ∈ q.deq i)
    (hdeq : q'.deq = fun l => if l = i then (q.deq l).erase tok else q.deq l)
    (hu : a'.undo = removeId a.undo tok) (hd : q'.doing = a'.doing) (hl : q'.last = a'.next) : Sim q' a' := by
  refine ⟨?_, ?_, hd, hl, hq'⟩
  · intro l hl
    have hv := h.view l hl
    simp only [absCab] at hv ⊢
    rw [hu, lv_removeId, ← hv, hdeq]
    by_cases hli : l = i
    · simp only [if_pos hli]
      exact (h.inv.nodup l).erase_eq_filter tok
    · simp only [if_neg hli]
      symm
      rw [List.filter_eq_self]
      intro x hx
      have : x ≠ tok := by
        intro hxt; subst hxt
        exact hli (h.inv.disj _ _ _ hx hm)
      simpa using this
  · intro t ht
    rw [hu] at ht
    exact h.lvls t (mem_removeId.1 ht).1

theorem Sim.execute {q : Q} {a : A} (h : Sim q a) (lvl : Nat) (hl : lvl < nPrio) (cb : Bool) :
    Sim (Cab.execute q lvl).1
      { a with undo := a.undo ++ [{ id := a.next + 1, lvl := lvl, cb := cb }], next := a.next + 1 } := by
  refine ⟨?_, ?_, h.doing, ?_, h.inv.execute lvl hl⟩
  · intro l hl'
    have hv := h.view l hl'
    simp only [absCab] at hv ⊢
    simp only [Cab.execute, lv_append, ← hv, ← h.last]
    by_cases hli : l = lvl
    · simp [hli]
    · have : ¬ lvl = l := fun hh => hli hh.symm
      simp [hli, this]
  · intro t ht
    rcases List.mem_append.1 ht with ht | ht
    · exact h.lvls t ht
    · have : t = { id := a.next + 1, lvl := lvl, cb := cb } := by simpa using ht
      rw [this]; exact hl
  · show q.last + 1 = a.next + 1
    rw [h.last]

theorem Sim.withdraw {q : Q} {a : A} (h : Sim q a) (lvl : Nat) (hl : lvl < nPrio) :
    Sim (Cab.withdraw (Cab.execute q lvl).1 lvl (Cab.execute q lvl).2) { a with next := a.next + 1 } := by
  have hr := C05_withdraw_restores h.inv lvl hl
  simp only at hr
  refine ⟨?_, h.lvls, ?_, ?_, h.inv.withdraw lvl hl⟩
  · intro l hl'
    have hv := h.view l hl'
    simp only [absCab] at hv ⊢
    rw [hr.1]; exact hv
  · rw [hr.2.2.1]; exact h.doing
  · rw [hr.2.2.2.1, h.last]

theorem Sim.cancel {q : Q} {a : A} (h : Sim q a) (tok : Tok) : Sim (Cab.cancel q tok).1 (a.step (.cancel tok)) := by
  have hans := h.cancel_eq tok
  simp only [A.step, ← hans]
  by_cases hd : tok ∈ q.doing
  · rw [cancel_doing hd]; simpa using h
  · cases hf : findLevel q tok 0 nPrio with
    | none => rw [cancel_none hd hf]; simpa using h
    | some i =>
      obtain ⟨hm, _, _, he⟩ := h.inv.cancel_some_state hd hf
      have hq' := h.inv.cancel tok
      rw [he] at hq' ⊢
      simp only [if_true]
      exact h.remove hq' hm rfl rfl h.doing h.last

theorem Sim.pop {q : Q} {a : A} (h : Sim q a) :
    Sim (Cab.pop q).1 (a.step .pop) ∧ (Cab.pop q).2 = (popOne a.undo).map (·.id) := by
  have hs := scan_agree (q := q) (u := a.undo) nPrio 0 (fun l _ h2 => h.view l (by omega))
  cases hf : firstNonEmpty q 0 nPrio with
  | none =>
    rw [hf] at hs
    simp only at hs
    rw [pop_none hf]
    simp only [A.step, popOne, hs]
    exact ⟨h, rfl⟩
  | some i =>
    rw [hf] at hs
    obtain ⟨t, hsc, hlv, hhd⟩ := hs
    obtain ⟨tok, rest, hdi, hc, h0, he⟩ := h.inv.pop_some_state hf
    have hq' := h.inv.pop
    have htok : t.id = tok := by rw [hdi] at hhd; simpa using hhd.symm
    have hm : tok ∈ q.deq i := by rw [hdi]; simp
    rw [he] at hq' ⊢
    simp only [A.step, popOne, hsc, Option.map_some, htok]
    refine ⟨h.remove hq' hm ?_ rfl ?_ h.last, trivial⟩
    · funext l
      by_cases hli : l = i
      · subst hli; simp [hdi]
      · simp [hli]
    · show tok :: q.doing = tok :: a.doing
      rw [h.doing]

theorem Sim.finish {q : Q} {a : A} (h : Sim q a) (tok : Tok) : Sim (Cab.finish q tok) (a.step (.finish tok)) := by
  refine ⟨h.view, h.lvls, ?_, h.last, h.inv.finish tok⟩
  show q.doing.erase tok = a.doing.filter (· != tok)
  rw [← h.doing]
  exact h.inv.doingNodup.erase_eq_filter tok

theorem Sim.cleanup {q : Q} {a : A} (h : Sim q a) : Sim (Cab.cleanup q) (a.step .cleanup) := by
  obtain ⟨_, h2, _, h4, h5⟩ := C05_cleanup_empties h.inv
  refine ⟨?_, ?_, ?_, ?_, h.inv.cleanup⟩
  · intro l _
    simp only [absCab, h2, A.step, lv, List.filter_nil, List.map_nil]
  · intro t ht; simp [A.step] at ht
  · rw [h4]; exact h.doing
  · rw [h5]; exact h.last

/-! ## the simulation theorem -/

/-- **every Cab operation, with every argument, commutes with the abstract step**, and the two layers give the same
answers: cancel code, status, popped token, and the size `execute()` / `threadProc()` read from the cabinet. -/
theorem C05_cab_refines_model {q : Q} {a : A} (h : Sim q a) (o : Op) :
    Sim (Cab.step q o) (a.step o) ∧
    (∀ tok, (Cab.cancel q tok).2 = cancelAns a.st tok) ∧
    (∀ tok, Cab.status q tok = statusOf a.st tok) ∧
    (Cab.pop q).2 = (popOne a.undo).map (·.id) ∧
    cabSize q = a.undo.length ∧
    (∀ l, l < nPrio → (q.deq l).length = (a.undo.filter (fun t => t.lvl == l)).length) := by
  refine ⟨?_, h.cancel_eq, h.status_eq, h.pop.2, h.size, ?_⟩
  · cases o with
    | execute lvl =>
      simp only [Cab.step, A.step]
      split
      · rename_i hl; exact h.execute lvl hl false
      · exact h
    | executeWithdrawn lvl =>
      simp only [Cab.step, A.step]
      split
      · rename_i hl; exact h.withdraw lvl hl
      · exact h
    | cancel tok => exact h.cancel tok
    | status tok => exact h
    | pop => exact h.pop.1
    | finish tok => exact h.finish tok
    | cleanup => exact h.cleanup
  · intro l hl
    have := h.view l hl
    simp only [absCab] at this
    rw [this]; simp [lv]

/-- the abstraction commutes along every run from the empty pool -/
theorem C05_cab_run_refines (ops : List Op) : Sim (run {} ops) (A.run {} ops) := by
  suffices ∀ (q : Q) (a : A), Sim q a → Sim (run q ops) (A.run a ops) from this _ _ Sim.init
  induction ops with
  | nil => intro q a h; exact h
  | cons o os ih => intro q a h; exact ih _ _ (C05_cab_refines_model h o).1

/-- `C05_priority_fifo` on the transcribed deques: the token popOneTask() hands out belongs to the entry `t` of the
abstract queue `u` that is of the lowest level present and the earliest submitted of that level -/
theorem C05_cab_priority_fifo {q : Q} {a : A} (h : Sim q a) (tok : Tok) (hp : (Cab.pop q).2 = some tok) :
    ∃ t, t.id = tok ∧ t ∈ a.undo ∧ (∀ x ∈ a.undo, t.lvl ≤ x.lvl) ∧
      a.undo.find? (fun x => x.lvl == t.lvl) = some t ∧ (q.deq t.lvl).head? = some tok ∧
      Cab.status (Cab.pop q).1 tok = .executing := by
  rw [h.pop.2] at hp
  cases hpo : popOne a.undo with
  | none => rw [hpo] at hp; simp at hp
  | some t =>
    rw [hpo] at hp
    have hid : t.id = tok := by simpa using hp
    obtain ⟨_, hlt, h3, h4⟩ := scanFrom_spec a.undo _ _ t hpo
    have hmem := List.mem_of_find?_eq_some h3
    refine ⟨t, hid, hmem, fun x hx => h4 x hx (Nat.zero_le _), h3, ?_, ?_⟩
    · have hv := h.view t.lvl (h.lvls t hmem)
      simp only [absCab] at hv
      rw [hv]
      simp [lv, List.head?_map, List.head?_filter, h3, hid]
    · have hr := C05_pop_resolves h.inv
      have hp2 : (Cab.pop q).2 = some tok := by rw [h.pop.2, hpo]; simp [hid]
      rw [hp2] at hr
      obtain ⟨⟨_, _, _, _, _, hst⟩, _⟩ := hr
      exact hst

/-- `Model.step` moves `undo` and `doing` by exactly the functions `A.step` uses (loop-thread operations and the
worker's finish; the worker's pop is `afterPred`: `popOne`, `removeId`, `t.id :: doing` literally) -/
theorem C05_model_steps_are_abstract (s : State) :
    (∀ id, (Tbox.C05.step s (Step.cancel id)).undo = (if cancelAns s id = 0 then removeId s.undo id else s.undo) ∧
           (Tbox.C05.step s (Step.cancel id)).doing = s.doing) ∧
    ((Tbox.C05.step s Step.cleanup1).undo = [] ∧ (Tbox.C05.step s Step.cleanup1).doing = s.doing) ∧
    (∀ id, (Tbox.C05.step s (Step.status id)).undo = s.undo ∧ (Tbox.C05.step s (Step.status id)).doing = s.doing) ∧
    (∀ w t, s.pc w = .finishing t →
      (Tbox.C05.step s (Step.finish w)).doing = s.doing.filter (· != t.id) ∧ (Tbox.C05.step s (Step.finish w)).undo = s.undo) := by
  refine ⟨?_, ⟨rfl, rfl⟩, ?_, ?_⟩
  · intro id
    simp only [Tbox.C05.step]
    split <;> (try split) <;> simp_all
  · intro id
    simp only [Tbox.C05.step]
    split <;> (try split) <;> simp_all
  · intro w t hw
    simp [Tbox.C05.step, hw, setPc]

/-- the worker's critical section (`afterPred`, reached from `enter` / `reenter`): either the waiting queue is
untouched, or the pick is `popOne`, the queue loses it by `removeId`, and (repaired code, fixA) the running set gains
its id in the same section — the abstract `.pop` step -/
theorem C05_model_pop_is_abstract (s : State) (w : Nat) :
    ((afterPred s w).undo = s.undo ∧ (afterPred s w).doing = s.doing) ∨
    ∃ t, popOne s.undo = some t ∧ (afterPred s w).undo = removeId s.undo t.id ∧
      (afterPred s w).doing = (if s.cfg.fixA then t.id :: s.doing else s.doing) := by
  simp only [afterPred]
  split
  · split
    · left; simp [setPc]
    · cases hp : popOne s.undo with
      | none => left; simp [setPc]
      | some t =>
        right
        refine ⟨t, rfl, ?_⟩
        cases hA : s.cfg.fixA <;> simp [setPc]
  · left; simp [setPc]

/-- an accepted execute() appends at the back with the fresh number (the abstract `.execute` step up to the id renaming) -/
theorem C05_model_execute_is_abstract (s : State) (prio : Int) (cb : Bool) (h : s.done = false) :
    (Tbox.C05.step s (Step.execute prio cb)).undo = s.undo ++ [{ id := s.nextTask, lvl := levelOf prio, cb := cb }] ∧
    (Tbox.C05.step s (Step.execute prio cb)).doing = s.doing ∧ levelOf prio < nPrio := by
  refine ⟨?_, ?_, ?_⟩
  · simp only [Tbox.C05.step, h, Bool.false_eq_true, ↓reduceIte]
    (repeat' split) <;> rfl
  · simp only [Tbox.C05.step, h, Bool.false_eq_true, ↓reduceIte]
    (repeat' split) <;> rfl
  · simp only [levelOf, nPrio]
    split
    · omega
    · split <;> omega

/-! ## the id renaming

The model numbers tasks by `State.nextTask`, the code by cabinet ids (`last_id_ + 1`; a withdrawn execute() uses
one up).  The queue functions do not look at the numbers except to compare them, so they commute with any renaming
that is injective on the ids in play — the replay's `tk` map. -/

def ren (f : Nat → Nat) (t : Tk) : Tk := { t with id := f t.id }

theorem scanFrom_ren (f : Nat → Nat) (u : List Tk) : ∀ (n i : Nat),
    scanFrom (u.map (ren f)) i n = (scanFrom u i n).map (ren f) := by
  intro n
  induction n with
  | zero => intro i; rfl
  | succ n ih =>
    intro i
    have hf : (u.map (ren f)).find? (fun t => t.lvl == i) = (u.find? (fun t => t.lvl == i)).map (ren f) := by
      rw [List.find?_map]; rfl
    simp only [scanFrom, hf]
    cases u.find? (fun t => t.lvl == i) with
    | none => simpa using ih (i + 1)
    | some t => rfl

/-- the pick does not depend on the numbering at all -/
theorem popOne_ren (f : Nat → Nat) (u : List Tk) : popOne (u.map (ren f)) = (popOne u).map (ren f) :=
  scanFrom_ren f u nPrio 0

theorem removeId_ren (f : Nat → Nat) (u : List Tk) (id : Nat) (hinj : ∀ t ∈ u, f t.id = f id → t.id = id) :
    removeId (u.map (ren f)) (f id) = (removeId u id).map (ren f) := by
  induction u with
  | nil => rfl
  | cons t u ih =>
    have ih' := ih (fun x hx => hinj x (by simp [hx]))
    have ht := hinj t (by simp)
    simp only [removeId] at ih' ⊢
    by_cases h1 : t.id = id
    · simp [ren, h1, ih']
    · have h2 : ¬ f t.id = f id := fun hh => h1 (ht hh)
      simp [ren, h1, h2, ih']

/-- status and cancel answers of the abstract state are those of the model state under the renaming -/
theorem C05_answers_ren (f : Nat → Nat) (s : State) (id : Nat)
    (hu : ∀ t ∈ s.undo, f t.id = f id → t.id = id) (hd : ∀ x ∈ s.doing, f x = f id → x = id) :
    statusOf (A.st { undo := s.undo.map (ren f), doing := s.doing.map f }) (f id) = statusOf s id ∧
    cancelAns (A.st { undo := s.undo.map (ren f), doing := s.doing.map f }) (f id) = cancelAns s id := by
  have h1 : inUndo (A.st { undo := s.undo.map (ren f), doing := s.doing.map f }) (f id) = inUndo s id := by
    rw [Bool.eq_iff_iff, inUndo_true, inUndo_true]
    constructor
    · rintro ⟨t, ht, hid⟩
      obtain ⟨t0, ht0, rfl⟩ := List.mem_map.1 ht
      exact ⟨t0, ht0, hu t0 ht0 hid⟩
    · rintro ⟨t, ht, hid⟩
      exact ⟨ren f t, List.mem_map.2 ⟨t, ht, rfl⟩, by simp [ren, hid]⟩
  have h2 : (s.doing.map f).contains (f id) = s.doing.contains id := by
    rw [Bool.eq_iff_iff]
    simp only [List.contains_iff_mem, List.mem_map]
    constructor
    · rintro ⟨x, hx, hxe⟩
      rw [← hd x hx hxe]; exact hx
    · intro hx; exact ⟨id, hx, rfl⟩
  constructor
  · simp only [statusOf, h1]
    show (if inUndo s id then _ else if (s.doing.map f).contains (f id) then _ else _) = _
    rw [h2]
  · simp only [cancelAns, h1]
    show (if (s.doing.map f).contains (f id) then _ else _) = _
    rw [h2]

/-! ## the abstraction is a function

`Sim q a` fixes `a` completely (up to the `cb` flag of an entry, which the token layer does not store — the Task object
does): the abstract queues the model can reach are sorted by id (fresh ids grow), and a list sorted by id is determined by
its level views.  So `absCab` IS the abstraction function onto the model's waiting queue. -/

/-- what the queue layer knows of an entry -/
def key (t : Tk) : Nat × Nat := (t.id, t.lvl)

/-- arrival order = id order, ids below the counter -/
def A.sorted (a : A) : Prop := (a.undo.map key).Pairwise (fun x y => x.1 < y.1) ∧ ∀ t ∈ a.undo, t.id ≤ a.next

theorem eq_of_sorted_mem : ∀ {l l' : List (Nat × Nat)}, l.Pairwise (fun x y => x.1 < y.1) →
    l'.Pairwise (fun x y => x.1 < y.1) → (∀ x, x ∈ l ↔ x ∈ l') → l = l' := by
  intro l
  induction l with
  | nil =>
    intro l' _ _ hm
    cases l' with
    | nil => rfl
    | cons b t' => exact absurd ((hm b).2 (by simp)) (by simp)
  | cons a t ih =>
    intro l' h h' hm
    cases l' with
    | nil => exact absurd ((hm a).1 (by simp)) (by simp)
    | cons b t' =>
      have hp := List.pairwise_cons.1 h
      have hp' := List.pairwise_cons.1 h'
      have hab : a = b := by
        have h1 : a = b ∨ a ∈ t' := by simpa using (hm a).1 (by simp)
        have h2 : b = a ∨ b ∈ t := by simpa using (hm b).2 (by simp)
        rcases h1 with h1 | h1
        · exact h1
        · rcases h2 with h2 | h2
          · exact h2.symm
          · have := hp.1 b h2; have := hp'.1 a h1; omega
      subst hab
      congr 1
      apply ih hp.2 hp'.2
      intro x
      constructor
      · intro hx
        have : x = a ∨ x ∈ t' := by simpa using (hm x).1 (by simp [hx])
        rcases this with rfl | this
        · have := hp.1 x hx; omega
        · exact this
      · intro hx
        have : x = a ∨ x ∈ t := by simpa using (hm x).2 (by simp [hx])
        rcases this with rfl | this
        · have := hp'.1 x hx; omega
        · exact this

theorem mem_key_iff {u : List Tk} (x : Nat × Nat) : x ∈ u.map key ↔ x.1 ∈ lv u x.2 := by
  rw [mem_lv]
  simp only [List.mem_map, key]
  constructor
  · rintro ⟨t, ht, rfl⟩; exact ⟨t, ht, rfl, rfl⟩
  · rintro ⟨t, ht, h1, h2⟩; exact ⟨t, ht, Prod.ext h2 h1⟩

/-- **the concrete state determines the abstract one** -/
theorem C05_abs_unique {q : Q} {a a' : A} (h : Sim q a) (h' : Sim q a') (hs : a.sorted) (hs' : a'.sorted) :
    a.undo.map key = a'.undo.map key ∧ a.doing = a'.doing ∧ a.next = a'.next := by
  refine ⟨eq_of_sorted_mem hs.1 hs'.1 ?_, by rw [← h.doing, ← h'.doing], by rw [← h.last, ← h'.last]⟩
  have hside : ∀ {b b' : A}, Sim q b → Sim q b' → ∀ x, x ∈ b.undo.map key → x ∈ b'.undo.map key := by
    intro b b' hb hb' x hx
    have hx2 : x.2 < nPrio := by
      obtain ⟨t, ht, rfl⟩ := List.mem_map.1 hx
      exact hb.lvls t ht
    rw [mem_key_iff] at hx ⊢
    have e1 := hb.view x.2 hx2
    have e2 := hb'.view x.2 hx2
    rw [← e2, e1]; exact hx
  intro x
  exact ⟨hside h h' x, hside h' h x⟩

theorem A.sorted_step {a : A} (hs : a.sorted) (o : Op) : (a.step o).sorted := by
  have hfilter : ∀ id, ((removeId a.undo id).map key).Pairwise (fun x y => x.1 < y.1) := fun id =>
    hs.1.sublist ((List.filter_sublist (l := a.undo)).map key)
  have hle : ∀ id, ∀ t ∈ removeId a.undo id, t.id ≤ a.next := fun id t ht => hs.2 t (mem_removeId.1 ht).1
  cases o with
  | execute lvl =>
    simp only [A.step]
    split
    · refine ⟨?_, ?_⟩
      · simp only [List.map_append, List.map_cons, List.map_nil]
        rw [List.pairwise_append]
        refine ⟨hs.1, by simp, ?_⟩
        intro x hx y hy
        obtain ⟨t, ht, rfl⟩ := List.mem_map.1 hx
        have hy' : y = key { id := a.next + 1, lvl := lvl, cb := false } := by simpa using hy
        rw [hy']
        have := hs.2 t ht
        simp only [key]; omega
      · intro t ht
        rcases List.mem_append.1 ht with ht | ht
        · have := hs.2 t ht; show t.id ≤ a.next + 1; omega
        · have : t = { id := a.next + 1, lvl := lvl, cb := false } := by simpa using ht
          rw [this]; exact Nat.le_refl _
    · exact hs
  | executeWithdrawn lvl =>
    simp only [A.step]
    split
    · exact ⟨hs.1, fun t ht => by have := hs.2 t ht; show t.id ≤ a.next + 1; omega⟩
    · exact hs
  | cancel tok =>
    simp only [A.step]
    split
    · exact ⟨hfilter tok, hle tok⟩
    · exact hs
  | status tok => exact hs
  | pop =>
    simp only [A.step]
    split
    · exact hs
    · rename_i t _; exact ⟨hfilter t.id, hle t.id⟩
  | finish tok => exact hs
  | cleanup => exact ⟨by simp [A.step], fun t ht => by simp [A.step] at ht⟩

/-- every abstract state the runs reach is sorted: together with `C05_cab_run_refines` and `C05_abs_unique`, `A.run {} ops`
is THE abstract queue of `run {} ops` -/
theorem C05_abs_run_sorted (ops : List Op) : (A.run {} ops).sorted := by
  suffices ∀ (a : A), a.sorted → (A.run a ops).sorted from this _ ⟨by simp, fun t ht => by cases ht⟩
  induction ops with
  | nil => intro a h; exact h
  | cons o os ih => intro a h; exact ih _ (A.sorted_step h o)

/-! ## the replay's lock-step comparison as a theorem

`R.syncCab` (Replay.lean) carries a `Cab.Q` beside the model state and the map `tk` from task numbers to tokens, and
compares after every step.  `SimM f q s` is the relation it maintains (`f` = `R.tokOf`); under it every compared
quantity agrees, and the model's queue steps keep it. -/

/-- the model state's queue under the renaming, as an abstract state -/
def absM (f : Nat → Nat) (s : State) (n : Nat) : A := { undo := s.undo.map (ren f), doing := s.doing.map f, next := n }

structure SimM (f : Nat → Nat) (q : Q) (s : State) : Prop where
  sim : Sim q (absM f s q.last)
  inj : ∀ x y, x < s.nextTask → y < s.nextTask → f x = f y → x = y
  rng : ∀ x, x < s.nextTask → f x ≤ q.last
  uid : ∀ t ∈ s.undo, t.id < s.nextTask
  did : ∀ x ∈ s.doing, x < s.nextTask

/-- **what the replay compares cannot differ**: for every task number ever issued, the token layer and the model give
the same cancel code and status; the pop hands out the token of the model's pick; `undo_tasks_cabinet.size()`, the
five deque sizes and the size of the running set are the model's -/
theorem C05_cab_answers_are_models {f : Nat → Nat} {q : Q} {s : State} (h : SimM f q s) :
    (∀ id, id < s.nextTask → (Cab.cancel q (f id)).2 = cancelAns s id ∧ Cab.status q (f id) = statusOf s id) ∧
    (Cab.pop q).2 = (popOne s.undo).map (fun t => f t.id) ∧
    cabSize q = s.undo.length ∧
    (∀ l, l < nPrio → (q.deq l).length = (s.undo.filter (fun t => t.lvl == l)).length) ∧
    q.doing.length = s.doing.length := by
  have hc := C05_cab_refines_model h.sim .pop
  refine ⟨?_, ?_, ?_, ?_, ?_⟩
  · intro id hid
    have hr := C05_answers_ren f s id (fun t ht he => h.inj _ _ (h.uid t ht) hid he)
      (fun x hx he => h.inj _ _ (h.did x hx) hid he)
    exact ⟨(hc.2.1 (f id)).trans hr.2, (hc.2.2.1 (f id)).trans hr.1⟩
  · rw [hc.2.2.2.1]
    show (popOne (s.undo.map (ren f))).map (·.id) = _
    rw [popOne_ren]
    cases popOne s.undo <;> rfl
  · rw [hc.2.2.2.2.1]; simp [absM]
  · intro l hl
    rw [hc.2.2.2.2.2 l hl]
    simp only [absM, List.filter_map, List.length_map]
    rfl
  · rw [h.sim.doing]; simp [absM]

/-- cancel(): the model step and the Cab step the replay pairs with it keep the relation -/
theorem SimM.cancel {f : Nat → Nat} {q : Q} {s : State} (h : SimM f q s) (id : Nat) (hid : id < s.nextTask) :
    SimM f (Cab.cancel q (f id)).1 (Tbox.C05.step s (Step.cancel id)) := by
  have hm := (C05_model_steps_are_abstract s).1 id
  have hr := C05_answers_ren f s id (fun t ht he => h.inj _ _ (h.uid t ht) hid he)
    (fun x hx he => h.inj _ _ (h.did x hx) hid he)
  have hs := h.sim.cancel (f id)
  have hnt : (Tbox.C05.step s (Step.cancel id)).nextTask = s.nextTask := by
    simp only [Tbox.C05.step]; split <;> (try split) <;> rfl
  have hlast : (Cab.cancel q (f id)).1.last = q.last := by
    simp only [Cab.cancel]; split
    · rfl
    · split <;> rfl
  have ha : (absM f s q.last).step (.cancel (f id)) = absM f (Tbox.C05.step s (Step.cancel id)) (Cab.cancel q (f id)).1.last := by
    simp only [A.step, absM, hlast, hm.1, hm.2]
    have : cancelAns (A.st { undo := s.undo.map (ren f), doing := s.doing.map f, next := q.last }) (f id) = cancelAns s id := hr.2
    by_cases hc : cancelAns s id = 0
    · simp only [this, hc, if_true]
      rw [removeId_ren f s.undo id (fun t ht he => h.inj _ _ (h.uid t ht) hid he)]
    · simp only [this, hc, if_false]
  refine ⟨ha ▸ hs, by rw [hnt]; exact h.inj, by rw [hnt, hlast]; exact h.rng, ?_, ?_⟩
  · intro t ht
    rw [hnt]
    rw [hm.1] at ht
    split at ht
    · exact h.uid t (mem_removeId.1 ht).1
    · exact h.uid t ht
  · rw [hnt, hm.2]; exact h.did

/-- cleanup(), the critical section -/
theorem SimM.cleanup {f : Nat → Nat} {q : Q} {s : State} (h : SimM f q s) :
    SimM f (Cab.cleanup q) (Tbox.C05.step s Step.cleanup1) := by
  have hs := h.sim.cleanup
  have hlast : (Cab.cleanup q).last = q.last := rfl
  refine ⟨?_, h.inj, h.rng, ?_, h.did⟩
  · exact hs
  · intro t ht; simp [Tbox.C05.step] at ht

/-- threadProc() after the body: `doing_tasks_token.erase(token)` -/
theorem SimM.finish {f : Nat → Nat} {q : Q} {s : State} (h : SimM f q s) (w : Nat) (t : Tk) (hw : s.pc w = .finishing t)
    (hid : t.id < s.nextTask) : SimM f (Cab.finish q (f t.id)) (Tbox.C05.step s (Step.finish w)) := by
  have hm := (C05_model_steps_are_abstract s).2.2.2 w t hw
  have hs := h.sim.finish (f t.id)
  have hnt : (Tbox.C05.step s (Step.finish w)).nextTask = s.nextTask := by
    simp [Tbox.C05.step, hw, setPc]
  have ha : (absM f s q.last).step (.finish (f t.id)) = absM f (Tbox.C05.step s (Step.finish w)) (Cab.finish q (f t.id)).last := by
    simp only [A.step, absM, hm.1, hm.2, Cab.finish, List.filter_map]
    congr 2
    apply List.filter_congr
    intro x hx
    have := h.did x hx
    by_cases hxe : x = t.id
    · simp [hxe]
    · have hne : f x ≠ f t.id := fun he => hxe (h.inj _ _ (h.did x hx) hid he)
      have h1 : (f x != f t.id) = true := bne_iff_ne.2 hne
      have h2 : (x != t.id) = true := bne_iff_ne.2 hxe
      show (f x != f t.id) = (x != t.id)
      rw [h1, h2]
  refine ⟨ha ▸ hs, by rw [hnt]; exact h.inj, by rw [hnt]; exact h.rng, by rw [hnt, hm.2]; exact h.uid, ?_⟩
  intro x hx
  rw [hnt]
  rw [hm.1] at hx
  exact h.did x (List.mem_filter.1 hx).1

/-- the worker's critical section with a pick (repaired code): popOneTask() + `doing_tasks_token.insert` -/
theorem SimM.pop {f : Nat → Nat} {q : Q} {s : State} (h : SimM f q s) (w : Nat) (hA : s.cfg.fixA = true)
    (hp : (afterPred s w).undo ≠ s.undo ∨ (afterPred s w).doing ≠ s.doing) :
    SimM f (Cab.pop q).1 (afterPred s w) := by
  rcases C05_model_pop_is_abstract s w with hno | ⟨t, hpo, hu, hd⟩
  · rcases hp with hp | hp
    · exact absurd hno.1 hp
    · exact absurd hno.2 hp
  · have hs := h.sim.pop.1
    have htm : t ∈ s.undo := popOne_mem hpo
    have hid := h.uid t htm
    have hnt : (afterPred s w).nextTask = s.nextTask := by
      simp only [afterPred]; (repeat' split) <;> simp [setPc]
    have hlast : (Cab.pop q).1.last = q.last := by
      simp only [Cab.pop]; (repeat' split) <;> rfl
    rw [hA] at hd
    simp only [if_true] at hd
    have ha : (absM f s q.last).step .pop = absM f (afterPred s w) (Cab.pop q).1.last := by
      simp only [A.step, absM, popOne_ren, hpo, Option.map_some, hu, hd, hlast]
      simp only [ren, List.map_cons]
      rw [← removeId_ren f s.undo t.id (fun x hx he => h.inj _ _ (h.uid x hx) hid he)]
    refine ⟨ha ▸ hs, by rw [hnt]; exact h.inj, by rw [hnt, hlast]; exact h.rng, ?_, ?_⟩
    · intro x hx; rw [hnt]; rw [hu] at hx; exact h.uid x (mem_removeId.1 hx).1
    · intro x hx; rw [hnt]; rw [hd] at hx
      rcases List.mem_cons.1 hx with hx | hx
      · rw [hx]; exact hid
      · exact h.did x hx

/-- an accepted execute() (with or without a spawn, or with a failed spawn while other workers exist): the task is
appended under the fresh number; the token map is extended by (task number ↦ the cabinet id just issued) -/
theorem SimM.append {f : Nat → Nat} {q : Q} {s s' : State} (h : SimM f q s) (lvl : Nat) (hl : lvl < nPrio) (cb : Bool)
    (hu : s'.undo = s.undo ++ [{ id := s.nextTask, lvl := lvl, cb := cb }]) (hd : s'.doing = s.doing)
    (hnt : s'.nextTask = s.nextTask + 1) :
    SimM (fun x => if x = s.nextTask then (Cab.execute q lvl).2 else f x) (Cab.execute q lvl).1 s' := by
  have hs := h.sim.execute lvl hl cb
  have htok : (Cab.execute q lvl).2 = q.last + 1 := rfl
  have hlast : (Cab.execute q lvl).1.last = q.last + 1 := rfl
  have hmapu : s.undo.map (ren (fun x => if x = s.nextTask then q.last + 1 else f x)) = s.undo.map (ren f) := by
    apply List.map_congr_left
    intro t ht
    have := h.uid t ht
    simp [ren, Nat.ne_of_lt this]
  have hmapd : s.doing.map (fun x => if x = s.nextTask then q.last + 1 else f x) = s.doing.map f := by
    apply List.map_congr_left
    intro x hx
    have := h.did x hx
    simp [Nat.ne_of_lt this]
  refine ⟨?_, ?_, ?_, ?_, ?_⟩
  · have : absM (fun x => if x = s.nextTask then (Cab.execute q lvl).2 else f x)
        s' (Cab.execute q lvl).1.last =
        { (absM f s q.last) with undo := (absM f s q.last).undo ++ [{ id := (absM f s q.last).next + 1, lvl := lvl, cb := cb }],
                                 next := (absM f s q.last).next + 1 } := by
      simp only [absM, hu, hd, htok, hlast, List.map_append, hmapu, hmapd]
      simp [ren]
    rw [this]; exact hs
  · intro x y hx hy he
    rw [hnt] at hx hy
    simp only [htok] at he
    by_cases hx' : x = s.nextTask <;> by_cases hy' : y = s.nextTask
    · rw [hx', hy']
    · simp only [hx', hy', if_true, if_false] at he
      have := h.rng y (by omega); omega
    · simp only [hx', hy', if_true, if_false] at he
      have := h.rng x (by omega); omega
    · simp only [hx', hy', if_false] at he
      exact h.inj x y (by omega) (by omega) he
  · intro x hx
    rw [hnt] at hx
    rw [hlast]
    by_cases hx' : x = s.nextTask
    · simp [hx', htok]
    · simp only [hx', if_false]
      have := h.rng x (by omega); omega
  · intro t ht
    rw [hnt]
    rw [hu] at ht
    rcases List.mem_append.1 ht with ht | ht
    · have := h.uid t ht; omega
    · have : t = { id := s.nextTask, lvl := lvl, cb := cb } := by simpa using ht
      rw [this]; simp
  · intro x hx
    rw [hnt]; rw [hd] at hx
    have := h.did x hx; omega

theorem SimM.execute {f : Nat → Nat} {q : Q} {s : State} (h : SimM f q s) (prio : Int) (cb : Bool) (hdn : s.done = false) :
    SimM (fun x => if x = s.nextTask then (Cab.execute q (levelOf prio)).2 else f x)
      (Cab.execute q (levelOf prio)).1 (Tbox.C05.step s (Step.execute prio cb)) := by
  obtain ⟨hu, hd, hl⟩ := C05_model_execute_is_abstract s prio cb hdn
  refine h.append (levelOf prio) hl cb hu hd ?_
  simp only [Tbox.C05.step, hdn, Bool.false_eq_true, ↓reduceIte]
  (repeat' split) <;> rfl

/-- execute() whose thread creation fails (fix C05-06): with no worker at all the task is withdrawn in the same
critical section — the model state is unchanged, the token layer has used up one cabinet id; otherwise the task stays
queued like after a plain execute() -/
theorem SimM.executeF {f : Nat → Nat} {q : Q} {s : State} (h : SimM f q s) (prio : Int) (cb : Bool) :
    (s.cab.isEmpty = true →
      SimM f (Cab.step q (.executeWithdrawn (levelOf prio))) (Tbox.C05.step s (Step.executeF prio cb))) ∧
    (s.cab.isEmpty = false →
      SimM (fun x => if x = s.nextTask then (Cab.execute q (levelOf prio)).2 else f x)
        (Cab.execute q (levelOf prio)).1 (Tbox.C05.step s (Step.executeF prio cb))) := by
  have hl : levelOf prio < nPrio := by
    simp only [levelOf, nPrio]
    split
    · omega
    · split <;> omega
  constructor
  · intro he
    have hst : Tbox.C05.step s (Step.executeF prio cb) = s := by simp [Tbox.C05.step, he]
    rw [hst]
    simp only [Cab.step, hl, if_true]
    have hs := h.sim.withdraw (levelOf prio) hl
    have hr := C05_withdraw_restores h.sim.inv (levelOf prio) hl
    simp only at hr
    refine ⟨?_, h.inj, ?_, h.uid, h.did⟩
    · rw [hr.2.2.2.1]; exact hs
    · intro x hx; rw [hr.2.2.2.1]; have := h.rng x hx; omega
  · intro he
    refine h.append (levelOf prio) hl cb ?_ ?_ ?_ <;> simp [Tbox.C05.step, he]

theorem SimM.init (f : Nat → Nat) (c : Cfg) : SimM f ({} : Q) (Tbox.C05.init c) :=
  ⟨Sim.init, fun x y hx => by simp [Tbox.C05.init] at hx, fun x hx => by simp [Tbox.C05.init] at hx,
   fun t ht => by simp [Tbox.C05.init] at ht, fun x hx => by simp [Tbox.C05.init] at hx⟩

/-- **the relation the replay maintains is kept by every queue step of the model paired with the Cab step the replay
takes for it** (`R.syncCab`): execute (accepted), executeF (both outcomes), cancel, status (no change), the worker's pick,
finish, cleanup.  All other model steps touch neither `undo`, `doing` nor `nextTask`. -/
theorem C05_replay_lockstep_kept {f : Nat → Nat} {q : Q} {s : State} (h : SimM f q s) :
    (∀ prio cb, s.done = false →
      SimM (fun x => if x = s.nextTask then (Cab.execute q (levelOf prio)).2 else f x)
        (Cab.execute q (levelOf prio)).1 (Tbox.C05.step s (Step.execute prio cb))) ∧
    (∀ prio cb, s.cab.isEmpty = true →
      SimM f (Cab.step q (.executeWithdrawn (levelOf prio))) (Tbox.C05.step s (Step.executeF prio cb))) ∧
    (∀ prio cb, s.cab.isEmpty = false →
      SimM (fun x => if x = s.nextTask then (Cab.execute q (levelOf prio)).2 else f x)
        (Cab.execute q (levelOf prio)).1 (Tbox.C05.step s (Step.executeF prio cb))) ∧
    (∀ id, id < s.nextTask → SimM f (Cab.cancel q (f id)).1 (Tbox.C05.step s (Step.cancel id))) ∧
    (∀ w, s.cfg.fixA = true → ((afterPred s w).undo ≠ s.undo ∨ (afterPred s w).doing ≠ s.doing) →
      SimM f (Cab.pop q).1 (afterPred s w)) ∧
    (∀ w t, s.pc w = .finishing t → t.id < s.nextTask →
      SimM f (Cab.finish q (f t.id)) (Tbox.C05.step s (Step.finish w))) ∧
    SimM f (Cab.cleanup q) (Tbox.C05.step s Step.cleanup1) :=
  ⟨fun prio cb hd => h.execute prio cb hd, fun prio cb he => (h.executeF prio cb).1 he,
   fun prio cb he => (h.executeF prio cb).2 he, fun id hid => h.cancel id hid,
   fun w hA hp => h.pop w hA hp, fun w t hw hid => h.finish w t hw hid, h.cleanup⟩

/-! ## non-vacuity -/

example :
    (A.run {} (demoOps.take 3)).undo.map (fun t => (t.id, t.lvl)) = [(1, 2), (2, 0), (3, 2)] ∧
    popOne (A.run {} (demoOps.take 3)).undo = some { id := 2, lvl := 0, cb := false } ∧
    (Cab.pop (run {} (demoOps.take 3))).2 = some 2 ∧
    (A.run {} (demoOps.take 5)).undo.map (·.id) = [1] ∧ (A.run {} (demoOps.take 5)).doing = [2] ∧
    (A.run {} demoOps).undo = [] ∧ (A.run {} demoOps).doing = [] ∧ (A.run {} demoOps).next = 3 := by
  decide

/-- the hypotheses of the `SimM` theorems are satisfiable beyond the initial state: two accepted execute() calls
and a cancel on a (1,2) pool, with the token map built the way the replay builds it -/
example : ∃ f q, SimM f q (Tbox.C05.step (Tbox.C05.step (Tbox.C05.step (Tbox.C05.init { min := 1, max := 2 })
    (Step.execute 0 false)) (Step.execute (-2) true)) (Step.cancel 0)) ∧ q.deq 0 = [2] ∧ q.deq 2 = [] ∧ q.last = 2 ∧ f 1 = 2 := by
  have h0 := SimM.init (fun _ => 0) { min := 1, max := 2 }
  have h1 := h0.execute 0 false rfl
  have h2 := h1.execute (-2) true rfl
  have h3 := h2.cancel 0 (by decide)
  exact ⟨_, _, h3, by decide, by decide, by decide, by decide⟩

end Tbox.C05.Cab
