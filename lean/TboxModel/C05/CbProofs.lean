/- C05 — completion-callback invariant of the repaired model. -/
import TboxModel.C05.WorkerProofs
namespace Tbox.C05

/-- the completion callbacks queued in the loop -/
def cbIds (q : List LoopItem) : List Nat := q.filterMap (fun | .cb t => some t | _ => none)

@[simp] theorem cbIds_append (a b : List LoopItem) : cbIds (a ++ b) = cbIds a ++ cbIds b := by
  simp [cbIds, List.filterMap_append]
@[simp] theorem cbIds_cb (t : Nat) (q : List LoopItem) : cbIds (.cb t :: q) = t :: cbIds q := by simp [cbIds]
@[simp] theorem cbIds_joinW (w : Nat) (q : List LoopItem) : cbIds (.joinW w :: q) = cbIds q := by simp [cbIds]
@[simp] theorem cbIds_joinNull (q : List LoopItem) : cbIds (.joinNull :: q) = cbIds q := by simp [cbIds]
@[simp] theorem cbIds_nil : cbIds [] = [] := rfl

structure CbInv (s : State) : Prop where
  cbsNodup : s.cbs.Nodup
  cbsRan   : ∀ id ∈ s.cbs, id ∈ s.ranIds
  qRan     : ∀ id ∈ cbIds s.loopQ, id ∈ s.ranIds ∧ id ∉ s.cbs
  qNodup   : (cbIds s.loopQ).Nodup
  postRan  : ∀ w t, s.pc w = .postCb t → t.id ∈ s.ranIds
  postNo   : ∀ w t, s.pc w = .postCb t → t.id ∉ s.cbs ∧ t.id ∉ cbIds s.loopQ

theorem CbInv.weaken {s s' : State} (h : CbInv s) (h1 : s'.cbs = s.cbs) (h2 : cbIds s'.loopQ = cbIds s.loopQ)
    (h3 : s'.ran = s.ran) (hpc : ∀ i t, s'.pc i = .postCb t → s.pc i = .postCb t) : CbInv s' := by
  have hr : s'.ranIds = s.ranIds := by simp only [State.ranIds, h3]
  constructor
  · rw [h1]; exact h.cbsNodup
  · rw [h1, hr]; exact h.cbsRan
  · rw [h1, h2, hr]; exact h.qRan
  · rw [h2]; exact h.qNodup
  · rw [hr]; intro w t hw; exact h.postRan w t (hpc w t hw)
  · rw [h1, h2]; intro w t hw; exact h.postNo w t (hpc w t hw)

theorem CbInv.of_eq {s s' : State} (h : CbInv s) (h1 : s'.cbs = s.cbs) (h2 : s'.loopQ = s.loopQ)
    (h3 : s'.ran = s.ran) (h4 : s'.pc = s.pc) : CbInv s' :=
  h.weaken h1 (by rw [h2]) h3 (fun i t => by rw [h4]; exact id)

theorem CbInv.setPc_other {s : State} (h : CbInv s) (w : Nat) {p : PC} (hp : ∀ t, p ≠ .postCb t) : CbInv (setPc s w p) :=
  h.weaken rfl rfl rfl (fun i t => by
    simp only [setPc_pc]; by_cases e : i = w
    · simp only [e, ↓reduceIte]; intro hh; exact absurd hh (hp t)
    · simp [e])

theorem CbInv.afterPred {s : State} (h : CbInv s) (w : Nat) : CbInv (afterPred s w) := by
  unfold Tbox.C05.afterPred
  split
  · split
    · exact (h.of_eq (s' := { s with idle := s.idle - 1 }) rfl rfl rfl rfl).setPc_other w (by simp)
    · split
      · exact (h.of_eq (s' := { s with idle := s.idle - 1 }) rfl rfl rfl rfl).setPc_other w (by simp)
      · split
        · refine CbInv.setPc_other ?_ w (by simp)
          exact h.of_eq rfl rfl rfl rfl
        · refine CbInv.setPc_other ?_ w (by simp)
          exact h.of_eq rfl rfl rfl rfl
  · exact (h.of_eq (s' := { s with lock := true }) rfl rfl rfl rfl).setPc_other w (by simp)

theorem CbInv.step {s : State} (h : CbInv s) (ht : TaskInv s) (st : Step) : CbInv (step s st) := by
  cases st with
  | execute prio cb =>
    simp only [Tbox.C05.step]
    split
    · exact h
    · split
      · split
        · refine CbInv.setPc_other ?_ _ (by simp)
          exact h.of_eq rfl rfl rfl rfl
        · exact h.of_eq rfl rfl rfl rfl
      · exact h.of_eq rfl rfl rfl rfl
  | executeF prio cb =>
    simp only [Tbox.C05.step]
    split
    · exact h
    · exact h.of_eq rfl rfl rfl rfl
  | cancel id =>
    simp only [Tbox.C05.step]
    split
    · exact h.of_eq rfl rfl rfl rfl
    · split
      · exact h
      · exact h.of_eq rfl rfl rfl rfl
    · exact h
  | status id =>
    simp only [Tbox.C05.step]
    split
    · split
      · exact h
      · exact h.of_eq rfl rfl rfl rfl
    · exact h
  | snapshot => exact h
  | cleanup1 => exact h.of_eq rfl rfl rfl rfl
  | setStop => exact h.of_eq rfl rfl rfl rfl
  | notifyAll =>
    refine h.weaken rfl rfl rfl (fun i t => ?_)
    simp only [Tbox.C05.step]
    by_cases hw : s.pc i = .waiting
    · simp [hw]
    · simp [hw]
  | join w => exact h.of_eq rfl rfl rfl rfl
  | notifyOne ow =>
    cases ow with
    | none => exact h.of_eq rfl rfl rfl rfl
    | some w =>
      refine CbInv.setPc_other ?_ w (by simp)
      exact h.of_eq rfl rfl rfl rfl
  | threadEnd w => exact h.setPc_other w (by simp)
  | cleanupRet => exact h.of_eq rfl rfl rfl rfl
  | loopRun =>
    simp only [Tbox.C05.step]
    split
    · exact h
    · rename_i t q hq
      have hqn := h.qNodup; rw [hq, cbIds_cb, List.nodup_cons] at hqn
      have htq := h.qRan t (by rw [hq]; simp)
      constructor
      · simp only [List.nodup_cons]; exact ⟨htq.2, h.cbsNodup⟩
      · intro id hid
        rcases List.mem_cons.1 hid with rfl | hid
        · exact htq.1
        · exact h.cbsRan id hid
      · intro id hid
        have := h.qRan id (by rw [hq]; simp [hid])
        refine ⟨this.1, ?_⟩
        simp only [List.mem_cons, not_or]
        exact ⟨fun e => hqn.1 (e ▸ hid), this.2⟩
      · exact hqn.2
      · exact h.postRan
      · intro w u hw
        have := h.postNo w u hw
        rw [hq, cbIds_cb] at this
        simp only [List.mem_cons, not_or] at this ⊢
        exact ⟨⟨this.2.1, this.1⟩, this.2.2⟩
    · rename_i w q hq
      split <;> exact h.weaken rfl (by rw [hq]; simp) rfl (fun _ _ => id)
    · rename_i q hq
      exact h.weaken rfl (by rw [hq]; simp) rfl (fun _ _ => id)
  | enter w =>
    simp only [Tbox.C05.step]
    split
    · split
      · refine CbInv.setPc_other ?_ w (by simp)
        exact h.of_eq rfl rfl rfl rfl
      · exact h.setPc_other w (by simp)
    · exact (h.of_eq (s' := { s with idle := s.idle + 1 }) rfl rfl rfl rfl).afterPred w
  | block w => exact (h.of_eq (s' := { s with lock := false }) rfl rfl rfl rfl).setPc_other w (by simp)
  | wake w => exact h.setPc_other w (by simp)
  | reenter w => exact h.afterPred w
  | markDoing w =>
    simp only [Tbox.C05.step]
    split
    · refine CbInv.setPc_other ?_ w (by simp)
      exact h.of_eq rfl rfl rfl rfl
    · exact h
  | runBody w =>
    simp only [Tbox.C05.step]
    split
    · rename_i t hp
      have hf := ht.preFresh w t (by rw [hp]; rfl)
      have hmono : ∀ id, id ∈ s.ranIds → id ∈ (t.id :: s.ranIds) := fun id hid => List.mem_cons_of_mem _ hid
      constructor
      · exact h.cbsNodup
      · intro id hid; exact hmono id (h.cbsRan id hid)
      · intro id hid; exact ⟨hmono id (h.qRan id hid).1, (h.qRan id hid).2⟩
      · exact h.qNodup
      · intro i u hi
        simp only [setPc_pc] at hi
        by_cases e : i = w
        · simp only [e, ↓reduceIte, PC.postCb.injEq] at hi; subst hi
          simp [State.ranIds]
        · simp only [e, ↓reduceIte] at hi
          exact hmono _ (h.postRan i u hi)
      · intro i u hi
        simp only [setPc_pc] at hi
        by_cases e : i = w
        · simp only [e, ↓reduceIte, PC.postCb.injEq] at hi; subst hi
          exact ⟨fun hh => hf.ran (h.cbsRan _ hh), fun hh => hf.ran (h.qRan _ hh).1⟩
        · simp only [e, ↓reduceIte] at hi
          exact h.postNo i u hi
    · exact h
  | postCb w =>
    simp only [Tbox.C05.step]
    split
    · rename_i t hp
      have hno := h.postNo w t hp
      have hran := h.postRan w t hp
      split
      · constructor
        · exact h.cbsNodup
        · exact h.cbsRan
        · intro id hid
          simp only [setPc_loopQ, cbIds_append, cbIds_cb, cbIds_nil, List.mem_append, List.mem_singleton] at hid
          rcases hid with hid | rfl
          · exact h.qRan id hid
          · exact ⟨hran, hno.1⟩
        · simp only [setPc_loopQ, cbIds_append, cbIds_cb, cbIds_nil]
          rw [List.nodup_append]
          refine ⟨h.qNodup, by simp, ?_⟩
          intro a ha b hb
          simp at hb; subst hb
          intro e; subst e; exact hno.2 ha
        · intro i u hi
          simp only [setPc_pc] at hi
          by_cases e : i = w
          · simp [e] at hi
          · simp only [e, ↓reduceIte] at hi; exact h.postRan i u hi
        · intro i u hi
          simp only [setPc_pc] at hi
          by_cases e : i = w
          · simp [e] at hi
          · simp only [e, ↓reduceIte] at hi
            have := h.postNo i u hi
            refine ⟨this.1, ?_⟩
            simp only [setPc_loopQ, cbIds_append, cbIds_cb, cbIds_nil, List.mem_append, List.mem_singleton, not_or]
            refine ⟨this.2, fun e' => e ?_⟩
            exact ht.holdInj i w u t (by rw [hi]; rfl) (by rw [hp]; rfl) e'
      · exact h.setPc_other w (by simp)
    · exact h
  | finish w =>
    simp only [Tbox.C05.step]
    split
    · refine CbInv.setPc_other ?_ w (by simp)
      exact h.of_eq rfl rfl rfl rfl
    · exact h
  | selfRemove w =>
    simp only [Tbox.C05.step]
    split
    · refine CbInv.setPc_other ?_ w (by simp)
      exact h.weaken rfl (by simp) rfl (fun _ _ => id)
    · split
      · refine CbInv.setPc_other ?_ w (by simp)
        exact h.weaken rfl (by simp) rfl (fun _ _ => id)
      · split
        · exact h.setPc_other w (by simp)
        · refine CbInv.setPc_other ?_ w (by simp)
          exact h.weaken rfl (by simp) rfl (fun _ _ => id)

theorem CbInv.init (c : Cfg) : CbInv (init c) := by
  constructor
  · simp [Tbox.C05.init]
  · intro id hid; simp [Tbox.C05.init] at hid
  · intro id hid; simp [Tbox.C05.init] at hid
  · simp [Tbox.C05.init]
  · intro w t hw; simp only [Tbox.C05.init] at hw; split at hw <;> cases hw
  · intro w t hw; simp only [Tbox.C05.init] at hw; split at hw <;> cases hw

theorem CbInv.exec {s : State} (h : CbInv s) (ht : TaskInv s) (sts : List Step) (s' : State)
    (he : exec s sts = some s') : CbInv s' := by
  induction sts generalizing s with
  | nil => simp [Tbox.C05.exec] at he; exact he ▸ h
  | cons st sts ih =>
    simp only [Tbox.C05.exec] at he
    split at he
    · rename_i hv; exact ih (h.step ht st) (ht.step st hv) he
    · cases he

end Tbox.C05
