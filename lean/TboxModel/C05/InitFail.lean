/-
C05 — `initialize()` AFTER cleanup() WHOSE THREAD CREATION FAILS (thread_pool.cpp:111-149, fix C05-06).

The critical section writes `min_thread_num`, `max_thread_num`, `all_threads_stop_flag = false` and creates workers until
`createWorker()` reports a failure: `k < min` workers exist.  Then `is_ready = true` and the call runs `cleanup()` ITSELF
and answers false.  `reinitF` transcribes the writes (it differs from `reinit` only in the number of workers: `k`
instead of `min`); the internal cleanup() is the ordinary step sequence `cleanup1, setStop, notifyAll, join…, cleanupRet`.

While the loop thread is inside that call nobody can submit a task: there is no task (the previous cleanup() has
returned: `C05_cleanup_resets`), so no body and no callback runs, and the loop thread is busy.  Hence no `execute` /
`executeF` step occurs between `reinitF` and `cleanupRet` — and those are the ONLY steps that read `max_thread_num`;
`min_thread_num` is read by the worker's exit test `threads_cabinet.size() > min_thread_num` alone, which is false as long
as the cabinet holds at most `k ≤ min` threads.  So the failed call is, step for step, the accepted call
`initialize(k, max k 1)` followed by cleanup(), up to the two stored limits (`C05_failed_initialize_reduces`): the
replay takes that stand-in (Driver: `P initf`), and every theorem about lifecycles (`C05_lifecycles_safe`,
`C05_lifecycles_cleanup`: every created worker is joined, nothing is left running) applies to the failed call
(`C05_failed_initialize_joins_all`).  The limits themselves are rewritten by the next accepted initialize().
-/
import TboxModel.C05.PropsLife
namespace Tbox.C05

/-- the writes of a failing `initialize(mn, mx)`: `k` workers were created before `createWorker()` failed -/
def reinitF (s : State) (mn mx k : Nat) : State :=
  { s with cfg := { s.cfg with min := mn, max := mx },
           cab := List.range' s.nW k, nW := s.nW + k,
           pc := fun w => if s.nW ≤ w ∧ w < s.nW + k then .start else s.pc w,
           stop := false, phase1 := false, notified := false, done := false, vec := [] }

/-- the same state with other stored limits -/
def withLimits (s : State) (mn mx : Nat) : State := { s with cfg := { s.cfg with min := mn, max := mx } }

/-- the steps that read `max_thread_num` -/
def readsMax : Step → Bool
  | .execute _ _ | .executeF _ _ => true
  | _ => false

/-- the stand-in's maximum: any legal one (`0 < max`, `k ≤ max`) -/
def standInMax (k : Nat) : Nat := if k = 0 then 1 else k

theorem reinitF_eq (s : State) (mn mx k : Nat) : reinitF s mn mx k = withLimits (reinit s k (standInMax k)) mn mx := rfl

theorem standIn_valid (s : State) (k : Nat) (hd : s.done = true) : validL s (.init k (standInMax k)) = true := by
  simp only [validL, hd, standInMax]
  split <;> simp <;> omega

/-! ## one step under other limits -/

theorem withLimits_valid (s : State) (mn mx : Nat) (x : Step) (hx : readsMax x = false) :
    valid (withLimits s mn mx) x = valid s x := by
  cases x with
  | execute p c => simp [readsMax] at hx
  | executeF p c => simp [readsMax] at hx
  | notifyOne o => cases o <;> rfl
  | _ => rfl

theorem afterPred_withLimits (s : State) (mn mx w : Nat) :
    afterPred (withLimits s mn mx) w = withLimits (afterPred s w) mn mx ∧ (afterPred s w).cfg = s.cfg ∧
    (afterPred s w).cab = s.cab := by
  cases hst : s.stop <;> cases hu : s.undo.isEmpty <;> cases hp : popOne s.undo <;> cases hA : s.cfg.fixA <;>
    simp [afterPred, withLimits, setPc, hst, hu, hp, hA]

theorem withLimits_step (s : State) (mn mx : Nat) (x : Step) (hx : readsMax x = false)
    (h1 : s.cab.length ≤ s.cfg.min) (h2 : s.cab.length ≤ mn) :
    step (withLimits s mn mx) x = withLimits (step s x) mn mx ∧ (step s x).cfg = s.cfg ∧
    (step s x).cab.length ≤ s.cab.length := by
  cases x with
  | execute p c => simp [readsMax] at hx
  | executeF p c => simp [readsMax] at hx
  | enter w =>
    have g1 : ¬ (s.cab.length > s.cfg.min) := by omega
    have g2 : ¬ (s.cab.length > mn) := by omega
    have hL : step (withLimits s mn mx) (.enter w) = afterPred (withLimits { s with idle := s.idle + 1 } mn mx) w := by
      simp [step, withLimits, g2]
    have hR : step s (.enter w) = afterPred { s with idle := s.idle + 1 } w := by
      simp [step, g1]
    have := afterPred_withLimits { s with idle := s.idle + 1 } mn mx w
    rw [hL, hR]
    exact ⟨this.1, this.2.1, by rw [this.2.2]; exact Nat.le_refl _⟩
  | reenter w =>
    have := afterPred_withLimits s mn mx w
    exact ⟨this.1, this.2.1, by show (afterPred s w).cab.length ≤ _; rw [this.2.2]; exact Nat.le_refl _⟩
  | selfRemove w =>
    cases hp : s.pc w with
    | exitVol own =>
      cases own <;> by_cases hc : w ∈ s.cab <;> cases hC : s.cfg.fixC <;> cases hD : s.cfg.fixD <;>
        simp [step, withLimits, setPc, hp, hc, hC, hD, List.length_filter_le]
    | _ =>
      by_cases hc : w ∈ s.cab <;> cases hC : s.cfg.fixC <;> cases hD : s.cfg.fixD <;>
        simp [step, withLimits, setPc, hp, hc, hC, hD, List.length_filter_le]
  | cancel id =>
    have e : cancelAns (withLimits s mn mx) id = cancelAns s id := rfl
    simp only [step, e]
    cases cancelAns s id with
    | zero => exact ⟨rfl, rfl, Nat.le_refl _⟩
    | succ n =>
      cases n with
      | zero => by_cases hr : id ∈ s.ranIds <;> simp [withLimits, State.ranIds] at hr ⊢ <;> simp [hr] <;> exact ⟨rfl, rfl, Nat.le_refl _⟩
      | succ m => exact ⟨rfl, rfl, Nat.le_refl _⟩
  | status id =>
    have e : statusOf (withLimits s mn mx) id = statusOf s id := rfl
    simp only [step, e]
    cases statusOf s id with
    | notFound => by_cases hr : id ∈ s.ranIds <;> simp [withLimits, State.ranIds] at hr ⊢ <;> simp [hr] <;> exact ⟨rfl, rfl, Nat.le_refl _⟩
    | _ => exact ⟨rfl, rfl, Nat.le_refl _⟩
  | loopRun =>
    cases hq : s.loopQ with
    | nil => simp [step, withLimits, hq]
    | cons a q =>
      cases a with
      | joinW w => cases hD : s.cfg.fixD <;> by_cases he : w ∈ s.exiting <;> simp [step, withLimits, hq, hD, he]
      | _ => simp [step, withLimits, hq]
  | notifyOne o => cases o <;> simp [step, withLimits, setPc]
  | markDoing w => cases hp : s.pc w <;> simp [step, withLimits, setPc, hp]
  | runBody w => cases hp : s.pc w <;> simp [step, withLimits, setPc, hp]
  | postCb w =>
    cases hp : s.pc w with
    | postCb t => cases hc : t.cb <;> simp [step, withLimits, setPc, hp, hc]
    | _ => simp [step, withLimits, hp]
  | finish w => cases hp : s.pc w <;> simp [step, withLimits, setPc, hp]
  | _ => simp [step, withLimits, setPc]

/-! ## the whole failed call -/

theorem withLimits_exec (mn mx : Nat) (xs : List Step) (hx : ∀ x ∈ xs, readsMax x = false) :
    ∀ (s : State), s.cab.length ≤ s.cfg.min → s.cab.length ≤ mn →
      exec (withLimits s mn mx) xs = (exec s xs).map (fun t => withLimits t mn mx) := by
  induction xs with
  | nil => intro s _ _; rfl
  | cons x xs ih =>
    intro s h1 h2
    have hxx := hx x (by simp)
    obtain ⟨e1, e2, e3⟩ := withLimits_step s mn mx x hxx h1 h2
    simp only [exec, withLimits_valid s mn mx x hxx]
    split
    · rw [e1]
      exact ih (fun y hy => hx y (by simp [hy])) (step s x) (by rw [e2]; omega) (by omega)
    · rfl

/-- **a failing `initialize(mn, mx)` (k workers created, k ≤ mn) followed by any steps that do not submit a task is,
step for step, the accepted `initialize(k, max k 1)` followed by the same steps** — same enabledness, same states up to
the two stored limits -/
theorem C05_failed_initialize_reduces (s : State) (mn mx k : Nat) (hk : k ≤ mn) (xs : List Step)
    (hx : ∀ x ∈ xs, readsMax x = false) :
    exec (reinitF s mn mx k) xs = (exec (reinit s k (standInMax k)) xs).map (fun t => withLimits t mn mx) := by
  rw [reinitF_eq]
  apply withLimits_exec mn mx xs hx
  · simp [reinit]
  · simp [reinit]; exact hk

/-- **the failed call cleans up after itself**: on any reachable pool whose cleanup() has returned, a failing
initialize() that has created `k` workers and then runs its own cleanup() to the end (steps `xs`, none of them a task
submission — none is possible: the loop thread is inside the call and no task exists) leaves the pool not ready
(`done`), every worker thread ever created joined and returned, no task queued, and the object accepts initialize() again -/
theorem C05_failed_initialize_joins_all (c : Cfg) (hf : c.fixed) (hok : c.ok = true) (pre : List LStep) (s : State)
    (he : execL (init c) pre = some s) (hd : s.done = true) (mn mx k : Nat) (hk : k ≤ mn)
    (xs : List Step) (hx : ∀ x ∈ xs, readsMax x = false) (s' : State)
    (he' : exec (reinitF s mn mx k) xs = some s') (hd' : s'.done = true) :
    (∀ w, w < s'.nW → w ∈ s'.joined ∧ s'.pc w = .exited) ∧ s'.crashed = false ∧
    (∀ mn2 mx2, mn2 ≤ mx2 → 0 < mx2 → validL s' (.init mn2 mx2) = true) := by
  rw [C05_failed_initialize_reduces s mn mx k hk xs hx] at he'
  cases ht : exec (reinit s k (standInMax k)) xs with
  | none => rw [ht] at he'; simp at he'
  | some t =>
    rw [ht] at he'
    have hs' : s' = withLimits t mn mx := by simpa using he'.symm
    -- the stand-in run is a run of the lifecycle model
    have hrun : execL (init c) (pre ++ [.init k (standInMax k)] ++ xs.map .st) = some t := by
      have h1 : ∀ (a : State) (ys : List Step), execL a (ys.map .st) = exec a ys := by
        intro a ys
        induction ys generalizing a with
        | nil => rfl
        | cons y ys ih =>
          simp only [List.map_cons, execL, exec, validL, stepL]
          rw [ih]; rfl
      have h2 : ∀ (a b : State) (p q : List LStep), execL a p = some b → execL a (p ++ q) = execL b q := by
        intro a b p q
        induction p generalizing a with
        | nil => intro h; simp [execL] at h; subst h; rfl
        | cons y ys ih =>
          intro h
          simp only [execL, List.cons_append] at h ⊢
          split at h
          · rename_i hv; simp only [hv, if_true]; exact ih _ h
          · cases h
      rw [List.append_assoc, h2 _ _ _ _ he]
      simp only [List.cons_append, List.nil_append, execL, standIn_valid s k hd, if_true, stepL]
      rw [h1]; exact ht
    have hdt : t.done = true := by rw [hs'] at hd'; exact hd'
    have hc := (C05_lifecycles_cleanup c hf hok _ t hrun).2 hdt
    have hsafe := C05_lifecycles_safe c hf hok _ t hrun
    refine ⟨?_, ?_, ?_⟩
    · intro w hw; rw [hs'] at hw ⊢; exact hc.1 w hw
    · rw [hs']; show t.crashed = false
      exact hsafe.2.2.2.2.2.2.1
    · intro mn2 mx2 h1 h2
      rw [hs']
      simp [validL, withLimits, hdt, h1, h2]

/-! ## non-vacuity -/

/-- a (1,1) pool is cleaned up; `initialize(3, 4)` creates workers 1 and 2 and fails at the third; its own cleanup()
stops and joins both; the object is not ready, holds the limits (3, 4) and accepts initialize() again -/
example :
    ((execL (init { min := 1, max := 1 })
        [.st .cleanup1, .st .setStop, .st .notifyAll, .st (.enter 0), .st (.join 0), .st .cleanupRet]).bind
      (fun s => exec (reinitF s 3 4 2)
        [.enter 1, .block 1, .cleanup1, .setStop, .notifyAll, .enter 2, .reenter 1, .join 1, .join 2, .cleanupRet])).map
      (fun t => [[t.done.toNat, t.cfg.min, t.cfg.max, t.nW, t.idle], t.cab, t.joined,
                 [(t.pc 1 == .exited).toNat, (t.pc 2 == .exited).toNat, (validL t (.init 2 2)).toNat]]) =
      some [[1, 3, 4, 3, 0], [], [2, 1, 0], [1, 1, 1]] := by
  decide

/-- an execute() in between is where the stand-in would differ (it reads `max_thread_num`): excluded by `readsMax` -/
example : readsMax (.execute 0 false) = true ∧ readsMax (.cancel 0) = false ∧ readsMax (.enter 0) = false := by decide

end Tbox.C05
