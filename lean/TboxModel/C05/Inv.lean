/- C05 — invariants of the thread-pool model (definitions + basic lemmas). -/
import TboxModel.C05.Model
namespace Tbox.C05

/-- the task a worker currently holds (popped, not yet released) -/
def PC.task? : PC → Option Tk
  | .picked t | .running t | .postCb t | .finishing t => some t
  | _ => none

/-- the task a worker holds and whose body has NOT yet been executed (it is going to run) -/
def PC.pre? : PC → Option Tk
  | .picked t | .running t => some t
  | _ => none

theorem PC.task_of_pre {p : PC} {t : Tk} (h : p.pre? = some t) : p.task? = some t := by
  cases p <;> simp_all [PC.pre?, PC.task?]

/-- a task id that is accounted for as finished / never to run -/
structure Fresh (s : State) (id : Nat) : Prop where
  ran : id ∉ s.ranIds
  can : id ∉ s.cancelled
  drp : id ∉ s.dropped
  nf  : id ∉ s.nfEarly

/-- the repaired configuration -/
def Cfg.fixed (c : Cfg) : Prop :=
  c.fixA = true ∧ c.fixB = true ∧ c.fixC = true ∧ c.fixD = true ∧ c.fixE = true

instance (c : Cfg) : Decidable c.fixed := by unfold Cfg.fixed; infer_instance

/-- task accounting -/
structure TaskInv (s : State) : Prop where
  fixA     : s.cfg.fixA = true
  undoLt   : ∀ t ∈ s.undo, t.id < s.nextTask
  holdLt   : ∀ w t, (s.pc w).task? = some t → t.id < s.nextTask
  holdOut  : ∀ w t, (s.pc w).task? = some t → ∀ u ∈ s.undo, u.id ≠ t.id
  preFresh : ∀ w t, (s.pc w).pre? = some t → Fresh s t.id
  undoFresh : ∀ t ∈ s.undo, Fresh s t.id
  holdInj  : ∀ w w' t t', (s.pc w).task? = some t → (s.pc w').task? = some t' → t.id = t'.id → w = w'
  ranNodup : s.ranIds.Nodup
  runDoing : ∀ w t, s.pc w = .running t → t.id ∈ s.doing
  noPicked : ∀ w t, s.pc w ≠ .picked t
  deadLt   : ∀ id, (id ∈ s.ranIds ∨ id ∈ s.cancelled ∨ id ∈ s.dropped ∨ id ∈ s.nfEarly) → id < s.nextTask
  ranExcl  : ∀ id ∈ s.ranIds, id ∉ s.cancelled ∧ id ∉ s.dropped ∧ id ∉ s.nfEarly
  canDrp   : ∀ id ∈ s.cancelled, id ∉ s.dropped

@[simp] theorem setPc_pc (s : State) (w : Nat) (p : PC) (i : Nat) :
    (setPc s w p).pc i = if i = w then p else s.pc i := rfl
@[simp] theorem setPc_undo (s : State) (w : Nat) (p : PC) : (setPc s w p).undo = s.undo := rfl
@[simp] theorem setPc_doing (s : State) (w : Nat) (p : PC) : (setPc s w p).doing = s.doing := rfl
@[simp] theorem setPc_nextTask (s : State) (w : Nat) (p : PC) : (setPc s w p).nextTask = s.nextTask := rfl
@[simp] theorem setPc_ran (s : State) (w : Nat) (p : PC) : (setPc s w p).ran = s.ran := rfl
@[simp] theorem setPc_ranIds (s : State) (w : Nat) (p : PC) : (setPc s w p).ranIds = s.ranIds := rfl
@[simp] theorem setPc_cancelled (s : State) (w : Nat) (p : PC) : (setPc s w p).cancelled = s.cancelled := rfl
@[simp] theorem setPc_dropped (s : State) (w : Nat) (p : PC) : (setPc s w p).dropped = s.dropped := rfl
@[simp] theorem setPc_nfEarly (s : State) (w : Nat) (p : PC) : (setPc s w p).nfEarly = s.nfEarly := rfl
@[simp] theorem setPc_cfg (s : State) (w : Nat) (p : PC) : (setPc s w p).cfg = s.cfg := rfl
@[simp] theorem setPc_cab (s : State) (w : Nat) (p : PC) : (setPc s w p).cab = s.cab := rfl
@[simp] theorem setPc_vec (s : State) (w : Nat) (p : PC) : (setPc s w p).vec = s.vec := rfl
@[simp] theorem setPc_nW (s : State) (w : Nat) (p : PC) : (setPc s w p).nW = s.nW := rfl
@[simp] theorem setPc_lock (s : State) (w : Nat) (p : PC) : (setPc s w p).lock = s.lock := rfl
@[simp] theorem setPc_stop (s : State) (w : Nat) (p : PC) : (setPc s w p).stop = s.stop := rfl
@[simp] theorem setPc_phase1 (s : State) (w : Nat) (p : PC) : (setPc s w p).phase1 = s.phase1 := rfl
@[simp] theorem setPc_notified (s : State) (w : Nat) (p : PC) : (setPc s w p).notified = s.notified := rfl
@[simp] theorem setPc_done (s : State) (w : Nat) (p : PC) : (setPc s w p).done = s.done := rfl
@[simp] theorem setPc_loopQ (s : State) (w : Nat) (p : PC) : (setPc s w p).loopQ = s.loopQ := rfl
@[simp] theorem setPc_cbs (s : State) (w : Nat) (p : PC) : (setPc s w p).cbs = s.cbs := rfl
@[simp] theorem setPc_crashed (s : State) (w : Nat) (p : PC) : (setPc s w p).crashed = s.crashed := rfl
@[simp] theorem setPc_picks (s : State) (w : Nat) (p : PC) : (setPc s w p).picks = s.picks := rfl
@[simp] theorem setPc_exiting (s : State) (w : Nat) (p : PC) : (setPc s w p).exiting = s.exiting := rfl
@[simp] theorem setPc_pend (s : State) (w : Nat) (p : PC) : (setPc s w p).pend = s.pend := rfl
@[simp] theorem setPc_idle (s : State) (w : Nat) (p : PC) : (setPc s w p).idle = s.idle := rfl
@[simp] theorem setPc_nextQ (s : State) (w : Nat) (p : PC) : (setPc s w p).nextQ = s.nextQ := rfl
@[simp] theorem setPc_joined (s : State) (w : Nat) (p : PC) : (setPc s w p).joined = s.joined := rfl

theorem Fresh.of_eq {s s' : State} {id : Nat} (h : Fresh s id) (h1 : s'.ran = s.ran)
    (h2 : s'.cancelled = s.cancelled) (h3 : s'.dropped = s.dropped) (h4 : s'.nfEarly = s.nfEarly) : Fresh s' id := by
  refine ⟨?_, h2 ▸ h.can, h3 ▸ h.drp, h4 ▸ h.nf⟩
  simp only [State.ranIds, h1]; exact h.ran

/-- TaskInv only reads these fields; a worker whose program counter changed to one that holds
no task only removes obligations -/
theorem TaskInv.weaken {s s' : State} (h : TaskInv s) (h0 : s'.cfg = s.cfg) (h1 : s'.undo = s.undo)
    (h2 : s'.doing = s.doing) (h4 : s'.nextTask = s.nextTask) (h5 : s'.ran = s.ran)
    (h6 : s'.cancelled = s.cancelled) (h7 : s'.dropped = s.dropped) (h8 : s'.nfEarly = s.nfEarly)
    (hpc : ∀ i, s'.pc i = s.pc i ∨ (s'.pc i).task? = none) : TaskInv s' := by
  have hr : s'.ranIds = s.ranIds := by simp only [State.ranIds, h5]
  have key : ∀ i t, (s'.pc i).task? = some t → s'.pc i = s.pc i := by
    intro i t hi; rcases hpc i with e | e
    · exact e
    · rw [e] at hi; cases hi
  have keyp : ∀ i t, (s'.pc i).pre? = some t → s'.pc i = s.pc i :=
    fun i t hi => key i t (PC.task_of_pre hi)
  constructor
  · rw [h0]; exact h.fixA
  · rw [h1, h4]; exact h.undoLt
  · rw [h4]; intro i t hi; exact h.holdLt i t (key i t hi ▸ hi)
  · rw [h1]; intro i t hi; exact h.holdOut i t (key i t hi ▸ hi)
  · intro i t hi; exact (h.preFresh i t (keyp i t hi ▸ hi)).of_eq h5 h6 h7 h8
  · rw [h1]; intro t ht; exact (h.undoFresh t ht).of_eq h5 h6 h7 h8
  · intro i i' t t' hi hi'; exact h.holdInj i i' t t' (key i t hi ▸ hi) (key i' t' hi' ▸ hi')
  · rw [hr]; exact h.ranNodup
  · rw [h2]; intro i t hi; exact h.runDoing i t (key i t (by rw [hi]; rfl) ▸ hi)
  · intro i t hi; exact h.noPicked i t (key i t (by rw [hi]; rfl) ▸ hi)
  · rw [hr, h6, h7, h8, h4]; exact h.deadLt
  · rw [hr, h6, h7, h8]; exact h.ranExcl
  · rw [h6, h7]; exact h.canDrp

theorem TaskInv.of_eq {s s' : State} (h : TaskInv s) (h0 : s'.cfg = s.cfg) (h1 : s'.undo = s.undo)
    (h2 : s'.doing = s.doing) (h3 : s'.pc = s.pc) (h4 : s'.nextTask = s.nextTask) (h5 : s'.ran = s.ran)
    (h6 : s'.cancelled = s.cancelled) (h7 : s'.dropped = s.dropped) (h8 : s'.nfEarly = s.nfEarly) : TaskInv s' :=
  h.weaken h0 h1 h2 h4 h5 h6 h7 h8 (fun i => Or.inl (by rw [h3]))

theorem TaskInv.setPc_none {s : State} (h : TaskInv s) (w : Nat) {p : PC} (hp : p.task? = none) :
    TaskInv (setPc s w p) :=
  h.weaken rfl rfl rfl rfl rfl rfl rfl rfl (fun i => by
    simp only [setPc_pc]; by_cases hw : i = w
    · right; simp [hw, hp]
    · left; simp [hw])

end Tbox.C05
