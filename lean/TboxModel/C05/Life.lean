/-
C05 — SEVERAL LIFECYCLES OF ONE POOL OBJECT: `initialize()` after `cleanup()` has returned (thread_pool.cpp:111-149).

`initialize()` is refused while `is_ready`; after cleanup() (`is_ready = false`) it is accepted again on the SAME object.
What it writes: `min_thread_num`, `max_thread_num`, `all_threads_stop_flag = false`, and it creates `min` workers
(`threads_cabinet.alloc` — the cabinet's id counter is NOT reset by `clear()`, so worker tokens continue; the same holds for
`undo_tasks_cabinet`, whose entries are freed one by one: task tokens continue as well).  What it does NOT write:
`idle_thread_num`, the five token deques, `doing_tasks_token`, `undo_tasks_cabinet`, `exiting_threads`,
`undo_task_peak_num_` (a statistic that is never reset) and the loop's queue (callbacks / joins posted during the first
lifecycle may still be there).  So a second lifecycle starts from a clean state only if cleanup() LEFT everything else
as the constructor had it: that is `C05_cleanup_resets` (LifeProofs.lean / PropsLife.lean) — e.g. a worker that leaves through the
stop flag without `--idle_thread_num` (seeded change C05-7) leaves `idle_thread_num` stale and the next lifecycle never
spawns.

`reinit` transcribes exactly the writes; everything else is carried over unchanged (NOT reset by the model either).
Ghost history (`ran`, `cbs`, `cancelled`, `dropped`, `nfEarly`, `picks`, `joined`) accumulates over the lifecycles, so the
theorems speak about stale tokens of earlier lifecycles too.  `phase1 / notified / done / vec` are cleanup()'s control
state and locals.
-/
import TboxModel.C05.Model
namespace Tbox.C05

/-- `initialize(mn, mx)` accepted on a pool that is not ready: the new workers get the next `mn` thread numbers -/
def reinit (s : State) (mn mx : Nat) : State :=
  { s with cfg := { s.cfg with min := mn, max := mx },
           cab := List.range' s.nW mn, nW := s.nW + mn,
           pc := fun w => if s.nW ≤ w ∧ w < s.nW + mn then .start else s.pc w,
           stop := false, phase1 := false, notified := false, done := false, vec := [] }

inductive LStep where
  | st (x : Step)
  | init (mn mx : Nat)      -- initialize(mn, mx) that is accepted
deriving Repr, DecidableEq

/-- `initialize()` is accepted iff the pool is not ready (here: cleanup() has returned — the constructor's state is `init`)
and the arguments pass the test of `Cfg.okI` -/
def validL (s : State) : LStep → Bool
  | .st x => valid s x
  | .init mn mx => s.done && decide (mn ≤ mx) && decide (0 < mx)

def stepL (s : State) : LStep → State
  | .st x => step s x
  | .init mn mx => reinit s mn mx

def execL (s : State) : List LStep → Option State
  | [] => some s
  | x :: xs => if validL s x then execL (stepL s x) xs else none

/-- the state `init c` shifted to thread numbers from `w0` and task numbers from `t0`: what a second lifecycle must
start from (physical fields only; compared field by field in `C05_cleanup_resets`) -/
def initAt (c : Cfg) (w0 : Nat) : State :=
  { cfg := c, cab := List.range' w0 c.min, nW := w0 + c.min,
    pc := fun w => if w0 ≤ w ∧ w < w0 + c.min then .start else .exited }

end Tbox.C05
