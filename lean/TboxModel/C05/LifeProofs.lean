/- C05 — second lifecycle: one more inductive invariant (`LifeInv`: the running set only names tasks a worker holds, self-exited
workers are not yet joined, no notify_one is owed once cleanup() has begun, cleanup() returns only after its notify_all), and
the proof that `reinit` (initialize() after cleanup() has returned) re-establishes every invariant of `Reach`. -/
import TboxModel.C05.Props
import TboxModel.C05.Life
namespace Tbox.C05

def Held (s : State) (id : Nat) : Prop := ∃ w t, (s.pc w).task? = some t ∧ t.id = id

structure LifeInv (s : State) : Prop where
  doingHeld : ∀ id ∈ s.doing, Held s id
  exitNJ    : ∀ w ∈ s.exiting, w ∉ s.joined
  pend0     : s.phase1 = true → s.pend = 0
  doneNotif : s.done = true → s.notified = true

theorem held_setPc {s s0 : State} (h : ∀ id ∈ s.doing, Held s id) (w : Nat) (p : PC) (hpc0 : s0.pc = s.pc)
    (hd : ∀ id ∈ s0.doing, id ∈ s.doing ∨ (∃ t, p.task? = some t ∧ t.id = id))
    (hb : ∀ t, (s.pc w).task? = some t → p.task? = some t ∨ t.id ∉ s0.doing) :
    ∀ id ∈ (setPc s0 w p).doing, Held (setPc s0 w p) id := by
  intro id hid
  simp only [setPc_doing] at hid
  rcases hd id hid with h1 | ⟨t, ht, rfl⟩
  · obtain ⟨w', t, hw', rfl⟩ := h id h1
    by_cases e : w' = w
    · subst e
      rcases hb t hw' with h2 | h2
      · exact ⟨w', t, by simp [h2], rfl⟩
      · exact absurd hid h2
    · exact ⟨w', t, by simp [e, hpc0, hw'], rfl⟩
  · exact ⟨w, t, by simp [ht], rfl⟩

/-- the same when no program counter changes -/
theorem held_same {s s0 : State} (h : ∀ id ∈ s.doing, Held s id) (hpc0 : s0.pc = s.pc) (hd : s0.doing = s.doing) :
    ∀ id ∈ s0.doing, Held s0 id := by
  intro id hid
  rw [hd] at hid
  obtain ⟨w, t, hw, rfl⟩ := h id hid
  exact ⟨w, t, by rw [hpc0]; exact hw, rfl⟩

theorem held_afterPred {s : State} (h : ∀ id ∈ s.doing, Held s id) (w : Nat) (hp : (s.pc w).task? = none) :
    ∀ id ∈ (afterPred s w).doing, Held (afterPred s w) id := by
  unfold afterPred
  split
  · split
    · exact held_setPc h w _ rfl (fun id hid => Or.inl hid) (fun t ht => by rw [hp] at ht; cases ht)
    · split
      · exact held_setPc h w _ rfl (fun id hid => Or.inl hid) (fun t ht => by rw [hp] at ht; cases ht)
      · rename_i t _
        split
        · refine held_setPc h w _ rfl (fun id hid => ?_) (fun t ht => by rw [hp] at ht; cases ht)
          simp only [List.mem_cons] at hid
          rcases hid with rfl | hid
          · exact Or.inr ⟨t, rfl, rfl⟩
          · exact Or.inl hid
        · exact held_setPc h w _ rfl (fun id hid => Or.inl hid) (fun t ht => by rw [hp] at ht; cases ht)
  · exact held_setPc h w _ rfl (fun id hid => Or.inl hid) (fun t ht => by rw [hp] at ht; cases ht)

theorem afterPred_idle_exiting (s : State) (w : Nat) :
    (afterPred s w).exiting = s.exiting ∧ (afterPred s w).joined = s.joined ∧ (afterPred s w).phase1 = s.phase1 ∧
    (afterPred s w).pend = s.pend ∧ (afterPred s w).done = s.done ∧ (afterPred s w).notified = s.notified := by
  unfold afterPred
  (repeat' split) <;> simp

theorem LifeInv.step {s : State} (h : LifeInv s) (hw : WorkerInv s) (hj : JoinInv s) (st : Step) (hv : valid s st = true) :
    LifeInv (step s st) := by
  obtain ⟨h1, h2, h3, h4⟩ := h
  have outside : ∀ w, s.nW ≤ w → (s.pc w).task? = none := by
    intro w hle
    cases hp : (s.pc w).active
    · cases hpc : s.pc w <;> simp_all [PC.active, PC.task?]
    · have := hw.bound w (hw.live w hp); omega
  cases st with
  | execute prio cb =>
    simp only [valid, inCleanup, Bool.and_eq_true, Bool.not_eq_true', Bool.and_eq_false_iff] at hv
    simp only [Tbox.C05.step]
    split
    · exact ⟨h1, h2, h3, h4⟩
    · rename_i hd
      have hph : s.phase1 = false := by
        rcases hv.2 with hp | hp
        · exact hp
        · simp at hp; exact absurd hp hd
      have hdn : s.done = false := by simpa using hd
      split
      · split
        · refine ⟨?_, h2, fun hp => by simp [hph] at hp, fun hp => by simp [hdn] at hp⟩
          exact held_setPc h1 _ _ rfl (fun id hid => Or.inl hid)
            (fun t ht => by rw [outside _ (Nat.le_refl _)] at ht; cases ht)
        · exact ⟨held_same h1 rfl rfl, h2, fun hp => by simp [hph] at hp, fun hp => by simp [hdn] at hp⟩
      · exact ⟨held_same h1 rfl rfl, h2, fun hp => by simp [hph] at hp, fun hp => by simp [hdn] at hp⟩
  | executeF prio cb =>
    simp only [valid, inCleanup, Bool.and_eq_true, Bool.not_eq_true', Bool.and_eq_false_iff, decide_eq_true_eq] at hv
    simp only [Tbox.C05.step]
    have hdn : s.done = false := hv.1.1.2
    have hph : s.phase1 = false := by
      rcases hv.1.1.1.2 with hp | hp
      · exact hp
      · simp [hdn] at hp
    split
    · exact ⟨h1, h2, h3, h4⟩
    · exact ⟨held_same h1 rfl rfl, h2, fun hp => by simp [hph] at hp, fun hp => by simp [hdn] at hp⟩
  | cancel id =>
    simp only [Tbox.C05.step]
    (repeat' split) <;> exact ⟨held_same h1 rfl rfl, h2, h3, h4⟩
  | status id =>
    simp only [Tbox.C05.step]
    (repeat' split) <;> exact ⟨held_same h1 rfl rfl, h2, h3, h4⟩
  | snapshot => exact ⟨h1, h2, h3, h4⟩
  | cleanup1 =>
    simp only [valid, Bool.and_eq_true, Bool.not_eq_true', decide_eq_true_eq] at hv
    exact ⟨held_same h1 rfl rfl, h2, fun _ => hv.2, fun hd => by
      have hd' : s.done = true := hd
      have := hj.donePhase hd'; rw [hv.1.2] at this; cases this⟩
  | setStop => exact ⟨held_same h1 rfl rfl, h2, h3, h4⟩
  | notifyAll =>
    simp only [Tbox.C05.step]
    refine ⟨?_, h2, h3, fun _ => rfl⟩
    intro id hid
    obtain ⟨w, t, hw', rfl⟩ := h1 id hid
    refine ⟨w, t, ?_, rfl⟩
    simp only
    split
    · rename_i hq; simp only [beq_iff_eq] at hq; rw [hq] at hw'; cases hw'
    · exact hw'
  | join w =>
    simp only [valid, Bool.and_eq_true, Bool.not_eq_true', beq_iff_eq] at hv
    simp only [Tbox.C05.step]
    refine ⟨held_same h1 rfl rfl, ?_, h3, h4⟩
    intro x hx
    simp only [List.mem_filter, bne_iff_ne, ne_eq] at hx
    simp only [List.mem_cons, not_or]
    exact ⟨by simpa using hx.2, h2 x hx.1⟩
  | cleanupRet =>
    simp only [valid, Bool.and_eq_true, Bool.not_eq_true'] at hv
    exact ⟨held_same h1 rfl rfl, h2, h3, fun _ => hv.1.1⟩
  | loopRun =>
    simp only [Tbox.C05.step]
    split
    · exact ⟨h1, h2, h3, h4⟩
    · exact ⟨held_same h1 rfl rfl, h2, h3, h4⟩
    · split
      · exact ⟨held_same h1 rfl rfl, h2, h3, h4⟩
      · refine ⟨held_same h1 rfl rfl, ?_, h3, h4⟩
        intro x hx
        simp only [List.mem_filter, bne_iff_ne, ne_eq] at hx
        simp only [List.mem_cons, not_or]
        exact ⟨by simpa using hx.2, h2 x hx.1⟩
    · exact ⟨held_same h1 rfl rfl, h2, h3, h4⟩
  | notifyOne ow =>
    cases ow with
    | none =>
      simp only [valid, Bool.and_eq_true, decide_eq_true_eq] at hv
      refine ⟨held_same h1 rfl rfl, h2, fun hp => ?_, h4⟩
      have := h3 hp; omega
    | some w =>
      simp only [valid, Bool.and_eq_true, decide_eq_true_eq, beq_iff_eq] at hv
      simp only [Tbox.C05.step]
      refine ⟨held_setPc h1 w _ rfl (fun id hid => Or.inl hid) (fun t ht => by rw [hv.2] at ht; cases ht), h2, fun hp => ?_, h4⟩
      have := h3 hp; omega
  | enter w =>
    simp only [valid, Bool.and_eq_true, decide_eq_true_eq, beq_iff_eq, Bool.not_eq_true'] at hv
    have hpw : (s.pc w).task? = none := by rw [hv.2]; rfl
    have hnj : w ∉ s.joined := fun hjn => by
      have := (hj.joinedEx w hjn).1; rw [hv.2] at this; cases this
    simp only [Tbox.C05.step]
    split
    · split
      · refine ⟨held_setPc h1 w _ rfl (fun id hid => Or.inl hid) (fun t ht => by rw [hpw] at ht; cases ht), ?_, h3, h4⟩
        intro x hx
        simp only [setPc_exiting] at hx
        split at hx
        · simp only [List.mem_append, List.mem_singleton] at hx
          rcases hx with hx | rfl
          · exact h2 x hx
          · exact hnj
        · exact h2 x hx
      · exact ⟨held_setPc h1 w _ rfl (fun id hid => Or.inl hid) (fun t ht => by rw [hpw] at ht; cases ht), h2, h3, h4⟩
    · have ha := afterPred_idle_exiting { s with idle := s.idle + 1 } w
      refine ⟨held_afterPred (s := { s with idle := s.idle + 1 }) h1 w hpw, ?_, ?_, ?_⟩
      · rw [ha.1, ha.2.1]; exact h2
      · rw [ha.2.2.1, ha.2.2.2.1]; exact h3
      · rw [ha.2.2.2.2.1, ha.2.2.2.2.2]; exact h4
  | block w =>
    simp only [valid, Bool.and_eq_true, decide_eq_true_eq, beq_iff_eq] at hv
    exact ⟨held_setPc h1 w _ rfl (fun id hid => Or.inl hid) (fun t ht => by rw [hv.2] at ht; cases ht), h2, h3, h4⟩
  | wake w =>
    simp only [valid, Bool.and_eq_true, decide_eq_true_eq, beq_iff_eq] at hv
    exact ⟨held_setPc h1 w _ rfl (fun id hid => Or.inl hid) (fun t ht => by rw [hv.2] at ht; cases ht), h2, h3, h4⟩
  | reenter w =>
    simp only [valid, Bool.and_eq_true, decide_eq_true_eq, beq_iff_eq, Bool.not_eq_true'] at hv
    have hpw : (s.pc w).task? = none := by rw [hv.2]; rfl
    have ha := afterPred_idle_exiting s w
    simp only [Tbox.C05.step]
    refine ⟨held_afterPred h1 w hpw, ?_, ?_, ?_⟩
    · rw [ha.1, ha.2.1]; exact h2
    · rw [ha.2.2.1, ha.2.2.2.1]; exact h3
    · rw [ha.2.2.2.2.1, ha.2.2.2.2.2]; exact h4
  | markDoing w =>
    simp only [Tbox.C05.step]
    split
    · rename_i t hp
      refine ⟨held_setPc h1 w _ rfl (fun id hid => ?_) (fun t' ht => by rw [hp] at ht; exact Or.inl ht), h2, h3, h4⟩
      simp only [List.mem_cons] at hid
      rcases hid with rfl | hid
      · exact Or.inr ⟨t, rfl, rfl⟩
      · exact Or.inl hid
    · exact ⟨h1, h2, h3, h4⟩
  | runBody w =>
    simp only [Tbox.C05.step]
    split
    · rename_i t hp
      exact ⟨held_setPc h1 w _ rfl (fun id hid => Or.inl hid) (fun t' ht => by rw [hp] at ht; exact Or.inl ht), h2, h3, h4⟩
    · exact ⟨h1, h2, h3, h4⟩
  | postCb w =>
    simp only [Tbox.C05.step]
    split
    · rename_i t hp
      split
      · exact ⟨held_setPc h1 w _ rfl (fun id hid => Or.inl hid) (fun t' ht => by rw [hp] at ht; exact Or.inl ht), h2, h3, h4⟩
      · exact ⟨held_setPc h1 w _ rfl (fun id hid => Or.inl hid) (fun t' ht => by rw [hp] at ht; exact Or.inl ht), h2, h3, h4⟩
    · exact ⟨h1, h2, h3, h4⟩
  | finish w =>
    simp only [Tbox.C05.step]
    split
    · rename_i t hp
      refine ⟨held_setPc h1 w _ rfl (fun id hid => ?_) (fun t' ht => ?_), h2, h3, h4⟩
      · simp only [List.mem_filter] at hid; exact Or.inl hid.1
      · rw [hp] at ht; simp only [PC.task?, Option.some.injEq] at ht; subst ht
        right; simp
    · exact ⟨h1, h2, h3, h4⟩
  | selfRemove w =>
    simp only [valid, Bool.and_eq_true, decide_eq_true_eq] at hv
    have hnj : w ∉ s.joined := fun hjn => by
      have := (hj.joinedEx w hjn).1; rw [this] at hv; simp at hv
    have hpw : (s.pc w).task? = none := by
      cases hp : s.pc w <;> simp_all [PC.task?]
    simp only [Tbox.C05.step]
    split
    · exact ⟨held_setPc h1 w _ rfl (fun id hid => Or.inl hid) (fun t ht => by rw [hpw] at ht; cases ht), h2, h3, h4⟩
    · split
      · refine ⟨held_setPc h1 w _ rfl (fun id hid => Or.inl hid) (fun t ht => by rw [hpw] at ht; cases ht), ?_, h3, h4⟩
        intro x hx
        simp only [setPc_exiting] at hx
        split at hx
        · simp only [List.mem_append, List.mem_singleton] at hx
          rcases hx with hx | rfl
          · exact h2 x hx
          · exact hnj
        · exact h2 x hx
      · split
        · exact ⟨held_setPc h1 w _ rfl (fun id hid => Or.inl hid) (fun t ht => by rw [hpw] at ht; cases ht), h2, h3, h4⟩
        · exact ⟨held_setPc h1 w _ rfl (fun id hid => Or.inl hid) (fun t ht => by rw [hpw] at ht; cases ht), h2, h3, h4⟩
  | threadEnd w =>
    simp only [valid, Bool.and_eq_true, decide_eq_true_eq, beq_iff_eq] at hv
    exact ⟨held_setPc h1 w _ rfl (fun id hid => Or.inl hid) (fun t ht => by rw [hv.2] at ht; cases ht), h2, h3, h4⟩

theorem LifeInv.init (c : Cfg) : LifeInv (init c) := by
  refine ⟨?_, ?_, ?_, ?_⟩ <;> simp [Tbox.C05.init]

/-! ### what cleanup() leaves behind -/

/-- everything `Reach` + `LifeInv` say about a state in which cleanup() has returned -/
structure Quiet (s : State) : Prop where
  undo    : s.undo = []
  doing   : s.doing = []
  idle    : s.idle = 0
  cab     : s.cab = []
  exiting : s.exiting = []
  pend    : s.pend = 0
  lock    : s.lock = false
  stop    : s.stop = true
  exited  : ∀ w, w < s.nW → s.pc w = .exited
  noTask  : ∀ w, (s.pc w).task? = none
  inactive : ∀ w, (s.pc w).active = false

theorem quiet_of_done {c : Cfg} {s : State} (h : Reach c s) (hl : LifeInv s) (hd : s.done = true) : Quiet s := by
  have hph := h.join.donePhase hd
  have hex : ∀ w, w < s.nW → s.pc w = .exited := fun w hw => (h.join.joinedEx w (h.join.doneAll hd w hw)).1
  have hcab : s.cab = [] := h.work.ph1 hph
  have hinact : ∀ w, (s.pc w).active = false := by
    intro w
    cases hp : (s.pc w).active
    · rfl
    · have hlt := h.work.bound w (h.work.live w hp)
      rw [hex w hlt] at hp; simp [PC.active] at hp
  have hnt : ∀ w, (s.pc w).task? = none := by
    intro w
    have := hinact w
    cases hp : s.pc w <;> simp_all [PC.active, PC.task?]
  have hstop : s.stop = true := (h.lock.notif (hl.doneNotif hd)).1
  refine ⟨h.acct.noUndo hph, ?_, ?_, hcab, ?_, hl.pend0 hph, h.lock.stopFree hstop, hstop, hex, hnt, hinact⟩
  · -- doing
    cases hdo : s.doing with
    | nil => rfl
    | cons id rest =>
      obtain ⟨w, t, hw, _⟩ := hl.doingHeld id (by rw [hdo]; exact List.mem_cons_self)
      rw [hnt w] at hw; cases hw
  · -- idle
    have hle := h.strand.idleLe
    have : nIdle s = 0 := by
      unfold nIdle
      apply cntF_zero_of
      intro i hi
      rw [hex i hi]; rfl
    omega
  · -- exiting
    cases hexi : s.exiting with
    | nil => rfl
    | cons w rest =>
      have hm : w ∈ s.exiting := by rw [hexi]; exact List.mem_cons_self
      exact absurd (h.join.doneAll hd w (h.join.exitBound w hm)) (hl.exitNJ w hm)

/-! ### `reinit` re-establishes every invariant -/

section Reinit
variable {c : Cfg} {s : State} (h : Reach c s) (hl : LifeInv s) (hd : s.done = true) (mn mx : Nat) (hmm : mn ≤ mx) (hmx : 0 < mx)
include h hl hd
omit h hl hd in
theorem reinit_pc_old (w : Nat) (hw : ¬ (s.nW ≤ w ∧ w < s.nW + mn)) : (reinit s mn mx).pc w = s.pc w := by
  simp [reinit, hw]

theorem reinit_pc_task (w : Nat) : ((reinit s mn mx).pc w).task? = none := by
  have q := quiet_of_done h hl hd
  simp only [reinit]
  split
  · rfl
  · exact q.noTask w

theorem TaskInv.atReinit : TaskInv (reinit s mn mx) := by
  have q := quiet_of_done h hl hd
  have ht := h.task
  have nt := reinit_pc_task h hl hd mn mx
  have np : ∀ w, ((reinit s mn mx).pc w).pre? = none := fun w => by
    have := nt w; cases hp : (reinit s mn mx).pc w <;> simp_all [PC.task?, PC.pre?]
  refine ⟨ht.fixA, ht.undoLt, ?_, ?_, ?_, fun t hu => (ht.undoFresh t hu).of_eq rfl rfl rfl rfl, ?_, ht.ranNodup, ?_, ?_, ht.deadLt, ht.ranExcl, ht.canDrp⟩
  · intro w t hw; rw [nt w] at hw; cases hw
  · intro w t hw; rw [nt w] at hw; cases hw
  · intro w t hw; rw [np w] at hw; cases hw
  · intro w w' t t' hw; rw [nt w] at hw; cases hw
  · intro w t hw; have := nt w; rw [hw] at this; cases this
  · intro w t hw; have := nt w; rw [hw] at this; cases this

theorem LockInv.atReinit : LockInv (reinit s mn mx) := by
  have q := quiet_of_done h hl hd
  have hk := h.lock
  have hpc : ∀ w, (reinit s mn mx).pc w ≠ .aboutToWait := by
    intro w
    simp only [Tbox.C05.reinit]
    split
    · simp
    · exact hk.owner q.lock w
  refine ⟨hk.fixB, fun _ => hpc, fun w w' hw => absurd hw (hpc w), fun hs => ?_, fun hs => ?_, fun hn => ?_⟩
  · simp [Tbox.C05.reinit] at hs
  · simp [Tbox.C05.reinit] at hs
  · simp [Tbox.C05.reinit] at hn

include hmm in
theorem WorkerInv.atReinit : WorkerInv (reinit s mn mx) := by
  have q := quiet_of_done h hl hd
  refine ⟨?_, ?_, ?_, ?_, fun _ => rfl, fun hp => by simp [Tbox.C05.reinit] at hp⟩
  · intro w hw
    left
    simp only [Tbox.C05.reinit] at hw ⊢
    split at hw
    · rename_i hr; simp only [List.mem_range'_1]; exact hr
    · rw [q.inactive w] at hw; cases hw
  · intro w hw
    simp only [Tbox.C05.reinit, List.mem_range'_1, List.not_mem_nil, or_false] at hw ⊢
    exact hw.2
  · simp only [Tbox.C05.reinit, List.append_nil]; exact List.nodup_range'
  · simp only [Tbox.C05.reinit, List.length_range', List.length_nil]; omega

theorem CbInv.atReinit : CbInv (reinit s mn mx) := by
  have hc := h.cb
  have nt := reinit_pc_task h hl hd mn mx
  refine ⟨hc.cbsNodup, hc.cbsRan, hc.qRan, hc.qNodup, ?_, ?_⟩
  · intro w t hw; have := nt w; rw [hw] at this; cases this
  · intro w t hw; have := nt w; rw [hw] at this; cases this

theorem AcctInv.atReinit : AcctInv (reinit s mn mx) := by
  have q := quiet_of_done h hl hd
  refine ⟨?_, fun hp => by simp [Tbox.C05.reinit] at hp⟩
  intro id hid
  rcases h.acct.cover id hid with a | a | a | a
  · exact Or.inl a
  · exact Or.inr (Or.inl a)
  · exact Or.inr (Or.inr (Or.inl a))
  · rcases a with ⟨t, ht, _⟩ | ⟨w, t, hw, _⟩
    · rw [q.undo] at ht; cases ht
    · have := q.noTask w
      cases hp : s.pc w <;> simp_all [PC.task?, PC.pre?]

theorem JoinInv.atReinit : JoinInv (reinit s mn mx) := by
  have q := quiet_of_done h hl hd
  have hj := h.join
  refine ⟨hj.fixD, ?_, ?_, ?_, fun hp => by simp [Tbox.C05.reinit] at hp, fun hp => by simp [Tbox.C05.reinit] at hp⟩
  · intro w hw
    simp only [Tbox.C05.reinit] at hw ⊢
    by_cases hlt : w < s.nW
    · right; right; right; exact hj.doneAll hd w hlt
    · left; simp only [List.mem_range'_1]; omega
  · intro w hw
    have hw' : w ∈ s.joined := hw
    have := hj.joinedEx w hw'
    refine ⟨?_, by simp only [Tbox.C05.reinit]; omega⟩
    rw [reinit_pc_old mn mx w (by omega)]; exact this.1
  · intro w hw
    have := hj.exitBound w hw
    simp only [Tbox.C05.reinit]; omega

theorem WakeInv.atReinit : WakeInv (reinit s mn mx) := by
  have q := quiet_of_done h hl hd
  refine ⟨fun _ => q.undo, fun t ht => h.wake.lvlOk t ht, fun _ => Or.inl ?_⟩
  have : (Tbox.C05.reinit s mn mx).undo = [] := q.undo
  rw [this]; simp

include hmx in
theorem StrandInv.atReinit : StrandInv (reinit s mn mx) := by
  have q := quiet_of_done h hl hd
  refine ⟨h.strand.fixE, hmx, ?_, ?_, fun _ hu => absurd q.undo hu⟩
  · have : (Tbox.C05.reinit s mn mx).idle = 0 := q.idle
    rw [this]; exact Nat.zero_le _
  · intro w hw
    simp only [Tbox.C05.reinit] at hw
    split at hw
    · cases hw
    · have := q.inactive w; rw [hw] at this; simp [PC.active] at this

theorem LifeInv.atReinit : LifeInv (reinit s mn mx) := by
  have q := quiet_of_done h hl hd
  refine ⟨?_, ?_, fun hp => by simp [Tbox.C05.reinit] at hp, fun hp => by simp [Tbox.C05.reinit] at hp⟩
  · intro id hid
    have : id ∈ s.doing := hid
    rw [q.doing] at this; cases this
  · intro w hw
    have : w ∈ s.exiting := hw
    rw [q.exiting] at this; cases this

include hmm hmx in
theorem Reach.atReinit : Reach { s.cfg with min := mn, max := mx } (reinit s mn mx) :=
  ⟨TaskInv.atReinit h hl hd mn mx, LockInv.atReinit h hl hd mn mx, WorkerInv.atReinit h hl hd mn mx hmm, CbInv.atReinit h hl hd mn mx,
   AcctInv.atReinit h hl hd mn mx, JoinInv.atReinit h hl hd mn mx, WakeInv.atReinit h hl hd mn mx, StrandInv.atReinit h hl hd mn mx hmx⟩

end Reinit

/-- `Reach` does not depend on its configuration index (it is a label) -/
theorem Reach.relabel {c c' : Cfg} {s : State} (h : Reach c s) : Reach c' s :=
  ⟨h.task, h.lock, h.work, h.cb, h.acct, h.join, h.wake, h.strand⟩

/-- every invariant, over any number of lifecycles -/
structure ReachL (s : State) : Prop where
  reach : Reach s.cfg s
  life  : LifeInv s

theorem ReachL.stepL {s : State} (h : ReachL s) (x : LStep) (hv : validL s x = true) : ReachL (stepL s x) := by
  cases x with
  | st st =>
    exact ⟨(h.reach.step st hv).relabel, h.life.step h.reach.work h.reach.join st hv⟩
  | init mn mx =>
    simp only [validL, Bool.and_eq_true, decide_eq_true_eq] at hv
    exact ⟨(Reach.atReinit h.reach h.life hv.1.1 mn mx hv.1.2 hv.2).relabel, LifeInv.atReinit h.reach h.life hv.1.1 mn mx⟩

theorem ReachL.execL {s : State} (h : ReachL s) (xs : List LStep) (s' : State) (he : execL s xs = some s') : ReachL s' := by
  induction xs generalizing s with
  | nil => simp [Tbox.C05.execL] at he; exact he ▸ h
  | cons x xs ih =>
    simp only [Tbox.C05.execL] at he
    split at he
    · rename_i hv; exact ih (h.stepL x hv) he
    · cases he

theorem reachL {c : Cfg} (hf : c.fixed) (hok : c.ok = true) (xs : List LStep) (s : State)
    (he : execL (init c) xs = some s) : ReachL s :=
  ReachL.execL ⟨(reach hf hok [] (init c) rfl).relabel, LifeInv.init c⟩ xs s he

theorem NullInv.stepL {s : State} (h : NullInv s) (x : LStep) : NullInv (stepL s x) := by
  cases x with
  | st st => exact h.step st
  | init mn mx => exact ⟨h.fixC, h.ok, h.noQ⟩

theorem NullInv.ofExecL {c : Cfg} (hf : c.fixed) (xs : List LStep) (s : State) (he : execL (init c) xs = some s) : NullInv s := by
  have h0 : NullInv (init c) := ⟨hf.2.2.1, rfl, by simp [init]⟩
  generalize init c = s0 at he h0
  induction xs generalizing s0 with
  | nil => simp [Tbox.C05.execL] at he; exact he ▸ h0
  | cons x xs ih =>
    simp only [Tbox.C05.execL] at he
    split at he
    · exact ih _ he (h0.stepL x)
    · cases he

theorem NullInv.execL_crashed {c : Cfg} (hf : c.fixed) (xs : List LStep) (s : State) (he : execL (init c) xs = some s) :
    s.crashed = false := (NullInv.ofExecL hf xs s he).ok

end Tbox.C05
