/- C05 — mutex / condition-variable invariant of the repaired model (deadlock freedom of cleanup). -/
import TboxModel.C05.TaskProofs
namespace Tbox.C05

structure LockInv (s : State) : Prop where
  fixB      : s.cfg.fixB = true
  owner     : s.lock = false → ∀ w, s.pc w ≠ .aboutToWait
  uniq      : ∀ w w', s.pc w = .aboutToWait → s.pc w' = .aboutToWait → w = w'
  stopFree  : s.stop = true → s.lock = false
  stopPhase : s.stop = true → s.phase1 = true
  notif     : s.notified = true → s.stop = true ∧ ∀ w, s.pc w ≠ .waiting

/-- a worker whose program counter changed to something that neither holds the mutex nor blocks -/
theorem LockInv.weaken {s s' : State} (h : LockInv s) (h0 : s'.cfg = s.cfg) (h1 : s'.lock = s.lock)
    (h2 : s'.stop = s.stop) (h3 : s'.notified = s.notified) (h4 : s.phase1 = true → s'.phase1 = true)
    (hpc : ∀ i, s'.pc i = s.pc i ∨ (s'.pc i ≠ .aboutToWait ∧ s'.pc i ≠ .waiting)) : LockInv s' := by
  constructor
  · rw [h0]; exact h.fixB
  · rw [h1]; intro hl i hi
    rcases hpc i with e | e
    · exact h.owner hl i (e ▸ hi)
    · exact e.1 hi
  · intro i i' hi hi'
    have e : s'.pc i = s.pc i := by rcases hpc i with e | e; exact e; exact absurd hi e.1
    have e' : s'.pc i' = s.pc i' := by rcases hpc i' with e | e; exact e; exact absurd hi' e.1
    exact h.uniq i i' (e ▸ hi) (e' ▸ hi')
  · rw [h1, h2]; exact h.stopFree
  · rw [h2]; intro hs; exact h4 (h.stopPhase hs)
  · rw [h2, h3]; intro hn
    refine ⟨(h.notif hn).1, fun i hi => ?_⟩
    rcases hpc i with e | e
    · exact (h.notif hn).2 i (e ▸ hi)
    · exact e.2 hi

theorem LockInv.setPc_free {s : State} (h : LockInv s) (w : Nat) {p : PC} (h1 : p ≠ .aboutToWait) (h2 : p ≠ .waiting) :
    LockInv (setPc s w p) :=
  h.weaken rfl rfl rfl rfl id (fun i => by
    simp only [setPc_pc]; by_cases hw : i = w
    · right; simp [hw, h1, h2]
    · left; simp [hw])

theorem LockInv.of_eq {s s' : State} (h : LockInv s) (h0 : s'.cfg = s.cfg) (h1 : s'.lock = s.lock)
    (h2 : s'.stop = s.stop) (h3 : s'.notified = s.notified) (h4 : s'.phase1 = s.phase1) (h5 : s'.pc = s.pc) : LockInv s' :=
  h.weaken h0 h1 h2 h3 (fun hp => by rw [h4]; exact hp) (fun i => Or.inl (by rw [h5]))

theorem LockInv.afterPred {s : State} (h : LockInv s) (w : Nat) (hl : s.lock = false) : LockInv (afterPred s w) := by
  unfold Tbox.C05.afterPred
  split
  · split
    · refine LockInv.setPc_free ?_ w (by simp) (by simp)
      exact h.of_eq rfl rfl rfl rfl rfl rfl
    · split
      · refine LockInv.setPc_free ?_ w (by simp) (by simp)
        exact h.of_eq rfl rfl rfl rfl rfl rfl
      · split
        · refine LockInv.setPc_free ?_ w (by simp) (by simp)
          exact h.of_eq rfl rfl rfl rfl rfl rfl
        · refine LockInv.setPc_free ?_ w (by simp) (by simp)
          exact h.of_eq rfl rfl rfl rfl rfl rfl
  · rename_i hc
    have hstop : s.stop = false := by
      cases hs : s.stop
      · rfl
      · simp [hs] at hc
    have hnot : s.notified = false := by
      cases hn : s.notified
      · rfl
      · have := (h.notif hn).1; rw [hstop] at this; cases this
    constructor
    · exact h.fixB
    · intro hl'; cases hl'
    · intro i i' hi hi'
      simp only [setPc_pc] at hi hi'
      by_cases hw : i = w <;> by_cases hw' : i' = w
      · rw [hw, hw']
      · simp only [hw', ↓reduceIte] at hi'; exact absurd hi' (h.owner hl i')
      · simp only [hw, ↓reduceIte] at hi; exact absurd hi (h.owner hl i)
      · simp only [hw, ↓reduceIte] at hi; exact absurd hi (h.owner hl i)
    · intro hs; simp only [setPc_stop] at hs; rw [hstop] at hs; cases hs
    · intro hs; simp only [setPc_stop] at hs; rw [hstop] at hs; cases hs
    · intro hn; simp only [setPc_notified] at hn; rw [hnot] at hn; cases hn

theorem LockInv.step {s : State} (h : LockInv s) (st : Step) (hv : valid s st = true) : LockInv (step s st) := by
  cases st with
  | execute prio cb =>
    simp only [Tbox.C05.step]
    split
    · exact h
    · split
      · split
        · refine LockInv.setPc_free ?_ _ (by simp) (by simp)
          exact h.of_eq rfl rfl rfl rfl rfl rfl
        · exact h.of_eq rfl rfl rfl rfl rfl rfl
      · exact h.of_eq rfl rfl rfl rfl rfl rfl
  | executeF prio cb =>
    simp only [Tbox.C05.step]
    split
    · exact h
    · exact h.of_eq rfl rfl rfl rfl rfl rfl
  | cancel id =>
    simp only [Tbox.C05.step]
    split
    · exact h.of_eq rfl rfl rfl rfl rfl rfl
    · split
      · exact h
      · exact h.of_eq rfl rfl rfl rfl rfl rfl
    · exact h
  | status id =>
    simp only [Tbox.C05.step]
    split
    · split
      · exact h
      · exact h.of_eq rfl rfl rfl rfl rfl rfl
    · exact h
  | snapshot => exact h
  | cleanup1 => exact h.weaken rfl rfl rfl rfl (fun _ => rfl) (fun i => Or.inl rfl)
  | setStop =>
    simp only [valid, Bool.and_eq_true, Bool.or_eq_true, Bool.not_eq_true'] at hv
    have hl : s.lock = false := by
      rcases hv.2 with hb | hb
      · rw [h.fixB] at hb; cases hb
      · exact hb
    have hn : s.notified = false := by
      cases hn : s.notified
      · rfl
      · have := (h.notif hn).1; rw [hv.1.2] at this; cases this
    constructor
    · exact h.fixB
    · exact h.owner
    · exact h.uniq
    · intro _; exact hl
    · intro _; exact hv.1.1
    · intro hn'; simp only [Tbox.C05.step] at hn'; rw [hn] at hn'; cases hn'
  | notifyAll =>
    simp only [valid, Bool.and_eq_true, Bool.not_eq_true'] at hv
    have key : ∀ i p, (Tbox.C05.step s .notifyAll).pc i = p → p ≠ .woken → s.pc i = p := by
      intro i p hi hp
      simp only [Tbox.C05.step] at hi
      split at hi
      · exact absurd hi.symm hp
      · exact hi
    constructor
    · exact h.fixB
    · intro hl i hi; exact h.owner hl i (key i _ hi (by simp))
    · intro i i' hi hi'; exact h.uniq i i' (key i _ hi (by simp)) (key i' _ hi' (by simp))
    · exact h.stopFree
    · exact h.stopPhase
    · intro _
      refine ⟨hv.1, fun i hi => ?_⟩
      have := key i _ hi (by simp)
      simp only [Tbox.C05.step] at hi
      simp [this] at hi
  | join w => exact h.of_eq rfl rfl rfl rfl rfl rfl
  | notifyOne ow =>
    cases ow with
    | none => exact h.of_eq rfl rfl rfl rfl rfl rfl
    | some w =>
      refine LockInv.setPc_free ?_ w (by simp) (by simp)
      exact h.of_eq rfl rfl rfl rfl rfl rfl
  | threadEnd w => exact h.setPc_free w (by simp) (by simp)
  | cleanupRet => exact h.of_eq rfl rfl rfl rfl rfl rfl
  | loopRun =>
    simp only [Tbox.C05.step]
    split
    · exact h
    · exact h.of_eq rfl rfl rfl rfl rfl rfl
    · split <;> exact h.of_eq rfl rfl rfl rfl rfl rfl
    · exact h.of_eq rfl rfl rfl rfl rfl rfl
  | enter w =>
    simp only [valid, Bool.and_eq_true, Bool.not_eq_true', decide_eq_true_eq] at hv
    simp only [Tbox.C05.step]
    split
    · split
      · refine LockInv.setPc_free ?_ w (by simp) (by simp)
        exact h.of_eq rfl rfl rfl rfl rfl rfl
      · exact h.setPc_free w (by simp) (by simp)
    · exact (h.of_eq (s' := { s with idle := s.idle + 1 }) rfl rfl rfl rfl rfl rfl).afterPred w hv.1.2
  | block w =>
    simp only [valid, Bool.and_eq_true, decide_eq_true_eq, beq_iff_eq] at hv
    have hlock : s.lock = true := by
      cases hl : s.lock
      · exact absurd hv.2 (h.owner hl w)
      · rfl
    have hstop : s.stop = false := by
      cases hs : s.stop
      · rfl
      · have := h.stopFree hs; rw [hlock] at this; cases this
    have hnot : s.notified = false := by
      cases hn : s.notified
      · rfl
      · have := (h.notif hn).1; rw [hstop] at this; cases this
    constructor
    · exact h.fixB
    · intro _ i hi
      simp only [Tbox.C05.step, setPc_pc] at hi
      by_cases hw : i = w
      · simp [hw] at hi
      · simp only [hw, ↓reduceIte] at hi; exact hw (h.uniq i w hi hv.2)
    · intro i i' hi hi'
      simp only [Tbox.C05.step, setPc_pc] at hi hi'
      by_cases hw : i = w
      · simp [hw] at hi
      · by_cases hw' : i' = w
        · simp [hw'] at hi'
        · simp only [hw, hw', ↓reduceIte] at hi hi'; exact h.uniq i i' hi hi'
    · intro _; rfl
    · intro hs; simp only [Tbox.C05.step, setPc_stop] at hs; rw [hstop] at hs; cases hs
    · intro hn; simp only [Tbox.C05.step, setPc_notified] at hn; rw [hnot] at hn; cases hn
  | wake w => exact h.setPc_free w (by simp) (by simp)
  | reenter w =>
    simp only [valid, Bool.and_eq_true, Bool.not_eq_true', decide_eq_true_eq] at hv
    exact h.afterPred w hv.1.2
  | markDoing w =>
    simp only [Tbox.C05.step]
    split
    · refine LockInv.setPc_free ?_ w (by simp) (by simp)
      exact h.of_eq rfl rfl rfl rfl rfl rfl
    · exact h
  | runBody w =>
    simp only [Tbox.C05.step]
    split
    · refine LockInv.setPc_free ?_ w (by simp) (by simp)
      exact h.of_eq rfl rfl rfl rfl rfl rfl
    · exact h
  | postCb w =>
    simp only [Tbox.C05.step]
    split
    · refine LockInv.setPc_free ?_ w (by simp) (by simp)
      split
      · exact h.of_eq rfl rfl rfl rfl rfl rfl
      · exact h
    · exact h
  | finish w =>
    simp only [Tbox.C05.step]
    split
    · refine LockInv.setPc_free ?_ w (by simp) (by simp)
      exact h.of_eq rfl rfl rfl rfl rfl rfl
    · exact h
  | selfRemove w =>
    simp only [Tbox.C05.step]
    split
    · refine LockInv.setPc_free ?_ w (by simp) (by simp)
      exact h.of_eq rfl rfl rfl rfl rfl rfl
    · split
      · refine LockInv.setPc_free ?_ w (by simp) (by simp)
        exact h.of_eq rfl rfl rfl rfl rfl rfl
      · split
        · exact h.setPc_free w (by simp) (by simp)
        · refine LockInv.setPc_free ?_ w (by simp) (by simp)
          exact h.of_eq rfl rfl rfl rfl rfl rfl

theorem LockInv.init (c : Cfg) (hc : c.fixB = true) : LockInv (init c) := by
  constructor
  · exact hc
  · intro _ w hw; simp only [Tbox.C05.init] at hw; split at hw <;> cases hw
  · intro w w' hw; simp only [Tbox.C05.init] at hw; split at hw <;> cases hw
  · intro _; rfl
  · intro hs; cases hs
  · intro hn; cases hn

theorem LockInv.exec {s : State} (h : LockInv s) (sts : List Step) (s' : State) (he : exec s sts = some s') :
    LockInv s' := by
  induction sts generalizing s with
  | nil => simp [Tbox.C05.exec] at he; exact he ▸ h
  | cons st sts ih =>
    simp only [Tbox.C05.exec] at he
    split at he
    · rename_i hv; exact ih (h.step st hv) he
    · cases he

end Tbox.C05
