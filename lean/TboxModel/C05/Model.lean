/-
C05 — interleaving model of
  modules/eventx/thread_pool.cpp   (ThreadPool: execute / cancel / getTaskStatus / snapshot / cleanup / threadProc)
  modules/eventx/work_thread.cpp   (WorkThread = the instance min = max = 1, every task at one priority)

One mutex + one condition variable.  A model step is one atomic region of the code: a critical
section of the mutex, or the gap between two critical sections.  The shared state is the
waiting queue (`undo`, arrival order; the per-priority deques of the code are the sub-lists of
equal `lvl`), the running set (`doing`), the idle counter, the worker cabinet (`cab`), the stop
flag, the loop's run-in-loop queue (`loopQ`); every worker has a program counter (`PC`).

`Cfg.fixA/fixB/fixC` select between the code as found (all `false`, `Cfg.asFound`) and the
repaired code (all `true`, the default; patches/C05-0[123]-*.diff):
  fixA  the picked task is inserted into the running set inside the critical section that pops it
        (as found: the worker unlocks after the pop and re-locks to insert — state `picked`);
  fixB  cleanup() writes the stop flag while holding the mutex (as found: without the mutex, so
        the write can fall between a worker's predicate evaluation and its blocking — the
        worker holds the mutex there: state `aboutToWait`, `lock = true`);
  fixC  a worker that exits voluntarily tolerates that cleanup() has already emptied the
        cabinet (as found: it asserts / posts `nullptr->join()` to the loop).
Round 2 (patches/C05-0[45]-*.diff; `Cfg.round1` = fixA..C only):
  fixD  workers that left the cabinet by themselves are kept in a list (`exiting`) which cleanup()
        joins too (before: only the loop joined them, later — cleanup() returned while such a
        thread, state `leaving`, was still running);
  fixE  the worker leaves the cabinet in the SAME critical section in which it decides to exit
        (before: it unlocked in between — state `exitVol false` — and execute() still counted it,
        spawned nobody, and the new task was never executed).

Condition variable: `waiting` workers are the waiter set.  The API steps `execute`, `cancel`, `status`, `snapshot` carry no caller: they are the critical sections of the
calls and may be issued by ANY thread — the loop thread, a completion callback, or a task body running on a
worker of the same pool (re-entrant use); the mutex makes them atomic regardless of the caller, and `pend`
counts the notify_one() calls still owed by concurrent execute() callers.  The only caller assumption left in
`valid` is that no API call overlaps cleanup() (`inCleanup`, and `pend = 0` when cleanup starts).
`wake w` moves one waiter to `woken`
at any time (covers notify_one, notify_all and spurious wake-ups); `notifyAll` (cleanup) wakes
all current waiters at once — the only wake-up the deadlock theorem relies on.  Two reads of the
stop flag inside one critical section (predicate, then the check after wait) are merged into
one read: the flag only ever goes false→true, and "work seen, then flag seen" leaves the same
state as "flag seen".

WorkThread (work_thread.cpp, read line by line against this model) is the instance
`min = max = 1`, every task at one level: its threadProc has no exit check and no idle counter —
in the instance the exit check `cab.length > min` is never true and `idle` is read by nothing
else; its execute never spawns — in the instance `cab.length < max` is never true; pop, running
set, status, cancel, completion callback, cleanup (clear queue under the lock, flag, notify_all,
join) are statement-for-statement the same, including defects (a) and (b).  Differences outside
the model: after cleanup `d_` is deleted (execute → null token, status → not-found, cancel → 3),
the callback needs a non-null loop; the constructor wrote `stop_flag = false` AFTER starting the
thread (data race, repaired by patch 02).

Fields after `peak` are ghost history used only by the theorems.
-/
namespace Tbox.C05

structure Cfg where
  min : Nat
  max : Nat
  fixA : Bool := true
  fixB : Bool := true
  fixC : Bool := true
  fixD : Bool := true
  fixE : Bool := true
deriving Repr, DecidableEq

/-- `initialize(min,max)` accepts exactly these -/
def Cfg.ok (c : Cfg) : Bool := decide (c.min ≤ c.max) && decide (0 < c.max)

/-- `initialize(ssize_t min, ssize_t max)` as written: the test is made on the SIGNED arguments, before they are
stored into the `size_t` members (tools/narrowing/C05.txt: thread_pool.cpp:127,128) -/
def Cfg.okI (mn mx : Int) : Bool := !(decide (mx < 0) || decide (mn < 0) || decide (mn > mx) || decide (mx = 0))

/-- `execute(…, int prio)`: clamp, THEN add THREAD_POOL_PRIO_MAX — the `int` → `size_t` conversion at
`undo_tasks_token.at(level)` (thread_pool.cpp:177) -/
def clampPrio (prio : Int) : Int := if prio < -2 then -2 else if prio > 2 then 2 else prio

def Cfg.asFound (min max : Nat) : Cfg :=
  { min := min, max := max, fixA := false, fixB := false, fixC := false, fixD := false, fixE := false }

/-- the code after the round-1 patches (01-03) only -/
def Cfg.round1 (min max : Nat) : Cfg := { min := min, max := max, fixD := false, fixE := false }

/-- THREAD_POOL_PRIO_SIZE -/
def nPrio : Nat := 5

/-- `prio` clamped to [-2,2], shifted to the array index 0..4 -/
def levelOf (prio : Int) : Nat :=
  if prio < -2 then 0 else if prio > 2 then 4 else (prio + 2).toNat

structure Tk where
  id  : Nat
  lvl : Nat
  cb  : Bool
deriving Repr, DecidableEq

inductive PC where
  | start                 -- top of the worker loop, mutex not held
  | aboutToWait           -- mutex HELD: wait predicate evaluated false, not yet blocked
  | waiting               -- blocked in cond_var.wait, counted in idle
  | woken                 -- woken up, must re-acquire the mutex and re-evaluate the predicate
  | picked (t : Tk)       -- popped, mutex released, NOT yet in the running set (as found only)
  | running (t : Tk)      -- in the running set, body not yet executed
  | postCb (t : Tk)       -- body has returned
  | finishing (t : Tk)    -- completion callback (if any) posted to the loop
  | exitVol (own : Bool)  -- decided to exit voluntarily (no more work), mutex released;
                          -- own = it already took its thread object out of the cabinet (fixE)
  | leaving               -- out of the cabinet, join posted to the loop, thread function not yet returned
  | exited                -- thread function returned
deriving Repr, DecidableEq

inductive LoopItem where
  | cb (t : Nat)          -- completion callback of task t
  | joinW (w : Nat)       -- `t->join(); delete t` of a voluntarily exited worker
  | joinNull              -- the same on a null pointer (defect c)
deriving Repr, DecidableEq

inductive Status where
  | waiting | executing | notFound
deriving Repr, DecidableEq

structure State where
  cfg      : Cfg
  undo     : List Tk := []
  doing    : List Nat := []
  idle     : Nat := 0
  cab      : List Nat := []          -- threads_cabinet
  vec      : List Nat := []          -- cleanup()'s local thread_vec
  exiting  : List Nat := []          -- self-exited workers whose join is still queued in the loop (fixD)
  pend     : Nat := 0                -- execute() calls that have left their critical section and not yet called notify_one()
                                     -- (a counter: execute may be called concurrently from several threads — loop thread,
                                     -- task bodies on worker threads, completion callbacks)
  pc       : Nat → PC := fun _ => .exited
  nW       : Nat := 0                -- workers ever created
  lock     : Bool := false           -- mutex held across a step boundary (only in `aboutToWait`)
  stop     : Bool := false
  phase1   : Bool := false           -- cleanup() has run its critical section
  notified : Bool := false           -- cleanup() has called notify_all
  done     : Bool := false           -- cleanup() has returned
  joined   : List Nat := []
  nextTask : Nat := 0
  loopQ    : List LoopItem := []    -- the loop's run-in-loop queue: Loop::runInLoop(), the THREAD-SAFE entry point
                                    -- (locked, wakes the loop, legal while the loop is not running) — the only one
                                    -- threadProc uses, for completion callbacks and for its own join
  nextQ    : List LoopItem := []    -- the loop's run-next queue: Loop::runNext() / Loop::run() outside a running loop:
                                    -- NOT locked, loop thread only.  No step of this model writes it.
  crashed  : Bool := false           -- nullptr->join() executed / assertion aborted
  peak     : Nat := 0
  -- ghost history
  ran       : List (Nat × Nat) := []   -- (task, worker) newest first
  cbs       : List Nat := []           -- completion callbacks executed by the loop thread
  cancelled : List Nat := []           -- cancel answered 0
  dropped   : List Nat := []           -- removed by cleanup()
  nfEarly   : List Nat := []           -- answered not-found / cancel=1 while the body had not run
  picks     : List (Tk × List Tk) := []  -- (picked task, waiting queue it was picked from)

def State.ranIds (s : State) : List Nat := s.ran.map (·.1)

def init (c : Cfg) : State :=
  { cfg := c, cab := List.range c.min, nW := c.min,
    pc := fun w => if w < c.min then .start else .exited }

def setPc (s : State) (w : Nat) (p : PC) : State :=
  { s with pc := fun i => if i = w then p else s.pc i }

/-- `popOneTask`: scan the levels i, i+1, … (n of them), take the front of the first non-empty one -/
def scanFrom (undo : List Tk) (i : Nat) : Nat → Option Tk
  | 0 => none
  | n + 1 => match undo.find? (fun t => t.lvl == i) with
      | some t => some t
      | none => scanFrom undo (i + 1) n

def popOne (undo : List Tk) : Option Tk := scanFrom undo 0 nPrio

def removeId (undo : List Tk) (id : Nat) : List Tk := undo.filter (fun t => t.id != id)

def inUndo (s : State) (id : Nat) : Bool := s.undo.any (fun t => t.id == id)

/-- `getTaskStatus` -/
def statusOf (s : State) (id : Nat) : Status :=
  if inUndo s id then .waiting else if s.doing.contains id then .executing else .notFound

/-- `cancel`: 0 cancelled, 1 not found, 2 executing -/
def cancelAns (s : State) (id : Nat) : Nat :=
  if s.doing.contains id then 2 else if inUndo s id then 0 else 1

/-- second half of the worker's critical section: the wait predicate and what follows it.
`idle` already counts the worker. -/
def afterPred (s : State) (w : Nat) : State :=
  if s.stop || !s.undo.isEmpty then
    let s1 := { s with idle := s.idle - 1 }
    if s.stop then setPc s1 w .exited
    else match popOne s.undo with
      | none => setPc s1 w .start
      | some t =>
        let s2 := { s1 with undo := removeId s.undo t.id, picks := (t, s.undo) :: s.picks }
        if s.cfg.fixA then setPc { s2 with doing := t.id :: s2.doing } w (.running t)
        else setPc s2 w (.picked t)
  else setPc { s with lock := true } w .aboutToWait

inductive Step where
  -- loop thread
  | execute (prio : Int) (cb : Bool)
  | executeF (prio : Int) (cb : Bool)   -- execute() whose createWorker() FAILS (pthread_create answers EAGAIN): spawn oracle "no"
  | cancel (t : Nat)
  | status (t : Nat)
  | snapshot
  | cleanup1                    -- cleanup(): the critical section (drop waiting tasks, move threads out)
  | setStop                     -- cleanup(): all_threads_stop_flag = true
  | notifyAll                   -- cleanup(): cond_var.notify_all()
  | join (w : Nat)              -- cleanup(): t->join() returns for the next thread of thread_vec
  | cleanupRet                  -- cleanup() returns
  | loopRun                     -- the loop executes the front of its run-in-loop queue
  | notifyOne (w : Option Nat)  -- execute(): cond_var.notify_one() — wakes waiter w; `none` only if nobody waits
  -- worker w
  | enter (w : Nat)             -- lock; exit check; ++idle; predicate …
  | block (w : Nat)             -- … unlock and block (atomic in pthread_cond_wait)
  | wake (w : Nat)              -- notify / spurious wake-up
  | reenter (w : Nat)           -- re-lock after wake-up; predicate …
  | markDoing (w : Nat)         -- lock; doing.insert; unlock   (as found only)
  | runBody (w : Nat)           -- the task body
  | postCb (w : Nat)            -- runInLoop(main_cb) if any
  | finish (w : Nat)            -- lock; doing.erase; free; unlock
  | selfRemove (w : Nat)        -- (lock; threads_cabinet.free(self);) post join to the loop
  | threadEnd (w : Nat)         -- the thread function returns
deriving Repr, DecidableEq

def inCleanup (s : State) : Bool := s.phase1 && !s.done

/-- next thread cleanup() has to join: thread_vec, then (fixD) the self-exited ones -/
def nextJoin (s : State) : Option Nat :=
  ((s.vec ++ (if s.cfg.fixD then s.exiting else [])).filter (fun w => !s.joined.contains w)).head?

def noWaiter (s : State) : Bool := (List.range s.nW).all (fun w => s.pc w != .waiting)

def valid (s : State) : Step → Bool
  | .execute _ _ => !s.lock && !inCleanup s
  | .executeF _ _ => !s.lock && !inCleanup s && !s.done && decide (s.undo.length + 1 > s.idle) && decide (s.cab.length < s.cfg.max)
  | .cancel t => !s.lock && !inCleanup s && decide (t < s.nextTask)
  | .status t => !s.lock && !inCleanup s && decide (t < s.nextTask)
  | .snapshot => !s.lock && !inCleanup s
  | .cleanup1 => !s.lock && !s.phase1 && decide (s.pend = 0)
  | .notifyOne (some w) => decide (0 < s.pend) && decide (w < s.nW) && s.pc w == .waiting
  | .notifyOne none => decide (0 < s.pend) && noWaiter s
  | .setStop => s.phase1 && !s.stop && (!s.cfg.fixB || !s.lock)
  | .notifyAll => s.stop && !s.notified
  | .join w => s.notified && !s.done && nextJoin s == some w && s.pc w == .exited
  | .cleanupRet => s.notified && !s.done && (nextJoin s).isNone
  | .loopRun => !inCleanup s && (match s.loopQ with
      | [] => false
      | .joinW w :: _ => (s.cfg.fixD && !s.exiting.contains w) || s.pc w == .exited
      | _ => true)
  | .enter w => decide (w < s.nW) && !s.lock && s.pc w == .start
  | .block w => decide (w < s.nW) && s.pc w == .aboutToWait
  | .wake w => decide (w < s.nW) && s.pc w == .waiting
  | .reenter w => decide (w < s.nW) && !s.lock && s.pc w == .woken
  | .markDoing w => decide (w < s.nW) && !s.lock && (match s.pc w with | .picked _ => true | _ => false)
  | .runBody w => decide (w < s.nW) && (match s.pc w with | .running _ => true | _ => false)
  | .postCb w => decide (w < s.nW) && (match s.pc w with | .postCb _ => true | _ => false)
  | .finish w => decide (w < s.nW) && !s.lock && (match s.pc w with | .finishing _ => true | _ => false)
  | .selfRemove w => decide (w < s.nW) && (match s.pc w with | .exitVol own => own || !s.lock | _ => false)
  | .threadEnd w => decide (w < s.nW) && s.pc w == .leaving

def step (s : State) : Step → State
  | .execute prio cb =>
    if s.done then s else            -- `is_ready` false: null token, nothing happens
    let t : Tk := { id := s.nextTask, lvl := levelOf prio, cb := cb }
    let s1 := { s with undo := s.undo ++ [t], nextTask := s.nextTask + 1, pend := s.pend + 1 }
    if s1.undo.length > s1.idle then
      if s1.cab.length < s1.cfg.max then
        setPc { s1 with cab := s1.cab ++ [s1.nW], nW := s1.nW + 1 } s1.nW .start     -- createWorker
      else { s1 with peak := if s1.peak < s1.undo.length then s1.undo.length else s1.peak }
    else s1
  | .executeF prio cb =>
    -- repaired code (patches/C05-06): createWorker() reports the failure and leaves no cabinet slot behind;
    -- with no worker at all the task is withdrawn and a null token returned (the caller is told),
    -- otherwise it stays queued for the existing workers and notify_one() is still called
    if s.cab.isEmpty then s
    else { s with undo := s.undo ++ [{ id := s.nextTask, lvl := levelOf prio, cb := cb }], nextTask := s.nextTask + 1, pend := s.pend + 1 }
  | .cancel id =>
    match cancelAns s id with
    | 0 => { s with undo := removeId s.undo id, cancelled := id :: s.cancelled }
    | 1 => if s.ranIds.contains id then s else { s with nfEarly := id :: s.nfEarly }
    | _ => s
  | .status id =>
    match statusOf s id with
    | .notFound => if s.ranIds.contains id then s else { s with nfEarly := id :: s.nfEarly }
    | _ => s
  | .snapshot => s
  | .cleanup1 =>
    { s with dropped := s.undo.map (·.id) ++ s.dropped, undo := [], vec := s.cab, cab := [], phase1 := true }
  | .setStop => { s with stop := true }
  | .notifyAll =>
    { s with notified := true, pc := fun w => if s.pc w == .waiting then .woken else s.pc w }
  | .join w => { s with joined := w :: s.joined, exiting := s.exiting.filter (· != w) }
  | .notifyOne (some w) => setPc { s with pend := s.pend - 1 } w .woken
  | .notifyOne none => { s with pend := s.pend - 1 }
  | .cleanupRet => { s with done := true }
  | .loopRun =>
    match s.loopQ with
    | [] => s
    | .cb t :: q => { s with loopQ := q, cbs := t :: s.cbs }
    | .joinW w :: q =>
      if s.cfg.fixD && !s.exiting.contains w then { s with loopQ := q }     -- cleanup() has joined it already
      else { s with loopQ := q, joined := w :: s.joined, exiting := s.exiting.filter (· != w) }
    | .joinNull :: q => { s with loopQ := q, crashed := true }
  | .enter w =>
    if s.idle ≥ s.undo.length && decide (s.cab.length > s.cfg.min) then
      if s.cfg.fixE && s.cab.contains w then
        setPc { s with cab := s.cab.filter (· != w), exiting := if s.cfg.fixD then s.exiting ++ [w] else s.exiting } w (.exitVol true)
      else setPc s w (.exitVol false)
    else afterPred { s with idle := s.idle + 1 } w
  | .block w => setPc { s with lock := false } w .waiting
  | .wake w => setPc s w .woken
  | .reenter w => afterPred s w
  | .markDoing w =>
    match s.pc w with
    | .picked t => setPc { s with doing := t.id :: s.doing } w (.running t)
    | _ => s
  | .runBody w =>
    match s.pc w with
    | .running t => setPc { s with ran := (t.id, w) :: s.ran } w (.postCb t)
    | _ => s
  | .postCb w =>
    match s.pc w with
    | .postCb t => setPc (if t.cb then { s with loopQ := s.loopQ ++ [.cb t.id] } else s) w (.finishing t)
    | _ => s
  | .finish w =>
    match s.pc w with
    | .finishing t => setPc { s with doing := s.doing.filter (· != t.id) } w .start
    | _ => s
  | .selfRemove w =>
    match s.pc w with
    | .exitVol true => setPc { s with loopQ := s.loopQ ++ [.joinW w] } w .leaving
    | _ =>
      if s.cab.contains w then
        setPc { s with cab := s.cab.filter (· != w), loopQ := s.loopQ ++ [.joinW w],
                       exiting := if s.cfg.fixD then s.exiting ++ [w] else s.exiting } w .leaving
      else if s.cfg.fixC then setPc s w .leaving
      else setPc { s with loopQ := s.loopQ ++ [.joinNull], crashed := true } w .leaving   -- TBOX_ASSERT aborts
  | .threadEnd w => setPc s w .exited

/-- the code AS FOUND when createWorker() fails inside execute(): `new std::thread` throws std::system_error, the
exception leaves execute() through the lock_guard — the task is already queued (the caller gets no token), nobody
is notified (`pend` unchanged), and `threads_cabinet.alloc()` has handed out a slot that holds no thread: the slot
is counted by `threads_cabinet.size()` and cleanup() calls `join()` on its null pointer. -/
def executeFAsFound (s : State) (prio : Int) (cb : Bool) : State :=
  { s with undo := s.undo ++ [{ id := s.nextTask, lvl := levelOf prio, cb := cb }], nextTask := s.nextTask + 1,
           cab := s.cab ++ [s.nW], nW := s.nW + 1 }

/-- run a step list; `none` as soon as a step is not enabled in the current state -/
def exec (s : State) : List Step → Option State
  | [] => some s
  | st :: sts => if valid s st then exec (step s st) sts else none

end Tbox.C05
