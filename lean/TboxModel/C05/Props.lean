/-
C05 — PROPERTY THEOREMS.  "Thread pool: tasks run once on workers; consistent answers; cleanup terminates."

All theorems except the `_counterexample`s are about the REPAIRED code (`c.fixed`: patches
C05-01/02/03 applied) and quantify over EVERY interleaving: `exec (init c) sts = some s` says that
`sts` is any list of atomic steps (loop-thread calls, worker critical sections, wake-ups —
notified or spurious) each enabled when taken; any min/max accepted by initialize(), any number
of tasks, priorities, callbacks.  The `_counterexample` theorems exhibit concrete interleavings
of the code AS FOUND (`Cfg.asFound`) that violate the same statements.

Not expressible in this model (see LEVEL_NOTE): data-race freedom in the C++ memory model; real
time.  "cleanup always terminates" is proved as deadlock freedom + a strictly decreasing rank
per worker step (termination under fair scheduling of workers with terminating bodies).

-- OPEN  C05_final_accounting: in a state where cleanup() has returned, every accepted task is in
--       exactly one of ran / cancelled / dropped (needs a coverage invariant "every id < nextTask
--       is waiting, held, ran, cancelled or dropped"; the exclusivity half is `C05_exactly_once`).
-- OPEN  no-lost-wake-up for SUBMITTED tasks ("a waiting task is eventually picked"): notify_one is
--       modelled as `wake`, its guarantee is not stated; the harness' `drain` watchdog tests it.
-/
import TboxModel.C05.CbProofs
namespace Tbox.C05

/-- reachable states of the repaired code with a configuration initialize() accepts -/
structure Reach (c : Cfg) (s : State) : Prop where
  task : TaskInv s
  lock : LockInv s
  work : WorkerInv s
  cb   : CbInv s

theorem reach {c : Cfg} (hf : c.fixed) (hok : c.ok = true) (sts : List Step) (s : State)
    (he : exec (init c) sts = some s) : Reach c s :=
  ⟨(TaskInv.init c hf.1).exec sts s he, (LockInv.init c hf.2.1).exec sts s he,
   (WorkerInv.init c hok).exec sts s he, (CbInv.init c).exec (TaskInv.init c hf.1) sts s he⟩

theorem exec_append (s : State) (a b : List Step) :
    exec s (a ++ b) = (exec s a).bind (fun s1 => exec s1 b) := by
  induction a generalizing s with
  | nil => rfl
  | cons st a ih =>
    simp only [List.cons_append, exec]
    split
    · exact ih _
    · rfl

/-! ### exactly once -/

/-- **exactly once (safety half)**: no task body is executed twice; an executed task was accepted,
was never successfully cancelled and was not dropped by cleanup. -/
theorem C05_exactly_once (c : Cfg) (hf : c.fixed) (hok : c.ok = true) (sts : List Step) (s : State)
    (he : exec (init c) sts = some s) :
    s.ranIds.Nodup ∧ ∀ id ∈ s.ranIds, id < s.nextTask ∧ id ∉ s.cancelled ∧ id ∉ s.dropped := by
  have h := (reach hf hok sts s he).task
  exact ⟨h.ranNodup, fun id hid => ⟨h.deadLt id (Or.inl hid), (h.ranExcl id hid).1, (h.ranExcl id hid).2.1⟩⟩

/-- **worker only**: in any state, the only step that executes a task body is a worker's `runBody`
(never a loop-thread step), and the only step that executes a completion callback is the loop
thread's `loopRun`. -/
theorem C05_worker_only (s : State) (st : Step) :
    ((step s st).ran ≠ s.ran → ∃ w, st = .runBody w) ∧ ((step s st).cbs ≠ s.cbs → st = .loopRun) := by
  cases st <;> simp only [step, afterPred] <;> (repeat' split) <;> simp

/-- **callback once, after the body**: a completion callback runs at most once, and only for a task
whose body has already returned. -/
theorem C05_callback_once (c : Cfg) (hf : c.fixed) (hok : c.ok = true) (sts : List Step) (s : State)
    (he : exec (init c) sts = some s) :
    s.cbs.Nodup ∧ (∀ id ∈ s.cbs, id ∈ s.ranIds) ∧ (∀ id ∈ cbIds s.loopQ, id ∈ s.ranIds ∧ id ∉ s.cbs) := by
  have h := (reach hf hok sts s he).cb
  exact ⟨h.cbsNodup, h.cbsRan, h.qRan⟩

/-! ### cancel / status -/

theorem cancelled_mono (s : State) (st : Step) (id : Nat) (h : id ∈ s.cancelled) : id ∈ (step s st).cancelled := by
  cases st <;> simp only [step, afterPred] <;> (repeat' split) <;> simp_all

theorem nfEarly_mono (s : State) (st : Step) (id : Nat) (h : id ∈ s.nfEarly) : id ∈ (step s st).nfEarly := by
  cases st <;> simp only [step, afterPred] <;> (repeat' split) <;> simp_all

theorem exec_mono {f : State → List Nat} (hm : ∀ s st id, id ∈ f s → id ∈ f (step s st))
    (s : State) (sts : List Step) (s' : State) (he : exec s sts = some s') (id : Nat) (h : id ∈ f s) : id ∈ f s' := by
  induction sts generalizing s with
  | nil => simp [exec] at he; exact he ▸ h
  | cons st sts ih =>
    simp only [exec] at he
    split at he
    · exact ih _ he (hm s st id h)
    · cases he

/-- **cancel = success ⇒ never runs**: once `cancel` has answered 0 for a task, no continuation of
the execution ever executes it. -/
theorem C05_cancel_sound (c : Cfg) (hf : c.fixed) (hok : c.ok = true) (sts more : List Step) (s s' : State)
    (he : exec (init c) sts = some s) (he' : exec s more = some s') (id : Nat) (hc : id ∈ s.cancelled) :
    id ∉ s'.ranIds := by
  have hall : exec (init c) (sts ++ more) = some s' := by rw [exec_append, he]; exact he'
  have h := (reach hf hok _ s' hall).task
  have hc' := exec_mono (f := State.cancelled) cancelled_mono s more s' he' id hc
  exact fun hr => (h.ranExcl id hr).1 hc'

/-- **status consistent**: (1) a task that is still going to run — waiting, or held by a worker whose
body has not started — is reported waiting/executing and cancel does not answer "not found";
(2) a task for which not-found (or cancel = 1) was answered before its body ran is never executed in
any continuation. -/
theorem C05_status_consistent (c : Cfg) (hf : c.fixed) (hok : c.ok = true) (sts : List Step) (s : State)
    (he : exec (init c) sts = some s) :
    (∀ id, (inUndo s id = true ∨ ∃ w t, (s.pc w).pre? = some t ∧ t.id = id) →
        statusOf s id ≠ .notFound ∧ cancelAns s id ≠ 1) ∧
    (∀ more s', exec s more = some s' → ∀ id ∈ s.nfEarly, id ∉ s'.ranIds) := by
  have h := (reach hf hok sts s he).task
  constructor
  · intro id hid
    rcases hid with hu | ⟨w, t, hp, rfl⟩
    · constructor
      · unfold statusOf; simp [hu]
      · unfold cancelAns; split <;> simp [hu]
    · have hd : t.id ∈ s.doing := by
        cases hpc : s.pc w <;> simp [hpc, PC.pre?] at hp
        · exact absurd hpc (h.noPicked w _)
        · subst hp; exact h.runDoing w _ hpc
      constructor
      · unfold statusOf; split
        · simp
        · simp [hd]
      · unfold cancelAns; simp [hd]
  · intro more s' he' id hid
    have hall : exec (init c) (sts ++ more) = some s' := by rw [exec_append, he]; exact he'
    have h' := (reach hf hok _ s' hall).task
    have hc' := exec_mono (f := State.nfEarly) nfEarly_mono s more s' he' id hid
    exact fun hr => (h'.ranExcl id hr).2.2 hc'

/-! ### pick order -/

theorem step_picks (s : State) (st : Step) : ∀ p ∈ (step s st).picks, p ∈ s.picks ∨ popOne p.2 = some p.1 := by
  cases st <;> simp only [step, afterPred] <;> (repeat' split) <;> simp_all

theorem exec_picks (s : State) (sts : List Step) (s' : State) (he : exec s sts = some s')
    (h : ∀ p ∈ s.picks, popOne p.2 = some p.1) : ∀ p ∈ s'.picks, popOne p.2 = some p.1 := by
  induction sts generalizing s with
  | nil => simp [exec] at he; exact he ▸ h
  | cons st sts ih =>
    simp only [exec] at he
    split at he
    · refine ih _ he (fun p hp => ?_)
      rcases step_picks s st p hp with hh | hh
      · exact h p hh
      · exact hh
    · cases he

/-- **priority, then FIFO**: every pick ever made (any configuration) took, from the waiting queue
`u` as it was at that moment, a task `t` of the lowest level present, and the earliest submitted of
that level: `u = pre ++ t :: post` with every task of `pre` at a strictly higher level number. -/
theorem C05_priority_fifo (c : Cfg) (sts : List Step) (s : State) (he : exec (init c) sts = some s) :
    ∀ p ∈ s.picks, p.1 ∈ p.2 ∧ (∀ x ∈ p.2, p.1.lvl ≤ x.lvl) ∧
      p.2.find? (fun x => x.lvl == p.1.lvl) = some p.1 := by
  intro p hp
  have := exec_picks (init c) sts s he (by intro p hp; simp [init] at hp) p hp
  obtain ⟨_, _, h3, h4⟩ := scanFrom_spec p.2 _ _ p.1 this
  exact ⟨List.mem_of_find?_eq_some h3, fun x hx => h4 x hx (Nat.zero_le _), h3⟩

/-! ### workers -/

/-- **max workers**: the cabinet never holds more than `max` threads and the number of worker
threads whose thread function has not returned never exceeds `max`. -/
theorem C05_max_workers (c : Cfg) (hf : c.fixed) (hok : c.ok = true) (sts : List Step) (s : State)
    (he : exec (init c) sts = some s) :
    s.cab.length ≤ s.cfg.max ∧ (liveWorkers s).length ≤ s.cfg.max := by
  have h := (reach hf hok sts s he).work
  exact ⟨by have := h.len; omega, h.live_le⟩

/-! ### cleanup -/

/-- the worker a step belongs to -/
def workerOf : Step → Option Nat
  | .enter w | .block w | .wake w | .reenter w | .markDoing w | .runBody w | .postCb w | .finish w | .selfRemove w => some w
  | _ => none

/-- **no deadlock**: once cleanup() has called notify_all, no worker is blocked: the mutex is free,
no worker sits in (or just before) the condition-variable wait, and EVERY worker whose thread function
has not returned has an enabled step of its own. -/
theorem C05_no_deadlock (c : Cfg) (hf : c.fixed) (hok : c.ok = true) (sts : List Step) (s : State)
    (he : exec (init c) sts = some s) (hn : s.notified = true) :
    s.lock = false ∧ (∀ w, s.pc w ≠ .waiting ∧ s.pc w ≠ .aboutToWait) ∧
    ∀ w, w < s.nW → s.pc w ≠ .exited → ∃ st, workerOf st = some w ∧ valid s st = true := by
  have hl := (reach hf hok sts s he).lock
  have hstop := (hl.notif hn).1
  have hlock := hl.stopFree hstop
  refine ⟨hlock, fun w => ⟨(hl.notif hn).2 w, hl.owner hlock w⟩, fun w hw hne => ?_⟩
  cases hp : s.pc w with
  | start => exact ⟨.enter w, rfl, by simp [valid, hw, hlock, hp]⟩
  | aboutToWait => exact absurd hp (hl.owner hlock w)
  | waiting => exact absurd hp ((hl.notif hn).2 w)
  | woken => exact ⟨.reenter w, rfl, by simp [valid, hw, hlock, hp]⟩
  | picked t => exact ⟨.markDoing w, rfl, by simp [valid, hw, hlock, hp]⟩
  | running t => exact ⟨.runBody w, rfl, by simp [valid, hw, hp]⟩
  | postCb t => exact ⟨.postCb w, rfl, by simp [valid, hw, hp]⟩
  | finishing t => exact ⟨.finish w, rfl, by simp [valid, hw, hlock, hp]⟩
  | exitVol => exact ⟨.selfRemove w, rfl, by simp [valid, hw, hlock, hp]⟩
  | exited => exact absurd hp hne

/-- distance of a worker from the end of its thread function once the stop flag is set -/
def rank : PC → Nat
  | .exited => 0 | .exitVol => 1 | .start => 2 | .woken => 2 | .finishing _ => 3 | .waiting => 3
  | .postCb _ => 4 | .aboutToWait => 4 | .running _ => 5 | .picked _ => 6

/-- **bounded progress**: with the stop flag set, every enabled step of worker `w` strictly decreases
`rank (pc w)` (≤ 6) and leaves every other worker's program counter alone — so each worker takes at most
six more steps, and by `C05_no_deadlock` it can always take the next one: with fair scheduling and
terminating bodies every worker reaches `exited` and cleanup()'s joins return. -/
theorem C05_cleanup_progress (s : State) (st : Step) (w : Nat) (hs : s.stop = true) (hv : valid s st = true)
    (hw : workerOf st = some w) :
    rank ((step s st).pc w) < rank (s.pc w) ∧ ∀ i, i ≠ w → (step s st).pc i = s.pc i := by
  cases st <;> simp only [workerOf, Option.some.injEq, reduceCtorEq] at hw <;> subst hw
  all_goals simp only [valid, Bool.and_eq_true, decide_eq_true_eq, beq_iff_eq, Bool.not_eq_true'] at hv
  · -- enter
    simp only [step, afterPred, hs, Bool.true_or, ↓reduceIte]
    split <;> (refine ⟨?_, fun i hi => by simp [hi]⟩; simp [hv.2, rank])
  · simp only [step]; refine ⟨?_, fun i hi => by simp [hi]⟩; simp [hv.2, rank]
  · simp only [step]; refine ⟨?_, fun i hi => by simp [hi]⟩; simp [hv.2, rank]
  · simp only [step, afterPred, hs, Bool.true_or, ↓reduceIte]
    refine ⟨?_, fun i hi => by simp [hi]⟩; simp [hv.2, rank]
  · simp only [step]
    split
    · rename_i t hp; refine ⟨?_, fun i hi => by simp [hi]⟩; simp [hp, rank]
    · rename_i hp; split at hv <;> simp_all
  · simp only [step]
    split
    · rename_i t hp; refine ⟨?_, fun i hi => by simp [hi]⟩; simp [hp, rank]
    · rename_i hp; split at hv <;> simp_all
  · simp only [step]
    split
    · rename_i t hp; refine ⟨?_, fun i hi => by split <;> simp [hi]⟩; simp [hp, rank]
    · rename_i hp; split at hv <;> simp_all
  · simp only [step]
    split
    · rename_i t hp; refine ⟨?_, fun i hi => by simp [hi]⟩; simp [hp, rank]
    · rename_i hp; split at hv <;> simp_all
  · simp only [step]
    (repeat' split) <;> (refine ⟨?_, fun i hi => by simp [hi]⟩; simp [hv.2, rank])

/-! ### the cleared cabinet -/

structure NullInv (s : State) : Prop where
  fixC : s.cfg.fixC = true
  ok   : s.crashed = false
  noQ  : LoopItem.joinNull ∉ s.loopQ

theorem NullInv.step {s : State} (h : NullInv s) (st : Step) : NullInv (step s st) := by
  obtain ⟨h1, h2, h3⟩ := h
  cases st <;> simp only [Tbox.C05.step, afterPred] <;> (repeat' split) <;>
    (first
      | exact ⟨h1, h2, h3⟩
      | (rename_i hq; rw [hq] at h3; simp at h3; exact ⟨h1, h2, by simpa using h3⟩)
      | (constructor <;> simp_all))

theorem NullInv.exec {s : State} (h : NullInv s) (sts : List Step) (s' : State) (he : exec s sts = some s') :
    NullInv s' := by
  induction sts generalizing s with
  | nil => simp [Tbox.C05.exec] at he; exact he ▸ h
  | cons st sts ih =>
    simp only [Tbox.C05.exec] at he
    split at he
    · exact ih (h.step st) he
    · cases he

/-- **no join on a null pointer**: the loop is never handed `nullptr->join()` and no assertion aborts,
also when a voluntarily exiting worker races with cleanup(). -/
theorem C05_no_null_join (c : Cfg) (hf : c.fixed) (sts : List Step) (s : State)
    (he : exec (init c) sts = some s) : s.crashed = false ∧ LoopItem.joinNull ∉ s.loopQ := by
  have h := NullInv.exec (s := init c) ⟨hf.2.2, rfl, by simp [init]⟩ sts s he
  exact ⟨h.ok, h.noQ⟩

/-! ### the code as found: counterexample interleavings (defects a, b, c of DESIGN §7-13) -/

/-- (a) one worker: submit; the worker pops the task and unlocks; getTaskStatus answers NOT FOUND;
the worker re-locks, marks it running and executes it. -/
def cxStatus : List Step := [.execute 0 false, .enter 0, .status 0, .markDoing 0, .runBody 0]

theorem C05_status_consistent_counterexample :
    (exec (init (Cfg.asFound 1 1)) cxStatus).map (fun s => (s.nfEarly, s.ranIds)) = some ([0], [0]) := by decide

/-- (a) the same window: cancel answers 1 ("not found") and the task then runs. -/
def cxCancel : List Step := [.execute 0 false, .enter 0, .cancel 0, .markDoing 0, .runBody 0]

theorem C05_cancel_counterexample :
    (exec (init (Cfg.asFound 1 1)) cxCancel).map (fun s => (s.nfEarly, s.ranIds, s.cancelled)) = some ([0], [0], []) := by
  decide

/-- (b) cleanup()'s critical section; the worker locks, evaluates the wait predicate (false) and is
about to block; cleanup sets the flag WITHOUT the mutex and notifies (nobody waits yet); the worker
blocks: `notified`, the worker is `waiting`, `join 0` is not enabled — and never will be. -/
def cxDeadlock : List Step := [.cleanup1, .enter 0, .setStop, .notifyAll, .block 0]

theorem C05_no_deadlock_counterexample :
    (exec (init (Cfg.asFound 1 1)) cxDeadlock).map
      (fun s => (s.notified, s.pc 0 == .waiting, valid s (.join 0), valid s (.reenter 0), valid s (.enter 0)))
      = some (true, true, false, false, false) := by decide

/-- (c) min 0, max 1: the only worker finishes its task, decides to exit voluntarily, cleanup() takes
its thread object out of the cabinet, the worker then gets nullptr from the cabinet. -/
def cxNull : List Step :=
  [.execute 0 false, .enter 0, .markDoing 0, .runBody 0, .postCb 0, .finish 0, .enter 0, .cleanup1, .selfRemove 0]

theorem C05_no_null_join_counterexample :
    (exec (init (Cfg.asFound 0 1)) cxNull).map (fun s => (s.crashed, s.loopQ)) = some (true, [.joinNull]) := by decide

/-! ### non-vacuity: the repaired model really runs, and rejects the counterexample schedules -/

/-- the three counterexample schedules are NOT executions of the repaired model -/
example : (exec (init { min := 1, max := 1 }) cxStatus).isSome = false := by decide
example : (exec (init { min := 1, max := 1 }) cxDeadlock).isSome = false := by decide
example : ((exec (init { min := 0, max := 1 })
    [.execute 0 false, .enter 0, .runBody 0, .postCb 0, .finish 0, .enter 0, .cleanup1, .selfRemove 0]).map
      (fun s => (s.crashed, s.loopQ))) = some (false, []) := by decide

/-- WorkThread = the instance min = max = 1: submit two tasks with callbacks, cancel the second while
the first runs, cleanup, join — everything the hypotheses of the theorems above mention occurs. -/
def demo : List Step :=
  [.execute 0 true, .execute 0 true, .enter 0, .status 0, .cancel 1, .runBody 0, .postCb 0, .finish 0, .loopRun,
   .enter 0, .block 0, .cleanup1, .setStop, .notifyAll, .reenter 0, .join 0, .cleanupRet]

example : (exec (init { min := 1, max := 1 }) demo).map
    (fun s => (s.ranIds, s.cbs, s.cancelled)) = some ([0], [0], [1]) := by decide
example : (exec (init { min := 1, max := 1 }) demo).map
    (fun s => (s.nfEarly.length, s.done, s.pc 0 == .exited, s.picks.length)) = some (0, true, true, 1) := by decide
example : ({ min := 1, max := 1 } : Cfg).fixed ∧ ({ min := 1, max := 1 } : Cfg).ok = true := by decide
/-- `C05_no_deadlock`'s hypothesis is reachable: after notifyAll with a worker still busy -/
example : (exec (init { min := 2, max := 2 }) [.execute 0 false, .enter 0, .cleanup1, .setStop, .notifyAll]).map
    (fun s => (s.notified, s.pc 0 == .running ⟨0, 2, false⟩, s.pc 1 == .start)) = some (true, true, true) := by decide

end Tbox.C05
