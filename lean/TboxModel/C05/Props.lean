/-
C05 — PROPERTY THEOREMS.  "Thread pool: tasks run once on workers; consistent answers; cleanup terminates."

All theorems except the `_counterexample`s are about the REPAIRED code (`c.fixed`: patches
C05-01/02/03 applied) and quantify over EVERY interleaving: `exec (init c) sts = some s` says that
`sts` is any list of atomic steps (loop-thread calls, worker critical sections, wake-ups —
notified or spurious) each enabled when taken; any min/max accepted by initialize(), any number
of tasks, priorities, callbacks.  The `_counterexample` theorems exhibit concrete interleavings
of the code AS FOUND (`Cfg.asFound`), or of the code after the round-1 patches only (`Cfg.round1`),
that violate the same statements.

WHO CALLS: the steps `execute`, `cancel`, `status`, `snapshot` are the critical sections of the API calls and
carry no caller — they may be issued by the loop thread, by a completion callback, or by a task body running on a
worker of the same pool (re-entrant use), in any interleaving with each other and with every worker step; the
mutex makes each of them atomic whoever calls.  `pend` counts the notify_one() calls still owed by concurrent
execute() callers.  NO theorem below needs "loop-thread only".  The one caller assumption left in `valid` is that
no API call overlaps cleanup() (`inCleanup`; `pend = 0` when cleanup starts): needed by `C05_no_deadlock` /
`C05_cleanup_joins_all` / `C05_final_accounting` (an execute() racing with cleanup could spawn a worker cleanup
never joins — that is outside the property's quantifier too).  `C05_priority_fifo` speaks about the queue as it is at
the pick: a nested submission is appended like any other (`undo ++ [t]` in `step`), so it is ordered by the moment
its execute() critical section ran.

Not expressible in this model (see LEVEL_NOTE): data-race freedom in the C++ memory model; real
time.  "cleanup always terminates" is proved as deadlock freedom + a strictly decreasing rank
per worker step (termination under fair scheduling of workers with terminating bodies).

-- Liveness ("every accepted task is eventually executed", "cleanup eventually returns") is stated as
-- invariants that exclude every stuck state (`C05_no_lost_wakeup`, `C05_no_stranded_task`, `C05_no_deadlock`,
-- `C05_cleanup_progress`) plus the fairness assumption; no temporal-logic theorem is claimed.
-/
import TboxModel.C05.WtProofs
namespace Tbox.C05

/-- reachable states of the repaired code with a configuration initialize() accepts -/
structure Reach (c : Cfg) (s : State) : Prop where
  task : TaskInv s
  lock : LockInv s
  work : WorkerInv s
  cb   : CbInv s
  acct : AcctInv s
  join : JoinInv s
  wake : WakeInv s
  strand : StrandInv s

theorem JoinInv.init (c : Cfg) (hd : c.fixD = true) : JoinInv (init c) := by
  constructor
  · exact hd
  · intro w hw; left; simpa [Tbox.C05.init] using hw
  · intro w hw; simp [Tbox.C05.init] at hw
  · intro w hw; simp [Tbox.C05.init] at hw
  · intro hd'; simp [Tbox.C05.init] at hd'
  · intro hd'; simp [Tbox.C05.init] at hd'

theorem Reach.step {c : Cfg} {s : State} (h : Reach c s) (st : Step) (hv : valid s st = true) : Reach c (step s st) :=
  ⟨h.task.step st hv, h.lock.step st hv, h.work.step st hv, h.cb.step h.task st, h.acct.step h.work st hv,
   h.join.step h.work h.lock st hv, h.wake.step h.work h.lock st hv, h.strand.step h.work st hv⟩

theorem Reach.exec {c : Cfg} {s : State} (h : Reach c s) (sts : List Step) (s' : State) (he : exec s sts = some s') :
    Reach c s' := by
  induction sts generalizing s with
  | nil => simp [Tbox.C05.exec] at he; exact he ▸ h
  | cons st sts ih =>
    simp only [Tbox.C05.exec] at he
    split at he
    · rename_i hv; exact ih (h.step st hv) he
    · cases he

theorem reach {c : Cfg} (hf : c.fixed) (hok : c.ok = true) (sts : List Step) (s : State)
    (he : exec (init c) sts = some s) : Reach c s :=
  Reach.exec ⟨TaskInv.init c hf.1, LockInv.init c hf.2.1, WorkerInv.init c hok, CbInv.init c, AcctInv.init c,
    JoinInv.init c hf.2.2.2.1, WakeInv.init c, StrandInv.init c hf.2.2.2.2 hok⟩ sts s he

theorem exec_append (s : State) (a b : List Step) :
    exec s (a ++ b) = (exec s a).bind (fun s1 => exec s1 b) := by
  induction a generalizing s with
  | nil => rfl
  | cons st a ih =>
    simp only [List.cons_append, exec]
    split
    · exact ih _
    · rfl

/-! ### exactly once -/

/-- **exactly once (safety half)**: no task body is executed twice; an executed task was accepted,
was never successfully cancelled and was not dropped by cleanup. -/
theorem C05_exactly_once (c : Cfg) (hf : c.fixed) (hok : c.ok = true) (sts : List Step) (s : State)
    (he : exec (init c) sts = some s) :
    s.ranIds.Nodup ∧ ∀ id ∈ s.ranIds, id < s.nextTask ∧ id ∉ s.cancelled ∧ id ∉ s.dropped := by
  have h := (reach hf hok sts s he).task
  exact ⟨h.ranNodup, fun id hid => ⟨h.deadLt id (Or.inl hid), (h.ranExcl id hid).1, (h.ranExcl id hid).2.1⟩⟩

/-- the worker a step belongs to -/
def workerOf : Step → Option Nat
  | .enter w | .block w | .wake w | .reenter w | .markDoing w | .runBody w | .postCb w | .finish w | .selfRemove w
  | .threadEnd w => some w
  | _ => none

/-- **worker only**: in any state, the only step that executes a task body is a worker's `runBody`
(never a loop-thread step), and the only step that executes a completion callback is the loop
thread's `loopRun`.  **Thread-safe entry point only**: no step — in particular no worker step — ever writes
the loop's unlocked, loop-thread-only run-next queue (`nextQ`: Loop::runNext, or Loop::run while the loop is
not running); whatever a worker hands to the loop (completion callback, its own join) is appended to `loopQ`,
the queue of Loop::runInLoop, whether or not the loop is running. -/
theorem C05_worker_only (s : State) (st : Step) :
    ((step s st).ran ≠ s.ran → ∃ w, st = .runBody w) ∧ ((step s st).cbs ≠ s.cbs → st = .loopRun) ∧
    (step s st).nextQ = s.nextQ ∧
    (∀ w, workerOf st = some w → ∃ items, (step s st).loopQ = s.loopQ ++ items) := by
  cases st
  case notifyOne ow => cases ow <;> simp [step, workerOf]
  all_goals (simp only [step, afterPred, workerOf]; (repeat' split) <;> simp)

/-- **callback once, after the body**: a completion callback runs at most once, and only for a task
whose body has already returned. -/
theorem C05_callback_once (c : Cfg) (hf : c.fixed) (hok : c.ok = true) (sts : List Step) (s : State)
    (he : exec (init c) sts = some s) :
    s.cbs.Nodup ∧ (∀ id ∈ s.cbs, id ∈ s.ranIds) ∧ (∀ id ∈ cbIds s.loopQ, id ∈ s.ranIds ∧ id ∉ s.cbs) := by
  have h := (reach hf hok sts s he).cb
  exact ⟨h.cbsNodup, h.cbsRan, h.qRan⟩

/-! ### cancel / status -/

theorem cancelled_mono (s : State) (st : Step) (id : Nat) (h : id ∈ s.cancelled) : id ∈ (step s st).cancelled := by
  cases st <;> simp only [step, afterPred] <;> (repeat' split) <;> simp_all

theorem nfEarly_mono (s : State) (st : Step) (id : Nat) (h : id ∈ s.nfEarly) : id ∈ (step s st).nfEarly := by
  cases st <;> simp only [step, afterPred] <;> (repeat' split) <;> simp_all

theorem dropped_mono (s : State) (st : Step) (id : Nat) (h : id ∈ s.dropped) : id ∈ (step s st).dropped := by
  cases st <;> simp only [step, afterPred] <;> (repeat' split) <;> simp_all

theorem exec_mono {f : State → List Nat} (hm : ∀ s st id, id ∈ f s → id ∈ f (step s st))
    (s : State) (sts : List Step) (s' : State) (he : exec s sts = some s') (id : Nat) (h : id ∈ f s) : id ∈ f s' := by
  induction sts generalizing s with
  | nil => simp [exec] at he; exact he ▸ h
  | cons st sts ih =>
    simp only [exec] at he
    split at he
    · exact ih _ he (hm s st id h)
    · cases he

/-- **cancel = success ⇒ never runs**: once `cancel` has answered 0 for a task, no continuation of
the execution ever executes it. -/
theorem C05_cancel_sound (c : Cfg) (hf : c.fixed) (hok : c.ok = true) (sts more : List Step) (s s' : State)
    (he : exec (init c) sts = some s) (he' : exec s more = some s') (id : Nat) (hc : id ∈ s.cancelled) :
    id ∉ s'.ranIds := by
  have hall : exec (init c) (sts ++ more) = some s' := by rw [exec_append, he]; exact he'
  have h := (reach hf hok _ s' hall).task
  have hc' := exec_mono (f := State.cancelled) cancelled_mono s more s' he' id hc
  exact fun hr => (h.ranExcl id hr).1 hc'

/-- **status consistent**: (1) a task that is still going to run — waiting, or held by a worker whose
body has not started — is reported waiting/executing and cancel does not answer "not found";
(2) a task for which not-found (or cancel = 1) was answered before its body ran is never executed in
any continuation. -/
theorem C05_status_consistent (c : Cfg) (hf : c.fixed) (hok : c.ok = true) (sts : List Step) (s : State)
    (he : exec (init c) sts = some s) :
    (∀ id, (inUndo s id = true ∨ ∃ w t, (s.pc w).pre? = some t ∧ t.id = id) →
        statusOf s id ≠ .notFound ∧ cancelAns s id ≠ 1) ∧
    (∀ more s', exec s more = some s' → ∀ id ∈ s.nfEarly, id ∉ s'.ranIds) := by
  have h := (reach hf hok sts s he).task
  constructor
  · intro id hid
    rcases hid with hu | ⟨w, t, hp, rfl⟩
    · constructor
      · unfold statusOf; simp [hu]
      · unfold cancelAns; split <;> simp [hu]
    · have hd : t.id ∈ s.doing := by
        cases hpc : s.pc w <;> simp [hpc, PC.pre?] at hp
        · exact absurd hpc (h.noPicked w _)
        · subst hp; exact h.runDoing w _ hpc
      constructor
      · unfold statusOf; split
        · simp
        · simp [hd]
      · unfold cancelAns; simp [hd]
  · intro more s' he' id hid
    have hall : exec (init c) (sts ++ more) = some s' := by rw [exec_append, he]; exact he'
    have h' := (reach hf hok _ s' hall).task
    have hc' := exec_mono (f := State.nfEarly) nfEarly_mono s more s' he' id hid
    exact fun hr => (h'.ranExcl id hr).2.2 hc'

/-- **cleanup began before it started ⇒ never executed**: every task that is still waiting (not yet popped) when
cleanup()'s critical section runs — the section that sets the stop flag and drops the queue, step `cleanup1` — is
never executed in any continuation, on any number of workers (WorkThread = `Cfg.workThread`: one worker). A worker
that re-acquires the mutex after that section sees the flag before it looks at the queue (`afterPred`), and the
queue is empty anyway. -/
theorem C05_waiting_at_cleanup_never_runs (c : Cfg) (hf : c.fixed) (hok : c.ok = true) (sts more : List Step)
    (s s' : State) (he : exec (init c) sts = some s) (hv : valid s .cleanup1 = true)
    (he' : exec (step s .cleanup1) more = some s') : ∀ t ∈ s.undo, t.id ∉ s'.ranIds := by
  intro t ht hr
  have hall : exec (init c) (sts ++ .cleanup1 :: more) = some s' := by
    rw [exec_append, he]; simp only [Option.bind, exec, hv, ↓reduceIte]; exact he'
  have h := (reach hf hok _ s' hall).task
  have hd : t.id ∈ (step s .cleanup1).dropped := by
    simp only [step]; exact List.mem_append_left _ (List.mem_map.2 ⟨t, ht, rfl⟩)
  exact (h.ranExcl t.id hr).2.1 (exec_mono (f := State.dropped) dropped_mono _ more s' he' t.id hd)

/-- **cancel of a task that is executing** answers 2 and changes nothing (the task keeps running). -/
theorem C05_cancel_running_noop (s : State) (id : Nat) (h : s.doing.contains id = true) :
    cancelAns s id = 2 ∧ step s (.cancel id) = s := by
  have : cancelAns s id = 2 := by unfold cancelAns; rw [h]; rfl
  exact ⟨this, by simp only [step, this]⟩

/-- **execute after cleanup** (cleanup() has returned): a null token, nothing is queued, no worker is created. -/
theorem C05_execute_after_cleanup (s : State) (prio : Int) (cb : Bool) (h : s.done = true) :
    step s (.execute prio cb) = s := by
  simp [step, h]

/-! ### WorkThread = the instance min = max = 1 -/

/-- **the fixed-size instance (min = max; WorkThread: `Cfg.workThread`, one worker)**: no worker is ever created
beyond the initial ones and no worker ever takes the voluntary-exit path — the worker loop is exactly
WorkThread::threadProc and execute() is WorkThread::execute.  Hence every theorem of this file, instantiated at
`Cfg.workThread` (it is `fixed` and `ok`, second component), is a theorem about WorkThread: a waiting task at cleanup
never runs (`C05_waiting_at_cleanup_never_runs`), cancel of a waiting task (`C05_cancel_sound`) / of the running task
(`C05_cancel_running_noop`), status in the pop→running window (`C05_status_consistent`), execute after cleanup
(`C05_execute_after_cleanup`), the destructor (= cleanup: `C05_no_deadlock`, `C05_cleanup_joins_all`). -/
theorem C05_workthread_instance :
    (∀ (c : Cfg) (sts : List Step) (s : State), c.min = c.max → exec (init c) sts = some s →
      s.nW = s.cfg.min ∧ ∀ w, (∀ b, s.pc w ≠ .exitVol b) ∧ s.pc w ≠ .leaving) ∧
    (Cfg.workThread.fixed ∧ Cfg.workThread.ok = true ∧ Cfg.workThread.min = 1 ∧ Cfg.workThread.max = 1) := by
  refine ⟨fun c sts s hm he => ?_, by decide⟩
  have h := (WtInv.init c hm).exec sts s he
  exact ⟨h.nw, h.pcs⟩

/-- WorkThread: the worker is inside task 0 (the gate), tasks 1 and 2 are waiting, cleanup() runs; the gate finishes,
the worker sees the stop flag, is joined; tasks 1 and 2 were dropped and never ran. -/
example : (exec (init Cfg.workThread)
    [.execute 0 false, .notifyOne none, .enter 0, .execute 0 true, .notifyOne none, .execute 0 false, .notifyOne none,
     .cleanup1, .setStop, .notifyAll, .runBody 0, .postCb 0, .finish 0, .enter 0, .join 0, .cleanupRet]).map
      (fun s => (s.ranIds, s.dropped, s.done, s.pc 0 == .exited)) = some ([0], [1, 2], true, true) := by decide

/-! ### pick order -/

theorem step_picks (s : State) (st : Step) : ∀ p ∈ (step s st).picks, p ∈ s.picks ∨ popOne p.2 = some p.1 := by
  cases st <;> simp only [step, afterPred] <;> (repeat' split) <;> simp_all

theorem exec_picks (s : State) (sts : List Step) (s' : State) (he : exec s sts = some s')
    (h : ∀ p ∈ s.picks, popOne p.2 = some p.1) : ∀ p ∈ s'.picks, popOne p.2 = some p.1 := by
  induction sts generalizing s with
  | nil => simp [exec] at he; exact he ▸ h
  | cons st sts ih =>
    simp only [exec] at he
    split at he
    · refine ih _ he (fun p hp => ?_)
      rcases step_picks s st p hp with hh | hh
      · exact h p hh
      · exact hh
    · cases he

/-- **priority, then FIFO**: every pick ever made (any configuration) took, from the waiting queue
`u` as it was at that moment, a task `t` of the lowest level present, and the earliest submitted of
that level: `u = pre ++ t :: post` with every task of `pre` at a strictly higher level number. -/
theorem C05_priority_fifo (c : Cfg) (sts : List Step) (s : State) (he : exec (init c) sts = some s) :
    ∀ p ∈ s.picks, p.1 ∈ p.2 ∧ (∀ x ∈ p.2, p.1.lvl ≤ x.lvl) ∧
      p.2.find? (fun x => x.lvl == p.1.lvl) = some p.1 := by
  intro p hp
  have := exec_picks (init c) sts s he (by intro p hp; simp [init] at hp) p hp
  obtain ⟨_, _, h3, h4⟩ := scanFrom_spec p.2 _ _ p.1 this
  exact ⟨List.mem_of_find?_eq_some h3, fun x hx => h4 x hx (Nat.zero_le _), h3⟩

/-- **submission order = order of the execute() critical sections**, whoever calls: every accepted execute()
— from the loop thread, a callback or a task body on a worker (nested submission) — appends its task at the BACK of
the waiting queue; together with `C05_priority_fifo` (the pick takes the earliest entry of the best level) a nested
submission never overtakes a same-priority task that was already waiting. -/
theorem C05_execute_appends (s : State) (prio : Int) (cb : Bool) (h : s.done = false) :
    (step s (.execute prio cb)).undo = s.undo ++ [{ id := s.nextTask, lvl := levelOf prio, cb := cb }] := by
  simp only [step, h, Bool.false_eq_true, ↓reduceIte]
  (repeat' split) <;> rfl

/-- nested submission on a (1,1) pool: the worker is inside the body of task 0 when task 1 (loop thread) and then
tasks 2, 3 (issued "by the body") are submitted; the picks are 1, 2, 3 -/
example : (exec (init { min := 1, max := 1 })
    [.execute 0 false, .notifyOne none, .enter 0, .execute 0 false, .notifyOne none, .execute 0 false, .execute 0 false,
     .notifyOne none, .notifyOne none, .runBody 0, .postCb 0, .finish 0, .enter 0, .runBody 0, .postCb 0, .finish 0,
     .enter 0, .runBody 0, .postCb 0, .finish 0, .enter 0, .runBody 0]).map (fun s => s.ranIds) = some [3, 2, 1, 0] := by
  decide

/-! ### workers -/

/-- **max workers**: the cabinet never holds more than `max` threads and the number of worker
threads whose thread function has not returned never exceeds `max`. -/
theorem C05_max_workers (c : Cfg) (hf : c.fixed) (hok : c.ok = true) (sts : List Step) (s : State)
    (he : exec (init c) sts = some s) :
    s.cab.length ≤ s.cfg.max ∧ (liveWorkers s).length ≤ s.cfg.max := by
  have h := (reach hf hok sts s he).work
  exact ⟨by have := h.len; omega, h.live_le⟩

/-! ### cleanup -/

/-- **no deadlock**: once cleanup() has called notify_all, no worker is blocked: the mutex is free,
no worker sits in (or just before) the condition-variable wait, and EVERY worker whose thread function
has not returned has an enabled step of its own. -/
theorem C05_no_deadlock (c : Cfg) (hf : c.fixed) (hok : c.ok = true) (sts : List Step) (s : State)
    (he : exec (init c) sts = some s) (hn : s.notified = true) :
    s.lock = false ∧ (∀ w, s.pc w ≠ .waiting ∧ s.pc w ≠ .aboutToWait) ∧
    ∀ w, w < s.nW → s.pc w ≠ .exited → ∃ st, workerOf st = some w ∧ valid s st = true := by
  have hl := (reach hf hok sts s he).lock
  have hstop := (hl.notif hn).1
  have hlock := hl.stopFree hstop
  refine ⟨hlock, fun w => ⟨(hl.notif hn).2 w, hl.owner hlock w⟩, fun w hw hne => ?_⟩
  cases hp : s.pc w with
  | start => exact ⟨.enter w, rfl, by simp [valid, hw, hlock, hp]⟩
  | aboutToWait => exact absurd hp (hl.owner hlock w)
  | waiting => exact absurd hp ((hl.notif hn).2 w)
  | woken => exact ⟨.reenter w, rfl, by simp [valid, hw, hlock, hp]⟩
  | picked t => exact ⟨.markDoing w, rfl, by simp [valid, hw, hlock, hp]⟩
  | running t => exact ⟨.runBody w, rfl, by simp [valid, hw, hp]⟩
  | postCb t => exact ⟨.postCb w, rfl, by simp [valid, hw, hp]⟩
  | finishing t => exact ⟨.finish w, rfl, by simp [valid, hw, hlock, hp]⟩
  | exitVol own => exact ⟨.selfRemove w, rfl, by simp [valid, hw, hlock, hp]⟩
  | leaving => exact ⟨.threadEnd w, rfl, by simp [valid, hw, hp]⟩
  | exited => exact absurd hp hne

/-- distance of a worker from the end of its thread function once the stop flag is set -/
def rank : PC → Nat
  | .exited => 0 | .leaving => 1 | .exitVol _ => 2 | .start => 3 | .woken => 3 | .finishing _ => 4 | .waiting => 4
  | .postCb _ => 5 | .aboutToWait => 5 | .running _ => 6 | .picked _ => 7

/-- **bounded progress**: with the stop flag set, every enabled step of worker `w` strictly decreases
`rank (pc w)` (≤ 7) and leaves every other worker's program counter alone — so each worker takes at most
seven more steps, and by `C05_no_deadlock` it can always take the next one: with fair scheduling and
terminating bodies every worker reaches `exited` and cleanup()'s joins return. -/
theorem C05_cleanup_progress (s : State) (st : Step) (w : Nat) (hs : s.stop = true) (hv : valid s st = true)
    (hw : workerOf st = some w) :
    rank ((step s st).pc w) < rank (s.pc w) ∧ ∀ i, i ≠ w → (step s st).pc i = s.pc i := by
  cases st <;> simp only [workerOf, Option.some.injEq, reduceCtorEq] at hw <;> subst hw
  all_goals simp only [valid, Bool.and_eq_true, decide_eq_true_eq, beq_iff_eq, Bool.not_eq_true'] at hv
  · -- enter
    simp only [step, afterPred, hs, Bool.true_or, ↓reduceIte]
    (repeat' split) <;> (refine ⟨?_, fun i hi => by simp [hi]⟩; simp [hv.2, rank])
  · simp only [step]; refine ⟨?_, fun i hi => by simp [hi]⟩; simp [hv.2, rank]
  · simp only [step]; refine ⟨?_, fun i hi => by simp [hi]⟩; simp [hv.2, rank]
  · simp only [step, afterPred, hs, Bool.true_or, ↓reduceIte]
    refine ⟨?_, fun i hi => by simp [hi]⟩; simp [hv.2, rank]
  · simp only [step]
    split
    · rename_i t hp; refine ⟨?_, fun i hi => by simp [hi]⟩; simp [hp, rank]
    · rename_i hp; split at hv <;> simp_all
  · simp only [step]
    split
    · rename_i t hp; refine ⟨?_, fun i hi => by simp [hi]⟩; simp [hp, rank]
    · rename_i hp; split at hv <;> simp_all
  · simp only [step]
    split
    · rename_i t hp; refine ⟨?_, fun i hi => by split <;> simp [hi]⟩; simp [hp, rank]
    · rename_i hp; split at hv <;> simp_all
  · simp only [step]
    split
    · rename_i t hp; refine ⟨?_, fun i hi => by simp [hi]⟩; simp [hp, rank]
    · rename_i hp; split at hv <;> simp_all
  · -- selfRemove
    cases hp : s.pc _ <;> simp [hp] at hv
    simp only [step, hp]
    (repeat' split) <;> (refine ⟨?_, fun i hi => by simp [hi]⟩; simp [rank])
  · -- threadEnd
    simp only [step]; refine ⟨?_, fun i hi => by simp [hi]⟩; simp [hv.2, rank]

/-! ### the cleared cabinet -/

structure NullInv (s : State) : Prop where
  fixC : s.cfg.fixC = true
  ok   : s.crashed = false
  noQ  : LoopItem.joinNull ∉ s.loopQ

theorem NullInv.step {s : State} (h : NullInv s) (st : Step) : NullInv (step s st) := by
  obtain ⟨h1, h2, h3⟩ := h
  cases st <;> simp only [Tbox.C05.step, afterPred] <;> (repeat' split) <;>
    (first
      | exact ⟨h1, h2, h3⟩
      | (rename_i hq; rw [hq] at h3; simp at h3; exact ⟨h1, h2, by simpa using h3⟩)
      | (constructor <;> simp_all))

theorem NullInv.exec {s : State} (h : NullInv s) (sts : List Step) (s' : State) (he : exec s sts = some s') :
    NullInv s' := by
  induction sts generalizing s with
  | nil => simp [Tbox.C05.exec] at he; exact he ▸ h
  | cons st sts ih =>
    simp only [Tbox.C05.exec] at he
    split at he
    · exact ih (h.step st) he
    · cases he

/-- **no join on a null pointer**: the loop is never handed `nullptr->join()` and no assertion aborts,
also when a voluntarily exiting worker races with cleanup(). -/
theorem C05_no_null_join (c : Cfg) (hf : c.fixed) (sts : List Step) (s : State)
    (he : exec (init c) sts = some s) : s.crashed = false ∧ LoopItem.joinNull ∉ s.loopQ := by
  have h := NullInv.exec (s := init c) ⟨hf.2.2.1, rfl, by simp [init]⟩ sts s he
  exact ⟨h.ok, h.noQ⟩

/-! ### accounting (positive half of "exactly once") -/

/-- **every accepted task is accounted for**, at every moment: it has run, or was cancelled, or was dropped
by cleanup, or is still going to run (waiting in the queue, or held by a worker whose body has not started). -/
theorem C05_accounted (c : Cfg) (hf : c.fixed) (hok : c.ok = true) (sts : List Step) (s : State)
    (he : exec (init c) sts = some s) :
    ∀ id, id < s.nextTask → id ∈ s.ranIds ∨ id ∈ s.cancelled ∨ id ∈ s.dropped ∨ pendingTask s id :=
  (reach hf hok sts s he).acct.cover

/-- **final accounting**: once cleanup() has returned, every accepted task is in EXACTLY one of: executed
(once, by `C05_exactly_once`), cancelled with answer 0, dropped by cleanup. In particular a task that was
neither cancelled nor dropped HAS run. -/
theorem C05_final_accounting (c : Cfg) (hf : c.fixed) (hok : c.ok = true) (sts : List Step) (s : State)
    (he : exec (init c) sts = some s) (hd : s.done = true) :
    ∀ id, id < s.nextTask →
      (id ∈ s.ranIds ∧ id ∉ s.cancelled ∧ id ∉ s.dropped) ∨
      (id ∉ s.ranIds ∧ id ∈ s.cancelled ∧ id ∉ s.dropped) ∨
      (id ∉ s.ranIds ∧ id ∉ s.cancelled ∧ id ∈ s.dropped) := by
  have h := reach hf hok sts s he
  intro id hid
  have hundo : s.undo = [] := h.acct.noUndo (h.join.donePhase hd)
  rcases h.acct.cover id hid with a | a | a | a
  · exact Or.inl ⟨a, (h.task.ranExcl id a).1, (h.task.ranExcl id a).2.1⟩
  · exact Or.inr (Or.inl ⟨fun r => (h.task.ranExcl id r).1 a, a, h.task.canDrp id a⟩)
  · exact Or.inr (Or.inr ⟨fun r => (h.task.ranExcl id r).2.1 a, fun c' => h.task.canDrp id c' a, a⟩)
  · rcases a with ⟨t, ht, _⟩ | ⟨w, t, hw, _⟩
    · rw [hundo] at ht; cases ht
    · have hlt : w < s.nW := by
        by_cases hlt : w < s.nW
        · exact hlt
        · have hact : (s.pc w).active = true := by
            cases hp : s.pc w <;> simp_all [PC.pre?, PC.active]
          exact h.work.bound w (h.work.live w hact)
      have := (h.join.joinedEx w (h.join.doneAll hd w hlt)).1
      rw [this] at hw; cases hw

/-! ### cleanup joins every worker -/

/-- **cleanup joins every worker**: once cleanup() has returned, every worker thread ever created has been
joined and its thread function has returned — including workers that left the cabinet by themselves. -/
theorem C05_cleanup_joins_all (c : Cfg) (hf : c.fixed) (hok : c.ok = true) (sts : List Step) (s : State)
    (he : exec (init c) sts = some s) (hd : s.done = true) :
    ∀ w, w < s.nW → w ∈ s.joined ∧ s.pc w = .exited := by
  have h := (reach hf hok sts s he).join
  intro w hw
  exact ⟨h.doneAll hd w hw, (h.joinedEx w (h.doneAll hd w hw)).1⟩

/-! ### no lost wake-up -/

/-- **no lost wake-up for submitted tasks**: whenever a task is waiting (pool not stopping, no notify_one
pending) and some worker is blocked in the wait, the mutex is free and there is a WOKEN worker whose next
step is enabled and picks the best waiting task — a waiting task never coexists with "every idle worker
asleep and nobody on the way". With fair scheduling every accepted task is therefore eventually picked. -/
theorem C05_no_lost_wakeup (c : Cfg) (hf : c.fixed) (hok : c.ok = true) (sts : List Step) (s : State)
    (he : exec (init c) sts = some s) (hs : s.stop = false) (hp : s.pend = 0) (hu : s.undo ≠ [])
    (hw : ∃ w, w < s.nW ∧ s.pc w = .waiting) :
    s.lock = false ∧ ∃ w t, w < s.nW ∧ s.pc w = .woken ∧ valid s (.reenter w) = true ∧
      popOne s.undo = some t ∧ (step s (.reenter w)).pc w = .running t := by
  have h := reach hf hok sts s he
  have hlock : s.lock = false := by
    cases hl : s.lock
    · rfl
    · exact absurd (h.wake.lockUndo hl) hu
  refine ⟨hlock, ?_⟩
  have hlen : 0 < s.undo.length := List.length_pos_iff.2 hu
  obtain ⟨w0, hw0, hpw0⟩ := hw
  have hk : 0 < nWoken s := by
    rcases h.wake.K hs with a | a
    · rw [hp] at a; omega
    · have := cntF_zero a w0 hw0; simp [hpw0, PC.isWaiting] at this
  obtain ⟨w, hwlt, hwk⟩ := cntF_pos hk
  have hpc : s.pc w = .woken := by
    cases hpc : s.pc w <;> simp_all [PC.isWoken]
  obtain ⟨t, ht⟩ := popOne_some hu h.wake.lvlOk
  refine ⟨w, t, hwlt, hpc, by simp [valid, hwlt, hlock, hpc], ht, ?_⟩
  have hne : s.undo.isEmpty = false := by
    cases hh : s.undo with
    | nil => exact absurd hh hu
    | cons x xs => rfl
  simp [step, afterPred, hs, hne, ht, h.task.fixA]

/-- **no stranded task**: before cleanup, whenever a task is waiting there is a worker registered in the
cabinet, and no registered worker has already decided to leave (the decision and the removal are one critical
section) — so execute()'s "count < max" test never counts a departing worker, and a waiting task always has
a worker that will come back to the queue; the idle counter never exceeds the workers actually idle. -/
theorem C05_no_stranded_task (c : Cfg) (hf : c.fixed) (hok : c.ok = true) (sts : List Step) (s : State)
    (he : exec (init c) sts = some s) :
    (s.phase1 = false → s.undo ≠ [] → s.cab ≠ []) ∧ (∀ w, s.pc w = .exitVol false → w ∉ s.cab) ∧ s.idle ≤ nIdle s := by
  have h := (reach hf hok sts s he).strand
  exact ⟨h.nonEmpty, h.noLoose, h.idleLe⟩

/-! ### the code as found: counterexample interleavings (defects a, b, c of DESIGN §7-13) -/

/-- (a) one worker: submit; the worker pops the task and unlocks; getTaskStatus answers NOT FOUND;
the worker re-locks, marks it running and executes it. -/
def cxStatus : List Step := [.execute 0 false, .notifyOne none, .enter 0, .status 0, .markDoing 0, .runBody 0]

theorem C05_status_consistent_counterexample :
    (exec (init (Cfg.asFound 1 1)) cxStatus).map (fun s => (s.nfEarly, s.ranIds)) = some ([0], [0]) := by decide

/-- (a) the same window: cancel answers 1 ("not found") and the task then runs. -/
def cxCancel : List Step := [.execute 0 false, .notifyOne none, .enter 0, .cancel 0, .markDoing 0, .runBody 0]

theorem C05_cancel_counterexample :
    (exec (init (Cfg.asFound 1 1)) cxCancel).map (fun s => (s.nfEarly, s.ranIds, s.cancelled)) = some ([0], [0], []) := by
  decide

/-- (b) cleanup()'s critical section; the worker locks, evaluates the wait predicate (false) and is
about to block; cleanup sets the flag WITHOUT the mutex and notifies (nobody waits yet); the worker
blocks: `notified`, the worker is `waiting`, `join 0` is not enabled — and never will be. -/
def cxDeadlock : List Step := [.cleanup1, .enter 0, .setStop, .notifyAll, .block 0]

theorem C05_no_deadlock_counterexample :
    (exec (init (Cfg.asFound 1 1)) cxDeadlock).map
      (fun s => (s.notified, s.pc 0 == .waiting, valid s (.join 0), valid s (.reenter 0), valid s (.enter 0)))
      = some (true, true, false, false, false) := by decide

/-- (c) min 0, max 1: the only worker finishes its task, decides to exit voluntarily, cleanup() takes
its thread object out of the cabinet, the worker then gets nullptr from the cabinet. -/
def cxNull : List Step :=
  [.execute 0 false, .notifyOne none, .enter 0, .markDoing 0, .runBody 0, .postCb 0, .finish 0, .enter 0, .cleanup1, .selfRemove 0]

theorem C05_no_null_join_counterexample :
    (exec (init (Cfg.asFound 0 1)) cxNull).map (fun s => (s.crashed, s.loopQ)) = some (true, [.joinNull]) := by decide

/-- (d) code after the round-1 patches: the only worker (min 0) runs its task, decides to exit, removes itself
from the cabinet and posts its join to the loop; before its thread function returns, cleanup() runs to
completion — it finds an empty cabinet and returns while the thread (`leaving`) is still alive. -/
def cxUnjoined : List Step :=
  [.execute 0 false, .notifyOne none, .enter 0, .runBody 0, .postCb 0, .finish 0, .enter 0, .selfRemove 0,
   .cleanup1, .setStop, .notifyAll, .cleanupRet]

theorem C05_cleanup_joins_all_counterexample :
    (exec (init (Cfg.round1 0 1)) cxUnjoined).map (fun s => (s.done, s.pc 0 == .leaving, s.joined)) =
      some (true, true, []) := by decide

/-- (e) code after the round-1 patches, min 0 / max 1: the worker has decided to exit but is still counted in the
cabinet; execute() therefore spawns nobody (count = max) and notifies nobody; the worker leaves: the accepted
task waits for ever with no worker at all. -/
def cxStranded : List Step :=
  [.execute 0 false, .notifyOne none, .enter 0, .runBody 0, .postCb 0, .finish 0, .enter 0,
   .execute 0 false, .notifyOne none, .selfRemove 0, .threadEnd 0, .loopRun]

theorem C05_no_stranded_task_counterexample :
    (exec (init (Cfg.round1 0 1)) cxStranded).map
      (fun s => (s.undo.length, s.stop, s.cab, liveWorkers s, s.nW)) = some (1, false, [], [], 1) := by decide

/-! ### non-vacuity: the repaired model really runs, and rejects the counterexample schedules -/

/-- the repaired model does not allow (d): cleanup() cannot return before it has joined worker 0 -/
example : (exec (init { min := 0, max := 1 }) cxUnjoined).isSome = false := by decide
/-- … and passes schedule (e) with a fresh worker spawned for the second task -/
example : (exec (init { min := 0, max := 1 }) cxStranded).map (fun s => (s.undo.length, s.cab, liveWorkers s, s.nW)) =
    some (1, [1], [1], 2) := by decide
/-- hypotheses of `C05_no_lost_wakeup` are reachable: a worker waits, a task arrives, notify_one wakes it;
a second worker is still waiting -/
example : (exec (init { min := 2, max := 2 })
    [.enter 0, .block 0, .enter 1, .block 1, .execute 0 false, .notifyOne (some 1)]).map
      (fun s => (s.stop, s.pend, s.undo.length, s.pc 0 == .waiting, s.pc 1 == .woken)) = some (false, 0, 1, true, true) := by
  decide
/-- `notifyOne none` is refused while a worker waits: notify_one must wake somebody -/
example : (exec (init { min := 1, max := 1 }) [.enter 0, .block 0, .execute 0 false, .notifyOne none]).isSome = false := by
  decide
-- the hypothesis `done = true` of `C05_final_accounting` / `C05_cleanup_joins_all` is reached by `demo` below
/-- the three counterexample schedules are NOT executions of the repaired model -/
example : (exec (init { min := 1, max := 1 }) cxStatus).isSome = false := by decide
example : (exec (init { min := 1, max := 1 }) cxDeadlock).isSome = false := by decide
example : ((exec (init { min := 0, max := 1 })
    [.execute 0 false, .notifyOne none, .enter 0, .runBody 0, .postCb 0, .finish 0, .enter 0, .cleanup1, .selfRemove 0]).map
      (fun s => (s.crashed, s.loopQ))) = some (false, [.joinW 0]) := by decide

/-- WorkThread = the instance min = max = 1: submit two tasks with callbacks, cancel the second while
the first runs, cleanup, join — everything the hypotheses of the theorems above mention occurs. -/
def demo : List Step :=
  [.execute 0 true, .notifyOne none, .execute 0 true, .notifyOne none, .enter 0, .status 0, .cancel 1, .runBody 0, .postCb 0, .finish 0, .loopRun,
   .enter 0, .block 0, .cleanup1, .setStop, .notifyAll, .reenter 0, .join 0, .cleanupRet]

example : (exec (init { min := 1, max := 1 }) demo).map
    (fun s => (s.ranIds, s.cbs, s.cancelled)) = some ([0], [0], [1]) := by decide
example : (exec (init { min := 1, max := 1 }) demo).map
    (fun s => (s.nfEarly.length, s.done, s.pc 0 == .exited, s.picks.length)) = some (0, true, true, 1) := by decide
example : ({ min := 1, max := 1 } : Cfg).fixed ∧ ({ min := 1, max := 1 } : Cfg).ok = true := by decide
/-- `C05_no_deadlock`'s hypothesis is reachable: after notifyAll with a worker still busy -/
example : (exec (init { min := 2, max := 2 }) [.execute 0 false, .notifyOne none, .enter 0, .cleanup1, .setStop, .notifyAll]).map
    (fun s => (s.notified, s.pc 0 == .running ⟨0, 2, false⟩, s.pc 1 == .start)) = some (true, true, true) := by decide

end Tbox.C05

/-! ## Round 5: widths, the spawn oracle, step-level replay -/

namespace Tbox.C05

/-- **`int prio` (tools/narrowing/C05.txt, thread_pool.cpp:177)**: for EVERY 32-bit `prio` the code clamps first and
adds THREAD_POOL_PRIO_MAX afterwards, so the sum never leaves [0,4] (no signed overflow, the `int → size_t`
conversion at `undo_tasks_token.at(level)` is value-preserving, the index is inside the array of 5 queues), and
inside [-2,2] the priority is used unchanged. -/
theorem C05_prio_width (p : Int) :
    -2 ≤ clampPrio p ∧ clampPrio p ≤ 2 ∧ 0 ≤ clampPrio p + 2 ∧ clampPrio p + 2 ≤ 4 ∧
    levelOf p = (clampPrio p + 2).toNat ∧ levelOf p < nPrio ∧
    (-2 ≤ p → p ≤ 2 → clampPrio p = p) ∧ (p < -2 → levelOf p = 0) ∧ (2 < p → levelOf p = 4) := by
  unfold clampPrio levelOf nPrio
  refine ⟨?_, ?_, ?_, ?_, ?_, ?_, ?_, ?_, ?_⟩ <;> (repeat' split) <;> omega

/-- adding before clamping would overflow `int` at the top of the range — the order in the code matters -/
theorem C05_prio_add_before_clamp_counterexample : ¬ ((2147483647 : Int) + 2 ≤ 2147483647) := by decide

/-- **`ssize_t` arguments of initialize() (thread_pool.cpp:127,128)**: the test is made on the signed values; exactly
the pairs 0 ≤ min ≤ max, 0 < max are accepted, and for those the conversion to the `size_t` members keeps the value
(so `Cfg.ok` of the stored configuration holds — the hypothesis of every theorem above); everything else, in
particular every negative argument, is refused before anything is stored. -/
theorem C05_initialize_width (mn mx : Int) :
    (Cfg.okI mn mx = true ↔ 0 ≤ mn ∧ mn ≤ mx ∧ 0 < mx) ∧
    (Cfg.okI mn mx = true → (mn.toNat : Int) = mn ∧ (mx.toNat : Int) = mx ∧
      Cfg.ok { min := mn.toNat, max := mx.toNat } = true) := by
  have h1 : Cfg.okI mn mx = true ↔ 0 ≤ mn ∧ mn ≤ mx ∧ 0 < mx := by
    simp only [Cfg.okI, Bool.not_eq_true', Bool.or_eq_false_iff, decide_eq_false_iff_not]
    omega
  refine ⟨h1, fun h => ?_⟩
  obtain ⟨a, b, c⟩ := h1.1 h
  refine ⟨by omega, by omega, ?_⟩
  simp only [Cfg.ok, Bool.and_eq_true, decide_eq_true_eq]
  omega

example : Cfg.okI 0 9223372036854775807 = true ∧ Cfg.okI (-1) 3 = false ∧ Cfg.okI 0 (-9223372036854775808) = false ∧
    Cfg.okI 3 2 = false ∧ Cfg.okI 0 0 = false := by decide

/-- **spawn oracle — a task is never lost silently**: in any reachable state of the repaired code, an execute()
whose thread creation FAILS (`executeF`; enabled exactly when the code would call createWorker())
either (a) finds no worker at all: it changes nothing and returns a null token — the caller is told, and no
earlier task is waiting either; or (b) leaves the task at the back of the queue for the workers that exist (the
cabinet is not empty and unchanged: no slot without a thread), owes a notify_one, and the resulting state satisfies
every invariant again (`Reach`): all theorems above — accounting, no lost wake-up, no stranded task, cleanup joins
all — hold for runs with failed creations at arbitrary points, because `sts` ranges over `executeF` too. -/
theorem C05_spawn_failure_reported (c : Cfg) (hf : c.fixed) (hok : c.ok = true) (sts : List Step) (s : State)
    (he : exec (init c) sts = some s) (prio : Int) (cb : Bool) (hv : valid s (.executeF prio cb) = true) :
    (s.cab = [] ∧ step s (.executeF prio cb) = s ∧ s.undo = []) ∨
    (s.cab ≠ [] ∧ (step s (.executeF prio cb)).undo = s.undo ++ [{ id := s.nextTask, lvl := levelOf prio, cb := cb }] ∧
      (step s (.executeF prio cb)).pend = s.pend + 1 ∧ (step s (.executeF prio cb)).cab = s.cab ∧
      (step s (.executeF prio cb)).nW = s.nW ∧ Reach c (step s (.executeF prio cb))) := by
  have h := reach hf hok sts s he
  have hr := h.step _ hv
  cases hc : s.cab with
  | nil =>
    left
    refine ⟨rfl, by simp [step, hc], ?_⟩
    simp only [valid, inCleanup, Bool.and_eq_true, Bool.not_eq_true', Bool.and_eq_false_iff, decide_eq_true_eq] at hv
    have hph : s.phase1 = false := by
      rcases hv.1.1.1.2 with hp | hp
      · exact hp
      · simp at hp; rw [hv.1.1.2] at hp; cases hp
    by_cases hu : s.undo = []
    · exact hu
    · exact absurd hc (h.strand.nonEmpty hph hu)
  | cons x xs =>
    right
    refine ⟨by simp, ?_, ?_, ?_, ?_, ?_⟩
    · simp [step, hc]
    · simp [step, hc]
    · simp [step, hc]
    · simp [step, hc]
    · exact hr

/-- non-vacuity: (1,3) pool, worker 0 is busy (worker 1 was spawned and has not started), the second execute() cannot
create a third thread: the task waits for worker 0, which then runs it -/
example : (exec (init { min := 1, max := 3 })
    [.execute 0 false, .notifyOne none, .enter 0, .executeF 0 true, .notifyOne none, .runBody 0, .postCb 0, .finish 0,
     .enter 0, .runBody 0]).map (fun s => (s.ranIds, s.cab, s.nW)) = some ([1, 0], [0, 1], 2) := by decide
/-- … and (0,1): no worker exists, creation fails: refused, nothing queued -/
example : (exec (init { min := 0, max := 1 }) [.executeF 0 true]).map (fun s => (s.undo.length, s.nextTask, s.pend)) =
    some (0, 0, 0) := by decide

/-- **the code as found** (`executeFAsFound`): `new std::thread` throws out of execute(); the caller gets an exception
instead of a token but the task IS queued (it will run unannounced), nobody is notified, and the cabinet now holds
slot 2 although only threads 0 and 1 were ever created: after cleanup()'s critical section that slot is in `thread_vec` —
cleanup() calls `join()` on its null pointer (observed: SIGSEGV in std::thread::join, corpus/C05/f-spawn-failure-*.ops). -/
theorem C05_spawn_failure_counterexample :
    ((exec (init { min := 1, max := 3 }) [.execute 0 false, .notifyOne none, .enter 0]).map fun s =>
      let s' := executeFAsFound s 0 false
      (s'.undo.length, s'.pend, s'.cab, s'.pc 2 == .exited, (step s' .cleanup1).vec)) =
    some (1, 0, [0, 1, 2], true, [0, 1, 2]) := by decide

end Tbox.C05
