/-
C05 — PROPERTY THEOREMS, round 6: several lifecycles of one pool object, stale and forged tokens.

`execL (init c) xs = some s`: `xs` is any list of model steps (`.st`, each `valid` when taken — every interleaving, as in
Props.lean) and of accepted `initialize()` calls (`.init mn mx`, enabled only after cleanup() has returned, with
0 < mx, mn ≤ mx).  `c` is the configuration of the first lifecycle; later ones are `s.cfg`.  Ghost history accumulates over the
lifecycles, so "exactly once", "callback once", "cancelled never runs" speak about ALL tasks the object ever accepted, and a
token of an earlier lifecycle is an ordinary stale token.

Not in this file: WorkThread has no second lifecycle (its cleanup() deletes `d_`; `C05_workthread_instance` stays a
single-lifecycle theorem).  A second `initialize()` whose thread creation fails (fix C05-06 rolls it back through cleanup()) is
driven on the real code but is no `.init` step (the pool is not ready afterwards: every call is refused, `C05_execute_after_cleanup`).
-/
import TboxModel.C05.LifeProofs
namespace Tbox.C05

/-! ### what cleanup() leaves behind, and what initialize() then builds -/

/-- **cleanup resets**: when cleanup() has returned — in ANY lifecycle, after ANY interleaving — every piece of state that
`initialize()` does NOT rewrite is exactly as the constructor left it: no waiting task, empty running set,
`idle_thread_num = 0` (seeded change C05-7: a worker that leaves through the stop flag without `--idle_thread_num`),
empty thread cabinet, empty list of self-exited threads, no notify owed, mutex free, every worker thread returned.
Hence the state `initialize(mn, mx)` produces is `init {min := mn, max := mx}` with the thread numbers shifted by the
threads created so far and the task counter continuing (`initAt`) — field by field for every non-ghost field except
the two id counters, the never-reset peak statistic and what is still queued in the loop. -/
theorem C05_cleanup_resets (c : Cfg) (hf : c.fixed) (hok : c.ok = true) (xs : List LStep) (s : State)
    (he : execL (init c) xs = some s) (hd : s.done = true) (mn mx : Nat) :
    (s.undo = [] ∧ s.doing = [] ∧ s.idle = 0 ∧ s.cab = [] ∧ s.exiting = [] ∧ s.pend = 0 ∧ s.lock = false ∧
      (∀ w, w < s.nW → s.pc w = .exited) ∧ liveWorkers s = []) ∧
    (let s' := reinit s mn mx
     let i := initAt { s.cfg with min := mn, max := mx } s.nW
     s'.cfg = i.cfg ∧ s'.undo = i.undo ∧ s'.doing = i.doing ∧ s'.idle = i.idle ∧ s'.cab = i.cab ∧ s'.vec = i.vec ∧
     s'.exiting = i.exiting ∧ s'.pend = i.pend ∧ s'.nW = i.nW ∧ s'.lock = i.lock ∧ s'.stop = i.stop ∧
     s'.phase1 = i.phase1 ∧ s'.notified = i.notified ∧ s'.done = i.done ∧ s'.crashed = i.crashed ∧
     (∀ w, s'.pc w = i.pc w ∨ (s.nW + mn ≤ w ∧ (s'.pc w).active = false ∧ (s'.pc w).task? = none)) ∧
     s'.nextTask = s.nextTask) := by
  have h := reachL hf hok xs s he
  have q := quiet_of_done h.reach h.life hd
  have hcr := NullInv.execL_crashed hf xs s he
  refine ⟨⟨q.undo, q.doing, q.idle, q.cab, q.exiting, q.pend, q.lock, q.exited, ?_⟩, ?_⟩
  · unfold liveWorkers
    apply List.filter_eq_nil_iff.2
    intro w hw
    simp only [List.mem_range] at hw
    rw [q.exited w hw]; simp [PC.active]
  · intro s' i
    refine ⟨rfl, q.undo, q.doing, q.idle, rfl, rfl, q.exiting, q.pend, rfl, q.lock, rfl, rfl, rfl, rfl, hcr, ?_, rfl⟩
    intro w
    simp only [s', i, reinit, initAt]
    by_cases hr : s.nW ≤ w ∧ w < s.nW + mn
    · left; simp [hr]
    · simp only [hr, ↓reduceIte]
      by_cases hlt : w < s.nW
      · left; exact q.exited w hlt
      · right; exact ⟨by omega, q.inactive w, q.noTask w⟩

/-- **what a stale counter would do** (the seeded change C05-7 as a theorem about the model): had cleanup() left
`idle_thread_num = 1` behind, the first execute() of a (0,1) second lifecycle would see "one idle thread for one waiting
task", create no worker, and the accepted task would wait for ever with no worker thread at all. -/
theorem C05_stale_idle_counterexample :
    ((execL (init { min := 1, max := 1 })
        [.st .cleanup1, .st .setStop, .st .notifyAll, .st (.enter 0), .st (.join 0), .st .cleanupRet, .init 0 1]).map fun s =>
      let bad := { s with idle := 1 }
      ((step s (.execute 0 false)).cab, (step bad (.execute 0 false)).cab, (step bad (.execute 0 false)).undo.length,
       liveWorkers (step bad (.execute 0 false)))) = some ([1], [], 1, []) := by decide

/-! ### every invariant, over any number of lifecycles -/

/-- **the properties of Props.lean hold across lifecycles**: exactly once (over all tasks the object ever accepted), callback
once after the body, accounted, status consistent, max workers (of the CURRENT configuration), no stranded task. -/
theorem C05_lifecycles_safe (c : Cfg) (hf : c.fixed) (hok : c.ok = true) (xs : List LStep) (s : State)
    (he : execL (init c) xs = some s) :
    (s.ranIds.Nodup ∧ ∀ id ∈ s.ranIds, id < s.nextTask ∧ id ∉ s.cancelled ∧ id ∉ s.dropped) ∧
    (s.cbs.Nodup ∧ (∀ id ∈ s.cbs, id ∈ s.ranIds) ∧ (∀ id ∈ cbIds s.loopQ, id ∈ s.ranIds ∧ id ∉ s.cbs)) ∧
    (∀ id, id < s.nextTask → id ∈ s.ranIds ∨ id ∈ s.cancelled ∨ id ∈ s.dropped ∨ pendingTask s id) ∧
    (∀ id, (inUndo s id = true ∨ ∃ w t, (s.pc w).pre? = some t ∧ t.id = id) → statusOf s id ≠ .notFound ∧ cancelAns s id ≠ 1) ∧
    (s.cab.length ≤ s.cfg.max ∧ (liveWorkers s).length ≤ s.cfg.max) ∧
    ((s.phase1 = false → s.undo ≠ [] → s.cab ≠ []) ∧ s.idle ≤ nIdle s) ∧
    (s.crashed = false ∧ LoopItem.joinNull ∉ s.loopQ) := by
  have hl := reachL hf hok xs s he
  have h := hl.reach
  refine ⟨⟨h.task.ranNodup, fun id hid => ⟨h.task.deadLt id (Or.inl hid), (h.task.ranExcl id hid).1, (h.task.ranExcl id hid).2.1⟩⟩,
    ⟨h.cb.cbsNodup, h.cb.cbsRan, h.cb.qRan⟩, h.acct.cover, ?_, ⟨by have := h.work.len; omega, h.work.live_le⟩,
    ⟨h.strand.nonEmpty, h.strand.idleLe⟩, ?_⟩
  · intro id hid
    rcases hid with hu | ⟨w, t, hp, rfl⟩
    · constructor
      · unfold statusOf; simp [hu]
      · unfold cancelAns; split <;> simp
    · have hd : t.id ∈ s.doing := by
        cases hpc : s.pc w <;> simp [hpc, PC.pre?] at hp
        · exact absurd hpc (h.task.noPicked w _)
        · subst hp; exact h.task.runDoing w _ hpc
      constructor
      · unfold statusOf; split
        · simp
        · simp [hd]
      · unfold cancelAns; simp [hd]
  · have hn := NullInv.ofExecL hf xs s he
    exact ⟨hn.ok, hn.noQ⟩

/-- **cleanup terminates and joins every worker, in every lifecycle**: after the notify_all of the current cleanup() no
worker is blocked and each live worker has an enabled step (with `C05_cleanup_progress`: at most seven more steps each);
when cleanup() has returned every worker thread ever created — in this and in earlier lifecycles — has been joined and has
returned, and every task ever accepted is in exactly one of executed / cancelled / dropped. -/
theorem C05_lifecycles_cleanup (c : Cfg) (hf : c.fixed) (hok : c.ok = true) (xs : List LStep) (s : State)
    (he : execL (init c) xs = some s) :
    (s.notified = true → s.lock = false ∧ (∀ w, s.pc w ≠ .waiting ∧ s.pc w ≠ .aboutToWait) ∧
      ∀ w, w < s.nW → s.pc w ≠ .exited → ∃ st, workerOf st = some w ∧ valid s st = true) ∧
    (s.done = true → (∀ w, w < s.nW → w ∈ s.joined ∧ s.pc w = .exited) ∧
      ∀ id, id < s.nextTask →
        (id ∈ s.ranIds ∧ id ∉ s.cancelled ∧ id ∉ s.dropped) ∨
        (id ∉ s.ranIds ∧ id ∈ s.cancelled ∧ id ∉ s.dropped) ∨
        (id ∉ s.ranIds ∧ id ∉ s.cancelled ∧ id ∈ s.dropped)) := by
  have hl := reachL hf hok xs s he
  have h := hl.reach
  constructor
  · intro hn
    have hk := h.lock
    have hstop := (hk.notif hn).1
    have hlock := hk.stopFree hstop
    refine ⟨hlock, fun w => ⟨(hk.notif hn).2 w, hk.owner hlock w⟩, fun w hw hne => ?_⟩
    cases hp : s.pc w with
    | start => exact ⟨.enter w, rfl, by simp [valid, hw, hlock, hp]⟩
    | aboutToWait => exact absurd hp (hk.owner hlock w)
    | waiting => exact absurd hp ((hk.notif hn).2 w)
    | woken => exact ⟨.reenter w, rfl, by simp [valid, hw, hlock, hp]⟩
    | picked t => exact ⟨.markDoing w, rfl, by simp [valid, hw, hlock, hp]⟩
    | running t => exact ⟨.runBody w, rfl, by simp [valid, hw, hp]⟩
    | postCb t => exact ⟨.postCb w, rfl, by simp [valid, hw, hp]⟩
    | finishing t => exact ⟨.finish w, rfl, by simp [valid, hw, hlock, hp]⟩
    | exitVol own => exact ⟨.selfRemove w, rfl, by simp [valid, hw, hlock, hp]⟩
    | leaving => exact ⟨.threadEnd w, rfl, by simp [valid, hw, hp]⟩
    | exited => exact absurd hp hne
  · intro hd
    have q := quiet_of_done h hl.life hd
    refine ⟨fun w hw => ⟨h.join.doneAll hd w hw, q.exited w hw⟩, fun id hid => ?_⟩
    rcases h.acct.cover id hid with a | a | a | a
    · exact Or.inl ⟨a, (h.task.ranExcl id a).1, (h.task.ranExcl id a).2.1⟩
    · exact Or.inr (Or.inl ⟨fun r => (h.task.ranExcl id r).1 a, a, h.task.canDrp id a⟩)
    · exact Or.inr (Or.inr ⟨fun r => (h.task.ranExcl id r).2.1 a, fun c' => h.task.canDrp id c' a, a⟩)
    · rcases a with ⟨t, ht, _⟩ | ⟨w, t, hw, _⟩
      · rw [q.undo] at ht; cases ht
      · have := q.noTask w
        cases hp : s.pc w <;> simp_all [PC.task?, PC.pre?]

/-! ### stale and forged tokens -/

/-- **the running set only names tasks a worker holds** (so `snapshot().doing_task_num` never exceeds the workers, and a
token that no worker holds is never reported executing) -/
theorem C05_doing_only_held (c : Cfg) (hf : c.fixed) (hok : c.ok = true) (xs : List LStep) (s : State)
    (he : execL (init c) xs = some s) : ∀ id ∈ s.doing, ∃ w t, w < s.nW ∧ (s.pc w).task? = some t ∧ t.id = id := by
  have hl := reachL hf hok xs s he
  intro id hid
  obtain ⟨w, t, hw, rfl⟩ := hl.life.doingHeld _ hid
  refine ⟨w, t, ?_, hw, rfl⟩
  have hact : (s.pc w).active = true := by
    cases hp : s.pc w <;> simp_all [PC.task?, PC.active]
  exact hl.reach.work.bound w (hl.reach.work.live w hact)

/-- **a token this pool has not issued** (an id beyond every id handed out so far: a forged token, a token of ANOTHER pool
or of a WorkThread whose id is larger): getTaskStatus answers not-found and cancel answers 1 — the token is in no
deque, not in the running set; nothing is touched.  (Cab.lean: `C05_forged_token` says the same for the token deques and
the cabinet as the code has them, including null tokens and stale ones.) -/
theorem C05_unissued_token (c : Cfg) (hf : c.fixed) (hok : c.ok = true) (xs : List LStep) (s : State)
    (he : execL (init c) xs = some s) (id : Nat) (hid : s.nextTask ≤ id) :
    statusOf s id = .notFound ∧ cancelAns s id = 1 := by
  have hl := reachL hf hok xs s he
  have hu : inUndo s id = false := by
    rw [inUndo_false]; intro t ht e
    have := hl.reach.task.undoLt t ht; omega
  have hd : s.doing.contains id = false := by
    cases hc : s.doing.contains id
    · rfl
    · have hm : id ∈ s.doing := by simpa using hc
      obtain ⟨w, t, hw, e⟩ := hl.life.doingHeld _ hm
      have := hl.reach.task.holdLt w t hw; omega
  have hd' : id ∉ s.doing := by simpa using hd
  constructor
  · unfold statusOf; simp [hu, hd']
  · unfold cancelAns; simp [hu, hd']

/-- a task that is neither waiting nor held by a worker (it has run to the end, was cancelled, or was dropped) -/
def Gone (s : State) (id : Nat) : Prop :=
  id < s.nextTask ∧ inUndo s id = false ∧ ∀ w t, (s.pc w).task? = some t → t.id ≠ id

theorem step_nextTask_le (s : State) (st : Step) : s.nextTask ≤ (step s st).nextTask := by
  cases st <;> simp only [step, afterPred] <;> (repeat' split) <;> simp

theorem step_undo_src (s : State) (st : Step) : ∀ t ∈ (step s st).undo, t ∈ s.undo ∨ t.id = s.nextTask := by
  cases st <;> simp only [step, afterPred] <;> (repeat' split) <;> simp_all [mem_removeId] <;> grind

theorem step_task_src (s : State) (st : Step) (w : Nat) (t : Tk) (h : ((step s st).pc w).task? = some t) :
    (s.pc w).task? = some t ∨ t ∈ s.undo := by
  cases st with
  | enter w' =>
    simp only [step, afterPred] at h
    (repeat' split at h) <;> (simp only [setPc_pc] at h; split at h) <;>
      first
        | (left; exact h)
        | (simp only [PC.task?, Option.some.injEq] at h; subst h; right; exact popOne_mem (by assumption))
        | (simp [PC.task?] at h; done)
  | reenter w' =>
    simp only [step, afterPred] at h
    (repeat' split at h) <;> (simp only [setPc_pc] at h; split at h) <;>
      first
        | (left; exact h)
        | (simp only [PC.task?, Option.some.injEq] at h; subst h; right; exact popOne_mem (by assumption))
        | (simp [PC.task?] at h; done)
  | notifyAll =>
    simp only [step] at h
    split at h
    · simp [PC.task?] at h
    · left; exact h
  | notifyOne ow =>
    cases ow <;> simp only [step] at h
    · left; exact h
    · simp only [setPc_pc] at h; split at h
      · simp [PC.task?] at h
      · left; exact h
  | _ =>
    simp only [step] at h
    (repeat' split at h) <;>
      first
        | (left; exact h)
        | (simp only [setPc_pc] at h; split at h <;>
            first
              | (left; exact h)
              | (simp [PC.task?] at h; done)
              | (subst_vars; left; simp_all [PC.task?]))

theorem Gone.step {s : State} {id : Nat} (g : Gone s id) (st : Step) : Gone (step s st) id := by
  obtain ⟨g1, g2, g3⟩ := g
  rw [inUndo_false] at g2
  refine ⟨Nat.lt_of_lt_of_le g1 (step_nextTask_le s st), ?_, fun w t ht e => ?_⟩
  · rw [inUndo_false]
    intro t ht e
    rcases step_undo_src s st t ht with h | h
    · exact g2 t h e
    · omega
  · rcases step_task_src s st w t ht with h | h
    · exact g3 w t h e
    · exact g2 t h e

theorem Gone.stepL {s : State} {id : Nat} (g : Gone s id) (x : LStep) : Gone (stepL s x) id := by
  cases x with
  | st st => exact g.step st
  | init mn mx =>
    obtain ⟨g1, g2, g3⟩ := g
    refine ⟨g1, g2, fun w t ht e => ?_⟩
    simp only [Tbox.C05.stepL, reinit] at ht
    split at ht
    · cases ht
    · exact g3 w t ht e

theorem Gone.execL {s : State} {id : Nat} (g : Gone s id) (xs : List LStep) (s' : State) (he : execL s xs = some s') :
    Gone s' id := by
  induction xs generalizing s with
  | nil => simp [Tbox.C05.execL] at he; exact he ▸ g
  | cons x xs ih =>
    simp only [Tbox.C05.execL] at he
    split at he
    · exact ih (g.stepL x) he
    · cases he

/-- **stale tokens stay dead — also in the next lifecycle**: once a task is neither waiting nor held by a worker (in
particular EVERY task the pool has accepted, at the moment cleanup() has returned), getTaskStatus answers not-found and
cancel answers 1 for its token in every continuation, through any number of further lifecycles: a token of an earlier
lifecycle never aliases a task of a later one (the cabinet's id counter survives `clear()`, fix C08-01). -/
theorem C05_stale_token_dead (c : Cfg) (hf : c.fixed) (hok : c.ok = true) (xs more : List LStep) (s s' : State)
    (he : execL (init c) xs = some s) (he' : execL s more = some s') (id : Nat)
    (hg : Gone s id ∨ (s.done = true ∧ id < s.nextTask)) :
    statusOf s' id = .notFound ∧ cancelAns s' id = 1 ∧ Gone s' id := by
  have hl := reachL hf hok xs s he
  have g : Gone s id := by
    rcases hg with g | ⟨hd, hlt⟩
    · exact g
    · have q := quiet_of_done hl.reach hl.life hd
      refine ⟨hlt, ?_, fun w t ht => by rw [q.noTask w] at ht; cases ht⟩
      rw [inUndo_false, q.undo]; intro t ht; cases ht
  have g' := g.execL more s' he'
  have hl' : ReachL s' := hl.execL more s' he'
  have hd : s'.doing.contains id = false := by
    cases hc : s'.doing.contains id
    · rfl
    · have hm : id ∈ s'.doing := by simpa using hc
      obtain ⟨w, t, hw, e⟩ := hl'.life.doingHeld _ hm
      exact absurd e (g'.2.2 w t hw)
  have hd' : id ∉ s'.doing := by simpa using hd
  refine ⟨?_, ?_, g'⟩
  · unfold statusOf; simp [g'.2.1, hd']
  · unfold cancelAns; simp [g'.2.1, hd']

/-! ### non-vacuity -/

/-- two lifecycles of one object: (1,1) runs task 0 and drops task 1 at cleanup; re-initialised as (0,2) it spawns worker 1
for task 2 and worker 2 for task 3 (worker 1 picks the better priority: task 3); the stale tokens 0 and 1 answer not-found / 1 in the second lifecycle -/
def demo2 : List LStep :=
  [.st (.execute 0 true), .st (.notifyOne none), .st (.enter 0), .st (.execute 0 false), .st (.notifyOne none),
   .st (.runBody 0), .st (.postCb 0), .st (.finish 0), .st .cleanup1, .st .setStop, .st .notifyAll, .st (.enter 0), .st (.join 0),
   .st .cleanupRet, .init 0 2, .st (.execute 1 false), .st (.notifyOne none), .st (.status 0), .st (.cancel 1),
   .st (.execute 0 true), .st (.notifyOne none), .st (.enter 1), .st (.enter 2), .st .loopRun]

example : (execL (init { min := 1, max := 1 }) demo2).map
    (fun s => (s.nW, s.cab, s.doing, s.dropped, s.cbs, s.nfEarly.length)) = some (3, [1, 2], [2, 3], [1], [0], 1) := by decide
example : (execL (init { min := 1, max := 1 }) demo2).map
    (fun s => (statusOf s 0 == .notFound, cancelAns s 1, s.cfg.max)) = some (true, 1, 2) := by decide
example : (execL (init { min := 1, max := 1 }) (demo2.take 14)).map (fun s => (s.done, s.nextTask)) = some (true, 2) := by decide
/-- initialize() is refused (not enabled) before cleanup() has returned and with bad arguments -/
example : (execL (init { min := 1, max := 1 }) [.init 1 1]).isSome = false ∧
    (execL (init { min := 1, max := 1 }) ((demo2.take 14) ++ [.init 2 1])).isSome = false ∧
    (execL (init { min := 1, max := 1 }) ((demo2.take 14) ++ [.init 0 0])).isSome = false := by decide

end Tbox.C05
