/-
C05 — STEP-LEVEL REPLAY: reconstruction of a model execution from a recorded run of the real pool.

The harness stamps, with one global counter, every critical section of the pool mutex (L right after the
acquisition, U right before the release; API calls carry the stamp `cs` of their own acquisition), every
cond_wait entry (CW) and return (CX), every notify_one / notify_all (NO / NA), every acquisition of the loop's
lock by a worker (LL: `runInLoop`), thread creation (TC), start / end of the thread function (TS / TE),
pthread_join returning (J), start of task bodies (BS) and execution of completion callbacks (CB).  Because two
critical sections of one mutex cannot overlap, sorting by stamp gives the exact order of the sections.

`replay` maps each event to the model step(s) it stands for and runs them with `valid` / `step`.  Nothing is
guessed from the answers of the real code: the model decides what each section does (exit, wait, which task is
popped, spawn or not, what status / cancel / snapshot answer) and the next event of the same thread must agree.
The only free choices are the ones the model leaves open and the kernel makes: which waiter a notify_one wakes
(taken to be the waiter that returns from the wait first) and spurious wake-ups (`wake`).

Outcome: the list of executed steps (`steps`, re-run with `exec` by the driver: it IS an execution the theorems
of Props.lean quantify over), model-internal divergences (`md`: the reconstruction failed — correspondence
broken) and property-level findings (`perr`: a worker executed a task other than the head of the best
non-empty priority of the exactly known queue).
-/
import TboxModel.C05.Model
namespace Tbox.C05.Replay
open Tbox.C05

inductive Api where
  | exec (k : Nat) (prio : Int) (cb : Bool) (spawnFailed : Bool) (token : Bool)
  | stat (k : Nat) (ans : Status)
  | cancel (k : Nat) (r : Nat)
  | snap (thr idle doing : Nat) (undo : List Nat) (peak : Nat)
  | cleanup
deriving Repr

inductive EvK where
  | L | U | CW | CX | LL | NO | NA
  | J (child : Nat) | TC (child : Nat)
  | TS | TE
  | BS (k : Nat) | CB (k : Nat)
  | api (a : Api)
  | cleanupRet
deriving Repr

structure Ev where
  q : Nat
  thr : Nat
  k : EvK
deriving Repr

instance : Inhabited Ev := ⟨⟨0, 0, .U⟩⟩

structure R where
  s : State
  tmap : Array (Option Nat) := Array.replicate 4096 none   -- harness task number → model task id
  inCl : Bool := false            -- between cleanup()'s critical section and its return
  seenJ : List Nat := []          -- workers whose pthread_join has returned inside cleanup()
  ntc : Nat := 0                  -- threads created so far (TC events)
  steps : List Step := []         -- executed model steps, newest first
  md : List String := []          -- model-internal divergences
  perr : Option String := none    -- property-level finding
  dead : Bool := false            -- a step was not enabled: the model state is no longer meaningful
  picks : Nat := 0                -- picks confirmed against the model's pop
  answers : Nat := 0              -- status / cancel / snapshot answers confirmed exactly
  spawns : Nat := 0               -- spawn decisions confirmed

def R.div (r : R) (q : Nat) (m : String) : R := { r with md := r.md ++ [s!"@{q} {m}"] }
def R.kill (r : R) (q : Nat) (m : String) : R := { (r.div q m) with dead := true }

def stepName : Step → String
  | .execute p c => s!"execute {p} {c}" | .executeF p c => s!"executeF {p} {c}" | .cancel t => s!"cancel {t}" | .status t => s!"status {t}" | .snapshot => "snapshot"
  | .cleanup1 => "cleanup1" | .setStop => "setStop" | .notifyAll => "notifyAll" | .join w => s!"join {w}"
  | .cleanupRet => "cleanupRet" | .loopRun => "loopRun" | .notifyOne (some w) => s!"notifyOne {w}" | .notifyOne none => "notifyOne none"
  | .enter w => s!"enter {w}" | .block w => s!"block {w}" | .wake w => s!"wake {w}" | .reenter w => s!"reenter {w}"
  | .markDoing w => s!"markDoing {w}" | .runBody w => s!"runBody {w}" | .postCb w => s!"postCb {w}" | .finish w => s!"finish {w}"
  | .selfRemove w => s!"selfRemove {w}" | .threadEnd w => s!"threadEnd {w}"

def pcName : PC → String
  | .start => "start" | .aboutToWait => "aboutToWait" | .waiting => "waiting" | .woken => "woken" | .picked t => s!"picked {t.id}"
  | .running t => s!"running {t.id}" | .postCb t => s!"postCb {t.id}" | .finishing t => s!"finishing {t.id}"
  | .exitVol b => s!"exitVol {b}" | .leaving => "leaving" | .exited => "exited"

/-- one model step, checked with `valid` -/
def R.doStep (r : R) (q : Nat) (st : Step) : R :=
  if r.dead then r
  else if valid r.s st then { r with s := step r.s st, steps := st :: r.steps }
  else r.kill q s!"model step `{stepName st}` is not enabled here"

def statusName : Status → String | .waiting => "waiting" | .executing => "executing" | .notFound => "not-found"

/-- the loop executes its queue in order: run the items in front of the wanted one (they can only be joins that
cleanup() has made unnecessary), then the wanted one -/
def R.loopUntil (r : R) (q : Nat) (want : LoopItem) : Nat → R
  | 0 => r.kill q s!"loop: the executed item was never posted with runInLoop by a worker"
  | fuel + 1 =>
    if r.dead then r else
    match r.s.loopQ with
    | [] => r.kill q s!"loop: the executed item was never posted with runInLoop by a worker"
    | it :: _ =>
      if it == want then r.doStep q .loopRun
      else match it with
        | .joinW _ => (r.doStep q .loopRun).loopUntil q want fuel
        | _ => r.kill q s!"loop: an item posted later was executed first"

/-- cleanup() joins its threads in an order of its own (cabinet slots); the model joins in creation order:
issue the model's joins as soon as the real join of that thread has returned -/
def R.tryJoins (r : R) (q : Nat) : Nat → R
  | 0 => r
  | fuel + 1 =>
    if r.dead then r else
    match nextJoin r.s with
    | some w => if r.seenJ.contains w && valid r.s (.join w) then (r.doStep q (.join w)).tryJoins q fuel else r
    | none => r

def undoAt (s : State) (l : Nat) : Nat := (s.undo.filter (fun t => t.lvl == l)).length

/-- threads the model has created but the run has not (checked before every later API section) -/
def R.checkCreated (r : R) (q : Nat) : R :=
  if r.dead then r
  else if r.s.nW > r.ntc then r.kill q s!"spawn rule: the model has created {r.s.nW} worker threads, the implementation {r.ntc}"
  else r

/-- process one event; `rest` = the events after it (look-ahead for notify_one only) -/
def R.event (r : R) (e : Ev) (rest : List Ev) : R :=
  if r.dead then r else
  let q := e.q
  let w := e.thr - 1
  match e.k with
  | .TS => if e.thr == 0 || w < r.s.nW then r else r.kill q s!"thread {e.thr} started but the model has only {r.s.nW} workers"
  | .TC child =>
    let r := { r with ntc := r.ntc + 1 }
    if child != r.ntc then r.kill q s!"thread numbering: created thread {child}, expected {r.ntc}"
    else if child > r.s.nW then r.kill q s!"spawn rule: the implementation created worker thread {child}, the model has only {r.s.nW} workers here"
    else { r with spawns := r.spawns + 1 }
  | .L =>
    match r.s.pc w with
    | .start => r.doStep q (.enter w)
    | .postCb t =>
      if t.cb then r.kill q s!"worker {w} finished task {t.id} without posting its completion callback to the loop"
      else (r.doStep q (.postCb w)).doStep q (.finish w)
    | .finishing _ => r.doStep q (.finish w)
    | p => r.kill q s!"worker {w} locked the pool mutex, model state {pcName p}"
  | .U =>
    match r.s.pc w with
    | .aboutToWait => r.kill q s!"worker {w} left its critical section, the model's worker goes to wait"
    | _ => r
  | .CW =>
    match r.s.pc w with
    | .aboutToWait => r.doStep q (.block w)
    | p => r.kill q s!"worker {w} entered the wait, model state {pcName p}"
  | .CX =>
    match r.s.pc w with
    | .waiting => (r.doStep q (.wake w)).doStep q (.reenter w)
    | .woken => r.doStep q (.reenter w)
    | p => r.kill q s!"worker {w} returned from the wait, model state {pcName p}"
  | .LL =>
    match r.s.pc w with
    | .postCb t =>
      if t.cb then r.doStep q (.postCb w) else r.kill q s!"worker {w} posted to the loop after task {t.id}, which has no completion callback"
    | .exitVol _ => r.doStep q (.selfRemove w)
    | .finishing _ | .leaving => r
    | p => r.kill q s!"worker {w} posted to the loop, model state {pcName p}"
  | .BS k =>
    match r.s.pc w with
    | .running t =>
      if r.tmap.getD k none == some t.id then { (r.doStep q (.runBody w)) with picks := r.picks + 1 }
      else
        let lvls := r.s.picks.head?.map (fun p => p.2.map (fun x => (x.id, x.lvl)))
        { (r.kill q s!"pick order: worker {w} executed task #{k}, the model popped task id {t.id}") with
          perr := some s!"pick order (step level): worker thread {e.thr} started the body of task #{k} (model id {r.tmap.getD k none}) at {q}, but the head of the best non-empty priority of the waiting queue at its pop was model id {t.id} (level {t.lvl}); queue (id, level) at the pop: {lvls}" }
    | p => r.kill q s!"worker {w} started the body of task #{k}, model state {pcName p}"
  | .CB k =>
    match r.tmap.getD k none with
    | some id => r.loopUntil q (.cb id) (r.s.loopQ.length + 1)
    | none => r.kill q s!"completion callback of task #{k}, whose execute() was not replayed"
  | .J child =>
    let c := child - 1
    if r.inCl then ({ r with seenJ := c :: r.seenJ }).tryJoins q (r.s.nW + 1)
    else r.loopUntil q (.joinW c) (r.s.loopQ.length + 1)
  | .TE =>
    match r.s.pc w with
    | .leaving => r.doStep q (.threadEnd w)
    | .exited => r
    | p => r.kill q s!"thread function of worker {w} returned, model state {pcName p}"
  | .NO =>
    if r.s.pend == 0 then r.kill q "notify_one without a pending execute()" else
    match rest.find? (fun x => match x.k with | .CX => x.thr > 0 && r.s.pc (x.thr - 1) == .waiting | _ => false) with
    | some x => r.doStep q (.notifyOne (some (x.thr - 1)))
    | none =>
      match (List.range r.s.nW).find? (fun i => r.s.pc i == .waiting) with
      | some i => r.doStep q (.notifyOne (some i))
      | none => r.doStep q (.notifyOne none)
  | .NA => r.doStep q .notifyAll
  | .cleanupRet =>
    if !r.inCl then r else
    let r := r.tryJoins q (r.s.nW + 1)
    { (r.doStep q .cleanupRet) with inCl := false }
  | .api a =>
    let r := r.checkCreated q
    if r.dead then r else
    match a with
    | .exec k prio cb failed tok =>
      let id := r.s.nextTask
      let r := r.doStep q (if failed then .executeF prio cb else .execute prio cb)
      let accepted := r.s.nextTask != id
      let r := if accepted != tok then
                 r.div q s!"execute(): the implementation {if tok then "returned a token" else "returned a null token"}, the model {if accepted then "accepts the task" else "withdraws the task (no worker exists and none could be created)"}"
               else r
      if accepted && tok && k < r.tmap.size then { r with tmap := r.tmap.set! k (some id) } else r
    | .stat k ans =>
      match r.tmap.getD k none with
      | none => r.kill q s!"getTaskStatus of task #{k}, whose execute() was not replayed"
      | some id =>
        let m := statusOf r.s id
        let r := if m == ans then { r with answers := r.answers + 1 }
                 else r.div q s!"getTaskStatus(#{k}) answered {statusName ans}, the model {statusName m}"
        r.doStep q (.status id)
    | .cancel k a =>
      match r.tmap.getD k none with
      | none => r.kill q s!"cancel of task #{k}, whose execute() was not replayed"
      | some id =>
        let m := cancelAns r.s id
        let r := if m == a then { r with answers := r.answers + 1 }
                 else r.div q s!"cancel(#{k}) answered {a}, the model {m}"
        r.doStep q (.cancel id)
    | .snap thr idle doing undo peak =>
      let mu := (List.range nPrio).map (undoAt r.s)
      let r := if thr == r.s.cab.length && idle == r.s.idle && doing == r.s.doing.length && undo == mu && peak == r.s.peak
               then { r with answers := r.answers + 1 }
               else r.div q s!"snapshot: threads={thr} idle={idle} doing={doing} waiting={undo} peak={peak}, the model threads={r.s.cab.length} idle={r.s.idle} doing={r.s.doing.length} waiting={mu} peak={r.s.peak}"
      r.doStep q .snapshot
    | .cleanup =>
      let r := (r.doStep q .cleanup1).doStep q .setStop
      { r with inCl := true }

def R.run (r : R) : List Ev → R
  | [] => r
  | e :: rest => (r.event e rest).run rest

/-- at the end of the case the loop has run everything that was posted -/
def R.flushLoop (r : R) : Nat → R
  | 0 => r
  | fuel + 1 =>
    if r.dead || r.s.loopQ.isEmpty || !valid r.s .loopRun then r else (r.doStep 0 .loopRun).flushLoop fuel

def insertSorted (e : Ev) : List Ev → List Ev
  | [] => [e]
  | x :: xs => if e.q ≤ x.q then e :: x :: xs else x :: insertSorted e xs

def replay (c : Cfg) (evs : Array Ev) : R :=
  let sorted := (evs.qsort (fun a b => a.q < b.q)).toList
  let r : R := { s := init c }
  let r := r.run sorted
  r.flushLoop (r.s.loopQ.length + 1)

/-- the verdict the driver uses: the reconstructed step list together with the state the MODEL's own `exec` computes for
it from `init c`; `none` if `exec` refuses the list (then the driver reports a divergence) -/
def checked (c : Cfg) (r : R) : Option (List Step × State) :=
  (exec (init c) r.steps.reverse).map (fun s => (r.steps.reverse, s))

end Tbox.C05.Replay
