/-
C05 — STEP-LEVEL REPLAY: reconstruction of a model execution from a recorded run of the real pool.

The harness stamps, with one global counter, every critical section of the pool mutex (L right after the
acquisition, U right before the release; API calls carry the stamp `cs` of their own acquisition), every
cond_wait entry (CW) and return (CX), every notify_one / notify_all (NO / NA), every acquisition of the loop's
lock by a worker (LL: `runInLoop`), thread creation (TC), start / end of the thread function (TS / TE),
pthread_join returning (J), start of task bodies (BS) and execution of completion callbacks (CB).  Because two
critical sections of one mutex cannot overlap, sorting by stamp gives the exact order of the sections.

`replay` maps each event to the model step(s) it stands for and runs them with `valid` / `step`.  Nothing is
guessed from the answers of the real code: the model decides what each section does (exit, wait, which task is
popped, spawn or not, what status / cancel / snapshot answer) and the next event of the same thread must agree.
The only free choices are the ones the model leaves open and the kernel makes: which waiter a notify_one wakes
(taken to be the waiter that returns from the wait first) and spurious wake-ups (`wake`).

Outcome: the list of executed steps (`steps`, re-run with `exec` by the driver: it IS an execution the theorems
of Props.lean quantify over), model-internal divergences (`md`: the reconstruction failed — correspondence
broken) and property-level findings (`perr`: a worker executed a task other than the head of the best
non-empty priority of the exactly known queue).
-/
import TboxModel.C05.Life
import TboxModel.C05.Cab
namespace Tbox.C05.Replay
open Tbox.C05

inductive Api where
  | exec (k : Nat) (prio : Int) (cb : Bool) (spawnFailed : Bool) (token : Bool)
  | stat (k : Nat) (ans : Status)
  | cancel (k : Nat) (r : Nat)
  | snap (thr idle doing : Nat) (undo : List Nat) (peak : Nat)
  | cleanup
  | init (mn mx : Nat)                  -- initialize(mn, mx) accepted on the same object after cleanup() has returned
  | forged (isCancel : Bool) (ans : Nat)  -- getTaskStatus / cancel with a token this pool never issued: status 2 = not-found, cancel 1
deriving Repr

inductive EvK where
  | L | U | CW | CX | LL | NO | NA
  | J (child : Nat) | TC (child : Nat)
  | TS | TE
  | BS (k : Nat) | CB (k : Nat)
  | api (a : Api)
  | cleanupRet
deriving Repr

structure Ev where
  q : Nat
  thr : Nat
  k : EvK
deriving Repr

instance : Inhabited Ev := ⟨⟨0, 0, .U⟩⟩

structure R where
  s : State
  tmap : Array (Option Nat) := Array.replicate 8192 none   -- harness task number → model task id; 4096 + k = task k of the PREVIOUS lifecycle
  inCl : Bool := false            -- between cleanup()'s critical section and its return
  seenJ : List Nat := []          -- workers whose pthread_join has returned inside cleanup()
  ntc : Nat := 0                  -- threads created so far (TC events)
  steps : List LStep := []        -- executed model steps (and accepted initialize() calls), newest first
  md : List String := []          -- model-internal divergences
  perr : Option String := none    -- property-level finding
  dead : Bool := false            -- a step was not enabled: the model state is no longer meaningful
  picks : Nat := 0                -- picks confirmed against the model's pop
  answers : Nat := 0              -- status / cancel / snapshot answers confirmed exactly
  spawns : Nat := 0               -- spawn decisions confirmed
  q : Cab.Q := {}                 -- the queue layer as the code has it (Cab.lean: token deques + cabinet + running set), run in lock-step
  tk : List (Nat × Nat) := []     -- model task id ↦ token id of that layer
  cabChecks : Nat := 0            -- steps on which the two layers were compared

def R.div (r : R) (q : Nat) (m : String) : R := { r with md := r.md ++ [s!"@{q} {m}"] }
def R.kill (r : R) (q : Nat) (m : String) : R := { (r.div q m) with dead := true }

def stepName : Step → String
  | .execute p c => s!"execute {p} {c}" | .executeF p c => s!"executeF {p} {c}" | .cancel t => s!"cancel {t}" | .status t => s!"status {t}" | .snapshot => "snapshot"
  | .cleanup1 => "cleanup1" | .setStop => "setStop" | .notifyAll => "notifyAll" | .join w => s!"join {w}"
  | .cleanupRet => "cleanupRet" | .loopRun => "loopRun" | .notifyOne (some w) => s!"notifyOne {w}" | .notifyOne none => "notifyOne none"
  | .enter w => s!"enter {w}" | .block w => s!"block {w}" | .wake w => s!"wake {w}" | .reenter w => s!"reenter {w}"
  | .markDoing w => s!"markDoing {w}" | .runBody w => s!"runBody {w}" | .postCb w => s!"postCb {w}" | .finish w => s!"finish {w}"
  | .selfRemove w => s!"selfRemove {w}" | .threadEnd w => s!"threadEnd {w}"

def pcName : PC → String
  | .start => "start" | .aboutToWait => "aboutToWait" | .waiting => "waiting" | .woken => "woken" | .picked t => s!"picked {t.id}"
  | .running t => s!"running {t.id}" | .postCb t => s!"postCb {t.id}" | .finishing t => s!"finishing {t.id}"
  | .exitVol b => s!"exitVol {b}" | .leaving => "leaving" | .exited => "exited"

def R.tokOf (r : R) (id : Nat) : Nat := ((r.tk.find? (·.1 == id)).map (·.2)).getD 0

def cabStatusNum : Status → Nat | .waiting => 0 | .executing => 1 | .notFound => 2

/-- the concrete queue layer (Cab.lean) takes the step the code takes for this model step; afterwards the two layers must
show the same sizes per level, the same cabinet size (= what `undo_tasks_cabinet.size()` feeds into the spawn and exit
tests), the same running set size, and — for cancel / status / pop — the same answer.  `s0` = model state before the step.
Only `q`, `tk`, `md`, `cabChecks` change. -/
def R.syncCab (r : R) (qn : Nat) (s0 : State) (st : Step) : R :=
  let s1 := r.s
  let (q1, tk1, bad) : Cab.Q × List (Nat × Nat) × Option String :=
    match st with
    | .execute prio _ =>
      if s1.nextTask != s0.nextTask then
        let x := Cab.execute r.q (levelOf prio); (x.1, (s0.nextTask, x.2) :: r.tk, none)
      else (r.q, r.tk, none)
    | .executeF prio _ =>
      if s1.nextTask != s0.nextTask then
        let x := Cab.execute r.q (levelOf prio); (x.1, (s0.nextTask, x.2) :: r.tk, none)
      else (Cab.step r.q (.executeWithdrawn (levelOf prio)), r.tk, none)
    | .cancel id =>
      let x := Cab.cancel r.q (r.tokOf id)
      (x.1, r.tk, if x.2 == cancelAns s0 id then none else some s!"cancel of model task {id}: the token layer answers {x.2}, the model {cancelAns s0 id}")
    | .status id =>
      let a := Cab.status r.q (r.tokOf id)
      (r.q, r.tk, if cabStatusNum a == cabStatusNum (statusOf s0 id) then none
                  else some s!"status of model task {id}: the token layer answers {cabStatusNum a}, the model {cabStatusNum (statusOf s0 id)}")
    | .enter _ | .reenter _ =>
      if s1.picks.length != s0.picks.length then
        let x := Cab.pop r.q
        let want := s1.picks.head?.map (fun p => r.tokOf p.1.id)
        (x.1, r.tk, if x.2 == want then none else some s!"pop: the token layer pops token {x.2}, the model the task with token {want}")
      else (r.q, r.tk, none)
    | .finish w =>
      match s0.pc w with
      | .finishing t => (Cab.finish r.q (r.tokOf t.id), r.tk, none)
      | _ => (r.q, r.tk, none)
    | .cleanup1 => (Cab.cleanup r.q, r.tk, none)
    | _ => (r.q, r.tk, none)
  let sizes := (List.range nPrio).map (fun l => (q1.deq l).length)
  let msizes := (List.range nPrio).map (fun l => (s1.undo.filter (fun t => t.lvl == l)).length)
  let bad := bad <|> (if sizes != msizes then some s!"deque sizes {sizes}, the model {msizes}" else none)
    <|> (if Cab.cabSize q1 != s1.undo.length then some s!"cabinet size {Cab.cabSize q1}, the model's waiting queue {s1.undo.length}" else none)
    <|> (if q1.doing.length != s1.doing.length then some s!"running set {q1.doing.length}, the model {s1.doing.length}" else none)
    <|> (if q1.nullFree || q1.lost then some "free(nullptr) / lost pop in the token layer" else none)
  match bad with
  | some m => { r with q := q1, tk := tk1, md := r.md ++ [s!"@{qn} cabinet layer after `{stepName st}`: {m}"] }
  | none => { r with q := q1, tk := tk1, cabChecks := r.cabChecks + 1 }

/-- one model step, checked with `valid` -/
def R.doStep (r : R) (q : Nat) (st : Step) : R :=
  if r.dead then r
  else if valid r.s st then ({ r with s := step r.s st, steps := .st st :: r.steps } : R).syncCab q r.s st
  else r.kill q s!"model step `{stepName st}` is not enabled here"

def statusName : Status → String | .waiting => "waiting" | .executing => "executing" | .notFound => "not-found"

/-- the loop executes its queue in order: run the items in front of the wanted one (they can only be joins that
cleanup() has made unnecessary), then the wanted one -/
def R.loopUntil (r : R) (q : Nat) (want : LoopItem) : Nat → R
  | 0 => r.kill q s!"loop: the executed item was never posted with runInLoop by a worker"
  | fuel + 1 =>
    if r.dead then r else
    match r.s.loopQ with
    | [] => r.kill q s!"loop: the executed item was never posted with runInLoop by a worker"
    | it :: _ =>
      if it == want then r.doStep q .loopRun
      else match it with
        | .joinW _ => (r.doStep q .loopRun).loopUntil q want fuel
        | _ => r.kill q s!"loop: an item posted later was executed first"

/-- cleanup() joins its threads in an order of its own (cabinet slots); the model joins in creation order:
issue the model's joins as soon as the real join of that thread has returned -/
def R.tryJoins (r : R) (q : Nat) : Nat → R
  | 0 => r
  | fuel + 1 =>
    if r.dead then r else
    match nextJoin r.s with
    | some w => if r.seenJ.contains w && valid r.s (.join w) then (r.doStep q (.join w)).tryJoins q fuel else r
    | none => r

def undoAt (s : State) (l : Nat) : Nat := (s.undo.filter (fun t => t.lvl == l)).length

/-- threads the model has created but the run has not (checked before every later API section) -/
def R.checkCreated (r : R) (q : Nat) : R :=
  if r.dead then r
  else if r.s.nW > r.ntc then r.kill q s!"spawn rule: the model has created {r.s.nW} worker threads, the implementation {r.ntc}"
  else r

/-- an accepted `initialize(mn, mx)` after cleanup() has returned: checked with `validL`; the task table of the finished
lifecycle moves to 4096.. (stale tokens stay addressable), cleanup()'s bookkeeping is reset -/
def R.doInit (r : R) (q mn mx : Nat) : R :=
  if r.dead then r
  else if validL r.s (.init mn mx) then
    { r with s := reinit r.s mn mx, steps := .init mn mx :: r.steps, inCl := false, seenJ := [],
             tmap := (Array.replicate 4096 none) ++ (r.tmap.extract 0 4096) }
  else r.kill q s!"initialize({mn},{mx}) accepted by the implementation, the model refuses it here (cleanup() has not returned, or bad arguments)"

/-! One function per event kind (`R.event` only dispatches), so that each has its own small soundness lemma. -/

def R.evTS (r : R) (e : Ev) : R :=
  if e.thr == 0 || e.thr - 1 < r.s.nW then r else r.kill e.q s!"thread {e.thr} started but the model has only {r.s.nW} workers"

def R.evTC (r : R) (e : Ev) (child : Nat) : R :=
  let r := { r with ntc := r.ntc + 1 }
  if child != r.ntc then r.kill e.q s!"thread numbering: created thread {child}, expected {r.ntc}"
  else if child > r.s.nW then r.kill e.q s!"spawn rule: the implementation created worker thread {child}, the model has only {r.s.nW} workers here"
  else { r with spawns := r.spawns + 1 }

def R.evL (r : R) (e : Ev) : R :=
  let q := e.q
  let w := e.thr - 1
  match r.s.pc w with
  | .start => r.doStep q (.enter w)
  | .postCb t =>
    if t.cb then r.kill q s!"worker {w} finished task {t.id} without posting its completion callback to the loop"
    else (r.doStep q (.postCb w)).doStep q (.finish w)
  | .finishing _ => r.doStep q (.finish w)
  | p => r.kill q s!"worker {w} locked the pool mutex, model state {pcName p}"

def R.evU (r : R) (e : Ev) : R :=
  match r.s.pc (e.thr - 1) with
  | .aboutToWait => r.kill e.q s!"worker {e.thr - 1} left its critical section, the model's worker goes to wait"
  | _ => r

def R.evCW (r : R) (e : Ev) : R :=
  match r.s.pc (e.thr - 1) with
  | .aboutToWait => r.doStep e.q (.block (e.thr - 1))
  | p => r.kill e.q s!"worker {e.thr - 1} entered the wait, model state {pcName p}"

def R.evCX (r : R) (e : Ev) : R :=
  let w := e.thr - 1
  match r.s.pc w with
  | .waiting => (r.doStep e.q (.wake w)).doStep e.q (.reenter w)
  | .woken => r.doStep e.q (.reenter w)
  | p => r.kill e.q s!"worker {w} returned from the wait, model state {pcName p}"

def R.evLL (r : R) (e : Ev) : R :=
  let w := e.thr - 1
  match r.s.pc w with
  | .postCb t =>
    if t.cb then r.doStep e.q (.postCb w) else r.kill e.q s!"worker {w} posted to the loop after task {t.id}, which has no completion callback"
  | .exitVol _ => r.doStep e.q (.selfRemove w)
  | .finishing _ | .leaving => r
  | p => r.kill e.q s!"worker {w} posted to the loop, model state {pcName p}"

def R.evBS (r : R) (e : Ev) (k : Nat) : R :=
  let q := e.q
  let w := e.thr - 1
  match r.s.pc w with
  | .running t =>
    if r.tmap.getD k none == some t.id then { (r.doStep q (.runBody w)) with picks := r.picks + 1 }
    else
      let lvls := r.s.picks.head?.map (fun p => p.2.map (fun x => (x.id, x.lvl)))
      { (r.kill q s!"pick order: worker {w} executed task #{k}, the model popped task id {t.id}") with
        perr := some s!"pick order (step level): worker thread {e.thr} started the body of task #{k} (model id {r.tmap.getD k none}) at {q}, but the head of the best non-empty priority of the waiting queue at its pop was model id {t.id} (level {t.lvl}); queue (id, level) at the pop: {lvls}" }
  | p => r.kill q s!"worker {w} started the body of task #{k}, model state {pcName p}"

def R.evCB (r : R) (e : Ev) (k : Nat) : R :=
  match r.tmap.getD k none with
  | some id => r.loopUntil e.q (.cb id) (r.s.loopQ.length + 1)
  | none => r.kill e.q s!"completion callback of task #{k}, whose execute() was not replayed"

def R.evJ (r : R) (e : Ev) (child : Nat) : R :=
  let c := child - 1
  if r.inCl then ({ r with seenJ := c :: r.seenJ }).tryJoins e.q (r.s.nW + 1)
  else r.loopUntil e.q (.joinW c) (r.s.loopQ.length + 1)

def R.evTE (r : R) (e : Ev) : R :=
  let w := e.thr - 1
  match r.s.pc w with
  | .leaving => r.doStep e.q (.threadEnd w)
  | .exited => r
  | p => r.kill e.q s!"thread function of worker {w} returned, model state {pcName p}"

def R.evNO (r : R) (e : Ev) (rest : List Ev) : R :=
  let q := e.q
  if r.s.pend == 0 then r.kill q "notify_one without a pending execute()" else
  match rest.find? (fun x => match x.k with | .CX => x.thr > 0 && r.s.pc (x.thr - 1) == .waiting | _ => false) with
  | some x => r.doStep q (.notifyOne (some (x.thr - 1)))
  | none =>
    match (List.range r.s.nW).find? (fun i => r.s.pc i == .waiting) with
    | some i => r.doStep q (.notifyOne (some i))
    | none => r.doStep q (.notifyOne none)

def R.evNA (r : R) (e : Ev) : R := r.doStep e.q .notifyAll

def R.evCleanupRet (r : R) (e : Ev) : R :=
  if !r.inCl then r else
  let r := r.tryJoins e.q (r.s.nW + 1)
  { (r.doStep e.q .cleanupRet) with inCl := false }

def R.cmpAccept (r : R) (q : Nat) (accepted tok : Bool) : R :=
  if accepted != tok then
    r.div q s!"execute(): the implementation {if tok then "returned a token" else "returned a null token"}, the model {if accepted then "accepts the task" else "withdraws the task (no worker exists and none could be created)"}"
  else r

def R.noteToken (r : R) (k id : Nat) (b : Bool) : R := if b then { r with tmap := r.tmap.set! k (some id) } else r

def R.apiExec (r : R) (q k : Nat) (prio : Int) (cb failed tok : Bool) : R :=
  let r1 := r.doStep q (if failed then .executeF prio cb else .execute prio cb)
  let accepted := r1.s.nextTask != r.s.nextTask
  (r1.cmpAccept q accepted tok).noteToken k r.s.nextTask (accepted && tok && decide (k < 4096))

def R.apiStat (r : R) (q k : Nat) (ans : Status) : R :=
  match r.tmap.getD k none with
  | none => r.kill q s!"getTaskStatus of task #{k}, whose execute() was not replayed"
  | some id =>
    let m := statusOf r.s id
    let r := if m == ans then { r with answers := r.answers + 1 }
             else r.div q s!"getTaskStatus(#{k}) answered {statusName ans}, the model {statusName m}"
    r.doStep q (.status id)

def R.apiCancel (r : R) (q k a : Nat) : R :=
  match r.tmap.getD k none with
  | none => r.kill q s!"cancel of task #{k}, whose execute() was not replayed"
  | some id =>
    let m := cancelAns r.s id
    let r := if m == a then { r with answers := r.answers + 1 }
             else r.div q s!"cancel(#{k}) answered {a}, the model {m}"
    r.doStep q (.cancel id)

def R.apiSnap (r : R) (q thr idle doing : Nat) (undo : List Nat) (peak : Nat) : R :=
  let mu := (List.range nPrio).map (undoAt r.s)
  let r := if thr == r.s.cab.length && idle == r.s.idle && doing == r.s.doing.length && undo == mu && peak == r.s.peak
           then { r with answers := r.answers + 1 }
           else r.div q s!"snapshot: threads={thr} idle={idle} doing={doing} waiting={undo} peak={peak}, the model threads={r.s.cab.length} idle={r.s.idle} doing={r.s.doing.length} waiting={mu} peak={r.s.peak}"
  r.doStep q .snapshot

def R.apiCleanup (r : R) (q : Nat) : R :=
  let r := (r.doStep q .cleanup1).doStep q .setStop
  { r with inCl := true }

/-- a token this pool never issued (id beyond every id it has handed out, a null id, the id of a live task at another
position, a token of ANOTHER pool / of a WorkThread): the model's answer for an id it has not issued is not-found / 1
(`C05_unissued_token`) and the call is no step of the model — it must change nothing, which the rest of the replay checks -/
def R.cmpForged (r : R) (q : Nat) (isCancel : Bool) (m ans : Nat) : R :=
  if m == ans then { r with answers := r.answers + 1 }
  else r.div q s!"forged token: {if isCancel then "cancel" else "getTaskStatus"} answered {ans}, the model {m}"

def R.apiForged (r : R) (q : Nat) (isCancel : Bool) (ans : Nat) : R :=
  r.cmpForged q isCancel
    (if isCancel then cancelAns r.s r.s.nextTask else (match statusOf r.s r.s.nextTask with | .waiting => 0 | .executing => 1 | .notFound => 2)) ans

def R.evApi (r : R) (e : Ev) (a : Api) : R :=
  let q := e.q
  let r := r.checkCreated q
  if r.dead then r else
  match a with
  | .exec k prio cb failed tok => r.apiExec q k prio cb failed tok
  | .stat k ans => r.apiStat q k ans
  | .cancel k a => r.apiCancel q k a
  | .snap thr idle doing undo peak => r.apiSnap q thr idle doing undo peak
  | .cleanup => r.apiCleanup q
  | .init mn mx => r.doInit q mn mx
  | .forged c a => r.apiForged q c a

/-- process one event; `rest` = the events after it (look-ahead for notify_one only) -/
def R.event (r : R) (e : Ev) (rest : List Ev) : R :=
  if r.dead then r else
  match e.k with
  | .TS => r.evTS e
  | .TC child => r.evTC e child
  | .L => r.evL e
  | .U => r.evU e
  | .CW => r.evCW e
  | .CX => r.evCX e
  | .LL => r.evLL e
  | .BS k => r.evBS e k
  | .CB k => r.evCB e k
  | .J child => r.evJ e child
  | .TE => r.evTE e
  | .NO => r.evNO e rest
  | .NA => r.evNA e
  | .cleanupRet => r.evCleanupRet e
  | .api a => r.evApi e a

def R.run (r : R) : List Ev → R
  | [] => r
  | e :: rest => (r.event e rest).run rest

/-- at the end of the case the loop has run everything that was posted -/
def R.flushLoop (r : R) : Nat → R
  | 0 => r
  | fuel + 1 =>
    if r.dead || r.s.loopQ.isEmpty || !valid r.s .loopRun then r else (r.doStep 0 .loopRun).flushLoop fuel

def insertSorted (e : Ev) : List Ev → List Ev
  | [] => [e]
  | x :: xs => if e.q ≤ x.q then e :: x :: xs else x :: insertSorted e xs

def replay (c : Cfg) (evs : Array Ev) : R :=
  let sorted := (evs.qsort (fun a b => a.q < b.q)).toList
  let r : R := { s := init c }
  let r := r.run sorted
  r.flushLoop (r.s.loopQ.length + 1)

/-- the verdict the driver uses: the reconstructed step list together with the state the MODEL's own `exec` computes for
it from `init c`; `none` if `exec` refuses the list (then the driver reports a divergence) -/
def checked (c : Cfg) (r : R) : Option (List LStep × State) :=
  (execL (init c) r.steps.reverse).map (fun s => (r.steps.reverse, s))

end Tbox.C05.Replay
