/- C05 — the step-level replay only ever moves the model state with `valid`-checked steps: whatever event list it is
given, the step list it returns is an execution of the model (`exec`), ending in the state it reports. -/
import TboxModel.C05.Replay
namespace Tbox.C05.Replay
open Tbox.C05

def Good (c : Cfg) (r : R) : Prop := execL (init c) r.steps.reverse = some r.s

theorem exec_snoc (s0 s : State) (sts : List LStep) (st : LStep) (h : execL s0 sts = some s) (hv : validL s st = true) :
    execL s0 (sts ++ [st]) = some (stepL s st) := by
  induction sts generalizing s0 with
  | nil => simp [execL] at h; subst h; simp [execL, hv]
  | cons a as ih =>
    simp only [List.cons_append, execL] at h ⊢
    split
    · rename_i ha; simp only [ha, ↓reduceIte] at h; exact ih _ h
    · rename_i ha; simp [ha] at h

theorem good_div {c : Cfg} {r : R} (q : Nat) (m : String) (h : Good c r) : Good c (r.div q m) := h
theorem good_kill {c : Cfg} {r : R} (q : Nat) (m : String) (h : Good c r) : Good c (r.kill q m) := h

/-- record updates that leave `s` and `steps` alone keep `Good` -/
theorem good_of_eq {c : Cfg} {r r' : R} (h : Good c r) (hs : r'.s = r.s) (ht : r'.steps = r.steps) : Good c r' := by
  unfold Good at *; rw [hs, ht]; exact h

theorem syncCab_s (r : R) (q : Nat) (s0 : State) (st : Step) : (r.syncCab q s0 st).s = r.s ∧ (r.syncCab q s0 st).steps = r.steps := by
  unfold R.syncCab
  simp only
  split <;> exact ⟨rfl, rfl⟩

theorem good_syncCab {c : Cfg} {r : R} (q : Nat) (s0 : State) (st : Step) (h : Good c r) : Good c (r.syncCab q s0 st) :=
  good_of_eq h (syncCab_s r q s0 st).1 (syncCab_s r q s0 st).2

theorem good_doStep {c : Cfg} {r : R} (q : Nat) (st : Step) (h : Good c r) : Good c (r.doStep q st) := by
  unfold R.doStep
  split
  · exact h
  · split
    · rename_i hv
      apply good_syncCab
      unfold Good
      simp only [List.reverse_cons]
      exact exec_snoc _ _ _ (.st st) h hv
    · exact good_kill _ _ h

theorem good_doInit {c : Cfg} {r : R} (q mn mx : Nat) (h : Good c r) : Good c (r.doInit q mn mx) := by
  unfold R.doInit
  split
  · exact h
  · split
    · rename_i hv
      unfold Good
      simp only [List.reverse_cons]
      exact exec_snoc _ _ _ (.init mn mx) h hv
    · exact good_kill _ _ h

theorem good_loopUntil {c : Cfg} (q : Nat) (want : LoopItem) (fuel : Nat) {r : R} (h : Good c r) :
    Good c (r.loopUntil q want fuel) := by
  induction fuel generalizing r with
  | zero => exact good_kill _ _ h
  | succ n ih =>
    unfold R.loopUntil
    split
    · exact h
    · split
      · exact good_kill _ _ h
      · split
        · exact good_doStep _ _ h
        · split
          · exact ih (good_doStep _ _ h)
          · exact good_kill _ _ h

theorem good_tryJoins {c : Cfg} (q : Nat) (fuel : Nat) {r : R} (h : Good c r) : Good c (r.tryJoins q fuel) := by
  induction fuel generalizing r with
  | zero => exact h
  | succ n ih =>
    unfold R.tryJoins
    split
    · exact h
    · split
      · split
        · exact ih (good_doStep _ _ h)
        · exact h
      · exact h

theorem good_checkCreated {c : Cfg} (q : Nat) {r : R} (h : Good c r) : Good c (r.checkCreated q) := by
  unfold R.checkCreated
  split
  · exact h
  · split
    · exact good_kill _ _ h
    · exact h

theorem good_flushLoop {c : Cfg} (fuel : Nat) {r : R} (h : Good c r) : Good c (r.flushLoop fuel) := by
  induction fuel generalizing r with
  | zero => exact h
  | succ n ih =>
    unfold R.flushLoop
    split
    · exact h
    · exact ih (good_doStep _ _ h)

/-- **replay soundness (as used)**: whatever events the harness printed, when the driver accepts a reconstruction
(`checked … = some (sts, s)`) the list `sts` is an execution of the model from `init c` ending in `s` — one of the
executions every theorem of Props.lean quantifies over; the ghost history of `s` (`ranIds`, `cbs`, `picks`, …) is what
the driver compares with the recorded run. -/
theorem C05_replay_sound (c : Cfg) (evs : Array Ev) (sts : List LStep) (s : State)
    (h : checked c (replay c evs) = some (sts, s)) : execL (init c) sts = some s := by
  unfold checked at h
  cases he : execL (init c) (replay c evs).steps.reverse with
  | none => rw [he] at h; cases h
  | some s' =>
    rw [he] at h
    simp only [Option.map_some, Option.some.injEq, Prod.mk.injEq] at h
    rw [← h.1, ← h.2]; exact he

/-- the events of a run of a (1,1) pool: one task, cleanup -/
def demoEvents : List Ev :=
  [⟨1, 0, .TC 1⟩, ⟨2, 1, .TS⟩, ⟨3, 1, .L⟩, ⟨4, 1, .CW⟩, ⟨5, 0, .api (.exec 0 0 false false true)⟩, ⟨6, 0, .NO⟩, ⟨7, 1, .CX⟩, ⟨8, 1, .U⟩,
   ⟨9, 1, .BS 0⟩, ⟨10, 1, .L⟩, ⟨11, 1, .U⟩, ⟨12, 1, .L⟩, ⟨13, 1, .CW⟩, ⟨14, 0, .api .cleanup⟩, ⟨15, 0, .NA⟩, ⟨16, 1, .CX⟩, ⟨17, 1, .U⟩,
   ⟨18, 1, .TE⟩, ⟨19, 0, .J 1⟩, ⟨20, 0, .cleanupRet⟩]

/-- non-vacuity: the run is accepted and gives 16 model steps; the same run with the worker starting a task the model
did not pop is refused -/
example : ((checked { min := 1, max := 1 } (({ s := init { min := 1, max := 1 }, tmap := Array.replicate 4 none } : R).run demoEvents)).map
    fun p => (p.1.length, p.2.ranIds, p.2.done)) = some (16, [0], true) := by decide +kernel
example : (({ s := init { min := 1, max := 1 }, tmap := Array.replicate 4 none } : R).run
    (demoEvents.map fun e => match e.k with | .BS _ => { e with k := .BS 1 } | _ => e)).perr.isSome = true := by decide +kernel

/-! ### one small lemma per event kind (round 6: closes the OPEN of round 5) -/

theorem good_evTS {c : Cfg} {r : R} (e : Ev) (h : Good c r) : Good c (r.evTS e) := by
  unfold R.evTS; split
  · exact h
  · exact good_kill _ _ h

theorem good_evTC {c : Cfg} {r : R} (e : Ev) (child : Nat) (h : Good c r) : Good c (r.evTC e child) := by
  have h1 : Good c { r with ntc := r.ntc + 1 } := good_of_eq h rfl rfl
  unfold R.evTC; simp only
  split
  · exact good_kill _ _ h1
  · split
    · exact good_kill _ _ h1
    · exact good_of_eq h1 rfl rfl

theorem good_evL {c : Cfg} {r : R} (e : Ev) (h : Good c r) : Good c (r.evL e) := by
  unfold R.evL; simp only
  split
  · exact good_doStep _ _ h
  · split
    · exact good_kill _ _ h
    · exact good_doStep _ _ (good_doStep _ _ h)
  · exact good_doStep _ _ h
  · exact good_kill _ _ h

theorem good_evU {c : Cfg} {r : R} (e : Ev) (h : Good c r) : Good c (r.evU e) := by
  unfold R.evU; split
  · exact good_kill _ _ h
  · exact h

theorem good_evCW {c : Cfg} {r : R} (e : Ev) (h : Good c r) : Good c (r.evCW e) := by
  unfold R.evCW; split
  · exact good_doStep _ _ h
  · exact good_kill _ _ h

theorem good_evCX {c : Cfg} {r : R} (e : Ev) (h : Good c r) : Good c (r.evCX e) := by
  unfold R.evCX; simp only
  split
  · exact good_doStep _ _ (good_doStep _ _ h)
  · exact good_doStep _ _ h
  · exact good_kill _ _ h

theorem good_evLL {c : Cfg} {r : R} (e : Ev) (h : Good c r) : Good c (r.evLL e) := by
  unfold R.evLL; simp only
  split
  · split
    · exact good_doStep _ _ h
    · exact good_kill _ _ h
  · exact good_doStep _ _ h
  · exact h
  · exact h
  · exact good_kill _ _ h

theorem good_evBS {c : Cfg} {r : R} (e : Ev) (k : Nat) (h : Good c r) : Good c (r.evBS e k) := by
  unfold R.evBS; simp only
  split
  · split
    · exact good_of_eq (good_doStep _ _ h) rfl rfl
    · exact h
  · exact good_kill _ _ h

theorem good_evCB {c : Cfg} {r : R} (e : Ev) (k : Nat) (h : Good c r) : Good c (r.evCB e k) := by
  unfold R.evCB; split
  · exact good_loopUntil _ _ _ h
  · exact good_kill _ _ h

theorem good_evJ {c : Cfg} {r : R} (e : Ev) (child : Nat) (h : Good c r) : Good c (r.evJ e child) := by
  unfold R.evJ; simp only
  split
  · exact good_tryJoins _ _ (good_of_eq h rfl rfl)
  · exact good_loopUntil _ _ _ h

theorem good_evTE {c : Cfg} {r : R} (e : Ev) (h : Good c r) : Good c (r.evTE e) := by
  unfold R.evTE; simp only
  split
  · exact good_doStep _ _ h
  · exact h
  · exact good_kill _ _ h

theorem good_evNO {c : Cfg} {r : R} (e : Ev) (rest : List Ev) (h : Good c r) : Good c (r.evNO e rest) := by
  unfold R.evNO; simp only
  split
  · exact good_kill _ _ h
  · split
    · exact good_doStep _ _ h
    · split
      · exact good_doStep _ _ h
      · exact good_doStep _ _ h

theorem good_evNA {c : Cfg} {r : R} (e : Ev) (h : Good c r) : Good c (r.evNA e) := good_doStep _ _ h

theorem good_evCleanupRet {c : Cfg} {r : R} (e : Ev) (h : Good c r) : Good c (r.evCleanupRet e) := by
  unfold R.evCleanupRet; split
  · exact h
  · exact good_of_eq (good_doStep _ _ (good_tryJoins _ _ h)) rfl rfl

theorem good_cmpAccept {c : Cfg} {r : R} (q : Nat) (a t : Bool) (h : Good c r) : Good c (r.cmpAccept q a t) := by
  unfold R.cmpAccept; split
  · exact good_div _ _ h
  · exact h

theorem good_noteToken {c : Cfg} {r : R} (k id : Nat) (b : Bool) (h : Good c r) : Good c (r.noteToken k id b) := by
  unfold R.noteToken; split
  · exact good_of_eq h rfl rfl
  · exact h

theorem good_apiExec {c : Cfg} {r : R} (q k : Nat) (prio : Int) (cb failed tok : Bool) (h : Good c r) :
    Good c (r.apiExec q k prio cb failed tok) :=
  good_noteToken _ _ _ (good_cmpAccept _ _ _ (good_doStep _ _ h))

theorem good_apiStat {c : Cfg} {r : R} (q k : Nat) (ans : Status) (h : Good c r) : Good c (r.apiStat q k ans) := by
  unfold R.apiStat; split
  · exact good_kill _ _ h
  · simp only; split
    · exact good_doStep _ _ (good_of_eq h rfl rfl)
    · exact good_doStep _ _ (good_div _ _ h)

theorem good_apiCancel {c : Cfg} {r : R} (q k a : Nat) (h : Good c r) : Good c (r.apiCancel q k a) := by
  unfold R.apiCancel; split
  · exact good_kill _ _ h
  · simp only; split
    · exact good_doStep _ _ (good_of_eq h rfl rfl)
    · exact good_doStep _ _ (good_div _ _ h)

theorem good_apiSnap {c : Cfg} {r : R} (q thr idle doing : Nat) (undo : List Nat) (peak : Nat) (h : Good c r) :
    Good c (r.apiSnap q thr idle doing undo peak) := by
  unfold R.apiSnap; simp only; split
  · exact good_doStep _ _ (good_of_eq h rfl rfl)
  · exact good_doStep _ _ (good_div _ _ h)

theorem good_apiCleanup {c : Cfg} {r : R} (q : Nat) (h : Good c r) : Good c (r.apiCleanup q) :=
  good_of_eq (good_doStep _ _ (good_doStep _ _ h)) rfl rfl

theorem good_cmpForged {c : Cfg} {r : R} (q : Nat) (b : Bool) (m a : Nat) (h : Good c r) : Good c (r.cmpForged q b m a) := by
  unfold R.cmpForged; split
  · exact good_of_eq h rfl rfl
  · exact good_div _ _ h

theorem good_apiForged {c : Cfg} {r : R} (q : Nat) (b : Bool) (a : Nat) (h : Good c r) : Good c (r.apiForged q b a) :=
  good_cmpForged _ _ _ _ h

theorem good_evApi {c : Cfg} {r : R} (e : Ev) (a : Api) (h : Good c r) : Good c (r.evApi e a) := by
  have h1 := good_checkCreated (c := c) e.q h
  unfold R.evApi; simp only
  split
  · exact h1
  · cases a with
    | exec k prio cb failed tok => exact good_apiExec _ _ _ _ _ _ h1
    | stat k ans => exact good_apiStat _ _ _ h1
    | cancel k a => exact good_apiCancel _ _ _ h1
    | snap thr idle doing undo peak => exact good_apiSnap _ _ _ _ _ _ h1
    | cleanup => exact good_apiCleanup _ h1
    | init mn mx => exact good_doInit _ _ _ h1
    | forged b a => exact good_apiForged _ _ _ h1

/-- the whole of `R.event`, assembled from the per-kind lemmas by `cases` on the event kind -/
theorem good_event {c : Cfg} {r : R} (e : Ev) (rest : List Ev) (h : Good c r) : Good c (r.event e rest) := by
  unfold R.event
  split
  · exact h
  · cases e.k with
    | TS => exact good_evTS e h
    | TC child => exact good_evTC e child h
    | L => exact good_evL e h
    | U => exact good_evU e h
    | CW => exact good_evCW e h
    | CX => exact good_evCX e h
    | LL => exact good_evLL e h
    | BS k => exact good_evBS e k h
    | CB k => exact good_evCB e k h
    | J child => exact good_evJ e child h
    | TE => exact good_evTE e h
    | NO => exact good_evNO e rest h
    | NA => exact good_evNA e h
    | cleanupRet => exact good_evCleanupRet e h
    | api a => exact good_evApi e a h

theorem good_run {c : Cfg} (evs : List Ev) {r : R} (h : Good c r) : Good c (r.run evs) := by
  induction evs generalizing r with
  | nil => exact h
  | cons e rest ih => exact ih (good_event e rest h)

/-- **the replay is sound, for the whole of `replay`** (closes the OPEN of round 5): whatever events the harness
printed — any number of lifecycles —, the list of steps the replay returns is an execution of the model from
`init c` (`execL`: `valid`-checked steps and `validL`-checked initialize() calls) and ends in the state the replay
reports.  The driver's re-run with `execL` (`checked`) can therefore never fail; it is kept as a cross-check. -/
theorem C05_replay_steps_sound (c : Cfg) (evs : Array Ev) :
    execL (init c) (replay c evs).steps.reverse = some (replay c evs).s ∧ (checked c (replay c evs)).isSome = true := by
  have h : Good c (replay c evs) := by
    unfold replay
    exact good_flushLoop _ (good_run _ (show Good c { s := init c } from rfl))
  refine ⟨h, ?_⟩
  unfold checked; unfold Good at h; rw [h]; rfl

end Tbox.C05.Replay
