/- C05 — the step-level replay only ever moves the model state with `valid`-checked steps: whatever event list it is
given, the step list it returns is an execution of the model (`exec`), ending in the state it reports. -/
import TboxModel.C05.Replay
namespace Tbox.C05.Replay
open Tbox.C05

def Good (c : Cfg) (r : R) : Prop := exec (init c) r.steps.reverse = some r.s

theorem exec_snoc (s0 s : State) (sts : List Step) (st : Step) (h : exec s0 sts = some s) (hv : valid s st = true) :
    exec s0 (sts ++ [st]) = some (step s st) := by
  induction sts generalizing s0 with
  | nil => simp [exec] at h; subst h; simp [exec, hv]
  | cons a as ih =>
    simp only [List.cons_append, exec] at h ⊢
    split
    · rename_i ha; simp only [ha, ↓reduceIte] at h; exact ih _ h
    · rename_i ha; simp [ha] at h

theorem good_div {c : Cfg} {r : R} (q : Nat) (m : String) (h : Good c r) : Good c (r.div q m) := h
theorem good_kill {c : Cfg} {r : R} (q : Nat) (m : String) (h : Good c r) : Good c (r.kill q m) := h

theorem good_doStep {c : Cfg} {r : R} (q : Nat) (st : Step) (h : Good c r) : Good c (r.doStep q st) := by
  unfold R.doStep
  split
  · exact h
  · split
    · rename_i hv
      unfold Good
      simp only [List.reverse_cons]
      exact exec_snoc _ _ _ _ h hv
    · exact good_kill _ _ h

theorem good_loopUntil {c : Cfg} (q : Nat) (want : LoopItem) (fuel : Nat) {r : R} (h : Good c r) :
    Good c (r.loopUntil q want fuel) := by
  induction fuel generalizing r with
  | zero => exact good_kill _ _ h
  | succ n ih =>
    unfold R.loopUntil
    split
    · exact h
    · split
      · exact good_kill _ _ h
      · split
        · exact good_doStep _ _ h
        · split
          · exact ih (good_doStep _ _ h)
          · exact good_kill _ _ h

theorem good_tryJoins {c : Cfg} (q : Nat) (fuel : Nat) {r : R} (h : Good c r) : Good c (r.tryJoins q fuel) := by
  induction fuel generalizing r with
  | zero => exact h
  | succ n ih =>
    unfold R.tryJoins
    split
    · exact h
    · split
      · split
        · exact ih (good_doStep _ _ h)
        · exact h
      · exact h

theorem good_checkCreated {c : Cfg} (q : Nat) {r : R} (h : Good c r) : Good c (r.checkCreated q) := by
  unfold R.checkCreated
  split
  · exact h
  · split
    · exact good_kill _ _ h
    · exact h

theorem good_flushLoop {c : Cfg} (fuel : Nat) {r : R} (h : Good c r) : Good c (r.flushLoop fuel) := by
  induction fuel generalizing r with
  | zero => exact h
  | succ n ih =>
    unfold R.flushLoop
    split
    · exact h
    · exact ih (good_doStep _ _ h)

/-- record updates that leave `s` and `steps` alone keep `Good` -/
theorem good_of_eq {c : Cfg} {r r' : R} (h : Good c r) (hs : r'.s = r.s) (ht : r'.steps = r.steps) : Good c r' := by
  unfold Good at *; rw [hs, ht]; exact h

/-- **replay soundness (as used)**: whatever events the harness printed, when the driver accepts a reconstruction
(`checked … = some (sts, s)`) the list `sts` is an execution of the model from `init c` ending in `s` — one of the
executions every theorem of Props.lean quantifies over; the ghost history of `s` (`ranIds`, `cbs`, `picks`, …) is what
the driver compares with the recorded run. -/
theorem C05_replay_sound (c : Cfg) (evs : Array Ev) (sts : List Step) (s : State)
    (h : checked c (replay c evs) = some (sts, s)) : exec (init c) sts = some s := by
  unfold checked at h
  cases he : exec (init c) (replay c evs).steps.reverse with
  | none => rw [he] at h; cases h
  | some s' =>
    rw [he] at h
    simp only [Option.map_some, Option.some.injEq, Prod.mk.injEq] at h
    rw [← h.1, ← h.2]; exact he

/-- the events of a run of a (1,1) pool: one task, cleanup -/
def demoEvents : List Ev :=
  [⟨1, 0, .TC 1⟩, ⟨2, 1, .TS⟩, ⟨3, 1, .L⟩, ⟨4, 1, .CW⟩, ⟨5, 0, .api (.exec 0 0 false false true)⟩, ⟨6, 0, .NO⟩, ⟨7, 1, .CX⟩, ⟨8, 1, .U⟩,
   ⟨9, 1, .BS 0⟩, ⟨10, 1, .L⟩, ⟨11, 1, .U⟩, ⟨12, 1, .L⟩, ⟨13, 1, .CW⟩, ⟨14, 0, .api .cleanup⟩, ⟨15, 0, .NA⟩, ⟨16, 1, .CX⟩, ⟨17, 1, .U⟩,
   ⟨18, 1, .TE⟩, ⟨19, 0, .J 1⟩, ⟨20, 0, .cleanupRet⟩]

/-- non-vacuity: the run is accepted and gives 16 model steps; the same run with the worker starting a task the model
did not pop is refused -/
example : ((checked { min := 1, max := 1 } (({ s := init { min := 1, max := 1 }, tmap := Array.replicate 4 none } : R).run demoEvents)).map
    fun p => (p.1.length, p.2.ranIds, p.2.done)) = some (16, [0], true) := by decide +kernel
example : (({ s := init { min := 1, max := 1 }, tmap := Array.replicate 4 none } : R).run
    (demoEvents.map fun e => match e.k with | .BS _ => { e with k := .BS 1 } | _ => e)).perr.isSome = true := by decide +kernel

/-- **replay moves the model only by enabled steps**: the replay starts from `init c` with an empty step list, and each
of the functions through which `R.event` changes the model state — a single checked step, the loop running its queue
up to an item, cleanup()'s joins, the final flush of the loop queue, the spawn bookkeeping — preserves
"`steps` (reversed) is an execution of the model from `init c` ending in the reported state".
-- OPEN: the same statement for the whole of `replay` (the 20-way `match` of `R.event` composed of exactly these
-- functions and of record updates that touch neither `s` nor `steps`); the driver re-runs `exec` on the returned
-- list on every case instead and reports a divergence if it is not accepted. -/
theorem C05_replay_steps_sound_partial (c : Cfg) :
    Good c { s := init c } ∧
    (∀ r q st, Good c r → Good c (r.doStep q st)) ∧
    (∀ r q want fuel, Good c r → Good c (r.loopUntil q want fuel)) ∧
    (∀ r q fuel, Good c r → Good c (r.tryJoins q fuel)) ∧
    (∀ r fuel, Good c r → Good c (r.flushLoop fuel)) ∧
    (∀ r q, Good c r → Good c (r.checkCreated q)) :=
  ⟨rfl, fun _ q st h => good_doStep q st h, fun _ q w f h => good_loopUntil q w f h, fun _ q f h => good_tryJoins q f h,
   fun _ f h => good_flushLoop f h, fun _ q h => good_checkCreated q h⟩

end Tbox.C05.Replay
