/-
C05 — executable specification of the property on a RECORDED HISTORY of the real thread pool.

The harness brackets every loop-thread call by two global sequence numbers (`qb` before the
call, `qa` after it returned) and stamps task bodies (start `s`, end `e`) and completion
callbacks (`q`).  Because the bracket contains the instant at which the call held the mutex,
the following implications are sound for ANY schedule of the repaired code, and each of them is a
clause of the property statement:

  status = waiting   at [qb,qa]  ⇒ not yet popped             ⇒ no body start before qb
  status = not-found at [qb,qa]  ⇒ finished, cancelled or dropped ⇒ body end before qa, or an
                                    earlier successful cancel, or an earlier cleanup
  cleanup: a task popped certainly after cleanup()'s critical section (see `checkDropped`) must not run
  status = executing             ⇒ the task runs (a body is recorded), no cancel ever succeeds
  cancel = 0                     ⇒ the task never runs
  pick order: a task `a` that was certainly waiting during the whole interval in which worker W
              picked `b` (submitted before W's previous body ended, never cancelled, itself
              picked later than `b`'s start) must not be better than `b`
              (better = lower level, or same level and submitted earlier)

`check` returns the first violated clause as text, or `none`.
-/
namespace Tbox.C05.Spec

inductive Ans where | w | e | n
deriving Repr, DecidableEq, Inhabited

def Ans.rank : Ans → Nat | .w => 0 | .e => 1 | .n => 2
def Ans.str : Ans → String | .w => "waiting" | .e => "executing" | .n => "not-found"

structure TaskH where
  lvl : Nat
  cb  : Bool
  qb  : Nat
  qa  : Nat
deriving Repr, Inhabited

structure Body where
  k : Nat
  thr : Nat
  s : Nat
  e : Nat
deriving Repr, Inhabited

structure CbEv where
  k : Nat
  thr : Nat
  q : Nat
deriving Repr, Inhabited

/-- a status answer, or a cancel answer mapped to the status it implies (`cancelOk` = cancel answered 0) -/
structure Query where
  k : Nat
  a : Ans
  cancelOk : Bool := false
  isCancel : Bool := false
  qb : Nat
  qa : Nat
deriving Repr, Inhabited

structure Snap where
  thr : Nat
  idle : Nat
  doing : Nat
  undo : List Nat
  qb : Nat
  qa : Nat
deriving Repr, Inhabited

structure Worker where
  thr : Nat
  s : Nat
  e : Nat     -- 0: thread function had not returned when the events were printed
deriving Repr, Inhabited

structure Hist where
  isPool : Bool := true
  workers : Array Worker := #[]
  max : Nat := 1
  tasks : Array TaskH := #[]
  queries : Array Query := #[]     -- in loop-thread order
  snaps : Array Snap := #[]
  bodies : Array Body := #[]
  cbs : Array CbEv := #[]
  extra : List Nat := []           -- tasks whose body or callback was entered a second time
  cleanup : Option (Nat × Nat) := none
  cleanupCs : Nat := 0             -- a sequence number taken right AFTER cleanup()'s critical section (0 = unknown)
  nestedNull : List (Nat × Nat) := []   -- nested execute() calls that returned a null token: (qb, qa)
  bulkN : Nat := 0                 -- anonymous bulk tasks (one shared counter), their level and the start of their submission
  bulkLvl : Nat := 0
  bulkQb : Nat := 0
deriving Repr, Inhabited

def Hist.body? (h : Hist) (k : Nat) : Option Body := h.bodies.find? (·.k == k)
def Hist.cancelOkAt? (h : Hist) (k : Nat) : Option Query := h.queries.find? (fun q => q.k == k && q.cancelOk)
def Hist.cleanupBefore (h : Hist) (q : Nat) : Bool := match h.cleanup with | some (_, qa) => qa < q | none => false
def Hist.cancelledBefore (h : Hist) (k q : Nat) : Bool :=
  match h.cancelOkAt? k with | some c => c.qa < q | none => false

/-- `b` may be picked although `a` is waiting too: `b` has the better level, or the same level and `a` was not
certainly submitted before `b`.  Submission order is the order of the execute() critical sections: `a` before `b`
iff a's call had returned (`qa`) before b's call began (`qb`) — whichever thread called (loop thread, a callback, a
task body on a worker: a nested submission is treated like any other). -/
def notWorse (h : Hist) (b a : Nat) : Bool :=
  let tb := h.tasks[b]!; let ta := h.tasks[a]!
  tb.lvl < ta.lvl || (tb.lvl == ta.lvl && !(ta.qa < tb.qb))

/-- end of the previous body on the same thread (0 if none): the pick happened after it -/
def prevEnd (h : Hist) (b : Body) : Nat :=
  h.bodies.foldl (fun acc x => if x.thr == b.thr && x.e < b.s && x.e > acc then x.e else acc) 0

def firstSome {α : Type} (l : List α) (f : α → Option String) : Option String :=
  l.findSome? f

def checkBodies (h : Hist) : Option String :=
  (match h.extra with | k :: _ => some s!"task {k}: body or completion callback executed more than once" | [] => none) <|>
  firstSome h.bodies.toList fun b =>
    if b.k ≥ h.tasks.size then some s!"body of unknown task {b.k}"
    else if (h.bodies.filter (·.k == b.k)).size > 1 then some s!"task {b.k} executed more than once"
    else if b.thr == 0 then some s!"task {b.k}: body executed on the loop thread"
    else if b.s ≤ h.tasks[b.k]!.qb then some s!"task {b.k}: body started before it was submitted"
    else if b.e ≤ b.s then some s!"task {b.k}: body has not returned at the end of the case"
    else if (h.cancelOkAt? b.k).isSome then some s!"task {b.k}: cancel reported success (0) but the task was executed"
    else match h.cleanup with
      | some (_, qa) => if b.e > qa then some s!"task {b.k}: a worker was still executing after cleanup() returned" else none
      | none => none

def checkCbs (h : Hist) : Option String :=
  (firstSome h.cbs.toList fun c =>
    if c.k ≥ h.tasks.size then some s!"callback of unknown task {c.k}"
    else if !h.tasks[c.k]!.cb then some s!"task {c.k}: completion callback although none was given"
    else if c.thr != 0 then some s!"task {c.k}: completion callback not on the loop thread"
    else if (h.cbs.filter (·.k == c.k)).size > 1 then some s!"task {c.k}: completion callback ran more than once"
    else match h.body? c.k with
      | none => some s!"task {c.k}: completion callback although the body never ran"
      | some b => if b.e < c.q then none else some s!"task {c.k}: completion callback before the body returned") <|>
  firstSome h.bodies.toList fun b =>
    if b.k < h.tasks.size && h.tasks[b.k]!.cb && !(h.cbs.any (·.k == b.k)) then
      some s!"task {b.k}: body ran but its completion callback never ran on the loop thread" else none

def checkQuery (h : Hist) (q : Query) : Option String :=
  let what := if q.isCancel then "cancel" else "getTaskStatus"
  let body := h.body? q.k
  match q.a with
  | .w =>
    if h.cleanupBefore q.qb then some s!"{what}: task {q.k} reported {if q.cancelOk then "cancelled" else "waiting"} after cleanup()"
    else if !q.cancelOk && h.cancelledBefore q.k q.qb then some s!"{what}: task {q.k} reported waiting after a successful cancel"
    else match body with
      | some b => if b.s > q.qb then none
                  else some s!"{what}: task {q.k} reported waiting/cancellable at [{q.qb},{q.qa}] but its body had started at {b.s}"
      | none => none
  | .e =>
    if h.cleanupBefore q.qb then some s!"{what}: task {q.k} reported executing after cleanup() returned"
    else if (h.cancelOkAt? q.k).isSome then some s!"{what}: task {q.k} reported executing but a cancel succeeded"
    else match body with
      | some _ => none
      | none => some s!"{what}: task {q.k} reported executing but its body never ran"
  | .n =>
    if h.cleanupBefore q.qb || h.cancelledBefore q.k q.qb then none
    else match body with
      | some b => if b.e != 0 && b.e < q.qa && b.e > b.s then none
                  else some s!"{what}: task {q.k} reported NOT FOUND at [{q.qb},{q.qa}] but its body ran later ({b.s}..{b.e})"
      | none => some s!"{what}: task {q.k} reported NOT FOUND at [{q.qb},{q.qa}] although it was neither executed, cancelled nor dropped by cleanup"

def checkQueries (h : Hist) : Option String :=
  (firstSome h.queries.toList (checkQuery h)) <|>
  -- per task: waiting* executing* not-found*, over every pair of answers whose calls did not overlap
  -- (the answers may come from different threads)
  firstSome h.queries.toList fun q =>
    firstSome h.queries.toList fun p =>
      if p.k == q.k && p.qa < q.qb && q.a.rank < (if p.cancelOk then 2 else p.a.rank) then
        some s!"task {q.k}: answer went back from {if p.cancelOk then "cancelled" else p.a.str} at [{p.qb},{p.qa}] to {q.a.str} at [{q.qb},{q.qa}]"
      else none

def checkSnaps (h : Hist) : Option String :=
  firstSome h.snaps.toList fun sn =>
    if sn.thr > h.max then some s!"snapshot: {sn.thr} live workers exceed the maximum {h.max}"
    else if sn.idle + sn.doing > sn.thr then some s!"snapshot: idle {sn.idle} + doing {sn.doing} > threads {sn.thr}"
    else
      firstSome (List.range 5) fun l =>
        let n := sn.undo.getD l 0
        let idx := List.range h.tasks.size
        -- may be waiting at the snapshot: submitted, not certainly cancelled, not started before
        let upper := (idx.filter fun k =>
          let t := h.tasks[k]!
          t.lvl == l && t.qb < sn.qa && !h.cancelledBefore k sn.qb && !h.cleanupBefore sn.qb &&
          (match h.body? k with | some b => b.s > sn.qb | none => true)).length +
          (if h.bulkN != 0 && h.bulkLvl == l && h.bulkQb < sn.qa && !h.cleanupBefore sn.qb then h.bulkN else 0)
        -- certainly waiting: submitted before, and still reported waiting / cancelled later
        let lower := (idx.filter fun k =>
          let t := h.tasks[k]!
          t.lvl == l && t.qa < sn.qb && h.queries.any (fun q => q.k == k && q.a == .w && q.qb > sn.qa)).length
        if n > upper then some s!"snapshot at [{sn.qb},{sn.qa}]: {n} waiting tasks at level {l}, at most {upper} possible"
        else if n < lower then some s!"snapshot at [{sn.qb},{sn.qa}]: {n} waiting tasks at level {l}, at least {lower} are waiting"
        else none

/-- number of (b,a) pairs the pick-order clause was asserted on, or the violation -/
def checkOrder (h : Hist) : Except String Nat :=
  h.bodies.foldl (init := .ok 0) fun acc b =>
    match acc with
    | .error e => .error e
    | .ok n =>
      if b.k ≥ h.tasks.size then .ok n else
      let lo := prevEnd h b
      (List.range h.tasks.size).foldl (init := Except.ok n) fun acc a =>
        match acc with
        | .error e => .error e
        | .ok n =>
          if a == b.k then .ok n else
          let ta := h.tasks[a]!
          let certain :=
            ta.qa < lo && (h.cancelOkAt? a).isNone &&
            (match h.body? a with
             | some ba => prevEnd h ba > b.s
             | none => match h.cleanup with | some (qb, _) => qb > b.s | none => false)
          if !certain then .ok n
          else if notWorse h b.k a then .ok (n + 1)
          else .error s!"pick order: task {b.k} (level {h.tasks[b.k]!.lvl}) was picked in ({lo},{b.s}) while task {a} (level {ta.lvl}, submitted at {ta.qa}) was waiting"

/-- worker threads: every body ran inside the life of a recorded worker thread; after cleanup() returned no
worker thread is alive ("joins every worker") -/
def checkWorkers (h : Hist) : Option String :=
  (firstSome h.bodies.toList fun b =>
    match h.workers.find? (·.thr == b.thr) with
    | none => some s!"task {b.k}: body ran on thread {b.thr} which is not a worker thread created by the pool"
    | some w => if w.s < b.s && (w.e == 0 || b.e < w.e) then none
                else some s!"task {b.k}: body ({b.s}..{b.e}) outside the life ({w.s}..{w.e}) of its worker thread") <|>
  match h.cleanup with
  | none => none
  | some (_, qa) =>
    firstSome h.workers.toList fun w =>
      if w.e == 0 || w.e > qa then some s!"worker thread {w.thr} was still running when cleanup() returned at {qa} (its thread function returned at {w.e}): not joined"
      else none

/-- "…or cleanup began before it started, in which case it is never executed": cleanup() sets the stop flag and
drops the waiting tasks in ONE critical section, which lies before `cleanupCs`.  A task whose pop certainly happened
after that number — the previous body on the same worker thread ended after it, or that worker thread only started
after it — was still waiting when the flag was set, so it must never be executed. -/
def checkDropped (h : Hist) : Option String :=
  if h.cleanupCs == 0 then none else
  firstSome h.bodies.toList fun b =>
    let ws := match h.workers.find? (·.thr == b.thr) with | some w => w.s | none => 0
    let lo := max (prevEnd h b) ws
    if lo > h.cleanupCs then
      some s!"task {b.k} was executed ({b.s}..{b.e}) although it was still waiting when cleanup() set the stop flag (before {h.cleanupCs}; its worker was busy until {lo}): tasks waiting at cleanup must never run"
    else none

/-- a nested execute() may return a null token only when the pool is no longer ready (cleanup has begun) -/
def checkNested (h : Hist) : Option String :=
  firstSome h.nestedNull fun (qb, qa) =>
    match h.cleanup with
    | some (cqb, _) => if cqb < qa then none else some s!"execute() from a task body / callback at [{qb},{qa}] returned a null token before cleanup()"
    | none => some s!"execute() from a task body / callback at [{qb},{qa}] returned a null token although the pool was ready"

def checkOverlap (h : Hist) : Option String :=
  firstSome h.bodies.toList fun b =>
    let n := (h.bodies.filter fun x => x.s < b.s && b.s < x.e).size + 1
    if n > h.max then some s!"{n} task bodies executing at once exceed the maximum of {h.max} workers" else none

def check (h : Hist) : Except String Nat :=
  match checkBodies h <|> checkCbs h <|> checkQueries h <|> checkSnaps h <|> checkOverlap h <|> checkWorkers h <|> checkNested h <|> checkDropped h with
  | some e => .error e
  | none => checkOrder h

end Tbox.C05.Spec
