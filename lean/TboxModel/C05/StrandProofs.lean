/- C05 — no stranded task: before cleanup, a non-empty waiting queue implies a worker in the cabinet
(repaired model: the exit decision and the removal from the cabinet are one critical section). -/
import TboxModel.C05.WakeProofs
namespace Tbox.C05

def PC.isIdle : PC → Bool
  | .aboutToWait | .waiting | .woken => true
  | _ => false

def nIdle (s : State) : Nat := cntF s.nW (fun w => (s.pc w).isIdle)

structure StrandInv (s : State) : Prop where
  fixE     : s.cfg.fixE = true
  maxPos   : 0 < s.cfg.max
  idleLe   : s.idle ≤ nIdle s
  noLoose  : ∀ w, s.pc w = .exitVol false → w ∉ s.cab
  nonEmpty : s.phase1 = false → s.undo ≠ [] → s.cab ≠ []

theorem idle_active {p : PC} (h : p.isIdle = true) : p.active = true := by
  cases p <;> simp_all [PC.isIdle, PC.active]

/-- before cleanup an idle-state worker sits in the cabinet -/
theorem idle_in_cab {s : State} (hw : WorkerInv s) (hp : s.phase1 = false) (h : 0 < nIdle s) :
    ∃ i, i ∈ s.cab ∧ (s.pc i).isIdle = true := by
  obtain ⟨i, _, hi⟩ := cntF_pos h
  rcases hw.live i (idle_active hi) with a | a
  · exact ⟨i, a, hi⟩
  · rw [hw.ph0 hp] at a; cases a

theorem StrandInv.congr {s s' : State} (h : StrandInv s) (h0 : s'.cfg = s.cfg) (h1 : s'.idle = s.idle)
    (h2 : nIdle s' = nIdle s) (h3 : s'.cab = s.cab) (h4 : s'.undo ≠ [] → s.undo ≠ [])
    (h5 : s'.phase1 = false → s.phase1 = false) (h6 : ∀ w, s'.pc w = .exitVol false → s.pc w = .exitVol false) :
    StrandInv s' := by
  constructor
  · rw [h0]; exact h.fixE
  · rw [h0]; exact h.maxPos
  · rw [h1, h2]; exact h.idleLe
  · rw [h3]; intro w hw; exact h.noLoose w (h6 w hw)
  · rw [h3]; intro hp hu; exact h.nonEmpty (h5 hp) (h4 hu)

theorem StrandInv.of_eq {s s' : State} (h : StrandInv s) (h0 : s'.cfg = s.cfg) (h1 : s'.idle = s.idle)
    (h2 : s'.pc = s.pc) (h2' : s'.nW = s.nW) (h3 : s'.cab = s.cab) (h4 : s'.undo = s.undo) (h5 : s'.phase1 = s.phase1) :
    StrandInv s' :=
  h.congr h0 h1 (by simp only [nIdle, h2, h2']) h3 (by rw [h4]; exact id) (by rw [h5]; exact id) (by rw [h2]; exact fun _ => id)

/-- worker `w < nW` changes its program counter without changing its idle status, and not to `exitVol false` -/
theorem StrandInv.setPc_same {s : State} (h : StrandInv s) (w : Nat) (p : PC) (hw : w < s.nW)
    (h1 : p.isIdle = (s.pc w).isIdle) (h2 : p ≠ .exitVol false) : StrandInv (setPc s w p) := by
  refine h.congr rfl rfl ?_ rfl id id ?_
  · have := cnt_setPc s w p PC.isIdle hw
    rw [h1] at this
    simp only [nIdle, setPc_nW]; omega
  · intro i hi
    simp only [setPc_pc] at hi
    by_cases e : i = w
    · simp only [e, ↓reduceIte] at hi; exact absurd hi h2
    · simpa [e] using hi

/-- the predicate part of a worker's critical section.  `idle` may already count `w` (coming from `start`
through `enter`) — hence the slack in `hI`. -/
theorem strand_afterPred {s : State} (w : Nat) (hw : w < s.nW) (hfix : s.cfg.fixE = true) (hmax : 0 < s.cfg.max)
    (hI : s.idle ≤ nIdle s + (if (s.pc w).isIdle then 0 else 1))
    (hloose : ∀ i, s.pc i = .exitVol false → i ∉ s.cab)
    (hne : s.phase1 = false → s.undo ≠ [] → s.cab ≠ []) :
    StrandInv (afterPred s w) := by
  -- giving `w` a non-idle program counter
  have out : ∀ (s0 : State) (p : PC), s0.cfg = s.cfg → s0.pc = s.pc → s0.nW = s.nW → s0.cab = s.cab → s0.phase1 = s.phase1 →
      s0.idle = s.idle - 1 → (s0.undo ≠ [] → s.undo ≠ []) → p.isIdle = false → p ≠ .exitVol false →
      StrandInv (setPc s0 w p) := by
    intro s0 p e0 e1 e2 e3 e4 e5 e6 hp1 hp2
    have hc := cnt_setPc s0 w p PC.isIdle (by rw [e2]; exact hw)
    simp only [e1, e2, hp1, Bool.false_eq_true, ↓reduceIte, Nat.add_zero] at hc
    constructor
    · simp only [setPc_cfg, e0]; exact hfix
    · simp only [setPc_cfg, e0]; exact hmax
    · simp only [setPc_idle, e5, nIdle, setPc_nW, e2]
      simp only [nIdle] at hI
      by_cases hidle : (s.pc w).isIdle = true
      · simp only [hidle, ↓reduceIte] at hI hc; omega
      · simp only [hidle, Bool.false_eq_true, ↓reduceIte] at hI hc; omega
    · intro i hi
      simp only [setPc_pc] at hi
      simp only [setPc_cab, e3]
      by_cases e : i = w
      · simp only [e, ↓reduceIte] at hi; exact absurd hi hp2
      · simp only [e, ↓reduceIte, e1] at hi; exact hloose i hi
    · intro hp hu
      simp only [setPc_cab, e3]
      exact hne (by simpa [e4] using hp) (e6 hu)
  unfold Tbox.C05.afterPred
  split
  · split
    · exact out _ _ rfl rfl rfl rfl rfl rfl id rfl (by simp)
    · split
      · exact out _ _ rfl rfl rfl rfl rfl rfl id rfl (by simp)
      · rename_i t ht
        have hsub : ∀ (u : List Tk), u = removeId s.undo t.id → u ≠ [] → s.undo ≠ [] := by
          intro u hu hne' e; rw [e] at hu; simp [removeId] at hu; exact hne' hu
        split
        · exact out _ _ rfl rfl rfl rfl rfl rfl (hsub _ rfl) rfl (by simp)
        · exact out _ _ rfl rfl rfl rfl rfl rfl (hsub _ rfl) rfl (by simp)
  · have hc : cntF s.nW (fun i => ((setPc { s with lock := true } w .aboutToWait).pc i).isIdle)
        + (if (s.pc w).isIdle then 1 else 0) = cntF s.nW (fun i => (s.pc i).isIdle) + 1 :=
      cnt_setPc { s with lock := true } w .aboutToWait PC.isIdle hw
    constructor
    · exact hfix
    · exact hmax
    · simp only [setPc_idle, nIdle, setPc_nW]
      simp only [nIdle] at hI
      by_cases hidle : (s.pc w).isIdle = true
      · simp only [hidle, ↓reduceIte] at hI hc; omega
      · simp only [hidle, Bool.false_eq_true, ↓reduceIte] at hI hc; omega
    · intro i hi
      simp only [setPc_pc] at hi
      by_cases e : i = w
      · simp [e] at hi
      · simp only [e, ↓reduceIte] at hi; exact hloose i hi
    · exact hne

/-- `createWorker`: the cabinet gains a worker at `start` -/
theorem strand_spawn (s : State) (hfix : s.cfg.fixE = true) (hmax : 0 < s.cfg.max) (hidle : s.idle ≤ nIdle s)
    (hloose : ∀ i, s.pc i = .exitVol false → i ∉ s.cab) (o1 : (s.pc s.nW).isIdle = false) :
    StrandInv (setPc { s with cab := s.cab ++ [s.nW], nW := s.nW + 1 } s.nW .start) := by
  have eI : nIdle (setPc { s with cab := s.cab ++ [s.nW], nW := s.nW + 1 } s.nW .start) = nIdle s := by
    simp only [nIdle, setPc_nW, cntF_succ, setPc_pc, ↓reduceIte, PC.isIdle, Bool.false_eq_true, Nat.add_zero]
    exact cntF_congr _ _ _ (fun i hi => by simp [Nat.ne_of_lt hi])
  constructor
  · exact hfix
  · exact hmax
  · rw [eI]; exact hidle
  · intro i hi
    simp only [setPc_pc] at hi
    simp only [setPc_cab, List.mem_append, List.mem_singleton, not_or]
    by_cases e : i = s.nW
    · simp [e] at hi
    · simp only [e, ↓reduceIte] at hi; exact ⟨hloose i hi, e⟩
  · intro _ _; simp

theorem StrandInv.step {s : State} (h : StrandInv s) (hw : WorkerInv s) (st : Step) (hv : valid s st = true) :
    StrandInv (step s st) := by
  have outside : ∀ w, s.nW ≤ w → (s.pc w).isIdle = false ∧ s.pc w ≠ .exitVol false := by
    intro w hle
    cases hp : (s.pc w).active
    · refine ⟨by cases hpc : s.pc w <;> simp_all [PC.active, PC.isIdle], fun e => ?_⟩
      rw [e] at hp; simp [PC.active] at hp
    · have := hw.bound w (hw.live w hp); omega
  cases st with
  | execute prio cb =>
    simp only [valid, inCleanup, Bool.and_eq_true, Bool.not_eq_true', Bool.and_eq_false_iff] at hv
    simp only [Tbox.C05.step]
    split
    · exact h
    · rename_i hd
      have hph : s.phase1 = false := by
        rcases hv.2 with hp | hp
        · exact hp
        · simp at hp; exact absurd hp hd
      split
      · rename_i hgt
        split
        · -- spawn
          obtain ⟨o1, o2⟩ := outside s.nW (Nat.le_refl _)
          exact strand_spawn { s with undo := s.undo ++ [{ id := s.nextTask, lvl := levelOf prio, cb := cb }], nextTask := s.nextTask + 1, pend := s.pend + 1 } h.fixE h.maxPos h.idleLe h.noLoose o1
        · rename_i hfull
          refine ⟨h.fixE, h.maxPos, h.idleLe, h.noLoose, fun _ _ e => ?_⟩
          simp only at e hfull
          rw [e] at hfull; simp at hfull
          have := h.maxPos; omega
      · rename_i hle
        refine ⟨h.fixE, h.maxPos, h.idleLe, h.noLoose, fun _ _ => ?_⟩
        simp only [List.length_append, List.length_cons, List.length_nil] at hle
        have hpos : 0 < nIdle s := by have := h.idleLe; omega
        obtain ⟨i, hi, _⟩ := idle_in_cab hw hph hpos
        exact List.ne_nil_of_mem hi
  | executeF prio cb =>
    simp only [Tbox.C05.step]
    split
    · exact h
    · rename_i hne
      refine ⟨h.fixE, h.maxPos, h.idleLe, h.noLoose, fun _ _ e => ?_⟩
      simp only at e
      rw [e] at hne; simp at hne
  | cancel id =>
    simp only [Tbox.C05.step]
    split
    · refine h.congr rfl rfl rfl rfl (fun hne e => ?_) (fun hh => hh) (fun _ hh => hh)
      simp only at hne; rw [e] at hne; simp [removeId] at hne
    · split
      · exact h
      · exact h.of_eq rfl rfl rfl rfl rfl rfl rfl
    · exact h
  | status id =>
    simp only [Tbox.C05.step]
    split
    · split
      · exact h
      · exact h.of_eq rfl rfl rfl rfl rfl rfl rfl
    · exact h
  | snapshot => exact h
  | cleanup1 =>
    constructor
    · exact h.fixE
    · exact h.maxPos
    · exact h.idleLe
    · intro w _ hm; cases hm
    · intro hp; cases hp
  | setStop => exact h.of_eq rfl rfl rfl rfl rfl rfl rfl
  | notifyAll =>
    refine h.congr rfl rfl ?_ rfl id id ?_
    · simp only [nIdle, Tbox.C05.step]
      refine cntF_congr _ _ _ (fun i _ => ?_)
      by_cases e : s.pc i = .waiting
      · simp [e, PC.isIdle]
      · simp [e]
    · intro i hi
      simp only [Tbox.C05.step] at hi
      by_cases e : s.pc i = .waiting
      · simp [e] at hi
      · simpa [e] using hi
  | notifyOne ow =>
    cases ow with
    | none => exact h.of_eq rfl rfl rfl rfl rfl rfl rfl
    | some w =>
      simp only [valid, Bool.and_eq_true, decide_eq_true_eq, beq_iff_eq] at hv
      refine StrandInv.setPc_same ?_ w _ hv.1.2 (by simp only [hv.2]; rfl) (by simp)
      exact h.of_eq rfl rfl rfl rfl rfl rfl rfl
  | join w => exact h.of_eq rfl rfl rfl rfl rfl rfl rfl
  | cleanupRet => exact h.of_eq rfl rfl rfl rfl rfl rfl rfl
  | loopRun =>
    simp only [Tbox.C05.step]
    split
    · exact h
    · exact h.of_eq rfl rfl rfl rfl rfl rfl rfl
    · split <;> exact h.of_eq rfl rfl rfl rfl rfl rfl rfl
    · exact h.of_eq rfl rfl rfl rfl rfl rfl rfl
  | enter w =>
    simp only [valid, Bool.and_eq_true, Bool.not_eq_true', decide_eq_true_eq, beq_iff_eq] at hv
    have hnotidle : (s.pc w).isIdle = false := by rw [hv.2]; rfl
    simp only [Tbox.C05.step]
    split
    · rename_i hcond
      simp only [ge_iff_le, Bool.and_eq_true, decide_eq_true_eq] at hcond
      split
      · -- leaves the cabinet in the same critical section
        have hc : cntF s.nW (fun i => ((setPc { s with cab := s.cab.filter (· != w), exiting := if s.cfg.fixD then s.exiting ++ [w] else s.exiting } w (.exitVol true)).pc i).isIdle) + (if (s.pc w).isIdle then 1 else 0) = cntF s.nW (fun i => (s.pc i).isIdle) + 0 :=
          cnt_setPc { s with cab := s.cab.filter (· != w), exiting := if s.cfg.fixD then s.exiting ++ [w] else s.exiting } w (.exitVol true) PC.isIdle hv.1.1
        simp only [hnotidle, Bool.false_eq_true, ↓reduceIte, Nat.add_zero] at hc
        constructor
        · exact h.fixE
        · exact h.maxPos
        · simp only [setPc_idle, nIdle, setPc_nW]; rw [hc]; exact h.idleLe
        · intro i hi
          simp only [setPc_pc] at hi
          simp only [setPc_cab, List.mem_filter, not_and]
          by_cases e : i = w
          · simp [e] at hi
          · simp only [e, ↓reduceIte] at hi; exact fun hm => absurd hm (h.noLoose i hi)
        · intro hp hu
          simp only [setPc_undo] at hu
          have hlen : 0 < s.undo.length := List.length_pos_iff.2 hu
          have hpos : 0 < nIdle s := by have := h.idleLe; omega
          obtain ⟨i, hi, hidle⟩ := idle_in_cab hw hp hpos
          have hne : i ≠ w := by intro e; rw [e, hnotidle] at hidle; cases hidle
          exact List.ne_nil_of_mem (a := i) (by simp [hi, hne])
      · rename_i hnot
        have hnc : w ∉ s.cab := by
          intro hm; exact hnot (by simp [h.fixE, hm])
        have hc : cntF s.nW (fun i => ((setPc s w (.exitVol false)).pc i).isIdle) + (if (s.pc w).isIdle then 1 else 0)
            = cntF s.nW (fun i => (s.pc i).isIdle) + 0 := cnt_setPc s w (.exitVol false) PC.isIdle hv.1.1
        simp only [hnotidle, Bool.false_eq_true, ↓reduceIte, Nat.add_zero] at hc
        constructor
        · exact h.fixE
        · exact h.maxPos
        · simp only [setPc_idle, nIdle, setPc_nW]; rw [hc]; exact h.idleLe
        · intro i hi
          simp only [setPc_pc] at hi
          simp only [setPc_cab]
          by_cases e : i = w
          · rw [e]; exact hnc
          · simp only [e, ↓reduceIte] at hi; exact h.noLoose i hi
        · exact h.nonEmpty
    · exact strand_afterPred w hv.1.1 h.fixE h.maxPos
        (by simp only [hnotidle, Bool.false_eq_true, ↓reduceIte]; have := h.idleLe; simp only [nIdle] at this ⊢; omega)
        h.noLoose h.nonEmpty
  | block w =>
    simp only [valid, Bool.and_eq_true, decide_eq_true_eq, beq_iff_eq] at hv
    refine StrandInv.setPc_same ?_ w _ hv.1 (by simp only [hv.2]; rfl) (by simp)
    exact h.of_eq rfl rfl rfl rfl rfl rfl rfl
  | wake w =>
    simp only [valid, Bool.and_eq_true, decide_eq_true_eq, beq_iff_eq] at hv
    exact h.setPc_same w _ hv.1 (by simp only [hv.2]; rfl) (by simp)
  | reenter w =>
    simp only [valid, Bool.and_eq_true, Bool.not_eq_true', decide_eq_true_eq, beq_iff_eq] at hv
    exact strand_afterPred w hv.1.1 h.fixE h.maxPos
      (by simp only [hv.2, PC.isIdle, ↓reduceIte, Nat.add_zero]; exact h.idleLe) h.noLoose h.nonEmpty
  | markDoing w =>
    simp only [valid, Bool.and_eq_true, Bool.not_eq_true', decide_eq_true_eq] at hv
    simp only [Tbox.C05.step]
    split
    · rename_i t hp
      refine StrandInv.setPc_same ?_ w _ hv.1.1 (by simp only [hp]; rfl) (by simp)
      exact h.of_eq rfl rfl rfl rfl rfl rfl rfl
    · exact h
  | runBody w =>
    simp only [valid, Bool.and_eq_true, decide_eq_true_eq] at hv
    simp only [Tbox.C05.step]
    split
    · rename_i t hp
      refine StrandInv.setPc_same ?_ w _ hv.1 (by simp only [hp]; rfl) (by simp)
      exact h.of_eq rfl rfl rfl rfl rfl rfl rfl
    · exact h
  | postCb w =>
    simp only [valid, Bool.and_eq_true, decide_eq_true_eq] at hv
    simp only [Tbox.C05.step]
    split
    · rename_i t hp
      split
      · refine StrandInv.setPc_same ?_ w _ hv.1 (by simp only [hp]; rfl) (by simp)
        exact h.of_eq rfl rfl rfl rfl rfl rfl rfl
      · exact h.setPc_same w _ hv.1 (by simp only [hp]; rfl) (by simp)
    · exact h
  | finish w =>
    simp only [valid, Bool.and_eq_true, Bool.not_eq_true', decide_eq_true_eq] at hv
    simp only [Tbox.C05.step]
    split
    · rename_i t hp
      refine StrandInv.setPc_same ?_ w _ hv.1.1 (by simp only [hp]; rfl) (by simp)
      exact h.of_eq rfl rfl rfl rfl rfl rfl rfl
    · exact h
  | selfRemove w =>
    simp only [valid, Bool.and_eq_true, decide_eq_true_eq] at hv
    simp only [Tbox.C05.step]
    split
    · rename_i hp
      refine StrandInv.setPc_same ?_ w _ hv.1 (by simp only [hp]; rfl) (by simp)
      exact h.of_eq rfl rfl rfl rfl rfl rfl rfl
    · rename_i hnt
      have hp : s.pc w = .exitVol false := by
        cases hpc : s.pc w <;> simp [hpc] at hv
        rename_i own; cases own
        · rfl
        · exact absurd hpc hnt
      have hnc := h.noLoose w hp
      split
      · rename_i hc; exact absurd (by simpa using hc) hnc
      · split
        · exact h.setPc_same w _ hv.1 (by simp only [hp]; rfl) (by simp)
        · refine StrandInv.setPc_same ?_ w _ hv.1 (by simp only [hp]; rfl) (by simp)
          exact h.of_eq rfl rfl rfl rfl rfl rfl rfl
  | threadEnd w =>
    simp only [valid, Bool.and_eq_true, decide_eq_true_eq, beq_iff_eq] at hv
    exact h.setPc_same w _ hv.1 (by simp only [hv.2]; rfl) (by simp)

theorem StrandInv.init (c : Cfg) (hE : c.fixE = true) (hok : c.ok = true) : StrandInv (init c) := by
  simp only [Cfg.ok, Bool.and_eq_true, decide_eq_true_eq] at hok
  constructor
  · exact hE
  · exact hok.2
  · simp [Tbox.C05.init]
  · intro w hw; simp only [Tbox.C05.init] at hw; split at hw <;> cases hw
  · intro _ hu; simp [Tbox.C05.init] at hu

end Tbox.C05
