/- C05 — `TaskInv` is preserved by every step of the repaired model. -/
import TboxModel.C05.Inv
namespace Tbox.C05

theorem mem_removeId {l : List Tk} {id : Nat} {u : Tk} : u ∈ removeId l id ↔ u ∈ l ∧ u.id ≠ id := by
  simp [removeId]

theorem inUndo_true {s : State} {id : Nat} : inUndo s id = true ↔ ∃ t ∈ s.undo, t.id = id := by
  simp [inUndo]

theorem inUndo_false {s : State} {id : Nat} : inUndo s id = false ↔ ∀ t ∈ s.undo, t.id ≠ id := by
  simp [inUndo]

/-- what `popOneTask` returns: a member, the first of its level, of the lowest level ≥ i present -/
theorem scanFrom_spec (undo : List Tk) : ∀ (n i : Nat) (t : Tk), scanFrom undo i n = some t →
    i ≤ t.lvl ∧ t.lvl < i + n ∧ undo.find? (fun x => x.lvl == t.lvl) = some t ∧
    ∀ x ∈ undo, i ≤ x.lvl → t.lvl ≤ x.lvl := by
  intro n
  induction n with
  | zero => intro i t h; simp [scanFrom] at h
  | succ n ih =>
    intro i t h
    simp only [scanFrom] at h
    split at h
    · rename_i t' hf
      cases h
      have hl : t.lvl = i := by have := List.find?_some hf; simpa using this
      refine ⟨by omega, by omega, by rw [hl]; exact hf, fun x _ hx => by omega⟩
    · rename_i hf
      obtain ⟨h1, h2, h3, h4⟩ := ih (i + 1) t h
      refine ⟨by omega, by omega, h3, fun x hx hix => ?_⟩
      have hne : x.lvl ≠ i := by
        have := List.find?_eq_none.1 hf x hx; simpa using this
      exact h4 x hx (by omega)

theorem popOne_mem {undo : List Tk} {t : Tk} (h : popOne undo = some t) : t ∈ undo :=
  List.mem_of_find?_eq_some (scanFrom_spec undo _ _ t h).2.2.1

/-! ### loop-thread steps -/

theorem TaskInv.execute {s : State} (h : TaskInv s) (lvl : Nat) (cb : Bool) :
    TaskInv { s with undo := s.undo ++ [{ id := s.nextTask, lvl := lvl, cb := cb }], nextTask := s.nextTask + 1, pend := s.pend + 1 } := by
  have fresh : Fresh s s.nextTask :=
    ⟨fun hh => Nat.lt_irrefl _ (h.deadLt _ (Or.inl hh)),
     fun hh => Nat.lt_irrefl _ (h.deadLt _ (Or.inr (Or.inl hh))),
     fun hh => Nat.lt_irrefl _ (h.deadLt _ (Or.inr (Or.inr (Or.inl hh)))),
     fun hh => Nat.lt_irrefl _ (h.deadLt _ (Or.inr (Or.inr (Or.inr hh))))⟩
  constructor
  · exact h.fixA
  · intro t ht
    rcases List.mem_append.1 ht with ht | ht
    · exact Nat.lt_succ_of_lt (h.undoLt t ht)
    · simp at ht; subst ht; exact Nat.lt_succ_self _
  · intro w t hw; exact Nat.lt_succ_of_lt (h.holdLt w t hw)
  · intro w t hw u hu
    rcases List.mem_append.1 hu with hu | hu
    · exact h.holdOut w t hw u hu
    · simp at hu; subst hu; exact Nat.ne_of_gt (h.holdLt w t hw)
  · intro w t hw; exact (h.preFresh w t hw).of_eq rfl rfl rfl rfl
  · intro t ht
    rcases List.mem_append.1 ht with ht | ht
    · exact (h.undoFresh t ht).of_eq rfl rfl rfl rfl
    · simp at ht; subst ht; exact fresh.of_eq rfl rfl rfl rfl
  · exact h.holdInj
  · exact h.ranNodup
  · exact h.runDoing
  · exact h.noPicked
  · intro id hid; exact Nat.lt_succ_of_lt (h.deadLt id hid)
  · exact h.ranExcl
  · exact h.canDrp

/-- a not-found answer (status = not found / cancel = 1) recorded for an id that is neither waiting
nor in the running set -/
theorem TaskInv.addNf {s : State} (h : TaskInv s) {id : Nat} (hu : inUndo s id = false)
    (hd : s.doing.contains id = false) (hr : id ∉ s.ranIds) (hlt : id < s.nextTask) :
    TaskInv { s with nfEarly := id :: s.nfEarly } := by
  have hd' : id ∉ s.doing := by simpa using hd
  have hu' := inUndo_false.1 hu
  constructor
  · exact h.fixA
  · exact h.undoLt
  · exact h.holdLt
  · exact h.holdOut
  · intro w t hw
    have hf := h.preFresh w t hw
    refine ⟨hf.ran, hf.can, hf.drp, ?_⟩
    have hne : t.id ≠ id := by
      intro e
      cases hp : s.pc w <;> simp [hp, PC.pre?] at hw
      · exact h.noPicked w _ hp
      · subst hw; exact hd' (e ▸ h.runDoing w _ hp)
    simp only [List.mem_cons, not_or]; exact ⟨hne, hf.nf⟩
  · intro t ht
    have hf := h.undoFresh t ht
    refine ⟨hf.ran, hf.can, hf.drp, ?_⟩
    simp only [List.mem_cons, not_or]; exact ⟨hu' t ht, hf.nf⟩
  · exact h.holdInj
  · exact h.ranNodup
  · exact h.runDoing
  · exact h.noPicked
  · intro i hi
    rcases hi with hi | hi | hi | hi
    · exact h.deadLt i (Or.inl hi)
    · exact h.deadLt i (Or.inr (Or.inl hi))
    · exact h.deadLt i (Or.inr (Or.inr (Or.inl hi)))
    · rcases List.mem_cons.1 hi with rfl | hi
      · exact hlt
      · exact h.deadLt i (Or.inr (Or.inr (Or.inr hi)))
  · intro i hi
    obtain ⟨a, b, c⟩ := h.ranExcl i hi
    refine ⟨a, b, ?_⟩
    simp only [List.mem_cons, not_or]; exact ⟨fun e => hr (e ▸ hi), c⟩
  · exact h.canDrp

theorem TaskInv.cancelOk {s : State} (h : TaskInv s) {id : Nat} (hu : inUndo s id = true) :
    TaskInv { s with undo := removeId s.undo id, cancelled := id :: s.cancelled } := by
  obtain ⟨t0, ht0, hid⟩ := inUndo_true.1 hu
  have hf0 := h.undoFresh t0 ht0
  rw [hid] at hf0
  constructor
  · exact h.fixA
  · intro t ht; exact h.undoLt t (mem_removeId.1 ht).1
  · exact h.holdLt
  · intro w t hw u hu; exact h.holdOut w t hw u (mem_removeId.1 hu).1
  · intro w t hw
    have hf := h.preFresh w t hw
    refine ⟨hf.ran, ?_, hf.drp, hf.nf⟩
    have := h.holdOut w t (PC.task_of_pre hw) t0 ht0
    simp only [List.mem_cons, not_or]; exact ⟨fun e => this (by omega), hf.can⟩
  · intro t ht
    obtain ⟨ht1, ht2⟩ := mem_removeId.1 ht
    have hf := h.undoFresh t ht1
    refine ⟨hf.ran, ?_, hf.drp, hf.nf⟩
    simp only [List.mem_cons, not_or]; exact ⟨ht2, hf.can⟩
  · exact h.holdInj
  · exact h.ranNodup
  · exact h.runDoing
  · exact h.noPicked
  · intro i hi
    rcases hi with hi | hi | hi | hi
    · exact h.deadLt i (Or.inl hi)
    · rcases List.mem_cons.1 hi with rfl | hi
      · exact hid ▸ h.undoLt t0 ht0
      · exact h.deadLt i (Or.inr (Or.inl hi))
    · exact h.deadLt i (Or.inr (Or.inr (Or.inl hi)))
    · exact h.deadLt i (Or.inr (Or.inr (Or.inr hi)))
  · intro i hi
    obtain ⟨a, b, c⟩ := h.ranExcl i hi
    refine ⟨?_, b, c⟩
    simp only [List.mem_cons, not_or]; exact ⟨fun e => hf0.ran (e ▸ hi), a⟩
  · intro i hi
    rcases List.mem_cons.1 hi with rfl | hi
    · exact hf0.drp
    · exact h.canDrp i hi

theorem TaskInv.cleanup1 {s : State} (h : TaskInv s) :
    TaskInv { s with dropped := s.undo.map (·.id) ++ s.dropped, undo := [], vec := s.cab, cab := [], phase1 := true } := by
  constructor
  · exact h.fixA
  · intro t ht; cases ht
  · exact h.holdLt
  · intro w t _ u hu; cases hu
  · intro w t hw
    have hf := h.preFresh w t hw
    refine ⟨hf.ran, hf.can, ?_, hf.nf⟩
    intro hm
    rcases List.mem_append.1 hm with hm | hm
    · obtain ⟨u, hu, e⟩ := List.mem_map.1 hm
      exact h.holdOut w t (PC.task_of_pre hw) u hu e
    · exact hf.drp hm
  · intro t ht; cases ht
  · exact h.holdInj
  · exact h.ranNodup
  · exact h.runDoing
  · exact h.noPicked
  · intro i hi
    rcases hi with hi | hi | hi | hi
    · exact h.deadLt i (Or.inl hi)
    · exact h.deadLt i (Or.inr (Or.inl hi))
    · rcases List.mem_append.1 hi with hi | hi
      · obtain ⟨u, hu, e⟩ := List.mem_map.1 hi
        exact e ▸ h.undoLt u hu
      · exact h.deadLt i (Or.inr (Or.inr (Or.inl hi)))
    · exact h.deadLt i (Or.inr (Or.inr (Or.inr hi)))
  · intro i hi
    obtain ⟨a, b, c⟩ := h.ranExcl i hi
    refine ⟨a, ?_, c⟩
    intro hm
    rcases List.mem_append.1 hm with hm | hm
    · obtain ⟨u, hu, e⟩ := List.mem_map.1 hm
      exact (h.undoFresh u hu).ran (e ▸ hi)
    · exact b hm
  · intro i hi hm
    rcases List.mem_append.1 hm with hm | hm
    · obtain ⟨u, hu, e⟩ := List.mem_map.1 hm
      exact (h.undoFresh u hu).can (e ▸ hi)
    · exact h.canDrp i hi hm

/-! ### worker steps -/

/-- the pick: worker `w` (holding nothing) takes `t` out of the waiting queue into the running set -/
theorem TaskInv.pick {s : State} (h : TaskInv s) (w : Nat) {t : Tk} (ht : t ∈ s.undo) (idle : Nat)
    (pk : List (Tk × List Tk)) :
    TaskInv (setPc { s with idle := idle, undo := removeId s.undo t.id, picks := pk, doing := t.id :: s.doing }
      w (.running t)) := by
  constructor
  · exact h.fixA
  · intro u hu; exact h.undoLt u (mem_removeId.1 hu).1
  · intro i u hi
    simp only [setPc_pc] at hi
    by_cases hw : i = w
    · simp only [hw, ↓reduceIte, PC.task?, Option.some.injEq] at hi; subst hi; exact h.undoLt _ ht
    · simp only [hw, ↓reduceIte] at hi; exact h.holdLt i u hi
  · intro i u hi x hx
    obtain ⟨hx1, hx2⟩ := mem_removeId.1 hx
    simp only [setPc_pc] at hi
    by_cases hw : i = w
    · simp only [hw, ↓reduceIte, PC.task?, Option.some.injEq] at hi; subst hi; exact hx2
    · simp only [hw, ↓reduceIte] at hi; exact h.holdOut i u hi x hx1
  · intro i u hi
    simp only [setPc_pc] at hi
    by_cases hw : i = w
    · simp only [hw, ↓reduceIte, PC.pre?, Option.some.injEq] at hi; subst hi
      exact (h.undoFresh _ ht).of_eq rfl rfl rfl rfl
    · simp only [hw, ↓reduceIte] at hi; exact (h.preFresh i u hi).of_eq rfl rfl rfl rfl
  · intro u hu; exact (h.undoFresh u (mem_removeId.1 hu).1).of_eq rfl rfl rfl rfl
  · intro i i' u u' hi hi' e
    simp only [setPc_pc] at hi hi'
    by_cases hw : i = w <;> by_cases hw' : i' = w
    · rw [hw, hw']
    · simp only [hw, ↓reduceIte, PC.task?, Option.some.injEq] at hi; subst hi
      simp only [hw', ↓reduceIte] at hi'
      exact absurd e (h.holdOut i' u' hi' _ ht)
    · simp only [hw', ↓reduceIte, PC.task?, Option.some.injEq] at hi'; subst hi'
      simp only [hw, ↓reduceIte] at hi
      exact absurd e.symm (h.holdOut i u hi _ ht)
    · simp only [hw, hw', ↓reduceIte] at hi hi'; exact h.holdInj i i' u u' hi hi' e
  · exact h.ranNodup
  · intro i u hi
    simp only [setPc_pc] at hi
    by_cases hw : i = w
    · simp only [hw, ↓reduceIte, PC.running.injEq] at hi; subst hi; exact List.mem_cons_self
    · simp only [hw, ↓reduceIte] at hi; exact List.mem_cons_of_mem _ (h.runDoing i u hi)
  · intro i u hi
    simp only [setPc_pc] at hi
    by_cases hw : i = w
    · simp [hw] at hi
    · simp only [hw, ↓reduceIte] at hi; exact h.noPicked i u hi
  · exact h.deadLt
  · exact h.ranExcl
  · exact h.canDrp

theorem TaskInv.afterPred {s : State} (h : TaskInv s) (w : Nat) : TaskInv (afterPred s w) := by
  unfold Tbox.C05.afterPred
  split
  · split
    · exact (h.of_eq (s' := { s with idle := s.idle - 1 }) rfl rfl rfl rfl rfl rfl rfl rfl rfl).setPc_none w rfl
    · split
      · exact (h.of_eq (s' := { s with idle := s.idle - 1 }) rfl rfl rfl rfl rfl rfl rfl rfl rfl).setPc_none w rfl
      · rename_i t hp
        simp only [h.fixA, ↓reduceIte]
        exact h.pick w (popOne_mem hp) _ _
  · exact (h.of_eq (s' := { s with lock := true }) rfl rfl rfl rfl rfl rfl rfl rfl rfl).setPc_none w rfl

theorem TaskInv.runBody {s : State} (h : TaskInv s) (w : Nat) {t : Tk} (hp : s.pc w = .running t) :
    TaskInv (setPc { s with ran := (t.id, w) :: s.ran } w (.postCb t)) := by
  have hwt : (s.pc w).task? = some t := by rw [hp]; rfl
  have hwp : (s.pc w).pre? = some t := by rw [hp]; rfl
  have hfw := h.preFresh w t hwp
  have key : ∀ i u, ((if i = w then PC.postCb t else s.pc i)).task? = some u → (s.pc i).task? = some u := by
    intro i u hi; by_cases hw : i = w
    · simp only [hw, ↓reduceIte, PC.task?] at hi; rw [hw, hwt]; exact hi
    · simpa only [hw, ↓reduceIte] using hi
  constructor
  · exact h.fixA
  · exact h.undoLt
  · intro i u hi; exact h.holdLt i u (key i u hi)
  · intro i u hi; exact h.holdOut i u (key i u hi)
  · intro i u hi
    simp only [setPc_pc] at hi
    by_cases hw : i = w
    · simp [hw, PC.pre?] at hi
    · simp only [hw, ↓reduceIte] at hi
      have hf := h.preFresh i u hi
      refine ⟨?_, hf.can, hf.drp, hf.nf⟩
      have hne : u.id ≠ t.id := fun e => hw (h.holdInj i w u t (PC.task_of_pre hi) hwt e)
      simp only [State.ranIds, setPc_ran, List.map_cons, List.mem_cons, not_or]; exact ⟨hne, hf.ran⟩
  · intro u hu
    have hf := h.undoFresh u hu
    refine ⟨?_, hf.can, hf.drp, hf.nf⟩
    simp only [State.ranIds, setPc_ran, List.map_cons, List.mem_cons, not_or]; exact ⟨h.holdOut w t hwt u hu, hf.ran⟩
  · intro i i' u u' hi hi'; exact h.holdInj i i' u u' (key i u hi) (key i' u' hi')
  · simp only [State.ranIds, setPc_ran, List.map_cons, List.nodup_cons]; exact ⟨hfw.ran, h.ranNodup⟩
  · intro i u hi
    simp only [setPc_pc] at hi
    by_cases hw : i = w
    · simp [hw] at hi
    · simp only [hw, ↓reduceIte] at hi; exact h.runDoing i u hi
  · intro i u hi
    simp only [setPc_pc] at hi
    by_cases hw : i = w
    · simp [hw] at hi
    · simp only [hw, ↓reduceIte] at hi; exact h.noPicked i u hi
  · intro i hi
    rcases hi with hi | hi | hi | hi
    · simp only [State.ranIds, setPc_ran, List.map_cons, List.mem_cons] at hi
      rcases hi with rfl | hi
      · exact h.holdLt w t hwt
      · exact h.deadLt i (Or.inl hi)
    · exact h.deadLt i (Or.inr (Or.inl hi))
    · exact h.deadLt i (Or.inr (Or.inr (Or.inl hi)))
    · exact h.deadLt i (Or.inr (Or.inr (Or.inr hi)))
  · intro i hi
    simp only [State.ranIds, setPc_ran, List.map_cons, List.mem_cons] at hi
    rcases hi with rfl | hi
    · exact ⟨hfw.can, hfw.drp, hfw.nf⟩
    · exact h.ranExcl i hi
  · exact h.canDrp

/-- `postCb t → finishing t` (the worker keeps the task, the body has already run) -/
theorem TaskInv.keep {s s0 : State} (h : TaskInv s0) (w : Nat) {t : Tk} (hp : s0.pc w = .postCb t)
    (e0 : s.cfg = s0.cfg) (e1 : s.undo = s0.undo) (e2 : s.doing = s0.doing) (e3 : s.pc = s0.pc)
    (e4 : s.nextTask = s0.nextTask) (e5 : s.ran = s0.ran) (e6 : s.cancelled = s0.cancelled)
    (e7 : s.dropped = s0.dropped) (e8 : s.nfEarly = s0.nfEarly) :
    TaskInv (setPc s w (.finishing t)) := by
  have hs := h.of_eq e0 e1 e2 e3 e4 e5 e6 e7 e8
  have hp' : s.pc w = .postCb t := by rw [e3]; exact hp
  have hwt : (s.pc w).task? = some t := by rw [hp']; rfl
  have key : ∀ i u, ((if i = w then PC.finishing t else s.pc i)).task? = some u → (s.pc i).task? = some u := by
    intro i u hi; by_cases hw : i = w
    · simp only [hw, ↓reduceIte, PC.task?] at hi; rw [hw, hwt]; exact hi
    · simpa only [hw, ↓reduceIte] using hi
  constructor
  · exact hs.fixA
  · exact hs.undoLt
  · intro i u hi; exact hs.holdLt i u (key i u hi)
  · intro i u hi; exact hs.holdOut i u (key i u hi)
  · intro i u hi
    simp only [setPc_pc] at hi
    by_cases hw : i = w
    · simp [hw, PC.pre?] at hi
    · simp only [hw, ↓reduceIte] at hi; exact (hs.preFresh i u hi).of_eq rfl rfl rfl rfl
  · intro u hu; exact (hs.undoFresh u hu).of_eq rfl rfl rfl rfl
  · intro i i' u u' hi hi'; exact hs.holdInj i i' u u' (key i u hi) (key i' u' hi')
  · exact hs.ranNodup
  · intro i u hi
    simp only [setPc_pc] at hi
    by_cases hw : i = w
    · simp [hw] at hi
    · simp only [hw, ↓reduceIte] at hi; exact hs.runDoing i u hi
  · intro i u hi
    simp only [setPc_pc] at hi
    by_cases hw : i = w
    · simp [hw] at hi
    · simp only [hw, ↓reduceIte] at hi; exact hs.noPicked i u hi
  · exact hs.deadLt
  · exact hs.ranExcl
  · exact hs.canDrp

theorem TaskInv.finish {s : State} (h : TaskInv s) (w : Nat) {t : Tk} (hp : s.pc w = .finishing t) :
    TaskInv (setPc { s with doing := s.doing.filter (· != t.id) } w .start) := by
  have hwt : (s.pc w).task? = some t := by rw [hp]; rfl
  have h1 : TaskInv { s with doing := s.doing.filter (· != t.id) } := by
    constructor
    · exact h.fixA
    · exact h.undoLt
    · exact h.holdLt
    · exact h.holdOut
    · intro i u hi; exact (h.preFresh i u hi).of_eq rfl rfl rfl rfl
    · intro u hu; exact (h.undoFresh u hu).of_eq rfl rfl rfl rfl
    · exact h.holdInj
    · exact h.ranNodup
    · intro i u hi
      have hiu : (s.pc i).task? = some u := by rw [show s.pc i = .running u from hi]; rfl
      have hne : u.id ≠ t.id := by
        intro e
        have := h.holdInj i w u t hiu hwt e
        subst this; rw [hp] at hi; cases hi
      simp only [List.mem_filter, bne_iff_ne, ne_eq]
      exact ⟨h.runDoing i u hi, hne⟩
    · exact h.noPicked
    · exact h.deadLt
    · exact h.ranExcl
    · exact h.canDrp
  exact h1.setPc_none w rfl

theorem cancelAns_cases (s : State) (id : Nat) :
    (cancelAns s id = 0 ∧ inUndo s id = true) ∨
    (cancelAns s id = 1 ∧ s.doing.contains id = false ∧ inUndo s id = false) ∨ cancelAns s id = 2 := by
  unfold cancelAns
  cases hd : s.doing.contains id
  · cases hu : inUndo s id
    · right; left; simp
    · left; simp
  · right; right; simp

theorem statusOf_notFound {s : State} {id : Nat} (h : statusOf s id = .notFound) :
    s.doing.contains id = false ∧ inUndo s id = false := by
  unfold statusOf at h
  cases hu : inUndo s id
  · cases hd : s.doing.contains id
    · exact ⟨rfl, rfl⟩
    · rw [hu, hd] at h; simp at h
  · rw [hu] at h; simp at h

theorem step_cfg (s : State) (st : Step) : (step s st).cfg = s.cfg := by
  cases st <;> simp only [step, Tbox.C05.afterPred] <;> (repeat' split) <;> rfl

theorem TaskInv.step {s : State} (h : TaskInv s) (st : Step) (hv : valid s st = true) : TaskInv (step s st) := by
  cases st with
  | execute prio cb =>
    simp only [Tbox.C05.step]
    split
    · exact h
    · have h1 := h.execute (levelOf prio) cb
      split
      · split
        · refine TaskInv.setPc_none ?_ _ rfl
          exact h1.of_eq rfl rfl rfl rfl rfl rfl rfl rfl rfl
        · exact h1.of_eq rfl rfl rfl rfl rfl rfl rfl rfl rfl
      · exact h1
  | executeF prio cb =>
    simp only [Tbox.C05.step]
    split
    · exact h
    · exact h.execute (levelOf prio) cb
  | cancel id =>
    simp only [valid, Bool.and_eq_true, decide_eq_true_eq] at hv
    simp only [Tbox.C05.step]
    rcases cancelAns_cases s id with ⟨hc, hu⟩ | ⟨hc, hd, hu⟩ | hc
    · rw [hc]; exact h.cancelOk hu
    · rw [hc]
      simp only
      split
      · exact h
      · rename_i hr
        exact h.addNf hu hd (by simpa using hr) hv.2
    · rw [hc]; exact h
  | status id =>
    simp only [valid, Bool.and_eq_true, decide_eq_true_eq] at hv
    simp only [Tbox.C05.step]
    split
    · rename_i hs
      obtain ⟨hd, hu⟩ := statusOf_notFound hs
      split
      · exact h
      · rename_i hr
        exact h.addNf hu hd (by simpa using hr) hv.2
    · exact h
  | snapshot => exact h
  | cleanup1 => exact h.cleanup1
  | setStop => exact h.of_eq rfl rfl rfl rfl rfl rfl rfl rfl rfl
  | notifyAll =>
    refine h.weaken rfl rfl rfl rfl rfl rfl rfl rfl (fun i => ?_)
    simp only [Tbox.C05.step]
    by_cases hw : s.pc i = .waiting
    · right; simp [hw, PC.task?]
    · left; simp [hw]
  | join w => exact h.of_eq rfl rfl rfl rfl rfl rfl rfl rfl rfl
  | notifyOne ow =>
    cases ow with
    | none => exact h.of_eq rfl rfl rfl rfl rfl rfl rfl rfl rfl
    | some w =>
      refine TaskInv.setPc_none ?_ w rfl
      exact h.of_eq rfl rfl rfl rfl rfl rfl rfl rfl rfl
  | threadEnd w => exact h.setPc_none w rfl
  | cleanupRet => exact h.of_eq rfl rfl rfl rfl rfl rfl rfl rfl rfl
  | loopRun =>
    simp only [Tbox.C05.step]
    split
    · exact h
    · exact h.of_eq rfl rfl rfl rfl rfl rfl rfl rfl rfl
    · split <;> exact h.of_eq rfl rfl rfl rfl rfl rfl rfl rfl rfl
    · exact h.of_eq rfl rfl rfl rfl rfl rfl rfl rfl rfl
  | enter w =>
    simp only [Tbox.C05.step]
    split
    · split
      · refine TaskInv.setPc_none ?_ w rfl
        exact h.of_eq rfl rfl rfl rfl rfl rfl rfl rfl rfl
      · exact h.setPc_none w rfl
    · exact (h.of_eq (s' := { s with idle := s.idle + 1 }) rfl rfl rfl rfl rfl rfl rfl rfl rfl).afterPred w
  | block w => exact (h.of_eq (s' := { s with lock := false }) rfl rfl rfl rfl rfl rfl rfl rfl rfl).setPc_none w rfl
  | wake w => exact h.setPc_none w rfl
  | reenter w => exact h.afterPred w
  | markDoing w =>
    simp only [Tbox.C05.step]
    split
    · rename_i t hp; exact absurd hp (h.noPicked w t)
    · exact h
  | runBody w =>
    simp only [Tbox.C05.step]
    split
    · rename_i t hp; exact h.runBody w hp
    · exact h
  | postCb w =>
    simp only [Tbox.C05.step]
    split
    · rename_i t hp
      split
      · exact h.keep w hp rfl rfl rfl rfl rfl rfl rfl rfl rfl
      · exact h.keep w hp rfl rfl rfl rfl rfl rfl rfl rfl rfl
    · exact h
  | finish w =>
    simp only [Tbox.C05.step]
    split
    · rename_i t hp; exact h.finish w hp
    · exact h
  | selfRemove w =>
    simp only [Tbox.C05.step]
    split
    · refine TaskInv.setPc_none ?_ w rfl
      exact h.of_eq rfl rfl rfl rfl rfl rfl rfl rfl rfl
    · split
      · refine TaskInv.setPc_none ?_ w rfl
        exact h.of_eq rfl rfl rfl rfl rfl rfl rfl rfl rfl
      · split
        · exact h.setPc_none w rfl
        · refine TaskInv.setPc_none ?_ w rfl
          exact h.of_eq rfl rfl rfl rfl rfl rfl rfl rfl rfl

theorem TaskInv.init (c : Cfg) (hc : c.fixA = true) : TaskInv (init c) := by
  constructor
  · exact hc
  · intro t ht; cases ht
  · intro w t hw; simp only [Tbox.C05.init] at hw; split at hw <;> simp [PC.task?] at hw
  · intro w t _ u hu; cases hu
  · intro w t hw; simp only [Tbox.C05.init] at hw; split at hw <;> simp [PC.pre?] at hw
  · intro t ht; cases ht
  · intro w w' t t' hw; simp only [Tbox.C05.init] at hw; split at hw <;> simp [PC.task?] at hw
  · simp [Tbox.C05.init, State.ranIds]
  · intro w t hw; simp only [Tbox.C05.init] at hw; split at hw <;> cases hw
  · intro w t hw; simp only [Tbox.C05.init] at hw; split at hw <;> cases hw
  · intro id hid; simp [Tbox.C05.init, State.ranIds] at hid
  · intro id hid; simp [Tbox.C05.init, State.ranIds] at hid
  · intro id hid; simp [Tbox.C05.init] at hid

theorem TaskInv.exec {s : State} (h : TaskInv s) (sts : List Step) (s' : State) (he : exec s sts = some s') :
    TaskInv s' := by
  induction sts generalizing s with
  | nil => simp [Tbox.C05.exec] at he; exact he ▸ h
  | cons st sts ih =>
    simp only [Tbox.C05.exec] at he
    split at he
    · rename_i hv; exact ih (h.step st hv) he
    · cases he

end Tbox.C05
