/- C05 — no lost wake-up for submitted tasks: a counting invariant over waiting / woken workers.
`notify_one` (step `notifyOne`) wakes a current waiter whenever there is one. -/
import TboxModel.C05.AcctProofs
namespace Tbox.C05

/-! ### counting workers by program counter -/

def cntF (n : Nat) (f : Nat → Bool) : Nat := ((List.range n).filter f).length

theorem cntF_succ (n : Nat) (f : Nat → Bool) : cntF (n + 1) f = cntF n f + (if f n then 1 else 0) := by
  simp only [cntF, List.range_succ, List.filter_append, List.length_append]
  by_cases h : f n <;> simp [h]

theorem cntF_congr (n : Nat) (f g : Nat → Bool) (h : ∀ i, i < n → f i = g i) : cntF n f = cntF n g := by
  induction n with
  | zero => rfl
  | succ n ih =>
    rw [cntF_succ, cntF_succ, ih (fun i hi => h i (Nat.lt_succ_of_lt hi)), h n (Nat.lt_succ_self n)]

theorem cntF_update (n : Nat) (f g : Nat → Bool) (w : Nat) (hw : w < n) (h : ∀ i, i ≠ w → f i = g i) :
    cntF n g + (if f w then 1 else 0) = cntF n f + (if g w then 1 else 0) := by
  induction n with
  | zero => omega
  | succ n ih =>
    rw [cntF_succ, cntF_succ]
    by_cases e : w = n
    · subst e
      have := cntF_congr w f g (fun i hi => h i (by omega))
      omega
    · have := ih (by omega)
      rw [h n (fun e' => e e'.symm)]
      omega

theorem cntF_zero {n : Nat} {f : Nat → Bool} (h : cntF n f = 0) : ∀ i, i < n → f i = false := by
  induction n with
  | zero => intro i hi; omega
  | succ n ih =>
    rw [cntF_succ] at h
    intro i hi
    by_cases e : i = n
    · subst e; cases hf : f i
      · rfl
      · simp [hf] at h
    · exact ih (by omega) i (by omega)

theorem cntF_zero_of (n : Nat) (f : Nat → Bool) (h : ∀ i, i < n → f i = false) : cntF n f = 0 := by
  induction n with
  | zero => rfl
  | succ n ih => rw [cntF_succ, ih (fun i hi => h i (by omega)), h n (by omega)]; rfl

theorem cntF_pos {n : Nat} {f : Nat → Bool} (h : 0 < cntF n f) : ∃ i, i < n ∧ f i = true := by
  induction n with
  | zero => simp [cntF] at h
  | succ n ih =>
    rw [cntF_succ] at h
    by_cases hf : f n = true
    · exact ⟨n, by omega, hf⟩
    · simp [hf] at h
      obtain ⟨i, hi, e⟩ := ih h
      exact ⟨i, by omega, e⟩

def PC.isWaiting : PC → Bool | .waiting => true | _ => false
def PC.isWoken : PC → Bool | .woken => true | _ => false

def nWaiting (s : State) : Nat := cntF s.nW (fun w => (s.pc w).isWaiting)
def nWoken (s : State) : Nat := cntF s.nW (fun w => (s.pc w).isWoken)

/-- effect of one worker's program-counter change on a count -/
theorem cnt_setPc (s : State) (w : Nat) (p : PC) (q : PC → Bool) (hw : w < s.nW) :
    cntF s.nW (fun i => q ((setPc s w p).pc i)) + (if q (s.pc w) then 1 else 0)
      = cntF s.nW (fun i => q (s.pc i)) + (if q p then 1 else 0) := by
  have := cntF_update s.nW (fun i => q (s.pc i)) (fun i => q ((setPc s w p).pc i)) w hw
    (fun i hi => by simp [hi])
  simpa using this

/-! ### popOne succeeds on a non-empty queue of legal levels -/

theorem scanFrom_none (undo : List Tk) : ∀ (n i : Nat), scanFrom undo i n = none →
    ∀ x ∈ undo, ¬ (i ≤ x.lvl ∧ x.lvl < i + n) := by
  intro n
  induction n with
  | zero => intro i _ x _ h; omega
  | succ n ih =>
    intro i h x hx hlv
    simp only [scanFrom] at h
    split at h
    · cases h
    · rename_i hf
      have hne : x.lvl ≠ i := by
        have := List.find?_eq_none.1 hf x hx; simpa using this
      exact ih (i + 1) h x hx (by omega)

theorem popOne_some {undo : List Tk} (hne : undo ≠ []) (hl : ∀ t ∈ undo, t.lvl < nPrio) : ∃ t, popOne undo = some t := by
  cases hp : popOne undo with
  | some t => exact ⟨t, rfl⟩
  | none =>
    cases undo with
    | nil => exact absurd rfl hne
    | cons x xs =>
      have := scanFrom_none (x :: xs) nPrio 0 hp x List.mem_cons_self
      have := hl x List.mem_cons_self
      omega

theorem removeId_length_lt {undo : List Tk} {t : Tk} (ht : t ∈ undo) : (removeId undo t.id).length + 1 ≤ undo.length := by
  induction undo with
  | nil => cases ht
  | cons x xs ih =>
    simp only [removeId, List.filter_cons]
    by_cases e : x.id = t.id
    · simp only [e, bne_self_eq_false, Bool.false_eq_true, ↓reduceIte, List.length_cons]
      have := List.length_filter_le (fun u => u.id != t.id) xs
      omega
    · have hx : (x.id != t.id) = true := by simpa using e
      rcases List.mem_cons.1 ht with rfl | ht'
      · exact absurd rfl e
      · have := ih ht'
        simp only [removeId] at this
        simp only [hx, ↓reduceIte, List.length_cons]; omega

theorem levelOf_lt (p : Int) : levelOf p < nPrio := by
  unfold levelOf nPrio; split
  · omega
  · split <;> omega

/-! ### the invariant -/


structure WakeInv (s : State) : Prop where
  lockUndo : s.lock = true → s.undo = []
  lvlOk    : ∀ t ∈ s.undo, t.lvl < nPrio
  K        : s.stop = false → s.undo.length ≤ nWoken s + s.pend ∨ nWaiting s = 0

/-- nothing the invariant reads changes, except that the queue may shrink -/
theorem WakeInv.congr {s s' : State} (h : WakeInv s) (h1 : s'.lock = s.lock) (h2 : ∀ t ∈ s'.undo, t ∈ s.undo)
    (h2' : s'.undo.length ≤ s.undo.length) (h2'' : s.undo = [] → s'.undo = [])
    (h3 : s.stop = true → s'.stop = true) (h4 : s'.pend = s.pend) (h5 : nWoken s' = nWoken s) (h6 : nWaiting s' = nWaiting s) :
    WakeInv s' := by
  constructor
  · rw [h1]; intro hl; exact h2'' (h.lockUndo hl)
  · intro t ht; exact h.lvlOk t (h2 t ht)
  · intro hs
    have hs0 : s.stop = false := by
      cases hh : s.stop
      · rfl
      · rw [h3 hh] at hs; cases hs
    rw [h4, h5, h6]
    rcases h.K hs0 with a | a
    · left; omega
    · right; exact a

theorem WakeInv.of_eq {s s' : State} (h : WakeInv s) (h1 : s'.lock = s.lock) (h2 : s'.undo = s.undo) (h3 : s'.stop = s.stop)
    (h4 : s'.pend = s.pend) (h5 : s'.pc = s.pc) (h6 : s'.nW = s.nW) : WakeInv s' :=
  h.congr h1 (by rw [h2]; exact fun _ => id) (by rw [h2]; exact Nat.le_refl _) (by rw [h2]; exact id) (by rw [h3]; exact id) h4
    (by simp only [nWoken, h5, h6]) (by simp only [nWaiting, h5, h6])

/-- worker `w < nW` moves between two program counters that are neither `waiting` nor `woken` -/
theorem WakeInv.setPc_neutral {s : State} (h : WakeInv s) (w : Nat) (p : PC) (hw : w < s.nW)
    (h1 : (s.pc w).isWaiting = false) (h2 : (s.pc w).isWoken = false) (h3 : p.isWaiting = false) (h4 : p.isWoken = false) :
    WakeInv (setPc s w p) := by
  refine h.congr rfl (fun _ => id) (Nat.le_refl _) id id rfl ?_ ?_
  · have := cnt_setPc s w p PC.isWoken hw
    simp only [h2, h4, Bool.false_eq_true, ↓reduceIte, Nat.add_zero] at this
    exact this
  · have := cnt_setPc s w p PC.isWaiting hw
    simp only [h1, h3, Bool.false_eq_true, ↓reduceIte, Nat.add_zero] at this
    exact this

/-- the predicate part of a worker's critical section; the worker comes from `start` or `woken` -/
theorem WakeInv.afterPred {s : State} (h : WakeInv s) (w : Nat) (hw : w < s.nW) (hl : s.lock = false)
    (hp : s.pc w = .start ∨ s.pc w = .woken) : WakeInv (afterPred s w) := by
  have hwait : (s.pc w).isWaiting = false := by rcases hp with e | e <;> rw [e] <;> rfl
  -- counts after giving `w` a program counter that is neither waiting nor woken
  have cW : ∀ (s0 : State) (p : PC), s0.pc = s.pc → s0.nW = s.nW → p.isWaiting = false → nWaiting (setPc s0 w p) = nWaiting s := by
    intro s0 p e1 e2 hp'
    have := cnt_setPc s0 w p PC.isWaiting (by rw [e2]; exact hw)
    simp only [e1, hwait, hp', Bool.false_eq_true, ↓reduceIte, Nat.add_zero] at this
    simp only [nWaiting, setPc_nW, e2] at this ⊢
    exact this
  have cK : ∀ (s0 : State) (p : PC), s0.pc = s.pc → s0.nW = s.nW → p.isWoken = false →
      nWoken (setPc s0 w p) + (if (s.pc w).isWoken then 1 else 0) = nWoken s := by
    intro s0 p e1 e2 hp'
    have := cnt_setPc s0 w p PC.isWoken (by rw [e2]; exact hw)
    simp only [e1, hp', Bool.false_eq_true, ↓reduceIte, Nat.add_zero] at this
    simp only [nWoken, setPc_nW, e2] at this ⊢
    exact this
  unfold Tbox.C05.afterPred
  split
  · rename_i hc
    split
    · -- stop
      rename_i hs
      constructor
      · intro hl'; simp only [setPc_lock] at hl'; rw [hl] at hl'; cases hl'
      · exact h.lvlOk
      · intro hs'; simp only [setPc_stop] at hs'; rw [hs] at hs'; cases hs'
    · rename_i hs
      have hs0 : s.stop = false := by simpa using hs
      have hne : s.undo ≠ [] := by
        intro e; rw [e, hs0] at hc; simp at hc
      split
      · rename_i hnone
        obtain ⟨t, ht⟩ := popOne_some hne h.lvlOk
        rw [ht] at hnone; cases hnone
      rename_i t ht
      have hmem := popOne_mem ht
      have hlen := removeId_length_lt hmem
      have key : ∀ (p : PC), p.isWaiting = false → p.isWoken = false → ∀ (dg : List Nat) (pk : List (Tk × List Tk)),
          WakeInv (setPc { s with idle := s.idle - 1, undo := removeId s.undo t.id, picks := pk, doing := dg } w p) := by
        intro p hp1 hp2 dg pk
        constructor
        · intro hl'; simp only [setPc_lock] at hl'; rw [hl] at hl'; cases hl'
        · intro u hu; exact h.lvlOk u (mem_removeId.1 hu).1
        · intro _
          have e1 := cW { s with idle := s.idle - 1, undo := removeId s.undo t.id, picks := pk, doing := dg } p rfl rfl hp1
          have e2 := cK { s with idle := s.idle - 1, undo := removeId s.undo t.id, picks := pk, doing := dg } p rfl rfl hp2
          rw [e1]
          rcases h.K hs0 with a | a
          · left
            show (removeId s.undo t.id).length ≤ nWoken _ + s.pend
            have : (if (s.pc w).isWoken = true then 1 else 0) ≤ 1 := by split <;> omega
            omega
          · right; exact a
      split
      · exact key (.running t) rfl rfl _ _
      · exact key (.picked t) rfl rfl _ _
  · rename_i hc
    have hs0 : s.stop = false := by
      cases hh : s.stop
      · rfl
      · rw [hh] at hc; simp at hc
    have hundo : s.undo = [] := by
      cases hu : s.undo with
      | nil => rfl
      | cons x xs => rw [hu, hs0] at hc; simp at hc
    constructor
    · intro _; exact hundo
    · exact h.lvlOk
    · intro _; left; simp only [setPc_undo, hundo, List.length_nil]; exact Nat.zero_le _

/-- `createWorker`: a new worker at `start` -/
theorem WakeInv.spawn {s : State} (h : WakeInv s) (o1 : (s.pc s.nW).isWaiting = false) (o2 : (s.pc s.nW).isWoken = false)
    (cab' : List Nat) : WakeInv (setPc { s with cab := cab', nW := s.nW + 1 } s.nW .start) := by
  have eW : nWoken (setPc { s with cab := cab', nW := s.nW + 1 } s.nW .start) = nWoken s := by
    simp only [nWoken, setPc_nW, cntF_succ, setPc_pc, ↓reduceIte, PC.isWoken, Bool.false_eq_true, Nat.add_zero]
    exact cntF_congr _ _ _ (fun i hi => by simp [Nat.ne_of_lt hi])
  have eA : nWaiting (setPc { s with cab := cab', nW := s.nW + 1 } s.nW .start) = nWaiting s := by
    simp only [nWaiting, setPc_nW, cntF_succ, setPc_pc, ↓reduceIte, PC.isWaiting, Bool.false_eq_true, Nat.add_zero]
    exact cntF_congr _ _ _ (fun i hi => by simp [Nat.ne_of_lt hi])
  exact h.congr rfl (fun _ => id) (Nat.le_refl _) id id rfl eW eA

theorem WakeInv.step {s : State} (h : WakeInv s) (hw : WorkerInv s) (hl : LockInv s) (st : Step)
    (hv : valid s st = true) : WakeInv (step s st) := by
  have outside : ∀ w, s.nW ≤ w → (s.pc w).isWaiting = false ∧ (s.pc w).isWoken = false := by
    intro w hle
    cases hp : (s.pc w).active
    · cases hpc : s.pc w <;> simp_all [PC.active, PC.isWaiting, PC.isWoken]
    · have := hw.bound w (hw.live w hp); omega
  cases st with
  | execute prio cb =>
    simp only [valid, Bool.and_eq_true, Bool.not_eq_true'] at hv
    have hlock := hv.1
    simp only [Tbox.C05.step]
    split
    · exact h
    · have h1 : WakeInv { s with undo := s.undo ++ [{ id := s.nextTask, lvl := levelOf prio, cb := cb }],
                                 nextTask := s.nextTask + 1, pend := s.pend + 1 } := by
        constructor
        · intro hl'; simp only at hl'; rw [hlock] at hl'; cases hl'
        · intro t ht
          rcases List.mem_append.1 ht with a | a
          · exact h.lvlOk t a
          · simp at a; subst a; exact levelOf_lt prio
        · intro hs
          rcases h.K hs with a | a
          · left
            show (s.undo ++ [_]).length ≤ nWoken s + (s.pend + 1)
            simp only [List.length_append, List.length_cons, List.length_nil]
            omega
          · right; exact a
      split
      · split
        · -- spawn: a new worker at `start`
          obtain ⟨o1, o2⟩ := outside s.nW (Nat.le_refl _)
          exact WakeInv.spawn h1 o1 o2 _
        · exact h1.of_eq rfl rfl rfl rfl rfl rfl
      · exact h1
  | executeF prio cb =>
    simp only [valid, Bool.and_eq_true, Bool.not_eq_true'] at hv
    have hlock := hv.1.1.1.1
    simp only [Tbox.C05.step]
    split
    · exact h
    · constructor
      · intro hl'; simp only at hl'; rw [hlock] at hl'; cases hl'
      · intro t ht
        rcases List.mem_append.1 ht with a | a
        · exact h.lvlOk t a
        · simp at a; subst a; exact levelOf_lt prio
      · intro hs
        rcases h.K hs with a | a
        · left
          show (s.undo ++ [_]).length ≤ nWoken s + (s.pend + 1)
          simp only [List.length_append, List.length_cons, List.length_nil]
          omega
        · right; exact a
  | cancel id =>
    simp only [valid, Bool.and_eq_true, Bool.not_eq_true'] at hv
    simp only [Tbox.C05.step]
    split
    · exact h.congr rfl (fun t ht => (mem_removeId.1 ht).1) (List.length_filter_le _ _)
        (fun e => by simp only; rw [e]; rfl) (fun hh => hh) rfl rfl rfl
    · split
      · exact h
      · exact h.of_eq rfl rfl rfl rfl rfl rfl
    · exact h
  | status id =>
    simp only [Tbox.C05.step]
    split
    · split
      · exact h
      · exact h.of_eq rfl rfl rfl rfl rfl rfl
    · exact h
  | snapshot => exact h
  | cleanup1 =>
    exact h.congr rfl (fun t ht => by cases ht) (Nat.zero_le _) (fun _ => rfl) id rfl rfl rfl
  | setStop =>
    constructor
    · exact h.lockUndo
    · exact h.lvlOk
    · intro hs; cases hs
  | notifyAll =>
    simp only [valid, Bool.and_eq_true, Bool.not_eq_true'] at hv
    constructor
    · exact h.lockUndo
    · exact h.lvlOk
    · intro hs; simp only [Tbox.C05.step] at hs; rw [hv.1] at hs; cases hs
  | notifyOne ow =>
    cases ow with
    | none =>
      simp only [valid, Bool.and_eq_true, noWaiter, List.all_eq_true, List.mem_range, bne_iff_ne, ne_eq, decide_eq_true_eq] at hv
      refine ⟨h.lockUndo, h.lvlOk, fun _ => Or.inr ?_⟩
      refine cntF_zero_of _ _ (fun i hi => ?_)
      have := hv.2 i hi
      show (s.pc i).isWaiting = false
      cases hp : s.pc i <;> simp_all [PC.isWaiting]
    | some w =>
      simp only [valid, Bool.and_eq_true, decide_eq_true_eq, beq_iff_eq] at hv
      have e1 := cnt_setPc { s with pend := s.pend - 1 } w .woken PC.isWoken hv.1.2
      have e2 := cnt_setPc { s with pend := s.pend - 1 } w .woken PC.isWaiting hv.1.2
      simp only [hv.2, PC.isWoken, PC.isWaiting, Bool.false_eq_true, ↓reduceIte, Nat.add_zero] at e1 e2
      constructor
      · exact h.lockUndo
      · exact h.lvlOk
      · intro hs
        left
        have hk := h.K hs
        have e1' : nWoken (setPc { s with pend := s.pend - 1 } w .woken) = nWoken s + 1 := e1
        show s.undo.length ≤ nWoken (setPc { s with pend := s.pend - 1 } w .woken) + (s.pend - 1)
        rw [e1']
        rcases hk with a | a
        · have := hv.1.1
          omega
        · have := cntF_zero a w hv.1.2
          simp [hv.2, PC.isWaiting] at this
  | join w => exact h.of_eq rfl rfl rfl rfl rfl rfl
  | cleanupRet => exact h.of_eq rfl rfl rfl rfl rfl rfl
  | loopRun =>
    simp only [Tbox.C05.step]
    split
    · exact h
    · exact h.of_eq rfl rfl rfl rfl rfl rfl
    · split <;> exact h.of_eq rfl rfl rfl rfl rfl rfl
    · exact h.of_eq rfl rfl rfl rfl rfl rfl
  | enter w =>
    simp only [valid, Bool.and_eq_true, Bool.not_eq_true', decide_eq_true_eq, beq_iff_eq] at hv
    simp only [Tbox.C05.step]
    split
    · split
      · refine WakeInv.setPc_neutral ?_ w _ hv.1.1 (by rw [hv.2]; rfl) (by rw [hv.2]; rfl) rfl rfl
        exact h.of_eq rfl rfl rfl rfl rfl rfl
      · exact h.setPc_neutral w _ hv.1.1 (by rw [hv.2]; rfl) (by rw [hv.2]; rfl) rfl rfl
    · exact (h.of_eq (s' := { s with idle := s.idle + 1 }) rfl rfl rfl rfl rfl rfl).afterPred w hv.1.1 hv.1.2 (Or.inl hv.2)
  | block w =>
    simp only [valid, Bool.and_eq_true, decide_eq_true_eq, beq_iff_eq] at hv
    have hlock : s.lock = true := by
      cases hh : s.lock
      · exact absurd hv.2 (hl.owner hh w)
      · rfl
    have hundo := h.lockUndo hlock
    constructor
    · intro hl'; simp only [Tbox.C05.step, setPc_lock] at hl'; cases hl'
    · exact h.lvlOk
    · intro _; left; simp only [Tbox.C05.step, setPc_undo, hundo, List.length_nil]; exact Nat.zero_le _
  | wake w =>
    simp only [valid, Bool.and_eq_true, decide_eq_true_eq, beq_iff_eq] at hv
    have e1 := cnt_setPc s w .woken PC.isWoken hv.1
    simp only [hv.2, PC.isWoken, Bool.false_eq_true, ↓reduceIte, Nat.add_zero] at e1
    constructor
    · exact h.lockUndo
    · exact h.lvlOk
    · intro hs
      left
      have e1' : nWoken (setPc s w .woken) = nWoken s + 1 := e1
      show s.undo.length ≤ nWoken (setPc s w .woken) + s.pend
      rw [e1']
      rcases h.K hs with a | a
      · omega
      · have := cntF_zero a w hv.1
        simp [hv.2, PC.isWaiting] at this
  | reenter w =>
    simp only [valid, Bool.and_eq_true, Bool.not_eq_true', decide_eq_true_eq, beq_iff_eq] at hv
    exact h.afterPred w hv.1.1 hv.1.2 (Or.inr hv.2)
  | markDoing w =>
    simp only [valid, Bool.and_eq_true, Bool.not_eq_true', decide_eq_true_eq] at hv
    simp only [Tbox.C05.step]
    split
    · rename_i t hp
      refine WakeInv.setPc_neutral ?_ w _ hv.1.1 (by rw [hp]; rfl) (by rw [hp]; rfl) rfl rfl
      exact h.of_eq rfl rfl rfl rfl rfl rfl
    · exact h
  | runBody w =>
    simp only [valid, Bool.and_eq_true, decide_eq_true_eq] at hv
    simp only [Tbox.C05.step]
    split
    · rename_i t hp
      refine WakeInv.setPc_neutral ?_ w _ hv.1 (by rw [hp]; rfl) (by rw [hp]; rfl) rfl rfl
      exact h.of_eq rfl rfl rfl rfl rfl rfl
    · exact h
  | postCb w =>
    simp only [valid, Bool.and_eq_true, decide_eq_true_eq] at hv
    simp only [Tbox.C05.step]
    split
    · rename_i t hp
      split
      · refine WakeInv.setPc_neutral ?_ w _ hv.1 (by rw [hp]; rfl) (by rw [hp]; rfl) rfl rfl
        exact h.of_eq rfl rfl rfl rfl rfl rfl
      · exact h.setPc_neutral w _ hv.1 (by rw [hp]; rfl) (by rw [hp]; rfl) rfl rfl
    · exact h
  | finish w =>
    simp only [valid, Bool.and_eq_true, Bool.not_eq_true', decide_eq_true_eq] at hv
    simp only [Tbox.C05.step]
    split
    · rename_i t hp
      refine WakeInv.setPc_neutral ?_ w _ hv.1.1 (by rw [hp]; rfl) (by rw [hp]; rfl) rfl rfl
      exact h.of_eq rfl rfl rfl rfl rfl rfl
    · exact h
  | selfRemove w =>
    simp only [valid, Bool.and_eq_true, decide_eq_true_eq] at hv
    have hp1 : (s.pc w).isWaiting = false ∧ (s.pc w).isWoken = false := by
      cases hp : s.pc w <;> simp_all [PC.isWaiting, PC.isWoken]
    simp only [Tbox.C05.step]
    split
    · refine WakeInv.setPc_neutral ?_ w _ hv.1 hp1.1 hp1.2 rfl rfl
      exact h.of_eq rfl rfl rfl rfl rfl rfl
    · split
      · refine WakeInv.setPc_neutral ?_ w _ hv.1 hp1.1 hp1.2 rfl rfl
        exact h.of_eq rfl rfl rfl rfl rfl rfl
      · split
        · exact h.setPc_neutral w _ hv.1 hp1.1 hp1.2 rfl rfl
        · refine WakeInv.setPc_neutral ?_ w _ hv.1 hp1.1 hp1.2 rfl rfl
          exact h.of_eq rfl rfl rfl rfl rfl rfl
  | threadEnd w =>
    simp only [valid, Bool.and_eq_true, decide_eq_true_eq, beq_iff_eq] at hv
    exact h.setPc_neutral w _ hv.1 (by rw [hv.2]; rfl) (by rw [hv.2]; rfl) rfl rfl

theorem WakeInv.init (c : Cfg) : WakeInv (init c) := by
  constructor
  · intro hl; cases hl
  · intro t ht; simp [Tbox.C05.init] at ht
  · intro _; left; simp [Tbox.C05.init]

end Tbox.C05
