/- C05 — worker-table invariant (max workers) and completion-callback invariant of the repaired model. -/
import TboxModel.C05.LockProofs
namespace Tbox.C05

/-! ### workers -/

/-- a worker that can still take tasks: it has not returned, and has not left the cabinet on its way out -/
def PC.active : PC → Bool
  | .exited | .leaving | .exitVol true => false
  | _ => true

structure WorkerInv (s : State) : Prop where
  live  : ∀ w, (s.pc w).active = true → w ∈ s.cab ∨ w ∈ s.vec
  bound : ∀ w, (w ∈ s.cab ∨ w ∈ s.vec) → w < s.nW
  nodup : (s.cab ++ s.vec).Nodup
  len   : s.cab.length + s.vec.length ≤ s.cfg.max
  ph0   : s.phase1 = false → s.vec = []
  ph1   : s.phase1 = true → s.cab = []

theorem WorkerInv.weaken {s s' : State} (h : WorkerInv s) (h0 : s'.cfg = s.cfg) (h1 : s'.cab = s.cab)
    (h2 : s'.vec = s.vec) (h3 : s'.nW = s.nW) (h4 : s'.phase1 = s.phase1)
    (hpc : ∀ i, (s'.pc i).active = true → (s.pc i).active = true) : WorkerInv s' := by
  constructor
  · rw [h1, h2]; intro w hw; exact h.live w (hpc w hw)
  · rw [h1, h2, h3]; exact h.bound
  · rw [h1, h2]; exact h.nodup
  · rw [h1, h2, h0]; exact h.len
  · rw [h2, h4]; exact h.ph0
  · rw [h1, h4]; exact h.ph1

theorem WorkerInv.of_eq {s s' : State} (h : WorkerInv s) (h0 : s'.cfg = s.cfg) (h1 : s'.cab = s.cab)
    (h2 : s'.vec = s.vec) (h3 : s'.nW = s.nW) (h4 : s'.phase1 = s.phase1) (h5 : s'.pc = s.pc) : WorkerInv s' :=
  h.weaken h0 h1 h2 h3 h4 (fun i => by rw [h5]; exact id)

/-- a step of worker `w` (not exited before) that only changes its own program counter -/
theorem WorkerInv.setPc_live {s : State} (h : WorkerInv s) (w : Nat) (p : PC) (hw : (s.pc w).active = true) :
    WorkerInv (setPc s w p) :=
  h.weaken rfl rfl rfl rfl rfl (fun i => by
    simp only [setPc_pc]; by_cases e : i = w
    · intro _; rw [e]; exact hw
    · simp [e])

theorem WorkerInv.afterPred {s : State} (h : WorkerInv s) (w : Nat) (hw : (s.pc w).active = true) :
    WorkerInv (afterPred s w) := by
  unfold Tbox.C05.afterPred
  split
  · split
    · exact (h.of_eq (s' := { s with idle := s.idle - 1 }) rfl rfl rfl rfl rfl rfl).setPc_live w _ hw
    · split
      · exact (h.of_eq (s' := { s with idle := s.idle - 1 }) rfl rfl rfl rfl rfl rfl).setPc_live w _ hw
      · split
        · refine WorkerInv.setPc_live ?_ w _ hw
          exact h.of_eq rfl rfl rfl rfl rfl rfl
        · refine WorkerInv.setPc_live ?_ w _ hw
          exact h.of_eq rfl rfl rfl rfl rfl rfl
  · exact (h.of_eq (s' := { s with lock := true }) rfl rfl rfl rfl rfl rfl).setPc_live w _ hw

/-- worker `w` takes itself out of the cabinet and stops being active -/
theorem WorkerInv.leave {s : State} (h : WorkerInv s) (w : Nat) (p : PC) (hp : p.active = false)
    {lq : List LoopItem} {ex : List Nat} :
    WorkerInv (setPc { s with cab := s.cab.filter (· != w), loopQ := lq, exiting := ex } w p) := by
  constructor
  · intro i hi
    simp only [setPc_pc] at hi
    by_cases e : i = w
    · simp [e, hp] at hi
    · simp only [e, ↓reduceIte] at hi
      rcases h.live i hi with hh | hh
      · left; simp [hh, e]
      · right; exact hh
  · intro i hi
    simp only [setPc_cab, setPc_vec, setPc_nW, List.mem_filter] at hi ⊢
    rcases hi with hh | hh
    · exact h.bound i (Or.inl hh.1)
    · exact h.bound i (Or.inr hh)
  · simp only [setPc_cab, setPc_vec]
    exact List.Nodup.sublist (List.Sublist.append (List.filter_sublist) (List.Sublist.refl _)) h.nodup
  · simp only [setPc_cab, setPc_vec, setPc_cfg]
    have := List.length_filter_le (fun x => x != w) s.cab
    have := h.len
    omega
  · exact h.ph0
  · intro hp'; simp only [setPc_cab]; rw [h.ph1 hp']; rfl

theorem WorkerInv.step {s : State} (h : WorkerInv s) (st : Step) (hv : valid s st = true) : WorkerInv (step s st) := by
  cases st with
  | execute prio cb =>
    simp only [valid, inCleanup, Bool.and_eq_true, Bool.not_eq_true', Bool.and_eq_false_iff] at hv
    simp only [Tbox.C05.step]
    split
    · exact h
    · rename_i hd
      have hph : s.phase1 = false := by
        rcases hv.2 with hp | hp
        · exact hp
        · simp at hp; exact absurd hp hd
      have hvec := h.ph0 hph
      split
      · split
        · rename_i hlt
          have hlt : s.cab.length < s.cfg.max := hlt
          constructor
          · intro i hi
            simp only [setPc_pc] at hi
            by_cases e : i = s.nW
            · left; simp [e]
            · simp only [e, ↓reduceIte] at hi
              rcases h.live i hi with hh | hh
              · left; simp [hh]
              · right; exact hh
          · intro i hi
            simp only [setPc_cab, setPc_vec, setPc_nW, List.mem_append, List.mem_singleton] at hi ⊢
            rcases hi with (hh | hh) | hh
            · exact Nat.lt_succ_of_lt (h.bound i (Or.inl hh))
            · omega
            · exact Nat.lt_succ_of_lt (h.bound i (Or.inr hh))
          · simp only [setPc_cab, setPc_vec, hvec, List.append_nil]
            have hn := h.nodup; rw [hvec, List.append_nil] at hn
            rw [List.nodup_append]
            refine ⟨hn, by simp, ?_⟩
            intro a ha b hb
            simp at hb; subst hb
            intro e; subst e
            exact Nat.lt_irrefl _ (h.bound _ (Or.inl ha))
          · simp only [setPc_cab, setPc_vec, setPc_cfg, hvec, List.length_append, List.length_cons, List.length_nil]
            omega
          · intro _; exact hvec
          · intro hp; simp only [setPc_phase1] at hp; rw [hph] at hp; cases hp
        · exact h.of_eq rfl rfl rfl rfl rfl rfl
      · exact h.of_eq rfl rfl rfl rfl rfl rfl
  | executeF prio cb =>
    simp only [Tbox.C05.step]
    split
    · exact h
    · exact h.of_eq rfl rfl rfl rfl rfl rfl
  | cancel id =>
    simp only [Tbox.C05.step]
    split
    · exact h.of_eq rfl rfl rfl rfl rfl rfl
    · split
      · exact h
      · exact h.of_eq rfl rfl rfl rfl rfl rfl
    · exact h
  | status id =>
    simp only [Tbox.C05.step]
    split
    · split
      · exact h
      · exact h.of_eq rfl rfl rfl rfl rfl rfl
    · exact h
  | snapshot => exact h
  | cleanup1 =>
    simp only [valid, Bool.and_eq_true, Bool.not_eq_true'] at hv
    have hvec := h.ph0 hv.1.2
    constructor
    · intro w hw
      rcases h.live w hw with hh | hh
      · right; exact hh
      · rw [hvec] at hh; cases hh
    · intro w hw
      rcases hw with hh | hh
      · cases hh
      · exact h.bound w (Or.inl hh)
    · have := h.nodup; rw [hvec, List.append_nil] at this; simpa [Tbox.C05.step] using this
    · have := h.len; rw [hvec] at this; simp only [Tbox.C05.step, List.length_nil] at this ⊢; omega
    · intro hp; cases hp
    · intro _; rfl
  | setStop => exact h.of_eq rfl rfl rfl rfl rfl rfl
  | notifyAll =>
    refine h.weaken rfl rfl rfl rfl rfl (fun i => ?_)
    simp only [Tbox.C05.step]
    by_cases hw : s.pc i = .waiting
    · intro _; rw [hw]; rfl
    · simp [hw]
  | notifyOne ow =>
    simp only [valid, Bool.and_eq_true, decide_eq_true_eq, beq_iff_eq] at hv
    cases ow with
    | none => exact h.of_eq rfl rfl rfl rfl rfl rfl
    | some w =>
      simp only [valid, Bool.and_eq_true, decide_eq_true_eq, beq_iff_eq] at hv
      refine WorkerInv.setPc_live ?_ w _ (by rw [hv.2]; rfl)
      exact h.of_eq rfl rfl rfl rfl rfl rfl
  | threadEnd w =>
    exact h.weaken rfl rfl rfl rfl rfl (fun i => by
      simp only [Tbox.C05.step, setPc_pc]; by_cases e : i = w
      · simp [e, PC.active]
      · simp [e])
  | join w => exact h.of_eq rfl rfl rfl rfl rfl rfl
  | cleanupRet => exact h.of_eq rfl rfl rfl rfl rfl rfl
  | loopRun =>
    simp only [Tbox.C05.step]
    split
    · exact h
    · exact h.of_eq rfl rfl rfl rfl rfl rfl
    · split <;> exact h.of_eq rfl rfl rfl rfl rfl rfl
    · exact h.of_eq rfl rfl rfl rfl rfl rfl
  | enter w =>
    simp only [valid, Bool.and_eq_true, Bool.not_eq_true', decide_eq_true_eq, beq_iff_eq] at hv
    have hw : (s.pc w).active = true := by rw [hv.2]; rfl
    simp only [Tbox.C05.step]
    split
    · split
      · exact WorkerInv.leave h w (.exitVol true) rfl
      · exact h.setPc_live w _ hw
    · exact (h.of_eq (s' := { s with idle := s.idle + 1 }) rfl rfl rfl rfl rfl rfl).afterPred w hw
  | block w =>
    simp only [valid, Bool.and_eq_true, decide_eq_true_eq, beq_iff_eq] at hv
    have hw : (s.pc w).active = true := by rw [hv.2]; rfl
    exact (h.of_eq (s' := { s with lock := false }) rfl rfl rfl rfl rfl rfl).setPc_live w _ hw
  | wake w =>
    simp only [valid, Bool.and_eq_true, decide_eq_true_eq, beq_iff_eq] at hv
    exact h.setPc_live w _ (by rw [hv.2]; rfl)
  | reenter w =>
    simp only [valid, Bool.and_eq_true, Bool.not_eq_true', decide_eq_true_eq, beq_iff_eq] at hv
    exact h.afterPred w (by rw [hv.2]; rfl)
  | markDoing w =>
    simp only [Tbox.C05.step]
    split
    · rename_i t hp
      refine WorkerInv.setPc_live ?_ w _ (by rw [hp]; rfl)
      exact h.of_eq rfl rfl rfl rfl rfl rfl
    · exact h
  | runBody w =>
    simp only [Tbox.C05.step]
    split
    · rename_i t hp
      refine WorkerInv.setPc_live ?_ w _ (by rw [hp]; rfl)
      exact h.of_eq rfl rfl rfl rfl rfl rfl
    · exact h
  | postCb w =>
    simp only [Tbox.C05.step]
    split
    · rename_i t hp
      refine WorkerInv.setPc_live ?_ w _ ?_
      · split
        · exact h.of_eq rfl rfl rfl rfl rfl rfl
        · exact h
      · split <;> (rw [hp]; rfl)
    · exact h
  | finish w =>
    simp only [Tbox.C05.step]
    split
    · rename_i t hp
      refine WorkerInv.setPc_live ?_ w _ (by rw [hp]; rfl)
      exact h.of_eq rfl rfl rfl rfl rfl rfl
    · exact h
  | selfRemove w =>
    simp only [Tbox.C05.step]
    split
    · exact h.weaken rfl rfl rfl rfl rfl (fun i => by
        simp only [setPc_pc]; by_cases e : i = w
        · simp [e, PC.active]
        · simp [e])
    · split
      · exact WorkerInv.leave h w .leaving rfl
      · split
        · exact h.weaken rfl rfl rfl rfl rfl (fun i => by
            simp only [setPc_pc]; by_cases e : i = w
            · simp [e, PC.active]
            · simp [e])
        · exact h.weaken rfl rfl rfl rfl rfl (fun i => by
            simp only [setPc_pc]; by_cases e : i = w
            · simp [e, PC.active]
            · simp [e])

theorem WorkerInv.init (c : Cfg) (hc : c.ok = true) : WorkerInv (init c) := by
  simp only [Cfg.ok, Bool.and_eq_true, decide_eq_true_eq] at hc
  constructor
  · intro w hw
    simp only [Tbox.C05.init] at hw ⊢
    left
    by_cases e : w < c.min
    · simp [e]
    · simp [e, PC.active] at hw
  · intro w hw
    simp only [Tbox.C05.init, List.mem_range] at hw ⊢
    rcases hw with hh | hh
    · exact hh
    · cases hh
  · simp [Tbox.C05.init, List.nodup_range]
  · simp [Tbox.C05.init]; exact hc.1
  · intro _; rfl
  · intro hp; cases hp

theorem WorkerInv.exec {s : State} (h : WorkerInv s) (sts : List Step) (s' : State) (he : exec s sts = some s') :
    WorkerInv s' := by
  induction sts generalizing s with
  | nil => simp [Tbox.C05.exec] at he; exact he ▸ h
  | cons st sts ih =>
    simp only [Tbox.C05.exec] at he
    split at he
    · rename_i hv; exact ih (h.step st hv) he
    · cases he

/-- a duplicate-free list contained in another list is not longer -/
theorem nodup_subset_length : ∀ (l m : List Nat), l.Nodup → (∀ x ∈ l, x ∈ m) → l.length ≤ m.length := by
  intro l
  induction l with
  | nil => intro m _ _; exact Nat.zero_le _
  | cons x xs ih =>
    intro m hn hs
    rw [List.nodup_cons] at hn
    have hx : x ∈ m := hs x List.mem_cons_self
    have hsub : ∀ y ∈ xs, y ∈ m.erase x := by
      intro y hy
      have hne : y ≠ x := fun e => hn.1 (e ▸ hy)
      exact (List.mem_erase_of_ne hne).2 (hs y (List.mem_cons_of_mem _ hy))
    have := ih (m.erase x) hn.2 hsub
    rw [List.length_erase_of_mem hx] at this
    have hpos : 0 < m.length := List.length_pos_of_mem hx
    simp only [List.length_cons]; omega

/-- the workers whose thread function has not returned -/
def liveWorkers (s : State) : List Nat := (List.range s.nW).filter (fun w => (s.pc w).active)

theorem WorkerInv.live_le {s : State} (h : WorkerInv s) : (liveWorkers s).length ≤ s.cfg.max := by
  have hn : (liveWorkers s).Nodup := List.Nodup.sublist List.filter_sublist List.nodup_range
  have hs : ∀ x ∈ liveWorkers s, x ∈ s.cab ++ s.vec := by
    intro x hx
    simp only [liveWorkers, List.mem_filter] at hx
    exact List.mem_append.2 (h.live x hx.2)
  have := nodup_subset_length _ _ hn hs
  have := h.len
  simp only [List.length_append] at *
  omega

end Tbox.C05
