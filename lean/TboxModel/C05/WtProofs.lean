/- C05 — the fixed-size instance (min = max; WorkThread is min = max = 1): the pool never spawns a worker beyond
the initial ones and no worker ever exits voluntarily, i.e. the worker loop degenerates to WorkThread::threadProc
(wait, stop-flag test, pop, run, callback, finish) and execute() to WorkThread::execute (enqueue, notify). -/
import TboxModel.C05.StrandProofs
namespace Tbox.C05

/-- WorkThread as an instance of the model -/
def Cfg.workThread : Cfg := { min := 1, max := 1 }

structure WtInv (s : State) : Prop where
  eq   : s.cfg.min = s.cfg.max
  cab0 : s.phase1 = false → s.cab.length = s.cfg.min
  cab1 : s.phase1 = true → s.cab = []
  nw   : s.nW = s.cfg.min
  pcs  : ∀ w, (∀ b, s.pc w ≠ .exitVol b) ∧ s.pc w ≠ .leaving

theorem WtInv.weaken {s s' : State} (h : WtInv s) (h0 : s'.cfg = s.cfg) (h1 : s'.cab = s.cab) (h2 : s'.phase1 = s.phase1)
    (h3 : s'.nW = s.nW) (hpc : ∀ i, s'.pc i = s.pc i ∨ ((∀ b, s'.pc i ≠ .exitVol b) ∧ s'.pc i ≠ .leaving)) : WtInv s' := by
  constructor
  · rw [h0]; exact h.eq
  · rw [h1, h2, h0]; exact h.cab0
  · rw [h1, h2]; exact h.cab1
  · rw [h3, h0]; exact h.nw
  · intro i
    rcases hpc i with e | e
    · rw [e]; exact h.pcs i
    · exact e

theorem WtInv.of_eq {s s' : State} (h : WtInv s) (h0 : s'.cfg = s.cfg) (h1 : s'.cab = s.cab) (h2 : s'.phase1 = s.phase1)
    (h3 : s'.nW = s.nW) (h4 : s'.pc = s.pc) : WtInv s' :=
  h.weaken h0 h1 h2 h3 (fun i => Or.inl (by rw [h4]))

theorem WtInv.setPc_ok {s : State} (h : WtInv s) (w : Nat) {p : PC} (h1 : ∀ b, p ≠ .exitVol b) (h2 : p ≠ .leaving) :
    WtInv (setPc s w p) :=
  h.weaken rfl rfl rfl rfl (fun i => by
    simp only [setPc_pc]; by_cases e : i = w
    · right; simp only [e, ↓reduceIte]; exact ⟨h1, h2⟩
    · left; simp [e])

theorem WtInv.afterPred {s : State} (h : WtInv s) (w : Nat) : WtInv (afterPred s w) := by
  unfold Tbox.C05.afterPred
  split
  · split
    · refine WtInv.setPc_ok ?_ w (by simp) (by simp)
      exact h.of_eq rfl rfl rfl rfl rfl
    · split
      · refine WtInv.setPc_ok ?_ w (by simp) (by simp)
        exact h.of_eq rfl rfl rfl rfl rfl
      · split
        · refine WtInv.setPc_ok ?_ w (by simp) (by simp)
          exact h.of_eq rfl rfl rfl rfl rfl
        · refine WtInv.setPc_ok ?_ w (by simp) (by simp)
          exact h.of_eq rfl rfl rfl rfl rfl
  · refine WtInv.setPc_ok ?_ w (by simp) (by simp)
    exact h.of_eq rfl rfl rfl rfl rfl

theorem WtInv.step {s : State} (h : WtInv s) (st : Step) (hv : valid s st = true) : WtInv (step s st) := by
  cases st with
  | execute prio cb =>
    simp only [valid, inCleanup, Bool.and_eq_true, Bool.not_eq_true', Bool.and_eq_false_iff] at hv
    simp only [Tbox.C05.step]
    split
    · exact h
    · rename_i hd
      have hph : s.phase1 = false := by
        rcases hv.2 with hp | hp
        · exact hp
        · simp at hp; exact absurd hp hd
      split
      · split
        · rename_i hlt
          have hlt : s.cab.length < s.cfg.max := hlt
          have := h.cab0 hph
          have := h.eq
          omega
        · exact h.of_eq rfl rfl rfl rfl rfl
      · exact h.of_eq rfl rfl rfl rfl rfl
  | executeF prio cb =>
    simp only [Tbox.C05.step]
    split
    · exact h
    · exact h.of_eq rfl rfl rfl rfl rfl
  | cancel id =>
    simp only [Tbox.C05.step]
    split
    · exact h.of_eq rfl rfl rfl rfl rfl
    · split
      · exact h
      · exact h.of_eq rfl rfl rfl rfl rfl
    · exact h
  | status id =>
    simp only [Tbox.C05.step]
    split
    · split
      · exact h
      · exact h.of_eq rfl rfl rfl rfl rfl
    · exact h
  | snapshot => exact h
  | cleanup1 =>
    constructor
    · exact h.eq
    · intro hp; cases hp
    · intro _; rfl
    · exact h.nw
    · exact h.pcs
  | setStop => exact h.of_eq rfl rfl rfl rfl rfl
  | notifyAll =>
    refine h.weaken rfl rfl rfl rfl (fun i => ?_)
    simp only [Tbox.C05.step]
    by_cases hw : s.pc i = .waiting
    · right; simp [hw]
    · left; simp [hw]
  | notifyOne ow =>
    cases ow with
    | none => exact h.of_eq rfl rfl rfl rfl rfl
    | some w =>
      refine WtInv.setPc_ok ?_ w (by simp) (by simp)
      exact h.of_eq rfl rfl rfl rfl rfl
  | join w => exact h.of_eq rfl rfl rfl rfl rfl
  | cleanupRet => exact h.of_eq rfl rfl rfl rfl rfl
  | loopRun =>
    simp only [Tbox.C05.step]
    split
    · exact h
    · exact h.of_eq rfl rfl rfl rfl rfl
    · split <;> exact h.of_eq rfl rfl rfl rfl rfl
    · exact h.of_eq rfl rfl rfl rfl rfl
  | enter w =>
    simp only [Tbox.C05.step]
    split
    · rename_i hcond
      simp only [ge_iff_le, Bool.and_eq_true, decide_eq_true_eq] at hcond
      -- the exit test `cab.length > min` is never true
      exfalso
      cases hp : s.phase1
      · have := h.cab0 hp; omega
      · have := h.cab1 hp; rw [this] at hcond; simp at hcond
    · exact (h.of_eq (s' := { s with idle := s.idle + 1 }) rfl rfl rfl rfl rfl).afterPred w
  | block w =>
    refine WtInv.setPc_ok ?_ w (by simp) (by simp)
    exact h.of_eq rfl rfl rfl rfl rfl
  | wake w => exact h.setPc_ok w (by simp) (by simp)
  | reenter w => exact h.afterPred w
  | markDoing w =>
    simp only [Tbox.C05.step]
    split
    · refine WtInv.setPc_ok ?_ w (by simp) (by simp)
      exact h.of_eq rfl rfl rfl rfl rfl
    · exact h
  | runBody w =>
    simp only [Tbox.C05.step]
    split
    · refine WtInv.setPc_ok ?_ w (by simp) (by simp)
      exact h.of_eq rfl rfl rfl rfl rfl
    · exact h
  | postCb w =>
    simp only [Tbox.C05.step]
    split
    · refine WtInv.setPc_ok ?_ w (by simp) (by simp)
      split
      · exact h.of_eq rfl rfl rfl rfl rfl
      · exact h
    · exact h
  | finish w =>
    simp only [Tbox.C05.step]
    split
    · refine WtInv.setPc_ok ?_ w (by simp) (by simp)
      exact h.of_eq rfl rfl rfl rfl rfl
    · exact h
  | selfRemove w =>
    simp only [valid, Bool.and_eq_true, decide_eq_true_eq] at hv
    exfalso
    have := h.pcs w
    cases hp : s.pc w <;> simp [hp] at hv
    exact this.1 _ hp
  | threadEnd w =>
    simp only [valid, Bool.and_eq_true, decide_eq_true_eq, beq_iff_eq] at hv
    exact absurd hv.2 (h.pcs w).2

theorem WtInv.init (c : Cfg) (he : c.min = c.max) : WtInv (init c) := by
  constructor
  · exact he
  · intro _; simp [Tbox.C05.init]
  · intro hp; simp [Tbox.C05.init] at hp
  · rfl
  · intro w; simp only [Tbox.C05.init]; split <;> simp

theorem WtInv.exec {s : State} (h : WtInv s) (sts : List Step) (s' : State) (he : exec s sts = some s') : WtInv s' := by
  induction sts generalizing s with
  | nil => simp [Tbox.C05.exec] at he; exact he ▸ h
  | cons st sts ih =>
    simp only [Tbox.C05.exec] at he
    split at he
    · rename_i hv; exact ih (h.step st hv) he
    · cases he

end Tbox.C05
