/- C06 — helper lemmas: how a state predicate is carried through callbacks, loop passes and
operation lists (used by every invariant proof). -/
import TboxModel.C06.Spec
namespace Tbox.C06

/-- predicates preserved by the four API calls a callback script can make -/
structure Stable (P : S → Prop) : Prop where
  send : ∀ s d, P s → P (apiSend s d).1
  enable : ∀ s, P s → P (apiEnable s).1
  disable : ∀ s, P s → P (apiDisable s).1
  disconnect : ∀ s, P s → P (disconnect s).1

/-- the usual way to get `Stable`: the raw BufferedFd calls and the `expired` flag -/
theorem Stable.ofRaw {P : S → Prop}
    (hsend : ∀ s d, P s → P (Tbox.C06.send s d).1) (hen : ∀ s, P s → P (Tbox.C06.enable s).1)
    (hdis : ∀ s, P s → P (Tbox.C06.disable s).1) (hexp : ∀ s, P s → P { s with expired := true }) :
    Stable P where
  send s d hs := by unfold apiSend; split; exact hs; exact hsend s d hs
  enable s hs := by unfold apiEnable; split; exact hs; exact hen s hs
  disable s hs := by unfold apiDisable; split; exact hs; exact hdis s hs
  disconnect s hs := by
    unfold Tbox.C06.disconnect; split; exact hs; exact hexp _ (hdis s hs)

theorem Stable.runAct {P} (h : Stable P) (s : S) (a : Act) (hs : P s) : P (runAct s a) := by
  cases a with
  | send d => exact h.send s d hs
  | enable => exact h.enable s hs
  | disable => exact h.disable s hs
  | disconnect => exact h.disconnect s hs

theorem Stable.runActs {P} (h : Stable P) (as : List Act) (s : S) (hs : P s) : P (runActs s as) := by
  unfold Tbox.C06.runActs
  induction as generalizing s with
  | nil => exact hs
  | cons a as ih => exact ih _ (h.runAct s a hs)

theorem Stable.fire {P} (h : Stable P) (s : S) (cb : Option (List Act)) (e : Ev)
    (hs : P s) (he : P { s with hist := s.hist ++ [e] }) : P (fire s cb e) := by
  unfold Tbox.C06.fire
  cases cb with
  | none => exact hs
  | some as => exact h.runActs as _ he

def Ev.isRead : Ev → Bool
  | .recv _ _ | .discard _ | .readZero _ | .readError _ => true
  | _ => false

def Ev.isWrite : Ev → Bool
  | .sendComplete _ | .writeError _ => true
  | _ => false

/-- the predicate does not look at what `onReadCallback` itself changes -/
structure RdFrame (P : S → Prop) : Prop where
  fields : ∀ s pending rq recvQ got taken pres, P s →
    P { s with pending := pending, rq := rq, recvQ := recvQ, got := got, taken := taken, pres := pres }
  ev : ∀ s e, Ev.isRead e = true → P s → P { s with hist := s.hist ++ [e] }
  eofMark : ∀ s, P s → P { s with readOn := false, eofSeen := true }
  closed : ∀ s v, P s → P (socketClosed s v)

/-- the predicate does not look at what `onWriteCallback` itself changes -/
structure WrFrame (P : S → Prop) : Prop where
  fields : ∀ s wq wire sendQ writeArmed, P s →
    P { s with wq := wq, wire := wire, sendQ := sendQ, writeArmed := writeArmed }
  ev : ∀ s e, Ev.isWrite e = true → P s → P { s with hist := s.hist ++ [e] }

theorem presentAny_of_frame {P} (hst : Stable P) (hf : RdFrame P) (s : S) (hs : P s) : P (presentAny s) := by
  unfold presentAny
  split
  · rename_i k as _
    apply hst.runActs
    have h1 := hf.fields s s.pending s.rq (s.recvQ.drop k) s.got (s.taken ++ s.recvQ.take k) s.got.length hs
    exact hf.ev _ (.recv s.recvQ k) rfl h1
  · have h1 := hf.fields s s.pending s.rq [] s.got (s.taken ++ s.recvQ) s.got.length hs
    exact hf.ev _ (.discard s.recvQ) rfl h1

theorem present_of_frame {P} (hst : Stable P) (hf : RdFrame P) (s : S) (hs : P s) : P (present s) := by
  unfold present
  split
  · exact presentAny_of_frame hst hf s hs
  · exact hs

theorem closeTail_of_frame {P} (hst : Stable P) (hf : RdFrame P) (v : Bool) (s : S) (hs : P s) :
    P (closeTail v s) := by
  unfold closeTail
  split
  · exact hf.closed s v hs
  · split
    · exact hst.fire _ _ _ hs (hf.ev _ _ rfl hs)
    · exact hst.fire _ _ _ hs (hf.ev _ _ rfl hs)

theorem flushThen_of_frame {P} (hst : Stable P) (hf : RdFrame P) (k : S → S) (hk : ∀ s, P s → P (k s))
    (s : S) (hs : P s) : P (flushThen s k) := by
  unfold flushThen
  split
  · exact hk s hs
  · simp only
    split
    · exact presentAny_of_frame hst hf s hs
    · exact hk _ (presentAny_of_frame hst hf s hs)

/-- the usual way to get `RdFrame.closed` -/
theorem socketClosed_of {P} (hst : Stable P)
    (hd : ∀ s, P s → P { (Tbox.C06.disable s).1 with expired := true })
    (hev : ∀ s v u, P s → P { s with hist := s.hist ++ [.disconnected v u] }) (s : S) (v : Bool) (hs : P s) :
    P (socketClosed s v) := by
  unfold socketClosed
  have h1 := hd s hs
  exact hst.fire _ _ _ h1 (hev _ _ _ h1)

theorem onRead_of_frame {P} (hst : Stable P) (hf : RdFrame P) (s : S) (hs : P s) : P (onRead s) := by
  unfold onRead
  split
  · rename_i p q _
    exact hf.fields s p q s.recvQ s.got s.taken s.pres hs
  · rename_i p q _
    have h1 := hf.eofMark _ (hf.fields s p q s.recvQ s.got s.taken s.pres hs)
    exact flushThen_of_frame hst hf _ (closeTail_of_frame hst hf false) _ h1
  · rename_i p q _
    have h1 := hf.fields s p q s.recvQ s.got s.taken s.pres hs
    exact flushThen_of_frame hst hf _ (closeTail_of_frame hst hf true) _ h1
  · rename_i d p q _
    exact present_of_frame hst hf _ (hf.fields s p q (s.recvQ ++ d) (s.got ++ d) s.taken s.pres hs)

theorem onWrite_of_frame {P} (hst : Stable P) (hf : WrFrame P) (s : S) (hs : P s) : P (onWrite s) := by
  unfold onWrite
  split
  · have h1 := hf.fields s s.wq s.wire s.sendQ false hs
    exact hst.fire _ _ _ h1 (hf.ev _ _ rfl h1)
  · split
    · rename_i k q _
      exact hf.fields s q (s.wire ++ s.sendQ.take k) (s.sendQ.drop k) s.writeArmed hs
    · rename_i q _
      have h1 := hf.fields s q s.wire s.sendQ s.writeArmed hs
      exact hst.fire _ _ _ h1 (hf.ev _ _ rfl h1)
    · rename_i q _
      have h1 := hf.fields s q s.wire s.sendQ s.writeArmed hs
      exact hst.fire _ _ _ h1 (hf.ev _ _ rfl h1)

/-- everything needed to carry a predicate through one operation; `ok` restricts the operations -/
structure StepFrame (P : S → Prop) (ok : Op → Prop) : Prop where
  stable : Stable P
  onRead : ∀ s, P s → s.readOn = true → P (Tbox.C06.onRead s)
  onWrite : ∀ s, P s → P (Tbox.C06.onWrite s)
  initFd : ∀ s n ev, P s → P (Tbox.C06.initFd s n ev).1
  connFlag : ∀ s, P s → P { s with conn := true }
  setRcb : ∀ s thr cb, ok (.setRcb thr cb) → P s → P { s with thr := thr, rcb := cb }
  cbs : ∀ s scb zcb recb wecb dcb, P s →
    P { s with scb := scb, zcb := zcb, recb := recb, wecb := wecb, dcb := dcb }
  world : ∀ s wq rq wmax eof, P s → P { s with wq := wq, rq := rq, wmax := wmax, eof := eof }
  feed : ∀ s d, P s → P { s with pending := s.pending ++ d, fed := s.fed ++ d }


theorem apiEnable_noconn (s : S) (h : s.conn = false) : apiEnable s = enable s := by
  simp [apiEnable, h]

theorem initFd_conn (s : S) (n : Bool) (ev : Nat) : (initFd s n ev).1.conn = s.conn := by
  unfold initFd; split; rfl; split; rfl; split <;> rfl

theorem step_pres {P ok} (F : StepFrame P ok) (s : S) (op : Op) (hok : ok op) (hs : P s) :
    P (stepOk s op) := by
  unfold stepOk
  split
  · rename_i hin
    cases op with
    | init ev => exact F.initFd s false ev hs
    | initNull => exact F.initFd s true 3 hs
    | cinit =>
        have hc : s.conn = false := by
          simp only [Op.okIn, Bool.and_eq_true, Bool.not_eq_true'] at hin; exact hin.1
        have h1 := F.initFd s false 3 hs
        have h2 := F.stable.enable _ h1
        rw [apiEnable_noconn _ (by rw [initFd_conn]; exact hc)] at h2
        exact F.connFlag _ h2
    | enable => exact F.stable.enable s hs
    | disable => exact F.stable.disable s hs
    | send d => exact F.stable.send s d hs
    | setRcb thr cb =>
        simp only [step, setIfAlive]; split; exact hs; exact F.setRcb s thr cb hok hs
    | setScb cb =>
        simp only [step, setIfAlive]; split; exact hs
        exact F.cbs s cb s.zcb s.recb s.wecb s.dcb hs
    | setZcb cb => exact F.cbs s s.scb cb s.recb s.wecb s.dcb hs
    | setRecb cb => exact F.cbs s s.scb s.zcb cb s.wecb s.dcb hs
    | setWecb cb => exact F.cbs s s.scb s.zcb s.recb cb s.dcb hs
    | setDcb cb => exact F.cbs s s.scb s.zcb s.recb s.wecb cb hs
    | disconnect => exact F.stable.disconnect s hs
    | feed d => exact F.feed s d hs
    | peof => exact F.world s s.wq s.rq s.wmax true hs
    | kw l => exact F.world s (s.wq ++ l) s.rq s.wmax s.eof hs
    | kr l => exact F.world s s.wq (s.rq ++ l) s.wmax s.eof hs
    | wmax k => exact F.world s s.wq s.rq k s.eof hs
    | rd => simp only [step]; split; exact F.onRead s hs (by rename_i h; exact h.1); exact hs
    | wr => simp only [step]; split; exact F.onWrite s hs; exact hs
    | rw =>
        simp only [step]
        by_cases hr : s.readOn = true ∧ (s.pending ≠ [] ∨ s.eof = true)
        · rw [if_pos hr]
          have h1 := F.onRead s hs hr.1
          split; exact F.onWrite _ h1; exact h1
        · rw [if_neg hr]
          split; exact F.onWrite _ hs; exact hs
    | nop => exact hs
  · exact hs

theorem run_pres {P ok} (F : StepFrame P ok) (ops : List Op) (s : S) (hok : ∀ op ∈ ops, ok op)
    (hs : P s) : P (run s ops) := by
  unfold run
  induction ops generalizing s with
  | nil => exact hs
  | cons op ops ih =>
      exact ih _ (fun o ho => hok o (List.mem_cons_of_mem _ ho))
        (step_pres F s op (hok op List.mem_cons_self) hs)

end Tbox.C06
