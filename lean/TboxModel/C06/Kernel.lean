/-
C06 — the kernel side of the stream socket under a BufferedFd / TcpConnection (core Lean only).

Model.lean takes the kernel's answers to `write(2)`/`readv(2)` as oracle inputs and calls `wire`
the bytes `write(2)` accepted.  Accepted is not delivered: the bytes sit in a kernel queue (socket
send queue, in flight, the peer's receive queue) until the peer application reads them, and what
happens to that queue depends on how the descriptor is closed.  This file adds exactly that:

* `kq`       bytes accepted by `write(2)` and not yet read by the peer application;
* `peerRead` the peer application reads at most `k+1` bytes (any pacing = any interleaving of these);
* `close(2)` — performed by the *deferred task* that deletes the BufferedFd of a disconnected
  TcpConnection (`TcpConnection::disconnect()` / `onSocketClosed()`; the task runs at the end of the
  loop pass) — delivers the queue, then EOF; **unless** `SO_LINGER {on, 0}` is set on an AF_INET
  socket, or inbound data is still unread (TCP answers RST; an AF_UNIX socket marks the peer
  ECONNRESET but loses nothing): then the part of the queue that has not reached the peer's receive
  queue yet (oracle `keep`) is discarded and the peer's read ends with ECONNRESET instead of EOF;
* `shutdown(SHUT_WR)` = EOF after the queue; the kernel accepts no byte afterwards (an operation in
  which `write(2)` would accept bytes after shutdown/close is not an execution of the kernel);
* `sys`      the system calls made on the descriptor besides write/readv (M lines of the check):
  `fcntl(F_SETFL, O_NONBLOCK)` by `BufferedFd::initialize`, `shutdown`, `close`, and — only in the
  seeded variant `Cfg.lingerOnDisconnect` — `setsockopt(SO_LINGER)`.
-/
import TboxModel.C06.Model
namespace Tbox.C06.Kern
open Tbox.C06

inductive Sys where
  | nonblock                          -- fcntl(fd, F_SETFL, flags | O_NONBLOCK)
  | linger (on : Bool) (secs : Nat)   -- setsockopt(fd, SOL_SOCKET, SO_LINGER, {on, secs})
  | shutdown (how : Nat)              -- shutdown(fd, how)   (1 = SHUT_WR)
  | close                             -- close(fd)
deriving DecidableEq, Repr

/-- how the peer application's read loop ended -/
inductive PeerEnd where
  | «open» | eof | reset
deriving DecidableEq, Repr

structure Cfg where
  inet : Bool := true                 -- AF_INET stream socket (false: AF_UNIX)
  lingerOnDisconnect : Bool := false  -- variant (not the code): disconnect() sets SO_LINGER {on, 0}
deriving Repr

structure K where
  u : S := {}
  kq : List Byte := []
  peerGot : List Byte := []
  lost : List Byte := []              -- ghost: discarded by an abortive close
  linger0 : Bool := false
  shutWr : Bool := false
  closed : Bool := false
  aborted : Bool := false
  unreadAtClose : Bool := false       -- ghost: close(2) found unread inbound data
  peerEnd : PeerEnd := .open
  sys : List Sys := []
deriving Repr

inductive KOp where
  | user (op : Op) (keep : Nat)       -- an operation of Model.lean; a loop pass ends with the deferred tasks
  | shutWr                            -- TcpConnection::shutdown(SHUT_WR)
  | peerRead (k : Nat)                -- the peer application reads at most k+1 bytes
  | deferred (keep : Nat)             -- a loop pass without events on the descriptor: deferred tasks only
deriving Repr

def isPass : Op → Bool
  | .rd | .wr | .rw => true
  | _ => false

def isInit : Op → Bool
  | .init _ | .cinit => true
  | _ => false

def isDisconnect : Op → Bool
  | .disconnect => true
  | _ => false

/-- the seeded variant: a successful top-level `disconnect()` sets SO_LINGER {on, 0} -/
def lingerNow (cfg : Cfg) (op : Op) (ok : Bool) : Bool := cfg.lingerOnDisconnect && isDisconnect op && ok

/-- the deferred task of `disconnect()` / `onSocketClosed()` deletes the BufferedFd: last reference
to the descriptor, `close(2)` -/
def deferredClose (cfg : Cfg) (k : K) (keep : Nat) : K :=
  if k.u.conn ∧ k.u.expired ∧ ¬ k.closed then
    let unread := !k.u.pending.isEmpty
    let abortive := (k.linger0 && cfg.inet) || unread
    let kept := if cfg.inet then min keep k.kq.length else k.kq.length
    { k with closed := true, aborted := abortive, unreadAtClose := unread,
             kq := if abortive then k.kq.take kept else k.kq,
             lost := if abortive then k.kq.drop kept else [],
             sys := k.sys ++ [.close] }
  else k

/-- `q ++ d` without copying `q` when nothing is appended (most operations write nothing) -/
def appendNew (q d : List Byte) : List Byte :=
  match d with
  | [] => q
  | _ => q ++ d

theorem appendNew_eq (q d : List Byte) : appendNew q d = q ++ d := by
  cases d <;> simp [appendNew]

/-- result of one operation of Model.lean under the kernel: the new state, the API call's return
value, the bytes `write(2)` accepted, and whether the operation was not enabled because `write(2)`
would have accepted bytes after shutdown(SHUT_WR) / close -/
structure UR where
  k : K
  ret : Bool
  delta : List Byte
  refused : Bool

/-- one operation of Model.lean under the kernel; not enabled (no change) when the object does not
offer it, or when `write(2)` would accept bytes after shutdown(SHUT_WR) / close -/
def userStepR (cfg : Cfg) (k : K) (op : Op) (keep : Nat) : UR :=
  if ¬ op.okIn k.u then ⟨k, false, [], false⟩ else
  let r := step k.u op
  let u' := r.1
  let delta := u'.wire.drop k.u.wire.length
  if (k.shutWr ∨ k.closed) ∧ delta ≠ [] then ⟨k, false, [], true⟩ else
  let sys1 := if isInit op ∧ r.2 = true then [Sys.nonblock] else []
  let lg : Bool := lingerNow cfg op r.2
  let sys2 := if lg then [Sys.linger true 0] else []
  let k1 := { k with u := u', kq := appendNew k.kq delta, linger0 := k.linger0 || lg, sys := k.sys ++ sys1 ++ sys2 }
  ⟨if isPass op then deferredClose cfg k1 keep else k1, r.2, delta, false⟩

def userStep (cfg : Cfg) (k : K) (op : Op) (keep : Nat) : K := (userStepR cfg k op keep).k

def kstep (cfg : Cfg) (k : K) : KOp → K
  | .user op keep => userStep cfg k op keep
  | .shutWr =>
      if k.u.conn ∧ ¬ k.u.expired ∧ ¬ k.closed then { k with shutWr := true, sys := k.sys ++ [.shutdown 1] } else k
  | .peerRead n =>
      if k.peerEnd ≠ .open then k
      else if k.kq ≠ [] then { k with peerGot := k.peerGot ++ k.kq.take (n + 1), kq := k.kq.drop (n + 1) }
      else if k.aborted then { k with peerEnd := .reset }
      else if k.closed ∨ k.shutWr then { k with peerEnd := .eof }
      else k
  | .deferred keep => deferredClose cfg k keep

def krun (cfg : Cfg) (k : K) (ops : List KOp) : K := ops.foldl (kstep cfg) k

def kinit : K := {}

end Tbox.C06.Kern
