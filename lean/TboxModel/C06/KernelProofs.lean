/- C06 — helper lemmas for the kernel-queue model (Kernel.lean): `write(2)` only ever appends to
`wire`, and the invariant `KInv` with its preservation by every `KOp`. -/
import TboxModel.C06.Kernel
import TboxModel.C06.ProofsSend
namespace Tbox.C06.Kern
open Tbox.C06

/-! ### a step of Model.lean only appends to `wire` -/

def WPre (w0 : List Byte) (s : S) : Prop := ∃ t, s.wire = w0 ++ t

theorem wpre_send (w0 : List Byte) (s : S) (d : List Byte) (hs : WPre w0 s) : WPre w0 (send s d).1 := by
  obtain ⟨t, ht⟩ := hs
  unfold send
  split
  · exact ⟨t, ht⟩
  · simp only
    split
    · exact ⟨t, ht⟩
    · split
      · rename_i k q _
        exact ⟨t ++ d.take k, by simp [ht, List.append_assoc]⟩
      · exact ⟨t, ht⟩
      · split <;> exact ⟨t, ht⟩

theorem wpre_enable (w0 : List Byte) (s : S) (hs : WPre w0 s) : WPre w0 (enable s).1 := by
  unfold enable; split; exact hs; split <;> exact hs

theorem wpre_disable (w0 : List Byte) (s : S) (hs : WPre w0 s) : WPre w0 (disable s).1 := by
  unfold disable; split; exact hs; split <;> exact hs

theorem wpre_stable (w0 : List Byte) : Stable (WPre w0) :=
  Stable.ofRaw (wpre_send w0) (wpre_enable w0) (wpre_disable w0) (fun _ hs => hs)

theorem wpre_rdFrame (w0 : List Byte) : RdFrame (WPre w0) where
  fields _ _ _ _ _ _ _ hs := hs
  ev _ _ _ hs := hs
  eofMark _ hs := hs
  closed s v hs :=
    socketClosed_of (wpre_stable w0) (fun s hs => wpre_disable w0 s hs) (fun _ _ _ hs => hs) s v hs

theorem wpre_onWrite (w0 : List Byte) (s : S) (hs : WPre w0 s) : WPre w0 (onWrite s) := by
  obtain ⟨t, ht⟩ := hs
  unfold onWrite
  split
  · exact (wpre_stable w0).fire _ _ _ ⟨t, ht⟩ ⟨t, ht⟩
  · split
    · rename_i k q _
      exact ⟨t ++ s.sendQ.take k, by simp [ht, List.append_assoc]⟩
    · exact (wpre_stable w0).fire _ _ _ ⟨t, ht⟩ ⟨t, ht⟩
    · exact (wpre_stable w0).fire _ _ _ ⟨t, ht⟩ ⟨t, ht⟩

theorem wpre_initFd (w0 : List Byte) (s : S) (n : Bool) (ev : Nat) (hs : WPre w0 s) : WPre w0 (initFd s n ev).1 := by
  unfold initFd; split; exact hs; split; exact hs; split <;> exact hs

theorem wpre_frame (w0 : List Byte) : StepFrame (WPre w0) (fun _ => True) where
  stable := wpre_stable w0
  onRead s hs _ := onRead_of_frame (wpre_stable w0) (wpre_rdFrame w0) s hs
  onWrite := wpre_onWrite w0
  initFd := wpre_initFd w0
  connFlag _ hs := hs
  setRcb _ _ _ _ hs := hs
  cbs _ _ _ _ _ _ hs := hs
  world _ _ _ _ _ hs := hs
  feed _ _ hs := hs

/-- one operation appends (possibly nothing) to `wire` -/
theorem step_wire_append (s : S) (op : Op) (h : op.okIn s = true) :
    ∃ t, (step s op).1.wire = s.wire ++ t ∧ (step s op).1.wire.drop s.wire.length = t := by
  have h1 : WPre s.wire (stepOk s op) := step_pres (wpre_frame s.wire) s op trivial ⟨[], by simp⟩
  unfold stepOk at h1
  rw [if_pos h] at h1
  obtain ⟨t, ht⟩ := h1
  exact ⟨t, ht, by rw [ht]; simp⟩

/-! ### the invariant -/

structure KInv (cfg : Cfg) (k : K) : Prop where
  stream : k.peerGot ++ k.kq ++ k.lost = k.u.wire
  lostAb : k.aborted = false → k.lost = []
  abCl : k.aborted = true → k.closed = true
  abWhy : k.aborted = true → (k.linger0 = true ∧ cfg.inet = true) ∨ k.unreadAtClose = true
  unixKeeps : cfg.inet = false → k.lost = []
  eofOk : k.peerEnd = .eof → k.kq = [] ∧ k.lost = [] ∧ (k.closed = true ∨ k.shutWr = true)
  resetOk : k.peerEnd = .reset → k.aborted = true
  lingerCfg : cfg.lingerOnDisconnect = false → k.linger0 = false ∧ ∀ a b, Sys.linger a b ∉ k.sys
  reach : ∃ uops, k.u = run init uops

theorem kinv_init (cfg : Cfg) : KInv cfg kinit where
  stream := rfl
  lostAb _ := rfl
  abCl h := by cases h
  abWhy h := by cases h
  unixKeeps _ := rfl
  eofOk h := by cases h
  resetOk h := by cases h
  lingerCfg _ := ⟨rfl, fun _ _ h => by cases h⟩
  reach := ⟨[], rfl⟩

theorem kinv_deferredClose (cfg : Cfg) (k : K) (keep : Nat) (h : KInv cfg k) : KInv cfg (deferredClose cfg k keep) := by
  unfold deferredClose
  split
  · rename_i hc
    have hncl : k.closed = false := by simpa using hc.2.2
    have hnab : k.aborted = false := by
      cases hab : k.aborted with
      | false => rfl
      | true => have := h.abCl hab; rw [hncl] at this; cases this
    have hlost : k.lost = [] := h.lostAb hnab
    have hstream : k.peerGot ++ k.kq = k.u.wire := by have := h.stream; rwa [hlost, List.append_nil] at this
    refine ⟨?_, ?_, fun _ => rfl, ?_, ?_, ?_, ?_, ?_, h.reach⟩
    · -- stream
      simp only
      split
      · rw [List.append_assoc, List.take_append_drop]; exact hstream
      · rw [List.append_nil]; exact hstream
    · intro hab; simp only at hab ⊢; rw [if_neg (by rw [hab]; simp)]
    · intro hab
      simp only at hab ⊢
      cases hu : (!k.u.pending.isEmpty) with
      | true => exact .inr (by simp)
      | false =>
          rw [hu, Bool.or_false, Bool.and_eq_true] at hab
          exact .inl hab
    · intro hi
      simp only
      split
      · simp [hi]
      · rfl
    · intro he
      have := h.eofOk he
      simp only at he ⊢
      refine ⟨?_, ?_, .inl (by simp)⟩
      · split <;> simp [this.1]
      · split <;> simp [this.1]
    · intro hr
      have hab := h.resetOk hr
      rw [hnab] at hab; cases hab
    · intro hl
      have := h.lingerCfg hl
      refine ⟨this.1, ?_⟩
      intro a b hm
      simp only at hm
      rcases List.mem_append.mp hm with hm | hm
      · exact this.2 a b hm
      · simp at hm
  · exact h

theorem run_snoc (s : S) (ops : List Op) (op : Op) : run s (ops ++ [op]) = stepOk (run s ops) op := by
  simp [run, List.foldl_append]

theorem kinv_userStep (cfg : Cfg) (k : K) (op : Op) (keep : Nat) (h : KInv cfg k) : KInv cfg (userStep cfg k op keep) := by
  unfold userStep userStepR
  split
  · exact h
  · rename_i hok
    have hok' : op.okIn k.u = true := by simpa using hok
    simp only
    split
    · exact h
    · rename_i hg
      obtain ⟨t, happ, hdrop⟩ := step_wire_append k.u op hok'
      rw [hdrop] at hg ⊢
      rw [appendNew_eq]
      -- the state before the deferred tasks
      have h1 : KInv cfg
          { k with u := (step k.u op).1, kq := k.kq ++ t,
                   linger0 := k.linger0 || lingerNow cfg op (step k.u op).2,
                   sys := k.sys ++ (if isInit op ∧ (step k.u op).2 = true then [Sys.nonblock] else []) ++
                          (if lingerNow cfg op (step k.u op).2 = true then [Sys.linger true 0] else []) } := by
        refine ⟨?_, h.lostAb, h.abCl, ?_, h.unixKeeps, ?_, h.resetOk, ?_, ?_⟩
        · show k.peerGot ++ (k.kq ++ t) ++ k.lost = (step k.u op).1.wire
          rw [happ]
          have hs := h.stream
          by_cases hd : t = []
          · rw [hd, List.append_nil, List.append_nil]; exact hs
          · -- bytes were accepted: nothing is lost yet (not closed)
            have hncl : ¬ (k.shutWr = true ∨ k.closed = true) := fun hc => hg ⟨hc, hd⟩
            have hnab : k.aborted = false := by
              cases hab : k.aborted with
              | false => rfl
              | true => exact absurd (.inr (h.abCl hab)) hncl
            rw [h.lostAb hnab, List.append_nil] at hs ⊢
            rw [← hs, List.append_assoc]
        · intro hab
          rcases h.abWhy hab with hl | hu
          · refine .inl ⟨?_, hl.2⟩
            show (k.linger0 || _) = true
            rw [hl.1]; rfl
          · exact .inr hu
        · intro he
          have := h.eofOk he
          have hd : t = [] := by
            cases hdd : t with
            | nil => rfl
            | cons a l =>
                exfalso
                apply hg
                refine ⟨?_, by rw [hdd]; simp⟩
                rcases this.2.2 with hc | hc
                · exact .inr hc
                · exact .inl hc
          refine ⟨by show k.kq ++ t = []; rw [hd, this.1]; rfl, this.2.1, this.2.2⟩
        · intro hl
          have := h.lingerCfg hl
          have hno : lingerNow cfg op (step k.u op).2 = false := by simp [lingerNow, hl]
          refine ⟨by show (k.linger0 || _) = false; rw [hno, this.1]; rfl, ?_⟩
          intro a b hm
          simp only [hno, Bool.false_eq_true, if_false, List.append_nil] at hm
          rcases List.mem_append.mp hm with hm | hm
          · exact this.2 a b hm
          · split at hm
            · simp at hm
            · cases hm
        · obtain ⟨uops, hu⟩ := h.reach
          refine ⟨uops ++ [op], ?_⟩
          show (step k.u op).1 = _
          rw [run_snoc, ← hu]; unfold stepOk; rw [if_pos hok']
      split
      · exact kinv_deferredClose cfg _ keep h1
      · exact h1

theorem kinv_kstep (cfg : Cfg) (k : K) (op : KOp) (h : KInv cfg k) : KInv cfg (kstep cfg k op) := by
  cases op with
  | user op keep => exact kinv_userStep cfg k op keep h
  | deferred keep => exact kinv_deferredClose cfg k keep h
  | shutWr =>
      simp only [kstep]
      split
      · refine ⟨h.stream, h.lostAb, h.abCl, h.abWhy, h.unixKeeps, ?_, h.resetOk, ?_, h.reach⟩
        · intro he; have := h.eofOk he; exact ⟨this.1, this.2.1, .inr rfl⟩
        · intro hl
          have := h.lingerCfg hl
          refine ⟨this.1, fun a b hm => ?_⟩
          rcases List.mem_append.mp hm with hm | hm
          · exact this.2 a b hm
          · simp at hm
      · exact h
  | peerRead n =>
      simp only [kstep]
      split
      · exact h
      · rename_i hopen
        have hopen' : k.peerEnd = .open := by simpa using hopen
        split
        · refine ⟨?_, h.lostAb, h.abCl, h.abWhy, h.unixKeeps, ?_, ?_, h.lingerCfg, h.reach⟩
          · show k.peerGot ++ k.kq.take (n + 1) ++ k.kq.drop (n + 1) ++ k.lost = _
            rw [List.append_assoc k.peerGot, List.take_append_drop]; exact h.stream
          · intro he; simp only at he; rw [hopen'] at he; cases he
          · intro he; simp only at he; rw [hopen'] at he; cases he
        · rename_i hq
          have hq' : k.kq = [] := by simpa using hq
          split
          · rename_i hab
            exact ⟨h.stream, h.lostAb, h.abCl, h.abWhy, h.unixKeeps, (fun he => by cases he), fun _ => hab, h.lingerCfg, h.reach⟩
          · rename_i hab
            have hab' : k.aborted = false := by simpa using hab
            split
            · rename_i hc
              exact ⟨h.stream, h.lostAb, h.abCl, h.abWhy, h.unixKeeps, fun _ => ⟨hq', h.lostAb hab', hc⟩,
                     (fun he => by cases he), h.lingerCfg, h.reach⟩
            · exact h

theorem kinv_krun (cfg : Cfg) (ops : List KOp) (k : K) (h : KInv cfg k) : KInv cfg (krun cfg k ops) := by
  unfold krun
  induction ops generalizing k with
  | nil => exact h
  | cons op ops ih => exact ih _ (kinv_kstep cfg k op h)

/-! ### the peer drains the queue -/

theorem krun_append (cfg : Cfg) (k : K) (a b : List KOp) : krun cfg k (a ++ b) = krun cfg (krun cfg k a) b := by
  simp [krun, List.foldl_append]

/-- reads of at least one byte each: after as many reads as bytes are queued the queue is empty,
everything queued has been handed to the peer application in order, nothing else changed -/
theorem drain_reads (cfg : Cfg) : ∀ (q : List Byte) (k : K), k.kq = q → k.peerEnd = .open →
    krun cfg k (List.replicate q.length (.peerRead 0)) = { k with peerGot := k.peerGot ++ q, kq := [] } := by
  intro q
  induction q with
  | nil => intro k hq _; cases k; simp only at hq; subst hq; simp [krun]
  | cons a q ih =>
      intro k hq ho
      have hstep : kstep cfg k (.peerRead 0) = { k with peerGot := k.peerGot ++ [a], kq := q } := by
        simp [kstep, ho, hq]
      simp only [List.length_cons, List.replicate_succ, krun, List.foldl_cons]
      rw [hstep]
      have := ih { k with peerGot := k.peerGot ++ [a], kq := q } rfl ho
      unfold krun at this
      rw [this]
      simp

end Tbox.C06.Kern
