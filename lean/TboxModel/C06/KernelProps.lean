/-
C06 — PROPERTY THEOREMS about the kernel side (statements rely on Model.lean / Kernel.lean only;
helper lemmas live in KernelProofs.lean).

"Bytes handed to a … TCP connection for sending reach the peer exactly once, complete and in order
… however slowly the peer reads (… full kernel buffers …) … every point at which either side
closes."  Model.lean proves this up to `write(2)`: `wire ++ sendQ = kept`.  Here the last leg:
what `write(2)` accepted sits in a kernel queue until the peer application reads it, and the
descriptor is closed by the deferred task behind `TcpConnection::disconnect()` (used by
`TcpServer::disconnect()`, `TcpServer::stop()`, `TcpClient::stop()`) or `onSocketClosed()`.

Every theorem quantifies over every list of `KOp`: every operation list of Model.lean (API calls,
callback scripts, every accept / EAGAIN / error pattern of `write`, every read chunking, peer
writes and half-close at any point), interleaved in any way with peer reads of any size (= every
pacing of the peer), `shutdown(SHUT_WR)` and loop passes that run the deferred tasks, every `keep`
oracle of an abortive close, AF_INET and AF_UNIX.
-/
import TboxModel.C06.KernelProofs
import TboxModel.C06.Props
namespace Tbox.C06.Kern
open Tbox.C06

/-- **C06_kernel_stream.** At every point: what the peer application has read, followed by what
the kernel still holds for it, followed by what an abortive close discarded, is exactly what
`write(2)` accepted, in order — nothing duplicated or reordered by the kernel leg; and without an
abortive close nothing is discarded. -/
theorem C06_kernel_stream (cfg : Cfg) (ops : List KOp) :
    let k := krun cfg kinit ops
    k.peerGot ++ k.kq ++ k.lost = k.u.wire ∧ (k.aborted = false → k.lost = []) := by
  have h := kinv_krun cfg ops kinit (kinv_init cfg)
  exact ⟨h.stream, h.lostAb⟩

-- OPEN (full statement, false on AF_INET — see `C06_close_unread_inbound_counterexample` below):
--   theorem C06_active_close_delivers (inet) (ops) : let k := krun { inet := inet } kinit ops
--     k.lost = [] ∧ k.peerEnd ≠ .reset ∧ (k.peerEnd = .eof → k.peerGot = k.u.wire ∧ …)
-- proved with the decidable extra hypothesis `k.unreadAtClose = false` (no inbound data unread at the close):
/-- **C06_active_close_delivers_partial.** The code as it is (it never sets SO_LINGER), AF_INET or
AF_UNIX, every history: no `setsockopt(SO_LINGER)` is ever issued; if the close did not find unread
inbound data, nothing is discarded and the peer's read loop never ends with a reset; and when it
ends with EOF the peer application has read exactly the bytes `write(2)` accepted, in order — which,
when the user disconnected (or the server / client was stopped) with nothing left in `send_buff_`
(i.e. after the send-complete notification, `C06_send_complete_only_when_empty`), are exactly the
bytes handed to `send` calls that returned true (`sentAll`), whatever errors `write(2)` answered on
the way (patches/C06-09). -/
theorem C06_active_close_delivers_partial (inet : Bool) (ops : List KOp) :
    let k := krun { inet := inet } kinit ops
    (∀ a b, Sys.linger a b ∉ k.sys) ∧
    (k.unreadAtClose = false → k.aborted = false ∧ k.lost = [] ∧ k.peerEnd ≠ .reset) ∧
    (k.peerEnd = .eof → k.peerGot = k.u.wire ∧ (k.u.sendQ = [] → k.peerGot = k.u.sentAll)) := by
  intro k
  have h : KInv { inet := inet } k := kinv_krun _ ops kinit (kinv_init _)
  have hl := h.lingerCfg rfl
  refine ⟨hl.2, ?_, ?_⟩
  · intro hu
    have hab : k.aborted = false := by
      cases hab : k.aborted with
      | false => rfl
      | true =>
          rcases h.abWhy hab with hw | hw
          · rw [hl.1] at hw; cases hw.1
          · rw [hu] at hw; cases hw
    refine ⟨hab, h.lostAb hab, ?_⟩
    intro hr; have := h.resetOk hr; rw [hab] at this; cases this
  · intro he
    have hE := h.eofOk he
    have hw : k.peerGot = k.u.wire := by
      have := h.stream; rw [hE.1, hE.2.1] at this; simpa using this
    refine ⟨hw, ?_⟩
    intro hq
    obtain ⟨uops, hu⟩ := h.reach
    have hs := C06_send_stream uops
    rw [← hu] at hs
    have := hs.1
    rw [hq, List.append_nil] at this
    rw [hw, this]

/-- the user-space object under the kernel model is a reachable state of Model.lean, so every
theorem of Props.lean holds of it (used above for `C06_send_stream`) -/
theorem C06_kernel_over_model (cfg : Cfg) (ops : List KOp) : ∃ uops, (krun cfg kinit ops).u = run init uops :=
  (kinv_krun cfg ops kinit (kinv_init cfg)).reach

/-- **C06_peer_reads_to_eof** (progress of the last leg).  After a graceful close or a
`shutdown(SHUT_WR)` the peer, reading at least one byte at a time, gets the whole queue in order and
then EOF — after exactly as many reads as bytes were queued, plus one. -/
theorem C06_peer_reads_to_eof (cfg : Cfg) (k : K) (ho : k.peerEnd = .open) (hab : k.aborted = false)
    (hc : k.closed = true ∨ k.shutWr = true) :
    krun cfg k (List.replicate (k.kq.length + 1) (.peerRead 0)) =
      { k with peerGot := k.peerGot ++ k.kq, kq := [], peerEnd := .eof } := by
  rw [List.replicate_succ', krun_append, drain_reads cfg k.kq k rfl ho]
  simp [krun, kstep, ho, hab, hc]

/-- **C06_abortive_close_resets.** After an abortive close the peer gets the part of the queue
that had reached it, then a reset — never EOF: the loss is not silent on the peer's side. -/
theorem C06_abortive_close_resets (cfg : Cfg) (k : K) (ho : k.peerEnd = .open) (hab : k.aborted = true) :
    krun cfg k (List.replicate (k.kq.length + 1) (.peerRead 0)) =
      { k with peerGot := k.peerGot ++ k.kq, kq := [], peerEnd := .reset } := by
  rw [List.replicate_succ', krun_append, drain_reads cfg k.kq k rfl ho]
  simp [krun, kstep, ho, hab]

/-- **C06_unix_close_keeps_queue.** On an AF_UNIX socket no close discards anything (SO_LINGER has
no effect there; unread inbound data only turns the peer's EOF into ECONNRESET). -/
theorem C06_unix_close_keeps_queue (l : Bool) (ops : List KOp) :
    (krun { inet := false, lingerOnDisconnect := l } kinit ops).lost = [] :=
  (kinv_krun _ ops kinit (kinv_init _)).unixKeeps rfl

/-- **C06_linger_close_counterexample** (the seeded variant: `disconnect()` sets SO_LINGER {on, 0}).
The user does everything right — sends three bytes, the kernel accepts them, send-complete is
reported with nothing outstanding, then `disconnect()` — and the peer, which had not read yet, gets
a reset and none of the bytes. -/
theorem C06_linger_close_counterexample :
    let k := krun { lingerOnDisconnect := true } kinit
      [.user .cinit 0, .user (.setScb (some [])) 0, .user (.send [1, 2, 3]) 0, .user .wr 0,
       .user .disconnect 0, .deferred 0, .peerRead 9]
    k.u.hist = [.sendComplete 0] ∧ k.u.sentAll = [1, 2, 3] ∧ k.u.sendQ = [] ∧ k.unreadAtClose = false ∧
    k.peerGot = [] ∧ k.lost = [1, 2, 3] ∧ k.peerEnd = .reset ∧ k.sys = [.nonblock, .linger true 0, .close] := by
  decide

/-- the same history under the code as it is: everything arrives, then EOF -/
example :
    let k := krun {} kinit
      [.user .cinit 0, .user (.setScb (some [])) 0, .user (.send [1, 2, 3]) 0, .user .wr 0,
       .user .disconnect 0, .deferred 0, .peerRead 9, .peerRead 9]
    k.u.hist = [.sendComplete 0] ∧ k.peerGot = [1, 2, 3] ∧ k.lost = [] ∧ k.peerEnd = .eof ∧
    k.sys = [.nonblock, .close] := by
  decide

-- the full statement ("every point at which either side closes", i.e. without `unreadAtClose = false`)
-- is false of the code on AF_INET:
/-- **C06_close_unread_inbound_counterexample.** The code as it is, AF_INET: the peer has written a
byte that was not read yet when the user — after send-complete — disconnects.  `close(2)` with
unread inbound data answers RST: the part of the queue that had not reached the peer (here: all but
one byte) is discarded and the peer's read ends with ECONNRESET. -/
theorem C06_close_unread_inbound_counterexample :
    let k := krun {} kinit
      [.user .cinit 0, .user (.setScb (some [])) 0, .user (.send [1, 2, 3]) 0, .user .wr 0,
       .user (.feed [9]) 0, .user .disconnect 0, .deferred 1, .peerRead 9, .peerRead 9]
    k.u.hist = [.sendComplete 0] ∧ k.u.sendQ = [] ∧ k.unreadAtClose = true ∧
    k.peerGot = [1] ∧ k.lost = [2, 3] ∧ k.peerEnd = .reset := by
  decide

/-! ## widths (tools/narrowing/C06.txt: buffered_fd.cpp:158, :221, :224, :292)

The four implicit conversions are `ssize_t → size_t` of a `write`/`readv` return value.  The model
carries counts as `Nat` (`WAns.accept k`, chunk lengths) because every one of them sits behind a sign
guard in the code (`wsize >= 0`, `rsize > 0`) and is bounded by the byte count offered, itself the
size of a real buffer (< 2^63).  These lemmas state the range in which the 64-bit conversion /
modular subtraction equals the mathematical one, and what it would be outside. -/

/-- :224 `hasWritten(rsize)`, :292 `hasRead(wsize)`: a non-negative `ssize_t` converts to the same
number -/
theorem C06_width_cast (r : Int) (h0 : 0 ≤ r) (h1 : r < 2 ^ 63) : (r % 2 ^ 64).toNat = r.toNat := by
  omega

/-- :158 `data_size - wsize`, :221 `rsize - writable_size`: for `0 ≤ w ≤ n < 2^64` the modular
difference of the converted operands is `n - w` -/
theorem C06_width_remainder (n w : Nat) (hn : n < 2 ^ 64) (hw : w ≤ n) :
    (n + (2 ^ 64 - w % 2 ^ 64)) % 2 ^ 64 = n - w := by
  omega

/-- outside the range: `-1` (what `write`/`readv` return on failure) converts to 2^64 - 1 — the code
never converts it (both uses are inside the `>= 0` / `> 0` branches), and the model's answers
`eagain` / `err` carry no count at all -/
theorem C06_width_negative_cast_counterexample : ((-1 : Int) % 2 ^ 64).toNat = 2 ^ 64 - 1 := by
  decide

example : (5 + (2 ^ 64 - 3 % 2 ^ 64)) % 2 ^ 64 = 2 := by decide

/-! ## non-vacuity -/

/-- partial accepts, a slow peer interleaved with the writes, stop after send-complete: the
hypotheses of `C06_active_close_delivers_partial` (`unreadAtClose = false`, `peerEnd = eof`, `sendQ = []`)
are met and the peer has everything -/
example :
    let k := krun {} kinit
      [.user .cinit 0, .user (.setScb (some [.disconnect])) 0, .user (.kw [⟨none, .accept 1⟩, ⟨some .cb, .err 4⟩, ⟨none, .eagain⟩, ⟨none, .accept 1⟩]) 0,
       .user (.send [1, 2, 3]) 0, .peerRead 0, .user .wr 0, .user .wr 0, .user .wr 0, .user .wr 0, .peerRead 0, .user .wr 0,
       .peerRead 5, .peerRead 5]
    k.unreadAtClose = false ∧ k.peerEnd = .eof ∧ k.u.sendQ = [] ∧ k.u.drops = 0 ∧ k.closed = true ∧
    k.peerGot = [1, 2, 3] ∧ k.u.hist = [.sendComplete 0] := by
  decide

/-- shutdown(SHUT_WR): EOF after the queue, the descriptor stays open for reading -/
example :
    let k := krun {} kinit [.user .cinit 0, .user (.send [7, 8]) 0, .shutWr, .peerRead 0, .peerRead 0, .peerRead 0]
    k.peerGot = [7, 8] ∧ k.peerEnd = .eof ∧ k.closed = false ∧ k.sys = [.nonblock, .shutdown 1] := by
  decide

/-- the peer closes first (EOF read by the connection): the same deferred task closes the descriptor
at the end of that loop pass -/
example :
    let k := krun {} kinit [.user .cinit 0, .user (.send [7]) 0, .user .peof 0, .user .rd 0, .peerRead 3, .peerRead 3]
    k.u.expired = true ∧ k.closed = true ∧ k.aborted = false ∧ k.peerGot = [7] ∧ k.peerEnd = .eof := by
  decide

end Tbox.C06.Kern
