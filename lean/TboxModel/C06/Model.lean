/-
C06 — model of `tbox::network::BufferedFd` (modules/network/buffered_fd.{h,cpp}) and of the
`TcpConnection` wrapper (modules/network/tcp_connection.cpp), with patches/C06-01 (`enable()` arms
the write event when bytes are queued), C06-02 (bytes still buffered are presented before read-zero /
a read error is reported), C06-03 (read-zero is reported once, the read event is then off), C06-09
(`send()` keeps the payload queued on a transient write error and returns false on a lasting one
instead of dropping it and returning true) and C06-10 (EINTR from `readv` is not a read error).
`enableOld`, `onReadOld`, `runOld` are the code as found before C06-01..03, `sendOld` before C06-09,
`firstReadOld` before C06-10.

* `send_buff_` / `recv_buff_` are the FIFO byte queues of C07 (`List Byte`, oldest first):
  `append` = `++`, `hasRead n` = `drop n`, `hasReadAll` = `[]` (C07_refines_fifo).
* The kernel is an oracle.  Every `write(2)` on the descriptor pops one `WAns`
  (`accept k` | EAGAIN | any other errno), every `readv(2)` one `RAns` (a chunk of what is pending,
  "fill to the buffer boundary and drain", EAGAIN, EINTR, error).  The code calls `write` at two
  sites - directly in `send()` and in the write-ready callback; an answer may be addressed to one
  site (`WEnt.site`), then the other site's writes pass it by: the two sites are scheduled
  separately.  An empty answer queue (or one with nothing for this site) means the natural answer (write: accept `wmax` bytes at most / everything; read: everything pending).
  The answers are pushed by operations (`kw`, `kr`), so a theorem over all operation lists
  is a theorem over all kernel behaviours.  `pending`/`eof` is the inbound direction (bytes the
  peer wrote and whether it then closed), `wire` what the peer has received.
* Which event a loop pass delivers is an operation too (`rd`, `wr`): readable is delivered
  only when the read event is enabled and the descriptor is readable (bytes pending or EOF),
  writable only when the write event is armed.
* User callbacks are scripts: the receive callback consumes `k` bytes and then performs a list
  of API calls; the other callbacks perform a list of API calls.
* Ghost fields (`sentAll kept drops fed got taken pres hist`) record the history the property
  speaks about; no transition reads them.
-/
namespace Tbox.C06

abbrev Byte := UInt8

inductive St where
  | empty | inited | running
deriving DecidableEq, Repr

/-- the kernel's answer to one `write(fd, p, n)` -/
inductive WAns where
  | accept (k : Nat)     -- min k n bytes are taken
  | eagain
  | err (code : Nat)     -- -1 with any other errno: EINTR 4, ENOMEM 12, ENOBUFS 105 (transient); EPIPE 32, ECONNRESET 104, EIO 5
deriving DecidableEq, Repr

/-- the two places where the code calls `write(2)` on the descriptor -/
inductive Site where
  | send                 -- buffered_fd.cpp `BufferedFd::send`: the direct write
  | cb                   -- buffered_fd.cpp `BufferedFd::onWriteCallback`: the write-ready callback
deriving DecidableEq, Repr

/-- an entry of the kernel's answer queue: for the next `write` of either site, or of one site only -/
structure WEnt where
  site : Option Site := none
  ans : WAns
deriving DecidableEq, Repr

/-- errno values after which the same `write` may succeed later although nothing changed on the
connection: EINTR, EAGAIN (= EWOULDBLOCK), ENOMEM, ENOBUFS -/
def transientErr (code : Nat) : Bool := code == 4 || code == 11 || code == 12 || code == 105

/-- the kernel's answer to one `readv(fd, …)` -/
inductive RAns where
  | chunk (k : Nat)      -- k+1 bytes of what is pending (0 / EAGAIN when nothing is pending)
  | fill                 -- as many bytes as end exactly at / just behind the buffer boundary; the
                         -- rest of this callback's reads are natural (so everything pending is read)
  | eagain
  | eintr                -- -1 / EINTR: nothing was read, nothing is wrong with the connection
  | err                  -- ECONNRESET
deriving DecidableEq, Repr

/-- an API call made from inside a user callback -/
inductive Act where
  | send (d : List Byte)
  | enable
  | disable
  | disconnect           -- TcpConnection only
deriving DecidableEq, Repr

/-- user-visible events, with ghost snapshots taken at the moment of the callback -/
inductive Ev where
  | recv (p : List Byte) (k : Nat)     -- receive_cb_(buffer = p); the callback consumed k bytes
  | discard (p : List Byte)            -- no receive callback set: p dropped with a warning
  | sendComplete (outstanding : Nat)   -- ghost: bytes accepted by send() and not yet on the wire
  | readZero (unpresented : Nat)       -- ghost: bytes the peer wrote that were never presented
  | readError (code : Nat)
  | writeError (code : Nat)
  | disconnected (viaError : Bool) (unpresented : Nat)   -- TcpConnection's disconnected callback
  | sendDrop (d : List Byte)           -- not a callback: `send` dropped d on a write error, returned true
deriving DecidableEq, Repr

structure S where
  -- BufferedFd
  st : St := .empty
  hasRd : Bool := false             -- sp_read_event_ != nullptr
  hasWr : Bool := false             -- sp_write_event_ != nullptr
  readOn : Bool := false            -- read event enabled
  writeArmed : Bool := false        -- write event enabled
  sendQ : List Byte := []
  recvQ : List Byte := []
  thr : Nat := 0                    -- receive_threshold_
  eofSeen : Bool := false           -- is_read_eof_: read-zero has been reported
  rcb : Option (Nat × List Act) := none
  scb : Option (List Act) := none   -- send complete
  zcb : Option (List Act) := none   -- read zero
  recb : Option (List Act) := none  -- read error
  wecb : Option (List Act) := none  -- write error
  -- TcpConnection wrapper
  conn : Bool := false
  expired : Bool := false           -- sp_buffered_fd_ == nullptr
  dcb : Option (List Act) := none   -- disconnected callback
  -- the world
  wire : List Byte := []
  pending : List Byte := []
  eof : Bool := false
  wq : List WEnt := []
  rq : List RAns := []
  wmax : Nat := 0
  -- ghosts
  sentAll : List Byte := []         -- all bytes passed to send() calls that returned true
  kept : List Byte := []            -- the same without the payloads dropped on a write error
  drops : Nat := 0
  fed : List Byte := []             -- all bytes the peer wrote
  got : List Byte := []             -- all bytes read from the kernel
  taken : List Byte := []           -- bytes removed from recv_buff_ (consumed by the callback / discarded)
  pres : Nat := 0                   -- how many bytes of `got` have been presented
  hist : List Ev := []
deriving Repr

/-! ### the kernel oracle -/

/-- the first queued answer that is for this site (or for either), taken out of the queue -/
def popAt (site : Site) : List WEnt → Option (WAns × List WEnt)
  | [] => none
  | e :: q =>
      if e.site = none ∨ e.site = some site then some (e.ans, q)
      else
        match popAt site q with
        | some (a, q') => some (a, e :: q')
        | none => none

/-- next answer to a `write` of `n` bytes made at `site` -/
def popW (s : S) (site : Site) (n : Nat) : WAns × List WEnt :=
  match popAt site s.wq with
  | some r => r
  | none => (.accept (if s.wmax = 0 then n else min s.wmax n), s.wq)

/-- the reads of the `do … while (readv > 0)` loop: returns (bytes read, still pending, answers left) -/
def readLoop : List Byte → List RAns → List Byte → List Byte × List Byte × List RAns
  | pend, [], acc => (acc ++ pend, [], [])
  | pend, .eagain :: q, acc => (acc, pend, q)
  | pend, .eintr :: q, acc => (acc, pend, q)
  | pend, .err :: q, acc => (acc, pend, q)          -- a failure after data is ignored by the code
  | pend, .fill :: q, acc => (acc ++ pend, [], q)
  | pend, .chunk k :: q, acc =>
      if pend = [] then (acc, pend, q) else readLoop (pend.drop (k + 1)) q (acc ++ pend.take (k + 1))

inductive RRes where
  | data (d : List Byte)
  | zero
  | again
  | error
deriving DecidableEq, Repr

def emptyRes (eof : Bool) : RRes := if eof then .zero else .again

/-- the first `readv` of `onReadCallback` and, when it returned data, the loop behind it -/
def firstRead (pend : List Byte) (eof : Bool) : List RAns → RRes × List Byte × List RAns
  | [] => if pend = [] then (emptyRes eof, pend, []) else (.data pend, [], [])
  | .eagain :: q => (.again, pend, q)
  | .eintr :: q => (.again, pend, q)          -- patches/C06-10: the level-triggered read event fires again
  | .err :: q => (.error, pend, q)
  | .fill :: q => if pend = [] then (emptyRes eof, pend, q) else (.data pend, [], q)
  | .chunk k :: q =>
      if pend = [] then (emptyRes eof, pend, q)
      else
        let r := readLoop (pend.drop (k + 1)) q (pend.take (k + 1))
        (.data r.1, r.2.1, r.2.2)

/-- the first `readv` as found: every errno but EAGAIN is a read error, EINTR included -/
def firstReadOld (pend : List Byte) (eof : Bool) : List RAns → RRes × List Byte × List RAns
  | .eintr :: q => (.error, pend, q)
  | l => firstRead pend eof l

/-! ### one `readv` into (writable space of `recv_buff_`, 1 KiB `extbuf`) — buffered_fd.cpp:189-231

`readv` fills `iov[0]` (the `w` writable bytes of the receive buffer) first and `iov[1]` (`extbuf`)
with what is left.  The code then either marks `rsize` bytes written (`rsize ≤ w`), or marks the
whole writable space written and appends `rsize - w` bytes of `extbuf`.  Model.lean itself works
on the FIFO view (`recvQ ++ d`); these definitions spell the two-part landing out so that
`C06_spill_keeps_order` can say that the FIFO view is right for every `w` and every count. -/

def extbufSize : Nat := 1024

/-- where the `rsize = d.length` bytes of one `readv` land: (in the writable space, in `extbuf`) -/
def landReadv (w : Nat) (d : List Byte) : List Byte × List Byte := (d.take w, d.drop w)

/-- the receive queue after the code has accounted for one `readv` that returned `d` -/
def afterReadv (q : List Byte) (w : Nat) (d : List Byte) : List Byte :=
  let l := landReadv w d
  if d.length > w then
    -- hasWritten(writable_size); remain_size = rsize - writable_size; append(extbuf, remain_size)
    (q ++ l.1) ++ l.2.take (d.length - w)
  else
    -- hasWritten(rsize)
    q ++ l.1.take d.length

/-! ### BufferedFd -/

/-- `initialize(fd, events)`; `nullFd` = the descriptor passed is null -/
def initFd (s : S) (nullFd : Bool) (ev : Nat) : S × Bool :=
  if nullFd then (s, false)
  else if ev = 0 then (s, false)
  else if s.st ≠ .empty then (s, false)
  else ({ s with st := .inited, hasRd := ev % 2 = 1, hasWr := ev / 2 % 2 = 1 }, true)

/-- `enable()` with patches/C06-01 (queued bytes arm the write event) and C06-03 (no read event after EOF) -/
def enable (s : S) : S × Bool :=
  if s.st = .running then (s, true)
  else if s.st ≠ .inited then (s, false)
  else
    ({ s with st := .running, readOn := s.hasRd && !s.eofSeen,
              writeArmed := if s.hasWr ∧ s.sendQ ≠ [] then true else s.writeArmed }, true)

/-- `enable()` as found: the write event is left alone -/
def enableOld (s : S) : S × Bool :=
  if s.st = .running then (s, true)
  else if s.st ≠ .inited then (s, false)
  else ({ s with st := .running, readOn := s.hasRd }, true)

/-- `disable()` -/
def disable (s : S) : S × Bool :=
  if s.st = .inited then (s, true)
  else if s.st ≠ .running then (s, false)
  else ({ s with st := .inited, readOn := false, writeArmed := false }, true)

/-- `send(data, size)` with patches/C06-09: whatever `write` answers, a `send` that returns true has
either written the payload or queued it (a transient errno is retried by the write event like EAGAIN);
after a lasting error nothing is accepted and the caller is told (false) -/
def send (s : S) (d : List Byte) : S × Bool :=
  if s.hasWr = false then (s, false)
  else
    let s1 := { s with sentAll := s.sentAll ++ d }
    if s.st ≠ .running ∨ s.sendQ ≠ [] then
      ({ s1 with sendQ := s.sendQ ++ d, kept := s.kept ++ d }, true)
    else
      match popW s .send d.length with
      | (.accept k, q) =>
          ({ s1 with wq := q, wire := s.wire ++ d.take k, sendQ := d.drop k, kept := s.kept ++ d,
                     writeArmed := true }, true)
      | (.eagain, q) =>
          ({ s1 with wq := q, sendQ := d, kept := s.kept ++ d, writeArmed := true }, true)
      | (.err c, q) =>
          if transientErr c then
            ({ s1 with wq := q, sendQ := d, kept := s.kept ++ d, writeArmed := true }, true)
          else ({ s with wq := q }, false)

/-- `send(data, size)` as found: every errno but EAGAIN drops the payload with a log line, and the
call still returns true -/
def sendOld (s : S) (d : List Byte) : S × Bool :=
  if s.hasWr = false then (s, false)
  else
    let s1 := { s with sentAll := s.sentAll ++ d }
    if s.st ≠ .running ∨ s.sendQ ≠ [] then
      ({ s1 with sendQ := s.sendQ ++ d, kept := s.kept ++ d }, true)
    else
      match popW s .send d.length with
      | (.accept k, q) =>
          ({ s1 with wq := q, wire := s.wire ++ d.take k, sendQ := d.drop k, kept := s.kept ++ d,
                     writeArmed := true }, true)
      | (.eagain, q) =>
          ({ s1 with wq := q, sendQ := d, kept := s.kept ++ d, writeArmed := true }, true)
      | (.err _, q) =>
          ({ s1 with wq := q, drops := s.drops + 1, hist := s.hist ++ [.sendDrop d] }, true)

/-! ### TcpConnection wrapper (forwarding while the buffered descriptor exists) -/

/-- `TcpConnection::disconnect()`: disable, give up the buffered descriptor (deleted by a deferred task) -/
def disconnect (s : S) : S × Bool :=
  if s.conn = false ∨ s.expired then (s, false)
  else ({ (disable s).1 with expired := true }, true)

/-- what `send` means for the object under test -/
def apiSend (s : S) (d : List Byte) : S × Bool :=
  if s.conn ∧ s.expired then (s, false) else send s d

def apiEnable (s : S) : S × Bool := if s.conn then (s, false) else enable s
def apiDisable (s : S) : S × Bool := if s.conn then (s, false) else disable s

def runAct (s : S) : Act → S
  | .send d => (apiSend s d).1
  | .enable => (apiEnable s).1
  | .disable => (apiDisable s).1
  | .disconnect => (disconnect s).1

def runActs (s : S) (as : List Act) : S := as.foldl runAct s

/-- run a user callback if it is set: record the event, then perform its script -/
def fire (s : S) (cb : Option (List Act)) (e : Ev) : S :=
  match cb with
  | none => s
  | some as => runActs { s with hist := s.hist ++ [e] } as

def unpresented (s : S) : Nat := s.fed.length - s.pres

/-- `TcpConnection::onSocketClosed()` (read-zero and read-error both end here) -/
def socketClosed (s : S) (viaErr : Bool) : S :=
  let u := unpresented s
  let s1 := { (disable s).1 with expired := true }
  fire s1 s1.dcb (.disconnected viaErr u)

/-- the `deliver` step of `onReadCallback`: the whole receive buffer goes to the receive callback
(consumes `k`, then its script) or, when none is set, is dropped with a warning -/
def presentAny (s : S) : S :=
  match s.rcb with
  | some (k, as) =>
      let p := s.recvQ
      runActs { s with hist := s.hist ++ [.recv p k], recvQ := p.drop k, taken := s.taken ++ p.take k,
                       pres := s.got.length } as
  | none =>
      { s with hist := s.hist ++ [.discard s.recvQ], taken := s.taken ++ s.recvQ, recvQ := [],
               pres := s.got.length }

/-- the tail of `onReadCallback` after data was appended to `recv_buff_` -/
def present (s : S) : S :=
  if s.thr ≤ s.recvQ.length then presentAny s else s

/-- report the end of the stream: TcpConnection's `onSocketClosed`, or the user's read-zero /
read-error callback -/
def closeTail (viaErr : Bool) (s : S) : S :=
  if s.conn then socketClosed s viaErr
  else if viaErr then fire s s.recb (.readError 104)
  else fire s s.zcb (.readZero (unpresented s))

/-- patches/C06-02: before the end of the stream is reported, what is still buffered is
delivered whatever the threshold; if that callback disabled the object nothing more is reported -/
def flushThen (s : S) (k : S → S) : S :=
  if s.recvQ = [] then k s
  else
    let s2 := presentAny s
    if s2.st ≠ .running then s2 else k s2

/-- `onReadCallback` -/
def onRead (s : S) : S :=
  match firstRead s.pending s.eof s.rq with
  | (.again, p, q) => { s with pending := p, rq := q }
  | (.zero, p, q) =>
      -- patches/C06-03: remember EOF, stop watching the read event
      flushThen { s with pending := p, rq := q, readOn := false, eofSeen := true } (closeTail false)
  | (.error, p, q) =>
      flushThen { s with pending := p, rq := q } (closeTail true)
  | (.data d, p, q) =>
      present { s with pending := p, rq := q, recvQ := s.recvQ ++ d, got := s.got ++ d }

/-- `onReadCallback` as found: below-threshold bytes stay unpresented, read-zero repeats -/
def onReadOld (s : S) : S :=
  match firstReadOld s.pending s.eof s.rq with
  | (.again, p, q) => { s with pending := p, rq := q }
  | (.zero, p, q) => closeTail false { s with pending := p, rq := q }
  | (.error, p, q) => closeTail true { s with pending := p, rq := q }
  | (.data d, p, q) =>
      present { s with pending := p, rq := q, recvQ := s.recvQ ++ d, got := s.got ++ d }

/-- `onWriteCallback` -/
def onWrite (s : S) : S :=
  if s.sendQ = [] then
    let s := { s with writeArmed := false }
    fire s s.scb (.sendComplete (s.kept.length - s.wire.length))
  else
    match popW s .cb s.sendQ.length with
    | (.accept k, q) => { s with wq := q, wire := s.wire ++ s.sendQ.take k, sendQ := s.sendQ.drop k }
    | (.eagain, q) => let s := { s with wq := q }; fire s s.wecb (.writeError 11)
    | (.err c, q) => let s := { s with wq := q }; fire s s.wecb (.writeError c)

/-- a variant that is NOT the code (the seeded change C06-5): the error branch of `onWriteCallback`
switches the write event off, whatever the errno -/
def onWriteDisarm (s : S) : S :=
  if s.sendQ = [] then
    let s := { s with writeArmed := false }
    fire s s.scb (.sendComplete (s.kept.length - s.wire.length))
  else
    match popW s .cb s.sendQ.length with
    | (.accept k, q) => { s with wq := q, wire := s.wire ++ s.sendQ.take k, sendQ := s.sendQ.drop k }
    | (.eagain, q) => let s := { s with wq := q, writeArmed := false }; fire s s.wecb (.writeError 11)
    | (.err c, q) => let s := { s with wq := q, writeArmed := false }; fire s s.wecb (.writeError c)

/-! ### operations -/

inductive Op where
  | init (ev : Nat)                       -- initialize(fd, ev)
  | initNull                              -- initialize(Fd(), kReadWrite)
  | cinit                                 -- construct a TcpConnection on the descriptor (initialize + enable)
  | enable
  | disable
  | send (d : List Byte)
  | setRcb (thr : Nat) (cb : Option (Nat × List Act))
  | setScb (cb : Option (List Act))
  | setZcb (cb : Option (List Act))
  | setRecb (cb : Option (List Act))
  | setWecb (cb : Option (List Act))
  | setDcb (cb : Option (List Act))
  | disconnect
  | feed (d : List Byte)                  -- the peer writes d
  | peof                                  -- the peer shuts down its sending side
  | kw (l : List WEnt)                    -- the kernel's next answers to write (per site or for either)
  | kr (l : List RAns)                    -- the kernel's next answers to readv
  | wmax (k : Nat)                        -- natural writes accept at most k bytes (0 = everything)
  | rd                                    -- a loop pass that reports the descriptor readable
  | wr                                    -- a loop pass that reports the descriptor writable
  | rw                                    -- a loop pass that reports both (one epoll dispatch: read event first)
  | nop                                   -- shrink buffers / change the natural read chunk: no observable effect
deriving Repr

/-- most bytes that may sit unread in the socket (the harness uses a real socket pair) -/
def pendingMax : Nat := 65536

def Act.okIn (conn : Bool) : Act → Bool
  | .send _ => true
  | .enable => !conn
  | .disable => !conn
  | .disconnect => conn

def scriptOk (conn : Bool) : Option (List Act) → Bool
  | none => true
  | some as => as.all (Act.okIn conn)

/-- operations that exist for the object under test in this state (others are answered `bad-op`) -/
def Op.okIn (s : S) : Op → Bool
  | .init _ => !s.conn
  | .initNull => !s.conn
  | .cinit => !s.conn && s.st == .empty
  | .enable => !s.conn
  | .disable => !s.conn
  | .send _ => true
  | .setRcb _ cb => scriptOk s.conn (cb.map (·.2))
  | .setScb cb => scriptOk s.conn cb
  | .setZcb cb => !s.conn && scriptOk s.conn cb
  | .setRecb cb => !s.conn && scriptOk s.conn cb
  | .setWecb cb => !s.conn && scriptOk s.conn cb
  | .setDcb cb => s.conn && scriptOk s.conn cb
  | .disconnect => s.conn
  | .feed d => !s.eof && s.pending.length + d.length ≤ pendingMax
  | _ => true

/-- the callback setters of `TcpConnection` do nothing once the buffered descriptor is gone -/
def setIfAlive (s : S) (f : S → S) : S := if s.conn ∧ s.expired then s else f s

def step (s : S) : Op → S × Bool
  | .init ev => initFd s false ev
  | .initNull => initFd s true 3
  | .cinit =>
      let s1 := (initFd s false 3).1
      ({ (enable s1).1 with conn := true }, true)
  | .enable => apiEnable s
  | .disable => apiDisable s
  | .send d => apiSend s d
  | .setRcb thr cb => (setIfAlive s fun s => { s with thr := thr, rcb := cb }, true)
  | .setScb cb => (setIfAlive s fun s => { s with scb := cb }, true)
  | .setZcb cb => ({ s with zcb := cb }, true)
  | .setRecb cb => ({ s with recb := cb }, true)
  | .setWecb cb => ({ s with wecb := cb }, true)
  | .setDcb cb => ({ s with dcb := cb }, true)
  | .disconnect => disconnect s
  | .feed d => ({ s with pending := s.pending ++ d, fed := s.fed ++ d }, true)
  | .peof => ({ s with eof := true }, true)
  | .kw l => ({ s with wq := s.wq ++ l }, true)
  | .kr l => ({ s with rq := s.rq ++ l }, true)
  | .wmax k => ({ s with wmax := k }, true)
  | .rd => (if s.readOn ∧ (s.pending ≠ [] ∨ s.eof) then onRead s else s, true)
  | .wr => (if s.writeArmed then onWrite s else s, true)
  | .rw =>
      -- EpollFdEvent::OnEventCallback: the events subscribed when the dispatch starts are called in
      -- subscription order (read was enabled before write), each only if it is still subscribed
      let w := s.writeArmed
      let s1 := if s.readOn ∧ (s.pending ≠ [] ∨ s.eof) then onRead s else s
      (if w ∧ s1.writeArmed then onWrite s1 else s1, true)
  | .nop => (s, true)

/-- an operation the object does not offer in this state leaves everything unchanged -/
def stepOk (s : S) (op : Op) : S := if op.okIn s then (step s op).1 else s

def run (s : S) (ops : List Op) : S := ops.foldl stepOk s

def init : S := {}

/-! ### the code as found (before patches/C06-01..03): `enable` and `onReadCallback` differ -/

def stepOld (s : S) : Op → S × Bool
  | .enable => if s.conn then (s, false) else enableOld s
  | .rd => (if s.readOn ∧ (s.pending ≠ [] ∨ s.eof) then onReadOld s else s, true)
  | .rw =>
      let w := s.writeArmed
      let s1 := if s.readOn ∧ (s.pending ≠ [] ∨ s.eof) then onReadOld s else s
      (if w ∧ s1.writeArmed then onWrite s1 else s1, true)
  | op => step s op

def runOld (s : S) (ops : List Op) : S :=
  ops.foldl (fun s op => if op.okIn s then (stepOld s op).1 else s) s

end Tbox.C06
