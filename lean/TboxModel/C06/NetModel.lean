/-
C06 — model of the TCP plumbing above TcpConnection: `TcpServer` (connection table keyed by
cabinet tokens), `TcpClient` (None/Inited/Connecting/Connected, auto-reconnect), `TcpConnector`
(connect, retry timer, try limit, failure callback) and `TcpAcceptor` (one accept per readable
event), with patches/C06-04 (TcpServer::stop() defers the deletion of its connections) and
C06-05 (TcpConnector is back in Inited before it calls the connect-fail callback).

A TcpConnection is used through what C06 proves about it (Props.lean): its byte stream is
lossless and ordered, it reports the close once and nothing afterwards.  So a link between a
client end and the server is: open/closed flags for both ends, the bytes sent before the server
accepted (`held`), and messages in flight.  The kernel is a FIFO queue `q` of pending
notifications (connect completed, listening socket readable, data, EOF); `drain` handles them
until nothing is left — the harness runs loop passes until quiescence after every operation.
Virtual time only moves with `adv`; the bare connector's retry delays come from a user table
(`setReconnectDelayCalcFunc`, seconds per failure count, 1 by default and beyond the table; a zero delay makes the
retry fire in the next `handleExpiredTimers`, see `fireAll`; the delay function may call stop(), cleanup() or stop() + start() of its
own connector: `dAct`, `dRe`).  User callbacks are scripts (stop / start / disconnect this
connection / send on this connection).  Ghosts: `hist` (callbacks and API marks), `alive`/`freed`
(TcpConnection objects), `busy` (the object whose disconnected callback is executing), `uaf`
(an object was deleted while its own callback was executing, or a deleted timer was dereferenced:
only the code as found does that).
-/
namespace Tbox.C06.Net

abbrev Byte := UInt8

inductive SvSt where | none | inited | running deriving DecidableEq, Repr
inductive ClSt where | none | inited | connecting | connected deriving DecidableEq, Repr
inductive KnSt where | none | inited | delay | connecting deriving DecidableEq, Repr

inductive Act where
  | stop | start | disc | send (d : List Byte)
  | cleanup                 -- cleanup() of the object the callback belongs to
  | shut                    -- shutdown(SHUT_WR) of this connection
  | more (d : List Byte)    -- send d if the send-more budget is not used up (send-complete callbacks that send more)
deriving DecidableEq, Repr
abbrev Script := List Act

/-- who holds the client end of a link -/
inductive Who where
  | cl (i : Nat) | kn | raw
deriving DecidableEq, Repr

inductive Kind where
  | connected | recv (d : List Byte) | sendComplete | disconnected
deriving DecidableEq, Repr

inductive Ev where
  | sv (tok : Nat) (k : Kind)            -- TcpServer callback for token index `tok`
  | cl (i : Nat) (l : Nat) (k : Kind)    -- TcpClient i callback, its connection is link l
  | knConnected | knFailed               -- bare TcpConnector callbacks
  | svStart | svStop                     -- API marks (ghost)
  | clStart (i : Nat) | clStop (i : Nat)
  | knStart | knStop
deriving DecidableEq, Repr

inductive Msg where
  | writable (w : Who)       -- a connector's socket became writable: connect completed
  | accept                   -- the listening socket is readable
  | toS (l : Nat) (d : List Byte) | toC (l : Nat) (d : List Byte)
  | sentS (l : Nat) | sentC (l : Nat)   -- the write event after a send: send-complete
  | eofS (l : Nat) | eofC (l : Nat)     -- the other end was closed
deriving DecidableEq, Repr

/-- descriptors the loop watches: the listening socket, the server end / the client end of a link -/
inductive Fd where
  | listen | s (l : Nat) | c (l : Nat)
  | k (l : Nat)      -- the connector's registration of a connecting socket (removed when the connect completes)
deriving DecidableEq, Repr

/-- whose callback is running: the server's for token t, client i's, the bare connector's -/
inductive Ctx where
  | sv (t : Nat) | cl (i : Nat) | kn
deriving DecidableEq, Repr

structure Link where
  who : Who
  cOpen : Bool := true
  sOpen : Bool := true
  tok : Option Nat := none
  held : List Byte := []
  cShut : Bool := false     -- shutdown(SHUT_WR) was called on the client end / the server end
  sShut : Bool := false
  cLate : Bool := false     -- this end's TcpConnection gave up its descriptor, close(2) pending until the end of the current loop pass
  sLate : Bool := false
  rst : Bool := false       -- the listening socket was closed with this link still in its backlog: the client end's SO_ERROR is ECONNRESET
deriving Repr

/-- TcpConnector -/
structure Cn where
  st : KnSt := .none
  tries : Nat := 0
  fails : Nat := 0
  pend : Option Nat := none         -- link being connected (write event armed)
  deadline : Option Nat := none     -- retry timer
  seq : Nat := 0                    -- when the timer was armed (order among equal deadlines)
  dAct : Option (Nat × Bool) := none  -- the user's delay function calls stop() (false) / cleanup() (true) of its connector when asked about this failure count
  dRe : Bool := false               -- … and, after its stop(), start() again (the connect() of that start() is refused at once)
  delays : List Nat := []           -- setReconnectDelayCalcFunc: seconds to wait after the k-th failure (k = 1, 2, …); beyond the table and by default: 1
deriving Repr

/-- `reconn_delay_calc_func_(conn_fail_times_)`, in seconds: the user's table, the default `[](int){return 1;}` beyond it -/
def Cn.delayOf (c : Cn) (k : Nat) : Nat := c.delays.getD (k - 1) 1

structure Client where
  st : ClSt := .none
  reconnect : Bool := true
  cn : Cn := {}
  link : Option Nat := none
  sConn : Script := []
  sDisc : Script := []
  sRecv : Script := []
  sSc : Script := []
deriving Repr

structure Server where
  st : SvSt := .none
  table : List (Nat × Nat) := []    -- live (token index, link)
  issued : Nat := 0
  sConn : Script := []
  sDisc : Script := []
  sRecv : Script := []
  sSc : Script := []
deriving Repr

structure N where
  sv : Server := {}
  c0 : Client := {}
  c1 : Client := {}
  kn : Cn := {}
  knFail : Script := []
  knConn : Script := []
  links : List Link := []
  listening : Bool := false
  backlog : List Nat := []
  q : List Msg := []                  -- notifications the current loop pass is serving
  qn : List Msg := []                 -- notifications for the next pass
  qlate : List Msg := []              -- caused by deferred tasks (connection objects deleted, sockets closed at the end of a pass)
  lastFds : List Fd := []             -- epoll's ready list: the descriptors the last pass reported, then the ones woken since
  now : Nat := 0
  tick : Nat := 0
  rawLink : Option Nat := none
  rawHold : Bool := false
  rawGot : List Byte := []
  rawEof : Bool := false
  rawHeld : List Byte := []           -- arrived while the raw peer was not reading
  rawEofHeld : Bool := false
  hist : List Ev := []
  alive : List (Nat × Bool) := []     -- TcpConnection objects (link, server side?)
  freed : List (Nat × Bool) := []
  busy : Option (Nat × Bool) := none
  inCb : Option (Ctx × Nat) := none   -- the user callback that is executing (which: 0 connected 1 disconnected 2 receive 3 send-complete)
  budget : Nat := 0                   -- how many more `more` sends the callbacks may make
  sockFail : Nat := 0                 -- the next socket() / accept() calls fail with EMFILE, the next connects fail late
  acceptFail : Nat := 0
  lateFail : Nat := 0
  connFail : Nat := 0                 -- the next connect() calls fail at once (ECONNREFUSED)
  acceptAbort : Nat := 0              -- the next accept() calls fail with ECONNABORTED: the pending connection is gone
  uaf : Bool := false
deriving Repr

/-- `fix` = patches/C06-04 and C06-05 applied -/
structure Cfg where
  fix : Bool := true      -- C06-04, C06-05, C06-11
  fix2 : Bool := true     -- C06-06, C06-07: cleanup() from inside a callback
  fix3 : Bool := true     -- C06-08: socket() failure is a failed attempt

def N.client (n : N) (i : Nat) : Client := if i = 0 then n.c0 else if i = 1 then n.c1 else {}
def N.setClient (n : N) (i : Nat) (c : Client) : N :=
  if i = 0 then { n with c0 := c } else if i = 1 then { n with c1 := c } else n
def N.link (n : N) (l : Nat) : Link := n.links.getD l { who := .raw, cOpen := false, sOpen := false }
def N.setLink (n : N) (l : Nat) (k : Link) : N := { n with links := n.links.set l k }
def N.cn (n : N) : Who → Cn
  | .cl i => (n.client i).cn
  | _ => n.kn
def N.setCn (n : N) (w : Who) (c : Cn) : N :=
  match w with
  | .cl i => n.setClient i { n.client i with cn := c }
  | _ => { n with kn := c }

def Msg.isSent : Msg → Bool
  | .sentC _ | .sentS _ => true
  | _ => false

/-- the descriptor a notification is reported on -/
def Msg.fd (n : N) : Msg → Fd
  | .accept => .listen
  | .toS l _ | .sentS l | .eofS l => .s l
  | .toC l _ | .sentC l | .eofC l => .c l
  | .writable w => match (n.cn w).pend with | some l => .k l | none => .listen

/-- is the descriptor in the epoll set (does a wake-up put it on the ready list)? -/
def N.registered (n : N) : Fd → Bool
  | .listen => true
  | .k _ => true
  | .s l => (n.link l).tok.isSome && n.alive.contains (l, true)
  | .c l => match (n.link l).who with
      | .cl _ => n.alive.contains (l, false)
      | _ => true

/-- a wake-up: the descriptor goes to the tail of epoll's ready list unless it is already on it -/
def N.wake (n : N) (f : Fd) : N :=
  if n.registered f && !n.lastFds.contains f then { n with lastFds := n.lastFds ++ [f] } else n

/-- a descriptor was just added to the epoll set: if something is pending on it, it is ready at once -/
def N.wakeIfPending (n : N) (f : Fd) : N :=
  if n.qn.any (fun m => m.fd n == f) then n.wake f else n

/-- bytes written to one socket within one loop pass are read by the peer in one go -/
def mergeData (q : List Msg) (m : Msg) : Option (List Msg) :=
  match m with
  | .toS l d =>
      if q.any (fun x => match x with | .toS l' _ => l' = l | _ => false) then
        some (q.map fun x => match x with | .toS l' d0 => if l' = l then .toS l' (d0 ++ d) else x | _ => x)
      else none
  | .toC l d =>
      if q.any (fun x => match x with | .toC l' _ => l' = l | _ => false) then
        some (q.map fun x => match x with | .toC l' d0 => if l' = l then .toC l' (d0 ++ d) else x | _ => x)
      else none
  -- several sends before the next pass arm the write event once: one send-complete
  | .sentS _ => if q.contains m then some q else none
  | .sentC _ => if q.contains m then some q else none
  | _ => none

def N.push (n : N) (m : Msg) : N :=
  ({ n with qn := (mergeData n.qn m).getD (n.qn ++ [m]) }).wake (m.fd n)
def N.pushLate (n : N) (m : Msg) : N := { n with qlate := n.qlate ++ [m] }
def N.ev (n : N) (e : Ev) : N := { n with hist := n.hist ++ [e] }
/-- delete a TcpConnection object; deleting the one whose callback is executing is the defect -/
def N.free (n : N) (o : Nat × Bool) (deferred : Bool) : N :=
  { n with alive := n.alive.erase o, freed := n.freed ++ [o],
           uaf := n.uaf || (!deferred && n.busy == some o) }

/-- the server-side connection of link l is disconnected: its socket is closed when the deferred task
deletes the buffered descriptor, at the end of the loop pass -/
def N.closeS (n : N) (l : Nat) : N :=
  let k := n.link l
  if k.sOpen then
    let n := n.setLink l { k with sOpen := false, sLate := true }
    if k.cOpen then n.pushLate (.eofC l) else n
  else n

/-- the same for the client-side connection of link l -/
def N.closeC (n : N) (l : Nat) : N :=
  let k := n.link l
  if k.cOpen then
    let n := n.setLink l { k with cOpen := false, cLate := true }
    if k.sOpen ∧ k.tok.isSome then n.pushLate (.eofS l) else n
  else n

/-- the listening socket is closed with link l still in its backlog: reset at once -/
def N.closeSNow (n : N) (l : Nat) : N :=
  let k := n.link l
  if k.sOpen then
    let n := n.setLink l { k with sOpen := false }
    if k.cOpen then n.push (.eofC l) else n
  else n

/-- … and the kernel marks the client end of that link as reset: a connector whose write event has not been served yet
reads ECONNRESET from SO_ERROR (a failed attempt); a connection already handed to its owner reads the end of the stream -/
def N.markRst (n : N) (l : Nat) : N := n.setLink l { n.link l with rst := true }

/-- a socket closed directly (connector giving up, raw peer) -/
def N.closeCNow (n : N) (l : Nat) : N :=
  let k := n.link l
  if k.cOpen then
    let n := n.setLink l { k with cOpen := false }
    if k.sOpen ∧ k.tok.isSome then n.push (.eofS l) else n
  else n

/-- the end of a loop pass: the deferred tasks ran, the descriptors given up during the pass are closed -/
def N.endPass (n : N) : N := { n with links := n.links.map fun k => { k with cLate := false, sLate := false } }

def backlogMax : Nat := 8

/-! ### TcpConnector -/

/-- `TcpConnector::stop()` -/
def cnStop (n : N) (w : Who) : N :=
  let c := n.cn w
  match c.st with
  | .connecting =>
      let n := match c.pend with | some l => n.closeCNow l | none => n
      n.setCn w { c with st := .inited, pend := none }
  | .delay =>
      -- exitReconnectDelayState dereferences the timer: it is gone while the code as found runs the
      -- failure callback after a retry (state still Delay)
      let n := if c.deadline.isNone then { n with uaf := true } else n
      n.setCn w { c with st := .inited, deadline := none }
  | _ => n

/-- `TcpConnector::cleanup()` of the bare connector -/
def knCleanup (n : N) : N :=
  if n.kn.st = .none then n
  else
    let n := cnStop n .kn
    { n with kn := { n.kn with st := .none, tries := 0, fails := 0, delays := [], dAct := none, dRe := false } }

/-- the failure branch of `enterConnectingState` / `onConnectFail`; returns true when the failure
callback has to be called (try limit reached) -/
def cnFail (cfg : Cfg) (n : N) (w : Who) : N × Bool :=
  let c := n.cn w
  let c := { c with fails := c.fails + 1, pend := none }
  if c.tries > 0 ∧ c.fails ≥ c.tries then
    -- as found the state is left as it was (Delay without a timer, or Inited) while the callback runs
    (n.setCn w (if cfg.fix then { c with st := .inited } else c), true)
  else
    -- enterReconnectDelayState: `std::chrono::seconds(delay_sec)`, a one-shot timer (exact for every 0 ≤ delay_sec ≤ INT_MAX:
    -- the conversion to milliseconds is done in 64 bits)
    let armed : N := { (n.setCn w { c with st := .delay, deadline := some (n.now + 1000 * c.delayOf c.fails), seq := n.tick }) with tick := n.tick + 1 }
    match w, c.dAct with
    | .kn, some (k, cl) =>
        if k = c.fails then
          if cfg.fix then
            -- C06-11: the timer object exists and the state is Delay while the user's function runs; its stop() / cleanup()
            -- ends this wait, nothing is armed afterwards
            (if cl then knCleanup armed
             else if c.dRe then
               -- stop(); start(): the wait is over, a new series begins; its connect() is refused at once, so this is the
               -- first failure of the new series (not the limit: `tries ≠ 1` on this branch) and the function is asked again
               -- (about failure 1: no call back, `k ≥ 2` for a function that restarts): the timer of the new series is armed
               -- for `delayOf 1`.  Back in the outer call the timer is no longer the one it made: nothing more is done.
               let s := ((cnStop armed .kn).ev .knStop).ev .knStart
               { s with kn := { s.kn with fails := 1, pend := none, st := .delay, deadline := some (s.now + 1000 * s.kn.delayOf 1), seq := s.tick },
                        tick := s.tick + 1,
                        -- (a socket() that fails with EMFILE is a failed attempt just the same, C06-08)
                        sockFail := s.sockFail - 1 }
             else (cnStop armed .kn).ev .knStop, false)
          else
            -- as found the function runs first, in the state the failure came from, with no timer object (after a retry) and
            -- no write event (after a late failure): stop() dereferences the null pointer; and whatever it did, the timer
            -- is armed and the state set to Delay afterwards
            ({ armed with uaf := armed.uaf || (n.cn w).st != .inited }, false)
        else (armed, false)
    | _, _ => (armed, false)

/-- `enterConnectingState` -/
def cnEnter (cfg : Cfg) (n : N) (w : Who) : N × Bool :=
  if n.sockFail > 0 then
    -- socket() fails (EMFILE).  C06-08: a failed attempt like any other; as found: return, nothing changes
    let n := { n with sockFail := n.sockFail - 1 }
    if cfg.fix3 then cnFail cfg n w else (n, false)
  else if n.connFail > 0 then
    -- connect() fails at once (ECONNREFUSED): onConnectFail()
    cnFail cfg { n with connFail := n.connFail - 1 } w
  else if n.listening ∧ n.backlog.length ≤ backlogMax then
    let l := n.links.length
    let n := { n with links := n.links ++ [({ who := w } : Link)], backlog := n.backlog ++ [l] }
    let n := n.setCn w { n.cn w with st := .connecting, pend := some l }
    -- connect() wakes the listening socket; the connector then registers its write event
    ((n.push .accept).push (.writable w), false)
  else cnFail cfg n w

/-! ### TcpServer -/

def svLookup (n : N) (t : Nat) : Option Nat := (n.sv.table.find? (·.1 = t)).map (·.2)

def svSend (n : N) (t : Nat) (_d : List Byte) : N × Bool :=
  match svLookup n t with
  | none => (n, false)
  | some l =>
      -- inside its disconnected callback the connection has already given up its descriptor
      if n.busy = some (l, true) then (n, false) else
      -- an empty payload still arms the write event (send-complete) but nothing arrives
      -- after shutdown(SHUT_WR) / towards a closed peer the write fails: not accepted, no write event
      -- (a peer that gave up its descriptor earlier in this pass is still open: the write succeeds)
      -- (patches/C06-09: EPIPE is a lasting error, `send` returns false)
      (if ((n.link l).cOpen ∨ (n.link l).cLate) ∧ ¬ (n.link l).sShut then (if _d = [] then n else n.push (.toC l _d)).push (.sentS l) else n,
       decide (((n.link l).cOpen ∨ (n.link l).cLate) ∧ ¬ (n.link l).sShut))

def svDisconnect (n : N) (t : Nat) : N × Bool :=
  match svLookup n t with
  | none => (n, false)
  | some l =>
      let n := { n with sv := { n.sv with table := n.sv.table.filter (·.1 ≠ t) } }
      ((n.closeS l).free (l, true) true, true)

/-- `TcpServer::stop()`: every connection is disconnected and deleted (C06-04: by a deferred task) -/
def svStop (cfg : Cfg) (n : N) : N :=
  if n.sv.st ≠ .running then n
  else
    let n := n.sv.table.foldl (fun n e => (n.closeS e.2).free (e.2, true) cfg.fix) n
    ({ n with sv := { n.sv with table := [], st := .inited } }).ev .svStop

/-! ### TcpClient -/

def clSend (n : N) (i : Nat) (d : List Byte) : N × Bool :=
  let c := n.client i
  match c.st, c.link with
  | .connected, some l =>
      -- after shutdown(SHUT_WR) / towards a closed peer the write fails with EPIPE: refused (patches/C06-09)
      (if ((n.link l).sOpen ∨ (n.link l).sLate) ∧ ¬ (n.link l).cShut then (if d = [] then n else n.push (.toS l d)).push (.sentC l) else n,
       decide (((n.link l).sOpen ∨ (n.link l).sLate) ∧ ¬ (n.link l).cShut))
  | _, _ => (n, false)

def clStart (cfg : Cfg) (n : N) (i : Nat) : N × Bool :=
  let c := n.client i
  if c.st ≠ .inited then (n, false)
  else
    -- `d_->state = kConnecting; return sp_connector->start();`
    let n := (n.setClient i { c with st := .connecting }).ev (.clStart i)
    if c.cn.st ≠ .inited then (n, false)
    else
      let n := n.setCn (.cl i) { c.cn with fails := 0 }
      ((cnEnter cfg n (.cl i)).1, true)

def clStop (n : N) (i : Nat) : N :=
  let c := n.client i
  match c.st with
  | .connecting =>
      let n := cnStop n (.cl i)
      (n.setClient i { n.client i with st := .inited }).ev (.clStop i)
  | .connected =>
      let n := match c.link with
        | some l => (n.closeC l).free (l, false) true
        | none => n
      (n.setClient i { n.client i with st := .inited, link := none }).ev (.clStop i)
  | _ => n

/-- `TcpServer::shutdown(token, SHUT_WR)`: the client reads EOF, the server end stays open for reading -/
def svShut (n : N) (t : Nat) : N × Bool :=
  match svLookup n t with
  | none => (n, false)
  | some l =>
      let k := n.link l
      if n.busy = some (l, true) then (n, false)
      else if k.sOpen ∧ ¬ k.sShut then
        let n := n.setLink l { k with sShut := true }
        (if k.cOpen then n.push (.eofC l) else n, true)
      else (n, true)

/-- `TcpClient::shutdown(SHUT_WR)` -/
def clShut (n : N) (i : Nat) : N × Bool :=
  let c := n.client i
  match c.st, c.link with
  | .connected, some l =>
      let k := n.link l
      if k.cOpen ∧ ¬ k.cShut then
        let n := n.setLink l { k with cShut := true }
        (if k.sOpen ∧ k.tok.isSome then n.push (.eofS l) else n, true)
      else (n, true)
  | _, _ => (n, false)

/-- `TcpServer::cleanup()` -/
def svCleanup (cfg : Cfg) (n : N) : N :=
  if n.sv.st = .none then n
  else
    let n := svStop cfg n
    let n := n.backlog.foldl (fun n l => (n.closeSNow l).markRst l) n
    { n with backlog := [], listening := false, sv := { n.sv with st := .none } }

/-- `TcpClient::cleanup()`: stop(); sp_connector->cleanup() (which stops the connector once more) -/
def clCleanup (n : N) (i : Nat) : N :=
  if (n.client i).st = .none then n
  else
    let n := cnStop (clStop n i) (.cl i)
    let c := n.client i
    n.setClient i { c with st := .none, reconnect := true, cn := { c.cn with st := .none, fails := 0, tries := 0 } }

/-- cleanup() called from a callback whose std::function it destroys (as found: use after free) -/
def cleanupHits (n : N) (x : Ctx) : Bool :=
  match n.inCb, x with
  | some (.sv _, _), .sv _ => true
  | some (.cl i, w), .cl j => i == j && w ≤ 1
  | some (.kn, _), .kn => true
  | _, _ => false

/-! ### callback scripts -/

def runAct (cfg : Cfg) (x : Ctx) (n : N) : Act → N
  | .stop => match x with
      | .sv _ => svStop cfg n
      | .cl i => clStop n i
      | .kn => (cnStop n .kn).ev .knStop
  | .start => match x with
      | .cl i => (clStart cfg n i).1
      | _ => n
  | .disc => match x with
      | .sv t => (svDisconnect n t).1
      | _ => n
  | .send d => match x with
      | .sv t => (svSend n t d).1
      | .cl i => (clSend n i d).1
      | .kn => n
  | .more d =>
      if n.budget = 0 then n
      else
        let n := { n with budget := n.budget - 1 }
        match x with
        | .sv t => (svSend n t d).1
        | .cl i => (clSend n i d).1
        | .kn => n
  | .shut => match x with
      | .sv t => (svShut n t).1
      | .cl i => (clShut n i).1
      | .kn => n
  | .cleanup =>
      let n := if !cfg.fix2 && cleanupHits n x then { n with uaf := true } else n
      match x with
      | .sv _ => svCleanup cfg n
      | .cl i => clCleanup n i
      | .kn => knCleanup n

def runScript (cfg : Cfg) (x : Ctx) (n : N) (s : Script) : N := s.foldl (runAct cfg x) n

/-- a user callback: `which` = 0 connected, 1 disconnected, 2 receive, 3 send-complete -/
def runCb (cfg : Cfg) (x : Ctx) (which : Nat) (n : N) (s : Script) : N :=
  { (runScript cfg x { n with inCb := some (x, which) } s) with inCb := none }

/-- `TcpAcceptor::onClientConnected` + `TcpServer::onTcpConnected` up to the user's callback: the
next token is issued for the accepted link -/
def svAccept (n : N) (l : Nat) (rest : List Nat) : N :=
  let t := n.sv.issued
  let k := n.link l
  let n := { n with backlog := rest,
                    sv := { n.sv with issued := t + 1, table := n.sv.table ++ [(t, l)] },
                    alive := n.alive ++ [(l, true)] }
  let n := (n.setLink l { k with tok := some t, held := [] }).wakeIfPending (.s l)
  -- next pass: the listening socket is reported first, then this connection's readability;
  -- what the connected callback sends completes (write event) after that
  let n := if rest ≠ [] then n.push .accept else n
  let n := if k.held ≠ [] then n.push (.toS l k.held) else n
  let n := if k.cOpen ∧ ¬ k.cShut then n else n.push (.eofS l)
  n.ev (.sv t .connected)

/-- run the failure callback of the bare connector when `cnFail` asked for it -/
def knFailCb (cfg : Cfg) (r : N × Bool) : N :=
  if r.2 then
    let n := runCb cfg .kn 0 (r.1.ev .knFailed) r.1.knFail
    -- as found: `state_ = kInited` after the callback, whatever the callback did
    if cfg.fix then n else { n with kn := { n.kn with st := .inited } }
  else r.1

/-! ### the kernel's notifications -/

def handle (cfg : Cfg) (n : N) : Msg → N
  | .writable w =>
      let c := n.cn w
      match c.st, c.pend with
      | .connecting, some l =>
          if n.lateFail > 0 ∨ (n.link l).rst then
            -- SO_ERROR reports a failure after EINPROGRESS (or ECONNRESET: the listener was closed before it accepted this
            -- connection and before this event was served): exitConnectingState(), onConnectFail()
            let n := ({ n with lateFail := n.lateFail - 1 }).closeCNow l
            let r := cnFail cfg n w
            match w with
            | .kn => knFailCb cfg r
            | _ => r.1
          else
          -- onSocketWritable, success: back to Inited, hand the new TcpConnection to the owner
          let n := n.setCn w { c with st := .inited, pend := none }
          let n := ({ n with alive := n.alive ++ [(l, false)] }).wakeIfPending (.c l)
          match w with
          | .cl i =>
              let n := n.setClient i { n.client i with st := .connected, link := some l }
              runCb cfg (.cl i) 0 (n.ev (.cl i l .connected)) (n.client i).sConn
          | _ =>
              -- the bare connector's user drops the connection at once
              let n := n.ev .knConnected
              let n := (n.closeC l).free (l, false) true
              runCb cfg .kn 1 n n.knConn
      | _, _ => n
  | .accept =>
      match n.sv.st, n.backlog with
      | .running, l :: rest =>
          if n.acceptFail > 0 then
            -- accept() fails (EMFILE): logged; the listening socket stays readable, the next pass tries again
            ({ n with acceptFail := n.acceptFail - 1 }).push .accept
          else if n.acceptAbort > 0 then
            -- accept() fails (ECONNABORTED): logged; the pending connection is gone, the others stay readable
            let n := ({ n with acceptAbort := n.acceptAbort - 1, backlog := rest }).closeSNow l
            if rest ≠ [] then n.push .accept else n
          else runCb cfg (.sv n.sv.issued) 0 (svAccept n l rest) n.sv.sConn
      | _, _ => n
  | .toS l d =>
      let k := n.link l
      match k.tok with
      | none => if k.sOpen then n.setLink l { k with held := k.held ++ d } else n
      | some t =>
          if svLookup n t = some l then runCb cfg (.sv t) 2 (n.ev (.sv t (.recv d))) n.sv.sRecv else n
  | .sentS l =>
      match (n.link l).tok with
      | some t => if svLookup n t = some l then runCb cfg (.sv t) 3 (n.ev (.sv t .sendComplete)) n.sv.sSc else n
      | none => n
  | .eofS l =>
      match (n.link l).tok with
      | some t =>
          if svLookup n t = some l then
            -- TcpConnection::onSocketClosed -> TcpServer::onTcpDisconnected: callback first, then the
            -- token is freed and the connection deleted by a deferred task
            let n := { n with busy := some (l, true) }
            let n := runCb cfg (.sv t) 1 (n.ev (.sv t .disconnected)) n.sv.sDisc
            let n := { n with busy := none }
            if svLookup n t = some l then
              let n := { n with sv := { n.sv with table := n.sv.table.filter (·.1 ≠ t) } }
              (n.closeS l).free (l, true) true
            else n
          else n
      | none => n
  | .toC l d =>
      match (n.link l).who with
      | .cl i =>
          let c := n.client i
          if c.st = .connected ∧ c.link = some l then runCb cfg (.cl i) 2 (n.ev (.cl i l (.recv d))) c.sRecv else n
      | .raw => if n.rawHold then { n with rawHeld := n.rawHeld ++ d } else { n with rawGot := n.rawGot ++ d }
      | .kn => n
  | .sentC l =>
      match (n.link l).who with
      | .cl i =>
          let c := n.client i
          if c.st = .connected ∧ c.link = some l then runCb cfg (.cl i) 3 (n.ev (.cl i l .sendComplete)) c.sSc else n
      | _ => n
  | .eofC l =>
      match (n.link l).who with
      | .cl i =>
          let c := n.client i
          if c.st = .connected ∧ c.link = some l then
            -- TcpClient::onTcpDisconnected: drop the connection (deferred delete), reconnect, then call back
            let n := (n.closeC l).free (l, false) true
            let n := n.setClient i { n.client i with st := .inited, link := none }
            let n := if c.reconnect then (clStart cfg n i).1 else n
            runCb cfg (.cl i) 1 (n.ev (.cl i l .disconnected)) c.sDisc
          else n
      | .raw => if n.rawHold then { n with rawEofHeld := true } else { n with rawEof := true }
      | .kn => n

/-- what one loop pass serves, in epoll's order: descriptors reported by the previous pass keep their
place at the head of the ready list, the others follow in the order they became ready; for one
descriptor the read event is served before the write event (send-complete), and a close seen by the
read callback cancels the write event.  Returns the descriptors in order and the notifications. -/
def passOrder (n : N) (q : List Msg) : List Fd × List Msg :=
  let present := (q.map (Msg.fd n)).eraseDups
  let fds := n.lastFds.filter (present.contains ·) ++ present.filter (!n.lastFds.contains ·)
  (fds, fds.flatMap fun f => q.filter (fun m => m.fd n == f && !m.isSent) ++ q.filter (fun m => m.fd n == f && m.isSent))

/-- a read takes everything that is in the socket: also what the peer wrote earlier in this same pass -/
def absorb (m : Msg) (qn : List Msg) : Msg × List Msg :=
  match m with
  | .toS l d =>
      (.toS l (d ++ (qn.filterMap fun x => match x with | .toS l' e => if l' = l then some e else none | _ => none).flatten),
       qn.filter fun x => match x with | .toS l' _ => l' ≠ l | _ => true)
  | .toC l d =>
      (.toC l (d ++ (qn.filterMap fun x => match x with | .toC l' e => if l' = l then some e else none | _ => none).flatten),
       qn.filter fun x => match x with | .toC l' _ => l' ≠ l | _ => true)
  | _ => (m, qn)

/-- insertion by (deadline, arming order) -/
def insertTimer (a : Who × Nat × Nat) : List (Who × Nat × Nat) → List (Who × Nat × Nat)
  | [] => [a]
  | b :: r => if a.2.1 < b.2.1 ∨ (a.2.1 = b.2.1 ∧ a.2.2 ≤ b.2.2) then a :: b :: r else b :: insertTimer a r

/-- retry timers that are due, oldest deadline (then oldest arming) first -/
def dueTimers (n : N) : List (Who × Nat × Nat) :=
  let cand := [(Who.cl 0, n.c0.cn), (Who.cl 1, n.c1.cn), (Who.kn, n.kn)]
  let due := cand.filterMap fun (w, c) =>
    match c.deadline with
    | some d => if c.st = .delay ∧ d ≤ n.now then some (w, d, c.seq) else none
    | none => none
  due.foldr insertTimer []

/-- `onDelayTimeout` -/
def fireTimer (cfg : Cfg) (n : N) (w : Who) : N :=
  let c := n.cn w
  if c.st = .delay ∧ c.deadline.isSome then
    -- exitReconnectDelayState (the timer object is gone, the state is still Delay), enterConnectingState
    let n := n.setCn w { c with deadline := none }
    let r := cnEnter cfg n w
    match w with
    | .kn => knFailCb cfg r
    | _ => r.1
  else n

/-- `handleExpiredTimers`: the timers that are due fire, oldest first; a timer armed meanwhile with delay 0 is due at
once and fires in the same call (`timerFuel` rounds: the harness only gives delay tables with finitely many zeros) -/
def fireAll (cfg : Cfg) : Nat → N → N
  | 0, n => n
  | fuel + 1, n =>
      match dueTimers n with
      | [] => n
      | t :: ts => fireAll cfg fuel ((t :: ts).foldl (fun n t => fireTimer cfg n t.1) n)

def timerFuel : Nat := 16

def drain (cfg : Cfg) : Nat → N → N
  | 0, n => n
  | fuel + 1, n =>
      match n.q with
      | m :: rest =>
          -- data and EOF pending together: the read loop takes the data, the EOF is reported by the next pass
          let isEofOf : Msg → Bool := fun x => match m, x with
            | .toS l _, .eofS l' => l = l'
            | .toC l _, .eofC l' => l = l'
            | _, _ => false
          drain cfg fuel (handle cfg { n with q := rest.filter (!isEofOf ·), qn := rest.filter isEofOf ++ (absorb m n.qn).2 }
            (absorb m n.qn).1)
      | [] =>
          -- end of a pass: the deferred tasks ran after the callbacks
          let n := n.endPass
          if n.qn = [] ∧ n.qlate = [] ∧ dueTimers n = [] then n
          else
            -- the next pass: epoll_wait, then handleExpiredTimers (a retry timer armed with delay 0 is due at once), then
            -- the descriptors; what the timers cause is seen by the pass after it
            let n' := fireAll cfg timerFuel { n with qn := [], qlate := [], lastFds := (passOrder n (n.qn ++ n.qlate)).1 }
            drain cfg fuel { n' with q := (passOrder n (n.qn ++ n.qlate)).2 }

/-- at rest: no notification pending -/
def N.quiet (n : N) : Bool := n.q.isEmpty && n.qn.isEmpty && n.qlate.isEmpty && (dueTimers n).isEmpty

/-! ### operations -/

inductive Op where
  | svInit | svStart | svStop | svCleanup
  | svSend (t : Nat) (d : List Byte) | svDisc (t : Nat) | svValid (t : Nat) | svShut (t : Nat)
  | svScript (which : Nat) (s : Script)
  | clInit (i : Nat) | clStart (i : Nat) | clStop (i : Nat) | clCleanup (i : Nat)
  | clRec (i : Nat) (b : Bool) | clSend (i : Nat) (d : List Byte) | clShut (i : Nat)
  | clScript (i : Nat) (which : Nat) (s : Script)
  | knInit (tries : Nat) | knStart | knStop | knCleanup
  | knDelay (tbl : List Nat)             -- setReconnectDelayCalcFunc of the bare connector
  | knDelayAct (tbl : List Nat) (k : Nat) (cl : Bool)   -- … with a function that calls stop() / cleanup() at the k-th failure
  | knDelayRe (tbl : List Nat) (k : Nat)   -- … with a function that calls stop() and start() at the k-th failure (k ≥ 2); that connect() is refused
  | knScript (which : Nat) (s : Script)
  | rawConn | rawSend (d : List Byte) | rawClose | rawHold (b : Bool)
  | adv (ms : Nat)
  | budget (k : Nat)                     -- how many `more` sends the callbacks may make
  | fault (kind : Nat) (k : Nat)         -- the next k socket() (0) / accept() (1, EMFILE) calls fail, connects fail late (2); 3 = connect reports EINPROGRESS (no effect); the next k connect() calls fail at once with ECONNREFUSED (4); the next k accept() calls fail with ECONNABORTED and drop the pending connection (5)
deriving Repr

def step (cfg : Cfg) (n : N) : Op → N × Bool
  | .svInit =>
      if n.sv.st ≠ .none then (n, false)
      else if n.sockFail > 0 then ({ n with sockFail := n.sockFail - 1 }, false)     -- the acceptor gets no socket
      else ({ n with sv := { n.sv with st := .inited }, listening := true }, true)
  | .svStart =>
      if n.sv.st ≠ .inited then (n, false)
      else
        let n := ({ n with sv := { n.sv with st := .running } }).ev .svStart
        (if n.backlog ≠ [] then n.push .accept else n, true)
  | .svStop => (svStop cfg n, true)
  | .svCleanup => (svCleanup cfg n, true)
  | .svSend t d => svSend n t d
  | .svDisc t => svDisconnect n t
  | .svValid t => (n, (svLookup n t).isSome)
  | .svShut t => svShut n t
  | .svScript w s =>
      ({ n with sv := match w with
          | 0 => { n.sv with sConn := s } | 1 => { n.sv with sDisc := s }
          | 2 => { n.sv with sRecv := s } | _ => { n.sv with sSc := s } }, true)
  | .clInit i =>
      let c := n.client i
      if c.st ≠ .none then (n, false)
      -- the connector leaves None once it has an address and a callback
      else (n.setClient i { c with st := .inited, cn := { c.cn with st := if c.cn.st = .none then .inited else c.cn.st } }, true)
  | .clStart i => clStart cfg n i
  | .clStop i => (clStop n i, true)
  | .clCleanup i => (clCleanup n i, true)
  | .clRec i b => (n.setClient i { n.client i with reconnect := b }, true)
  | .clSend i d => clSend n i d
  | .clShut i => clShut n i
  | .clScript i w s =>
      let c := n.client i
      (n.setClient i (match w with
          | 0 => { c with sConn := s } | 1 => { c with sDisc := s }
          | 2 => { c with sRecv := s } | _ => { c with sSc := s }), true)
  | .knInit tries =>
      -- initialize(addr) + setConnectedCallback: None -> Inited (other states keep their state)
      ({ n with kn := { n.kn with st := if n.kn.st = .none then .inited else n.kn.st, tries := tries } }, true)
  | .knStart =>
      if n.kn.st ≠ .inited then (n, false)
      else
        let n := ({ n with kn := { n.kn with fails := 0 } }).ev .knStart
        (knFailCb cfg (cnEnter cfg n .kn), true)
  | .knStop => ((cnStop n .kn).ev .knStop, true)
  | .knDelay tbl => ({ n with kn := { n.kn with delays := tbl, dAct := none, dRe := false } }, true)
  | .knDelayAct tbl k cl => ({ n with kn := { n.kn with delays := tbl, dAct := some (k, cl), dRe := false } }, true)
  | .knDelayRe tbl k => ({ n with kn := { n.kn with delays := tbl, dAct := some (k, false), dRe := true } }, true)
  | .knCleanup => (knCleanup n, true)
  | .knScript w s => (if w = 0 then { n with knFail := s } else { n with knConn := s }, true)
  | .rawConn =>
      if n.listening ∧ n.backlog.length ≤ backlogMax then
        let l := n.links.length
        (({ n with links := n.links ++ [({ who := .raw } : Link)], backlog := n.backlog ++ [l], rawLink := some l,
                   rawEof := false, rawHeld := [], rawEofHeld := false }).push .accept, true)
      else (n, false)
  | .rawSend d =>
      match n.rawLink with
      | some l => (if (n.link l).sOpen || (n.link l).sLate then n.push (.toS l d) else n, (n.link l).sOpen || (n.link l).sLate)
      | none => (n, false)
  | .rawClose =>
      match n.rawLink with
      | some l => ({ (n.closeCNow l) with rawLink := none, rawHeld := [], rawEofHeld := false }, true)
      | none => (n, false)
  | .rawHold b =>
      if b then ({ n with rawHold := true }, true)
      else ({ n with rawHold := false, rawGot := n.rawGot ++ n.rawHeld, rawHeld := [],
                     rawEof := n.rawEof || n.rawEofHeld, rawEofHeld := false }, true)
  | .adv ms =>
      (fireAll cfg timerFuel { n with now := n.now + ms }, true)
  | .budget k => ({ n with budget := k }, true)
  | .fault kind k =>
      (match kind with
        | 0 => { n with sockFail := k }
        | 1 => { n with acceptFail := k }
        | 2 => { n with lateFail := k }
        | 4 => { n with connFail := k }
        | 5 => { n with acceptAbort := k }
        | _ => n, true)

/-- operations the harness accepts in this state -/
def Op.okIn (n : N) : Op → Bool
  | .rawConn => n.rawLink.isNone
  | .rawSend _ => n.rawLink.isSome
  | .rawClose => n.rawLink.isSome
  | _ => true

def drainFuel : Nat := 256

/-- one operation followed by loop passes until nothing happens any more -/
def stepQ (cfg : Cfg) (n : N) (op : Op) : N :=
  -- the passes that found nothing to do have emptied epoll's ready list
  if op.okIn n then
    -- the first pass serves what the call itself caused; the tasks it deferred run at the end of that pass
    -- (the passes that found nothing to do have emptied epoll's ready list)
    let n1 := (step cfg { n with lastFds := [] } op).1
    drain cfg drainFuel { n1 with q := (passOrder n1 n1.qn).2, qn := [], lastFds := (passOrder n1 n1.qn).1 }
  else n

def run (cfg : Cfg) (n : N) (ops : List Op) : N := ops.foldl (stepQ cfg) n

def init : N := {}

end Tbox.C06.Net
