/- C06 — helper lemmas for the plumbing model: what the non-emitting functions leave alone
(`SvStep`), the server's token / trace invariant (`SvI`). -/
import TboxModel.C06.NetSpec
namespace Tbox.C06.Net

/-! ### traces under append -/

theorem svTrace_append (h : List Ev) (e : Ev) (t : Nat) :
    svTrace (h ++ [e]) t = svTrace h t ++ (match e with | .sv t' k => if t' = t then [k] else [] | _ => []) := by
  unfold svTrace
  rw [List.filterMap_append]
  cases e with
  | sv t' k => by_cases h' : t' = t <;> simp [h']
  | _ => simp

theorem phaseOf_append (ks : List Kind) (k : Kind) : phaseOf (ks ++ [k]) = (phaseOf ks).step k := by
  simp [phaseOf, List.foldl_append]

/-! ### `SvStep`: the server's table may only shrink, no server callback is recorded -/

structure SvStep (n m : N) : Prop where
  issued : m.sv.issued = n.sv.issued
  table : m.sv.table.Sublist n.sv.table
  trace : ∀ t, svTrace m.hist t = svTrace n.hist t

theorem SvStep.refl (n : N) : SvStep n n := ⟨rfl, List.Sublist.refl _, fun _ => rfl⟩

theorem SvStep.trans {a b c : N} (h1 : SvStep a b) (h2 : SvStep b c) : SvStep a c :=
  ⟨h2.issued.trans h1.issued, h2.table.trans h1.table, fun t => (h2.trace t).trans (h1.trace t)⟩

/-- anything that keeps `sv` and `hist` -/
theorem SvStep.same {n m k : N} (h : SvStep n m) (hs : k.sv = m.sv) (hh : k.hist = m.hist) : SvStep n k :=
  ⟨by rw [hs]; exact h.issued, by rw [hs]; exact h.table, fun t => by rw [hh]; exact h.trace t⟩

theorem SvStep.of_eq {n k : N} (hi : k.sv.issued = n.sv.issued) (ht : k.sv.table = n.sv.table)
    (hh : k.hist = n.hist) : SvStep n k :=
  ⟨hi, by rw [ht]; exact List.Sublist.refl _, fun t => by rw [hh]⟩

theorem setClient_sv (n : N) (i : Nat) (c : Client) : (n.setClient i c).sv = n.sv := by
  unfold N.setClient; split; rfl; split <;> rfl
theorem setClient_hist (n : N) (i : Nat) (c : Client) : (n.setClient i c).hist = n.hist := by
  unfold N.setClient; split; rfl; split <;> rfl
theorem setCn_sv (n : N) (w : Who) (c : Cn) : (n.setCn w c).sv = n.sv := by
  unfold N.setCn; cases w <;> simp [setClient_sv]
theorem setCn_hist (n : N) (w : Who) (c : Cn) : (n.setCn w c).hist = n.hist := by
  unfold N.setCn; cases w <;> simp [setClient_hist]

theorem wake_sv (n : N) (f : Fd) : (n.wake f).sv = n.sv := by unfold N.wake; split <;> rfl
theorem wake_hist (n : N) (f : Fd) : (n.wake f).hist = n.hist := by unfold N.wake; split <;> rfl
theorem wakeIfPending_sv (n : N) (f : Fd) : (n.wakeIfPending f).sv = n.sv := by
  unfold N.wakeIfPending; split; exact wake_sv n f; rfl
theorem wakeIfPending_hist (n : N) (f : Fd) : (n.wakeIfPending f).hist = n.hist := by
  unfold N.wakeIfPending; split; exact wake_hist n f; rfl
theorem SvStep.wake {n m : N} (h : SvStep n m) (f : Fd) : SvStep n (m.wake f) := h.same (wake_sv m f) (wake_hist m f)
theorem SvStep.wakeIfPending {n m : N} (h : SvStep n m) (f : Fd) : SvStep n (m.wakeIfPending f) :=
  h.same (wakeIfPending_sv m f) (wakeIfPending_hist m f)
theorem SvStep.push {n m : N} (h : SvStep n m) (x : Msg) : SvStep n (m.push x) := by
  unfold N.push
  exact SvStep.wake (m := { m with qn := (mergeData m.qn x).getD (m.qn ++ [x]) }) (h.same rfl rfl) _
theorem SvStep.pushLate {n m : N} (h : SvStep n m) (x : Msg) : SvStep n (m.pushLate x) := h.same rfl rfl
theorem SvStep.setLink {n m : N} (h : SvStep n m) (l : Nat) (k : Link) : SvStep n (m.setLink l k) := h.same rfl rfl
theorem SvStep.setClient {n m : N} (h : SvStep n m) (i : Nat) (c : Client) : SvStep n (m.setClient i c) :=
  h.same (setClient_sv m i c) (setClient_hist m i c)
theorem SvStep.setCn {n m : N} (h : SvStep n m) (w : Who) (c : Cn) : SvStep n (m.setCn w c) :=
  h.same (setCn_sv m w c) (setCn_hist m w c)
theorem SvStep.free {n m : N} (h : SvStep n m) (o : Nat × Bool) (d : Bool) : SvStep n (m.free o d) := h.same rfl rfl

/-- recording anything but a server callback -/
theorem SvStep.ev {n m : N} (h : SvStep n m) (e : Ev) (he : ∀ t k, e ≠ .sv t k) : SvStep n (m.ev e) := by
  refine ⟨h.issued, h.table, fun t => ?_⟩
  show svTrace (m.hist ++ [e]) t = _
  rw [svTrace_append, h.trace t]
  cases e <;> simp_all

theorem SvStep.withAlive {n m : N} (h : SvStep n m) (a : List (Nat × Bool)) : SvStep n { m with alive := a } :=
  h.same rfl rfl
theorem SvStep.withBusy {n m : N} (h : SvStep n m) (b : Option (Nat × Bool)) : SvStep n { m with busy := b } :=
  h.same rfl rfl

theorem SvStep.evCl {n m : N} (h : SvStep n m) (i l : Nat) (k : Kind) : SvStep n (m.ev (.cl i l k)) :=
  h.ev _ (fun _ _ hh => by cases hh)
theorem SvStep.evKnC {n m : N} (h : SvStep n m) : SvStep n (m.ev .knConnected) := h.ev _ (fun _ _ hh => by cases hh)
theorem SvStep.evKnF {n m : N} (h : SvStep n m) : SvStep n (m.ev .knFailed) := h.ev _ (fun _ _ hh => by cases hh)

theorem SvStep.closeS {n m : N} (h : SvStep n m) (l : Nat) : SvStep n (m.closeS l) := by
  unfold N.closeS; simp only
  split
  · split
    · exact (h.setLink _ _).pushLate _
    · exact h.setLink _ _
  · exact h

theorem SvStep.closeC {n m : N} (h : SvStep n m) (l : Nat) : SvStep n (m.closeC l) := by
  unfold N.closeC; simp only
  split
  · split
    · exact (h.setLink _ _).pushLate _
    · exact h.setLink _ _
  · exact h

theorem SvStep.closeSNow {n m : N} (h : SvStep n m) (l : Nat) : SvStep n (m.closeSNow l) := by
  unfold N.closeSNow; simp only
  split
  · split
    · exact (h.setLink _ _).push _
    · exact h.setLink _ _
  · exact h

theorem SvStep.closeCNow {n m : N} (h : SvStep n m) (l : Nat) : SvStep n (m.closeCNow l) := by
  unfold N.closeCNow; simp only
  split
  · split
    · exact (h.setLink _ _).push _
    · exact h.setLink _ _
  · exact h

theorem SvStep.cnStop {n m : N} (h : SvStep n m) (w : Who) : SvStep n (cnStop m w) := by
  unfold Tbox.C06.Net.cnStop; simp only
  split
  · split
    · exact (h.closeCNow _).setCn _ _
    · exact h.setCn _ _
  · split
    · exact SvStep.setCn (m := { m with uaf := true }) (h.same rfl rfl) _ _
    · exact h.setCn _ _
  · exact h

theorem SvStep.knCleanup {n m : N} (h : SvStep n m) : SvStep n (knCleanup m) := by
  unfold Tbox.C06.Net.knCleanup
  split
  · exact h
  · exact (h.cnStop _).trans (SvStep.of_eq rfl rfl rfl)

theorem SvStep.cnFail {n m : N} (h : SvStep n m) (cfg : Cfg) (w : Who) : SvStep n (cnFail cfg m w).1 := by
  unfold Tbox.C06.Net.cnFail; simp only
  split
  · exact h.setCn _ _
  · have ha : SvStep n ({ (m.setCn w { ({ m.cn w with fails := (m.cn w).fails + 1, pend := none } : Cn) with
        st := .delay, deadline := some (m.now + 1000 * ({ m.cn w with fails := (m.cn w).fails + 1, pend := none } : Cn).delayOf ((m.cn w).fails + 1)), seq := m.tick }) with tick := m.tick + 1 } : N) :=
      (h.setCn _ _).same rfl rfl
    split
    · split
      · split
        · split
          · exact ha.knCleanup
          · split
            · exact (((ha.cnStop _).ev _ (fun _ _ hh => by cases hh)).ev _ (fun _ _ hh => by cases hh)).same rfl rfl
            · exact (ha.cnStop _).ev _ (fun _ _ hh => by cases hh)
        · exact ha.same rfl rfl
      · exact ha
    · exact ha

theorem SvStep.cnEnter {n m : N} (h : SvStep n m) (cfg : Cfg) (w : Who) : SvStep n (cnEnter cfg m w).1 := by
  unfold Tbox.C06.Net.cnEnter
  split
  · simp only
    have h0 : SvStep n ({ m with sockFail := m.sockFail - 1 } : N) := h.same rfl rfl
    split
    · exact h0.cnFail cfg w
    · exact h0
  · split
    · exact SvStep.cnFail (m := { m with connFail := m.connFail - 1 }) (h.same rfl rfl) cfg w
    · split
      · simp only
        refine SvStep.push (SvStep.push (SvStep.setCn ?_ _ _) _) _
        exact h.same rfl rfl
      · exact h.cnFail cfg w

theorem SvStep.svSend {n m : N} (h : SvStep n m) (t : Nat) (d : List Byte) : SvStep n (svSend m t d).1 := by
  unfold Tbox.C06.Net.svSend
  split
  · exact h
  · split
    · exact h
    · simp only
      split
      · split
        · exact h.push _
        · exact (h.push _).push _
      · exact h

theorem SvStep.dropTok {n m : N} (h : SvStep n m) (t : Nat) :
    SvStep n { m with sv := { m.sv with table := m.sv.table.filter (·.1 ≠ t) } } :=
  ⟨h.issued, (List.filter_sublist).trans h.table, h.trace⟩

theorem SvStep.svDisconnect {n m : N} (h : SvStep n m) (t : Nat) : SvStep n (svDisconnect m t).1 := by
  unfold Tbox.C06.Net.svDisconnect
  split
  · exact h
  · exact ((h.dropTok t).closeS _).free _ _

theorem SvStep.svStop {n m : N} (h : SvStep n m) (cfg : Cfg) : SvStep n (svStop cfg m) := by
  unfold Tbox.C06.Net.svStop
  split
  · exact h
  · simp only
    have key : ∀ (l : List (Nat × Nat)) (k : N), SvStep n k →
        SvStep n (l.foldl (fun n e => (n.closeS e.2).free (e.2, true) cfg.fix) k) := by
      intro l
      induction l with
      | nil => intro k hk; exact hk
      | cons e l ih => intro k hk; exact ih _ ((hk.closeS _).free _ _)
    have h1 := key m.sv.table m h
    have h2 : SvStep n { (m.sv.table.foldl (fun n e => (n.closeS e.2).free (e.2, true) cfg.fix) m) with
        sv := { (m.sv.table.foldl (fun n e => (n.closeS e.2).free (e.2, true) cfg.fix) m).sv with table := [], st := .inited } } :=
      ⟨h1.issued, List.nil_sublist _, h1.trace⟩
    exact h2.ev .svStop (fun _ _ hh => by cases hh)

theorem SvStep.clSend {n m : N} (h : SvStep n m) (i : Nat) (d : List Byte) : SvStep n (clSend m i d).1 := by
  unfold Tbox.C06.Net.clSend; simp only
  split
  · split
    · split
      · exact h.push _
      · exact (h.push _).push _
    · exact h
  · exact h

theorem SvStep.clStart {n m : N} (h : SvStep n m) (cfg : Cfg) (i : Nat) : SvStep n (clStart cfg m i).1 := by
  unfold Tbox.C06.Net.clStart; simp only
  split
  · exact h
  · split
    · exact (h.setClient _ _).ev _ (fun _ _ hh => by cases hh)
    · exact ((((h.setClient _ _).ev _ (fun _ _ hh => by cases hh))).setCn _ _).cnEnter cfg _

theorem SvStep.clStop {n m : N} (h : SvStep n m) (i : Nat) : SvStep n (clStop m i) := by
  unfold Tbox.C06.Net.clStop; simp only
  split
  · exact (((h.cnStop _).setClient _ _).ev _ (fun _ _ hh => by cases hh))
  · split
    · exact ((((h.closeC _).free _ _).setClient _ _).ev _ (fun _ _ hh => by cases hh))
    · exact ((h.setClient _ _).ev _ (fun _ _ hh => by cases hh))
  · exact h

theorem SvStep.svShut {n m : N} (h : SvStep n m) (t : Nat) : SvStep n (svShut m t).1 := by
  unfold Tbox.C06.Net.svShut
  split
  · exact h
  · simp only
    split
    · exact h
    · split
      · split
        · exact (h.setLink _ _).push _
        · exact h.setLink _ _
      · exact h

theorem SvStep.clShut {n m : N} (h : SvStep n m) (i : Nat) : SvStep n (clShut m i).1 := by
  unfold Tbox.C06.Net.clShut; simp only
  split
  · split
    · split
      · exact (h.setLink _ _).push _
      · exact h.setLink _ _
    · exact h
  · exact h

theorem SvStep.foldCloseSNow {n : N} (l : List Nat) (k : N) (hk : SvStep n k) :
    SvStep n (l.foldl (fun n l => (n.closeSNow l).markRst l) k) := by
  induction l generalizing k with
  | nil => exact hk
  | cons e l ih => exact ih _ ((hk.closeSNow _).setLink _ _)

theorem SvStep.svCleanup {n m : N} (h : SvStep n m) (cfg : Cfg) : SvStep n (svCleanup cfg m) := by
  unfold Tbox.C06.Net.svCleanup
  split
  · exact h
  · exact (SvStep.foldCloseSNow _ _ (h.svStop cfg)).trans (SvStep.of_eq rfl rfl rfl)

theorem SvStep.clCleanup {n m : N} (h : SvStep n m) (i : Nat) : SvStep n (clCleanup m i) := by
  unfold Tbox.C06.Net.clCleanup
  split
  · exact h
  · exact ((h.clStop i).cnStop _).setClient _ _

theorem SvStep.runAct {n m : N} (h : SvStep n m) (cfg : Cfg) (x : Ctx) (a : Act) : SvStep n (runAct cfg x m a) := by
  cases a with
  | stop =>
      cases x <;> simp only [Tbox.C06.Net.runAct]
      · exact h.svStop cfg
      · exact h.clStop _
      · exact (h.cnStop _).ev _ (fun _ _ hh => by cases hh)
  | start =>
      cases x <;> simp only [Tbox.C06.Net.runAct]
      · exact h
      · exact h.clStart cfg _
      · exact h
  | disc =>
      cases x <;> simp only [Tbox.C06.Net.runAct]
      · exact h.svDisconnect _
      · exact h
      · exact h
  | send d =>
      cases x <;> simp only [Tbox.C06.Net.runAct]
      · exact h.svSend _ _
      · exact h.clSend _ _
      · exact h
  | more d =>
      simp only [Tbox.C06.Net.runAct]
      split
      · exact h
      · have h0 : SvStep n ({ m with budget := m.budget - 1 } : N) := h.same rfl rfl
        cases x <;> simp only
        · exact h0.svSend _ _
        · exact h0.clSend _ _
        · exact h0
  | shut =>
      cases x <;> simp only [Tbox.C06.Net.runAct]
      · exact h.svShut _
      · exact h.clShut _
      · exact h
  | cleanup =>
      simp only [Tbox.C06.Net.runAct]
      have h0 : SvStep n (if (!cfg.fix2 && cleanupHits m x) = true then ({ m with uaf := true } : N) else m) := by
        split
        · exact h.same rfl rfl
        · exact h
      cases x <;> simp only
      · exact h0.svCleanup cfg
      · exact h0.clCleanup _
      · exact h0.knCleanup

theorem SvStep.runScript {n m : N} (h : SvStep n m) (cfg : Cfg) (x : Ctx) (s : Script) :
    SvStep n (runScript cfg x m s) := by
  unfold Tbox.C06.Net.runScript
  induction s generalizing m with
  | nil => exact h
  | cons a s ih => exact ih (h.runAct cfg x a)


theorem SvStep.runCb {n m : N} (h : SvStep n m) (cfg : Cfg) (x : Ctx) (w : Nat) (s : Script) :
    SvStep n (runCb cfg x w m s) := by
  unfold Tbox.C06.Net.runCb
  have h0 : SvStep n ({ m with inCb := some (x, w) } : N) := h.same rfl rfl
  exact (h0.runScript cfg x s).trans (SvStep.of_eq rfl rfl rfl)

/-! ### the server's invariant -/

/-- `x` = the token whose disconnected callback is executing (its trace is already closed) -/
structure SvI (x : Option Nat) (n : N) : Prop where
  lt : ∀ e ∈ n.sv.table, e.1 < n.sv.issued
  nodup : (n.sv.table.map (·.1)).Nodup
  fresh : ∀ t, n.sv.issued ≤ t → svTrace n.hist t = []
  live : ∀ e ∈ n.sv.table, some e.1 ≠ x → phaseOf (svTrace n.hist e.1) = .live
  ok : ∀ t, phaseOf (svTrace n.hist t) ≠ .bad

theorem SvI.step {x : Option Nat} {n m : N} (h : SvI x n) (hs : SvStep n m) : SvI x m where
  lt e he := by rw [hs.issued]; exact h.lt e (hs.table.subset he)
  nodup := (hs.table.map (·.1)).nodup h.nodup
  fresh t ht := by rw [hs.trace]; exact h.fresh t (by rw [← hs.issued]; exact ht)
  live e he hx := by rw [hs.trace]; exact h.live e (hs.table.subset he) hx
  ok t := by rw [hs.trace]; exact h.ok t

theorem svLookup_mem {n : N} {t l : Nat} (h : svLookup n t = some l) : (t, l) ∈ n.sv.table := by
  unfold svLookup at h
  cases hf : n.sv.table.find? (·.1 = t) with
  | none => simp [hf] at h
  | some e =>
      simp [hf] at h
      have h1 := List.find?_some hf
      have h2 := List.mem_of_find?_eq_some hf
      simp at h1
      have : e = (t, l) := by cases e; simp_all
      rw [← this]; exact h2

theorem svLookup_none {n : N} {t : Nat} (h : svLookup n t = none) : ∀ e ∈ n.sv.table, e.1 ≠ t := by
  unfold svLookup at h
  intro e he het
  cases hf : n.sv.table.find? (·.1 = t) with
  | none =>
      have := List.find?_eq_none.mp hf e he
      simp [het] at this
  | some e' => simp [hf] at h

/-- recording receive / send-complete for a live token -/
theorem SvI.emitLive {n : N} (h : SvI none n) {t l : Nat} (hm : (t, l) ∈ n.sv.table) (k : Kind)
    (hk : Phase.step .live k = .live) : SvI none (n.ev (.sv t k)) := by
  have hl := h.live (t, l) hm (by simp)
  have htr : ∀ t', svTrace (n.ev (.sv t k)).hist t' = if t = t' then svTrace n.hist t' ++ [k] else svTrace n.hist t' := by
    intro t'
    show svTrace (n.hist ++ [_]) t' = _
    rw [svTrace_append]; by_cases hh : t = t' <;> simp [hh]
  refine ⟨h.lt, h.nodup, ?_, ?_, ?_⟩
  · intro t' ht'
    rw [htr]
    have := h.lt (t, l) hm
    have ht'' : n.sv.issued ≤ t' := ht'
    have hne : t ≠ t' := by simp at this; omega
    simp [hne]; exact h.fresh t' ht'
  · intro e he hx
    rw [htr]; split
    · rename_i heq; subst heq; rw [phaseOf_append, h.live e he hx]; exact hk
    · exact h.live e he hx
  · intro t'
    rw [htr]; split
    · rename_i heq; subst heq; rw [phaseOf_append, hl, hk]; simp
    · exact h.ok t'

/-- recording `disconnected` for a live token: from now on it is the closing one -/
theorem SvI.emitClose {n : N} (h : SvI none n) {t l : Nat} (hm : (t, l) ∈ n.sv.table) :
    SvI (some t) (n.ev (.sv t .disconnected)) := by
  have hl := h.live (t, l) hm (by simp)
  have htr : ∀ t', svTrace (n.ev (.sv t .disconnected)).hist t' =
      if t = t' then svTrace n.hist t' ++ [.disconnected] else svTrace n.hist t' := by
    intro t'
    show svTrace (n.hist ++ [_]) t' = _
    rw [svTrace_append]; by_cases hh : t = t' <;> simp [hh]
  refine ⟨h.lt, h.nodup, ?_, ?_, ?_⟩
  · intro t' ht'
    rw [htr]
    have := h.lt (t, l) hm
    have ht'' : n.sv.issued ≤ t' := ht'
    have hne : t ≠ t' := by simp at this; omega
    simp [hne]; exact h.fresh t' ht'
  · intro e he hx
    rw [htr]
    have hne : t ≠ e.1 := fun hh => hx (by rw [hh])
    simp [hne]; exact h.live e he (by simp)
  · intro t'
    rw [htr]; split
    · rename_i heq; subst heq; rw [phaseOf_append, hl]; simp [Phase.step]
    · exact h.ok t'

/-- the closing token leaves the table: the invariant is whole again -/
theorem SvI.closeDone {n : N} {t : Nat} (h : SvI (some t) n) (hno : ∀ e ∈ n.sv.table, e.1 ≠ t) : SvI none n :=
  ⟨h.lt, h.nodup, h.fresh, fun e he _ => h.live e he (by simp; exact hno e he), h.ok⟩


/-- functions that record no server callback and do not add to the table keep the invariant -/
theorem SvI.of_step {x : Option Nat} {n m : N} (h : SvI x n) (hs : SvStep n m) : SvI x m := h.step hs

theorem SvStep.knFailCb {n : N} (cfg : Cfg) (r : N × Bool) (h : SvStep n r.1) : SvStep n (knFailCb cfg r) := by
  unfold Tbox.C06.Net.knFailCb
  split
  · simp only
    split
    · exact (h.evKnF).runCb cfg _ _ _
    · exact ((h.evKnF).runCb cfg _ _ _).same rfl rfl
  · exact h

theorem handle_svStep_client (cfg : Cfg) (n : N) (m : Msg)
    (hm : match m with | .writable _ | .toC _ _ | .sentC _ | .eofC _ => True | _ => False) :
    SvStep n (handle cfg n m) := by
  cases m with
  | writable w =>
      simp only [handle]
      split
      · rename_i l _ _
        split
        · -- the connect fails late
          have h0 : SvStep n (({ n with lateFail := n.lateFail - 1 } : N).closeCNow l) :=
            SvStep.closeCNow (n := n) (m := { n with lateFail := n.lateFail - 1 }) (SvStep.of_eq rfl rfl rfl) l
          have h1 := h0.cnFail cfg w
          cases w with
          | cl i => exact h1
          | kn => exact SvStep.knFailCb cfg _ h1
          | raw => exact h1
        · have h0 : SvStep n (({ (n.setCn w { n.cn w with st := .inited, pend := none }) with
              alive := (n.setCn w { n.cn w with st := .inited, pend := none }).alive ++ [(l, false)] } : N).wakeIfPending (.c l)) :=
            SvStep.wakeIfPending (SvStep.withAlive (SvStep.setCn (SvStep.refl n) _ _) _) _
          cases w with
          | cl i =>
              simp only
              exact SvStep.runCb (SvStep.evCl (SvStep.setClient h0 _ _) _ _ _) cfg _ _ _
          | kn =>
              simp only
              exact SvStep.runCb (SvStep.free (SvStep.closeC (SvStep.evKnC h0) _) _ _) cfg _ _ _
          | raw =>
              simp only
              exact SvStep.runCb (SvStep.free (SvStep.closeC (SvStep.evKnC h0) _) _ _) cfg _ _ _
      · exact SvStep.refl n
  | toC l d =>
      simp only [handle]
      split
      · split
        · exact SvStep.runCb (SvStep.evCl (SvStep.refl n) _ _ _) cfg _ _ _
        · exact SvStep.refl n
      · split
        · exact SvStep.of_eq rfl rfl rfl
        · exact SvStep.of_eq rfl rfl rfl
      · exact SvStep.refl n
  | sentC l =>
      simp only [handle]
      split
      · split
        · exact SvStep.runCb (SvStep.evCl (SvStep.refl n) _ _ _) cfg _ _ _
        · exact SvStep.refl n
      · exact SvStep.refl n
  | eofC l =>
      simp only [handle]
      split
      · split
        · rename_i i _ hc
          refine SvStep.runCb (SvStep.evCl ?_ _ _ _) cfg _ _ _
          have h1 : SvStep n (((n.closeC l).free (l, false) true).setClient i
              { ((n.closeC l).free (l, false) true).client i with st := .inited, link := none }) :=
            (((SvStep.refl n).closeC l).free _ _).setClient _ _
          split
          · exact h1.clStart cfg i
          · exact h1
        · exact SvStep.refl n
      · split
        · exact SvStep.of_eq rfl rfl rfl
        · exact SvStep.of_eq rfl rfl rfl
      · exact SvStep.refl n
  | _ => exact absurd hm (by simp)

theorem tok_unique (tbl : List (Nat × Nat)) (h : (tbl.map (·.1)).Nodup) {a b : Nat × Nat}
    (ha : a ∈ tbl) (hb : b ∈ tbl) (hab : a.1 = b.1) : a = b := by
  induction tbl with
  | nil => cases ha
  | cons x xs ih =>
      simp only [List.map_cons, List.nodup_cons] at h
      rcases List.mem_cons.mp ha with ha | ha <;> rcases List.mem_cons.mp hb with hb | hb
      · rw [ha, hb]
      · exact absurd (List.mem_map.mpr ⟨b, hb, by rw [← hab, ha]⟩) h.1
      · exact absurd (List.mem_map.mpr ⟨a, ha, by rw [hab, hb]⟩) h.1
      · exact ih h.2 ha hb

theorem svLookup_of_mem {n : N} (hn : (n.sv.table.map (·.1)).Nodup) {t l : Nat} (hm : (t, l) ∈ n.sv.table) :
    svLookup n t = some l := by
  unfold svLookup
  cases hf : n.sv.table.find? (·.1 = t) with
  | none =>
      have := List.find?_eq_none.mp hf (t, l) hm
      simp at this
  | some e =>
      have h1 := List.find?_some hf
      have h2 := List.mem_of_find?_eq_some hf
      simp at h1
      have := tok_unique _ hn h2 hm (by simpa using h1)
      simp [this]

theorem closeS_sv (n : N) (l : Nat) : (n.closeS l).sv = n.sv := by
  unfold N.closeS; simp only; split
  · split <;> rfl
  · rfl

theorem SvI.withBusy {x : Option Nat} {n : N} (h : SvI x n) (b : Option (Nat × Bool)) : SvI x { n with busy := b } :=
  ⟨h.lt, h.nodup, h.fresh, h.live, h.ok⟩

@[simp] theorem push_sv (n : N) (x : Msg) : (n.push x).sv = n.sv := by unfold N.push; rw [wake_sv]
@[simp] theorem push_hist (n : N) (x : Msg) : (n.push x).hist = n.hist := by unfold N.push; rw [wake_hist]
@[simp] theorem wip_sv (n : N) (f : Fd) : (n.wakeIfPending f).sv = n.sv := wakeIfPending_sv n f
@[simp] theorem wip_hist (n : N) (f : Fd) : (n.wakeIfPending f).hist = n.hist := wakeIfPending_hist n f
@[simp] theorem setLink_sv (n : N) (l : Nat) (k : Link) : (n.setLink l k).sv = n.sv := rfl
@[simp] theorem setLink_hist (n : N) (l : Nat) (k : Link) : (n.setLink l k).hist = n.hist := rfl
@[simp] theorem ev_sv (n : N) (e : Ev) : (n.ev e).sv = n.sv := rfl
@[simp] theorem ev_hist (n : N) (e : Ev) : (n.ev e).hist = n.hist ++ [e] := rfl

theorem svAccept_sv (n : N) (l : Nat) (rest : List Nat) :
    (svAccept n l rest).sv = { n.sv with issued := n.sv.issued + 1, table := n.sv.table ++ [(n.sv.issued, l)] } := by
  unfold svAccept; simp only
  split <;> split <;> split <;> simp

theorem svAccept_hist (n : N) (l : Nat) (rest : List Nat) :
    (svAccept n l rest).hist = n.hist ++ [.sv n.sv.issued .connected] := by
  unfold svAccept; simp only
  split <;> split <;> split <;> simp

theorem svAccept_svI (n : N) (l : Nat) (rest : List Nat) (h : SvI none n) : SvI none (svAccept n l rest) := by
  have hfresh : svTrace n.hist n.sv.issued = [] := h.fresh _ (Nat.le_refl _)
  have htr : ∀ t', svTrace (svAccept n l rest).hist t' =
      if n.sv.issued = t' then svTrace n.hist t' ++ [.connected] else svTrace n.hist t' := by
    intro t'
    rw [svAccept_hist, svTrace_append]; by_cases hh : n.sv.issued = t' <;> simp [hh]
  refine ⟨?_, ?_, ?_, ?_, ?_⟩
  · intro e he
    rw [svAccept_sv] at he ⊢
    simp only at he ⊢
    rcases List.mem_append.mp he with he | he
    · have := h.lt e he; omega
    · simp at he; subst he; simp
  · rw [svAccept_sv]
    simp only [List.map_append, List.map_cons, List.map_nil]
    rw [List.nodup_append]
    refine ⟨h.nodup, by simp, ?_⟩
    intro a ha b hb
    simp at hb; subst hb
    obtain ⟨e, he, rfl⟩ := List.mem_map.mp ha
    have := h.lt e he
    intro heq; omega
  · intro t' ht'
    rw [svAccept_sv] at ht'
    simp only at ht'
    rw [htr]
    have hne : n.sv.issued ≠ t' := by omega
    simp [hne]; exact h.fresh t' (by omega)
  · intro e he _
    rw [svAccept_sv] at he
    simp only at he
    rw [htr]
    rcases List.mem_append.mp he with he | he
    · have := h.lt e he
      have hne : n.sv.issued ≠ e.1 := by omega
      simp [hne]; exact h.live e he (by simp)
    · simp at he; subst he
      simp [hfresh, phaseOf, Phase.step]
  · intro t'
    rw [htr]; split
    · rename_i heq; subst heq; simp [hfresh, phaseOf, Phase.step]
    · exact h.ok t'

theorem handle_svI (cfg : Cfg) (n : N) (m : Msg) (h : SvI none n) : SvI none (handle cfg n m) := by
  cases m with
  | writable w => exact h.step (handle_svStep_client cfg n _ trivial)
  | toC l d => exact h.step (handle_svStep_client cfg n _ trivial)
  | sentC l => exact h.step (handle_svStep_client cfg n _ trivial)
  | eofC l => exact h.step (handle_svStep_client cfg n _ trivial)
  | accept =>
      simp only [handle]
      split
      · split
        · exact h.step ((SvStep.of_eq rfl rfl rfl : SvStep n ({ n with acceptFail := n.acceptFail - 1 } : N)).push _)
        · split
          · rename_i l rest _ _ _ _
            have h0 : SvStep n (({ n with acceptAbort := n.acceptAbort - 1, backlog := rest } : N).closeSNow l) :=
              (SvStep.of_eq rfl rfl rfl : SvStep n ({ n with acceptAbort := n.acceptAbort - 1, backlog := rest } : N)).closeSNow l
            split
            · exact h.step (h0.push _)
            · exact h.step h0
          · exact (svAccept_svI n _ _ h).step ((SvStep.refl _).runCb cfg _ _ _)
      · exact h
  | toS l d =>
      simp only [handle]
      split
      · split
        · exact h.step ((SvStep.refl n).setLink _ _)
        · exact h
      · split
        · rename_i t _ hl
          exact (h.emitLive (svLookup_mem hl) (.recv d) rfl).step ((SvStep.refl _).runCb cfg _ _ _)
        · exact h
  | sentS l =>
      simp only [handle]
      split
      · split
        · rename_i t _ hl
          exact (h.emitLive (svLookup_mem hl) .sendComplete rfl).step ((SvStep.refl _).runCb cfg _ _ _)
        · exact h
      · exact h
  | eofS l =>
      simp only [handle]
      split
      · split
        · rename_i t _ hl
          have hm := svLookup_mem hl
          -- the callback runs with the token still in the table, its trace closed
          have h1 : SvI (some t) (({ n with busy := some (l, true) } : N).ev (.sv t .disconnected)) :=
            SvI.emitClose (n := { n with busy := some (l, true) }) (h.withBusy _) hm
          have hs : SvStep (({ n with busy := some (l, true) } : N).ev (.sv t .disconnected))
              (runCb cfg (.sv t) 1 (({ n with busy := some (l, true) } : N).ev (.sv t .disconnected)) n.sv.sDisc) :=
            (SvStep.refl _).runCb cfg _ _ _
          have h2 := (h1.step hs).withBusy none
          have hsub := hs.table
          split
          · -- still there: TcpServer frees the token now
            refine SvI.closeDone (t := t) (SvI.step h2 ?_) ?_
            · exact (((SvStep.refl _).dropTok t).closeS _).free _ _
            · intro e he
              simp only [N.free, closeS_sv] at he
              have := (List.mem_filter.mp he).2
              simpa using this
          · rename_i hno
            refine h2.closeDone ?_
            intro e he het
            have he0 : e ∈ n.sv.table := hsub.subset he
            have hee : e = (t, l) := tok_unique _ h.nodup he0 hm (by simpa using het)
            subst hee
            exact hno (svLookup_of_mem h2.nodup he)
        · exact h
      · exact h


/-! ### operations and draining -/

theorem SvStep.withSv {n m : N} (h : SvStep n m) (sv' : Server) (hi : sv'.issued = m.sv.issued)
    (ht : sv'.table = m.sv.table) : SvStep n { m with sv := sv' } :=
  ⟨by simp [hi, h.issued], by simp [ht, h.table], h.trace⟩

theorem SvStep.fireTimer {n m : N} (h : SvStep n m) (cfg : Cfg) (w : Who) : SvStep n (fireTimer cfg m w) := by
  unfold Tbox.C06.Net.fireTimer; simp only
  split
  · cases w with
    | kn => exact SvStep.knFailCb cfg _ ((h.setCn _ _).cnEnter cfg _)
    | cl i => exact (h.setCn _ _).cnEnter cfg _
    | raw => exact (h.setCn _ _).cnEnter cfg _
  · exact h

theorem SvStep.fireAll {n : N} (cfg : Cfg) (fuel : Nat) : ∀ {m : N}, SvStep n m → SvStep n (fireAll cfg fuel m) := by
  have key : ∀ (l : List (Who × Nat × Nat)) (k : N), SvStep n k →
      SvStep n (l.foldl (fun n t => Tbox.C06.Net.fireTimer cfg n t.1) k) := by
    intro l
    induction l with
    | nil => intro k hk; exact hk
    | cons e l ih => intro k hk; exact ih _ (hk.fireTimer cfg _)
  induction fuel with
  | zero => intro m h; exact h
  | succ f ih =>
      intro m h
      unfold Tbox.C06.Net.fireAll
      split
      · exact h
      · exact ih (key _ _ h)

theorem step_svStep (cfg : Cfg) (n : N) (op : Op) : SvStep n (step cfg n op).1 := by
  cases op with
  | svInit => simp only [step]; split; exact SvStep.refl n; split <;> exact SvStep.of_eq rfl rfl rfl
  | svStart =>
      simp only [step]; split; exact SvStep.refl n
      have h1 : SvStep n (({ n with sv := { n.sv with st := .running } } : N).ev .svStart) :=
        (SvStep.of_eq rfl rfl rfl : SvStep n ({ n with sv := { n.sv with st := .running } } : N)).ev .svStart
          (fun _ _ hh => by cases hh)
      split; exact h1.push _; exact h1
  | svStop => exact (SvStep.refl n).svStop cfg
  | svCleanup => exact (SvStep.refl n).svCleanup cfg
  | svSend t d => exact (SvStep.refl n).svSend t d
  | svDisc t => exact (SvStep.refl n).svDisconnect t
  | svValid t => exact SvStep.refl n
  | svShut t => exact (SvStep.refl n).svShut t
  | svScript w s =>
      simp only [step]
      refine SvStep.of_eq ?_ ?_ rfl <;> simp only <;> split <;> rfl
  | clInit i => simp only [step]; split; exact SvStep.refl n; exact (SvStep.refl n).setClient _ _
  | clStart i => exact (SvStep.refl n).clStart cfg i
  | clStop i => exact (SvStep.refl n).clStop i
  | clCleanup i => exact (SvStep.refl n).clCleanup i
  | clRec i b => exact (SvStep.refl n).setClient _ _
  | clSend i d => exact (SvStep.refl n).clSend i d
  | clShut i => exact (SvStep.refl n).clShut i
  | clScript i w s => exact (SvStep.refl n).setClient _ _
  | knInit tries => exact SvStep.of_eq rfl rfl rfl
  | knStart =>
      simp only [step]; split; exact SvStep.refl n
      have h0 : SvStep n ({ n with kn := { n.kn with fails := 0 } } : N) := SvStep.of_eq rfl rfl rfl
      exact SvStep.knFailCb cfg _ ((h0.ev .knStart (fun _ _ hh => by cases hh)).cnEnter cfg _)
  | knStop => exact ((SvStep.refl n).cnStop _).ev .knStop (fun _ _ hh => by cases hh)
  | knCleanup => exact (SvStep.refl n).knCleanup
  | knScript w s => simp only [step]; split <;> exact SvStep.of_eq rfl rfl rfl
  | rawConn =>
      simp only [step]; split
      · refine SvStep.push (n := n) (m := { n with links := n.links ++ [({ who := .raw } : Link)], backlog := n.backlog ++ [n.links.length], rawLink := some n.links.length, rawEof := false, rawHeld := [], rawEofHeld := false }) ?_ _
        exact SvStep.of_eq rfl rfl rfl
      · exact SvStep.refl n
  | rawSend d =>
      simp only [step]; split
      · split; exact (SvStep.refl n).push _; exact SvStep.refl n
      · exact SvStep.refl n
  | rawClose => simp only [step]; split; exact ((SvStep.refl n).closeCNow _).trans (SvStep.of_eq rfl rfl rfl); exact SvStep.refl n
  | rawHold b => simp only [step]; split <;> exact SvStep.of_eq rfl rfl rfl
  | adv ms =>
      simp only [step]
      exact SvStep.fireAll cfg _ (SvStep.of_eq rfl rfl rfl)
  | knDelay tbl => exact SvStep.of_eq rfl rfl rfl
  | knDelayAct tbl k cl => exact SvStep.of_eq rfl rfl rfl
  | knDelayRe tbl k => exact SvStep.of_eq rfl rfl rfl
  | budget k => exact SvStep.of_eq rfl rfl rfl
  | fault kind k =>
      simp only [step]
      split <;> exact SvStep.of_eq rfl rfl rfl

theorem drain_svI (cfg : Cfg) (fuel : Nat) (n : N) (h : SvI none n) : SvI none (drain cfg fuel n) := by
  induction fuel generalizing n with
  | zero => exact h
  | succ f ih =>
      unfold drain
      split
      · rename_i m rest _
        exact ih _ (handle_svI cfg _ _ (h.step (SvStep.of_eq rfl rfl rfl)))
      · have h' : SvI none n.endPass := h.step (SvStep.of_eq rfl rfl rfl)
        simp only
        split
        · exact h'
        · have h1 := SvStep.fireAll (n := n.endPass) cfg timerFuel
            (m := { n.endPass with qn := [], qlate := [], lastFds := (passOrder n.endPass (n.endPass.qn ++ n.endPass.qlate)).1 })
            (SvStep.of_eq rfl rfl rfl)
          exact ih _ (h'.step (h1.same rfl rfl))

theorem stepQ_svI (cfg : Cfg) (n : N) (op : Op) (h : SvI none n) : SvI none (stepQ cfg n op) := by
  unfold stepQ
  split
  · have h0 : SvI none ({ n with lastFds := [] } : N) := h.step (SvStep.of_eq rfl rfl rfl)
    exact drain_svI cfg _ _ (h0.step ((step_svStep cfg _ op).trans (SvStep.of_eq rfl rfl rfl)))
  · exact h

theorem run_svI (cfg : Cfg) (ops : List Op) (n : N) (h : SvI none n) : SvI none (run cfg n ops) := by
  unfold run
  induction ops generalizing n with
  | nil => exact h
  | cons op ops ih => exact ih _ (stepQ_svI cfg n op h)

theorem init_svI : SvI none init :=
  ⟨by simp [init], by simp [init], fun _ _ => rfl, by simp [init], fun _ => by simp [init, svTrace, phaseOf]⟩

end Tbox.C06.Net
