/- C06 — helper lemmas for the plumbing model: the client-side invariant `CI` (what client i's user
has been told matches the client's state) and the frame relation `ClSame`. -/
import TboxModel.C06.NetProofsCn
namespace Tbox.C06.Net

/-- what the history must say about client `c` -/
def expect (c : Client) : CPhase :=
  if c.st = .connected then (match c.link with | some l => .on l | none => .bad) else .off

structure CI (i : Nat) (n : N) : Prop where
  ph : cphase i n.hist = expect (n.client i)
  conn : (n.client i).st = .connected → (n.client i).link.isSome ∧ (n.client i).cn.st = .inited

theorem cphase_append (i : Nat) (h : List Ev) (e : Ev) : cphase i (h ++ [e]) = cstep i (cphase i h) e := by
  simp [cphase, List.foldl_append]

/-- an event that says nothing about client i -/
def Ev.quiet (i : Nat) : Ev → Bool
  | .cl j _ _ => j != i
  | .clStop j => j != i
  | _ => true

theorem cstep_quiet (i : Nat) (p : CPhase) (e : Ev) (h : Ev.quiet i e = true) : cstep i p e = p := by
  cases e <;> simp_all [Ev.quiet, cstep]

/-- client i's wrapper state and what its user was told are unchanged; its connector's state too
unless the client is not Connected -/
structure ClSame (i : Nat) (n m : N) : Prop where
  st : (m.client i).st = (n.client i).st
  link : (m.client i).link = (n.client i).link
  ph : cphase i m.hist = cphase i n.hist
  cn : (n.client i).st = .connected → (m.client i).cn.st = (n.client i).cn.st

theorem ClSame.refl (i : Nat) (n : N) : ClSame i n n := ⟨rfl, rfl, rfl, fun _ => rfl⟩

theorem ClSame.trans {i : Nat} {a b c : N} (h1 : ClSame i a b) (h2 : ClSame i b c) : ClSame i a c :=
  ⟨h2.st.trans h1.st, h2.link.trans h1.link, h2.ph.trans h1.ph,
   fun h => (h2.cn (by rw [h1.st]; exact h)).trans (h1.cn h)⟩

theorem CI.same {i : Nat} {n m : N} (h : CI i n) (hs : ClSame i n m) : CI i m := by
  have hexp : expect (m.client i) = expect (n.client i) := by simp [expect, hs.st, hs.link]
  refine ⟨by rw [hs.ph, hexp]; exact h.ph, ?_⟩
  intro hc
  rw [hs.st] at hc
  rw [hs.link, hs.cn hc]; exact h.conn hc

/-- anything that keeps the two clients and the history -/
theorem ClSame.of_eq {i : Nat} {n m : N} (h0 : m.c0 = n.c0) (h1 : m.c1 = n.c1) (hh : m.hist = n.hist) : ClSame i n m := by
  have hc : m.client i = n.client i := by simp [N.client, h0, h1]
  exact ⟨by rw [hc], by rw [hc], by rw [hh], fun _ => by rw [hc]⟩

theorem ClSame.wake (i : Nat) (n : N) (f : Fd) : ClSame i n (n.wake f) := by
  unfold N.wake; split <;> exact ClSame.of_eq rfl rfl rfl

theorem ClSame.wakeIfPending (i : Nat) (n : N) (f : Fd) : ClSame i n (n.wakeIfPending f) := by
  unfold N.wakeIfPending; split; exact ClSame.wake i n f; exact ClSame.refl i n

theorem ClSame.push (i : Nat) (n : N) (x : Msg) : ClSame i n (n.push x) := by
  unfold N.push
  exact ClSame.trans (b := { n with qn := (mergeData n.qn x).getD (n.qn ++ [x]) }) (ClSame.of_eq rfl rfl rfl) (ClSame.wake i _ (x.fd n))

theorem ClSame.pushLate (i : Nat) (n : N) (x : Msg) : ClSame i n (n.pushLate x) := ClSame.of_eq rfl rfl rfl
theorem ClSame.setLink (i : Nat) (n : N) (l : Nat) (k : Link) : ClSame i n (n.setLink l k) := ClSame.of_eq rfl rfl rfl
theorem ClSame.free (i : Nat) (n : N) (o : Nat × Bool) (d : Bool) : ClSame i n (n.free o d) := ClSame.of_eq rfl rfl rfl

theorem ClSame.ev (i : Nat) (n : N) (e : Ev) (he : Ev.quiet i e = true) : ClSame i n (n.ev e) :=
  ⟨rfl, rfl, by show cphase i (n.hist ++ [e]) = _; rw [cphase_append, cstep_quiet i _ e he], fun _ => rfl⟩

theorem client_setClient_ne (n : N) (i j : Nat) (c : Client) (h : j ≠ i) : (n.setClient j c).client i = n.client i := by
  unfold N.setClient N.client
  by_cases h0 : j = 0
  · subst h0; simp [Ne.symm h]
  · by_cases h1 : j = 1
    · subst h1
      by_cases hi : i = 0
      · simp [hi]
      · simp [hi, Ne.symm h]
    · simp [h0, h1]

theorem client_setClient_self (n : N) (i : Nat) (c : Client) (hi : i < 2) : (n.setClient i c).client i = c := by
  unfold N.setClient N.client
  by_cases h0 : i = 0
  · simp [h0]
  · have h1 : i = 1 := by omega
    simp [h1]

theorem client_big (n : N) (i : Nat) (hi : ¬ i < 2) : n.client i = {} := by
  unfold N.client
  have h0 : i ≠ 0 := by omega
  have h1 : i ≠ 1 := by omega
  simp [h0, h1]

theorem setClient_hist' (n : N) (j : Nat) (c : Client) : (n.setClient j c).hist = n.hist := setClient_hist n j c

/-- replacing client j: another client, or the same wrapper state -/
theorem ClSame.setClient (i : Nat) (n : N) (j : Nat) (c : Client)
    (hst : j = i → c.st = (n.client i).st) (hl : j = i → c.link = (n.client i).link)
    (hcn : j = i → (n.client i).st = .connected → c.cn.st = (n.client i).cn.st) :
    ClSame i n (n.setClient j c) := by
  by_cases hj : j = i
  · subst hj
    by_cases hi : j < 2
    · exact ⟨by rw [client_setClient_self n j c hi]; exact hst rfl, by rw [client_setClient_self n j c hi]; exact hl rfl,
        by rw [setClient_hist'], fun h => by rw [client_setClient_self n j c hi]; exact hcn rfl h⟩
    · have : n.setClient j c = n := by
        unfold N.setClient
        have h0 : j ≠ 0 := by omega
        have h1 : j ≠ 1 := by omega
        simp [h0, h1]
      rw [this]; exact ClSame.refl j n
  · exact ⟨by rw [client_setClient_ne n i j c hj], by rw [client_setClient_ne n i j c hj], by rw [setClient_hist'],
      fun _ => by rw [client_setClient_ne n i j c hj]⟩


/-! ### functions that do not touch client i's wrapper state -/

theorem ClSame.closeS (i : Nat) (n : N) (l : Nat) : ClSame i n (n.closeS l) := by
  unfold N.closeS; simp only; split
  · split
    · exact (ClSame.setLink i n _ _).trans (ClSame.pushLate i _ _)
    · exact ClSame.setLink i n _ _
  · exact ClSame.refl i n

theorem ClSame.closeC (i : Nat) (n : N) (l : Nat) : ClSame i n (n.closeC l) := by
  unfold N.closeC; simp only; split
  · split
    · exact (ClSame.setLink i n _ _).trans (ClSame.pushLate i _ _)
    · exact ClSame.setLink i n _ _
  · exact ClSame.refl i n

theorem ClSame.closeSNow (i : Nat) (n : N) (l : Nat) : ClSame i n (n.closeSNow l) := by
  unfold N.closeSNow; simp only; split
  · split
    · exact (ClSame.setLink i n _ _).trans (ClSame.push i _ _)
    · exact ClSame.setLink i n _ _
  · exact ClSame.refl i n

theorem ClSame.closeCNow (i : Nat) (n : N) (l : Nat) : ClSame i n (n.closeCNow l) := by
  unfold N.closeCNow; simp only; split
  · split
    · exact (ClSame.setLink i n _ _).trans (ClSame.push i _ _)
    · exact ClSame.setLink i n _ _
  · exact ClSame.refl i n

/-! forward-chaining forms -/
theorem ClSame.same {i : Nat} {n m k : N} (h : ClSame i n m) (h0 : k.c0 = m.c0) (h1 : k.c1 = m.c1) (hh : k.hist = m.hist) :
    ClSame i n k := h.trans (ClSame.of_eq h0 h1 hh)
theorem ClSame.push' {i : Nat} {n m : N} (h : ClSame i n m) (x : Msg) : ClSame i n (m.push x) := h.trans (ClSame.push i m x)
theorem ClSame.pushLate' {i : Nat} {n m : N} (h : ClSame i n m) (x : Msg) : ClSame i n (m.pushLate x) := h.trans (ClSame.pushLate i m x)
theorem ClSame.setLink' {i : Nat} {n m : N} (h : ClSame i n m) (l : Nat) (k : Link) : ClSame i n (m.setLink l k) := h.trans (ClSame.setLink i m l k)
theorem ClSame.free' {i : Nat} {n m : N} (h : ClSame i n m) (o : Nat × Bool) (d : Bool) : ClSame i n (m.free o d) := h.trans (ClSame.free i m o d)
theorem ClSame.ev' {i : Nat} {n m : N} (h : ClSame i n m) (e : Ev) (he : Ev.quiet i e = true) : ClSame i n (m.ev e) := h.trans (ClSame.ev i m e he)
theorem ClSame.closeS' {i : Nat} {n m : N} (h : ClSame i n m) (l : Nat) : ClSame i n (m.closeS l) := h.trans (ClSame.closeS i m l)
theorem ClSame.closeC' {i : Nat} {n m : N} (h : ClSame i n m) (l : Nat) : ClSame i n (m.closeC l) := h.trans (ClSame.closeC i m l)
theorem ClSame.closeSNow' {i : Nat} {n m : N} (h : ClSame i n m) (l : Nat) : ClSame i n (m.closeSNow l) := h.trans (ClSame.closeSNow i m l)
theorem ClSame.closeCNow' {i : Nat} {n m : N} (h : ClSame i n m) (l : Nat) : ClSame i n (m.closeCNow l) := h.trans (ClSame.closeCNow i m l)
theorem ClSame.wakeIfPending' {i : Nat} {n m : N} (h : ClSame i n m) (f : Fd) : ClSame i n (m.wakeIfPending f) := h.trans (ClSame.wakeIfPending i m f)

/-- a connector is rewritten: fine for client i unless it is i's connector while i is Connected -/
theorem ClSame.setCn (i : Nat) (n : N) (w : Who) (c : Cn)
    (hw : w = .cl i → (n.client i).st ≠ .connected) : ClSame i n (n.setCn w c) := by
  cases w with
  | cl j =>
      simp only [N.setCn]
      refine ClSame.setClient i n j _ ?_ ?_ ?_
      · intro hj; subst hj; rfl
      · intro hj; subst hj; rfl
      · intro hj hc; subst hj; exact absurd hc (hw rfl)
  | kn => exact ClSame.of_eq rfl rfl rfl
  | raw => exact ClSame.of_eq rfl rfl rfl

theorem ClSame.st_ne {i : Nat} {n m : N} (h : ClSame i n m) (hn : (n.client i).st ≠ .connected) :
    (m.client i).st ≠ .connected := by rw [h.st]; exact hn

theorem ClSame.cnFail (i : Nat) (cfg : Cfg) (n : N) (w : Who) (hw : w = .cl i → (n.client i).st ≠ .connected) :
    ClSame i n (cnFail cfg n w).1 := by
  unfold Tbox.C06.Net.cnFail; simp only
  split
  · exact ClSame.setCn i n w _ hw
  · exact (ClSame.setCn i n w _ hw).trans (ClSame.of_eq rfl rfl rfl)

theorem ClSame.cnEnter (i : Nat) (cfg : Cfg) (n : N) (w : Who) (hw : w = .cl i → (n.client i).st ≠ .connected) :
    ClSame i n (cnEnter cfg n w).1 := by
  unfold Tbox.C06.Net.cnEnter
  split
  · simp only
    have h0 : ClSame i n ({ n with sockFail := n.sockFail - 1 } : N) := ClSame.of_eq rfl rfl rfl
    split
    · exact h0.trans (ClSame.cnFail i cfg _ w (fun h => hw h))
    · exact h0
  · split
    · simp only
      have h0 : ClSame i n ({ n with links := n.links ++ [({ who := w } : Link)], backlog := n.backlog ++ [n.links.length] } : N) :=
        ClSame.of_eq rfl rfl rfl
      exact ((h0.trans (ClSame.setCn i _ w _ (fun h => hw h))).trans (ClSame.push i _ _)).trans (ClSame.push i _ _)
    · exact ClSame.cnFail i cfg n w hw

theorem ClSame.cnStop (i : Nat) (n : N) (w : Who) (hw : w = .cl i → (n.client i).st ≠ .connected) :
    ClSame i n (cnStop n w) := by
  unfold Tbox.C06.Net.cnStop; simp only
  split
  · split
    · exact (ClSame.closeCNow i n _).trans (ClSame.setCn i _ w _ (fun h => (ClSame.closeCNow i n _).st_ne (hw h)))
    · exact ClSame.setCn i n w _ hw
  · split
    · have h0 : ClSame i n ({ n with uaf := true } : N) := ClSame.of_eq rfl rfl rfl
      exact h0.trans (ClSame.setCn i _ w _ (fun h => hw h))
    · exact ClSame.setCn i n w _ hw
  · exact ClSame.refl i n

theorem ClSame.svSend (i : Nat) (n : N) (t : Nat) (d : List Byte) : ClSame i n (svSend n t d).1 := by
  unfold Tbox.C06.Net.svSend; split
  · exact ClSame.refl i n
  · split
    · exact ClSame.refl i n
    · simp only; split
      · split
        · exact ClSame.push i n _
        · exact (ClSame.push i n _).trans (ClSame.push i _ _)
      · exact ClSame.refl i n

theorem ClSame.svDisconnect (i : Nat) (n : N) (t : Nat) : ClSame i n (svDisconnect n t).1 := by
  unfold Tbox.C06.Net.svDisconnect; split
  · exact ClSame.refl i n
  · have h0 : ClSame i n ({ n with sv := { n.sv with table := n.sv.table.filter (·.1 ≠ t) } } : N) := ClSame.of_eq rfl rfl rfl
    exact (h0.closeS' _).free' _ _

theorem ClSame.svStop (i : Nat) (cfg : Cfg) (n : N) : ClSame i n (svStop cfg n) := by
  unfold Tbox.C06.Net.svStop; split
  · exact ClSame.refl i n
  · simp only
    have key : ∀ (l : List (Nat × Nat)) (k : N), ClSame i n k →
        ClSame i n (l.foldl (fun n e => (n.closeS e.2).free (e.2, true) cfg.fix) k) := by
      intro l
      induction l with
      | nil => intro k hk; exact hk
      | cons e l ih => intro k hk; exact ih _ ((hk.closeS' _).free' _ _)
    have h1 := key n.sv.table n (ClSame.refl i n)
    have h2 : ClSame i n { (n.sv.table.foldl (fun n e => (n.closeS e.2).free (e.2, true) cfg.fix) n) with sv := { (n.sv.table.foldl (fun n e => (n.closeS e.2).free (e.2, true) cfg.fix) n).sv with table := [], st := .inited } } := h1.same rfl rfl rfl
    exact h2.ev' .svStop rfl

theorem ClSame.svShut (i : Nat) (n : N) (t : Nat) : ClSame i n (svShut n t).1 := by
  unfold Tbox.C06.Net.svShut; split
  · exact ClSame.refl i n
  · simp only; split
    · exact ClSame.refl i n
    · split
      · split
        · exact (ClSame.setLink i n _ _).trans (ClSame.push i _ _)
        · exact ClSame.setLink i n _ _
      · exact ClSame.refl i n

theorem ClSame.svCleanup (i : Nat) (cfg : Cfg) (n : N) : ClSame i n (svCleanup cfg n) := by
  unfold Tbox.C06.Net.svCleanup; split
  · exact ClSame.refl i n
  · have key : ∀ (l : List Nat) (k : N), ClSame i n k → ClSame i n (l.foldl (fun n l => n.closeSNow l) k) := by
      intro l
      induction l with
      | nil => intro k hk; exact hk
      | cons e l ih => intro k hk; exact ih _ (hk.closeSNow' _)
    exact (key _ _ (ClSame.svStop i cfg n)).same rfl rfl rfl

theorem ClSame.knCleanup (i : Nat) (n : N) : ClSame i n (knCleanup n) := by
  unfold Tbox.C06.Net.knCleanup; split
  · exact ClSame.refl i n
  · exact (ClSame.cnStop i n .kn (fun h => by cases h)).same rfl rfl rfl

theorem ClSame.clSend (i : Nat) (n : N) (j : Nat) (d : List Byte) : ClSame i n (clSend n j d).1 := by
  unfold Tbox.C06.Net.clSend; simp only; split
  · split
    · split
      · exact ClSame.push i n _
      · exact (ClSame.push i n _).trans (ClSame.push i _ _)
    · exact ClSame.refl i n
  · exact ClSame.refl i n

theorem ClSame.clShut (i : Nat) (n : N) (j : Nat) : ClSame i n (clShut n j).1 := by
  unfold Tbox.C06.Net.clShut; simp only; split
  · split
    · split
      · exact (ClSame.setLink i n _ _).trans (ClSame.push i _ _)
      · exact ClSame.setLink i n _ _
    · exact ClSame.refl i n
  · exact ClSame.refl i n


/-! ### TcpClient's own calls -/

theorem CI.off_of {i : Nat} {n : N} (hst : (n.client i).st ≠ .connected) (hph : cphase i n.hist = .off) : CI i n :=
  ⟨by rw [hph]; simp [expect, hst], fun h => absurd h hst⟩

theorem CI.ph_off {i : Nat} {n : N} (h : CI i n) (hst : (n.client i).st ≠ .connected) : cphase i n.hist = .off := by
  rw [h.ph]; simp [expect, hst]

theorem CI.ph_on {i : Nat} {n : N} (h : CI i n) (hst : (n.client i).st = .connected) {l : Nat}
    (hl : (n.client i).link = some l) : cphase i n.hist = .on l := by
  rw [h.ph]; simp [expect, hst, hl]

theorem client_lt_of_st {n : N} {i : Nat} (h : (n.client i).st ≠ .none) : i < 2 := by
  by_cases hi : i < 2
  · exact hi
  · rw [client_big n i hi] at h; exact absurd rfl h

theorem ClSame.clStart_ne (i : Nat) (cfg : Cfg) (n : N) (j : Nat) (hj : j ≠ i) : ClSame i n (clStart cfg n j).1 := by
  unfold Tbox.C06.Net.clStart; simp only; split
  · exact ClSame.refl i n
  · have h1 : ClSame i n ((n.setClient j { n.client j with st := .connecting }).ev (.clStart j)) :=
      (ClSame.setClient i n j _ (fun h => absurd h hj) (fun h => absurd h hj) (fun h => absurd h hj)).ev' _ (by simp [Ev.quiet])
    split
    · exact h1
    · exact (h1.trans (ClSame.setCn i _ (.cl j) _ (fun h => by cases h; exact absurd rfl hj))).trans
        (ClSame.cnEnter i cfg _ (.cl j) (fun h => by cases h; exact absurd rfl hj))

theorem CI_clStart (i : Nat) (cfg : Cfg) (n : N) (j : Nat) (h : CI i n) : CI i (clStart cfg n j).1 := by
  by_cases hj : j = i
  · subst hj
    unfold Tbox.C06.Net.clStart; simp only; split
    · exact h
    · rename_i hst
      have hst' : (n.client j).st = .inited := by simpa using hst
      have hlt : j < 2 := client_lt_of_st (by rw [hst']; simp)
      have hoff := h.ph_off (by rw [hst']; simp)
      have hc1 : (((n.setClient j { n.client j with st := .connecting }).ev (.clStart j)).client j).st = .connecting := by
        show ((n.setClient j { n.client j with st := .connecting }).client j).st = .connecting
        rw [client_setClient_self n j _ hlt]
      have h1 : CI j ((n.setClient j { n.client j with st := .connecting }).ev (.clStart j)) := by
        refine CI.off_of (by rw [hc1]; simp) ?_
        show cphase j ((n.setClient j _).hist ++ [.clStart j]) = .off
        rw [cphase_append, cstep_quiet j _ _ (by simp [Ev.quiet]), setClient_hist', hoff]
      split
      · exact h1
      · have hne : (((n.setClient j { n.client j with st := .connecting }).ev (.clStart j)).client j).st ≠ .connected := by
          rw [hc1]; simp
        have s1 := ClSame.setCn j ((n.setClient j { n.client j with st := .connecting }).ev (.clStart j)) (.cl j)
          { (n.client j).cn with fails := 0 } (fun _ => hne)
        exact h1.same (s1.trans (ClSame.cnEnter j cfg _ (.cl j) (fun _ => s1.st_ne hne)))
  · exact h.same (ClSame.clStart_ne i cfg n j hj)

theorem ClSame.clStop_ne (i : Nat) (n : N) (j : Nat) (hj : j ≠ i) : ClSame i n (clStop n j) := by
  unfold Tbox.C06.Net.clStop; simp only; split
  · have h1 := ClSame.cnStop i n (.cl j) (fun h => by cases h; exact absurd rfl hj)
    exact (h1.trans (ClSame.setClient i _ j _ (fun h => absurd h hj) (fun h => absurd h hj) (fun h => absurd h hj))).ev' _
      (by simp [Ev.quiet, hj])
  · split
    · exact ((((ClSame.closeC i n _).free' _ _).trans (ClSame.setClient i _ j _ (fun h => absurd h hj) (fun h => absurd h hj)
        (fun h => absurd h hj)))).ev' _ (by simp [Ev.quiet, hj])
    · exact (ClSame.setClient i n j _ (fun h => absurd h hj) (fun h => absurd h hj) (fun h => absurd h hj)).ev' _
        (by simp [Ev.quiet, hj])
  · exact ClSame.refl i n

/-- after stop() the client is not Connected and its user's view is "no connection" -/
theorem CI_clStop (i : Nat) (n : N) (j : Nat) (h : CI i n) : CI i (clStop n j) := by
  by_cases hj : j = i
  · subst hj
    unfold Tbox.C06.Net.clStop; simp only; split
    · rename_i hst
      have hlt : j < 2 := client_lt_of_st (by rw [hst]; simp)
      have s1 := ClSame.cnStop j n (.cl j) (fun _ => by rw [hst]; simp)
      have hoff : cphase j (cnStop n (.cl j)).hist = .off := by rw [s1.ph]; exact h.ph_off (by rw [hst]; simp)
      refine CI.off_of ?_ ?_
      · show ((((cnStop n (.cl j)).setClient j _)).client j).st ≠ .connected
        rw [client_setClient_self _ j _ hlt]; simp
      · show cphase j (((cnStop n (.cl j)).setClient j _).hist ++ [.clStop j]) = .off
        rw [cphase_append, setClient_hist', hoff]; simp [cstep]
    · rename_i hst
      have hlt : j < 2 := client_lt_of_st (by rw [hst]; simp)
      split
      · rename_i l hl
        have s1 : ClSame j n ((n.closeC l).free (l, false) true) := (ClSame.closeC j n l).free' _ _
        have hon : cphase j ((n.closeC l).free (l, false) true).hist = .on l := by rw [s1.ph]; exact h.ph_on hst hl
        refine CI.off_of ?_ ?_
        · show (((((n.closeC l).free (l, false) true).setClient j _)).client j).st ≠ .connected
          rw [client_setClient_self _ j _ hlt]; simp
        · show cphase j ((((n.closeC l).free (l, false) true).setClient j _).hist ++ [.clStop j]) = .off
          rw [cphase_append, setClient_hist', hon]; simp [cstep]
      · rename_i hl
        have := (h.conn hst).1
        rw [hl] at this; simp at this
    · exact h
  · exact h.same (ClSame.clStop_ne i n j hj)

end Tbox.C06.Net
