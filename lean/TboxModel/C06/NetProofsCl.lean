/- C06 — helper lemmas for the plumbing model: the client-side invariant `CI` (what client i's user
has been told matches the client's state) and the frame relation `ClSame`. -/
import TboxModel.C06.NetProofsCn
namespace Tbox.C06.Net

/-- what the history must say about client `c` -/
def expect (c : Client) : CPhase :=
  if c.st = .connected then (match c.link with | some l => .on l | none => .bad) else .off

/-- `clQuietOk` as a left fold: (is client i started?, no callback while it was not) -/
def qstep (i : Nat) (s : Bool × Bool) : Ev → Bool × Bool
  | .clStart j => (s.1 || j == i, s.2)
  | .clStop j => (s.1 && j != i, s.2)
  | .cl j _ _ => (s.1, s.2 && (j != i || s.1))
  | _ => s

def qfold (i : Nat) (h : List Ev) : Bool × Bool := h.foldl (qstep i) (false, true)

theorem qfold_append (i : Nat) (h : List Ev) (e : Ev) : qfold i (h ++ [e]) = qstep i (qfold i h) e := by
  simp [qfold, List.foldl_append]

/-- the fold agrees with the recursive definition -/
theorem qfold_spec (i : Nat) (h : List Ev) :
    ∀ s : Bool × Bool, (h.foldl (qstep i) s).2 = (s.2 && clQuietOk i s.1 h) := by
  induction h with
  | nil => intro s; simp [clQuietOk]
  | cons e h ih =>
      intro s
      rw [List.foldl_cons, ih]
      cases e <;> simp [qstep, clQuietOk, Bool.and_assoc]

/-- the client invariant: what client i's user has been told is what the client's state says; a
connection has a link; the connector is active only while the client is Connecting; no callback was
made while the client was stopped, and a Connecting / Connected client counts as started -/
structure CI (i : Nat) (n : N) : Prop where
  ph : cphase i n.hist = expect (n.client i)
  conn : (n.client i).st = .connected → (n.client i).link.isSome
  act : (n.client i).st ≠ .connecting → (n.client i).cn.st ≠ .connecting ∧ (n.client i).cn.st ≠ .delay
  q : (qfold i n.hist).2 = true
  on : (n.client i).st = .connecting ∨ (n.client i).st = .connected → (qfold i n.hist).1 = true

theorem cphase_append (i : Nat) (h : List Ev) (e : Ev) : cphase i (h ++ [e]) = cstep i (cphase i h) e := by
  simp [cphase, List.foldl_append]

/-- an event that says nothing about client i -/
def Ev.quiet (i : Nat) : Ev → Bool
  | .cl j _ _ => j != i
  | .clStop j => j != i
  | .clStart j => j != i
  | _ => true

theorem cstep_quiet (i : Nat) (p : CPhase) (e : Ev) (h : Ev.quiet i e = true) : cstep i p e = p := by
  cases e <;> simp_all [Ev.quiet, cstep]

theorem qstep_quiet (i : Nat) (s : Bool × Bool) (e : Ev) (h : Ev.quiet i e = true) : qstep i s e = s := by
  obtain ⟨a, b⟩ := s
  cases e <;> simp_all [Ev.quiet, qstep]

/-- client i's wrapper state and what its user was told are unchanged; its connector's state too
unless the client is Connecting -/
structure ClSame (i : Nat) (n m : N) : Prop where
  st : (m.client i).st = (n.client i).st
  link : (m.client i).link = (n.client i).link
  ph : cphase i m.hist = cphase i n.hist
  qf : qfold i m.hist = qfold i n.hist
  cn : (n.client i).st ≠ .connecting → (m.client i).cn.st = (n.client i).cn.st

theorem ClSame.refl (i : Nat) (n : N) : ClSame i n n := ⟨rfl, rfl, rfl, rfl, fun _ => rfl⟩

theorem ClSame.trans {i : Nat} {a b c : N} (h1 : ClSame i a b) (h2 : ClSame i b c) : ClSame i a c :=
  ⟨h2.st.trans h1.st, h2.link.trans h1.link, h2.ph.trans h1.ph, h2.qf.trans h1.qf,
   fun h => (h2.cn (by rw [h1.st]; exact h)).trans (h1.cn h)⟩

theorem CI.same {i : Nat} {n m : N} (h : CI i n) (hs : ClSame i n m) : CI i m := by
  have hexp : expect (m.client i) = expect (n.client i) := by simp [expect, hs.st, hs.link]
  refine ⟨by rw [hs.ph, hexp]; exact h.ph, ?_, ?_, by rw [hs.qf]; exact h.q, ?_⟩
  · intro hc; rw [hs.st] at hc; rw [hs.link]; exact h.conn hc
  · intro hc; rw [hs.st] at hc; rw [hs.cn hc]; exact h.act hc
  · intro hc; rw [hs.st] at hc; rw [hs.qf]; exact h.on hc

/-- anything that keeps the two clients and the history -/
theorem ClSame.of_eq {i : Nat} {n m : N} (h0 : m.c0 = n.c0) (h1 : m.c1 = n.c1) (hh : m.hist = n.hist) : ClSame i n m := by
  have hc : m.client i = n.client i := by simp [N.client, h0, h1]
  exact ⟨by rw [hc], by rw [hc], by rw [hh], by rw [hh], fun _ => by rw [hc]⟩

theorem ClSame.wake (i : Nat) (n : N) (f : Fd) : ClSame i n (n.wake f) := by
  unfold N.wake; split <;> exact ClSame.of_eq rfl rfl rfl

theorem ClSame.wakeIfPending (i : Nat) (n : N) (f : Fd) : ClSame i n (n.wakeIfPending f) := by
  unfold N.wakeIfPending; split; exact ClSame.wake i n f; exact ClSame.refl i n

theorem ClSame.push (i : Nat) (n : N) (x : Msg) : ClSame i n (n.push x) := by
  unfold N.push
  exact ClSame.trans (b := { n with qn := (mergeData n.qn x).getD (n.qn ++ [x]) }) (ClSame.of_eq rfl rfl rfl) (ClSame.wake i _ (x.fd n))

theorem ClSame.pushLate (i : Nat) (n : N) (x : Msg) : ClSame i n (n.pushLate x) := ClSame.of_eq rfl rfl rfl
theorem ClSame.setLink (i : Nat) (n : N) (l : Nat) (k : Link) : ClSame i n (n.setLink l k) := ClSame.of_eq rfl rfl rfl
theorem ClSame.free (i : Nat) (n : N) (o : Nat × Bool) (d : Bool) : ClSame i n (n.free o d) := ClSame.of_eq rfl rfl rfl

theorem ClSame.ev (i : Nat) (n : N) (e : Ev) (he : Ev.quiet i e = true) : ClSame i n (n.ev e) :=
  ⟨rfl, rfl, by show cphase i (n.hist ++ [e]) = _; rw [cphase_append, cstep_quiet i _ e he],
   by show qfold i (n.hist ++ [e]) = _; rw [qfold_append, qstep_quiet i _ e he], fun _ => rfl⟩

theorem client_setClient_ne (n : N) (i j : Nat) (c : Client) (h : j ≠ i) : (n.setClient j c).client i = n.client i := by
  unfold N.setClient N.client
  by_cases h0 : j = 0
  · subst h0; simp [Ne.symm h]
  · by_cases h1 : j = 1
    · subst h1
      by_cases hi : i = 0
      · simp [hi]
      · simp [hi, Ne.symm h]
    · simp [h0, h1]

theorem client_setClient_self (n : N) (i : Nat) (c : Client) (hi : i < 2) : (n.setClient i c).client i = c := by
  unfold N.setClient N.client
  by_cases h0 : i = 0
  · simp [h0]
  · have h1 : i = 1 := by omega
    simp [h1]

theorem client_big (n : N) (i : Nat) (hi : ¬ i < 2) : n.client i = {} := by
  unfold N.client
  have h0 : i ≠ 0 := by omega
  have h1 : i ≠ 1 := by omega
  simp [h0, h1]

theorem setClient_hist' (n : N) (j : Nat) (c : Client) : (n.setClient j c).hist = n.hist := setClient_hist n j c

/-- replacing client j: another client, or the same wrapper state -/
theorem ClSame.setClient (i : Nat) (n : N) (j : Nat) (c : Client)
    (hst : j = i → c.st = (n.client i).st) (hl : j = i → c.link = (n.client i).link)
    (hcn : j = i → (n.client i).st ≠ .connecting → c.cn.st = (n.client i).cn.st) :
    ClSame i n (n.setClient j c) := by
  by_cases hj : j = i
  · subst hj
    by_cases hi : j < 2
    · exact ⟨by rw [client_setClient_self n j c hi]; exact hst rfl, by rw [client_setClient_self n j c hi]; exact hl rfl,
        by rw [setClient_hist'], by rw [setClient_hist'], fun h => by rw [client_setClient_self n j c hi]; exact hcn rfl h⟩
    · have : n.setClient j c = n := by
        unfold N.setClient
        have h0 : j ≠ 0 := by omega
        have h1 : j ≠ 1 := by omega
        simp [h0, h1]
      rw [this]; exact ClSame.refl j n
  · exact ⟨by rw [client_setClient_ne n i j c hj], by rw [client_setClient_ne n i j c hj], by rw [setClient_hist'],
      by rw [setClient_hist'], fun _ => by rw [client_setClient_ne n i j c hj]⟩


/-! ### functions that do not touch client i's wrapper state -/

theorem ClSame.closeS (i : Nat) (n : N) (l : Nat) : ClSame i n (n.closeS l) := by
  unfold N.closeS; simp only; split
  · split
    · exact (ClSame.setLink i n _ _).trans (ClSame.pushLate i _ _)
    · exact ClSame.setLink i n _ _
  · exact ClSame.refl i n

theorem ClSame.closeC (i : Nat) (n : N) (l : Nat) : ClSame i n (n.closeC l) := by
  unfold N.closeC; simp only; split
  · split
    · exact (ClSame.setLink i n _ _).trans (ClSame.pushLate i _ _)
    · exact ClSame.setLink i n _ _
  · exact ClSame.refl i n

theorem ClSame.closeSNow (i : Nat) (n : N) (l : Nat) : ClSame i n (n.closeSNow l) := by
  unfold N.closeSNow; simp only; split
  · split
    · exact (ClSame.setLink i n _ _).trans (ClSame.push i _ _)
    · exact ClSame.setLink i n _ _
  · exact ClSame.refl i n

theorem ClSame.closeCNow (i : Nat) (n : N) (l : Nat) : ClSame i n (n.closeCNow l) := by
  unfold N.closeCNow; simp only; split
  · split
    · exact (ClSame.setLink i n _ _).trans (ClSame.push i _ _)
    · exact ClSame.setLink i n _ _
  · exact ClSame.refl i n

/-! forward-chaining forms -/
theorem ClSame.same {i : Nat} {n m k : N} (h : ClSame i n m) (h0 : k.c0 = m.c0) (h1 : k.c1 = m.c1) (hh : k.hist = m.hist) :
    ClSame i n k := h.trans (ClSame.of_eq h0 h1 hh)
theorem ClSame.push' {i : Nat} {n m : N} (h : ClSame i n m) (x : Msg) : ClSame i n (m.push x) := h.trans (ClSame.push i m x)
theorem ClSame.pushLate' {i : Nat} {n m : N} (h : ClSame i n m) (x : Msg) : ClSame i n (m.pushLate x) := h.trans (ClSame.pushLate i m x)
theorem ClSame.setLink' {i : Nat} {n m : N} (h : ClSame i n m) (l : Nat) (k : Link) : ClSame i n (m.setLink l k) := h.trans (ClSame.setLink i m l k)
theorem ClSame.free' {i : Nat} {n m : N} (h : ClSame i n m) (o : Nat × Bool) (d : Bool) : ClSame i n (m.free o d) := h.trans (ClSame.free i m o d)
theorem ClSame.ev' {i : Nat} {n m : N} (h : ClSame i n m) (e : Ev) (he : Ev.quiet i e = true) : ClSame i n (m.ev e) := h.trans (ClSame.ev i m e he)
theorem ClSame.closeS' {i : Nat} {n m : N} (h : ClSame i n m) (l : Nat) : ClSame i n (m.closeS l) := h.trans (ClSame.closeS i m l)
theorem ClSame.closeC' {i : Nat} {n m : N} (h : ClSame i n m) (l : Nat) : ClSame i n (m.closeC l) := h.trans (ClSame.closeC i m l)
theorem ClSame.closeSNow' {i : Nat} {n m : N} (h : ClSame i n m) (l : Nat) : ClSame i n (m.closeSNow l) := h.trans (ClSame.closeSNow i m l)
theorem ClSame.closeCNow' {i : Nat} {n m : N} (h : ClSame i n m) (l : Nat) : ClSame i n (m.closeCNow l) := h.trans (ClSame.closeCNow i m l)
theorem ClSame.wakeIfPending' {i : Nat} {n m : N} (h : ClSame i n m) (f : Fd) : ClSame i n (m.wakeIfPending f) := h.trans (ClSame.wakeIfPending i m f)

/-- a connector is rewritten: fine for client i unless it is i's connector while i is not Connecting -/
theorem ClSame.setCn (i : Nat) (n : N) (w : Who) (c : Cn)
    (hw : w = .cl i → (n.client i).st = .connecting) : ClSame i n (n.setCn w c) := by
  cases w with
  | cl j =>
      simp only [N.setCn]
      refine ClSame.setClient i n j _ ?_ ?_ ?_
      · intro hj; subst hj; rfl
      · intro hj; subst hj; rfl
      · intro hj hc; subst hj; exact absurd (hw rfl) hc
  | kn => exact ClSame.of_eq rfl rfl rfl
  | raw => exact ClSame.of_eq rfl rfl rfl

theorem ClSame.st_eq {i : Nat} {n m : N} (h : ClSame i n m) {x : ClSt} (hn : (n.client i).st = x) :
    (m.client i).st = x := by rw [h.st]; exact hn

theorem ClSame.cnStop (i : Nat) (n : N) (w : Who) (hw : w = .cl i → (n.client i).st = .connecting) :
    ClSame i n (cnStop n w) := by
  unfold Tbox.C06.Net.cnStop; simp only
  split
  · split
    · exact (ClSame.closeCNow i n _).trans (ClSame.setCn i _ w _ (fun h => (ClSame.closeCNow i n _).st_eq (hw h)))
    · exact ClSame.setCn i n w _ hw
  · split
    · have h0 : ClSame i n ({ n with uaf := true } : N) := ClSame.of_eq rfl rfl rfl
      exact h0.trans (ClSame.setCn i _ w _ (fun h => hw h))
    · exact ClSame.setCn i n w _ hw
  · exact ClSame.refl i n

theorem ClSame.knCleanup (i : Nat) (n : N) : ClSame i n (knCleanup n) := by
  unfold Tbox.C06.Net.knCleanup; split
  · exact ClSame.refl i n
  · exact (ClSame.cnStop i n .kn (fun h => by cases h)).same rfl rfl rfl

theorem ClSame.cnFail (i : Nat) (cfg : Cfg) (n : N) (w : Who) (hw : w = .cl i → (n.client i).st = .connecting) :
    ClSame i n (cnFail cfg n w).1 := by
  unfold Tbox.C06.Net.cnFail; simp only
  split
  · exact ClSame.setCn i n w _ hw
  · have ha : ClSame i n ({ (n.setCn w { ({ n.cn w with fails := (n.cn w).fails + 1, pend := none } : Cn) with
        st := .delay, deadline := some (n.now + 1000 * ({ n.cn w with fails := (n.cn w).fails + 1, pend := none } : Cn).delayOf ((n.cn w).fails + 1)), seq := n.tick }) with tick := n.tick + 1 } : N) :=
      (ClSame.setCn i n w _ hw).trans (ClSame.of_eq rfl rfl rfl)
    split
    · split
      · split
        · split
          · exact ha.trans (ClSame.knCleanup i _)
          · split
            · exact (((ha.trans (ClSame.cnStop i _ .kn (fun h => by cases h))).ev' _ rfl).ev' _ rfl).same rfl rfl rfl
            · exact (ha.trans (ClSame.cnStop i _ .kn (fun h => by cases h))).ev' _ rfl
        · exact ha.trans (ClSame.of_eq rfl rfl rfl)
      · exact ha
    · exact ha

theorem ClSame.cnEnter (i : Nat) (cfg : Cfg) (n : N) (w : Who) (hw : w = .cl i → (n.client i).st = .connecting) :
    ClSame i n (cnEnter cfg n w).1 := by
  unfold Tbox.C06.Net.cnEnter
  split
  · simp only
    have h0 : ClSame i n ({ n with sockFail := n.sockFail - 1 } : N) := ClSame.of_eq rfl rfl rfl
    split
    · exact h0.trans (ClSame.cnFail i cfg _ w (fun h => hw h))
    · exact h0
  · split
    · have h0 : ClSame i n ({ n with connFail := n.connFail - 1 } : N) := ClSame.of_eq rfl rfl rfl
      exact h0.trans (ClSame.cnFail i cfg _ w (fun h => hw h))
    · split
      · simp only
        have h0 : ClSame i n ({ n with links := n.links ++ [({ who := w } : Link)], backlog := n.backlog ++ [n.links.length] } : N) :=
          ClSame.of_eq rfl rfl rfl
        exact ((h0.trans (ClSame.setCn i _ w _ (fun h => hw h))).trans (ClSame.push i _ _)).trans (ClSame.push i _ _)
      · exact ClSame.cnFail i cfg n w hw

theorem ClSame.svSend (i : Nat) (n : N) (t : Nat) (d : List Byte) : ClSame i n (svSend n t d).1 := by
  unfold Tbox.C06.Net.svSend; split
  · exact ClSame.refl i n
  · split
    · exact ClSame.refl i n
    · simp only; split
      · split
        · exact ClSame.push i n _
        · exact (ClSame.push i n _).trans (ClSame.push i _ _)
      · exact ClSame.refl i n

theorem ClSame.svDisconnect (i : Nat) (n : N) (t : Nat) : ClSame i n (svDisconnect n t).1 := by
  unfold Tbox.C06.Net.svDisconnect; split
  · exact ClSame.refl i n
  · have h0 : ClSame i n ({ n with sv := { n.sv with table := n.sv.table.filter (·.1 ≠ t) } } : N) := ClSame.of_eq rfl rfl rfl
    exact (h0.closeS' _).free' _ _

theorem ClSame.svStop (i : Nat) (cfg : Cfg) (n : N) : ClSame i n (svStop cfg n) := by
  unfold Tbox.C06.Net.svStop; split
  · exact ClSame.refl i n
  · simp only
    have key : ∀ (l : List (Nat × Nat)) (k : N), ClSame i n k →
        ClSame i n (l.foldl (fun n e => (n.closeS e.2).free (e.2, true) cfg.fix) k) := by
      intro l
      induction l with
      | nil => intro k hk; exact hk
      | cons e l ih => intro k hk; exact ih _ ((hk.closeS' _).free' _ _)
    have h1 := key n.sv.table n (ClSame.refl i n)
    have h2 : ClSame i n { (n.sv.table.foldl (fun n e => (n.closeS e.2).free (e.2, true) cfg.fix) n) with sv := { (n.sv.table.foldl (fun n e => (n.closeS e.2).free (e.2, true) cfg.fix) n).sv with table := [], st := .inited } } := h1.same rfl rfl rfl
    exact h2.ev' .svStop rfl

theorem ClSame.svShut (i : Nat) (n : N) (t : Nat) : ClSame i n (svShut n t).1 := by
  unfold Tbox.C06.Net.svShut; split
  · exact ClSame.refl i n
  · simp only; split
    · exact ClSame.refl i n
    · split
      · split
        · exact (ClSame.setLink i n _ _).trans (ClSame.push i _ _)
        · exact ClSame.setLink i n _ _
      · exact ClSame.refl i n

theorem ClSame.svCleanup (i : Nat) (cfg : Cfg) (n : N) : ClSame i n (svCleanup cfg n) := by
  unfold Tbox.C06.Net.svCleanup; split
  · exact ClSame.refl i n
  · have key : ∀ (l : List Nat) (k : N), ClSame i n k → ClSame i n (l.foldl (fun n l => (n.closeSNow l).markRst l) k) := by
      intro l
      induction l with
      | nil => intro k hk; exact hk
      | cons e l ih => intro k hk; exact ih _ ((hk.closeSNow' _).setLink' _ _)
    exact (key _ _ (ClSame.svStop i cfg n)).same rfl rfl rfl

theorem ClSame.clSend (i : Nat) (n : N) (j : Nat) (d : List Byte) : ClSame i n (clSend n j d).1 := by
  unfold Tbox.C06.Net.clSend; simp only; split
  · split
    · split
      · exact ClSame.push i n _
      · exact (ClSame.push i n _).trans (ClSame.push i _ _)
    · exact ClSame.refl i n
  · exact ClSame.refl i n

theorem ClSame.clShut (i : Nat) (n : N) (j : Nat) : ClSame i n (clShut n j).1 := by
  unfold Tbox.C06.Net.clShut; simp only; split
  · split
    · split
      · exact (ClSame.setLink i n _ _).trans (ClSame.push i _ _)
      · exact ClSame.setLink i n _ _
    · exact ClSame.refl i n
  · exact ClSame.refl i n



/-! ### TcpClient's own calls -/

theorem CI.ph_off {i : Nat} {n : N} (h : CI i n) (hst : (n.client i).st ≠ .connected) : cphase i n.hist = .off := by
  rw [h.ph]; simp [expect, hst]

theorem CI.ph_on {i : Nat} {n : N} (h : CI i n) (hst : (n.client i).st = .connected) {l : Nat}
    (hl : (n.client i).link = some l) : cphase i n.hist = .on l := by
  rw [h.ph]; simp [expect, hst, hl]

theorem client_lt_of_st {n : N} {i : Nat} (h : (n.client i).st ≠ .none) : i < 2 := by
  by_cases hi : i < 2
  · exact hi
  · rw [client_big n i hi] at h; exact absurd rfl h

/-- the invariant between the moment a connection of client i is gone and the disconnected callback:
not Connected, started -/
structure CW (i : Nat) (n : N) : Prop where
  ne : (n.client i).st ≠ .connected
  act : (n.client i).st ≠ .connecting → (n.client i).cn.st ≠ .connecting ∧ (n.client i).cn.st ≠ .delay
  q : (qfold i n.hist).2 = true
  onb : (qfold i n.hist).1 = true

theorem CW.same {i : Nat} {n m : N} (h : CW i n) (hs : ClSame i n m) : CW i m := by
  refine ⟨by rw [hs.st]; exact h.ne, ?_, by rw [hs.qf]; exact h.q, by rw [hs.qf]; exact h.onb⟩
  intro hc; rw [hs.st] at hc; rw [hs.cn hc]; exact h.act hc

/-- `start()` of client j up to the call of the connector's start() -/
abbrev clMid (n : N) (j : Nat) : N := (n.setClient j { n.client j with st := .connecting }).ev (.clStart j)

theorem clMid_hist (n : N) (j : Nat) : (clMid n j).hist = n.hist ++ [.clStart j] := by
  show (n.setClient j _).hist ++ _ = _
  rw [setClient_hist']

theorem clMid_client (n : N) (j : Nat) (hlt : j < 2) : (clMid n j).client j = { n.client j with st := .connecting } := by
  show (n.setClient j _).client j = _
  rw [client_setClient_self n j _ hlt]

theorem clStart_noop (cfg : Cfg) (n : N) (j : Nat) (h : (n.client j).st ≠ .inited) : (clStart cfg n j).1 = n := by
  unfold Tbox.C06.Net.clStart; simp only; split
  · rfl
  · rename_i hst; exact absurd hst (by simpa using h)

theorem clStart_self (cfg : Cfg) (n : N) (j : Nat) (h : (n.client j).st = .inited) :
    ClSame j (clMid n j) (clStart cfg n j).1 := by
  have hlt : j < 2 := client_lt_of_st (by rw [h]; simp)
  have hc1 : ((clMid n j).client j).st = .connecting := by rw [clMid_client n j hlt]
  unfold Tbox.C06.Net.clStart; simp only; split
  · rename_i hst; exact absurd h hst
  · split
    · exact ClSame.refl j _
    · have s1 := ClSame.setCn j (clMid n j) (.cl j) { (n.client j).cn with fails := 0 } (fun _ => hc1)
      exact s1.trans (ClSame.cnEnter j cfg _ (.cl j) (fun _ => s1.st_eq hc1))

theorem ClSame.clStart_ne (i : Nat) (cfg : Cfg) (n : N) (j : Nat) (hj : j ≠ i) : ClSame i n (clStart cfg n j).1 := by
  unfold Tbox.C06.Net.clStart; simp only; split
  · exact ClSame.refl i n
  · have h1 : ClSame i n ((n.setClient j { n.client j with st := .connecting }).ev (.clStart j)) :=
      (ClSame.setClient i n j _ (fun h => absurd h hj) (fun h => absurd h hj) (fun h => absurd h hj)).ev' _ (by simp [Ev.quiet, hj])
    split
    · exact h1
    · exact (h1.trans (ClSame.setCn i _ (.cl j) _ (fun h => by cases h; exact absurd rfl hj))).trans
        (ClSame.cnEnter i cfg _ (.cl j) (fun h => by cases h; exact absurd rfl hj))

theorem clStart_ph (i : Nat) (cfg : Cfg) (n : N) (j : Nat) : cphase i (clStart cfg n j).1.hist = cphase i n.hist := by
  by_cases hj : j = i
  · subst hj
    by_cases hst : (n.client j).st = .inited
    · rw [(clStart_self cfg n j hst).ph, clMid_hist, cphase_append]; simp [cstep]
    · rw [clStart_noop cfg n j hst]
  · exact (ClSame.clStart_ne i cfg n j hj).ph

theorem CI_clStart (i : Nat) (cfg : Cfg) (n : N) (j : Nat) (h : CI i n) : CI i (clStart cfg n j).1 := by
  by_cases hj : j = i
  · subst hj
    by_cases hst : (n.client j).st = .inited
    · have hlt : j < 2 := client_lt_of_st (by rw [hst]; simp)
      have hoff := h.ph_off (by rw [hst]; simp)
      have hc := clMid_client n j hlt
      have hh := clMid_hist n j
      refine CI.same ?_ (clStart_self cfg n j hst)
      exact ⟨by rw [hh, cphase_append, hc]; simp [cstep, expect, hoff], by rw [hc]; simp, by rw [hc]; simp,
        by rw [hh, qfold_append]; simp [qstep, h.q], by intro _; rw [hh, qfold_append]; simp [qstep]⟩
    · rw [clStart_noop cfg n j hst]; exact h
  · exact h.same (ClSame.clStart_ne i cfg n j hj)

theorem CW_clStart (i : Nat) (cfg : Cfg) (n : N) (j : Nat) (h : CW i n) : CW i (clStart cfg n j).1 := by
  by_cases hj : j = i
  · subst hj
    by_cases hst : (n.client j).st = .inited
    · have hlt : j < 2 := client_lt_of_st (by rw [hst]; simp)
      have hc := clMid_client n j hlt
      have hh := clMid_hist n j
      refine CW.same ?_ (clStart_self cfg n j hst)
      exact ⟨by rw [hc]; simp, by rw [hc]; simp, by rw [hh, qfold_append]; simp [qstep, h.q],
        by rw [hh, qfold_append]; simp [qstep]⟩
    · rw [clStart_noop cfg n j hst]; exact h
  · exact h.same (ClSame.clStart_ne i cfg n j hj)

theorem ClSame.clStop_ne (i : Nat) (n : N) (j : Nat) (hj : j ≠ i) : ClSame i n (clStop n j) := by
  unfold Tbox.C06.Net.clStop; simp only; split
  · have h1 := ClSame.cnStop i n (.cl j) (fun h => by cases h; exact absurd rfl hj)
    exact (h1.trans (ClSame.setClient i _ j _ (fun h => absurd h hj) (fun h => absurd h hj) (fun h => absurd h hj))).ev' _
      (by simp [Ev.quiet, hj])
  · split
    · exact ((((ClSame.closeC i n _).free' _ _).trans (ClSame.setClient i _ j _ (fun h => absurd h hj) (fun h => absurd h hj)
        (fun h => absurd h hj)))).ev' _ (by simp [Ev.quiet, hj])
    · exact (ClSame.setClient i n j _ (fun h => absurd h hj) (fun h => absurd h hj) (fun h => absurd h hj)).ev' _
        (by simp [Ev.quiet, hj])
  · exact ClSame.refl i n

/-- a state in which client j was just put back to Inited by stop(): the invariant holds -/
theorem CI.stopped {j : Nat} {m : N} (c : Client) (hlt : j < 2) (hph : cphase j m.hist ≠ .bad)
    (hq : (qfold j m.hist).2 = true) (hst : c.st = .inited)
    (hcn : c.cn.st ≠ .connecting ∧ c.cn.st ≠ .delay) : CI j ((m.setClient j c).ev (.clStop j)) := by
  have hc : (((m.setClient j c).ev (.clStop j)).client j) = c := by
    show (m.setClient j c).client j = c
    exact client_setClient_self m j c hlt
  have hh : ((m.setClient j c).ev (.clStop j)).hist = m.hist ++ [.clStop j] := by
    show (m.setClient j c).hist ++ _ = _
    rw [setClient_hist']
  refine ⟨?_, by rw [hc, hst]; simp, by rw [hc]; exact fun _ => hcn, by rw [hh, qfold_append]; simpa [qstep] using hq,
    by rw [hc, hst]; simp⟩
  rw [hh, cphase_append, hc]
  cases hp : cphase j m.hist <;> simp_all [cstep, expect]

/-- after stop() the client is not Connected and its user's view is "no connection" -/
theorem CI_clStop (i : Nat) (n : N) (j : Nat) (h : CI i n) : CI i (clStop n j) := by
  by_cases hj : j = i
  · subst hj
    unfold Tbox.C06.Net.clStop; simp only; split
    · rename_i hst
      have hlt : j < 2 := client_lt_of_st (by rw [hst]; simp)
      have s1 := ClSame.cnStop j n (.cl j) (fun _ => hst)
      have hid := cnStop_idle n (.cl j)
      refine CI.stopped _ hlt ?_ ?_ rfl hid
      · rw [s1.ph, h.ph_off (by rw [hst]; simp)]; simp
      · rw [s1.qf]; exact h.q
    · rename_i hst
      have hlt : j < 2 := client_lt_of_st (by rw [hst]; simp)
      have hidle := h.act (by rw [hst]; simp)
      split
      · rename_i l hl
        have s1 : ClSame j n ((n.closeC l).free (l, false) true) := (ClSame.closeC j n l).free' _ _
        have hcn := s1.cn (by rw [hst]; simp)
        refine CI.stopped _ hlt ?_ ?_ rfl ?_
        · rw [s1.ph, h.ph_on hst hl]; simp
        · rw [s1.qf]; exact h.q
        · show (((n.closeC l).free (l, false) true).client j).cn.st ≠ _ ∧ (((n.closeC l).free (l, false) true).client j).cn.st ≠ _
          rw [hcn]; exact hidle
      · rename_i hl
        have := h.conn hst
        rw [hl] at this; simp at this
    · exact h
  · exact h.same (ClSame.clStop_ne i n j hj)

theorem clStop_ne_connected (n : N) (j : Nat) : ((clStop n j).client j).st ≠ .connected := by
  unfold Tbox.C06.Net.clStop; simp only; split
  · rename_i hst
    have hlt : j < 2 := client_lt_of_st (by rw [hst]; simp)
    show (((cnStop n (.cl j)).setClient j _).client j).st ≠ _
    rw [client_setClient_self _ j _ hlt]; simp
  · rename_i hst
    have hlt : j < 2 := client_lt_of_st (by rw [hst]; simp)
    split
    · show ((((n.closeC _).free _ true).setClient j _).client j).st ≠ _
      rw [client_setClient_self _ j _ hlt]; simp
    · show ((n.setClient j _).client j).st ≠ _
      rw [client_setClient_self _ j _ hlt]; simp
  · rename_i h1 h2; exact fun h => h2 h

theorem closeCNow_hist (n : N) (l : Nat) : (n.closeCNow l).hist = n.hist := by
  unfold N.closeCNow; simp only; split
  · split
    · unfold N.push; rw [wake_hist]; rfl
    · rfl
  · rfl

theorem cnStop_hist (n : N) (w : Who) : (cnStop n w).hist = n.hist := by
  unfold Tbox.C06.Net.cnStop; simp only; split
  · split
    · rw [setCn_hist, closeCNow_hist]
    · rw [setCn_hist]
  · split
    · rw [setCn_hist]
    · rw [setCn_hist]
  · rfl

theorem ClSame.clCleanup_ne (i : Nat) (n : N) (j : Nat) (hj : j ≠ i) : ClSame i n (clCleanup n j) := by
  unfold Tbox.C06.Net.clCleanup; split
  · exact ClSame.refl i n
  · have h1 := (ClSame.clStop_ne i n j hj).trans (ClSame.cnStop i _ (.cl j) (fun h => by cases h; exact absurd rfl hj))
    exact h1.trans (ClSame.setClient i _ j _ (fun h => absurd h hj) (fun h => absurd h hj) (fun h => absurd h hj))

theorem CI_clCleanup (i : Nat) (n : N) (j : Nat) (h : CI i n) : CI i (clCleanup n j) := by
  by_cases hj : j = i
  · subst hj
    unfold Tbox.C06.Net.clCleanup; split
    · exact h
    · rename_i hst
      have hlt : j < 2 := client_lt_of_st hst
      have h1 := CI_clStop j n j h
      have hoff := h1.ph_off (clStop_ne_connected n j)
      simp only
      generalize hm : cnStop (clStop n j) (.cl j) = m
      have hh : m.hist = (clStop n j).hist := by rw [← hm, cnStop_hist]
      generalize hc : ({ m.client j with st := .none, reconnect := true, cn := { (m.client j).cn with st := .none, fails := 0, tries := 0 } } : Client) = c
      have hcs : c.st = .none := by rw [← hc]
      have hcc : c.cn.st = .none := by rw [← hc]
      have hcl : (m.setClient j c).client j = c := client_setClient_self m j c hlt
      exact ⟨by rw [setClient_hist', hh, hoff, hcl]; simp [expect, hcs], by rw [hcl, hcs]; simp,
        by rw [hcl, hcc]; simp, by rw [setClient_hist', hh]; exact h1.q, by rw [hcl, hcs]; simp⟩
  · exact h.same (ClSame.clCleanup_ne i n j hj)

/-! ### the callback scripts -/

theorem CI_runAct (i : Nat) (cfg : Cfg) (x : Ctx) (n : N) (a : Act) (h : CI i n) : CI i (runAct cfg x n a) := by
  cases a with
  | stop =>
      cases x <;> simp only [runAct]
      · exact h.same (ClSame.svStop i cfg n)
      · exact CI_clStop i n _ h
      · exact h.same ((ClSame.cnStop i n .kn (fun hh => by cases hh)).ev' _ rfl)
  | start =>
      cases x <;> simp only [runAct]
      · exact h
      · exact CI_clStart i cfg n _ h
      · exact h
  | disc =>
      cases x <;> simp only [runAct]
      · exact h.same (ClSame.svDisconnect i n _)
      · exact h
      · exact h
  | send d =>
      cases x <;> simp only [runAct]
      · exact h.same (ClSame.svSend i n _ _)
      · exact h.same (ClSame.clSend i n _ _)
      · exact h
  | more d =>
      simp only [runAct]
      split
      · exact h
      · have h0 : CI i ({ n with budget := n.budget - 1 } : N) := h.same (ClSame.of_eq rfl rfl rfl)
        cases x <;> simp only
        · exact h0.same (ClSame.svSend i _ _ _)
        · exact h0.same (ClSame.clSend i _ _ _)
        · exact h0
  | shut =>
      cases x <;> simp only [runAct]
      · exact h.same (ClSame.svShut i n _)
      · exact h.same (ClSame.clShut i n _)
      · exact h
  | cleanup =>
      simp only [runAct]
      have h0 : ∀ b : Bool, CI i (if b = true then ({ n with uaf := true } : N) else n) := by
        intro b; split
        · exact h.same (ClSame.of_eq rfl rfl rfl)
        · exact h
      cases x <;> simp only
      · exact (h0 _).same (ClSame.svCleanup i cfg _)
      · exact CI_clCleanup i _ _ (h0 _)
      · exact (h0 _).same (ClSame.knCleanup i _)

theorem CI_runScript (i : Nat) (cfg : Cfg) (x : Ctx) (s : Script) (n : N) (h : CI i n) : CI i (runScript cfg x n s) := by
  unfold runScript
  induction s generalizing n with
  | nil => exact h
  | cons a s ih => exact ih _ (CI_runAct i cfg x n a h)

theorem CI_runCb (i : Nat) (cfg : Cfg) (x : Ctx) (w : Nat) (s : Script) (n : N) (h : CI i n) : CI i (runCb cfg x w n s) := by
  unfold runCb
  have h0 : CI i ({ n with inCb := some (x, w) } : N) := h.same (ClSame.of_eq rfl rfl rfl)
  exact (CI_runScript i cfg x s _ h0).same (ClSame.of_eq rfl rfl rfl)

theorem ClSame.svAccept (i : Nat) (n : N) (l : Nat) (rest : List Nat) : ClSame i n (svAccept n l rest) := by
  unfold Tbox.C06.Net.svAccept; simp only
  have h0 : ClSame i n ({ n with backlog := rest, sv := { n.sv with issued := n.sv.issued + 1, table := n.sv.table ++ [(n.sv.issued, l)] }, alive := n.alive ++ [(l, true)] } : N) := ClSame.of_eq rfl rfl rfl
  have h1 := (h0.setLink' l { n.link l with tok := some n.sv.issued, held := [] }).wakeIfPending' (.s l)
  split <;> split <;> split <;> first
    | exact h1.ev' _ rfl
    | exact (h1.push' _).ev' _ rfl
    | exact ((h1.push' _).push' _).ev' _ rfl
    | exact (((h1.push' _).push' _).push' _).ev' _ rfl

theorem CI_knFailCb (i : Nat) (cfg : Cfg) (r : N × Bool) (h : CI i r.1) : CI i (knFailCb cfg r) := by
  unfold knFailCb; split
  · have h1 := CI_runCb i cfg .kn 0 r.1.knFail _ (h.same (ClSame.ev i r.1 .knFailed rfl))
    simp only
    split
    · exact h1
    · exact h1.same (ClSame.of_eq rfl rfl rfl)
  · exact h

/-! ### the notifications -/

theorem CI.withSv {i : Nat} {n : N} (h : CI i n) (sv' : Server) : CI i { n with sv := sv' } :=
  h.same (ClSame.of_eq rfl rfl rfl)


/-- a connector of client i that is Connecting or in Delay: client i is Connecting -/
theorem CI.hw {i : Nat} {n : N} (h : CI i n) (w : Who) (hst : (n.cn w).st = .connecting ∨ (n.cn w).st = .delay) :
    w = .cl i → (n.client i).st = .connecting := by
  intro hw; subst hw
  apply Classical.byContradiction
  intro hc
  have := h.act hc
  rcases hst with hst | hst
  · exact this.1 hst
  · exact this.2 hst

theorem wakeIfPending_client (n : N) (f : Fd) (i : Nat) : (n.wakeIfPending f).client i = n.client i := by
  unfold N.wakeIfPending; split
  · unfold N.wake; split <;> rfl
  · rfl

/-- a receive / send-complete callback of the current connection -/
theorem CI.emitLive {i : Nat} {n : N} (h : CI i n) {l : Nat} (hst : (n.client i).st = .connected)
    (hl : (n.client i).link = some l) (k : Kind) (hk : (∃ d, k = .recv d) ∨ k = .sendComplete) :
    CI i (n.ev (.cl i l k)) := by
  have hon := h.ph_on hst hl
  have hb := h.on (.inr hst)
  have hh : (n.ev (.cl i l k)).hist = n.hist ++ [.cl i l k] := rfl
  have hc : (n.ev (.cl i l k)).client i = n.client i := rfl
  refine ⟨?_, by rw [hc]; exact h.conn, by rw [hc]; exact h.act, by rw [hh, qfold_append]; simp [qstep, h.q, hb],
    by rw [hc, hh, qfold_append]; intro _; simpa [qstep] using hb⟩
  rw [hh, cphase_append, hc, hon]
  rcases hk with ⟨d, hk⟩ | hk <;> subst hk <;> simp [cstep, expect, hst, hl]

/-- the disconnected callback of a connection that is gone already -/
theorem CW.emitDisc {i : Nat} {n : N} (h : CW i n) {l : Nat} (hph : cphase i n.hist = .on l) :
    CI i (n.ev (.cl i l .disconnected)) := by
  have hh : (n.ev (.cl i l .disconnected)).hist = n.hist ++ [.cl i l .disconnected] := rfl
  have hc : (n.ev (.cl i l .disconnected)).client i = n.client i := rfl
  refine ⟨?_, by rw [hc]; exact fun hx => absurd hx h.ne, by rw [hc]; exact h.act,
    by rw [hh, qfold_append]; simp [qstep, h.q, h.onb], by rw [hh, qfold_append]; intro _; simpa [qstep] using h.onb⟩
  rw [hh, cphase_append, hc, hph]
  simp [cstep, expect, h.ne]

theorem CI_handle (i : Nat) (cfg : Cfg) (n : N) (m : Msg) (h : CI i n) : CI i (handle cfg n m) := by
  cases m with
  | writable w =>
      simp only [handle]
      split
      · rename_i l hst hp
        have hw := h.hw w (.inl hst)
        split
        · -- the connect fails late
          have s0 : ClSame i n (({ n with lateFail := n.lateFail - 1 } : N).closeCNow l) :=
            (ClSame.of_eq rfl rfl rfl : ClSame i n ({ n with lateFail := n.lateFail - 1 } : N)).closeCNow' l
          have s1 := s0.trans (ClSame.cnFail i cfg _ w (fun hh => s0.st_eq (hw hh)))
          cases w with
          | cl j => exact h.same s1
          | kn => exact CI_knFailCb i cfg _ (h.same s1)
          | raw => exact h.same s1
        · have s1 : ClSame i n (n.setCn w { n.cn w with st := .inited, pend := none }) := ClSame.setCn i n w _ hw
          have hidle := cn_setCn_idle n w { n.cn w with st := .inited, pend := none } (by simp) (by simp)
          generalize n.setCn w { n.cn w with st := .inited, pend := none } = n1 at s1 hidle
          have s2 : ClSame i n (({ n1 with alive := n1.alive ++ [(l, false)] } : N).wakeIfPending (.c l)) :=
            (s1.trans (ClSame.of_eq rfl rfl rfl : ClSame i n1 ({ n1 with alive := n1.alive ++ [(l, false)] } : N))).wakeIfPending' _
          have hcl : ∀ k, (({ n1 with alive := n1.alive ++ [(l, false)] } : N).wakeIfPending (.c l)).client k = n1.client k :=
            fun k => wakeIfPending_client _ _ k
          generalize (({ n1 with alive := n1.alive ++ [(l, false)] } : N).wakeIfPending (.c l)) = n2 at s2 hcl
          have h2 := h.same s2
          cases w with
          | cl j =>
              simp only
              refine CI_runCb i cfg _ _ _ _ ?_
              by_cases hj : j = i
              · subst hj
                have hcon : (n2.client j).st = .connecting := s2.st_eq (hw rfl)
                have hlt : j < 2 := client_lt_of_st (by rw [hcon]; simp)
                have hoff := h2.ph_off (by rw [hcon]; simp)
                have hb := h2.on (.inl hcon)
                have hid : (n2.client j).cn.st ≠ .connecting ∧ (n2.client j).cn.st ≠ .delay := by
                  rw [hcl j]; exact hidle
                generalize hcc : ({ n2.client j with st := .connected, link := some l } : Client) = c
                have hcs : c.st = .connected := by rw [← hcc]
                have hclk : c.link = some l := by rw [← hcc]
                have hccn : c.cn = (n2.client j).cn := by rw [← hcc]
                have hc : ((n2.setClient j c).ev (.cl j l .connected)).client j = c := client_setClient_self n2 j c hlt
                have hh : ((n2.setClient j c).ev (.cl j l .connected)).hist = n2.hist ++ [.cl j l .connected] := by
                  show (n2.setClient j c).hist ++ _ = _
                  rw [setClient_hist']
                refine ⟨?_, by rw [hc, hclk]; simp, by rw [hc, hccn]; exact fun _ => hid,
                  by rw [hh, qfold_append]; simp [qstep, h2.q, hb], by rw [hh, qfold_append]; intro _; simpa [qstep] using hb⟩
                rw [hh, cphase_append, hc, hoff]
                simp [cstep, expect, hcs, hclk]
              · exact h2.same ((ClSame.setClient i n2 j _ (fun hh => absurd hh hj) (fun hh => absurd hh hj)
                  (fun hh => absurd hh hj)).ev' _ (by simp [Ev.quiet, hj]))
          | kn =>
              simp only
              exact CI_runCb i cfg _ _ _ _ (h2.same (((ClSame.ev i n2 .knConnected rfl).closeC' _).free' _ _))
          | raw =>
              simp only
              exact CI_runCb i cfg _ _ _ _ (h2.same (((ClSame.ev i n2 .knConnected rfl).closeC' _).free' _ _))
      · exact h
  | accept =>
      simp only [handle]
      split
      · split
        · exact h.same ((ClSame.of_eq rfl rfl rfl : ClSame i n ({ n with acceptFail := n.acceptFail - 1 } : N)).push' _)
        · split
          · rename_i l rest _ _ _ _
            have s0 : ClSame i n (({ n with acceptAbort := n.acceptAbort - 1, backlog := rest } : N).closeSNow l) :=
              (ClSame.of_eq rfl rfl rfl : ClSame i n ({ n with acceptAbort := n.acceptAbort - 1, backlog := rest } : N)).closeSNow' l
            split
            · exact h.same (s0.push' _)
            · exact h.same s0
          · exact CI_runCb i cfg _ _ _ _ (h.same (ClSame.svAccept i n _ _))
      · exact h
  | toS l d =>
      simp only [handle]
      split
      · split
        · exact h.same (ClSame.setLink i n _ _)
        · exact h
      · split
        · exact CI_runCb i cfg _ _ _ _ (h.same (ClSame.ev i n _ rfl))
        · exact h
  | sentS l =>
      simp only [handle]
      split
      · split
        · exact CI_runCb i cfg _ _ _ _ (h.same (ClSame.ev i n _ rfl))
        · exact h
      · exact h
  | eofS l =>
      simp only [handle]
      split
      · split
        · rename_i t _ _
          have h1 : CI i (({ n with busy := some (l, true) } : N).ev (.sv t .disconnected)) :=
            h.same ((ClSame.of_eq rfl rfl rfl : ClSame i n ({ n with busy := some (l, true) } : N)).ev' _ rfl)
          have h2 := CI_runCb i cfg (.sv t) 1 n.sv.sDisc _ h1
          have h3 : CI i { (runCb cfg (.sv t) 1 (({ n with busy := some (l, true) } : N).ev (.sv t .disconnected)) n.sv.sDisc) with busy := none } :=
            h2.same (ClSame.of_eq rfl rfl rfl)
          split
          · exact (h3.withSv _).same ((ClSame.closeS i _ _).free' _ _)
          · exact h3
        · exact h
      · exact h
  | toC l d =>
      simp only [handle]
      split
      · rename_i j _
        split
        · rename_i hg
          refine CI_runCb i cfg _ _ _ _ ?_
          by_cases hj : j = i
          · subst hj; exact h.emitLive hg.1 hg.2 _ (.inl ⟨d, rfl⟩)
          · exact h.same (ClSame.ev i n _ (by simp [Ev.quiet, hj]))
        · exact h
      · split
        · exact h.same (ClSame.of_eq rfl rfl rfl)
        · exact h.same (ClSame.of_eq rfl rfl rfl)
      · exact h
  | sentC l =>
      simp only [handle]
      split
      · rename_i j _
        split
        · rename_i hg
          refine CI_runCb i cfg _ _ _ _ ?_
          by_cases hj : j = i
          · subst hj; exact h.emitLive hg.1 hg.2 _ (.inr rfl)
          · exact h.same (ClSame.ev i n _ (by simp [Ev.quiet, hj]))
        · exact h
      · exact h
  | eofC l =>
      simp only [handle]
      split
      · rename_i j _
        split
        · rename_i hg
          refine CI_runCb i cfg _ _ _ _ ?_
          have s1 : ClSame i n ((n.closeC l).free (l, false) true) := (ClSame.closeC i n l).free' _ _
          generalize (n.closeC l).free (l, false) true = n1 at s1
          by_cases hj : j = i
          · subst hj
            have hlt : j < 2 := client_lt_of_st (by rw [hg.1]; simp)
            have h1 := h.same s1
            have hst1 : (n1.client j).st = .connected := s1.st_eq hg.1
            have hl1 : (n1.client j).link = some l := by rw [s1.link]; exact hg.2
            have hidle := h1.act (by rw [hst1]; simp)
            generalize hcc : ({ n1.client j with st := .inited, link := none } : Client) = c
            have hcs : c.st = .inited := by rw [← hcc]
            have hccn : c.cn = (n1.client j).cn := by rw [← hcc]
            have hc : (n1.setClient j c).client j = c := client_setClient_self n1 j c hlt
            have hw2 : CW j (n1.setClient j c) :=
              ⟨by rw [hc, hcs]; simp, by rw [hc, hccn]; exact fun _ => hidle, by rw [setClient_hist']; exact h1.q,
               by rw [setClient_hist']; exact h1.on (.inr hst1)⟩
            have hp2 : cphase j (n1.setClient j c).hist = .on l := by rw [setClient_hist']; exact h1.ph_on hst1 hl1
            split
            · exact (CW_clStart j cfg _ j hw2).emitDisc (by rw [clStart_ph]; exact hp2)
            · exact hw2.emitDisc hp2
          · have s2 := s1.trans (ClSame.setClient i n1 j { n1.client j with st := .inited, link := none }
              (fun hh => absurd hh hj) (fun hh => absurd hh hj) (fun hh => absurd hh hj))
            split
            · exact h.same ((s2.trans (ClSame.clStart_ne i cfg _ j hj)).ev' _ (by simp [Ev.quiet, hj]))
            · exact h.same (s2.ev' _ (by simp [Ev.quiet, hj]))
        · exact h
      · split
        · exact h.same (ClSame.of_eq rfl rfl rfl)
        · exact h.same (ClSame.of_eq rfl rfl rfl)
      · exact h

/-! ### the operations -/

theorem CI_fireTimer (i : Nat) (cfg : Cfg) (n : N) (w : Who) (h : CI i n) : CI i (fireTimer cfg n w) := by
  unfold fireTimer; simp only; split
  · rename_i hg
    have hw := h.hw w (.inr hg.1)
    have s1 : ClSame i n (n.setCn w { n.cn w with deadline := none }) := ClSame.setCn i n w _ hw
    have s2 := s1.trans (ClSame.cnEnter i cfg _ w (fun hh => s1.st_eq (hw hh)))
    cases w with
    | kn => exact CI_knFailCb i cfg _ (h.same s2)
    | cl j => exact h.same s2
    | raw => exact h.same s2
  · exact h

theorem CI_fireAll (i : Nat) (cfg : Cfg) (fuel : Nat) : ∀ (n : N), CI i n → CI i (fireAll cfg fuel n) := by
  have key : ∀ (l : List (Who × Nat × Nat)) (k : N), CI i k → CI i (l.foldl (fun n t => fireTimer cfg n t.1) k) := by
    intro l
    induction l with
    | nil => intro k hk; exact hk
    | cons e l ih => intro k hk; exact ih _ (CI_fireTimer i cfg _ _ hk)
  induction fuel with
  | zero => intro n h; exact h
  | succ f ih =>
      intro n h
      unfold fireAll
      split
      · exact h
      · exact ih _ (key _ _ h)

theorem CI_step (i : Nat) (cfg : Cfg) (n : N) (op : Op) (h : CI i n) : CI i (step cfg n op).1 := by
  cases op with
  | svInit => simp only [step]; split; exact h; split <;> exact h.same (ClSame.of_eq rfl rfl rfl)
  | svStart =>
      simp only [step]; split; exact h
      have s1 : ClSame i n (({ n with sv := { n.sv with st := .running } } : N).ev .svStart) :=
        (ClSame.of_eq rfl rfl rfl : ClSame i n ({ n with sv := { n.sv with st := .running } } : N)).ev' _ rfl
      split; exact h.same (s1.push' _); exact h.same s1
  | svStop => exact h.same (ClSame.svStop i cfg n)
  | svCleanup => exact h.same (ClSame.svCleanup i cfg n)
  | svSend t d => exact h.same (ClSame.svSend i n t d)
  | svDisc t => exact h.same (ClSame.svDisconnect i n t)
  | svValid t => exact h
  | svShut t => exact h.same (ClSame.svShut i n t)
  | svScript w s => exact h.same (ClSame.of_eq rfl rfl rfl)
  | clInit j =>
      simp only [step]; split; exact h
      rename_i hst
      have hst' : (n.client j).st = .none := by simpa using hst
      by_cases hj : j = i
      · subst hj
        by_cases hlt : j < 2
        · have hoff := h.ph_off (by rw [hst']; simp)
          have hidle := h.act (by rw [hst']; simp)
          generalize hcc : ({ n.client j with st := .inited, cn := { (n.client j).cn with st := if (n.client j).cn.st = .none then .inited else (n.client j).cn.st } } : Client) = c
          have hcs : c.st = .inited := by rw [← hcc]
          have hccn : c.cn.st ≠ .connecting ∧ c.cn.st ≠ .delay := by
            rw [← hcc]; simp only; split
            · exact ⟨by simp, by simp⟩
            · exact hidle
          have hc : (n.setClient j c).client j = c := client_setClient_self n j c hlt
          exact ⟨by rw [setClient_hist', hoff, hc]; simp [expect, hcs], by rw [hc, hcs]; simp, by rw [hc]; exact fun _ => hccn,
            by rw [setClient_hist']; exact h.q, by rw [hc, hcs]; simp⟩
        · have : ∀ c, n.setClient j c = n := by
            intro c
            unfold N.setClient
            have h0 : j ≠ 0 := by omega
            have h1 : j ≠ 1 := by omega
            simp [h0, h1]
          rw [this]; exact h
      · exact h.same (ClSame.setClient i n j _ (fun hh => absurd hh hj) (fun hh => absurd hh hj) (fun hh => absurd hh hj))
  | clStart j => exact CI_clStart i cfg n j h
  | clStop j => exact CI_clStop i n j h
  | clCleanup j => exact CI_clCleanup i n j h
  | clRec j b =>
      exact h.same (ClSame.setClient i n j _ (fun hh => by subst hh; rfl) (fun hh => by subst hh; rfl) (fun hh _ => by subst hh; rfl))
  | clSend j d => exact h.same (ClSame.clSend i n j d)
  | clShut j => exact h.same (ClSame.clShut i n j)
  | clScript j w s =>
      simp only [step]
      refine h.same (ClSame.setClient i n j _ ?_ ?_ ?_)
      · intro hh; subst hh; split <;> rfl
      · intro hh; subst hh; split <;> rfl
      · intro hh _; subst hh; split <;> rfl
  | knInit tries => exact h.same (ClSame.of_eq rfl rfl rfl)
  | knStart =>
      simp only [step]; split; exact h
      have s1 : ClSame i n (({ n with kn := { n.kn with fails := 0 } } : N).ev .knStart) :=
        (ClSame.of_eq rfl rfl rfl : ClSame i n ({ n with kn := { n.kn with fails := 0 } } : N)).ev' _ rfl
      exact CI_knFailCb i cfg _ (h.same (s1.trans (ClSame.cnEnter i cfg _ .kn (fun hh => by cases hh))))
  | knStop => exact h.same ((ClSame.cnStop i n .kn (fun hh => by cases hh)).ev' _ rfl)
  | knCleanup => exact h.same (ClSame.knCleanup i n)
  | knScript w s => simp only [step]; split <;> exact h.same (ClSame.of_eq rfl rfl rfl)
  | rawConn =>
      simp only [step]; split
      · exact h.same ((ClSame.of_eq rfl rfl rfl : ClSame i n ({ n with links := n.links ++ [({ who := .raw } : Link)], backlog := n.backlog ++ [n.links.length], rawLink := some n.links.length, rawEof := false, rawHeld := [], rawEofHeld := false } : N)).push' _)
      · exact h
  | rawSend d =>
      simp only [step]; split
      · split; exact h.same (ClSame.push i n _); exact h
      · exact h
  | rawClose => simp only [step]; split; exact h.same ((ClSame.closeCNow i n _).same rfl rfl rfl); exact h
  | rawHold b => simp only [step]; split <;> exact h.same (ClSame.of_eq rfl rfl rfl)
  | adv ms =>
      simp only [step]
      exact CI_fireAll i cfg _ _ (h.same (ClSame.of_eq rfl rfl rfl))
  | knDelay tbl => exact h.same (ClSame.of_eq rfl rfl rfl)
  | knDelayAct tbl k cl => exact h.same (ClSame.of_eq rfl rfl rfl)
  | knDelayRe tbl k => exact h.same (ClSame.of_eq rfl rfl rfl)
  | budget k => exact h.same (ClSame.of_eq rfl rfl rfl)
  | fault kind k => simp only [step]; split <;> exact h.same (ClSame.of_eq rfl rfl rfl)

theorem CI_drain (i : Nat) (cfg : Cfg) (fuel : Nat) (n : N) (h : CI i n) : CI i (drain cfg fuel n) := by
  induction fuel generalizing n with
  | zero => exact h
  | succ f ih =>
      unfold drain
      split
      · exact ih _ (CI_handle i cfg _ _ (h.same (ClSame.of_eq rfl rfl rfl)))
      · have h' : CI i n.endPass := h.same (ClSame.of_eq rfl rfl rfl)
        simp only
        split
        · exact h'
        · have h1 := CI_fireAll i cfg timerFuel
            { n.endPass with qn := [], qlate := [], lastFds := (passOrder n.endPass (n.endPass.qn ++ n.endPass.qlate)).1 }
            (h'.same (ClSame.of_eq rfl rfl rfl))
          exact ih _ (h1.same (ClSame.of_eq rfl rfl rfl))

theorem CI_stepQ (i : Nat) (cfg : Cfg) (n : N) (op : Op) (h : CI i n) : CI i (stepQ cfg n op) := by
  unfold stepQ; split
  · have h0 : CI i ({ n with lastFds := [] } : N) := h.same (ClSame.of_eq rfl rfl rfl)
    exact CI_drain i cfg _ _ ((CI_step i cfg _ op h0).same (ClSame.of_eq rfl rfl rfl))
  · exact h

theorem CI_run (i : Nat) (cfg : Cfg) (ops : List Op) (n : N) (h : CI i n) : CI i (run cfg n ops) := by
  unfold run
  induction ops generalizing n with
  | nil => exact h
  | cons op ops ih => exact ih _ (CI_stepQ i cfg n op h)

theorem init_CI (i : Nat) : CI i init := by
  have hc : init.client i = {} := by unfold N.client init; split; rfl; split <;> rfl
  refine ⟨by rw [hc]; rfl, by rw [hc]; simp, by rw [hc]; simp, rfl, by rw [hc]; simp⟩

/-- `expect` never says `bad` for a client whose connection has a link -/
theorem CI.not_bad {i : Nat} {n : N} (h : CI i n) : cphase i n.hist ≠ .bad := by
  rw [h.ph]; unfold expect; split
  · rename_i hst
    have := h.conn hst
    cases hl : (n.client i).link with
    | none => rw [hl] at this; simp at this
    | some l => simp
  · simp

theorem CI.quiet {i : Nat} {n : N} (h : CI i n) : clQuietOk i false n.hist = true := by
  have := qfold_spec i n.hist (false, true)
  have hq := h.q
  unfold qfold at hq
  rw [this] at hq
  simpa using hq

end Tbox.C06.Net
