/- C06 — helper lemmas for the plumbing model: connector consistency and "no object is used after
it was deleted" (`UI`), with patches/C06-04 and C06-05 (`cfg.fix`). -/
import TboxModel.C06.NetProofs
namespace Tbox.C06.Net

/-- a connector's write event exists exactly while Connecting, its retry timer exactly while in Delay -/
def CnOk (c : Cn) : Prop := (c.pend.isSome ↔ c.st = .connecting) ∧ (c.deadline.isSome ↔ c.st = .delay)

structure UI (n : N) : Prop where
  uaf : n.uaf = false
  c0 : CnOk n.c0.cn
  c1 : CnOk n.c1.cn
  kn : CnOk n.kn

theorem UI.cn {n : N} (h : UI n) (w : Who) : CnOk (n.cn w) := by
  cases w with
  | cl i =>
      simp only [N.cn, N.client]; split; exact h.c0; split; exact h.c1
      exact ⟨by simp, by simp⟩
  | kn => exact h.kn
  | raw => exact h.kn

/-- everything except the connectors and the flag -/
structure USame (n m : N) : Prop where
  uaf : m.uaf = n.uaf
  c0 : m.c0.cn = n.c0.cn
  c1 : m.c1.cn = n.c1.cn
  kn : m.kn = n.kn

theorem UI.same {n m : N} (h : UI n) (hs : USame n m) : UI m :=
  ⟨by rw [hs.uaf]; exact h.uaf, by rw [hs.c0]; exact h.c0, by rw [hs.c1]; exact h.c1, by rw [hs.kn]; exact h.kn⟩

theorem USame.wake (n : N) (f : Fd) : USame n (n.wake f) := by
  unfold N.wake; split <;> exact ⟨rfl, rfl, rfl, rfl⟩
theorem UI.wake {n : N} (h : UI n) (f : Fd) : UI (n.wake f) := h.same (USame.wake n f)
theorem UI.wakeIfPending {n : N} (h : UI n) (f : Fd) : UI (n.wakeIfPending f) := by
  unfold N.wakeIfPending; split; exact h.wake f; exact h
theorem UI.push {n : N} (h : UI n) (x : Msg) : UI (n.push x) := by
  unfold N.push
  exact UI.wake (n := { n with qn := (mergeData n.qn x).getD (n.qn ++ [x]) }) (h.same ⟨rfl, rfl, rfl, rfl⟩) _
theorem UI.pushLate {n : N} (h : UI n) (x : Msg) : UI (n.pushLate x) := h.same ⟨rfl, rfl, rfl, rfl⟩
theorem UI.ev {n : N} (h : UI n) (e : Ev) : UI (n.ev e) := h.same ⟨rfl, rfl, rfl, rfl⟩
theorem UI.setLink {n : N} (h : UI n) (l : Nat) (k : Link) : UI (n.setLink l k) := h.same ⟨rfl, rfl, rfl, rfl⟩

/-- replacing a client by one with a consistent connector -/
theorem UI.setClient {n : N} (h : UI n) (i : Nat) (c : Client) (hc : CnOk c.cn) : UI (n.setClient i c) := by
  unfold N.setClient; split
  · exact ⟨h.uaf, hc, h.c1, h.kn⟩
  · split
    · exact ⟨h.uaf, h.c0, hc, h.kn⟩
    · exact h

theorem UI.setCn {n : N} (h : UI n) (w : Who) (c : Cn) (hc : CnOk c) : UI (n.setCn w c) := by
  cases w with
  | cl i => exact h.setClient i _ hc
  | kn => exact ⟨h.uaf, h.c0, h.c1, hc⟩
  | raw => exact ⟨h.uaf, h.c0, h.c1, hc⟩

/-- a deferred delete, or a delete of something that is not executing -/
theorem UI.free {n : N} (h : UI n) (o : Nat × Bool) (d : Bool) (hd : d = true ∨ n.busy ≠ some o) : UI (n.free o d) := by
  refine ⟨?_, h.c0, h.c1, h.kn⟩
  show (n.uaf || (!d && n.busy == some o)) = false
  rcases hd with hd | hd
  · simp [h.uaf, hd]
  · simp [h.uaf]; intro _; exact hd

theorem UI.closeS {n : N} (h : UI n) (l : Nat) : UI (n.closeS l) := by
  unfold N.closeS; simp only; split
  · split
    · exact (h.setLink _ _).pushLate _
    · exact h.setLink _ _
  · exact h

theorem UI.closeC {n : N} (h : UI n) (l : Nat) : UI (n.closeC l) := by
  unfold N.closeC; simp only; split
  · split
    · exact (h.setLink _ _).pushLate _
    · exact h.setLink _ _
  · exact h

theorem UI.closeSNow {n : N} (h : UI n) (l : Nat) : UI (n.closeSNow l) := by
  unfold N.closeSNow; simp only; split
  · split
    · exact (h.setLink _ _).push _
    · exact h.setLink _ _
  · exact h

theorem UI.closeCNow {n : N} (h : UI n) (l : Nat) : UI (n.closeCNow l) := by
  unfold N.closeCNow; simp only; split
  · split
    · exact (h.setLink _ _).push _
    · exact h.setLink _ _
  · exact h

theorem USame.trans {a b c : N} (h1 : USame a b) (h2 : USame b c) : USame a c :=
  ⟨h2.uaf.trans h1.uaf, h2.c0.trans h1.c0, h2.c1.trans h1.c1, h2.kn.trans h1.kn⟩

theorem USame.cn {n m : N} (h : USame n m) (w : Who) : m.cn w = n.cn w := by
  cases w with
  | cl i => simp only [N.cn, N.client]; split; exact h.c0; split; exact h.c1; rfl
  | kn => exact h.kn
  | raw => exact h.kn

theorem USame.closeCNow (n : N) (l : Nat) : USame n (n.closeCNow l) := by
  unfold N.closeCNow; simp only; split
  · split
    · unfold N.push
      refine USame.trans (b := (n.setLink l { n.link l with cOpen := false })) ⟨rfl, rfl, rfl, rfl⟩ ?_
      refine USame.trans (b := { (n.setLink l { n.link l with cOpen := false }) with qn := (mergeData (n.setLink l { n.link l with cOpen := false }).qn (.eofS l)).getD ((n.setLink l { n.link l with cOpen := false }).qn ++ [.eofS l]) }) ⟨rfl, rfl, rfl, rfl⟩ ?_
      exact USame.wake _ _
    · exact ⟨rfl, rfl, rfl, rfl⟩
  · exact ⟨rfl, rfl, rfl, rfl⟩

theorem closeCNow_cn (n : N) (l : Nat) (w : Who) : (n.closeCNow l).cn w = n.cn w := (USame.closeCNow n l).cn w

theorem closeC_cn (n : N) (l : Nat) (w : Who) : (n.closeC l).cn w = n.cn w := by
  unfold N.closeC; simp only; split
  · split <;> rfl
  · rfl


/-! ### one connector in flux -/

def slot : Who → Nat
  | .cl i => if i = 0 then 0 else if i = 1 then 1 else 3
  | _ => 2

/-- `UI` except for the connector in slot `s` -/
structure UIbut (s : Nat) (n : N) : Prop where
  uaf : n.uaf = false
  c0 : s ≠ 0 → CnOk n.c0.cn
  c1 : s ≠ 1 → CnOk n.c1.cn
  kn : s ≠ 2 → CnOk n.kn

theorem UI.but {n : N} (h : UI n) (s : Nat) : UIbut s n := ⟨h.uaf, fun _ => h.c0, fun _ => h.c1, fun _ => h.kn⟩

theorem UIbut.same {s : Nat} {n m : N} (h : UIbut s n) (hs : USame n m) : UIbut s m :=
  ⟨by rw [hs.uaf]; exact h.uaf, fun x => by rw [hs.c0]; exact h.c0 x, fun x => by rw [hs.c1]; exact h.c1 x,
   fun x => by rw [hs.kn]; exact h.kn x⟩

theorem UIbut.setCn {n : N} {w : Who} (h : UIbut (slot w) n) (c : Cn) (hc : CnOk c) : UI (n.setCn w c) := by
  cases w with
  | cl i =>
      simp only [N.setCn, N.setClient, N.client]
      by_cases hi : i = 0
      · simp only [hi, if_true]
        exact ⟨h.uaf, hc, h.c1 (by simp [slot, hi]), h.kn (by simp [slot, hi])⟩
      · by_cases hj : i = 1
        · simp only [hj, if_true]
          exact ⟨h.uaf, h.c0 (by simp [slot, hj]), hc, h.kn (by simp [slot, hj])⟩
        · simp only [hi, hj, if_false]
          exact ⟨h.uaf, h.c0 (by simp [slot, hi, hj]), h.c1 (by simp [slot, hi, hj]), h.kn (by simp [slot, hi, hj])⟩
  | kn => exact ⟨h.uaf, h.c0 (by simp [slot]), h.c1 (by simp [slot]), hc⟩
  | raw => exact ⟨h.uaf, h.c0 (by simp [slot]), h.c1 (by simp [slot]), hc⟩

/-- overwriting the connector in flux keeps the rest -/
theorem UIbut.setCn' {n : N} {w : Who} (h : UIbut (slot w) n) (c : Cn) : UIbut (slot w) (n.setCn w c) := by
  cases w with
  | cl i =>
      simp only [N.setCn, N.setClient, N.client]
      by_cases hi : i = 0
      · subst hi
        simp only [if_true]
        exact ⟨h.uaf, fun x => absurd (by simp [slot]) x, h.c1, h.kn⟩
      · by_cases hj : i = 1
        · subst hj
          simp only [if_true]
          refine ⟨h.uaf, h.c0, fun x => absurd (by simp [slot]) x, h.kn⟩
        · simp only [hi, hj, if_false]
          exact h
  | kn => exact ⟨h.uaf, h.c0, h.c1, fun x => absurd (by simp [slot]) x⟩
  | raw => exact ⟨h.uaf, h.c0, h.c1, fun x => absurd (by simp [slot]) x⟩

/-- after `setCn w c` the connector `w` has no timer if `c` has none (for a client index that does
not exist nothing is stored and the default connector is read back) -/
theorem cn_setCn_deadline (n : N) (w : Who) (c : Cn) (hc : c.deadline = none) :
    ((n.setCn w c).cn w).deadline = none := by
  cases w with
  | cl i =>
      simp only [N.setCn, N.cn, N.setClient, N.client]
      by_cases hi : i = 0
      · simp [hi, hc]
      · by_cases hj : i = 1
        · simp [hj, hc]
        · simp [hi, hj]
  | kn => exact hc
  | raw => exact hc

theorem cn_setCn_idle (n : N) (w : Who) (c : Cn) (h1 : c.st ≠ .connecting) (h2 : c.st ≠ .delay) :
    ((n.setCn w c).cn w).st ≠ .connecting ∧ ((n.setCn w c).cn w).st ≠ .delay := by
  cases w with
  | cl i =>
      simp only [N.setCn, N.cn, N.setClient, N.client]
      by_cases hi : i = 0
      · simp [hi, h1, h2]
      · by_cases hj : i = 1
        · simp [hj, h1, h2]
        · simp [hi, hj]
  | kn => exact ⟨h1, h2⟩
  | raw => exact ⟨h1, h2⟩

/-- a connector that is neither Connecting nor in Delay has no write event and no timer -/
theorem CnOk.idle {c : Cn} (h : CnOk c) (h1 : c.st ≠ .connecting) (h2 : c.st ≠ .delay) :
    c.pend = none ∧ c.deadline = none := by
  constructor
  · cases hp : c.pend with
    | none => rfl
    | some l => exact absurd (h.1.mp (by simp [hp])) h1
  · cases hd : c.deadline with
    | none => rfl
    | some d => exact absurd (h.2.mp (by simp [hd])) h2

theorem cnStop_idle (n : N) (w : Who) : ((cnStop n w).cn w).st ≠ .connecting ∧ ((cnStop n w).cn w).st ≠ .delay := by
  unfold cnStop; simp only
  split
  · exact cn_setCn_idle _ _ _ (by simp) (by simp)
  · exact cn_setCn_idle _ _ _ (by simp) (by simp)
  · rename_i h1 h2
    exact ⟨fun h => h1 h, fun h => h2 h⟩

theorem UI_cnStop (n : N) (w : Who) (h : UI n) : UI (cnStop n w) := by
  have hc := h.cn w
  unfold cnStop; simp only
  split
  · rename_i hst
    have hdn : (n.cn w).deadline = none := by
      cases hd : (n.cn w).deadline with
      | none => rfl
      | some d => have := hc.2.mp (by simp [hd]); rw [hst] at this; cases this
    split
    · rename_i l hp
      have h1 := (h.closeCNow l).but (slot w)
      exact h1.setCn _ ⟨by simp, by simp [hdn]⟩
    · exact (h.but (slot w)).setCn _ ⟨by simp, by simp [hdn]⟩
  · rename_i hst
    have hds : (n.cn w).deadline.isSome := hc.2.mpr hst
    have hpn : (n.cn w).pend = none := by
      cases hp : (n.cn w).pend with
      | none => rfl
      | some l => have := hc.1.mp (by simp [hp]); rw [hst] at this; cases this
    split
    · rename_i hn; cases hd : (n.cn w).deadline <;> simp_all
    · exact (h.but (slot w)).setCn _ ⟨by simp [hpn], by simp⟩
  · exact h

theorem UI_knCleanup (n : N) (h : UI n) : UI (knCleanup n) := by
  unfold knCleanup; split
  · exact h
  · have h1 := UI_cnStop n .kn h
    have hid := cnStop_idle n .kn
    have hi := h1.kn.idle hid.1 hid.2
    exact ⟨h1.uaf, h1.c0, h1.c1, ⟨by simp; exact hi.1, by simp; exact hi.2⟩⟩

/-- `cnFail` / `cnEnter` started with no timer pending leave every connector consistent -/
theorem UI_cnFail (cfg : Cfg) (hf : cfg.fix = true ∧ cfg.fix2 = true ∧ cfg.fix3 = true) (n : N) (w : Who) (h : UIbut (slot w) n)
    (hd : (n.cn w).deadline = none) : UI (cnFail cfg n w).1 := by
  unfold cnFail; simp only
  split
  · exact h.setCn _ ⟨by simp [hf], by simp [hf, hd]⟩
  · have ha : UI ({ (n.setCn w { ({ n.cn w with fails := (n.cn w).fails + 1, pend := none } : Cn) with
        st := .delay, deadline := some (n.now + 1000 * ({ n.cn w with fails := (n.cn w).fails + 1, pend := none } : Cn).delayOf ((n.cn w).fails + 1)), seq := n.tick }) with tick := n.tick + 1 } : N) :=
      (h.setCn _ ⟨by simp, by simp⟩).same ⟨rfl, rfl, rfl, rfl⟩
    split
    · split
      · split
        · split
          · exact UI_knCleanup _ ha
          · split
            · have hs := ((UI_cnStop _ .kn ha).ev .knStop).ev .knStart
              exact ⟨hs.uaf, hs.c0, hs.c1, ⟨by simp, by simp⟩⟩
            · exact (UI_cnStop _ _ ha).ev _
        · rename_i hfx; exact absurd hf.1 hfx
      · exact ha
    · exact ha

theorem UI_cnEnter (cfg : Cfg) (hf : cfg.fix = true ∧ cfg.fix2 = true ∧ cfg.fix3 = true) (n : N) (w : Who) (h : UIbut (slot w) n)
    (hd : (n.cn w).deadline = none) : UI (cnEnter cfg n w).1 := by
  unfold cnEnter
  split
  · simp only [hf.2.2, if_true]
    have h0 : UIbut (slot w) ({ n with sockFail := n.sockFail - 1 } : N) := h.same ⟨rfl, rfl, rfl, rfl⟩
    exact UI_cnFail cfg hf _ w h0 (by cases w <;> exact hd)
  · split
    · have h0 : UIbut (slot w) ({ n with connFail := n.connFail - 1 } : N) := h.same ⟨rfl, rfl, rfl, rfl⟩
      exact UI_cnFail cfg hf _ w h0 (by cases w <;> exact hd)
    · split
      · simp only
        have h1 : UIbut (slot w) ({ n with links := n.links ++ [({ who := w } : Link)], backlog := n.backlog ++ [n.links.length] } : N) :=
          h.same ⟨rfl, rfl, rfl, rfl⟩
        have hd1 : (({ n with links := n.links ++ [({ who := w } : Link)], backlog := n.backlog ++ [n.links.length] } : N).cn w).deadline = none := by
          cases w <;> exact hd
        exact ((h1.setCn _ ⟨by simp, by simp [hd1]⟩).push _).push _
      · exact UI_cnFail cfg hf n w h hd


/-! ### the API calls, the callback scripts, the notifications -/

theorem UI_svSend (n : N) (t : Nat) (d : List Byte) (h : UI n) : UI (svSend n t d).1 := by
  unfold svSend; split
  · exact h
  · split
    · exact h
    · simp only; split
      · split
        · exact h.push _
        · exact (h.push _).push _
      · exact h

theorem UI.withSv {n : N} (h : UI n) (sv' : Server) : UI { n with sv := sv' } := h.same ⟨rfl, rfl, rfl, rfl⟩

theorem UI_svDisconnect (n : N) (t : Nat) (h : UI n) : UI (svDisconnect n t).1 := by
  unfold svDisconnect; split
  · exact h
  · exact ((h.withSv _).closeS _).free _ _ (.inl rfl)

theorem UI_svStop (cfg : Cfg) (hf : cfg.fix = true ∧ cfg.fix2 = true ∧ cfg.fix3 = true) (n : N) (h : UI n) : UI (svStop cfg n) := by
  unfold svStop; split
  · exact h
  · simp only
    have key : ∀ (l : List (Nat × Nat)) (k : N), UI k →
        UI (l.foldl (fun n e => (n.closeS e.2).free (e.2, true) cfg.fix) k) := by
      intro l
      induction l with
      | nil => intro k hk; exact hk
      | cons e l ih => intro k hk; exact ih _ ((hk.closeS _).free _ _ (.inl hf.1))
    exact ((key _ _ h).withSv _).ev _

theorem UI_clSend (n : N) (i : Nat) (d : List Byte) (h : UI n) : UI (clSend n i d).1 := by
  unfold clSend; simp only; split
  · split
    · split
      · exact h.push _
      · exact (h.push _).push _
    · exact h
  · exact h

theorem client_cnOk {n : N} (h : UI n) (i : Nat) : CnOk (n.client i).cn := by
  unfold N.client; split; exact h.c0; split; exact h.c1; exact ⟨by simp, by simp⟩

theorem cn_cl (n : N) (i : Nat) : n.cn (.cl i) = (n.client i).cn := rfl

theorem UI_clStart (cfg : Cfg) (hf : cfg.fix = true ∧ cfg.fix2 = true ∧ cfg.fix3 = true) (n : N) (i : Nat) (h : UI n) : UI (clStart cfg n i).1 := by
  unfold clStart; simp only; split
  · exact h
  · have hc := client_cnOk h i
    have h1 : UI ((n.setClient i { n.client i with st := .connecting }).ev (.clStart i)) :=
      (h.setClient i { n.client i with st := .connecting } hc).ev _
    split
    · exact h1
    · rename_i hst
      have hst' : (n.client i).cn.st = .inited := by simpa using hst
      have hd : (n.client i).cn.deadline = none := by
        cases hd : (n.client i).cn.deadline with
        | none => rfl
        | some d => have := hc.2.mp (by simp [hd]); rw [hst'] at this; cases this
      have h2 := (h1.but (slot (.cl i))).setCn' (w := .cl i) { (n.client i).cn with fails := 0 }
      refine UI_cnEnter cfg hf _ (.cl i) h2 ?_
      exact cn_setCn_deadline _ _ _ hd

theorem UI_clStop (n : N) (i : Nat) (h : UI n) : UI (clStop n i) := by
  unfold clStop; simp only; split
  · have h1 := UI_cnStop n (.cl i) h
    exact (h1.setClient i { (cnStop n (.cl i)).client i with st := .inited } (client_cnOk h1 i)).ev _
  · split
    · rename_i l _
      have h1 : UI ((n.closeC l).free (l, false) true) := (h.closeC l).free (l, false) true (.inl rfl)
      exact (h1.setClient i { ((n.closeC l).free (l, false) true).client i with st := .inited, link := none }
        (client_cnOk h1 i)).ev _
    · exact (h.setClient i { n.client i with st := .inited, link := none } (client_cnOk h i)).ev _
  · exact h

theorem UI_svShut (n : N) (t : Nat) (h : UI n) : UI (svShut n t).1 := by
  unfold svShut; split
  · exact h
  · simp only; split
    · exact h
    · split
      · split
        · exact (h.setLink _ _).push _
        · exact h.setLink _ _
      · exact h

theorem UI_clShut (n : N) (i : Nat) (h : UI n) : UI (clShut n i).1 := by
  unfold clShut; simp only; split
  · split
    · split
      · exact (h.setLink _ _).push _
      · exact h.setLink _ _
    · exact h
  · exact h

theorem UI_foldCloseSNow (l : List Nat) (k : N) (hk : UI k) : UI (l.foldl (fun n l => (n.closeSNow l).markRst l) k) := by
  induction l generalizing k with
  | nil => exact hk
  | cons e l ih => exact ih _ ((hk.closeSNow _).setLink _ _)

theorem UI_svCleanup (cfg : Cfg) (hf : cfg.fix = true ∧ cfg.fix2 = true ∧ cfg.fix3 = true) (n : N) (h : UI n) :
    UI (svCleanup cfg n) := by
  unfold svCleanup; split
  · exact h
  · exact (UI_foldCloseSNow _ _ (UI_svStop cfg hf n h)).same ⟨rfl, rfl, rfl, rfl⟩

theorem UI_clCleanup (n : N) (i : Nat) (h : UI n) : UI (clCleanup n i) := by
  unfold clCleanup; split
  · exact h
  · have h1 := UI_cnStop _ (.cl i) (UI_clStop n i h)
    have hid := cnStop_idle (clStop n i) (.cl i)
    have hi := (client_cnOk h1 i).idle hid.1 hid.2
    exact h1.setClient i _ ⟨by simp; exact hi.1, by simp; exact hi.2⟩

theorem UI_runAct (cfg : Cfg) (hf : cfg.fix = true ∧ cfg.fix2 = true ∧ cfg.fix3 = true) (x : Ctx) (n : N) (a : Act) (h : UI n) : UI (runAct cfg x n a) := by
  cases a with
  | stop =>
      cases x <;> simp only [runAct]
      · exact UI_svStop cfg hf n h
      · exact UI_clStop n _ h
      · exact (UI_cnStop n _ h).ev _
  | start =>
      cases x <;> simp only [runAct]
      · exact h
      · exact UI_clStart cfg hf n _ h
      · exact h
  | disc =>
      cases x <;> simp only [runAct]
      · exact UI_svDisconnect n _ h
      · exact h
      · exact h
  | send d =>
      cases x <;> simp only [runAct]
      · exact UI_svSend n _ _ h
      · exact UI_clSend n _ _ h
      · exact h
  | more d =>
      simp only [runAct]
      split
      · exact h
      · have h0 : UI ({ n with budget := n.budget - 1 } : N) := h.same ⟨rfl, rfl, rfl, rfl⟩
        cases x <;> simp only
        · exact UI_svSend _ _ _ h0
        · exact UI_clSend _ _ _ h0
        · exact h0
  | shut =>
      cases x <;> simp only [runAct]
      · exact UI_svShut n _ h
      · exact UI_clShut n _ h
      · exact h
  | cleanup =>
      simp only [runAct, hf.2.1, Bool.not_true, Bool.false_and]
      cases x <;> simp
      · exact UI_svCleanup cfg hf n h
      · exact UI_clCleanup n _ h
      · exact UI_knCleanup n h

theorem UI_runScript (cfg : Cfg) (hf : cfg.fix = true ∧ cfg.fix2 = true ∧ cfg.fix3 = true) (x : Ctx) (s : Script) (n : N) (h : UI n) :
    UI (runScript cfg x n s) := by
  unfold runScript
  induction s generalizing n with
  | nil => exact h
  | cons a s ih => exact ih _ (UI_runAct cfg hf x n a h)


theorem UI_svAccept (n : N) (l : Nat) (rest : List Nat) (h : UI n) : UI (svAccept n l rest) := by
  unfold svAccept; simp only
  have h0 : UI ({ n with backlog := rest, sv := { n.sv with issued := n.sv.issued + 1, table := n.sv.table ++ [(n.sv.issued, l)] }, alive := n.alive ++ [(l, true)] } : N) := h.same ⟨rfl, rfl, rfl, rfl⟩
  have h1 := (h0.setLink l { n.link l with tok := some n.sv.issued, held := [] }).wakeIfPending (.s l)
  split <;> split <;> split <;> first
    | exact h1.ev _
    | exact (h1.push _).ev _
    | exact ((h1.push _).push _).ev _
    | exact (((h1.push _).push _).push _).ev _

theorem UI_runCb (cfg : Cfg) (hf : cfg.fix = true ∧ cfg.fix2 = true ∧ cfg.fix3 = true) (x : Ctx) (w : Nat) (s : Script) (n : N) (h : UI n) :
    UI (runCb cfg x w n s) := by
  unfold runCb
  have h0 : UI ({ n with inCb := some (x, w) } : N) := h.same ⟨rfl, rfl, rfl, rfl⟩
  exact (UI_runScript cfg hf x s _ h0).same ⟨rfl, rfl, rfl, rfl⟩

theorem UI_knFailCb (cfg : Cfg) (hf : cfg.fix = true ∧ cfg.fix2 = true ∧ cfg.fix3 = true) (r : N × Bool) (h : UI r.1) : UI (knFailCb cfg r) := by
  unfold knFailCb; split
  · simp only [hf.1, if_true]
    exact UI_runCb cfg hf _ _ _ _ (h.ev _)
  · exact h

theorem UI_handle (cfg : Cfg) (hf : cfg.fix = true ∧ cfg.fix2 = true ∧ cfg.fix3 = true) (n : N) (m : Msg) (h : UI n) : UI (handle cfg n m) := by
  cases m with
  | writable w =>
      simp only [handle]
      split
      · rename_i l hst hp
        have hc := h.cn w
        have hdn : (n.cn w).deadline = none := by
          cases hd : (n.cn w).deadline with
          | none => rfl
          | some d => have := hc.2.mp (by simp [hd]); rw [hst] at this; cases this
        split
        · -- the connect fails late: the socket is closed, a failed attempt
          have h0 : UI (({ n with lateFail := n.lateFail - 1 } : N).closeCNow l) :=
            UI.closeCNow (n := { n with lateFail := n.lateFail - 1 }) (h.same ⟨rfl, rfl, rfl, rfl⟩) l
          have hd0 : ((({ n with lateFail := n.lateFail - 1 } : N).closeCNow l).cn w).deadline = none := by
            rw [closeCNow_cn]; cases w <;> exact hdn
          have h1 := UI_cnFail cfg hf _ w (h0.but _) hd0
          cases w with
          | cl i => exact h1
          | kn => exact UI_knFailCb cfg hf _ h1
          | raw => exact h1
        · have hs : UI (n.setCn w { n.cn w with st := .inited, pend := none }) :=
            (h.but (slot w)).setCn _ ⟨by simp, by simp [hdn]⟩
          have h1 : UI (({ (n.setCn w { n.cn w with st := .inited, pend := none }) with alive := (n.setCn w { n.cn w with st := .inited, pend := none }).alive ++ [(l, false)] } : N).wakeIfPending (.c l)) :=
            UI.wakeIfPending (n := { (n.setCn w { n.cn w with st := .inited, pend := none }) with alive := (n.setCn w { n.cn w with st := .inited, pend := none }).alive ++ [(l, false)] }) (hs.same ⟨rfl, rfl, rfl, rfl⟩) _
          cases w with
          | cl i =>
              simp only
              refine UI_runCb cfg hf _ _ _ _ (UI.ev ?_ _)
              exact h1.setClient i _ (client_cnOk h1 i)
          | kn =>
              simp only
              exact UI_runCb cfg hf _ _ _ _ (((h1.ev _).closeC _).free _ _ (.inl rfl))
          | raw =>
              simp only
              exact UI_runCb cfg hf _ _ _ _ (((h1.ev _).closeC _).free _ _ (.inl rfl))
      · exact h
  | accept =>
      simp only [handle]
      split
      · split
        · exact UI.push (n := { n with acceptFail := n.acceptFail - 1 }) (h.same ⟨rfl, rfl, rfl, rfl⟩) _
        · split
          · rename_i l rest _ _ _ _
            have h0 : UI (({ n with acceptAbort := n.acceptAbort - 1, backlog := rest } : N).closeSNow l) :=
              UI.closeSNow (n := { n with acceptAbort := n.acceptAbort - 1, backlog := rest }) (h.same ⟨rfl, rfl, rfl, rfl⟩) l
            split
            · exact h0.push _
            · exact h0
          · exact UI_runCb cfg hf _ _ _ _ (UI_svAccept n _ _ h)
      · exact h
  | toS l d =>
      simp only [handle]
      split
      · split
        · exact h.setLink _ _
        · exact h
      · split
        · exact UI_runCb cfg hf _ _ _ _ (h.ev _)
        · exact h
  | sentS l =>
      simp only [handle]
      split
      · split
        · exact UI_runCb cfg hf _ _ _ _ (h.ev _)
        · exact h
      · exact h
  | eofS l =>
      simp only [handle]
      split
      · split
        · rename_i t _ _
          have h1 : UI (({ n with busy := some (l, true) } : N).ev (.sv t .disconnected)) :=
            (h.same (m := { n with busy := some (l, true) }) ⟨rfl, rfl, rfl, rfl⟩).ev _
          have h2 := UI_runCb cfg hf (.sv t) 1 n.sv.sDisc _ h1
          have h3 : UI { (runCb cfg (.sv t) 1 (({ n with busy := some (l, true) } : N).ev (.sv t .disconnected)) n.sv.sDisc) with busy := none } :=
            h2.same ⟨rfl, rfl, rfl, rfl⟩
          split
          · exact ((h3.withSv _).closeS _).free _ _ (.inl rfl)
          · exact h3
        · exact h
      · exact h
  | toC l d =>
      simp only [handle]
      split
      · split
        · exact UI_runCb cfg hf _ _ _ _ (h.ev _)
        · exact h
      · split
        · exact h.same ⟨rfl, rfl, rfl, rfl⟩
        · exact h.same ⟨rfl, rfl, rfl, rfl⟩
      · exact h
  | sentC l =>
      simp only [handle]
      split
      · split
        · exact UI_runCb cfg hf _ _ _ _ (h.ev _)
        · exact h
      · exact h
  | eofC l =>
      simp only [handle]
      split
      · split
        · rename_i i _ _
          refine UI_runCb cfg hf _ _ _ _ (UI.ev ?_ _)
          have h1 : UI ((n.closeC l).free (l, false) true) := (h.closeC l).free _ _ (.inl rfl)
          have h2 : UI (((n.closeC l).free (l, false) true).setClient i
              { ((n.closeC l).free (l, false) true).client i with st := .inited, link := none }) :=
            h1.setClient i _ (client_cnOk h1 i)
          split
          · exact UI_clStart cfg hf _ i h2
          · exact h2
        · exact h
      · split
        · exact h.same ⟨rfl, rfl, rfl, rfl⟩
        · exact h.same ⟨rfl, rfl, rfl, rfl⟩
      · exact h

theorem UI_fireTimer (cfg : Cfg) (hf : cfg.fix = true ∧ cfg.fix2 = true ∧ cfg.fix3 = true) (n : N) (w : Who) (h : UI n) : UI (fireTimer cfg n w) := by
  unfold fireTimer; simp only; split
  · have h1 := (h.but (slot w)).setCn' (w := w) { n.cn w with deadline := none }
    have h2 : UI (cnEnter cfg (n.setCn w { n.cn w with deadline := none }) w).1 :=
      UI_cnEnter cfg hf _ w h1 (cn_setCn_deadline _ _ _ rfl)
    cases w with
    | kn => exact UI_knFailCb cfg hf _ h2
    | cl i => exact h2
    | raw => exact h2
  · exact h

theorem UI_fireAll (cfg : Cfg) (hf : cfg.fix = true ∧ cfg.fix2 = true ∧ cfg.fix3 = true) (fuel : Nat) :
    ∀ (n : N), UI n → UI (fireAll cfg fuel n) := by
  have key : ∀ (l : List (Who × Nat × Nat)) (k : N), UI k → UI (l.foldl (fun n t => fireTimer cfg n t.1) k) := by
    intro l
    induction l with
    | nil => intro k hk; exact hk
    | cons e l ih => intro k hk; exact ih _ (UI_fireTimer cfg hf _ _ hk)
  induction fuel with
  | zero => intro n h; exact h
  | succ f ih =>
      intro n h
      unfold fireAll
      split
      · exact h
      · exact ih _ (key _ _ h)

theorem UI_step (cfg : Cfg) (hf : cfg.fix = true ∧ cfg.fix2 = true ∧ cfg.fix3 = true) (n : N) (op : Op) (h : UI n) : UI (step cfg n op).1 := by
  cases op with
  | svInit => simp only [step]; split; exact h; split <;> exact h.same ⟨rfl, rfl, rfl, rfl⟩
  | svStart =>
      simp only [step]; split; exact h
      have h1 : UI (({ n with sv := { n.sv with st := .running } } : N).ev .svStart) := (h.withSv _).ev _
      split; exact h1.push _; exact h1
  | svStop => exact UI_svStop cfg hf n h
  | svCleanup => exact UI_svCleanup cfg hf n h
  | svSend t d => exact UI_svSend n t d h
  | svDisc t => exact UI_svDisconnect n t h
  | svValid t => exact h
  | svShut t => exact UI_svShut n t h
  | svScript w s => exact h.same ⟨rfl, rfl, rfl, rfl⟩
  | clInit i =>
      simp only [step]; split; exact h
      have hc := client_cnOk h i
      refine h.setClient i _ ?_
      by_cases hn : (n.client i).cn.st = .none
      · have hi := hc.idle (by rw [hn]; simp) (by rw [hn]; simp)
        simp only [hn, if_true]
        exact ⟨by simp [hi.1], by simp [hi.2]⟩
      · simp only [hn, if_false]; exact hc
  | clStart i => exact UI_clStart cfg hf n i h
  | clStop i => exact UI_clStop n i h
  | clCleanup i => exact UI_clCleanup n i h
  | clRec i b => exact h.setClient i _ (client_cnOk h i)
  | clSend i d => exact UI_clSend n i d h
  | clShut i => exact UI_clShut n i h
  | clScript i w s =>
      simp only [step]
      refine h.setClient i _ ?_
      split <;> exact client_cnOk h i
  | knInit tries =>
      simp only [step]
      refine ⟨h.uaf, h.c0, h.c1, ?_⟩
      by_cases hn : n.kn.st = .none
      · have hi := h.kn.idle (by rw [hn]; simp) (by rw [hn]; simp)
        simp only [hn, if_true]
        exact ⟨by simp [hi.1], by simp [hi.2]⟩
      · simp only [hn, if_false]; exact h.kn
  | knStart =>
      simp only [step]; split; exact h
      rename_i hst
      have hst' : n.kn.st = .inited := by simpa using hst
      have hi := h.kn.idle (by rw [hst']; simp) (by rw [hst']; simp)
      have h1 : UI (({ n with kn := { n.kn with fails := 0 } } : N).ev .knStart) :=
        UI.ev (n := { n with kn := { n.kn with fails := 0 } }) ⟨h.uaf, h.c0, h.c1, h.kn⟩ _
      exact UI_knFailCb cfg hf _ (UI_cnEnter cfg hf _ .kn (h1.but _) hi.2)
  | knStop => exact (UI_cnStop n .kn h).ev _
  | knCleanup => exact UI_knCleanup n h
  | knScript w s => simp only [step]; split <;> exact h.same ⟨rfl, rfl, rfl, rfl⟩
  | rawConn =>
      simp only [step]; split
      · exact UI.push (n := { n with links := n.links ++ [({ who := .raw } : Link)], backlog := n.backlog ++ [n.links.length], rawLink := some n.links.length, rawEof := false, rawHeld := [], rawEofHeld := false }) (h.same ⟨rfl, rfl, rfl, rfl⟩) _
      · exact h
  | rawSend d =>
      simp only [step]; split
      · split; exact h.push _; exact h
      · exact h
  | rawClose => simp only [step]; split; exact (h.closeCNow _).same ⟨rfl, rfl, rfl, rfl⟩; exact h
  | rawHold b => simp only [step]; split <;> exact h.same ⟨rfl, rfl, rfl, rfl⟩
  | adv ms =>
      simp only [step]
      exact UI_fireAll cfg hf _ _ (h.same ⟨rfl, rfl, rfl, rfl⟩)
  | knDelay tbl => exact ⟨h.uaf, h.c0, h.c1, h.kn⟩
  | knDelayAct tbl k cl => exact ⟨h.uaf, h.c0, h.c1, h.kn⟩
  | knDelayRe tbl k => exact ⟨h.uaf, h.c0, h.c1, h.kn⟩
  | budget k => exact h.same ⟨rfl, rfl, rfl, rfl⟩
  | fault kind k => simp only [step]; split <;> exact h.same ⟨rfl, rfl, rfl, rfl⟩


theorem UI_drain (cfg : Cfg) (hf : cfg.fix = true ∧ cfg.fix2 = true ∧ cfg.fix3 = true) (fuel : Nat) (n : N) (h : UI n) : UI (drain cfg fuel n) := by
  induction fuel generalizing n with
  | zero => exact h
  | succ f ih =>
      unfold drain
      split
      · exact ih _ (UI_handle cfg hf _ _ (h.same ⟨rfl, rfl, rfl, rfl⟩))
      · have h' : UI n.endPass := h.same ⟨rfl, rfl, rfl, rfl⟩
        simp only
        split
        · exact h'
        · have h1 := UI_fireAll cfg hf timerFuel
            { n.endPass with qn := [], qlate := [], lastFds := (passOrder n.endPass (n.endPass.qn ++ n.endPass.qlate)).1 }
            (h'.same ⟨rfl, rfl, rfl, rfl⟩)
          exact ih _ (h1.same ⟨rfl, rfl, rfl, rfl⟩)

theorem UI_stepQ (cfg : Cfg) (hf : cfg.fix = true ∧ cfg.fix2 = true ∧ cfg.fix3 = true) (n : N) (op : Op) (h : UI n) : UI (stepQ cfg n op) := by
  unfold stepQ; split
  · have h0 : UI ({ n with lastFds := [] } : N) := h.same ⟨rfl, rfl, rfl, rfl⟩
    exact UI_drain cfg hf _ _ ((UI_step cfg hf _ op h0).same ⟨rfl, rfl, rfl, rfl⟩)
  · exact h

theorem UI_run (cfg : Cfg) (hf : cfg.fix = true ∧ cfg.fix2 = true ∧ cfg.fix3 = true) (ops : List Op) (n : N) (h : UI n) : UI (run cfg n ops) := by
  unfold run
  induction ops generalizing n with
  | nil => exact h
  | cons op ops ih => exact ih _ (UI_stepQ cfg hf n op h)

theorem init_UI : UI init := by
  refine ⟨rfl, ?_, ?_, ?_⟩ <;> simp [init, CnOk]

end Tbox.C06.Net
