/-
C06 — global freshness of link ids: no two `connected` callbacks of the TcpClients are ever told the
same link, whatever the clients, the bare connector and the raw peer do.
-/
import TboxModel.C06.NetProofsCl

namespace Tbox.C06.Net

/-- the links the clients' connected callbacks were told -/
def connL (h : List Ev) : List Nat := h.filterMap fun e => match e with | .cl _ l .connected => some l | _ => none

theorem connL_append (h : List Ev) (e : Ev) : connL (h ++ [e]) = connL h ++ connL [e] := by
  simp [connL, List.filterMap_append]

structure LI (n : N) : Prop where
  nodup : (connL n.hist).Nodup
  lt  : ∀ l ∈ connL n.hist, l < n.links.length
  p0  : ∀ l, n.c0.cn.pend = some l → l < n.links.length ∧ l ∉ connL n.hist
  p1  : ∀ l, n.c1.cn.pend = some l → l < n.links.length ∧ l ∉ connL n.hist
  pk  : ∀ l, n.kn.pend = some l → l < n.links.length ∧ l ∉ connL n.hist
  d01 : ∀ l, n.c0.cn.pend = some l → n.c1.cn.pend ≠ some l
  d0k : ∀ l, n.c0.cn.pend = some l → n.kn.pend ≠ some l
  d1k : ∀ l, n.c1.cn.pend = some l → n.kn.pend ≠ some l

/-- nothing new was told, no link went away, every connector still waits for the same link or for none -/
structure LDrop (n m : N) : Prop where
  hist : connL m.hist = connL n.hist
  len  : n.links.length ≤ m.links.length
  c0 : m.c0.cn.pend = n.c0.cn.pend ∨ m.c0.cn.pend = none
  c1 : m.c1.cn.pend = n.c1.cn.pend ∨ m.c1.cn.pend = none
  kn : m.kn.pend = n.kn.pend ∨ m.kn.pend = none

theorem pd_trans {a b c : Option Nat} (h1 : b = a ∨ b = none) (h2 : c = b ∨ c = none) : c = a ∨ c = none := by
  rcases h2 with h2 | h2
  · rw [h2]; exact h1
  · exact .inr h2

theorem pd_some {a b : Option Nat} {l : Nat} (h1 : b = a ∨ b = none) (hb : b = some l) : a = some l := by
  rcases h1 with h1 | h1
  · rw [← h1]; exact hb
  · rw [h1] at hb; cases hb

theorem LDrop.refl (n : N) : LDrop n n := ⟨rfl, Nat.le_refl _, .inl rfl, .inl rfl, .inl rfl⟩

theorem LDrop.trans {a b c : N} (h1 : LDrop a b) (h2 : LDrop b c) : LDrop a c :=
  ⟨h2.hist.trans h1.hist, Nat.le_trans h1.len h2.len, pd_trans h1.c0 h2.c0, pd_trans h1.c1 h2.c1, pd_trans h1.kn h2.kn⟩

theorem LI.drop {n m : N} (h : LI n) (d : LDrop n m) : LI m := by
  refine ⟨by rw [d.hist]; exact h.nodup, ?_, ?_, ?_, ?_, ?_, ?_, ?_⟩
  · intro l hl; rw [d.hist] at hl; exact Nat.lt_of_lt_of_le (h.lt l hl) d.len
  · intro l hl; rw [d.hist]
    exact ⟨Nat.lt_of_lt_of_le (h.p0 l (pd_some d.c0 hl)).1 d.len, (h.p0 l (pd_some d.c0 hl)).2⟩
  · intro l hl; rw [d.hist]
    exact ⟨Nat.lt_of_lt_of_le (h.p1 l (pd_some d.c1 hl)).1 d.len, (h.p1 l (pd_some d.c1 hl)).2⟩
  · intro l hl; rw [d.hist]
    exact ⟨Nat.lt_of_lt_of_le (h.pk l (pd_some d.kn hl)).1 d.len, (h.pk l (pd_some d.kn hl)).2⟩
  · intro l hl hl'; exact h.d01 l (pd_some d.c0 hl) (pd_some d.c1 hl')
  · intro l hl hl'; exact h.d0k l (pd_some d.c0 hl) (pd_some d.kn hl')
  · intro l hl hl'; exact h.d1k l (pd_some d.c1 hl) (pd_some d.kn hl')

/-- link l exists and nobody was told it or waits for it -/
structure LF (n : N) (l : Nat) : Prop where
  li : LI n
  lt : l < n.links.length
  nh : l ∉ connL n.hist
  n0 : n.c0.cn.pend ≠ some l
  n1 : n.c1.cn.pend ≠ some l
  nk : n.kn.pend ≠ some l

theorem LF.drop {n m : N} {l : Nat} (h : LF n l) (d : LDrop n m) : LF m l :=
  ⟨h.li.drop d, Nat.lt_of_lt_of_le h.lt d.len, by rw [d.hist]; exact h.nh,
   fun hh => h.n0 (pd_some d.c0 hh), fun hh => h.n1 (pd_some d.c1 hh), fun hh => h.nk (pd_some d.kn hh)⟩

/-- anything that keeps the pending links, the history and the number of links -/
theorem LDrop.of_eq {n m : N} (h0 : m.c0.cn.pend = n.c0.cn.pend) (h1 : m.c1.cn.pend = n.c1.cn.pend)
    (hk : m.kn.pend = n.kn.pend) (hh : m.hist = n.hist) (hl : m.links.length = n.links.length) : LDrop n m :=
  ⟨by rw [hh], Nat.le_of_eq hl.symm, .inl h0, .inl h1, .inl hk⟩

theorem LDrop.same {n m k : N} (h : LDrop n m) (h0 : k.c0.cn.pend = m.c0.cn.pend) (h1 : k.c1.cn.pend = m.c1.cn.pend)
    (hk : k.kn.pend = m.kn.pend) (hh : k.hist = m.hist) (hl : k.links.length = m.links.length) : LDrop n k :=
  h.trans (LDrop.of_eq h0 h1 hk hh hl)

theorem LDrop.wake (n : N) (f : Fd) : LDrop n (n.wake f) := by
  unfold N.wake; split <;> exact LDrop.of_eq rfl rfl rfl rfl rfl

theorem LDrop.wakeIfPending (n : N) (f : Fd) : LDrop n (n.wakeIfPending f) := by
  unfold N.wakeIfPending; split; exact LDrop.wake n f; exact LDrop.refl n

theorem LDrop.push (n : N) (x : Msg) : LDrop n (n.push x) := by
  unfold N.push
  exact LDrop.trans (b := { n with qn := (mergeData n.qn x).getD (n.qn ++ [x]) }) (LDrop.of_eq rfl rfl rfl rfl rfl) (LDrop.wake _ (x.fd n))

theorem LDrop.pushLate (n : N) (x : Msg) : LDrop n (n.pushLate x) := LDrop.of_eq rfl rfl rfl rfl rfl
theorem LDrop.setLink (n : N) (l : Nat) (k : Link) : LDrop n (n.setLink l k) :=
  LDrop.of_eq rfl rfl rfl rfl (by simp [N.setLink])
theorem LDrop.free (n : N) (o : Nat × Bool) (d : Bool) : LDrop n (n.free o d) := LDrop.of_eq rfl rfl rfl rfl rfl
theorem LDrop.endPass (n : N) : LDrop n n.endPass := LDrop.of_eq rfl rfl rfl rfl (by simp [N.endPass])

theorem LDrop.ev (n : N) (e : Ev) (he : connL [e] = []) : LDrop n (n.ev e) :=
  ⟨by show connL (n.hist ++ [e]) = _; rw [connL_append, he, List.append_nil], Nat.le_refl _, .inl rfl, .inl rfl, .inl rfl⟩

theorem LDrop.closeS (n : N) (l : Nat) : LDrop n (n.closeS l) := by
  unfold N.closeS; simp only; split
  · split
    · exact (LDrop.setLink n _ _).trans (LDrop.pushLate _ _)
    · exact LDrop.setLink n _ _
  · exact LDrop.refl n

theorem LDrop.closeC (n : N) (l : Nat) : LDrop n (n.closeC l) := by
  unfold N.closeC; simp only; split
  · split
    · exact (LDrop.setLink n _ _).trans (LDrop.pushLate _ _)
    · exact LDrop.setLink n _ _
  · exact LDrop.refl n

theorem LDrop.closeSNow (n : N) (l : Nat) : LDrop n (n.closeSNow l) := by
  unfold N.closeSNow; simp only; split
  · split
    · exact (LDrop.setLink n _ _).trans (LDrop.push _ _)
    · exact LDrop.setLink n _ _
  · exact LDrop.refl n

theorem LDrop.closeCNow (n : N) (l : Nat) : LDrop n (n.closeCNow l) := by
  unfold N.closeCNow; simp only; split
  · split
    · exact (LDrop.setLink n _ _).trans (LDrop.push _ _)
    · exact LDrop.setLink n _ _
  · exact LDrop.refl n

theorem LDrop.markRst (n : N) (l : Nat) : LDrop n (n.markRst l) := LDrop.setLink n _ _

/-! forward-chaining forms -/
theorem LDrop.push' {n m : N} (h : LDrop n m) (x : Msg) : LDrop n (m.push x) := h.trans (LDrop.push m x)
theorem LDrop.pushLate' {n m : N} (h : LDrop n m) (x : Msg) : LDrop n (m.pushLate x) := h.trans (LDrop.pushLate m x)
theorem LDrop.setLink' {n m : N} (h : LDrop n m) (l : Nat) (k : Link) : LDrop n (m.setLink l k) := h.trans (LDrop.setLink m l k)
theorem LDrop.free' {n m : N} (h : LDrop n m) (o : Nat × Bool) (d : Bool) : LDrop n (m.free o d) := h.trans (LDrop.free m o d)
theorem LDrop.ev' {n m : N} (h : LDrop n m) (e : Ev) (he : connL [e] = []) : LDrop n (m.ev e) := h.trans (LDrop.ev m e he)
theorem LDrop.closeS' {n m : N} (h : LDrop n m) (l : Nat) : LDrop n (m.closeS l) := h.trans (LDrop.closeS m l)
theorem LDrop.closeC' {n m : N} (h : LDrop n m) (l : Nat) : LDrop n (m.closeC l) := h.trans (LDrop.closeC m l)
theorem LDrop.closeSNow' {n m : N} (h : LDrop n m) (l : Nat) : LDrop n (m.closeSNow l) := h.trans (LDrop.closeSNow m l)
theorem LDrop.closeCNow' {n m : N} (h : LDrop n m) (l : Nat) : LDrop n (m.closeCNow l) := h.trans (LDrop.closeCNow m l)
theorem LDrop.wakeIfPending' {n m : N} (h : LDrop n m) (f : Fd) : LDrop n (m.wakeIfPending f) := h.trans (LDrop.wakeIfPending m f)

/-! ### replacing a client / a connector -/

theorem setClient_big (n : N) (j : Nat) (c : Client) (hj : ¬ j < 2) : n.setClient j c = n := by
  unfold N.setClient
  have h0 : j ≠ 0 := by omega
  have h1 : j ≠ 1 := by omega
  simp [h0, h1]

/-- client j is replaced by one whose connector waits for the same link, or for none -/
theorem LDrop.setClient (n : N) (j : Nat) (c : Client)
    (hc : c.cn.pend = (n.client j).cn.pend ∨ c.cn.pend = none) : LDrop n (n.setClient j c) := by
  by_cases h0 : j = 0
  · subst h0
    exact ⟨rfl, Nat.le_refl _, hc, .inl rfl, .inl rfl⟩
  · by_cases h1 : j = 1
    · subst h1
      exact ⟨rfl, Nat.le_refl _, .inl rfl, hc, .inl rfl⟩
    · rw [setClient_big n j c (by omega)]; exact LDrop.refl n

theorem LDrop.setCn (n : N) (w : Who) (c : Cn) (hc : c.pend = (n.cn w).pend ∨ c.pend = none) : LDrop n (n.setCn w c) := by
  cases w with
  | cl j => exact LDrop.setClient n j _ hc
  | kn => exact ⟨rfl, Nat.le_refl _, .inl rfl, .inl rfl, hc⟩
  | raw => exact ⟨rfl, Nat.le_refl _, .inl rfl, .inl rfl, hc⟩

theorem LDrop.setClient' {n m : N} (h : LDrop n m) (j : Nat) (c : Client)
    (hc : c.cn.pend = (m.client j).cn.pend ∨ c.cn.pend = none) : LDrop n (m.setClient j c) := h.trans (LDrop.setClient m j c hc)
theorem LDrop.setCn' {n m : N} (h : LDrop n m) (w : Who) (c : Cn) (hc : c.pend = (m.cn w).pend ∨ c.pend = none) :
    LDrop n (m.setCn w c) := h.trans (LDrop.setCn m w c hc)

/-! ### the connector -/

theorem LDrop.cnStop (n : N) (w : Who) : LDrop n (cnStop n w) := by
  unfold Tbox.C06.Net.cnStop; simp only
  split
  · split
    · exact (LDrop.closeCNow n _).setCn' w _ (.inr rfl)
    · exact LDrop.setCn n w _ (.inr rfl)
  · split
    · have h0 : LDrop n ({ n with uaf := true } : N) := LDrop.of_eq rfl rfl rfl rfl rfl
      exact h0.setCn' w _ (.inl (by cases w <;> rfl))
    · exact LDrop.setCn n w _ (.inl rfl)
  · exact LDrop.refl n

theorem LDrop.knCleanup (n : N) : LDrop n (knCleanup n) := by
  unfold Tbox.C06.Net.knCleanup; split
  · exact LDrop.refl n
  · exact (LDrop.cnStop n .kn).same rfl rfl rfl rfl rfl

theorem LDrop.cnFail (cfg : Cfg) (n : N) (w : Who) : LDrop n (cnFail cfg n w).1 := by
  unfold Tbox.C06.Net.cnFail; simp only
  split
  · split
    · exact LDrop.setCn n w _ (.inr rfl)
    · exact LDrop.setCn n w _ (.inr rfl)
  · have ha : LDrop n ({ (n.setCn w { ({ n.cn w with fails := (n.cn w).fails + 1, pend := none } : Cn) with
        st := .delay, deadline := some (n.now + 1000 * ({ n.cn w with fails := (n.cn w).fails + 1, pend := none } : Cn).delayOf ((n.cn w).fails + 1)), seq := n.tick }) with tick := n.tick + 1 } : N) :=
      (LDrop.setCn n w _ (.inr rfl)).same rfl rfl rfl rfl rfl
    split
    · split
      · split
        · split
          · exact ha.trans (LDrop.knCleanup _)
          · split
            · have hs := ((ha.trans (LDrop.cnStop _ .kn)).ev' .knStop rfl).ev' .knStart rfl
              exact ⟨hs.hist, hs.len, hs.c0, hs.c1, .inr rfl⟩
            · exact (ha.trans (LDrop.cnStop _ .kn)).ev' _ rfl
        · exact ha.same rfl rfl rfl rfl rfl
      · exact ha
    · exact ha

/-- a connector starts to wait for a link nobody knows -/
theorem LF.setCn {n : N} {l : Nat} (h : LF n l) (w : Who) (c : Cn) (hc : c.pend = some l) : LI (n.setCn w c) := by
  have key0 : ∀ c' : Client, c'.cn.pend = some l → LI ({ n with c0 := c' } : N) := by
    intro c' hc'
    refine ⟨h.li.nodup, h.li.lt, ?_, h.li.p1, h.li.pk, ?_, ?_, h.li.d1k⟩
    · intro l' hl'; show l' < n.links.length ∧ l' ∉ connL n.hist
      have : l' = l := by
        have hl'' : c'.cn.pend = some l' := hl'
        rw [hc'] at hl''; cases hl''; rfl
      subst this; exact ⟨h.lt, h.nh⟩
    · intro l' hl'
      have : l' = l := by
        have hl'' : c'.cn.pend = some l' := hl'
        rw [hc'] at hl''; cases hl''; rfl
      subst this; exact h.n1
    · intro l' hl'
      have : l' = l := by
        have hl'' : c'.cn.pend = some l' := hl'
        rw [hc'] at hl''; cases hl''; rfl
      subst this; exact h.nk
  have key1 : ∀ c' : Client, c'.cn.pend = some l → LI ({ n with c1 := c' } : N) := by
    intro c' hc'
    refine ⟨h.li.nodup, h.li.lt, h.li.p0, ?_, h.li.pk, ?_, h.li.d0k, ?_⟩
    · intro l' hl'; show l' < n.links.length ∧ l' ∉ connL n.hist
      have : l' = l := by
        have hl'' : c'.cn.pend = some l' := hl'
        rw [hc'] at hl''; cases hl''; rfl
      subst this; exact ⟨h.lt, h.nh⟩
    · intro l' hl' hl2
      have : l' = l := by
        have hl'' : c'.cn.pend = some l' := hl2
        rw [hc'] at hl''; cases hl''; rfl
      subst this; exact h.n0 hl'
    · intro l' hl'
      have : l' = l := by
        have hl'' : c'.cn.pend = some l' := hl'
        rw [hc'] at hl''; cases hl''; rfl
      subst this; exact h.nk
  have keyk : LI ({ n with kn := c } : N) := by
    refine ⟨h.li.nodup, h.li.lt, h.li.p0, h.li.p1, ?_, h.li.d01, ?_, ?_⟩
    · intro l' hl'; show l' < n.links.length ∧ l' ∉ connL n.hist
      have : l' = l := by
        have hl'' : c.pend = some l' := hl'
        rw [hc] at hl''; cases hl''; rfl
      subst this; exact ⟨h.lt, h.nh⟩
    · intro l' hl' hl2
      have : l' = l := by
        have hl'' : c.pend = some l' := hl2
        rw [hc] at hl''; cases hl''; rfl
      subst this; exact h.n0 hl'
    · intro l' hl' hl2
      have : l' = l := by
        have hl'' : c.pend = some l' := hl2
        rw [hc] at hl''; cases hl''; rfl
      subst this; exact h.n1 hl'
  cases w with
  | cl j =>
      by_cases h0 : j = 0
      · subst h0; exact key0 _ hc
      · by_cases h1 : j = 1
        · subst h1; exact key1 _ hc
        · show LI (n.setClient j _)
          rw [setClient_big n j _ (by omega)]; exact h.li
  | kn => exact keyk
  | raw => exact keyk

/-- the link a connector waits for is known to nobody else; once the connector forgets it, it is free -/
theorem LI.take {n : N} (h : LI n) (w : Who) {l : Nat} (hp : (n.cn w).pend = some l) (c : Cn) (hc : c.pend = none) :
    LF (n.setCn w c) l := by
  have hd : LDrop n (n.setCn w c) := LDrop.setCn n w c (.inr hc)
  have hli := h.drop hd
  cases w with
  | cl j =>
      by_cases h0 : j = 0
      · subst h0
        have hp' : n.c0.cn.pend = some l := hp
        exact ⟨hli, (h.p0 l hp').1, (h.p0 l hp').2, by show c.pend ≠ some l; rw [hc]; simp, h.d01 l hp', h.d0k l hp'⟩
      · by_cases h1 : j = 1
        · subst h1
          have hp' : n.c1.cn.pend = some l := hp
          exact ⟨hli, (h.p1 l hp').1, (h.p1 l hp').2, fun hh => h.d01 l hh hp', by show c.pend ≠ some l; rw [hc]; simp, h.d1k l hp'⟩
        · exfalso
          have : n.client j = {} := client_big n j (by omega)
          have hp' : (n.client j).cn.pend = some l := hp
          rw [this] at hp'; cases hp'
  | kn =>
      have hp' : n.kn.pend = some l := hp
      exact ⟨hli, (h.pk l hp').1, (h.pk l hp').2, fun hh => h.d0k l hh hp', fun hh => h.d1k l hh hp', by show c.pend ≠ some l; rw [hc]; simp⟩
  | raw =>
      have hp' : n.kn.pend = some l := hp
      exact ⟨hli, (h.pk l hp').1, (h.pk l hp').2, fun hh => h.d0k l hh hp', fun hh => h.d1k l hh hp', by show c.pend ≠ some l; rw [hc]; simp⟩

/-- a client's connected callback is told a free link -/
theorem LF.told {n : N} {l : Nat} (h : LF n l) (i : Nat) : LI (n.ev (.cl i l .connected)) := by
  have hh : connL (n.ev (.cl i l .connected)).hist = connL n.hist ++ [l] := by
    show connL (n.hist ++ [_]) = _
    rw [connL_append]; rfl
  have hm : ∀ l', l' ∉ connL n.hist → l' ≠ l → l' ∉ connL (n.ev (.cl i l .connected)).hist := by
    intro l' h1 h2; rw [hh]; simp [h1, h2]
  refine ⟨?_, ?_, ?_, ?_, ?_, h.li.d01, h.li.d0k, h.li.d1k⟩
  · rw [hh, List.nodup_append]
    refine ⟨h.li.nodup, by simp, ?_⟩
    intro a ha b hb
    simp only [List.mem_singleton] at hb
    subst hb; intro e; subst e; exact h.nh ha
  · intro l' hl'; rw [hh] at hl'; simp at hl'
    rcases hl' with hl' | hl'
    · exact h.li.lt l' hl'
    · subst hl'; exact h.lt
  · intro l' hl'
    exact ⟨(h.li.p0 l' hl').1, hm l' (h.li.p0 l' hl').2 (fun e => h.n0 (by rw [← e]; exact hl'))⟩
  · intro l' hl'
    exact ⟨(h.li.p1 l' hl').1, hm l' (h.li.p1 l' hl').2 (fun e => h.n1 (by rw [← e]; exact hl'))⟩
  · intro l' hl'
    exact ⟨(h.li.pk l' hl').1, hm l' (h.li.pk l' hl').2 (fun e => h.nk (by rw [← e]; exact hl'))⟩

theorem LI_cnEnter (cfg : Cfg) (n : N) (w : Who) (h : LI n) : LI (cnEnter cfg n w).1 := by
  unfold Tbox.C06.Net.cnEnter
  split
  · simp only
    have h0 : LDrop n ({ n with sockFail := n.sockFail - 1 } : N) := LDrop.of_eq rfl rfl rfl rfl rfl
    split
    · exact h.drop (h0.trans (LDrop.cnFail cfg _ w))
    · exact h.drop h0
  · split
    · have h0 : LDrop n ({ n with connFail := n.connFail - 1 } : N) := LDrop.of_eq rfl rfl rfl rfl rfl
      exact h.drop (h0.trans (LDrop.cnFail cfg _ w))
    · split
      · simp only
        have h0 : LDrop n ({ n with links := n.links ++ [({ who := w } : Link)], backlog := n.backlog ++ [n.links.length] } : N) :=
          ⟨rfl, by simp, .inl rfl, .inl rfl, .inl rfl⟩
        have hf : LF ({ n with links := n.links ++ [({ who := w } : Link)], backlog := n.backlog ++ [n.links.length] } : N) n.links.length := by
          refine ⟨h.drop h0, by simp, fun hh => Nat.lt_irrefl _ (h.lt _ hh), ?_, ?_, ?_⟩
          · intro hh; exact Nat.lt_irrefl _ (h.p0 _ hh).1
          · intro hh; exact Nat.lt_irrefl _ (h.p1 _ hh).1
          · intro hh; exact Nat.lt_irrefl _ (h.pk _ hh).1
        exact (hf.setCn w _ rfl).drop ((LDrop.push _ _).push' _)
      · exact h.drop (LDrop.cnFail cfg n w)

/-! ### server and client calls -/

theorem LDrop.svSend (n : N) (t : Nat) (d : List Byte) : LDrop n (svSend n t d).1 := by
  unfold Tbox.C06.Net.svSend; split
  · exact LDrop.refl n
  · split
    · exact LDrop.refl n
    · simp only; split
      · split
        · exact LDrop.push n _
        · exact (LDrop.push n _).trans (LDrop.push _ _)
      · exact LDrop.refl n

theorem LDrop.svDisconnect (n : N) (t : Nat) : LDrop n (svDisconnect n t).1 := by
  unfold Tbox.C06.Net.svDisconnect; split
  · exact LDrop.refl n
  · have h0 : LDrop n ({ n with sv := { n.sv with table := n.sv.table.filter (·.1 ≠ t) } } : N) := LDrop.of_eq rfl rfl rfl rfl rfl
    exact (h0.closeS' _).free' _ _

theorem LDrop.svStop (cfg : Cfg) (n : N) : LDrop n (svStop cfg n) := by
  unfold Tbox.C06.Net.svStop; split
  · exact LDrop.refl n
  · simp only
    have key : ∀ (l : List (Nat × Nat)) (k : N), LDrop n k →
        LDrop n (l.foldl (fun n e => (n.closeS e.2).free (e.2, true) cfg.fix) k) := by
      intro l
      induction l with
      | nil => intro k hk; exact hk
      | cons e l ih => intro k hk; exact ih _ ((hk.closeS' _).free' _ _)
    have h1 := key n.sv.table n (LDrop.refl n)
    have h2 : LDrop n { (n.sv.table.foldl (fun n e => (n.closeS e.2).free (e.2, true) cfg.fix) n) with sv := { (n.sv.table.foldl (fun n e => (n.closeS e.2).free (e.2, true) cfg.fix) n).sv with table := [], st := .inited } } := h1.same rfl rfl rfl rfl rfl
    exact h2.ev' .svStop rfl

theorem LDrop.svShut (n : N) (t : Nat) : LDrop n (svShut n t).1 := by
  unfold Tbox.C06.Net.svShut; split
  · exact LDrop.refl n
  · simp only; split
    · exact LDrop.refl n
    · split
      · split
        · exact (LDrop.setLink n _ _).trans (LDrop.push _ _)
        · exact LDrop.setLink n _ _
      · exact LDrop.refl n

theorem LDrop.svCleanup (cfg : Cfg) (n : N) : LDrop n (svCleanup cfg n) := by
  unfold Tbox.C06.Net.svCleanup; split
  · exact LDrop.refl n
  · have key : ∀ (l : List Nat) (k : N), LDrop n k → LDrop n (l.foldl (fun n l => (n.closeSNow l).markRst l) k) := by
      intro l
      induction l with
      | nil => intro k hk; exact hk
      | cons e l ih => intro k hk; exact ih _ ((hk.closeSNow' _).trans (LDrop.markRst _ _))
    exact (key _ _ (LDrop.svStop cfg n)).same rfl rfl rfl rfl rfl

theorem LDrop.clSend (n : N) (j : Nat) (d : List Byte) : LDrop n (clSend n j d).1 := by
  unfold Tbox.C06.Net.clSend; simp only; split
  · split
    · split
      · exact LDrop.push n _
      · exact (LDrop.push n _).trans (LDrop.push _ _)
    · exact LDrop.refl n
  · exact LDrop.refl n

theorem LDrop.clShut (n : N) (j : Nat) : LDrop n (clShut n j).1 := by
  unfold Tbox.C06.Net.clShut; simp only; split
  · split
    · split
      · exact (LDrop.setLink n _ _).trans (LDrop.push _ _)
      · exact LDrop.setLink n _ _
    · exact LDrop.refl n
  · exact LDrop.refl n

theorem LDrop.clStop (n : N) (j : Nat) : LDrop n (clStop n j) := by
  unfold Tbox.C06.Net.clStop; simp only; split
  · exact ((LDrop.cnStop n (.cl j)).setClient' j _ (by exact .inl rfl)).ev' _ (by rfl)
  · split
    · exact (((LDrop.closeC n _).free' _ _).setClient' j _ (by exact .inl rfl)).ev' _ (by rfl)
    · exact ((LDrop.refl n).setClient' j _ (by exact .inl rfl)).ev' _ (by rfl)
  · exact LDrop.refl n

theorem LDrop.clCleanup (n : N) (j : Nat) : LDrop n (clCleanup n j) := by
  unfold Tbox.C06.Net.clCleanup; split
  · exact LDrop.refl n
  · exact ((LDrop.clStop n j).trans (LDrop.cnStop _ (.cl j))).setClient' j _ (by exact .inl rfl)

theorem LDrop.svAccept (n : N) (l : Nat) (rest : List Nat) : LDrop n (svAccept n l rest) := by
  unfold Tbox.C06.Net.svAccept; simp only
  have h0 : LDrop n ({ n with backlog := rest, sv := { n.sv with issued := n.sv.issued + 1, table := n.sv.table ++ [(n.sv.issued, l)] }, alive := n.alive ++ [(l, true)] } : N) := LDrop.of_eq rfl rfl rfl rfl rfl
  have h1 := (h0.setLink' l { n.link l with tok := some n.sv.issued, held := [] }).wakeIfPending' (.s l)
  split <;> split <;> split <;> first
    | exact h1.ev' _ rfl
    | exact (h1.push' _).ev' _ rfl
    | exact ((h1.push' _).push' _).ev' _ rfl
    | exact (((h1.push' _).push' _).push' _).ev' _ rfl

theorem LI_clStart (cfg : Cfg) (n : N) (j : Nat) (h : LI n) : LI (clStart cfg n j).1 := by
  unfold Tbox.C06.Net.clStart; simp only
  split
  · exact h
  · have s1 : LDrop n ((n.setClient j { n.client j with st := .connecting }).ev (.clStart j)) :=
      (LDrop.setClient n j _ (by exact .inl rfl)).ev' _ (by rfl)
    split
    · exact h.drop s1
    · refine LI_cnEnter cfg _ _ (h.drop (s1.setCn' (.cl j) _ ?_))
      by_cases hlt : j < 2
      · left
        show (n.client j).cn.pend = (((n.setClient j { n.client j with st := .connecting }).ev (.clStart j)).client j).cn.pend
        have : ((n.setClient j { n.client j with st := .connecting }).ev (.clStart j)).client j
            = (n.setClient j { n.client j with st := .connecting }).client j := rfl
        rw [this, client_setClient_self n j _ hlt]
      · right
        show (n.client j).cn.pend = none
        rw [client_big n j hlt]

/-! ### the callback scripts -/

theorem LI_runAct (cfg : Cfg) (x : Ctx) (n : N) (a : Act) (h : LI n) : LI (runAct cfg x n a) := by
  cases a with
  | stop =>
      cases x <;> simp only [runAct]
      · exact h.drop (LDrop.svStop cfg n)
      · exact h.drop (LDrop.clStop n _)
      · exact h.drop ((LDrop.cnStop n .kn).ev' _ rfl)
  | start =>
      cases x <;> simp only [runAct]
      · exact h
      · exact LI_clStart cfg n _ h
      · exact h
  | disc =>
      cases x <;> simp only [runAct]
      · exact h.drop (LDrop.svDisconnect n _)
      · exact h
      · exact h
  | send d =>
      cases x <;> simp only [runAct]
      · exact h.drop (LDrop.svSend n _ _)
      · exact h.drop (LDrop.clSend n _ _)
      · exact h
  | more d =>
      simp only [runAct]
      split
      · exact h
      · have h0 : LI ({ n with budget := n.budget - 1 } : N) := h.drop (LDrop.of_eq rfl rfl rfl rfl rfl)
        cases x <;> simp only
        · exact h0.drop (LDrop.svSend _ _ _)
        · exact h0.drop (LDrop.clSend _ _ _)
        · exact h0
  | shut =>
      cases x <;> simp only [runAct]
      · exact h.drop (LDrop.svShut n _)
      · exact h.drop (LDrop.clShut n _)
      · exact h
  | cleanup =>
      simp only [runAct]
      have h0 : ∀ b : Bool, LI (if b = true then ({ n with uaf := true } : N) else n) := by
        intro b; split
        · exact h.drop (LDrop.of_eq rfl rfl rfl rfl rfl)
        · exact h
      cases x <;> simp only
      · exact (h0 _).drop (LDrop.svCleanup cfg _)
      · exact (h0 _).drop (LDrop.clCleanup _ _)
      · exact (h0 _).drop (LDrop.knCleanup _)

theorem LI_runScript (cfg : Cfg) (x : Ctx) (s : Script) (n : N) (h : LI n) : LI (runScript cfg x n s) := by
  unfold runScript
  induction s generalizing n with
  | nil => exact h
  | cons a s ih => exact ih _ (LI_runAct cfg x n a h)

theorem LI_runCb (cfg : Cfg) (x : Ctx) (w : Nat) (s : Script) (n : N) (h : LI n) : LI (runCb cfg x w n s) := by
  unfold runCb
  have h0 : LI ({ n with inCb := some (x, w) } : N) := h.drop (LDrop.of_eq rfl rfl rfl rfl rfl)
  exact (LI_runScript cfg x s _ h0).drop (LDrop.of_eq rfl rfl rfl rfl rfl)

theorem LI_knFailCb (cfg : Cfg) (r : N × Bool) (h : LI r.1) : LI (knFailCb cfg r) := by
  unfold knFailCb; split
  · have h1 := LI_runCb cfg .kn 0 r.1.knFail _ (h.drop (LDrop.ev r.1 .knFailed rfl))
    simp only
    split
    · exact h1
    · exact h1.drop (LDrop.of_eq rfl rfl rfl rfl rfl)
  · exact h

/-! ### the notifications -/

theorem LI.withSv {n : N} (h : LI n) (sv' : Server) : LI { n with sv := sv' } :=
  h.drop (LDrop.of_eq rfl rfl rfl rfl rfl)

theorem LI_handle (cfg : Cfg) (n : N) (m : Msg) (h : LI n) : LI (handle cfg n m) := by
  cases m with
  | writable w =>
      simp only [handle]
      split
      · rename_i l hst hp
        split
        · -- the connect fails late
          have s0 : LDrop n (({ n with lateFail := n.lateFail - 1 } : N).closeCNow l) :=
            (LDrop.of_eq rfl rfl rfl rfl rfl : LDrop n ({ n with lateFail := n.lateFail - 1 } : N)).closeCNow' l
          have s1 := s0.trans (LDrop.cnFail cfg _ w)
          cases w with
          | cl j => exact h.drop s1
          | kn => exact LI_knFailCb cfg _ (h.drop s1)
          | raw => exact h.drop s1
        · have f1 : LF (n.setCn w { n.cn w with st := .inited, pend := none }) l := h.take w hp _ rfl
          generalize n.setCn w { n.cn w with st := .inited, pend := none } = n1 at f1
          have f2 : LF (({ n1 with alive := n1.alive ++ [(l, false)] } : N).wakeIfPending (.c l)) l :=
            f1.drop ((LDrop.of_eq rfl rfl rfl rfl rfl : LDrop n1 ({ n1 with alive := n1.alive ++ [(l, false)] } : N)).wakeIfPending' _)
          generalize (({ n1 with alive := n1.alive ++ [(l, false)] } : N).wakeIfPending (.c l)) = n2 at f2
          cases w with
          | cl j =>
              simp only
              refine LI_runCb cfg _ _ _ _ ?_
              exact (f2.drop (LDrop.setClient n2 j _ (by exact .inl rfl))).told j
          | kn =>
              simp only
              exact LI_runCb cfg _ _ _ _ (f2.li.drop (((LDrop.ev n2 .knConnected rfl).closeC' _).free' _ _))
          | raw =>
              simp only
              exact LI_runCb cfg _ _ _ _ (f2.li.drop (((LDrop.ev n2 .knConnected rfl).closeC' _).free' _ _))
      · exact h
  | accept =>
      simp only [handle]
      split
      · split
        · exact h.drop ((LDrop.of_eq rfl rfl rfl rfl rfl : LDrop n ({ n with acceptFail := n.acceptFail - 1 } : N)).push' _)
        · split
          · rename_i l rest _ _ _ _
            have s0 : LDrop n (({ n with acceptAbort := n.acceptAbort - 1, backlog := rest } : N).closeSNow l) :=
              (LDrop.of_eq rfl rfl rfl rfl rfl : LDrop n ({ n with acceptAbort := n.acceptAbort - 1, backlog := rest } : N)).closeSNow' l
            split
            · exact h.drop (s0.push' _)
            · exact h.drop s0
          · exact LI_runCb cfg _ _ _ _ (h.drop (LDrop.svAccept n _ _))
      · exact h
  | toS l d =>
      simp only [handle]
      split
      · split
        · exact h.drop (LDrop.setLink n _ _)
        · exact h
      · split
        · exact LI_runCb cfg _ _ _ _ (h.drop (LDrop.ev n _ rfl))
        · exact h
  | sentS l =>
      simp only [handle]
      split
      · split
        · exact LI_runCb cfg _ _ _ _ (h.drop (LDrop.ev n _ rfl))
        · exact h
      · exact h
  | eofS l =>
      simp only [handle]
      split
      · split
        · rename_i t _ _
          have h1 : LI (({ n with busy := some (l, true) } : N).ev (.sv t .disconnected)) :=
            h.drop ((LDrop.of_eq rfl rfl rfl rfl rfl : LDrop n ({ n with busy := some (l, true) } : N)).ev' _ rfl)
          have h2 := LI_runCb cfg (.sv t) 1 n.sv.sDisc _ h1
          have h3 : LI { (runCb cfg (.sv t) 1 (({ n with busy := some (l, true) } : N).ev (.sv t .disconnected)) n.sv.sDisc) with busy := none } :=
            h2.drop (LDrop.of_eq rfl rfl rfl rfl rfl)
          split
          · exact (h3.withSv _).drop ((LDrop.closeS _ _).free' _ _)
          · exact h3
        · exact h
      · exact h
  | toC l d =>
      simp only [handle]
      split
      · split
        · exact LI_runCb cfg _ _ _ _ (h.drop (LDrop.ev n _ rfl))
        · exact h
      · split
        · exact h.drop (LDrop.of_eq rfl rfl rfl rfl rfl)
        · exact h.drop (LDrop.of_eq rfl rfl rfl rfl rfl)
      · exact h
  | sentC l =>
      simp only [handle]
      split
      · split
        · exact LI_runCb cfg _ _ _ _ (h.drop (LDrop.ev n _ rfl))
        · exact h
      · exact h
  | eofC l =>
      simp only [handle]
      split
      · rename_i j _
        split
        · refine LI_runCb cfg _ _ _ _ ?_
          have s1 : LDrop n ((n.closeC l).free (l, false) true) := (LDrop.closeC n l).free' _ _
          generalize (n.closeC l).free (l, false) true = n1 at s1
          have s2 := s1.setClient' j { n1.client j with st := .inited, link := none } (.inl rfl)
          split
          · exact (LI_clStart cfg _ j (h.drop s2)).drop (LDrop.ev _ _ rfl)
          · exact h.drop (s2.ev' _ rfl)
        · exact h
      · split
        · exact h.drop (LDrop.of_eq rfl rfl rfl rfl rfl)
        · exact h.drop (LDrop.of_eq rfl rfl rfl rfl rfl)
      · exact h

/-! ### the operations -/

theorem LI_fireTimer (cfg : Cfg) (n : N) (w : Who) (h : LI n) : LI (fireTimer cfg n w) := by
  unfold fireTimer; simp only; split
  · have s1 : LDrop n (n.setCn w { n.cn w with deadline := none }) := LDrop.setCn n w _ (.inl rfl)
    have h2 := LI_cnEnter cfg _ w (h.drop s1)
    cases w with
    | kn => exact LI_knFailCb cfg _ h2
    | cl j => exact h2
    | raw => exact h2
  · exact h

theorem LI_fireAll (cfg : Cfg) (fuel : Nat) : ∀ (n : N), LI n → LI (fireAll cfg fuel n) := by
  have key : ∀ (l : List (Who × Nat × Nat)) (k : N), LI k → LI (l.foldl (fun n t => fireTimer cfg n t.1) k) := by
    intro l
    induction l with
    | nil => intro k hk; exact hk
    | cons e l ih => intro k hk; exact ih _ (LI_fireTimer cfg _ _ hk)
  induction fuel with
  | zero => intro n h; exact h
  | succ f ih =>
      intro n h
      unfold fireAll
      split
      · exact h
      · exact ih _ (key _ _ h)

theorem LI_step (cfg : Cfg) (n : N) (op : Op) (h : LI n) : LI (step cfg n op).1 := by
  cases op with
  | svInit => simp only [step]; split; exact h; split <;> exact h.drop (LDrop.of_eq rfl rfl rfl rfl rfl)
  | svStart =>
      simp only [step]; split; exact h
      have s1 : LDrop n (({ n with sv := { n.sv with st := .running } } : N).ev .svStart) :=
        (LDrop.of_eq rfl rfl rfl rfl rfl : LDrop n ({ n with sv := { n.sv with st := .running } } : N)).ev' _ rfl
      split; exact h.drop (s1.push' _); exact h.drop s1
  | svStop => exact h.drop (LDrop.svStop cfg n)
  | svCleanup => exact h.drop (LDrop.svCleanup cfg n)
  | svSend t d => exact h.drop (LDrop.svSend n t d)
  | svDisc t => exact h.drop (LDrop.svDisconnect n t)
  | svValid t => exact h
  | svShut t => exact h.drop (LDrop.svShut n t)
  | svScript w s => exact h.drop (LDrop.of_eq rfl rfl rfl rfl rfl)
  | clInit j =>
      simp only [step]; split; exact h
      exact h.drop (LDrop.setClient n j _ (.inl rfl))
  | clStart j => exact LI_clStart cfg n j h
  | clStop j => exact h.drop (LDrop.clStop n j)
  | clCleanup j => exact h.drop (LDrop.clCleanup n j)
  | clRec j b => exact h.drop (LDrop.setClient n j _ (.inl rfl))
  | clSend j d => exact h.drop (LDrop.clSend n j d)
  | clShut j => exact h.drop (LDrop.clShut n j)
  | clScript j w s =>
      simp only [step]
      refine h.drop (LDrop.setClient n j _ (.inl ?_))
      split <;> rfl
  | knInit tries => exact h.drop (LDrop.of_eq rfl rfl rfl rfl rfl)
  | knStart =>
      simp only [step]; split; exact h
      have s1 : LDrop n (({ n with kn := { n.kn with fails := 0 } } : N).ev .knStart) :=
        (LDrop.of_eq rfl rfl rfl rfl rfl : LDrop n ({ n with kn := { n.kn with fails := 0 } } : N)).ev' _ rfl
      exact LI_knFailCb cfg _ (LI_cnEnter cfg _ .kn (h.drop s1))
  | knStop => exact h.drop ((LDrop.cnStop n .kn).ev' _ rfl)
  | knCleanup => exact h.drop (LDrop.knCleanup n)
  | knScript w s => simp only [step]; split <;> exact h.drop (LDrop.of_eq rfl rfl rfl rfl rfl)
  | rawConn =>
      simp only [step]; split
      · have s0 : LDrop n ({ n with links := n.links ++ [({ who := .raw } : Link)], backlog := n.backlog ++ [n.links.length], rawLink := some n.links.length, rawEof := false, rawHeld := [], rawEofHeld := false } : N) :=
          ⟨rfl, by simp, .inl rfl, .inl rfl, .inl rfl⟩
        exact h.drop (s0.push' _)
      · exact h
  | rawSend d =>
      simp only [step]; split
      · split; exact h.drop (LDrop.push n _); exact h
      · exact h
  | rawClose => simp only [step]; split; exact h.drop ((LDrop.closeCNow n _).same rfl rfl rfl rfl rfl); exact h
  | rawHold b => simp only [step]; split <;> exact h.drop (LDrop.of_eq rfl rfl rfl rfl rfl)
  | adv ms =>
      simp only [step]
      exact LI_fireAll cfg _ _ (h.drop (LDrop.of_eq rfl rfl rfl rfl rfl))
  | knDelay tbl => exact h.drop (LDrop.of_eq rfl rfl rfl rfl rfl)
  | knDelayAct tbl k cl => exact h.drop (LDrop.of_eq rfl rfl rfl rfl rfl)
  | knDelayRe tbl k => exact h.drop (LDrop.of_eq rfl rfl rfl rfl rfl)
  | budget k => exact h.drop (LDrop.of_eq rfl rfl rfl rfl rfl)
  | fault kind k => simp only [step]; split <;> exact h.drop (LDrop.of_eq rfl rfl rfl rfl rfl)

theorem LI_drain (cfg : Cfg) (fuel : Nat) (n : N) (h : LI n) : LI (drain cfg fuel n) := by
  induction fuel generalizing n with
  | zero => exact h
  | succ f ih =>
      unfold drain
      split
      · exact ih _ (LI_handle cfg _ _ (h.drop (LDrop.of_eq rfl rfl rfl rfl rfl)))
      · have h' : LI n.endPass := h.drop (LDrop.endPass n)
        simp only
        split
        · exact h'
        · have h1 := LI_fireAll cfg timerFuel
            { n.endPass with qn := [], qlate := [], lastFds := (passOrder n.endPass (n.endPass.qn ++ n.endPass.qlate)).1 }
            (h'.drop (LDrop.of_eq rfl rfl rfl rfl rfl))
          exact ih _ (h1.drop (LDrop.of_eq rfl rfl rfl rfl rfl))

theorem LI_stepQ (cfg : Cfg) (n : N) (op : Op) (h : LI n) : LI (stepQ cfg n op) := by
  unfold stepQ; split
  · have h0 : LI ({ n with lastFds := [] } : N) := h.drop (LDrop.of_eq rfl rfl rfl rfl rfl)
    exact LI_drain cfg _ _ ((LI_step cfg _ op h0).drop (LDrop.of_eq rfl rfl rfl rfl rfl))
  · exact h

theorem LI_run (cfg : Cfg) (ops : List Op) (n : N) (h : LI n) : LI (run cfg n ops) := by
  unfold run
  induction ops generalizing n with
  | nil => exact h
  | cons op ops ih => exact ih _ (LI_stepQ cfg n op h)

theorem init_LI : LI init := by
  refine ⟨List.nodup_nil, ?_, ?_, ?_, ?_, ?_, ?_, ?_⟩ <;> intro l hl <;> cases hl

/-- no two connected callbacks of the TcpClients are ever told the same link -/
theorem link_ids_fresh (cfg : Cfg) (ops : List Op) : (connL (run cfg init ops).hist).Nodup :=
  (LI_run cfg ops init init_LI).nodup

end Tbox.C06.Net
