/- C06 — helper lemmas for NetPropsRc.lean (reconnect logic): the callback automaton's `bad` state is
absorbing, link-count frames of the connector steps, membership in the sorted timer list. -/
import TboxModel.C06.NetProofsCl
namespace Tbox.C06.Net

theorem cstep_bad (i : Nat) (e : Ev) : cstep i .bad e = .bad := by
  cases e <;> simp [cstep]

theorem cfold_bad (i : Nat) (h : List Ev) : h.foldl (cstep i) .bad = .bad := by
  induction h with
  | nil => rfl
  | cons e h ih => simp [List.foldl, cstep_bad, ih]

/-- a history that is not `bad` has no `bad` prefix -/

theorem cphase_prefix (i : Nat) (h1 h2 : List Ev) (h : cphase i (h1 ++ h2) ≠ .bad) : cphase i h1 ≠ .bad := by
  intro hb
  apply h
  unfold cphase at *
  rw [List.foldl_append, hb, cfold_bad]

/-- what the automaton accepts: `connected` only without a connection, anything else only for the current link -/

theorem cstep_cl_ok (i l : Nat) (k : Kind) (p : CPhase) (h : cstep i p (.cl i l k) ≠ .bad) :
    if k = .connected then p = .off else p = .on l := by
  cases p <;> cases k <;> simp_all [cstep]

theorem cstep_on (i l : Nat) (p : CPhase) (e : Ev) (h : cstep i p e = .on l) : p = .on l ∨ e = .cl i l .connected := by
  cases e with
  | cl j l' k =>
      by_cases hj : j = i
      · subst hj
        cases p <;> cases k <;> simp_all [cstep]
        all_goals (split at h <;> simp_all)
      · simp [cstep, hj] at h; exact .inl h
  | clStop j =>
      by_cases hj : j = i
      · subst hj; cases p <;> simp [cstep] at h
      · simp [cstep, hj] at h; exact .inl h
  | _ => simp [cstep] at h; exact .inl h

theorem cfold_on (i l : Nat) (h : List Ev) : ∀ (p : CPhase), h.foldl (cstep i) p = .on l →
    p = .on l ∨ .cl i l .connected ∈ h := by
  induction h with
  | nil => intro p hp; exact .inl hp
  | cons e h ih =>
      intro p hp
      rcases ih _ hp with h1 | h1
      · rcases cstep_on i l p e h1 with h2 | h2
        · exact .inl h2
        · exact .inr (by simp [h2])
      · exact .inr (by simp [h1])

/-- the connectors the model has: the two clients' and the bare one -/

def Who.valid : Who → Bool
  | .cl i => i < 2
  | _ => true

theorem cn_setCn_self (n : N) (w : Who) (c : Cn) (hw : w.valid = true) : (n.setCn w c).cn w = c := by
  cases w with
  | cl i =>
      simp only [Who.valid, decide_eq_true_eq] at hw
      simp only [N.cn, N.setCn]
      rw [client_setClient_self n i _ hw]
  | kn => rfl
  | raw => rfl

theorem setClient_links (n : N) (i : Nat) (c : Client) : (n.setClient i c).links = n.links := by
  unfold N.setClient; split; rfl; split <;> rfl

theorem setCn_links (n : N) (w : Who) (c : Cn) : (n.setCn w c).links = n.links := by
  cases w <;> simp [N.setCn, setClient_links]

theorem wake_links (n : N) (f : Fd) : (n.wake f).links = n.links := by unfold N.wake; split <;> rfl

theorem push_links (n : N) (m : Msg) : (n.push m).links = n.links := by unfold N.push; rw [wake_links]

theorem wake_cn (n : N) (f : Fd) (w : Who) : (n.wake f).cn w = n.cn w := by
  unfold N.wake; split
  · cases w <;> simp [N.cn, N.client]
  · rfl

theorem push_cn (n : N) (m : Msg) (w : Who) : (n.push m).cn w = n.cn w := by
  unfold N.push; rw [wake_cn]; cases w <;> simp [N.cn, N.client]

theorem setLink_len (n : N) (l : Nat) (k : Link) : (n.setLink l k).links.length = n.links.length := by
  simp [N.setLink]

theorem closeCNow_len (n : N) (l : Nat) : (n.closeCNow l).links.length = n.links.length := by
  unfold N.closeCNow; simp only; split
  · split <;> simp [push_links, setLink_len]
  · rfl

theorem cnStop_len (n : N) (w : Who) : (cnStop n w).links.length = n.links.length := by
  unfold cnStop; simp only; split
  · split <;> simp [setCn_links, closeCNow_len]
  · split <;> simp [setCn_links]
  · rfl

theorem knCleanup_len (n : N) : (knCleanup n).links.length = n.links.length := by
  unfold knCleanup; split
  · rfl
  · exact cnStop_len n .kn

theorem cnFail_links (cfg : Cfg) (n : N) (w : Who) : (cnFail cfg n w).1.links.length = n.links.length := by
  unfold cnFail; simp only; split
  · simp [setCn_links]
  · split
    · split
      · split
        · split
          · rw [knCleanup_len]; simp [setCn_links]
          · split
            · simp only [N.ev]; rw [cnStop_len]; simp [setCn_links]
            · simp only [N.ev]; rw [cnStop_len]; simp [setCn_links]
        · simp [setCn_links]
      · simp [setCn_links]
    · simp [setCn_links]

theorem mem_insertTimer (a x : Who × Nat × Nat) (l : List (Who × Nat × Nat)) :
    x ∈ insertTimer a l ↔ x = a ∨ x ∈ l := by
  induction l with
  | nil => simp [insertTimer]
  | cons b r ih =>
      unfold insertTimer
      split
      · simp
      · simp [ih]; constructor
        · rintro (h | h | h); exact .inr (.inl h); exact .inl h; exact .inr (.inr h)
        · rintro (h | h | h); exact .inr (.inl h); exact .inl h; exact .inr (.inr h)

theorem mem_foldr_insertTimer (x : Who × Nat × Nat) (l : List (Who × Nat × Nat)) :
    x ∈ l.foldr insertTimer [] ↔ x ∈ l := by
  induction l with
  | nil => simp
  | cons a l ih => simp [List.foldr, mem_insertTimer, ih]

end Tbox.C06.Net
