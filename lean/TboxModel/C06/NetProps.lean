/-
C06 — PROPERTY THEOREMS for the TCP plumbing (TcpServer connection table, TcpClient, TcpConnector,
TcpAcceptor) — statements rely on NetModel.lean / NetSpec.lean only; helper lemmas live in
NetProofs.lean and NetProofsCn.lean.

Every theorem quantifies over every operation list from the initial state: server init / start /
stop / cleanup with live connections, sends and disconnects on live, stale and never-issued tokens,
client init / start / stop / cleanup in every state, auto-reconnect on and off, a bare connector
with every try limit, raw peers, virtual time, and callback scripts that call stop / start /
disconnect / send from inside the callbacks.  `cfg.fix = true` is the code with patches/C06-04 and
C06-05; the `_counterexample`s run the code as found (`cfg.fix = false`).
-/
import TboxModel.C06.NetProofsCn
namespace Tbox.C06.Net

/-! ## (i) per connection: connected first, disconnected once, nothing after it -/

/-- **C06_net_server_conn_order.** For every token the server's callbacks form a run of the
connection automaton: `connected`, then receive / send-complete callbacks, then at most one
`disconnected`, and nothing after it (`phaseOf … ≠ bad`; the automaton is `Phase.step`). -/
theorem C06_net_server_conn_order (cfg : Cfg) (ops : List Op) (t : Nat) :
    phaseOf (svTrace (run cfg init ops).hist t) ≠ .bad :=
  (run_svI cfg ops init init_svI).ok t

/-- what `≠ bad` rules out, on concrete traces -/
example : phaseOf [.recv [1], .connected] = .bad := by decide
example : phaseOf [.connected, .disconnected, .recv [1]] = .bad := by decide
example : phaseOf [.connected, .disconnected, .disconnected] = .bad := by decide
example : phaseOf [.connected, .connected] = .bad := by decide
example : phaseOf [.connected, .recv [1], .sendComplete, .disconnected] = .closed := by decide

/-- a live token is in the middle of its run: connected was reported, disconnected was not -/
theorem C06_net_server_live_tokens (cfg : Cfg) (ops : List Op) :
    ∀ e ∈ (run cfg init ops).sv.table, phaseOf (svTrace (run cfg init ops).hist e.1) = .live :=
  fun e he => (run_svI cfg ops init init_svI).live e he (by simp)

-- the same for the client side: `C06_net_client_conn_order` in NetPropsCl.lean.

/-! ## (iii) tokens: stale and foreign ones resolve to nothing -/

/-- **C06_net_stale_token.** `send` / `disconnect` with a token that is not in the table (freed
earlier, or never issued by this server) return false and change nothing. -/
theorem C06_net_stale_token (n : N) (t : Nat) (d : List Byte) (h : svLookup n t = none) :
    svSend n t d = (n, false) ∧ svDisconnect n t = (n, false) := by
  simp [svSend, svDisconnect, h]

/-- **C06_net_tokens_unique.** The tokens in the table are pairwise different and all below the
issue counter, and an accepted connection gets exactly the counter's value: a token that left the
table is never handed out again, so it stays stale for ever. -/
theorem C06_net_tokens_unique (cfg : Cfg) (ops : List Op) :
    ((run cfg init ops).sv.table.map (·.1)).Nodup ∧
    ∀ e ∈ (run cfg init ops).sv.table, e.1 < (run cfg init ops).sv.issued :=
  ⟨(run_svI cfg ops init init_svI).nodup, (run_svI cfg ops init init_svI).lt⟩

theorem C06_net_accept_token (n : N) (l : Nat) (rest : List Nat) :
    (svAccept n l rest).sv.table = n.sv.table ++ [(n.sv.issued, l)] ∧
    (svAccept n l rest).sv.issued = n.sv.issued + 1 := by
  rw [svAccept_sv]; exact ⟨rfl, rfl⟩

/-! ## (ii) no object is used after it was deleted -/

/-- **C06_net_no_use_after_free.** With the patches no TcpConnection is deleted while its own
callback is executing and no deleted retry timer is dereferenced, whatever the callbacks do
(stop() from a disconnected callback, stop() from a connect-fail callback, …). -/
theorem C06_net_no_use_after_free (ops : List Op) : (run {} init ops).uaf = false :=
  (UI_run {} ⟨rfl, rfl, rfl⟩ ops init init_UI).uaf

/-- **C06_net_server_stop_counterexample.** The code as found: `TcpServer::stop()` called from the
disconnected callback of a connection deletes that TcpConnection while it is executing the callback
(assertion failure in its destructor, then use after free). -/
theorem C06_net_server_stop_counterexample :
    (run { fix := false } init [.svInit, .svStart, .clInit 0, .clRec 0 false, .clStart 0,
                                .svScript 1 [.stop], .clStop 0]).uaf = true := by decide

/-- **C06_net_connector_fail_counterexample.** The code as found: `TcpConnector::stop()` called from
the connect-fail callback after a retry dereferences the retry timer that was just deleted. -/
theorem C06_net_connector_fail_counterexample :
    (run { fix := false } init [.knInit 2, .knScript 0 [.stop], .knStart, .adv 1000]).uaf = true := by decide

/-! ## (ii) silence after stop -/

/-- **C06_net_server_stop_clears.** `TcpServer::stop()` (and `cleanup()`, which calls it) leaves no
connection in the table and the server not running. -/
theorem C06_net_server_stop_clears (cfg : Cfg) (n : N) :
    (svStop cfg n).sv.st ≠ .running ∧ ((svStop cfg n).sv.st = .inited ∨ (svStop cfg n).sv = n.sv) ∧
    (n.sv.st = .running → (svStop cfg n).sv.table = []) := by
  unfold svStop
  split
  · rename_i h; exact ⟨h, .inr rfl, fun hh => absurd hh h⟩
  · simp [N.ev]

/-- **C06_net_server_quiet.** While the table is empty and the server is not running no notification
of any kind — data, EOF, send-complete, a pending connection, anything a client does — makes the
server call back, and the table stays empty.  (No API operation records a server callback either:
`step_svStep`; only `svStart` makes the server run again.) -/
theorem C06_net_server_quiet (cfg : Cfg) (n : N) (m : Msg) (ht : n.sv.table = []) (hs : n.sv.st ≠ .running) :
    (∀ t, svTrace (handle cfg n m).hist t = svTrace n.hist t) ∧ (handle cfg n m).sv.table = [] := by
  have hno : ∀ t l, svLookup n t ≠ some l := by
    intro t l h; have := svLookup_mem h; rw [ht] at this; cases this
  have hcl : ∀ m', (match m' with | .writable _ | .toC _ _ | .sentC _ | .eofC _ => True | _ => False) →
      (∀ t, svTrace (handle cfg n m').hist t = svTrace n.hist t) ∧ (handle cfg n m').sv.table = [] := by
    intro m' hm'
    have h := handle_svStep_client cfg n m' hm'
    refine ⟨h.trace, ?_⟩
    have := h.table; rw [ht] at this; exact List.sublist_nil.mp this
  cases m with
  | writable w => exact hcl _ trivial
  | toC l d => exact hcl _ trivial
  | sentC l => exact hcl _ trivial
  | eofC l => exact hcl _ trivial
  | accept =>
      simp only [handle]
      split
      · rename_i h _; exact absurd h hs
      · exact ⟨fun _ => rfl, ht⟩
  | toS l d =>
      simp only [handle]
      split
      · split
        · exact ⟨fun _ => rfl, ht⟩
        · exact ⟨fun _ => rfl, ht⟩
      · split
        · rename_i h; exact absurd h (hno _ _)
        · exact ⟨fun _ => rfl, ht⟩
  | sentS l =>
      simp only [handle]
      split
      · split
        · rename_i h; exact absurd h (hno _ _)
        · exact ⟨fun _ => rfl, ht⟩
      · exact ⟨fun _ => rfl, ht⟩
  | eofS l =>
      simp only [handle]
      split
      · split
        · rename_i h; exact absurd h (hno _ _)
        · exact ⟨fun _ => rfl, ht⟩
      · exact ⟨fun _ => rfl, ht⟩

-- the same for TcpClient, as a theorem over histories: `C06_net_client_quiet` in NetPropsCl.lean.

/-! ## (iv) connect attempts -/

/-- **C06_net_one_attempt.** For every connector (both clients' and the bare one): its write event
exists exactly while it is Connecting and its retry timer exactly while it is in Delay — so at
most one connect attempt or retry is in flight, and none when it is idle. -/
theorem C06_net_one_attempt (ops : List Op) (w : Who) :
    let c := (run {} init ops).cn w
    (c.pend.isSome ↔ c.st = .connecting) ∧ (c.deadline.isSome ↔ c.st = .delay) :=
  (UI_run {} ⟨rfl, rfl, rfl⟩ ops init init_UI).cn w

/-- **C06_net_stop_cancels.** After `TcpConnector::stop()` nothing is in flight: no write event, no
retry timer (so neither the connected nor the failure callback can follow). -/
theorem C06_net_stop_cancels (ops : List Op) (w : Who) :
    let n := cnStop (run {} init ops) w
    (n.cn w).pend = none ∧ (n.cn w).deadline = none := by
  have h := UI_cnStop _ w (UI_run {} ⟨rfl, rfl, rfl⟩ ops init init_UI)
  have hid := cnStop_idle (run {} init ops) w
  exact (h.cn w).idle hid.1 hid.2

/-! ## non-vacuity / examples -/

/-- stop() from the disconnected callback, patched: one disconnected, the server is stopped, the
connection object is freed once -/
example :
    let n := run {} init [.svInit, .svStart, .clInit 0, .clRec 0 false, .clStart 0,
                                       .svScript 1 [.stop], .clStop 0]
    n.uaf = false ∧ svTrace n.hist 0 = [.connected, .disconnected] ∧ n.sv.st = .inited ∧
    n.freed = [(0, false), (0, true)] ∧ n.alive = [] := by decide

/-- auto-reconnect: the server stops, the client is told once and connects again (into the backlog);
after the next start the server sees a new token -/
example :
    let n := run {} init [.svInit, .svStart, .clInit 0, .clStart 0, .svStop, .svStart]
    clTrace n.hist 0 0 = [.connected, .disconnected] ∧ clTrace n.hist 0 1 = [.connected] ∧
    n.sv.table = [(1, 1)] ∧ n.c0.st = .connected := by decide

/-- no listener: the connector retries by timer, stop() cancels the retry -/
example :
    let n1 := run {} init [.clInit 0, .clStart 0]
    let n2 := run {} init [.clInit 0, .clStart 0, .adv 1000, .clStop 0, .adv 5000]
    n1.c0.cn.st = .delay ∧ n1.c0.cn.deadline = some 1000 ∧ n2.c0.st = .inited ∧ n2.c0.cn.deadline = none ∧
    n2.hist = [.clStart 0, .clStop 0] := by decide

end Tbox.C06.Net
