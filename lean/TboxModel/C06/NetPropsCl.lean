/-
C06 — PROPERTY THEOREMS for the client side of the TCP plumbing (TcpClient over TcpConnector) —
statements rely on NetModel.lean / NetSpec.lean only; helper lemmas live in NetProofsCl.lean (the
client invariant `CI`: what client i's user has been told is what the client's state says, its
connector is active only while the client is Connecting, and no callback was made while stopped).

Both theorems quantify over every operation list from the initial state and over every
configuration `cfg` (the code as found and every combination of the patches): client init / start /
stop / cleanup in every state, auto-reconnect on and off, callback scripts that call stop / start /
send / shutdown / cleanup from inside the callbacks, connect failures (no listener, socket(),
ECONNREFUSED, late SO_ERROR), the retry timer, server stop / cleanup / disconnect under the client.
-/
import TboxModel.C06.NetProofsCl
namespace Tbox.C06.Net

/-! ## (i) per client: connected only without a connection, everything else only for the current one -/

/-- **C06_net_client_conn_order.** For every client the callbacks its user gets form a run of the
client automaton `cstep`: `connected` only when there is no connection; receive / send-complete /
`disconnected` only for the current connection (same link); `disconnected` and stop() end it.
(`cphase … ≠ bad`; holds for the code as found and for the patched code.) -/
theorem C06_net_client_conn_order (cfg : Cfg) (ops : List Op) (i : Nat) :
    cphase i (run cfg init ops).hist ≠ .bad :=
  (CI_run i cfg ops init (init_CI i)).not_bad

/-- what `≠ bad` rules out, on concrete histories -/
example : cphase 0 [.cl 0 0 .connected, .cl 0 1 .connected] = .bad := by decide
example : cphase 0 [.cl 0 0 (.recv [1])] = .bad := by decide
example : cphase 0 [.cl 0 0 .connected, .cl 0 1 (.recv [1])] = .bad := by decide
example : cphase 0 [.cl 0 0 .connected, .cl 0 0 .disconnected, .cl 0 0 .disconnected] = .bad := by decide
example : cphase 0 [.cl 0 0 .connected, .clStop 0, .cl 0 0 .sendComplete] = .bad := by decide
example : cphase 0 [.cl 0 0 .connected, .cl 1 1 .connected, .cl 0 0 (.recv [1]), .cl 0 0 .disconnected,
                    .cl 0 2 .connected] = .on 2 := by decide

/-- the state behind the theorem: the user's view is exactly the client's state — Connected over
link `l` iff the history says "connection over `l`" -/
theorem C06_net_client_view (cfg : Cfg) (ops : List Op) (i : Nat) :
    let n := run cfg init ops
    cphase i n.hist = (if (n.client i).st = .connected then
      (match (n.client i).link with | some l => .on l | none => .bad) else .off) :=
  (CI_run i cfg ops init (init_CI i)).ph

/-! ## (ii) silence after stop -/

/-- **C06_net_client_quiet.** Before the first start() and between a stop() and the next start()
client `i` makes no callback at all (auto-reconnect counts as a start: it is recorded before the
`disconnected` callback of the connection that went away). -/
theorem C06_net_client_quiet (cfg : Cfg) (ops : List Op) (i : Nat) :
    clQuietOk i false (run cfg init ops).hist = true :=
  (CI_run i cfg ops init (init_CI i)).quiet

/-- what `clQuietOk` rules out, on concrete histories -/
example : clQuietOk 0 false [.cl 0 0 .connected] = false := by decide
example : clQuietOk 0 false [.clStart 0, .cl 0 0 .connected, .clStop 0, .cl 0 0 .disconnected] = false := by decide
example : clQuietOk 0 false [.clStart 1, .cl 0 0 .connected] = false := by decide
example : clQuietOk 0 false [.clStart 0, .cl 0 0 .connected, .clStop 0, .clStart 0, .cl 0 1 .connected] = true := by decide

/-- **C06_net_connector_idle_unless_connecting.** The connector of a client is Connecting / in Delay
only while the client itself is Connecting: after stop(), while Connected and while not started no
connect attempt and no retry timer of that client is in flight. -/
theorem C06_net_connector_idle_unless_connecting (cfg : Cfg) (ops : List Op) (i : Nat) :
    let c := (run cfg init ops).client i
    c.st ≠ .connecting → c.cn.st ≠ .connecting ∧ c.cn.st ≠ .delay :=
  (CI_run i cfg ops init (init_CI i)).act

/-! ## non-vacuity / examples -/

/-- the server stops under a connected client: one disconnected, auto-reconnect, a second
connection over a new link; both properties on a history with 5 client events -/
example :
    let n := run {} init [.svInit, .svStart, .clInit 0, .clStart 0, .svStop, .svStart]
    n.hist.filter (fun e => match e with | .cl .. | .clStart _ | .clStop _ => true | _ => false) =
      [.clStart 0, .cl 0 0 .connected, .clStart 0, .cl 0 0 .disconnected, .cl 0 1 .connected] ∧
    cphase 0 n.hist = .on 1 ∧ clQuietOk 0 false n.hist = true := by decide

/-- stop() from inside the connected callback, then data and EOF arriving for the dead connection:
nothing more is reported -/
example :
    let n := run {} init [.svInit, .svStart, .svScript 0 [.send [7]], .clInit 0, .clScript 0 0 [.stop],
                          .clStart 0, .svStop]
    n.hist.filter (fun e => match e with | .cl .. | .clStart _ | .clStop _ => true | _ => false) =
      [.clStart 0, .cl 0 0 .connected, .clStop 0] ∧
    cphase 0 n.hist = .off ∧ clQuietOk 0 false n.hist = true ∧ n.c0.st = .inited := by decide

/-- the code as found satisfies both too (the defects of `cfg.fix = false` are use-after-free, not
callback order): stop() from the server's disconnected callback while client 0 goes away -/
example :
    let n := run { fix := false, fix2 := false, fix3 := false } init
      [.svInit, .svStart, .clInit 0, .clRec 0 false, .clStart 0, .clSend 0 [1], .svScript 1 [.stop], .clStop 0]
    n.hist.filter (fun e => match e with | .cl .. | .clStart _ | .clStop _ => true | _ => false) =
      [.clStart 0, .cl 0 0 .connected, .cl 0 0 .sendComplete, .clStop 0] ∧
    cphase 0 n.hist = .off ∧ clQuietOk 0 false n.hist = true := by decide

/-- connect refused at once (fault 4), the retry by timer succeeds; then an accept() that aborts
(fault 5) drops the second client's pending connection: it is told connected, then disconnected,
and reconnects -/
example :
    let n := run {} init [.svInit, .svStart, .clInit 0, .fault 4 1, .clStart 0]
    let m := run {} init [.svInit, .svStart, .clInit 0, .fault 4 1, .clStart 0, .adv 1000]
    n.c0.cn.st = .delay ∧ n.c0.st = .connecting ∧ cphase 0 n.hist = .off ∧
    m.c0.st = .connected ∧ cphase 0 m.hist = .on 0 := by decide

example :
    let n := run {} init [.svInit, .svStart, .clInit 1, .fault 5 1, .clStart 1]
    clTrace n.hist 1 0 = [.connected, .disconnected] ∧ clTrace n.hist 1 1 = [.connected] ∧
    n.sv.table = [(0, 1)] ∧ cphase 1 n.hist = .on 1 ∧ clQuietOk 1 false n.hist = true := by decide

/-- a send made later in the loop pass in which the peer disconnected still succeeds (the peer's
descriptor is closed by a deferred task at the end of the pass): the server's connected callback
sends and stops the server, the client's connected callback sends afterwards in the same pass and
gets its send-complete before the disconnected; the auto-reconnect's connection likewise -/
example :
    let n := run {} init [.svInit, .svStart, .svScript 0 [.more [0x42], .stop], .clInit 0,
                          .clScript 0 0 [.send [5, 0x69, 0xa9, 0xaa, 0xa7]], .budget 3, .clStart 0]
    clTrace n.hist 0 0 = [.connected, .recv [0x42], .sendComplete, .disconnected] ∧
    clTrace n.hist 0 1 = [.connected, .sendComplete] := by decide

end Tbox.C06.Net
