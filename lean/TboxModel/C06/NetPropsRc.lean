/-
C06 — PROPERTY THEOREMS for the reconnect logic of the TCP plumbing (TcpClient auto-reconnect,
TcpConnector retry delays, link ids across reconnects) — statements rely on NetModel.lean /
NetSpec.lean only; the client invariant behind (i) is `CI` of NetProofsCl.lean.

(i)   no stale events: every callback of a client carries the link id of the connection that was
      current when it fired (over every operation list, every configuration);
(ii)  a connect attempt that succeeds gets a link id no earlier connection had, and the new link
      starts empty; globally: no link id is reported connected twice, so no callback ever carries the
      id of a connection that was replaced (invariant `LI` of NetProofsLk.lean);
(iii) the retry timer: armed with exactly the delay the user's delay function gives (seconds, in
      milliseconds of the loop clock; exact for every 0 ≤ delay ≤ INT_MAX: `std::chrono::seconds(int)`
      is widened to 64 bits before it is multiplied by 1000), it fires when that time is reached and
      not before, and a connector that is not Connecting ignores a write event (stop() while the
      connect was already made by the kernel: no connected callback follows).
-/

import TboxModel.C06.NetProofsRc
import TboxModel.C06.NetProps

import TboxModel.C06.NetPropsCl
import TboxModel.C06.NetProofsLk

namespace Tbox.C06.Net

/-! ## (i) no stale events -/

/-- **C06_net_client_no_stale_events.** In every history the model can produce, every callback of
client `i` carries the link id that was current when it fired: a `connected` callback is made only
while the client's user sees no connection, and a receive / send-complete / disconnected callback
for link `l` is made only while the user's current connection is the one over link `l` — so a late
event of a previous connection (queued in the same loop pass, delivered after the deferred delete,
after a stop() or after the reconnect's connected callback) is never reported, neither under its
own id nor as if it belonged to the new connection. -/

theorem C06_net_client_no_stale_events (cfg : Cfg) (ops : List Op) (i l : Nat) (k : Kind) (h1 h2 : List Ev)
    (hs : (run cfg init ops).hist = h1 ++ .cl i l k :: h2) :
    if k = .connected then cphase i h1 = .off else cphase i h1 = .on l := by
  have hb := C06_net_client_conn_order cfg ops i
  rw [hs, show h1 ++ .cl i l k :: h2 = (h1 ++ [.cl i l k]) ++ h2 by simp] at hb
  have := cphase_prefix i _ _ hb
  rw [cphase_append] at this
  exact cstep_cl_ok i l k _ this

/-- **C06_net_client_no_stale_after_reconnect.** After the `connected` callback of a connection over
link `l'`, a callback of client `i` for another link `l` can only follow a `connected` callback for
`l` made in between: events of the previous connection never follow the new connection's
`connected`. -/

theorem C06_net_client_no_stale_after_reconnect (cfg : Cfg) (ops : List Op) (i l l' : Nat) (k : Kind)
    (h1 h2 h3 : List Ev) (hne : l ≠ l') (hk : k ≠ .connected)
    (hs : (run cfg init ops).hist = h1 ++ .cl i l' .connected :: (h2 ++ .cl i l k :: h3)) :
    .cl i l .connected ∈ h2 := by
  have ha := C06_net_client_no_stale_events cfg ops i l' .connected h1 _ hs
  simp only [if_true] at ha
  have hb := C06_net_client_no_stale_events cfg ops i l k (h1 ++ .cl i l' .connected :: h2) h3 (by rw [hs]; simp)
  simp only [hk, if_false] at hb
  unfold cphase at ha hb
  rw [List.foldl_append, List.foldl_cons, ha] at hb
  have hc : cstep i .off (.cl i l' .connected) = .on l' := by simp [cstep]
  rw [hc] at hb
  rcases cfold_on i l h2 _ hb with h | h
  · exact absurd (by injection h with h; exact h.symm) hne
  · exact h

/-- **C06_net_client_link_ids_fresh.** Over every operation list and every configuration, a link id occurs in at most
one `connected` callback of the whole history — of either client: no two connections are ever reported under the same
id.  (Invariant `LI` of NetProofsLk.lean: the ids told so far are pairwise distinct and below `links.length`, the ids the
three connectors are waiting for are below `links.length`, pairwise distinct and not yet told; a new attempt takes
`links.length`, `C06_net_connect_fresh_link`.) -/

theorem C06_net_client_link_ids_fresh (cfg : Cfg) (ops : List Op) (i j l : Nat) (h1 h2 h3 : List Ev) :
    (run cfg init ops).hist ≠ h1 ++ .cl i l .connected :: (h2 ++ .cl j l .connected :: h3) := by
  intro hs
  have h := link_ids_fresh cfg ops
  rw [hs] at h
  simp [connL, List.filterMap_append, List.nodup_append, List.nodup_cons] at h

/-- **C06_net_client_no_events_of_earlier_link.** With it the reconnect law is unconditional: once the `connected`
callback of a later connection (link `l'`) has been made, no callback of client `i` ever carries the id `l ≠ l'` of a
connection that was reported connected before it — neither a late receive / send-complete / disconnected nor a second
`connected`. -/

theorem C06_net_client_no_events_of_earlier_link (cfg : Cfg) (ops : List Op) (i l l' : Nat) (k : Kind)
    (h1 h2 h3 h4 : List Ev) (hne : l ≠ l') :
    (run cfg init ops).hist ≠
      h1 ++ .cl i l .connected :: (h2 ++ .cl i l' .connected :: (h3 ++ .cl i l k :: h4)) := by
  intro hs
  by_cases hk : k = .connected
  · subst hk
    exact C06_net_client_link_ids_fresh cfg ops i i l h1 (h2 ++ .cl i l' .connected :: h3) h4 (by rw [hs]; simp)
  · have hm := C06_net_client_no_stale_after_reconnect cfg ops i l l' k (h1 ++ .cl i l .connected :: h2) h3 h4 hne hk
      (by rw [hs]; simp)
    obtain ⟨a, b, rfl⟩ := List.append_of_mem hm
    exact C06_net_client_link_ids_fresh cfg ops i i l h1 (h2 ++ .cl i l' .connected :: a) (b ++ .cl i l k :: h4)
      (by rw [hs]; simp)

/-- non-vacuity: the shape the two theorems forbid is a real shape of histories — with distinct ids it occurs: client 0 is
connected over link 0, loses it, is connected over link 1 and then receives on link 1 -/

example :
    (run {} init [.svInit, .svStart, .clInit 0, .clStart 0, .svStop, .svStart, .svSend 1 [7]]).hist =
      [.svStart, .clStart 0, .sv 0 .connected] ++ .cl 0 0 .connected ::
        ([.svStop, .clStart 0, .cl 0 0 .disconnected] ++ .cl 0 1 .connected ::
          ([.svStart, .sv 1 .connected] ++ .cl 0 1 (.recv [7]) :: [.sv 1 .sendComplete])) := by decide

/-- what the two theorems rule out, on concrete histories -/

example : cphase 0 [.cl 0 0 .connected, .clStart 0, .cl 0 0 .disconnected, .cl 0 1 .connected, .cl 0 0 (.recv [1])] = .bad := by decide

example : cphase 0 [.cl 0 0 .connected, .clStop 0, .clStart 0, .cl 0 1 .connected, .cl 0 0 .sendComplete] = .bad := by decide

example : cphase 0 [.cl 0 0 .connected, .clStart 0, .cl 0 1 .connected, .cl 0 0 .disconnected] = .bad := by decide

/-- non-vacuity: the server goes away twice under a client whose disconnected callback calls stop()
and start() right after the auto-reconnect's start(): three connections of client 0 are reported
over the links 0, 2 and 4 (the links 1 and 3 were given up by the stop() before their write event was
served), every event under the id of its own connection -/

example :
    let n := run {} init [.svInit, .svStart, .clInit 0, .clScript 0 1 [.stop, .start], .clStart 0, .svStop, .svStart,
                          .clSend 0 [1], .svStop, .svStart]
    n.hist.filterMap (fun e => match e with | .cl 0 l k => some (l, k) | _ => none) =
      [(0, .connected), (0, .disconnected), (2, .connected), (2, .sendComplete), (2, .disconnected), (4, .connected)] ∧
    n.links.length = 5 ∧ (n.link 1).cOpen = false ∧ (n.link 3).cOpen = false ∧ n.c0.link = some 4 := by decide

/-! ## (ii) a new attempt gets a new link, and the link starts empty -/

/-- **C06_net_connect_fresh_link.** Whenever `enterConnectingState` makes a connection (the number of
links grows), the connector's pending link is the new one — its id is `links.length`, which no link
made before has — and the new link starts empty: both ends open, nothing held for the server, no
half-close, not yet accepted.  In every other case (socket() / connect() failed, nobody listens) no
link is made. -/

theorem C06_net_connect_fresh_link (cfg : Cfg) (n : N) (w : Who) (hw : w.valid = true) :
    let n' := (cnEnter cfg n w).1
    (n'.links.length = n.links.length ∨ n'.links.length = n.links.length + 1) ∧
    (n'.links.length = n.links.length + 1 →
      (n'.cn w).pend = some n.links.length ∧ (n'.cn w).st = .connecting ∧
      n'.links = n.links ++ [({ who := w } : Link)]) := by
  simp only
  unfold cnEnter
  split
  · split
    · rw [cnFail_links]; exact ⟨.inl rfl, fun h => by simp at h⟩
    · exact ⟨.inl rfl, fun h => by simp at h⟩
  · split
    · rw [cnFail_links]; exact ⟨.inl rfl, fun h => by simp at h⟩
    · split
      · refine ⟨.inr ?_, fun _ => ⟨?_, ?_, ?_⟩⟩
        · rw [push_links, push_links, setCn_links]; simp
        · rw [push_cn, push_cn, cn_setCn_self _ _ _ hw]
        · rw [push_cn, push_cn, cn_setCn_self _ _ _ hw]
        · rw [push_links, push_links, setCn_links]
      · rw [cnFail_links]; exact ⟨.inl rfl, fun h => by simp at h⟩

/-- non-vacuity: a listening server, client 0 starts: link 0 is made, pending and empty -/

example :
    let n := run {} init [.svInit, .clInit 0]
    let n' := (cnEnter {} n (.cl 0)).1
    n'.links.length = n.links.length + 1 ∧ (n'.cn (.cl 0)).pend = some 0 ∧ (n'.link 0).held = [] ∧
    (n'.link 0).cOpen = true ∧ (n'.link 0).sOpen = true ∧ (n'.link 0).tok = none := by decide

/-! ## (iii) the retry timer -/

/-- **C06_net_default_delay.** Without `setReconnectDelayCalcFunc` (and again after `cleanup()`) the
delay is 1 second after every failure: the default `[](int) {return 1;}` does not grow with the
number of failures and has no cap. -/

theorem C06_net_default_delay (k : Nat) (n : N) :
    ({} : Cn).delayOf k = 1 ∧ ((knCleanup n).kn.st = .none → (knCleanup n).kn.delayOf k = 1 ∨ n.kn.st = .none) := by
  refine ⟨by simp [Cn.delayOf], fun _ => ?_⟩
  unfold knCleanup
  split
  · exact .inr ‹_›
  · exact .inl (by simp [Cn.delayOf])

/-- **C06_net_retry_delay.** A failed attempt below the try limit arms the retry timer with exactly
the delay the delay function gives for the new failure count (`delayOf`, seconds): the deadline is
`now + 1000 * delay` milliseconds, the connector is in Delay with no write event, and the failure
callback is not asked for; at the limit no timer is armed.  (`dAct = none`: the delay function does not call
back into its connector; `C06_net_delay_func_stops` is about the one that does.) -/

theorem C06_net_retry_delay (cfg : Cfg) (n : N) (w : Who) (hw : w.valid = true) (hd : (n.cn w).dAct = none) :
    let c := n.cn w
    let c' := (cnFail cfg n w).1.cn w
    c'.fails = c.fails + 1 ∧ c'.pend = none ∧
    ((cnFail cfg n w).2 = false →
      c'.st = .delay ∧ c'.deadline = some (n.now + 1000 * c.delayOf (c.fails + 1))) ∧
    ((cnFail cfg n w).2 = true → c'.deadline = c.deadline ∧ 0 < c.tries ∧ c.tries ≤ c.fails + 1) := by
  simp only
  unfold cnFail
  simp only
  split
  · rename_i h
    rw [cn_setCn_self _ _ _ hw]
    refine ⟨by split <;> rfl, by split <;> rfl, fun h' => by simp at h', fun _ => ⟨by split <;> rfl, h.1, h.2⟩⟩
  · have : ∀ (m : N) (t : Nat), ({ m with tick := t } : N).cn w = m.cn w := by
      intro m t; cases w <;> rfl
    simp only [hd]
    simp only [this, cn_setCn_self _ _ _ hw]
    exact ⟨trivial, trivial, fun _ => ⟨trivial, rfl⟩, fun h' => by simp at h'⟩

/-- **C06_net_delay_func_stops.** (patches/C06-11) A delay function that calls `stop()` of its own connector when it
is asked about the failure that just happened ends the wait: the connector is idle afterwards, no retry timer is armed
and no write event is pending — the stop() is neither lost nor fatal, on every path a failure can come from (start(),
a retry, a late SO_ERROR). -/

theorem C06_net_delay_func_stops (n : N) (k : Nat) (hk : k = n.kn.fails + 1)
    (hlim : ¬ (n.kn.tries > 0 ∧ n.kn.fails + 1 ≥ n.kn.tries)) (hd : n.kn.dAct = some (k, false)) (hr : n.kn.dRe = false) :
    let n' := (cnFail {} n .kn).1
    n'.kn.st = .inited ∧ n'.kn.deadline = none ∧ n'.kn.pend = none ∧ n'.uaf = n.uaf ∧ (cnFail {} n .kn).2 = false := by
  subst hk
  simp [cnFail, hd, hr, hlim, N.setCn, cnStop, N.ev, N.cn]

/-- **C06_net_delay_func_restarts.** (the recheck of patches/C06-11) A delay function that calls `stop()` and `start()` of
its own connector when it is asked about the k-th failure, the `connect()` of that `start()` being refused at once: a new
series has begun and failed once — the connector waits with exactly ONE timer, armed for the delay of failure 1 of the new
series (the function was asked again from inside itself), the count is 1, nothing is pending, no link was made.  The outer
call does nothing more: the state is Delay again, but the timer is not the one it made (a recheck of the state alone would
arm it once more, with the delay of the OLD series' k-th failure — see the example below). -/

theorem C06_net_delay_func_restarts (n : N) (k : Nat) (hk : k = n.kn.fails + 1)
    (hlim : ¬ (n.kn.tries > 0 ∧ n.kn.fails + 1 ≥ n.kn.tries)) (hd : n.kn.dAct = some (k, false)) (hr : n.kn.dRe = true) :
    let n' := (cnFail {} n .kn).1
    n'.kn.st = .delay ∧ n'.kn.fails = 1 ∧ n'.kn.deadline = some (n.now + 1000 * n.kn.delayOf 1) ∧ n'.kn.pend = none ∧
    n'.uaf = n.uaf ∧ (cnFail {} n .kn).2 = false ∧ n'.links = n.links ∧ n'.hist = n.hist ++ [.knStop, .knStart] := by
  subst hk
  simp [cnFail, hd, hr, hlim, N.setCn, cnStop, N.ev, N.cn, Cn.delayOf]

/-- non-vacuity, and what the pointer half of the recheck is for: table 5, 3 s, restart at the 2nd failure.  The first
failure waits 5 s; the retry at 5000 ms fails (2nd failure: the function restarts, the new series' first failure waits
5 s again): the deadline is 10000 ms — not 8000 ms, what arming the outer timer with the 2nd entry would give; at 10000 ms
the same happens again (failure 2 of the new series), and so on: the count never passes 2. -/

example :
    let a := run {} init [.knInit 0, .knDelayRe [5, 3] 2, .knStart, .adv 5000]
    let b := run {} init [.knInit 0, .knDelayRe [5, 3] 2, .knStart, .adv 5000, .adv 4999]
    let c := run {} init [.knInit 0, .knDelayRe [5, 3] 2, .knStart, .adv 5000, .adv 5000, .adv 5000]
    a.kn.st = .delay ∧ a.kn.fails = 1 ∧ a.kn.deadline = some 10000 ∧ a.uaf = false ∧ a.hist = [.knStart, .knStop, .knStart] ∧
    b.kn.deadline = some 10000 ∧ dueTimers b = [] ∧
    c.kn.fails = 1 ∧ c.kn.deadline = some 20000 ∧ c.links = [] := by decide

/-- **C06_net_delay_func_stops_counterexample.** The code as found calls the delay function before the new timer
exists and while the state still says Delay (after a retry): its `stop()` dereferences the timer pointer that
`onDelayTimeout` has just cleared. -/

theorem C06_net_delay_func_stops_counterexample :
    (run { fix := false } init [.knInit 0, .knDelayAct [] 2 false, .knStart, .adv 1000]).uaf = true := by decide

/-- with the patch: the second failure's delay function stops the connector; it is idle, nothing is armed, and a later
start() begins a new series; `cleanup()` from the function leaves it in None with the default delay function -/

example :
    let n := run {} init [.knInit 0, .knDelayAct [] 2 false, .knStart, .adv 1000]
    let m := run {} init [.knInit 0, .knDelayAct [] 2 false, .knStart, .adv 1000, .adv 5000, .knStart]
    let c := run {} init [.knInit 0, .knDelayAct [7] 2 true, .knStart, .adv 7000]
    n.uaf = false ∧ n.kn.st = .inited ∧ n.kn.deadline = none ∧ n.kn.fails = 2 ∧ dueTimers { n with now := 100000 } = [] ∧
    m.kn.st = .delay ∧ m.kn.fails = 1 ∧ m.kn.deadline = some 7000 ∧
    c.kn.st = .none ∧ c.kn.delays = [] ∧ c.kn.dAct = none ∧ c.kn.deadline = none ∧ c.uaf = false := by decide

/-- **C06_net_retry_on_time.** `handleExpiredTimers` fires the retry timer of a connector exactly
when its deadline is reached: a timer is among the due ones iff its connector is in Delay and the
deadline is not after `now` — never early, and never skipped once the time has come. -/

theorem C06_net_retry_on_time (n : N) (w : Who) (d s : Nat) :
    (w, d, s) ∈ dueTimers n ↔
      (w = .cl 0 ∨ w = .cl 1 ∨ w = .kn) ∧ (n.cn w).st = .delay ∧ (n.cn w).deadline = some d ∧ d ≤ n.now ∧ (n.cn w).seq = s := by
  unfold dueTimers
  simp only [mem_foldr_insertTimer]
  rw [List.mem_filterMap]
  have h0 : n.cn (.cl 0) = n.c0.cn := rfl
  have h1 : n.cn (.cl 1) = n.c1.cn := rfl
  have h2 : n.cn .kn = n.kn := rfl
  constructor
  · rintro ⟨a, ha, h⟩
    simp only [List.mem_cons, List.not_mem_nil, or_false] at ha
    rcases ha with rfl | rfl | rfl <;> simp only at h <;> split at h <;> (try cases h) <;> split at h <;> (try cases h) <;>
      simp_all
  · rintro ⟨hw, hst, hdl, hle, hs⟩
    rcases hw with rfl | rfl | rfl
    · exact ⟨(.cl 0, n.c0.cn), by simp, by rw [h0] at hst hdl hs; simp [hst, hdl, hle, hs]⟩
    · exact ⟨(.cl 1, n.c1.cn), by simp, by rw [h1] at hst hdl hs; simp [hst, hdl, hle, hs]⟩
    · exact ⟨(.kn, n.kn), by simp, by rw [h2] at hst hdl hs; simp [hst, hdl, hle, hs]⟩

/-- **C06_net_adv_idle.** Time passing without a deadline being reached changes nothing but the
clock (no retry before its time). -/

theorem C06_net_adv_idle (cfg : Cfg) (n : N) (ms : Nat) (h : dueTimers { n with now := n.now + ms } = []) :
    (step cfg n (.adv ms)).1 = { n with now := n.now + ms } := by
  simp only [step, timerFuel]
  unfold fireAll
  rw [h]

/-- **C06_net_stale_write_event.** A write event of a connector that is not Connecting (stop() was
called after the kernel had completed the connect, before the event was served) does nothing: no
connected callback, no state change. -/

theorem C06_net_stale_write_event (cfg : Cfg) (n : N) (w : Who) (h : (n.cn w).st ≠ .connecting) :
    handle cfg n (.writable w) = n := by
  simp only [handle]
  split
  · rename_i h1 _; exact absurd h1 h
  · rfl

/-- non-vacuity of the retry laws: a bare connector with the table 3, 0, 2 and a limit of 4, nobody
listens: the first failure waits 3 s; at 3000 ms the retry fails and the zero delay makes the next
attempt follow in the same `handleExpiredTimers`, whose failure waits 2 s; the fourth failure is
reported.  One millisecond early nothing happens. -/

example :
    let a := run {} init [.knInit 4, .knDelay [3, 0, 2], .knStart]
    let b := run {} init [.knInit 4, .knDelay [3, 0, 2], .knStart, .adv 2999]
    let c := run {} init [.knInit 4, .knDelay [3, 0, 2], .knStart, .adv 2999, .adv 1]
    let d := run {} init [.knInit 4, .knDelay [3, 0, 2], .knStart, .adv 2999, .adv 1, .adv 1999, .adv 1]
    a.kn.deadline = some 3000 ∧ a.kn.fails = 1 ∧ b.kn.fails = 1 ∧ dueTimers b = [] ∧
    c.kn.fails = 3 ∧ c.kn.deadline = some 5000 ∧ c.kn.st = .delay ∧
    d.kn.fails = 4 ∧ d.kn.st = .inited ∧ d.kn.deadline = none ∧ d.hist = [.knStart, .knFailed] := by decide

/-- a large delay (INT_MAX seconds) and the default beyond the table -/

example :
    let a := run {} init [.knInit 0, .knDelay [2147483647], .knStart]
    a.kn.deadline = some 2147483647000 ∧ a.kn.delayOf 2 = 1 ∧ (cnFail {} a .kn).2 = false := by decide

/-- stop() while Connecting with the connect already made: the write event that is still queued is
ignored, the server sees the connection come and go, and the next start() makes a fresh link -/

example :
    let n := run {} init [.svInit, .svStart, .clInit 0, .clScript 0 1 [.stop], .clStart 0, .svStop, .svStart]
    let m := run {} init [.svInit, .svStart, .clInit 0, .clScript 0 1 [.stop], .clStart 0, .svStop, .svStart, .clStart 0]
    n.c0.st = .inited ∧ n.c0.cn.st = .inited ∧ (n.link 1).cOpen = false ∧
    svTrace n.hist 1 = [.connected, .disconnected] ∧ clTrace n.hist 0 1 = [] ∧
    (handle {} n (.writable (.cl 0))).hist = n.hist ∧
    m.c0.link = some 2 ∧ clTrace m.hist 0 2 = [.connected] := by decide

/-- the listener goes away (cleanup() from the server's disconnected callback) while the client's next connection is still
in its backlog and the connector's write event has not been served: the kernel has reset it, SO_ERROR says so, the
attempt counts as failed — no connected callback for link 1, the retry timer runs -/

example :
    let n := run {} init [.svInit, .svStart, .svScript 1 [.cleanup], .clInit 0, .clRec 0 false, .clScript 0 3 [.stop, .start],
                          .clStart 0, .clSend 0 [0xd4]]
    (n.link 1).rst = true ∧ clTrace n.hist 0 1 = [] ∧ n.c0.st = .connecting ∧ n.c0.cn.st = .delay ∧ n.c0.cn.fails = 1 ∧
    n.c0.cn.deadline = some 1000 := by decide

end Tbox.C06.Net
