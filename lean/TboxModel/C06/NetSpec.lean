/-
C06 — the vocabulary of the plumbing properties: per-connection callback traces and their
automaton, quiet-after-stop, object accounting.  (Executable / decidable; no proofs here.)
-/
import TboxModel.C06.NetModel
namespace Tbox.C06.Net

/-- callbacks the server made for token index `t`, in order -/
def svTrace (h : List Ev) (t : Nat) : List Kind :=
  h.filterMap fun e => match e with
    | .sv t' k => if t' = t then some k else none
    | _ => none

/-- callbacks client `i` made for its connection over link `l`, in order -/
def clTrace (h : List Ev) (i l : Nat) : List Kind :=
  h.filterMap fun e => match e with
    | .cl i' l' k => if i' = i ∧ l' = l then some k else none
    | _ => none

/-- life of a connection as its user sees it: connected, then receive / send-complete, then at most
one disconnected, then nothing -/
inductive Phase where
  | fresh | live | closed | bad
deriving DecidableEq, Repr

def Phase.step : Phase → Kind → Phase
  | .fresh, .connected => .live
  | .live, .recv _ => .live
  | .live, .sendComplete => .live
  | .live, .disconnected => .closed
  | _, _ => .bad

def phaseOf (ks : List Kind) : Phase := ks.foldl Phase.step .fresh

/-- the server is silent between a stop (or before the first start) and the next start -/
def svQuietOk : Bool → List Ev → Bool
  | _, [] => true
  | _, .svStart :: es => svQuietOk true es
  | _, .svStop :: es => svQuietOk false es
  | on, .sv _ _ :: es => on && svQuietOk on es
  | on, _ :: es => svQuietOk on es

/-- client `i` is silent between a stop and its next start (auto-reconnect starts it too) -/
def clQuietOk (i : Nat) : Bool → List Ev → Bool
  | _, [] => true
  | on, .clStart j :: es => clQuietOk i (on || j == i) es
  | on, .clStop j :: es => clQuietOk i (on && j != i) es
  | on, .cl j _ _ :: es => (j != i || on) && clQuietOk i on es
  | on, _ :: es => clQuietOk i on es

/-- client `i` as its user sees it: no connection, or the connection over link `l` -/
inductive CPhase where
  | off | on (l : Nat) | bad
deriving DecidableEq, Repr

/-- connected only when there is no connection; receive / send-complete / disconnected only for the
current connection; disconnected and stop() end it -/
def cstep (i : Nat) (p : CPhase) (e : Ev) : CPhase :=
  match e with
  | .cl j l k =>
      if j ≠ i then p else
      match p, k with
      | .off, .connected => .on l
      | .on l', .recv _ => if l' = l then .on l' else .bad
      | .on l', .sendComplete => if l' = l then .on l' else .bad
      | .on l', .disconnected => if l' = l then .off else .bad
      | _, _ => .bad
  | .clStop j => if j = i then (match p with | .bad => .bad | _ => .off) else p
  | _ => p

def cphase (i : Nat) (h : List Ev) : CPhase := h.foldl (cstep i) .off

/-- a connect attempt is in flight for this connector: exactly one of write event / retry timer -/
def Cn.attempting (c : Cn) : Bool := c.pend.isSome != c.deadline.isSome

end Tbox.C06.Net
