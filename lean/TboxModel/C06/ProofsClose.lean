/- C06 — helper lemmas: the end of the stream is reported once (`OnceInv`) and after all data (`CloseInv`). -/
import TboxModel.C06.ProofsRecv
namespace Tbox.C06

/-! ### reported at most once -/

structure OnceInv (s : S) : Prop where
  once : discCount s.hist ≤ (if s.expired then 1 else 0)
  zonce : zeroCount s.hist ≤ (if s.eofSeen then 1 else 0)
  expd : s.expired = true → s.conn = true ∧ s.st ≠ .running
  eofd : s.eofSeen = true → s.readOn = false
  ron : s.readOn = true → s.st = .running

/-- an event that is neither read-zero nor disconnected -/
def Ev.plain : Ev → Bool
  | .readZero _ | .disconnected _ _ => false
  | _ => true

theorem counts_addEv (h : List Ev) (e : Ev) (he : Ev.plain e = true) :
    discCount (h ++ [e]) = discCount h ∧ zeroCount (h ++ [e]) = zeroCount h := by
  rw [discCount_append, zeroCount_append]; cases e <;> simp_all [Ev.plain]

theorem OnceInv.addEv {s : S} (hs : OnceInv s) (e : Ev) (he : Ev.plain e = true) :
    OnceInv { s with hist := s.hist ++ [e] } :=
  ⟨by simp only [(counts_addEv _ _ he).1]; exact hs.once,
   by simp only [(counts_addEv _ _ he).2]; exact hs.zonce, hs.expd, hs.eofd, hs.ron⟩

theorem onceInv_send (s : S) (d : List Byte) (hs : OnceInv s) : OnceInv (send s d).1 := by
  obtain ⟨h1, h2, h3, h4, h5⟩ := hs
  unfold send
  split; exact ⟨h1, h2, h3, h4, h5⟩
  simp only
  split; exact ⟨h1, h2, h3, h4, h5⟩
  split
  · exact ⟨h1, h2, h3, h4, h5⟩
  · exact ⟨h1, h2, h3, h4, h5⟩
  · split <;> exact ⟨h1, h2, h3, h4, h5⟩

theorem onceInv_disable (s : S) (hs : OnceInv s) :
    OnceInv (disable s).1 ∧ (disable s).1.st ≠ .running ∧ (disable s).1.conn = s.conn ∧
    (disable s).1.expired = s.expired ∧ (disable s).1.hist = s.hist ∧ (disable s).1.eofSeen = s.eofSeen := by
  obtain ⟨h1, h2, h3, h4, h5⟩ := hs
  unfold disable
  split
  · rename_i hi; exact ⟨⟨h1, h2, h3, h4, h5⟩, by rw [hi]; simp, rfl, rfl, rfl, rfl⟩
  · split
    · rename_i hn; exact ⟨⟨h1, h2, h3, h4, h5⟩, hn, rfl, rfl, rfl, rfl⟩
    · exact ⟨⟨h1, h2, fun h => ⟨(h3 h).1, by simp⟩, fun _ => rfl, fun h => by simp at h⟩,
        by simp, rfl, rfl, rfl, rfl⟩

theorem onceInv_stable : Stable OnceInv where
  send s d hs := by unfold apiSend; split; exact hs; exact onceInv_send s d hs
  enable s hs := by
    unfold apiEnable; split; exact hs
    rename_i hc
    obtain ⟨h1, h2, h3, h4, h5⟩ := hs
    have hne : s.expired = false := by
      cases he : s.expired with
      | false => rfl
      | true => exact absurd (h3 he).1 hc
    unfold Tbox.C06.enable
    split; exact ⟨h1, h2, h3, h4, h5⟩
    split; exact ⟨h1, h2, h3, h4, h5⟩
    exact ⟨h1, h2, fun h => by simp [hne] at h, fun h => by
      have h' : s.eofSeen = true := h
      simp [h'], fun _ => rfl⟩
  disable s hs := by unfold apiDisable; split; exact hs; exact (onceInv_disable s hs).1
  disconnect s hs := by
    unfold Tbox.C06.disconnect; split; exact hs
    rename_i hc
    have hc' : s.conn = true ∧ s.expired = false := by
      simp only [not_or, Bool.not_eq_false, Bool.not_eq_true] at hc; exact hc
    obtain ⟨hd, hr, hcn, _, hh, _⟩ := onceInv_disable s hs
    refine ⟨?_, hd.zonce, fun _ => ⟨by simp only [hcn]; exact hc'.1, hr⟩, hd.eofd, hd.ron⟩
    have := hs.once; simp [hc'.2] at this
    simp [hh, this]

/-- `zeroCount = 0 ∧ eofSeen` is carried through callback scripts -/
def ZFresh (s : S) : Prop := zeroCount s.hist = 0 ∧ s.eofSeen = true

theorem send_eofSeen (s : S) (d : List Byte) : (send s d).1.eofSeen = s.eofSeen := by
  unfold send; split; rfl; simp only; split; rfl; split
  · rfl
  · rfl
  · split <;> rfl
theorem enable_eofSeen (s : S) : (enable s).1.eofSeen = s.eofSeen := by
  unfold enable; split; rfl; split <;> rfl
theorem disable_eofSeen (s : S) : (disable s).1.eofSeen = s.eofSeen := by
  unfold disable; split; rfl; split <;> rfl

theorem zfresh_stable : Stable ZFresh := by
  refine Stable.ofRaw ?_ ?_ ?_ ?_
  · intro s d ⟨h1, h2⟩
    exact ⟨by rw [send_hist]; exact h1, by rw [send_eofSeen]; exact h2⟩
  · intro s ⟨h1, h2⟩; exact ⟨by rw [enable_hist]; exact h1, by rw [enable_eofSeen]; exact h2⟩
  · intro s ⟨h1, h2⟩; exact ⟨by rw [disable_hist]; exact h1, by rw [disable_eofSeen]; exact h2⟩
  · intro s h; exact h

theorem zfresh_presentAny (s : S) (hs : ZFresh s) : ZFresh (presentAny s) := by
  unfold presentAny
  split
  · apply zfresh_stable.runActs
    exact ⟨by simp only [(counts_addEv _ (.recv s.recvQ _) rfl).2]; exact hs.1, hs.2⟩
  · exact ⟨by simp only [(counts_addEv _ (.discard s.recvQ) rfl).2]; exact hs.1, hs.2⟩

theorem onceInv_presentAny (s : S) (hs : OnceInv s) : OnceInv (presentAny s) := by
  unfold presentAny
  split
  · apply onceInv_stable.runActs
    have := hs.addEv (.recv s.recvQ ‹Nat›) rfl
    exact ⟨this.once, this.zonce, this.expd, this.eofd, this.ron⟩
  · have := hs.addEv (.discard s.recvQ) rfl
    exact ⟨this.once, this.zonce, this.expd, this.eofd, this.ron⟩

theorem onceInv_closeTail (v : Bool) (s : S) (hs : OnceInv s) (hr : s.st = .running)
    (hz : v = false → ZFresh s) : OnceInv (closeTail v s) := by
  unfold closeTail
  split
  · rename_i hc
    have hne : s.expired = false := by
      cases he : s.expired with
      | false => rfl
      | true => exact absurd hr (hs.expd he).2
    obtain ⟨hd, hst, hcn, _, hh, _⟩ := onceInv_disable s hs
    have h0 : discCount s.hist = 0 := by have := hs.once; simp [hne] at this; exact this
    unfold socketClosed
    have h1 : OnceInv { (disable s).1 with expired := true } :=
      ⟨by simp [hh, h0], hd.zonce, fun _ => ⟨by simp only [hcn]; exact hc, hst⟩, hd.eofd, hd.ron⟩
    refine onceInv_stable.fire _ _ _ h1 ⟨?_, ?_, h1.expd, h1.eofd, h1.ron⟩
    · simp [discCount_append, hh, h0]
    · simp only [zeroCount_append, Nat.add_zero]; exact h1.zonce
  · split
    · exact onceInv_stable.fire _ _ _ hs (hs.addEv _ rfl)
    · rename_i hv
      have hz' := hz (by simpa using hv)
      refine onceInv_stable.fire _ _ _ hs ⟨?_, ?_, hs.expd, hs.eofd, hs.ron⟩
      · simp only [discCount_append, Nat.add_zero]; exact hs.once
      · simp [zeroCount_append, hz'.1, hz'.2]

theorem onceInv_onRead (s : S) (hs : OnceInv s) (hro : s.readOn = true) : OnceInv (onRead s) := by
  have hrun : s.st = .running := hs.ron hro
  have heof : s.eofSeen = false := by
    cases he : s.eofSeen with
    | false => rfl
    | true => rw [hs.eofd he] at hro; cases hro
  have hz0 : zeroCount s.hist = 0 := by have := hs.zonce; simp [heof] at this; exact this
  unfold onRead
  split
  · exact ⟨hs.once, hs.zonce, hs.expd, hs.eofd, hs.ron⟩
  · rename_i p q _
    have h1 : OnceInv { s with pending := p, rq := q, readOn := false, eofSeen := true } :=
      ⟨hs.once, by simp [hz0], hs.expd, fun _ => rfl, fun h => by simp at h⟩
    have hzf : ZFresh { s with pending := p, rq := q, readOn := false, eofSeen := true } := ⟨hz0, rfl⟩
    refine flushThen_of _ _ (fun _ => onceInv_closeTail false _ h1 hrun (fun _ => hzf))
      (fun _ _ => onceInv_presentAny _ h1) (fun _ hr => ?_)
    exact onceInv_closeTail false _ (onceInv_presentAny _ h1) hr (fun _ => zfresh_presentAny _ hzf)
  · rename_i p q _
    have h1 : OnceInv { s with pending := p, rq := q } := ⟨hs.once, hs.zonce, hs.expd, hs.eofd, hs.ron⟩
    refine flushThen_of _ _ (fun _ => onceInv_closeTail true _ h1 hrun (fun h => by cases h))
      (fun _ _ => onceInv_presentAny _ h1) (fun _ hr => ?_)
    exact onceInv_closeTail true _ (onceInv_presentAny _ h1) hr (fun h => by cases h)
  · rename_i d p q _
    have h1 : OnceInv { s with pending := p, rq := q, recvQ := s.recvQ ++ d, got := s.got ++ d } :=
      ⟨hs.once, hs.zonce, hs.expd, hs.eofd, hs.ron⟩
    unfold present; split; exact onceInv_presentAny _ h1; exact h1

theorem onceInv_wrFrame : WrFrame OnceInv where
  fields s _ _ _ _ hs := ⟨hs.once, hs.zonce, hs.expd, hs.eofd, hs.ron⟩
  ev s e he hs := hs.addEv e (by cases e <;> simp_all [Ev.isWrite, Ev.plain])

theorem onceInv_frame : StepFrame OnceInv (fun _ => True) where
  stable := onceInv_stable
  onRead := onceInv_onRead
  onWrite := onWrite_of_frame onceInv_stable onceInv_wrFrame
  initFd s n ev hs := by
    obtain ⟨h1, h2, h3, h4, h5⟩ := hs
    unfold initFd
    split; exact ⟨h1, h2, h3, h4, h5⟩
    split; exact ⟨h1, h2, h3, h4, h5⟩
    split; exact ⟨h1, h2, h3, h4, h5⟩
    rename_i he
    have he' : s.st = .empty := by simpa using he
    refine ⟨h1, h2, fun h => ⟨(h3 h).1, by simp⟩, h4, fun h => ?_⟩
    have := h5 h; rw [he'] at this; cases this
  connFlag s hs := ⟨hs.once, hs.zonce, fun h => ⟨rfl, (hs.expd h).2⟩, hs.eofd, hs.ron⟩
  setRcb s _ _ _ hs := ⟨hs.once, hs.zonce, hs.expd, hs.eofd, hs.ron⟩
  cbs s _ _ _ _ _ hs := ⟨hs.once, hs.zonce, hs.expd, hs.eofd, hs.ron⟩
  world s _ _ _ _ hs := ⟨hs.once, hs.zonce, hs.expd, hs.eofd, hs.ron⟩
  feed s d hs := ⟨hs.once, hs.zonce, hs.expd, hs.eofd, hs.ron⟩

theorem init_onceInv : OnceInv init :=
  ⟨by simp [init, discCount], by simp [init, zeroCount], (fun h => by cases h), (fun h => by cases h),
   (fun h => by cases h)⟩


/-! ### reported after all the data -/

structure CloseInv (s : S) : Prop where
  stream : StreamInv s
  presLe : s.pres ≤ s.got.length
  unp : s.got.length - s.pres ≤ s.recvQ.length     -- what has not been presented is still buffered
  close : closeOk s.hist

theorem closeOk_append (h : List Ev) (e : Ev) (hh : closeOk h)
    (h1 : ∀ u, e = .readZero u → u = 0) (h2 : ∀ u, e = .disconnected false u → u = 0) :
    closeOk (h ++ [e]) := by
  constructor
  · intro u hu
    rcases List.mem_append.mp hu with hu | hu
    · exact hh.1 u hu
    · exact h1 u (List.mem_singleton.mp hu).symm
  · intro u hu
    rcases List.mem_append.mp hu with hu | hu
    · exact hh.2 u hu
    · exact h2 u (List.mem_singleton.mp hu).symm

theorem CloseInv.congr {s t : S} (hs : CloseInv s) (h : RSame t s) (hh : t.hist = s.hist) : CloseInv t :=
  ⟨hs.stream.congr h (.inl hh), by rw [h.pres, h.got]; exact hs.presLe,
   by rw [h.pres, h.got, h.recvQ]; exact hs.unp, by rw [hh]; exact hs.close⟩

theorem CloseInv.addEv {s : S} (hs : CloseInv s) (e : Ev) (he : Ev.isPres e = false)
    (h1 : ∀ u, e = .readZero u → u = 0) (h2 : ∀ u, e = .disconnected false u → u = 0) :
    CloseInv { s with hist := s.hist ++ [e] } :=
  ⟨hs.stream.addEv e he, hs.presLe, hs.unp, closeOk_append _ _ hs.close h1 h2⟩

theorem closeInv_stable : Stable CloseInv := by
  refine Stable.ofRaw ?_ ?_ ?_ ?_
  · intro s d hs
    have hr := send_rsame s d
    exact ⟨streamInv_stable_send s d hs.stream, by rw [hr.pres, hr.got]; exact hs.presLe,
      by rw [hr.pres, hr.got, hr.recvQ]; exact hs.unp, by rw [send_hist]; exact hs.close⟩
  · intro s hs; exact hs.congr (enable_rsame s) (enable_hist s)
  · intro s hs; exact hs.congr (disable_rsame s) (disable_hist s)
  · intro s hs; exact hs.congr ⟨rfl, rfl, rfl, rfl, rfl, rfl, rfl⟩ rfl

/-- "every byte the peer wrote has been presented" is carried through callback scripts -/
def AllPres (s : S) : Prop := unpresented s = 0

theorem unpresented_rsame {t s : S} (h : RSame t s) : unpresented t = unpresented s := by
  unfold unpresented; rw [h.fed, h.pres]

theorem allPres_stable : Stable AllPres := by
  refine Stable.ofRaw ?_ ?_ ?_ ?_
  · intro s d h; unfold AllPres; rw [unpresented_rsame (send_rsame s d)]; exact h
  · intro s h; unfold AllPres; rw [unpresented_rsame (enable_rsame s)]; exact h
  · intro s h; unfold AllPres; rw [unpresented_rsame (disable_rsame s)]; exact h
  · intro s h; exact h

theorem closeInv_presentAny (s : S) (hs : CloseInv s) : CloseInv (presentAny s) := by
  unfold presentAny
  split
  · apply closeInv_stable.runActs
    exact ⟨streamInv_presented s _ hs.stream, Nat.le_refl _, by simp,
      closeOk_append _ _ hs.close (fun _ h => by cases h) (fun _ h => by cases h)⟩
  · exact ⟨streamInv_discarded s hs.stream, Nat.le_refl _, by simp,
      closeOk_append _ _ hs.close (fun _ h => by cases h) (fun _ h => by cases h)⟩

/-- after a presentation with nothing left in the kernel, everything has been presented -/
theorem allPres_presentAny (s : S) (hs : CloseInv s) (hp : s.pending = []) : AllPres (presentAny s) := by
  have hk : s.fed = s.got := by have := hs.stream.kern; rw [hp, List.append_nil] at this; exact this.symm
  unfold presentAny
  split
  · apply allPres_stable.runActs
    simp [AllPres, unpresented, hk]
  · simp [AllPres, unpresented, hk]

theorem closeInv_closeTail (v : Bool) (s : S) (hs : CloseInv s) (hu : v = false → AllPres s) :
    CloseInv (closeTail v s) := by
  unfold closeTail
  split
  · unfold socketClosed
    have h1 : CloseInv { (disable s).1 with expired := true } :=
      (hs.congr (disable_rsame s) (disable_hist s)).congr ⟨rfl, rfl, rfl, rfl, rfl, rfl, rfl⟩ rfl
    refine closeInv_stable.fire _ _ _ h1 (h1.addEv _ rfl (fun _ h => by cases h) ?_)
    intro u h
    cases h
    exact hu rfl
  · split
    · exact closeInv_stable.fire _ _ _ hs (hs.addEv _ rfl (fun _ h => by cases h) (fun _ h => by cases h))
    · rename_i hv
      refine closeInv_stable.fire _ _ _ hs (hs.addEv _ rfl ?_ (fun _ h => by cases h))
      intro u h; cases h; exact hu (by simpa using hv)

theorem closeInv_onRead (s : S) (hs : CloseInv s) : CloseInv (onRead s) := by
  have hsp := firstRead_spec s.pending s.eof s.rq
  unfold onRead
  split
  · rename_i p q heq
    rw [heq] at hsp; simp only [ReadOk] at hsp
    exact hs.congr ⟨rfl, rfl, rfl, hsp, rfl, rfl, rfl⟩ rfl
  · rename_i p q heq
    rw [heq] at hsp; simp only [ReadOk] at hsp
    have h1 : CloseInv { s with pending := p, rq := q, readOn := false, eofSeen := true } :=
      hs.congr ⟨rfl, rfl, rfl, hsp.1, rfl, rfl, rfl⟩ rfl
    have hp : p = [] := by rw [hsp.1]; exact hsp.2.1
    refine flushThen_of _ _ (fun he => closeInv_closeTail false _ h1 (fun _ => ?_))
      (fun _ _ => closeInv_presentAny _ h1) (fun _ _ => ?_)
    · -- nothing buffered: everything read had been presented, and nothing is left in the kernel
      have hk := h1.stream.kern
      have hu := h1.unp
      have hl := h1.presLe
      simp only at he hk hu hl
      rw [hp, List.append_nil] at hk
      simp only [AllPres, unpresented, ← hk]
      rw [he] at hu; simp at hu; omega
    · exact closeInv_closeTail false _ (closeInv_presentAny _ h1) (fun _ => allPres_presentAny _ h1 hp)
  · rename_i p q heq
    rw [heq] at hsp; simp only [ReadOk] at hsp
    have h1 : CloseInv { s with pending := p, rq := q } :=
      hs.congr ⟨rfl, rfl, rfl, hsp, rfl, rfl, rfl⟩ rfl
    exact flushThen_of _ _ (fun _ => closeInv_closeTail true _ h1 (fun h => by cases h))
      (fun _ _ => closeInv_presentAny _ h1)
      (fun _ _ => closeInv_closeTail true _ (closeInv_presentAny _ h1) (fun h => by cases h))
  · rename_i d p q heq
    rw [heq] at hsp; simp only [ReadOk] at hsp
    obtain ⟨⟨h1, h2, h3, h4⟩, hl, hu, hc⟩ := hs
    have h0 : CloseInv { s with pending := p, rq := q, recvQ := s.recvQ ++ d, got := s.got ++ d } := by
      refine ⟨⟨?_, ?_, h3, ?_⟩, ?_, ?_, hc⟩
      · simp only [← List.append_assoc, h1]
      · simp only [List.append_assoc, hsp.1]; exact h2
      · exact List.IsPrefix.trans h4 (List.prefix_append _ _)
      · simp only [List.length_append]; omega
      · simp only [List.length_append]; omega
    unfold present; split; exact closeInv_presentAny _ h0; exact h0

theorem closeInv_wrFrame : WrFrame CloseInv where
  fields s _ _ _ _ hs := hs.congr ⟨rfl, rfl, rfl, rfl, rfl, rfl, rfl⟩ rfl
  ev s e he hs := hs.addEv e (by cases e <;> simp_all [Ev.isWrite, Ev.isPres])
    (fun u h => by subst h; simp [Ev.isWrite] at he) (fun u h => by subst h; simp [Ev.isWrite] at he)

theorem closeInv_frame : StepFrame CloseInv (fun _ => True) where
  stable := closeInv_stable
  onRead s hs _ := closeInv_onRead s hs
  onWrite := onWrite_of_frame closeInv_stable closeInv_wrFrame
  initFd s n ev hs := hs.congr (initFd_rsame s n ev) (initFd_hist s n ev)
  connFlag s hs := hs.congr ⟨rfl, rfl, rfl, rfl, rfl, rfl, rfl⟩ rfl
  setRcb _ thr cb _ hs := ⟨streamInv_frame.setRcb _ thr cb trivial hs.stream, hs.presLe, hs.unp, hs.close⟩
  cbs s a b c d e hs := ⟨streamInv_frame.cbs s a b c d e hs.stream, hs.presLe, hs.unp, hs.close⟩
  world s a b c d hs := ⟨streamInv_frame.world s a b c d hs.stream, hs.presLe, hs.unp, hs.close⟩
  feed s d hs := ⟨streamInv_frame.feed s d hs.stream, hs.presLe, hs.unp, hs.close⟩

theorem init_closeInv : CloseInv init :=
  ⟨init_streamInv, Nat.le_refl _, by simp [init], ⟨(fun _ h => by cases h), (fun _ h => by cases h)⟩⟩

end Tbox.C06
