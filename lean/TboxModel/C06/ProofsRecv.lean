/- C06 — helper lemmas, receiving side: the kernel oracle, `StreamInv`, `OnceInv`, `CloseInv`. -/
import TboxModel.C06.ProofsSend
namespace Tbox.C06

/-! ### the kernel hands over what is pending, in order -/

theorem readLoop_spec (pend : List Byte) (q : List RAns) (acc : List Byte) :
    (readLoop pend q acc).1 ++ (readLoop pend q acc).2.1 = acc ++ pend ∧
    ∃ x, (readLoop pend q acc).1 = acc ++ x := by
  induction q generalizing pend acc with
  | nil => simp [readLoop]
  | cons a q ih =>
      cases a with
      | eagain => exact ⟨rfl, [], by simp [readLoop]⟩
      | eintr => exact ⟨rfl, [], by simp [readLoop]⟩
      | err => exact ⟨rfl, [], by simp [readLoop]⟩
      | fill => simp [readLoop]
      | chunk k =>
          simp only [readLoop]
          split
          · exact ⟨rfl, [], by simp⟩
          · obtain ⟨h1, x, h2⟩ := ih (pend.drop (k + 1)) (acc ++ pend.take (k + 1))
            refine ⟨by rw [h1]; simp [List.append_assoc], pend.take (k + 1) ++ x, by rw [h2]; simp [List.append_assoc]⟩

def ReadOk (pend : List Byte) (eof : Bool) (r : RRes) (p : List Byte) : Prop :=
  match r with
  | .data d => d ++ p = pend ∧ d ≠ []
  | .zero => p = pend ∧ pend = [] ∧ eof = true
  | .again => p = pend
  | .error => p = pend

theorem emptyRes_ok (eof : Bool) : ReadOk [] eof (emptyRes eof) [] := by
  cases eof <;> simp [emptyRes, ReadOk]

/-- what the first `readv` (plus the loop behind it) can return -/
theorem firstRead_spec (pend : List Byte) (eof : Bool) (q : List RAns) :
    ReadOk pend eof (firstRead pend eof q).1 (firstRead pend eof q).2.1 := by
  by_cases hp : pend = []
  · subst hp
    cases q with
    | nil => simpa [firstRead] using emptyRes_ok eof
    | cons a q =>
        cases a <;> simp only [firstRead, if_true] <;> first | exact emptyRes_ok eof | simp [ReadOk]
  · cases q with
    | nil => simp [firstRead, hp, ReadOk]
    | cons a q =>
        cases a with
        | eagain => simp [firstRead, ReadOk]
        | eintr => simp [firstRead, ReadOk]
        | err => simp [firstRead, ReadOk]
        | fill => simp [firstRead, hp, ReadOk]
        | chunk k =>
            simp only [firstRead, if_neg hp, ReadOk]
            obtain ⟨h1, x, h2⟩ := readLoop_spec (pend.drop (k + 1)) q (pend.take (k + 1))
            refine ⟨by simpa using h1, ?_⟩
            rw [h2]
            intro h
            have := (List.append_eq_nil_iff.mp h).1
            cases pend with
            | nil => exact hp rfl
            | cons b bs => simp at this

/-! ### histories -/

theorem leftAfter_append (l : List Byte) (h : List Ev) (e : Ev) :
    leftAfter l (h ++ [e]) =
      match e with
      | .recv p k => p.drop k
      | .discard _ => []
      | _ => leftAfter l h := by
  induction h generalizing l with
  | nil => cases e <;> simp [leftAfter]
  | cons x h ih => cases x <;> simp [leftAfter, ih]

theorem chainOk_append (l : List Byte) (h : List Ev) (e : Ev) :
    chainOk l (h ++ [e]) =
      (chainOk l h &&
        match e with
        | .recv p _ => (leftAfter l h).isPrefixOf p
        | .discard p => (leftAfter l h).isPrefixOf p
        | _ => true) := by
  induction h generalizing l with
  | nil => cases e <;> simp [chainOk, leftAfter]
  | cons x h ih => cases x <;> simp [chainOk, leftAfter, ih, Bool.and_assoc]

theorem discCount_append (h : List Ev) (e : Ev) :
    discCount (h ++ [e]) = discCount h + (match e with | .disconnected _ _ => 1 | _ => 0) := by
  induction h with
  | nil => cases e <;> simp [discCount]
  | cons x h ih => cases x <;> simp [discCount, ih] <;> omega


theorem zeroCount_append (h : List Ev) (e : Ev) :
    zeroCount (h ++ [e]) = zeroCount h + (match e with | .readZero _ => 1 | _ => 0) := by
  induction h with
  | nil => cases e <;> simp [zeroCount]
  | cons x h ih => cases x <;> simp [zeroCount, ih] <;> omega

/-- case analysis for `flushThen` -/
theorem flushThen_of {P : S → Prop} (k : S → S) (s : S)
    (h0 : s.recvQ = [] → P (k s))
    (h1 : s.recvQ ≠ [] → (presentAny s).st ≠ .running → P (presentAny s))
    (h2 : s.recvQ ≠ [] → (presentAny s).st = .running → P (k (presentAny s))) : P (flushThen s k) := by
  unfold flushThen
  split
  · exact h0 ‹_›
  · simp only
    split
    · exact h1 ‹_› ‹_›
    · rename_i hn; exact h2 ‹_› (by simpa using hn)

/-! ### the raw calls do not touch the receiving side -/

structure RSame (t s : S) : Prop where
  recvQ : t.recvQ = s.recvQ
  got : t.got = s.got
  taken : t.taken = s.taken
  pending : t.pending = s.pending
  fed : t.fed = s.fed
  pres : t.pres = s.pres
  thr : t.thr = s.thr

theorem send_rsame (s : S) (d : List Byte) : RSame (send s d).1 s := by
  unfold send
  split; exact ⟨rfl, rfl, rfl, rfl, rfl, rfl, rfl⟩
  simp only
  split; exact ⟨rfl, rfl, rfl, rfl, rfl, rfl, rfl⟩
  split
  · exact ⟨rfl, rfl, rfl, rfl, rfl, rfl, rfl⟩
  · exact ⟨rfl, rfl, rfl, rfl, rfl, rfl, rfl⟩
  · split <;> exact ⟨rfl, rfl, rfl, rfl, rfl, rfl, rfl⟩

theorem enable_rsame (s : S) : RSame (enable s).1 s := by
  unfold enable
  split; exact ⟨rfl, rfl, rfl, rfl, rfl, rfl, rfl⟩
  split <;> exact ⟨rfl, rfl, rfl, rfl, rfl, rfl, rfl⟩

theorem disable_rsame (s : S) : RSame (disable s).1 s := by
  unfold disable
  split; exact ⟨rfl, rfl, rfl, rfl, rfl, rfl, rfl⟩
  split <;> exact ⟨rfl, rfl, rfl, rfl, rfl, rfl, rfl⟩

theorem initFd_rsame (s : S) (n : Bool) (ev : Nat) : RSame (initFd s n ev).1 s := by
  unfold initFd
  split; exact ⟨rfl, rfl, rfl, rfl, rfl, rfl, rfl⟩
  split; exact ⟨rfl, rfl, rfl, rfl, rfl, rfl, rfl⟩
  split <;> exact ⟨rfl, rfl, rfl, rfl, rfl, rfl, rfl⟩

/-! ### the received stream -/

def Ev.isPres : Ev → Bool
  | .recv _ _ | .discard _ => true
  | _ => false

structure StreamInv (s : S) : Prop where
  recv : s.taken ++ s.recvQ = s.got
  kern : s.got ++ s.pending = s.fed
  chain : chainOk [] s.hist = true
  left : leftAfter [] s.hist <+: s.recvQ

theorem StreamInv.congr {s t : S} (hs : StreamInv s) (h : RSame t s)
    (hh : t.hist = s.hist ∨ ∃ e, Ev.isPres e = false ∧ t.hist = s.hist ++ [e]) : StreamInv t := by
  obtain ⟨h1, h2, h3, h4⟩ := hs
  rcases hh with hh | ⟨e, he, hh⟩
  · exact ⟨by rw [h.taken, h.recvQ, h.got]; exact h1, by rw [h.got, h.pending, h.fed]; exact h2,
      by rw [hh]; exact h3, by rw [hh, h.recvQ]; exact h4⟩
  · refine ⟨by rw [h.taken, h.recvQ, h.got]; exact h1, by rw [h.got, h.pending, h.fed]; exact h2, ?_, ?_⟩
    · rw [hh, chainOk_append, h3]; cases e <;> simp_all [Ev.isPres]
    · rw [hh, leftAfter_append, h.recvQ]; cases e <;> simp_all [Ev.isPres]

theorem StreamInv.addEv {s : S} (hs : StreamInv s) (e : Ev) (he : Ev.isPres e = false) :
    StreamInv { s with hist := s.hist ++ [e] } :=
  hs.congr ⟨rfl, rfl, rfl, rfl, rfl, rfl, rfl⟩ (.inr ⟨e, he, rfl⟩)

theorem streamInv_stable_send (s : S) (d : List Byte) (hs : StreamInv s) : StreamInv (send s d).1 := by
  exact hs.congr (send_rsame s d) (.inl (send_hist s d))

theorem streamInv_stable : Stable StreamInv := by
  refine Stable.ofRaw streamInv_stable_send ?_ ?_ ?_
  · intro s hs; exact hs.congr (enable_rsame s) (.inl (enable_hist s))
  · intro s hs; exact hs.congr (disable_rsame s) (.inl (disable_hist s))
  · intro s hs; exact hs.congr ⟨rfl, rfl, rfl, rfl, rfl, rfl, rfl⟩ (.inl rfl)

/-- the state handed to the callback script by a presentation -/
theorem streamInv_presented (s : S) (k : Nat) (hs : StreamInv s) :
    StreamInv { s with hist := s.hist ++ [.recv s.recvQ k], recvQ := s.recvQ.drop k,
                       taken := s.taken ++ s.recvQ.take k, pres := s.got.length } := by
  obtain ⟨h1, h2, h3, h4⟩ := hs
  have hp : (leftAfter [] s.hist).isPrefixOf s.recvQ = true := List.isPrefixOf_iff_prefix.mpr h4
  refine ⟨?_, h2, ?_, ?_⟩
  · simp only [List.append_assoc, List.take_append_drop]; exact h1
  · simp only [chainOk_append, h3, hp, Bool.and_self]
  · simp only [leftAfter_append]; exact List.prefix_refl _

theorem streamInv_discarded (s : S) (hs : StreamInv s) :
    StreamInv { s with hist := s.hist ++ [.discard s.recvQ], taken := s.taken ++ s.recvQ, recvQ := [],
                       pres := s.got.length } := by
  obtain ⟨h1, h2, h3, h4⟩ := hs
  have hp : (leftAfter [] s.hist).isPrefixOf s.recvQ = true := List.isPrefixOf_iff_prefix.mpr h4
  refine ⟨?_, h2, ?_, ?_⟩
  · simp only [List.append_nil]; exact h1
  · simp only [chainOk_append, h3, hp, Bool.and_self]
  · simp only [leftAfter_append]; exact List.nil_prefix

theorem streamInv_presentAny (s : S) (hs : StreamInv s) : StreamInv (presentAny s) := by
  unfold presentAny
  split
  · exact streamInv_stable.runActs _ _ (streamInv_presented s _ hs)
  · exact streamInv_discarded s hs

theorem streamInv_present (s : S) (hs : StreamInv s) : StreamInv (present s) := by
  unfold present; split; exact streamInv_presentAny s hs; exact hs

theorem streamInv_closed (s : S) (v : Bool) (hs : StreamInv s) : StreamInv (socketClosed s v) := by
  refine socketClosed_of streamInv_stable ?_ (fun s v u hs => hs.addEv _ rfl) s v hs
  intro s hs
  exact (hs.congr (disable_rsame s) (.inl (disable_hist s))).congr
    ⟨rfl, rfl, rfl, rfl, rfl, rfl, rfl⟩ (.inl rfl)

theorem streamInv_closeTail (v : Bool) (s : S) (hs : StreamInv s) : StreamInv (closeTail v s) := by
  unfold closeTail
  split
  · exact streamInv_closed s v hs
  · split
    · exact streamInv_stable.fire _ _ _ hs (hs.addEv _ rfl)
    · exact streamInv_stable.fire _ _ _ hs (hs.addEv _ rfl)

theorem streamInv_flushThen (v : Bool) (s : S) (hs : StreamInv s) :
    StreamInv (flushThen s (closeTail v)) :=
  flushThen_of _ s (fun _ => streamInv_closeTail v s hs) (fun _ _ => streamInv_presentAny s hs)
    (fun _ _ => streamInv_closeTail v _ (streamInv_presentAny s hs))

theorem streamInv_onRead (s : S) (hs : StreamInv s) : StreamInv (onRead s) := by
  have hsp := firstRead_spec s.pending s.eof s.rq
  unfold onRead
  split
  · rename_i p q heq
    rw [heq] at hsp; simp only [ReadOk] at hsp
    exact hs.congr ⟨rfl, rfl, rfl, hsp, rfl, rfl, rfl⟩ (.inl rfl)
  · rename_i p q heq
    rw [heq] at hsp; simp only [ReadOk] at hsp
    exact streamInv_flushThen _ _ (hs.congr ⟨rfl, rfl, rfl, hsp.1, rfl, rfl, rfl⟩ (.inl rfl))
  · rename_i p q heq
    rw [heq] at hsp; simp only [ReadOk] at hsp
    exact streamInv_flushThen _ _ (hs.congr ⟨rfl, rfl, rfl, hsp, rfl, rfl, rfl⟩ (.inl rfl))
  · rename_i d p q heq
    rw [heq] at hsp; simp only [ReadOk] at hsp
    apply streamInv_present
    obtain ⟨h1, h2, h3, h4⟩ := hs
    refine ⟨?_, ?_, h3, ?_⟩
    · simp only [← List.append_assoc, h1]
    · simp only [List.append_assoc, hsp.1]; exact h2
    · exact List.IsPrefix.trans h4 (List.prefix_append _ _)

theorem streamInv_wrFrame : WrFrame StreamInv where
  fields s _ _ _ _ hs := hs.congr ⟨rfl, rfl, rfl, rfl, rfl, rfl, rfl⟩ (.inl rfl)
  ev s e he hs := hs.addEv e (by cases e <;> simp_all [Ev.isWrite, Ev.isPres])

theorem streamInv_frame : StepFrame StreamInv (fun _ => True) where
  stable := streamInv_stable
  onRead s hs _ := streamInv_onRead s hs
  onWrite := onWrite_of_frame streamInv_stable streamInv_wrFrame
  initFd s n ev hs := hs.congr (initFd_rsame s n ev) (.inl (initFd_hist s n ev))
  connFlag s hs := hs.congr ⟨rfl, rfl, rfl, rfl, rfl, rfl, rfl⟩ (.inl rfl)
  setRcb s _ _ _ hs := ⟨hs.recv, hs.kern, hs.chain, hs.left⟩
  cbs s _ _ _ _ _ hs := ⟨hs.recv, hs.kern, hs.chain, hs.left⟩
  world s _ _ _ _ hs := ⟨hs.recv, hs.kern, hs.chain, hs.left⟩
  feed s d hs := ⟨hs.recv, by simp only [← List.append_assoc, hs.kern], hs.chain, hs.left⟩

theorem init_streamInv : StreamInv init := ⟨rfl, rfl, rfl, List.nil_prefix⟩

end Tbox.C06
