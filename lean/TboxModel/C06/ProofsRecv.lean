/- C06 — helper lemmas, receiving side: the kernel oracle, `StreamInv`, `OnceInv`, `CloseInv`. -/
import TboxModel.C06.ProofsSend
namespace Tbox.C06

/-! ### the kernel hands over what is pending, in order -/

theorem readLoop_spec (pend : List Byte) (q : List RAns) (acc : List Byte) :
    (readLoop pend q acc).1 ++ (readLoop pend q acc).2.1 = acc ++ pend ∧
    ∃ x, (readLoop pend q acc).1 = acc ++ x := by
  induction q generalizing pend acc with
  | nil => simp [readLoop]
  | cons a q ih =>
      cases a with
      | eagain => exact ⟨rfl, [], by simp [readLoop]⟩
      | err => exact ⟨rfl, [], by simp [readLoop]⟩
      | fill => simp [readLoop]
      | chunk k =>
          simp only [readLoop]
          split
          · exact ⟨rfl, [], by simp⟩
          · obtain ⟨h1, x, h2⟩ := ih (pend.drop (k + 1)) (acc ++ pend.take (k + 1))
            refine ⟨by rw [h1]; simp [List.append_assoc], pend.take (k + 1) ++ x, by rw [h2]; simp [List.append_assoc]⟩

def ReadOk (pend : List Byte) (eof : Bool) (r : RRes) (p : List Byte) : Prop :=
  match r with
  | .data d => d ++ p = pend ∧ d ≠ []
  | .zero => p = pend ∧ pend = [] ∧ eof = true
  | .again => p = pend
  | .error => p = pend

theorem emptyRes_ok (eof : Bool) : ReadOk [] eof (emptyRes eof) [] := by
  cases eof <;> simp [emptyRes, ReadOk]

/-- what the first `readv` (plus the loop behind it) can return -/
theorem firstRead_spec (pend : List Byte) (eof : Bool) (q : List RAns) :
    ReadOk pend eof (firstRead pend eof q).1 (firstRead pend eof q).2.1 := by
  by_cases hp : pend = []
  · subst hp
    cases q with
    | nil => simpa [firstRead] using emptyRes_ok eof
    | cons a q =>
        cases a <;> simp only [firstRead, if_true] <;> first | exact emptyRes_ok eof | simp [ReadOk]
  · cases q with
    | nil => simp [firstRead, hp, ReadOk]
    | cons a q =>
        cases a with
        | eagain => simp [firstRead, ReadOk]
        | err => simp [firstRead, ReadOk]
        | fill => simp [firstRead, hp, ReadOk]
        | chunk k =>
            simp only [firstRead, if_neg hp, ReadOk]
            obtain ⟨h1, x, h2⟩ := readLoop_spec (pend.drop (k + 1)) q (pend.take (k + 1))
            refine ⟨by simpa using h1, ?_⟩
            rw [h2]
            intro h
            have := (List.append_eq_nil_iff.mp h).1
            cases pend with
            | nil => exact hp rfl
            | cons b bs => simp at this

/-! ### histories -/

theorem leftAfter_append (l : List Byte) (h : List Ev) (e : Ev) :
    leftAfter l (h ++ [e]) =
      match e with
      | .recv p k => p.drop k
      | .discard _ => []
      | _ => leftAfter l h := by
  induction h generalizing l with
  | nil => cases e <;> simp [leftAfter]
  | cons x h ih => cases x <;> simp [leftAfter, ih]

theorem chainOk_append (l : List Byte) (h : List Ev) (e : Ev) :
    chainOk l (h ++ [e]) =
      (chainOk l h &&
        match e with
        | .recv p _ => (leftAfter l h).isPrefixOf p
        | .discard p => (leftAfter l h).isPrefixOf p
        | _ => true) := by
  induction h generalizing l with
  | nil => cases e <;> simp [chainOk, leftAfter]
  | cons x h ih => cases x <;> simp [chainOk, leftAfter, ih, Bool.and_assoc]

theorem discCount_append (h : List Ev) (e : Ev) :
    discCount (h ++ [e]) = discCount h + (match e with | .disconnected _ _ => 1 | _ => 0) := by
  induction h with
  | nil => cases e <;> simp [discCount]
  | cons x h ih => cases x <;> simp [discCount, ih] <;> omega


/-! ### the raw calls do not touch the receiving side -/

structure RSame (t s : S) : Prop where
  recvQ : t.recvQ = s.recvQ
  got : t.got = s.got
  taken : t.taken = s.taken
  pending : t.pending = s.pending
  fed : t.fed = s.fed
  pres : t.pres = s.pres
  thr : t.thr = s.thr

theorem send_rsame (s : S) (d : List Byte) : RSame (send s d).1 s := by
  unfold send
  split; exact ⟨rfl, rfl, rfl, rfl, rfl, rfl, rfl⟩
  simp only
  split; exact ⟨rfl, rfl, rfl, rfl, rfl, rfl, rfl⟩
  split <;> exact ⟨rfl, rfl, rfl, rfl, rfl, rfl, rfl⟩

theorem enable_rsame (s : S) : RSame (enable s).1 s := by
  unfold enable
  split; exact ⟨rfl, rfl, rfl, rfl, rfl, rfl, rfl⟩
  split <;> exact ⟨rfl, rfl, rfl, rfl, rfl, rfl, rfl⟩

theorem disable_rsame (s : S) : RSame (disable s).1 s := by
  unfold disable
  split; exact ⟨rfl, rfl, rfl, rfl, rfl, rfl, rfl⟩
  split <;> exact ⟨rfl, rfl, rfl, rfl, rfl, rfl, rfl⟩

theorem initFd_rsame (s : S) (n : Bool) (ev : Nat) : RSame (initFd s n ev).1 s := by
  unfold initFd
  split; exact ⟨rfl, rfl, rfl, rfl, rfl, rfl, rfl⟩
  split; exact ⟨rfl, rfl, rfl, rfl, rfl, rfl, rfl⟩
  split <;> exact ⟨rfl, rfl, rfl, rfl, rfl, rfl, rfl⟩

/-! ### the received stream -/

def Ev.isPres : Ev → Bool
  | .recv _ _ | .discard _ => true
  | _ => false

structure StreamInv (s : S) : Prop where
  recv : s.taken ++ s.recvQ = s.got
  kern : s.got ++ s.pending = s.fed
  chain : chainOk [] s.hist = true
  left : leftAfter [] s.hist <+: s.recvQ

theorem StreamInv.congr {s t : S} (hs : StreamInv s) (h : RSame t s)
    (hh : t.hist = s.hist ∨ ∃ e, Ev.isPres e = false ∧ t.hist = s.hist ++ [e]) : StreamInv t := by
  obtain ⟨h1, h2, h3, h4⟩ := hs
  rcases hh with hh | ⟨e, he, hh⟩
  · exact ⟨by rw [h.taken, h.recvQ, h.got]; exact h1, by rw [h.got, h.pending, h.fed]; exact h2,
      by rw [hh]; exact h3, by rw [hh, h.recvQ]; exact h4⟩
  · refine ⟨by rw [h.taken, h.recvQ, h.got]; exact h1, by rw [h.got, h.pending, h.fed]; exact h2, ?_, ?_⟩
    · rw [hh, chainOk_append, h3]; cases e <;> simp_all [Ev.isPres]
    · rw [hh, leftAfter_append, h.recvQ]; cases e <;> simp_all [Ev.isPres]

theorem StreamInv.addEv {s : S} (hs : StreamInv s) (e : Ev) (he : Ev.isPres e = false) :
    StreamInv { s with hist := s.hist ++ [e] } :=
  hs.congr ⟨rfl, rfl, rfl, rfl, rfl, rfl, rfl⟩ (.inr ⟨e, he, rfl⟩)

theorem streamInv_stable_send (s : S) (d : List Byte) (hs : StreamInv s) : StreamInv (send s d).1 := by
  refine hs.congr (send_rsame s d) ?_
  rcases send_hist s d with h | h
  · exact .inl h
  · exact .inr ⟨_, rfl, h⟩

theorem streamInv_stable : Stable StreamInv := by
  refine Stable.ofRaw streamInv_stable_send ?_ ?_ ?_
  · intro s hs; exact hs.congr (enable_rsame s) (.inl (enable_hist s))
  · intro s hs; exact hs.congr (disable_rsame s) (.inl (disable_hist s))
  · intro s hs; exact hs.congr ⟨rfl, rfl, rfl, rfl, rfl, rfl, rfl⟩ (.inl rfl)

theorem streamInv_present (s : S) (hs : StreamInv s) : StreamInv (present s) := by
  obtain ⟨h1, h2, h3, h4⟩ := hs
  have hp : (leftAfter [] s.hist).isPrefixOf s.recvQ = true := List.isPrefixOf_iff_prefix.mpr h4
  unfold present
  split
  · split
    · rename_i k as _
      apply streamInv_stable.runActs
      refine ⟨?_, h2, ?_, ?_⟩
      · simp only [List.append_assoc, List.take_append_drop]; exact h1
      · simp only [chainOk_append, h3, hp, Bool.and_self]
      · simp only [leftAfter_append]; exact List.prefix_refl _
    · refine ⟨?_, h2, ?_, ?_⟩
      · simp only [List.append_nil]; exact h1
      · simp only [chainOk_append, h3, hp, Bool.and_self]
      · simp only [leftAfter_append]; exact List.nil_prefix
  · exact ⟨h1, h2, h3, h4⟩

theorem streamInv_closed (s : S) (v : Bool) (hs : StreamInv s) : StreamInv (socketClosed s v) := by
  refine socketClosed_of streamInv_stable ?_ (fun s v u hs => hs.addEv _ rfl) s v hs
  intro s hs
  exact (hs.congr (disable_rsame s) (.inl (disable_hist s))).congr
    ⟨rfl, rfl, rfl, rfl, rfl, rfl, rfl⟩ (.inl rfl)

theorem streamInv_onRead (s : S) (hs : StreamInv s) : StreamInv (onRead s) := by
  have hsp := firstRead_spec s.pending s.eof s.rq
  unfold onRead
  split
  · rename_i p q heq
    rw [heq] at hsp; simp only [ReadOk] at hsp
    exact hs.congr ⟨rfl, rfl, rfl, hsp, rfl, rfl, rfl⟩ (.inl rfl)
  · rename_i p q heq
    rw [heq] at hsp; simp only [ReadOk] at hsp
    have h1 : StreamInv { s with pending := p, rq := q } :=
      hs.congr ⟨rfl, rfl, rfl, hsp.1, rfl, rfl, rfl⟩ (.inl rfl)
    simp only
    split
    · exact streamInv_closed _ _ h1
    · exact streamInv_stable.fire _ _ _ h1 (h1.addEv _ rfl)
  · rename_i p q heq
    rw [heq] at hsp; simp only [ReadOk] at hsp
    have h1 : StreamInv { s with pending := p, rq := q } :=
      hs.congr ⟨rfl, rfl, rfl, hsp, rfl, rfl, rfl⟩ (.inl rfl)
    simp only
    split
    · exact streamInv_closed _ _ h1
    · exact streamInv_stable.fire _ _ _ h1 (h1.addEv _ rfl)
  · rename_i d p q heq
    rw [heq] at hsp; simp only [ReadOk] at hsp
    apply streamInv_present
    obtain ⟨h1, h2, h3, h4⟩ := hs
    refine ⟨?_, ?_, h3, ?_⟩
    · simp only [← List.append_assoc, h1]
    · simp only [List.append_assoc, hsp.1]; exact h2
    · exact List.IsPrefix.trans h4 (List.prefix_append _ _)

theorem streamInv_wrFrame : WrFrame StreamInv where
  fields s _ _ _ _ hs := hs.congr ⟨rfl, rfl, rfl, rfl, rfl, rfl, rfl⟩ (.inl rfl)
  ev s e he hs := hs.addEv e (by cases e <;> simp_all [Ev.isWrite, Ev.isPres])

theorem streamInv_frame : StepFrame StreamInv (fun _ => True) where
  stable := streamInv_stable
  onRead s hs _ := streamInv_onRead s hs
  onWrite := onWrite_of_frame streamInv_stable streamInv_wrFrame
  initFd s n ev hs := hs.congr (initFd_rsame s n ev) (.inl (initFd_hist s n ev))
  connFlag s hs := hs.congr ⟨rfl, rfl, rfl, rfl, rfl, rfl, rfl⟩ (.inl rfl)
  setRcb s _ _ _ hs := ⟨hs.recv, hs.kern, hs.chain, hs.left⟩
  cbs s _ _ _ _ _ hs := ⟨hs.recv, hs.kern, hs.chain, hs.left⟩
  world s _ _ _ _ hs := ⟨hs.recv, hs.kern, hs.chain, hs.left⟩
  feed s d hs := ⟨hs.recv, by simp only [← List.append_assoc, hs.kern], hs.chain, hs.left⟩

theorem init_streamInv : StreamInv init := ⟨rfl, rfl, rfl, List.nil_prefix⟩


/-! ### disconnected is reported at most once -/

structure OnceInv (s : S) : Prop where
  once : discCount s.hist ≤ (if s.expired then 1 else 0)
  expd : s.expired = true → s.conn = true ∧ s.readOn = false
  ron : s.readOn = true → s.st = .running

theorem discCount_addEv (h : List Ev) (e : Ev) (he : ∀ v u, e ≠ .disconnected v u) :
    discCount (h ++ [e]) = discCount h := by
  rw [discCount_append]; cases e <;> simp_all

theorem OnceInv.addEv {s : S} (hs : OnceInv s) (e : Ev) (he : ∀ v u, e ≠ .disconnected v u) :
    OnceInv { s with hist := s.hist ++ [e] } :=
  ⟨by simp only [discCount_addEv _ _ he]; exact hs.once, hs.expd, hs.ron⟩

theorem onceInv_send (s : S) (d : List Byte) (hs : OnceInv s) : OnceInv (send s d).1 := by
  obtain ⟨h1, h2, h3⟩ := hs
  unfold send
  split; exact ⟨h1, h2, h3⟩
  simp only
  split; exact ⟨h1, h2, h3⟩
  split
  · exact ⟨h1, h2, h3⟩
  · exact ⟨h1, h2, h3⟩
  · exact ⟨by simp only [discCount_addEv _ (Ev.sendDrop d) (fun _ _ h => by cases h)]; exact h1, h2, h3⟩

theorem onceInv_disable (s : S) (hs : OnceInv s) :
    OnceInv (disable s).1 ∧ (disable s).1.readOn = false ∧ (disable s).1.conn = s.conn ∧
    (disable s).1.expired = s.expired ∧ (disable s).1.hist = s.hist := by
  obtain ⟨h1, h2, h3⟩ := hs
  have hro : s.st ≠ .running → s.readOn = false := by
    intro hn; cases hr : s.readOn with
    | false => rfl
    | true => exact absurd (h3 hr) hn
  unfold disable
  split
  · rename_i hi; exact ⟨⟨h1, h2, h3⟩, hro (by rw [hi]; simp), rfl, rfl, rfl⟩
  · split
    · rename_i hn; exact ⟨⟨h1, h2, h3⟩, hro hn, rfl, rfl, rfl⟩
    · exact ⟨⟨h1, fun h => ⟨(h2 h).1, rfl⟩, fun h => by simp at h⟩, rfl, rfl, rfl, rfl⟩

theorem onceInv_stable : Stable OnceInv where
  send s d hs := by unfold apiSend; split; exact hs; exact onceInv_send s d hs
  enable s hs := by
    unfold apiEnable; split; exact hs
    rename_i hc
    obtain ⟨h1, h2, h3⟩ := hs
    have hne : s.expired = false := by
      cases he : s.expired with
      | false => rfl
      | true => exact absurd (h2 he).1 hc
    unfold Tbox.C06.enable
    split; exact ⟨h1, h2, h3⟩
    split; exact ⟨h1, h2, h3⟩
    exact ⟨h1, fun h => by simp [hne] at h, fun _ => rfl⟩
  disable s hs := by unfold apiDisable; split; exact hs; exact (onceInv_disable s hs).1
  disconnect s hs := by
    unfold Tbox.C06.disconnect; split; exact hs
    rename_i hc
    have hc' : s.conn = true ∧ s.expired = false := by
      simp only [not_or, Bool.not_eq_false, Bool.not_eq_true] at hc; exact hc
    obtain ⟨hd, hr, hcn, _, hh⟩ := onceInv_disable s hs
    refine ⟨?_, fun _ => ⟨by simp only [hcn]; exact hc'.1, hr⟩, fun h => by simp [hr] at h⟩
    have := hs.once; simp [hc'.2] at this
    simp [hh, this]

theorem onceInv_rdFrame : RdFrame OnceInv where
  fields s _ _ _ _ _ _ hs := ⟨hs.once, hs.expd, hs.ron⟩
  ev s e he hs := hs.addEv e (by intro v u h; subst h; simp [Ev.isRead] at he)
  closed s v hs hr hc := by
    have hne : s.expired = false := by
      cases he : s.expired with
      | false => rfl
      | true => rw [(hs.expd he).2] at hr; cases hr
    obtain ⟨hd, hro, hcn, _, hh⟩ := onceInv_disable s hs
    have h0 : discCount s.hist = 0 := by have := hs.once; simp [hne] at this; exact this
    unfold socketClosed
    have h1 : OnceInv { (disable s).1 with expired := true } :=
      ⟨by simp [hh, h0], fun _ => ⟨by simp only [hcn]; exact hc, hro⟩, fun h => by simp [hro] at h⟩
    refine onceInv_stable.fire _ _ _ h1 ⟨?_, h1.expd, h1.ron⟩
    simp [discCount_append, hh, h0]

theorem onceInv_wrFrame : WrFrame OnceInv where
  fields s _ _ _ _ hs := ⟨hs.once, hs.expd, hs.ron⟩
  ev s e he hs := hs.addEv e (by intro v u h; subst h; simp [Ev.isWrite] at he)

theorem onceInv_frame : StepFrame OnceInv (fun _ => True) where
  stable := onceInv_stable
  onRead := onRead_of_frame onceInv_stable onceInv_rdFrame
  onWrite := onWrite_of_frame onceInv_stable onceInv_wrFrame
  initFd s n ev hs := by
    obtain ⟨h1, h2, h3⟩ := hs
    unfold initFd
    split; exact ⟨h1, h2, h3⟩
    split; exact ⟨h1, h2, h3⟩
    split; exact ⟨h1, h2, h3⟩
    rename_i he
    have he' : s.st = .empty := by simpa using he
    refine ⟨h1, h2, fun h => ?_⟩
    have := h3 h; rw [he'] at this; cases this
  connFlag s hs := ⟨hs.once, fun h => ⟨rfl, (hs.expd h).2⟩, hs.ron⟩
  setRcb s _ _ _ hs := ⟨hs.once, hs.expd, hs.ron⟩
  cbs s _ _ _ _ _ hs := ⟨hs.once, hs.expd, hs.ron⟩
  world s _ _ _ _ hs := ⟨hs.once, hs.expd, hs.ron⟩
  feed s d hs := ⟨hs.once, hs.expd, hs.ron⟩

theorem init_onceInv : OnceInv init :=
  ⟨by simp [init, discCount], (fun h => by cases h), (fun h => by cases h)⟩


/-! ### close is reported after the data (threshold ≤ 1) -/

structure CloseInv (s : S) : Prop where
  stream : StreamInv s
  thr : s.thr ≤ 1
  pres : s.pres = s.got.length
  close : closeOk s.hist

theorem closeOk_append (h : List Ev) (e : Ev) (hh : closeOk h)
    (h1 : ∀ u, e = .readZero u → u = 0) (h2 : ∀ u, e = .disconnected false u → u = 0) :
    closeOk (h ++ [e]) := by
  constructor
  · intro u hu
    rcases List.mem_append.mp hu with hu | hu
    · exact hh.1 u hu
    · exact h1 u (List.mem_singleton.mp hu).symm
  · intro u hu
    rcases List.mem_append.mp hu with hu | hu
    · exact hh.2 u hu
    · exact h2 u (List.mem_singleton.mp hu).symm

theorem CloseInv.congr {s t : S} (hs : CloseInv s) (h : RSame t s) (hh : t.hist = s.hist) : CloseInv t :=
  ⟨hs.stream.congr h (.inl hh), by rw [h.thr]; exact hs.thr, by rw [h.pres, h.got]; exact hs.pres,
   by rw [hh]; exact hs.close⟩

theorem CloseInv.addEv {s : S} (hs : CloseInv s) (e : Ev) (he : Ev.isPres e = false)
    (h1 : ∀ u, e = .readZero u → u = 0) (h2 : ∀ u, e = .disconnected false u → u = 0) :
    CloseInv { s with hist := s.hist ++ [e] } :=
  ⟨hs.stream.addEv e he, hs.thr, hs.pres, closeOk_append _ _ hs.close h1 h2⟩

theorem closeInv_stable : Stable CloseInv := by
  refine Stable.ofRaw ?_ ?_ ?_ ?_
  · intro s d hs
    have hr := send_rsame s d
    refine ⟨streamInv_stable_send s d hs.stream, by rw [hr.thr]; exact hs.thr,
      by rw [hr.pres, hr.got]; exact hs.pres, ?_⟩
    rcases send_hist s d with h | h <;> rw [h]
    · exact hs.close
    · exact closeOk_append _ _ hs.close (fun _ h => by cases h) (fun _ h => by cases h)
  · intro s hs; exact hs.congr (enable_rsame s) (enable_hist s)
  · intro s hs; exact hs.congr (disable_rsame s) (disable_hist s)
  · intro s hs; exact hs.congr ⟨rfl, rfl, rfl, rfl, rfl, rfl, rfl⟩ rfl

theorem closeInv_closed (s : S) (v : Bool) (hs : CloseInv s) (hu : v = false → unpresented s = 0) :
    CloseInv (socketClosed s v) := by
  unfold socketClosed
  have h1 : CloseInv { (disable s).1 with expired := true } :=
    (hs.congr (disable_rsame s) (disable_hist s)).congr ⟨rfl, rfl, rfl, rfl, rfl, rfl, rfl⟩ rfl
  refine closeInv_stable.fire _ _ _ h1 (h1.addEv _ rfl (fun _ h => by cases h) ?_)
  intro u h
  cases h
  exact hu rfl

theorem closeInv_present (s : S) (h1 : StreamInv s) (h2 : s.thr ≤ 1) (h3 : s.recvQ ≠ [])
    (h4 : closeOk s.hist) : CloseInv (present s) := by
  have hlen : s.thr ≤ s.recvQ.length := by
    cases hq : s.recvQ with
    | nil => exact absurd hq h3
    | cons a l => simp; omega
  obtain ⟨a1, a2, a3, a4⟩ := h1
  have hpre : (leftAfter [] s.hist).isPrefixOf s.recvQ = true := List.isPrefixOf_iff_prefix.mpr a4
  unfold present
  rw [if_pos hlen]
  split
  · rename_i k as heq
    apply closeInv_stable.runActs
    refine ⟨⟨?_, a2, ?_, ?_⟩, h2, rfl, closeOk_append _ _ h4 (fun _ h => by cases h) (fun _ h => by cases h)⟩
    · simp only [List.append_assoc, List.take_append_drop]; exact a1
    · simp only [chainOk_append, a3, hpre, Bool.and_self]
    · simp only [leftAfter_append]; exact List.prefix_refl _
  · refine ⟨⟨?_, a2, ?_, ?_⟩, h2, rfl, closeOk_append _ _ h4 (fun _ h => by cases h) (fun _ h => by cases h)⟩
    · simp only [List.append_nil]; exact a1
    · simp only [chainOk_append, a3, hpre, Bool.and_self]
    · simp only [leftAfter_append]; exact List.nil_prefix

theorem closeInv_onRead (s : S) (hs : CloseInv s) : CloseInv (onRead s) := by
  have hsp := firstRead_spec s.pending s.eof s.rq
  unfold onRead
  split
  · rename_i p q heq
    rw [heq] at hsp; simp only [ReadOk] at hsp
    exact hs.congr ⟨rfl, rfl, rfl, hsp, rfl, rfl, rfl⟩ rfl
  · rename_i p q heq
    rw [heq] at hsp; simp only [ReadOk] at hsp
    have h1 : CloseInv { s with pending := p, rq := q } :=
      hs.congr ⟨rfl, rfl, rfl, hsp.1, rfl, rfl, rfl⟩ rfl
    have hu : unpresented { s with pending := p, rq := q } = 0 := by
      have hk := hs.stream.kern
      rw [hsp.2.1, List.append_nil] at hk
      simp only [unpresented, ← hk, hs.pres]; omega
    simp only
    split
    · exact closeInv_closed _ _ h1 (fun _ => hu)
    · refine closeInv_stable.fire _ _ _ h1 (h1.addEv _ rfl ?_ (fun _ h => by cases h))
      intro u h; cases h; exact hu
  · rename_i p q heq
    rw [heq] at hsp; simp only [ReadOk] at hsp
    have h1 : CloseInv { s with pending := p, rq := q } :=
      hs.congr ⟨rfl, rfl, rfl, hsp, rfl, rfl, rfl⟩ rfl
    simp only
    split
    · exact closeInv_closed _ _ h1 (fun h => by cases h)
    · exact closeInv_stable.fire _ _ _ h1 (h1.addEv _ rfl (fun _ h => by cases h) (fun _ h => by cases h))
  · rename_i d p q heq
    rw [heq] at hsp; simp only [ReadOk] at hsp
    obtain ⟨⟨h1, h2, h3, h4⟩, ht, _, hc⟩ := hs
    apply closeInv_present
    · refine ⟨?_, ?_, h3, ?_⟩
      · simp only [← List.append_assoc, h1]
      · simp only [List.append_assoc, hsp.1]; exact h2
      · exact List.IsPrefix.trans h4 (List.prefix_append _ _)
    · exact ht
    · intro h; exact hsp.2 (List.append_eq_nil_iff.mp h).2
    · exact hc

theorem closeInv_wrFrame : WrFrame CloseInv where
  fields s _ _ _ _ hs := hs.congr ⟨rfl, rfl, rfl, rfl, rfl, rfl, rfl⟩ rfl
  ev s e he hs := hs.addEv e (by cases e <;> simp_all [Ev.isWrite, Ev.isPres])
    (fun u h => by subst h; simp [Ev.isWrite] at he) (fun u h => by subst h; simp [Ev.isWrite] at he)

theorem closeInv_frame : StepFrame CloseInv (fun op => op.thrSmall = true) where
  stable := closeInv_stable
  onRead s hs _ := closeInv_onRead s hs
  onWrite := onWrite_of_frame closeInv_stable closeInv_wrFrame
  initFd s n ev hs := hs.congr (initFd_rsame s n ev) (initFd_hist s n ev)
  connFlag s hs := hs.congr ⟨rfl, rfl, rfl, rfl, rfl, rfl, rfl⟩ rfl
  setRcb s thr _ hok hs :=
    ⟨streamInv_frame.setRcb s thr _ trivial hs.stream, by simpa [Op.thrSmall] using hok, hs.pres, hs.close⟩
  cbs s a b c d e hs := ⟨streamInv_frame.cbs s a b c d e hs.stream, hs.thr, hs.pres, hs.close⟩
  world s a b c d hs := ⟨streamInv_frame.world s a b c d hs.stream, hs.thr, hs.pres, hs.close⟩
  feed s d hs := ⟨streamInv_frame.feed s d hs.stream, hs.thr, hs.pres, hs.close⟩

theorem init_closeInv : CloseInv init :=
  ⟨init_streamInv, by simp [init], rfl, ⟨(fun _ h => by cases h), (fun _ h => by cases h)⟩⟩

end Tbox.C06
