/- C06 — helper lemmas, sending side: the invariant `SendInv` and its preservation. -/
import TboxModel.C06.Frame
namespace Tbox.C06

/-- sending side invariant -/
structure SendInv (s : S) : Prop where
  stream : s.wire ++ s.sendQ = s.kept
  nodrop : s.drops = 0 → s.kept = s.sentAll
  prog : s.st = .running → s.sendQ ≠ [] → s.writeArmed = true
  armed : s.writeArmed = true → s.st = .running ∧ s.hasWr = true
  nowr : s.hasWr = false → s.sendQ = []
  emp : s.st = .empty → s.hasWr = false

theorem sendInv_hist (s : S) (h : List Ev) (hs : SendInv s) : SendInv { s with hist := h } :=
  ⟨hs.stream, hs.nodrop, hs.prog, hs.armed, hs.nowr, hs.emp⟩

theorem sendInv_send (s : S) (d : List Byte) (hs : SendInv s) : SendInv (send s d).1 := by
  obtain ⟨h1, h2, h3, h4, h5, h6⟩ := hs
  unfold send
  split
  · exact ⟨h1, h2, h3, h4, h5, h6⟩
  · rename_i hw
    simp only
    split
    · rename_i hc
      refine ⟨by simp [← h1, List.append_assoc], fun h => by simp [h2 h], ?_, h4, (fun h => by simp_all), h6⟩
      intro hr _
      simp only at hr
      rcases hc with hc | hc
      · exact absurd hr hc
      · exact h3 hr hc
    · rename_i hc
      have hc' : s.st = .running ∧ s.sendQ = [] := by
        simp only [not_or, Decidable.not_not] at hc; exact hc
      have hw' : s.hasWr = true := by simpa using hw
      have hk : s.wire = s.kept := by simpa [hc'.2] using h1
      split
      · rename_i k q _
        refine ⟨?_, fun h => by simp [h2 h], fun _ _ => rfl, fun _ => ⟨hc'.1, hw'⟩, (fun h => by simp_all), h6⟩
        simp [← hk, List.append_assoc]
      · refine ⟨by simp [← hk], fun h => by simp [h2 h], fun _ _ => rfl, fun _ => ⟨hc'.1, hw'⟩, (fun h => by simp_all), h6⟩
      · split
        · refine ⟨by simp [← hk], fun h => by simp [h2 h], fun _ _ => rfl, fun _ => ⟨hc'.1, hw'⟩, (fun h => by simp_all), h6⟩
        · exact ⟨h1, h2, h3, h4, h5, h6⟩

theorem sendInv_enable (s : S) (hs : SendInv s) : SendInv (enable s).1 := by
  obtain ⟨h1, h2, h3, h4, h5, h6⟩ := hs
  unfold enable
  split
  · exact ⟨h1, h2, h3, h4, h5, h6⟩
  · split
    · exact ⟨h1, h2, h3, h4, h5, h6⟩
    · rename_i hr hi
      have hi' : s.st = .inited := by simpa using hi
      refine ⟨h1, h2, ?_, ?_, h5, (fun h => by simp at h)⟩
      · intro _ hne
        simp only at hne ⊢
        have hw : s.hasWr = true := by
          cases hh : s.hasWr with
          | true => rfl
          | false => exact absurd (h5 hh) hne
        simp [hw, hne]
      · intro ha
        simp only at ha ⊢
        split at ha
        · rename_i hc; exact ⟨by simp, hc.1⟩
        · have := (h4 ha).1; rw [hi'] at this; cases this

theorem sendInv_disable (s : S) (hs : SendInv s) : SendInv (disable s).1 := by
  obtain ⟨h1, h2, h3, h4, h5, h6⟩ := hs
  unfold disable
  split
  · exact ⟨h1, h2, h3, h4, h5, h6⟩
  · split
    · exact ⟨h1, h2, h3, h4, h5, h6⟩
    · exact ⟨h1, h2, (fun h => by simp at h), (fun h => by simp at h), h5, (fun h => by simp at h)⟩

theorem sendInv_stable : Stable SendInv :=
  Stable.ofRaw sendInv_send sendInv_enable sendInv_disable
    (fun _ hs => ⟨hs.stream, hs.nodrop, hs.prog, hs.armed, hs.nowr, hs.emp⟩)

theorem SendInv.expire {s : S} (hs : SendInv s) : SendInv { s with expired := true } :=
  ⟨hs.stream, hs.nodrop, hs.prog, hs.armed, hs.nowr, hs.emp⟩

theorem sendInv_rdFrame : RdFrame SendInv where
  fields _ _ _ _ _ _ _ hs := ⟨hs.stream, hs.nodrop, hs.prog, hs.armed, hs.nowr, hs.emp⟩
  ev _ _ _ hs := ⟨hs.stream, hs.nodrop, hs.prog, hs.armed, hs.nowr, hs.emp⟩
  eofMark _ hs := ⟨hs.stream, hs.nodrop, hs.prog, hs.armed, hs.nowr, hs.emp⟩
  closed s v hs := by
    refine socketClosed_of sendInv_stable ?_ (fun s _ _ hs => sendInv_hist s _ hs) s v hs
    intro s hs
    exact (sendInv_disable s hs).expire

theorem sendInv_onWrite (s : S) (hs : SendInv s) : SendInv (onWrite s) := by
  obtain ⟨h1, h2, h3, h4, h5, h6⟩ := hs
  unfold onWrite
  split
  · rename_i he
    have hd : SendInv { s with writeArmed := false } :=
      ⟨h1, h2, fun _ hne => absurd he hne, (fun h => by simp at h), h5, h6⟩
    exact sendInv_stable.fire _ _ _ hd (sendInv_hist _ _ hd)
  · rename_i hne
    split
    · rename_i k q _
      refine ⟨?_, h2, ?_, h4, ?_, h6⟩
      · simp only [List.append_assoc, List.take_append_drop]; exact h1
      · intro hr _; exact h3 hr hne
      · intro hw; simp [h5 hw]
    · have hd : SendInv { s with wq := ‹_› } := ⟨h1, h2, h3, h4, h5, h6⟩
      exact sendInv_stable.fire _ _ _ hd (sendInv_hist _ _ hd)
    · have hd : SendInv { s with wq := ‹_› } := ⟨h1, h2, h3, h4, h5, h6⟩
      exact sendInv_stable.fire _ _ _ hd (sendInv_hist _ _ hd)

theorem sendInv_initFd (s : S) (n : Bool) (ev : Nat) (hs : SendInv s) : SendInv (initFd s n ev).1 := by
  obtain ⟨h1, h2, h3, h4, h5, h6⟩ := hs
  unfold initFd
  split; exact ⟨h1, h2, h3, h4, h5, h6⟩
  split; exact ⟨h1, h2, h3, h4, h5, h6⟩
  split; exact ⟨h1, h2, h3, h4, h5, h6⟩
  rename_i he
  have he' : s.st = .empty := by simpa using he
  refine ⟨h1, h2, (fun h => by simp at h), ?_, ?_, (fun h => by simp at h)⟩
  · intro ha; have := (h4 ha).1; rw [he'] at this; cases this
  · intro _; exact h5 (h6 he')

theorem sendInv_frame : StepFrame SendInv (fun _ => True) where
  stable := sendInv_stable
  onRead s hs _ := onRead_of_frame sendInv_stable sendInv_rdFrame s hs
  onWrite := sendInv_onWrite
  initFd := sendInv_initFd
  connFlag _ hs := ⟨hs.stream, hs.nodrop, hs.prog, hs.armed, hs.nowr, hs.emp⟩
  setRcb _ _ _ _ hs := ⟨hs.stream, hs.nodrop, hs.prog, hs.armed, hs.nowr, hs.emp⟩
  cbs _ _ _ _ _ _ hs := ⟨hs.stream, hs.nodrop, hs.prog, hs.armed, hs.nowr, hs.emp⟩
  world _ _ _ _ _ hs := ⟨hs.stream, hs.nodrop, hs.prog, hs.armed, hs.nowr, hs.emp⟩
  feed _ _ hs := ⟨hs.stream, hs.nodrop, hs.prog, hs.armed, hs.nowr, hs.emp⟩


/-! ### the history produced by the raw calls -/

theorem enable_hist (s : S) : (enable s).1.hist = s.hist := by
  unfold enable; split; rfl; split <;> rfl

theorem disable_hist (s : S) : (disable s).1.hist = s.hist := by
  unfold disable; split; rfl; split <;> rfl

theorem send_hist (s : S) (d : List Byte) : (send s d).1.hist = s.hist := by
  unfold send
  split; rfl
  simp only
  split; rfl
  split
  · rfl
  · rfl
  · split <;> rfl

/-- patches/C06-09: `send` never drops -/
theorem send_drops (s : S) (d : List Byte) : (send s d).1.drops = s.drops := by
  unfold send
  split; rfl
  simp only
  split; rfl
  split
  · rfl
  · rfl
  · split <;> rfl

/-! ### send-complete only with nothing outstanding -/

theorem completeOk_append (h : List Ev) (e : Ev) (hh : completeOk h)
    (he : ∀ n, e = .sendComplete n → n = 0) : completeOk (h ++ [e]) := by
  intro n hn
  rcases List.mem_append.mp hn with hn | hn
  · exact hh n hn
  · exact he n (List.mem_singleton.mp hn).symm

def CompInv (s : S) : Prop := SendInv s ∧ completeOk s.hist

theorem compInv_stable : Stable CompInv := by
  refine Stable.ofRaw ?_ ?_ ?_ ?_
  · intro s d ⟨h1, h2⟩
    exact ⟨sendInv_send s d h1, by rw [send_hist]; exact h2⟩
  · intro s ⟨h1, h2⟩; exact ⟨sendInv_enable s h1, by rw [enable_hist]; exact h2⟩
  · intro s ⟨h1, h2⟩; exact ⟨sendInv_disable s h1, by rw [disable_hist]; exact h2⟩
  · intro s ⟨h1, h2⟩; exact ⟨h1.expire, h2⟩


theorem compInv_rdFrame : RdFrame CompInv where
  fields s a b c d e f hs := ⟨sendInv_rdFrame.fields s a b c d e f hs.1, hs.2⟩
  ev s e he hs := ⟨sendInv_rdFrame.ev s e he hs.1,
    completeOk_append _ _ hs.2 (fun n hn => by subst hn; simp [Ev.isRead] at he)⟩
  eofMark s hs := ⟨sendInv_rdFrame.eofMark s hs.1, hs.2⟩
  closed s v hs := by
    refine socketClosed_of compInv_stable ?_ ?_ s v hs
    · intro s hs
      exact ⟨(sendInv_disable s hs.1).expire, by
        show completeOk (disable s).1.hist; rw [disable_hist]; exact hs.2⟩
    · intro s v u hs
      exact ⟨sendInv_hist s _ hs.1, completeOk_append _ _ hs.2 (fun n hn => by cases hn)⟩

theorem compInv_onWrite (s : S) (hs : CompInv s) : CompInv (onWrite s) := by
  obtain ⟨hi, hc⟩ := hs
  have hsi := sendInv_onWrite s hi
  unfold onWrite at hsi ⊢
  split
  · rename_i he
    have hd : SendInv { s with writeArmed := false } :=
      ⟨hi.stream, hi.nodrop, fun _ hne => absurd he hne, (fun h => by simp at h), hi.nowr, hi.emp⟩
    refine compInv_stable.fire _ _ _ ⟨hd, hc⟩ ⟨sendInv_hist _ _ hd, ?_⟩
    apply completeOk_append _ _ hc
    intro n hn
    have hk : s.wire = s.kept := by simpa [he] using hi.stream
    cases hn
    simp [hk]
  · split
    · rename_i k q heq
      simp only [heq] at hsi
      rw [if_neg ‹_›] at hsi
      exact ⟨hsi, hc⟩
    · have hd : SendInv { s with wq := ‹_› } := ⟨hi.stream, hi.nodrop, hi.prog, hi.armed, hi.nowr, hi.emp⟩
      exact compInv_stable.fire _ _ _ ⟨hd, hc⟩
        ⟨sendInv_hist _ _ hd, completeOk_append _ _ hc (fun n hn => by cases hn)⟩
    · have hd : SendInv { s with wq := ‹_› } := ⟨hi.stream, hi.nodrop, hi.prog, hi.armed, hi.nowr, hi.emp⟩
      exact compInv_stable.fire _ _ _ ⟨hd, hc⟩
        ⟨sendInv_hist _ _ hd, completeOk_append _ _ hc (fun n hn => by cases hn)⟩

theorem initFd_hist (s : S) (n : Bool) (ev : Nat) : (initFd s n ev).1.hist = s.hist := by
  unfold initFd; split; rfl; split; rfl; split <;> rfl

theorem compInv_frame : StepFrame CompInv (fun _ => True) where
  stable := compInv_stable
  onRead s hs _ := onRead_of_frame compInv_stable compInv_rdFrame s hs
  onWrite := compInv_onWrite
  initFd s n ev hs := ⟨sendInv_initFd s n ev hs.1, by rw [initFd_hist]; exact hs.2⟩
  connFlag s hs := ⟨sendInv_frame.connFlag s hs.1, hs.2⟩
  setRcb s t c h hs := ⟨sendInv_frame.setRcb s t c h hs.1, hs.2⟩
  cbs s a b c d e hs := ⟨sendInv_frame.cbs s a b c d e hs.1, hs.2⟩
  world s a b c d hs := ⟨sendInv_frame.world s a b c d hs.1, hs.2⟩
  feed s d hs := ⟨sendInv_frame.feed s d hs.1, hs.2⟩

theorem init_compInv : CompInv init :=
  ⟨⟨rfl, fun _ => rfl, (fun h => by cases h), (fun h => by cases h), fun _ => rfl, fun _ => rfl⟩,
   (fun _ h => by cases h)⟩

/-! ### progress: writable passes drain the queue through any finite fault schedule -/

theorem popAt_length (site : Site) (l : List WEnt) (a : WAns) (q : List WEnt)
    (h : popAt site l = some (a, q)) : q.length + 1 = l.length := by
  induction l generalizing a q with
  | nil => simp [popAt] at h
  | cons e l ih =>
      unfold popAt at h
      split at h
      · simp only [Option.some.injEq, Prod.mk.injEq] at h
        rw [← h.2]; rfl
      · split at h
        · rename_i a' q' heq
          simp only [Option.some.injEq, Prod.mk.injEq] at h
          have := ih a' q' heq
          rw [← h.2]; simp only [List.length_cons]; omega
        · cases h

/-- writable passes on a descriptor with nothing queued and no send-complete callback change neither
the wire nor the queue -/
theorem idle_wr (m : Nat) (s : S) (hq : s.sendQ = []) (hs : s.scb = none) :
    (run s (List.replicate m .wr)).wire = s.wire ∧ (run s (List.replicate m .wr)).sendQ = [] := by
  induction m generalizing s with
  | zero => exact ⟨rfl, hq⟩
  | succ m ih =>
      simp only [List.replicate_succ, run, List.foldl_cons]
      have hstep : (stepOk s .wr).wire = s.wire ∧ (stepOk s .wr).sendQ = [] ∧ (stepOk s .wr).scb = none := by
        simp only [stepOk, Op.okIn, if_true, step]
        split
        · simp [onWrite, hq, hs, fire]
        · exact ⟨rfl, hq, hs⟩
      have := ih (stepOk s .wr) hstep.2.1 hstep.2.2
      simp only [run] at this
      rw [this.1, hstep.1]; exact ⟨rfl, this.2⟩

theorem drains_wr (n : Nat) (s : S) (hn : s.wq.length ≤ n) (hw : s.wecb = none) (hs : s.scb = none)
    (hm : s.wmax = 0) (ha : s.sendQ ≠ [] → s.writeArmed = true) :
    (run s (List.replicate (n + 1) .wr)).wire = s.wire ++ s.sendQ ∧
    (run s (List.replicate (n + 1) .wr)).sendQ = [] := by
  induction n generalizing s with
  | zero =>
      simp only [List.replicate_succ, List.replicate_zero, run, List.foldl_cons, List.foldl_nil]
      have hwq : s.wq = [] := List.eq_nil_of_length_eq_zero (by omega)
      by_cases hq : s.sendQ = []
      · have := idle_wr 1 s hq hs
        simp only [List.replicate_succ, List.replicate_zero, run, List.foldl_cons, List.foldl_nil] at this
        rw [this.1, hq]; exact ⟨by simp, this.2⟩
      · simp [stepOk, Op.okIn, step, ha hq, onWrite, hq, popW, popAt, hwq, hm]
  | succ n ih =>
      rw [List.replicate_succ]
      simp only [run, List.foldl_cons]
      by_cases hq : s.sendQ = []
      · have := idle_wr (n + 2) s hq hs
        rw [List.replicate_succ] at this
        simp only [run, List.foldl_cons] at this
        rw [this.1, hq]; exact ⟨by simp, this.2⟩
      · have harm := ha hq
        cases hp : popAt .cb s.wq with
        | none =>
            have hst : stepOk s .wr = { s with wire := s.wire ++ s.sendQ, sendQ := [] } := by
              simp [stepOk, Op.okIn, step, harm, onWrite, hq, popW, hp, hm]
            rw [hst]
            have := idle_wr (n + 1) { s with wire := s.wire ++ s.sendQ, sendQ := [] } rfl hs
            simp only [run] at this
            exact this
        | some r =>
            obtain ⟨a, q⟩ := r
            have hl := popAt_length _ _ _ _ hp
            cases a with
            | accept k =>
                have hst : stepOk s .wr = { s with wq := q, wire := s.wire ++ s.sendQ.take k, sendQ := s.sendQ.drop k } := by
                  simp [stepOk, Op.okIn, step, harm, onWrite, hq, popW, hp]
                rw [hst]
                have := ih { s with wq := q, wire := s.wire ++ s.sendQ.take k, sendQ := s.sendQ.drop k }
                  (by simp only; omega) hw hs hm (fun _ => harm)
                simp only [run] at this
                rw [this.1]
                exact ⟨by simp [List.append_assoc], this.2⟩
            | eagain =>
                have hst : stepOk s .wr = { s with wq := q } := by
                  simp [stepOk, Op.okIn, step, harm, onWrite, hq, popW, hp, hw, fire]
                rw [hst]
                have := ih { s with wq := q } (by simp only; omega) hw hs hm ha
                simp only [run] at this
                exact this
            | err c =>
                have hst : stepOk s .wr = { s with wq := q } := by
                  simp [stepOk, Op.okIn, step, harm, onWrite, hq, popW, hp, hw, fire]
                rw [hst]
                have := ih { s with wq := q } (by simp only; omega) hw hs hm ha
                simp only [run] at this
                exact this

/-! ### patches/C06-09: nothing is ever dropped -/

def NoDrop (s : S) : Prop := s.drops = 0

theorem enable_drops (s : S) : (enable s).1.drops = s.drops := by
  unfold enable; split; rfl; split <;> rfl

theorem disable_drops (s : S) : (disable s).1.drops = s.drops := by
  unfold disable; split; rfl; split <;> rfl

theorem initFd_drops (s : S) (n : Bool) (ev : Nat) : (initFd s n ev).1.drops = s.drops := by
  unfold initFd; split; rfl; split; rfl; split <;> rfl

theorem noDrop_stable : Stable NoDrop :=
  Stable.ofRaw (fun s d hs => by unfold NoDrop; rw [send_drops]; exact hs)
    (fun s hs => by unfold NoDrop; rw [enable_drops]; exact hs)
    (fun s hs => by unfold NoDrop; rw [disable_drops]; exact hs) (fun _ hs => hs)

theorem noDrop_rdFrame : RdFrame NoDrop where
  fields _ _ _ _ _ _ _ hs := hs
  ev _ _ _ hs := hs
  eofMark _ hs := hs
  closed s v hs := by
    refine socketClosed_of noDrop_stable ?_ (fun _ _ _ hs => hs) s v hs
    intro s hs
    show (disable s).1.drops = 0
    rw [disable_drops]; exact hs

theorem noDrop_wrFrame : WrFrame NoDrop where
  fields _ _ _ _ _ hs := hs
  ev _ _ _ hs := hs

theorem noDrop_frame : StepFrame NoDrop (fun _ => True) where
  stable := noDrop_stable
  onRead s hs _ := onRead_of_frame noDrop_stable noDrop_rdFrame s hs
  onWrite s hs := onWrite_of_frame noDrop_stable noDrop_wrFrame s hs
  initFd s n ev hs := by unfold NoDrop; rw [initFd_drops]; exact hs
  connFlag _ hs := hs
  setRcb _ _ _ _ hs := hs
  cbs _ _ _ _ _ _ hs := hs
  world _ _ _ _ _ hs := hs
  feed _ _ hs := hs

end Tbox.C06
