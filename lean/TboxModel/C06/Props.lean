/-
C06 — PROPERTY THEOREMS (statements rely on Model.lean / Spec.lean only; helper lemmas live in
Frame.lean, ProofsSend.lean, ProofsRecv.lean).

Property: "Bytes handed to a buffered descriptor or TCP connection for sending reach the peer
exactly once, complete and in order, whatever the sizes of the individual sends and however slowly
the peer reads (partial writes, full kernel buffers, sends issued before the descriptor is
enabled); bytes received are presented to the receive callback in order with nothing lost or
duplicated, and bytes the callback leaves unconsumed are presented again together with later
data.  The send-complete notification fires only when everything queued so far has been written,
and a peer close is reported exactly once, after all data that preceded it."

All theorems quantify over every operation list `ops` from the initial state: API calls, callback
scripts (which themselves call send/enable/disable/disconnect), every kernel answer pattern
(`kw`/`kr`: partial accepts, EAGAIN, errors, read chunkings), every order of readable/writable
passes, peer writes and peer close at any point, for the raw BufferedFd and for TcpConnection.
The model is the code with patches/C06-01 applied; `runOld` is the code as found.
-/
import TboxModel.C06.ProofsRecv
namespace Tbox.C06

/-! ## sending -/

/-- **C06_send_stream.** At every point, what the peer has received followed by what is still
queued is exactly the concatenation, in call order, of the payloads of all `send` calls that
returned true (`sentAll`) — nothing lost, duplicated or reordered, for every accept pattern of the
kernel — as long as no `send` hit a write error (`drops = 0`).  In general it is that
concatenation without the payloads dropped on such an error (`kept`; each drop is recorded as a
`sendDrop` in the history: the code logs a warning and returns true). -/
theorem C06_send_stream (ops : List Op) :
    (run init ops).wire ++ (run init ops).sendQ = (run init ops).kept ∧
    ((run init ops).drops = 0 → (run init ops).wire ++ (run init ops).sendQ = (run init ops).sentAll) := by
  have h := (run_pres sendInv_frame ops init (fun _ _ => trivial) init_compInv.1)
  exact ⟨h.stream, fun h0 => by rw [h.stream, h.nodrop h0]⟩

/-- what the ghost `sentAll` is: every `send` that returns true appends its payload, a refused
`send` changes nothing -/
theorem C06_send_ghost (s : S) (d : List Byte) :
    ((send s d).2 = true → (send s d).1.sentAll = s.sentAll ++ d) ∧
    ((send s d).2 = false → (send s d).1 = s) := by
  unfold send
  split
  · simp
  · simp only
    split
    · simp
    · split <;> simp

/-- a payload is dropped only when the kernel answered that very `write` with an error -/
theorem C06_send_drop_only_on_error (s : S) (d : List Byte) :
    (send s d).1.drops ≠ s.drops → ∃ q, s.wq = .err :: q := by
  unfold send
  split
  · simp
  · simp only
    split
    · simp
    · split
      · simp
      · simp
      · rename_i q heq
        intro _
        unfold popW at heq
        simp only at heq
        split at heq
        · rename_i a q' hq
          simp only [Prod.mk.injEq] at heq
          exact ⟨q', by rw [hq, heq.1, heq.2]⟩
        · simp at heq

/-- **C06_send_progress.** Whenever the descriptor is running and bytes are queued, the write
event is armed — so the next writable pass writes. -/
theorem C06_send_progress (ops : List Op) :
    (run init ops).st = .running → (run init ops).sendQ ≠ [] → (run init ops).writeArmed = true :=
  (run_pres sendInv_frame ops init (fun _ _ => trivial) init_compInv.1).prog

/-- … and a writable pass in which the kernel accepts `k` bytes moves exactly the first `k`
queued bytes to the peer. -/
theorem C06_send_drains (s : S) (k : Nat) (q : List WAns)
    (ha : s.writeArmed = true) (hq : s.sendQ ≠ []) (hw : s.wq = .accept k :: q) :
    (step s .wr).1.wire = s.wire ++ s.sendQ.take k ∧ (step s .wr).1.sendQ = s.sendQ.drop k := by
  simp [step, ha, onWrite, hq, popW, hw]

/-- **C06_send_complete_only_when_empty.** Every send-complete notification was made at a moment
when every byte accepted by `send` so far had reached the peer (ghost snapshot
`kept.length - wire.length = 0`). -/
theorem C06_send_complete_only_when_empty (ops : List Op) : completeOk (run init ops).hist :=
  (run_pres compInv_frame ops init (fun _ _ => trivial) init_compInv).2

/-- **C06_send_progress_counterexample_unpatched.** The code as found (`enable()` does not arm the
write event): after `initialize; send; enable` the descriptor is running with a byte queued and
the write event off, and nothing — not even later sends, however many writable passes follow —
ever reaches the peer. -/
theorem C06_send_progress_counterexample_unpatched :
    (runOld init [.init 3, .send [1], .enable]).st = .running ∧
    (runOld init [.init 3, .send [1], .enable]).sendQ ≠ [] ∧
    (runOld init [.init 3, .send [1], .enable]).writeArmed = false ∧
    ∀ n, (runOld init ([.init 3, .send [1], .enable, .send [2]] ++ List.replicate n .wr)).wire = [] := by
  refine ⟨by decide, by decide, by decide, ?_⟩
  intro n
  have hstuck : ∀ (s : S), s.writeArmed = false → ∀ n, runOld s (List.replicate n .wr) = s := by
    intro s hs n
    induction n with
    | zero => rfl
    | succ n ih =>
        simp only [List.replicate_succ, runOld, List.foldl_cons] at ih ⊢
        have : (if Op.okIn s .wr = true then (stepOld s .wr).1 else s) = s := by
          simp [Op.okIn, stepOld, step, hs]
        rw [this]; exact ih
  have hsplit : runOld init ([.init 3, .send [1], .enable, .send [2]] ++ List.replicate n .wr)
      = runOld (runOld init [.init 3, .send [1], .enable, .send [2]]) (List.replicate n .wr) := by
    simp only [runOld, List.foldl_append]
  rw [hsplit, hstuck _ (by decide)]
  decide

/-! ## receiving -/

/-- **C06_recv_stream.** The bytes read from the kernel are the bytes the peer wrote, in order
(`got ++ pending = fed`); the bytes taken out of the receive buffer (consumed by the receive
callback, or discarded with a warning when no callback is set) followed by what the buffer still
holds are exactly the bytes read from the kernel (`taken ++ recvQ = got`); and every presentation
to the receive callback starts with the bytes the previous presentation left unconsumed
(`chainOk`). -/
theorem C06_recv_stream (ops : List Op) :
    (run init ops).got ++ (run init ops).pending = (run init ops).fed ∧
    (run init ops).taken ++ (run init ops).recvQ = (run init ops).got ∧
    chainOk [] (run init ops).hist = true := by
  have h := run_pres streamInv_frame ops init (fun _ _ => trivial) init_streamInv
  exact ⟨h.kern, h.recv, h.chain⟩

/-- each presentation shows the whole receive buffer, and consuming `k` bytes removes exactly the
first `k` of them -/
theorem C06_recv_presentation (s : S) (k : Nat) (as : List Act)
    (hcb : s.rcb = some (k, as)) (ht : s.thr ≤ s.recvQ.length) :
    present s = runActs { s with hist := s.hist ++ [.recv s.recvQ k], recvQ := s.recvQ.drop k,
                                 taken := s.taken ++ s.recvQ.take k, pres := s.got.length } as := by
  simp [present, ht, hcb]

-- OPEN (false, see the counterexample): for every operation list, closeOk (run init ops).hist —
-- "read-zero / disconnected is reported only after every byte the peer wrote before closing has
-- been presented".  With a receive threshold ≥ 2 the bytes below the threshold are still in the
-- receive buffer, never presented, when read-zero is reported.

/-- **C06_close_after_data_partial.** When every receive threshold installed is 0 or 1: each
read-zero notification, and each `disconnected` notification of a TcpConnection caused by EOF,
was made when every byte the peer had written had been read from the kernel and presented
(ghost snapshot `fed.length - pres = 0`). -/
theorem C06_close_after_data_partial (ops : List Op) (h : ∀ op ∈ ops, op.thrSmall = true) :
    closeOk (run init ops).hist :=
  (run_pres closeInv_frame ops init h init_closeInv).close

/-- **C06_close_after_data_counterexample.** Threshold 2: one byte arrives (below the threshold,
not presented), the peer closes; read-zero is reported with that byte never presented. -/
theorem C06_close_after_data_counterexample :
    ¬ closeOk (run init [.init 3, .setRcb 2 (some (0, [])), .setZcb (some []), .enable,
                         .feed [7], .rd, .peof, .rd]).hist := by
  intro h
  have := h.1 1 (by decide)
  cases this

/-- **C06_disconnected_once.** A TcpConnection reports `disconnected` at most once, whatever
happens afterwards. -/
theorem C06_disconnected_once (ops : List Op) : discCount (run init ops).hist ≤ 1 := by
  have h := (run_pres onceInv_frame ops init (fun _ _ => trivial) init_onceInv).once
  split at h <;> omega

/-! ## non-vacuity -/

/-- the hypotheses of `C06_send_progress` are met: a partial write leaves bytes queued while running -/
example :
    let s := run init [.init 3, .enable, .kw [.accept 1], .send [1, 2, 3]]
    s.st = .running ∧ s.sendQ = [2, 3] ∧ s.wire = [1] ∧ s.writeArmed = true := by decide

/-- send before enable, partial accepts, EAGAIN: everything arrives, in order, and completion is
reported once at the end -/
example :
    let s := run init [.init 3, .setScb (some []), .send [1, 2], .enable, .send [3],
                       .kw [.accept 1, .eagain, .accept 5], .wr, .wr, .wr, .wr]
    s.wire = [1, 2, 3] ∧ s.sendQ = [] ∧ s.hist = [.sendComplete 0] ∧ s.drops = 0 := by decide

/-- the hypothesis of `C06_close_after_data_partial` is met by a run that does report read-zero
after re-presenting unconsumed bytes -/
example :
    let ops := [Op.init 3, .setRcb 1 (some (1, [])), .setZcb (some [.disable]), .enable,
                .feed [7, 8], .kr [.chunk 0], .rd, .feed [9], .peof, .rd, .rd]
    (∀ op ∈ ops, op.thrSmall = true) ∧
    (run init ops).hist = [.recv [7, 8] 1, .recv [8, 9] 1, .readZero 0] := by decide

/-- a TcpConnection: EOF disables, expires and notifies once; later sends are refused -/
example :
    let s := run init [.cinit, .setDcb (some [.send [5]]), .setRcb 0 (some (9, [])),
                       .feed [1], .peof, .rd, .rd, .rd, .send [6]]
    s.hist = [.recv [1] 9, .disconnected false 0] ∧ s.expired = true ∧ s.wire = [] := by decide

/-- `send` hits a write error: the payload is dropped (recorded) and later data still flows -/
example :
    let s := run init [.init 3, .enable, .kw [.err], .send [1], .send [2]]
    s.drops = 1 ∧ s.wire = [2] ∧ s.kept = [2] ∧ s.sentAll = [1, 2] := by decide

end Tbox.C06
