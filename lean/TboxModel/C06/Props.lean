/-
C06 — PROPERTY THEOREMS (statements rely on Model.lean / Spec.lean only; helper lemmas live in
Frame.lean, ProofsSend.lean, ProofsRecv.lean).

Property: "Bytes handed to a buffered descriptor or TCP connection for sending reach the peer
exactly once, complete and in order, whatever the sizes of the individual sends and however slowly
the peer reads (partial writes, full kernel buffers, sends issued before the descriptor is
enabled); bytes received are presented to the receive callback in order with nothing lost or
duplicated, and bytes the callback leaves unconsumed are presented again together with later
data.  The send-complete notification fires only when everything queued so far has been written,
and a peer close is reported exactly once, after all data that preceded it."

All theorems quantify over every operation list `ops` from the initial state: API calls, callback
scripts (which themselves call send/enable/disable/disconnect), every kernel answer pattern
(`kw`/`kr`: partial accepts, EAGAIN, errors, read chunkings), every order of readable / writable /
readable+writable passes, peer writes and peer close at any point, for the raw BufferedFd and for
TcpConnection.  The model is the code with patches/C06-01..03 applied; `runOld` is the code as found.
-/
import TboxModel.C06.ProofsClose
namespace Tbox.C06

/-! ## sending -/

/-- **C06_send_stream.** At every point, what the peer has received followed by what is still
queued is exactly the concatenation, in call order, of the payloads of all `send` calls that
returned true (`sentAll`) — nothing lost, duplicated or reordered, for every accept pattern of the
kernel — as long as no `send` hit a write error (`drops = 0`).  In general it is that
concatenation without the payloads dropped on such an error (`kept`; each drop is recorded as a
`sendDrop` in the history: the code logs a warning and returns true). -/
theorem C06_send_stream (ops : List Op) :
    (run init ops).wire ++ (run init ops).sendQ = (run init ops).kept ∧
    ((run init ops).drops = 0 → (run init ops).wire ++ (run init ops).sendQ = (run init ops).sentAll) := by
  have h := (run_pres sendInv_frame ops init (fun _ _ => trivial) init_compInv.1)
  exact ⟨h.stream, fun h0 => by rw [h.stream, h.nodrop h0]⟩

/-- what the ghost `sentAll` is: every `send` that returns true appends its payload, a refused
`send` changes nothing -/
theorem C06_send_ghost (s : S) (d : List Byte) :
    ((send s d).2 = true → (send s d).1.sentAll = s.sentAll ++ d) ∧
    ((send s d).2 = false → (send s d).1 = s) := by
  unfold send
  split
  · simp
  · simp only
    split
    · simp
    · split <;> simp

/-- a payload is dropped only when the kernel answered that very `write` with an error -/
theorem C06_send_drop_only_on_error (s : S) (d : List Byte) :
    (send s d).1.drops ≠ s.drops → ∃ q, s.wq = .err :: q := by
  unfold send
  split
  · simp
  · simp only
    split
    · simp
    · split
      · simp
      · simp
      · rename_i q heq
        intro _
        unfold popW at heq
        simp only at heq
        split at heq
        · rename_i a q' hq
          simp only [Prod.mk.injEq] at heq
          exact ⟨q', by rw [hq, heq.1, heq.2]⟩
        · simp at heq

/-- **C06_send_progress.** Whenever the descriptor is running and bytes are queued, the write
event is armed — so the next writable pass writes. -/
theorem C06_send_progress (ops : List Op) :
    (run init ops).st = .running → (run init ops).sendQ ≠ [] → (run init ops).writeArmed = true :=
  (run_pres sendInv_frame ops init (fun _ _ => trivial) init_compInv.1).prog

/-- … and a writable pass in which the kernel accepts `k` bytes moves exactly the first `k`
queued bytes to the peer. -/
theorem C06_send_drains (s : S) (k : Nat) (q : List WAns)
    (ha : s.writeArmed = true) (hq : s.sendQ ≠ []) (hw : s.wq = .accept k :: q) :
    (step s .wr).1.wire = s.wire ++ s.sendQ.take k ∧ (step s .wr).1.sendQ = s.sendQ.drop k := by
  simp [step, ha, onWrite, hq, popW, hw]

/-- **C06_send_complete_only_when_empty.** Every send-complete notification was made at a moment
when every byte accepted by `send` so far had reached the peer (ghost snapshot
`kept.length - wire.length = 0`). -/
theorem C06_send_complete_only_when_empty (ops : List Op) : completeOk (run init ops).hist :=
  (run_pres compInv_frame ops init (fun _ _ => trivial) init_compInv).2

/-- **C06_send_progress_counterexample_unpatched.** The code as found (`enable()` does not arm the
write event): after `initialize; send; enable` the descriptor is running with a byte queued and
the write event off, and nothing — not even later sends, however many writable passes follow —
ever reaches the peer. -/
theorem C06_send_progress_counterexample_unpatched :
    (runOld init [.init 3, .send [1], .enable]).st = .running ∧
    (runOld init [.init 3, .send [1], .enable]).sendQ ≠ [] ∧
    (runOld init [.init 3, .send [1], .enable]).writeArmed = false ∧
    ∀ n, (runOld init ([.init 3, .send [1], .enable, .send [2]] ++ List.replicate n .wr)).wire = [] := by
  refine ⟨by decide, by decide, by decide, ?_⟩
  intro n
  have hstuck : ∀ (s : S), s.writeArmed = false → ∀ n, runOld s (List.replicate n .wr) = s := by
    intro s hs n
    induction n with
    | zero => rfl
    | succ n ih =>
        simp only [List.replicate_succ, runOld, List.foldl_cons] at ih ⊢
        have : (if Op.okIn s .wr = true then (stepOld s .wr).1 else s) = s := by
          simp [Op.okIn, stepOld, step, hs]
        rw [this]; exact ih
  have hsplit : runOld init ([.init 3, .send [1], .enable, .send [2]] ++ List.replicate n .wr)
      = runOld (runOld init [.init 3, .send [1], .enable, .send [2]]) (List.replicate n .wr) := by
    simp only [runOld, List.foldl_append]
  rw [hsplit, hstuck _ (by decide)]
  decide

/-! ## receiving -/

/-- **C06_recv_stream.** The bytes read from the kernel are the bytes the peer wrote, in order
(`got ++ pending = fed`); the bytes taken out of the receive buffer (consumed by the receive
callback, or discarded with a warning when no callback is set) followed by what the buffer still
holds are exactly the bytes read from the kernel (`taken ++ recvQ = got`); and every presentation
to the receive callback starts with the bytes the previous presentation left unconsumed
(`chainOk`). -/
theorem C06_recv_stream (ops : List Op) :
    (run init ops).got ++ (run init ops).pending = (run init ops).fed ∧
    (run init ops).taken ++ (run init ops).recvQ = (run init ops).got ∧
    chainOk [] (run init ops).hist = true := by
  have h := run_pres streamInv_frame ops init (fun _ _ => trivial) init_streamInv
  exact ⟨h.kern, h.recv, h.chain⟩

/-- each presentation shows the whole receive buffer, and consuming `k` bytes removes exactly the
first `k` of them -/
theorem C06_recv_presentation (s : S) (k : Nat) (as : List Act)
    (hcb : s.rcb = some (k, as)) (ht : s.thr ≤ s.recvQ.length) :
    present s = runActs { s with hist := s.hist ++ [.recv s.recvQ k], recvQ := s.recvQ.drop k,
                                 taken := s.taken ++ s.recvQ.take k, pres := s.got.length } as := by
  simp [present, presentAny, ht, hcb]

/-- **C06_close_after_data.** Every read-zero notification, and every `disconnected` notification of
a TcpConnection caused by EOF, was made when every byte the peer had written had been read from
the kernel and presented to the receive callback (ghost snapshot `fed.length - pres = 0`; when no
receive callback is set "presented" is the documented discard) — for every threshold, chunking and
consumption pattern (patches/C06-02: what is still buffered below the threshold is delivered
before the close is reported). -/
theorem C06_close_after_data (ops : List Op) : closeOk (run init ops).hist :=
  (run_pres closeInv_frame ops init (fun _ _ => trivial) init_closeInv).close

/-- **C06_close_after_data_counterexample.** The code as found, threshold 2: one byte arrives (below
the threshold, not presented), the peer closes; read-zero is reported with that byte never presented. -/
theorem C06_close_after_data_counterexample :
    ¬ closeOk (runOld init [.init 3, .setRcb 2 (some (0, [])), .setZcb (some []), .enable,
                            .feed [7], .rd, .peof, .rd]).hist := by
  intro h
  have := h.1 1 (by decide)
  cases this

/-- **C06_close_once.** The peer's close is reported at most once, whatever happens afterwards
(further readable passes, disable/enable, more operations): at most one read-zero notification of a
BufferedFd (patches/C06-03) and at most one `disconnected` notification of a TcpConnection. -/
theorem C06_close_once (ops : List Op) :
    zeroCount (run init ops).hist ≤ 1 ∧ discCount (run init ops).hist ≤ 1 := by
  have h := run_pres onceInv_frame ops init (fun _ _ => trivial) init_onceInv
  have h1 := h.zonce
  have h2 := h.once
  constructor
  · split at h1 <;> omega
  · split at h2 <;> omega

/-- … and it is reported: a readable pass at EOF with nothing left to read or to present calls the
read-zero callback (and, by `C06_close_once`, never again). -/
theorem C06_close_reported (s : S) (as : List Act) (hr : s.readOn = true) (hp : s.pending = [])
    (he : s.eof = true) (hq : s.rq = []) (hb : s.recvQ = []) (hc : s.conn = false) (hz : s.zcb = some as) :
    (step s .rd).1 = runActs { s with rq := [], readOn := false, eofSeen := true,
                                      hist := s.hist ++ [.readZero (s.fed.length - s.pres)] } as := by
  simp [step, hr, hp, he, hq, hb, hc, hz, onRead, firstRead, emptyRes, flushThen, closeTail, fire, unpresented]

/-- **C06_close_once_counterexample.** The code as found: read-zero is reported again in every
readable pass until the user disables the descriptor. -/
theorem C06_close_once_counterexample :
    zeroCount (runOld init [.init 3, .setZcb (some []), .enable, .peof, .rd, .rd, .rd]).hist = 3 := by
  decide

/-! ## non-vacuity -/

/-- the hypotheses of `C06_send_progress` are met: a partial write leaves bytes queued while running -/
example :
    let s := run init [.init 3, .enable, .kw [.accept 1], .send [1, 2, 3]]
    s.st = .running ∧ s.sendQ = [2, 3] ∧ s.wire = [1] ∧ s.writeArmed = true := by decide

/-- send before enable, partial accepts, EAGAIN: everything arrives, in order, and completion is
reported once at the end -/
example :
    let s := run init [.init 3, .setScb (some []), .send [1, 2], .enable, .send [3],
                       .kw [.accept 1, .eagain, .accept 5], .wr, .wr, .wr, .wr]
    s.wire = [1, 2, 3] ∧ s.sendQ = [] ∧ s.hist = [.sendComplete 0] ∧ s.drops = 0 := by decide

/-- unconsumed bytes are re-presented; at EOF what is buffered below the threshold is presented,
then read-zero is reported — once, however many readable passes follow -/
example :
    let ops := [Op.init 3, .setRcb 3 (some (1, [])), .setZcb (some []), .enable,
                .feed [7, 8, 9], .kr [.chunk 0], .rd, .feed [5], .peof, .rd, .rd, .disable, .enable, .rd]
    (run init ops).hist = [.recv [7, 8, 9] 1, .recv [8, 9, 5] 1, .recv [9, 5] 1, .readZero 0] := by decide

/-- one dispatch reporting readable and writable: the read callback's `send` arms the write event,
which is not served in that dispatch (it was not subscribed when the dispatch started) -/
example :
    let s := run init [.init 3, .setRcb 0 (some (9, [.send [1]])), .enable, .kw [.eagain], .feed [5], .rw]
    s.hist = [.recv [5] 9] ∧ s.sendQ = [1] ∧ s.wire = [] ∧ s.writeArmed = true := by decide

/-- a TcpConnection: EOF disables, expires and notifies once; later sends are refused -/
example :
    let s := run init [.cinit, .setDcb (some [.send [5]]), .setRcb 0 (some (9, [])),
                       .feed [1], .peof, .rd, .rd, .rd, .send [6]]
    s.hist = [.recv [1] 9, .disconnected false 0] ∧ s.expired = true ∧ s.wire = [] := by decide

/-- `send` hits a write error: the payload is dropped (recorded) and later data still flows -/
example :
    let s := run init [.init 3, .enable, .kw [.err], .send [1], .send [2]]
    s.drops = 1 ∧ s.wire = [2] ∧ s.kept = [2] ∧ s.sentAll = [1, 2] := by decide

end Tbox.C06
