/-
C06 — PROPERTY THEOREMS (statements rely on Model.lean / Spec.lean only; helper lemmas live in
Frame.lean, ProofsSend.lean, ProofsRecv.lean).

Property: "Bytes handed to a buffered descriptor or TCP connection for sending reach the peer
exactly once, complete and in order, whatever the sizes of the individual sends and however slowly
the peer reads (partial writes, full kernel buffers, sends issued before the descriptor is
enabled); bytes received are presented to the receive callback in order with nothing lost or
duplicated, and bytes the callback leaves unconsumed are presented again together with later
data.  The send-complete notification fires only when everything queued so far has been written,
and a peer close is reported exactly once, after all data that preceded it."

All theorems quantify over every operation list `ops` from the initial state: API calls, callback
scripts (which themselves call send/enable/disable/disconnect), every kernel answer pattern
(`kw`/`kr`: partial accepts, EAGAIN, errors, read chunkings), every order of readable / writable /
readable+writable passes, peer writes and peer close at any point, for the raw BufferedFd and for
TcpConnection.  The model is the code with patches/C06-01..03 applied; `runOld` is the code as found.
-/
import TboxModel.C06.ProofsClose
namespace Tbox.C06

/-! ## sending -/

/-- **C06_send_stream.** At every point, what the peer has received followed by what is still
queued is exactly the concatenation, in call order, of the payloads of all `send` calls that
returned true (`sentAll`) — nothing lost, duplicated or reordered — for every answer pattern of the
kernel at both `write` sites: partial accepts, EAGAIN, EINTR, ENOBUFS, ENOMEM, EPIPE, … at any call
index (patches/C06-09: a transient errno keeps the payload queued, after a lasting one `send`
returns false, so the payload is not in `sentAll`).  `drops` / `kept` are the ghosts of the code as
found (`sendOld`): nothing is ever dropped now. -/
theorem C06_send_stream (ops : List Op) :
    (run init ops).wire ++ (run init ops).sendQ = (run init ops).sentAll ∧
    (run init ops).drops = 0 ∧ (run init ops).kept = (run init ops).sentAll := by
  have h := (run_pres sendInv_frame ops init (fun _ _ => trivial) init_compInv.1)
  have h0 : (run init ops).drops = 0 := run_pres noDrop_frame ops init (fun _ _ => trivial) rfl
  exact ⟨by rw [h.stream, h.nodrop h0], h0, h.nodrop h0⟩

/-- what the ghost `sentAll` is: every `send` that returns true appends its payload; a refused
`send` changes nothing but the oracle queue (the `write` it made consumed an answer) -/
theorem C06_send_ghost (s : S) (d : List Byte) :
    ((send s d).2 = true → (send s d).1.sentAll = s.sentAll ++ d) ∧
    ((send s d).2 = false → (send s d).1 = { s with wq := (send s d).1.wq }) := by
  unfold send
  split
  · simp
  · simp only
    split
    · simp
    · split
      · simp
      · simp
      · split <;> simp

/-- `send` refuses a payload only without a write event or when the kernel answered that very
`write` (the one of the `send` site) with a lasting error -/
theorem C06_send_refused_only_on_lasting_error (s : S) (d : List Byte) :
    (send s d).2 = false →
      s.hasWr = false ∨ ∃ c q, popW s .send d.length = (.err c, q) ∧ transientErr c = false := by
  unfold send
  split
  · intro _; exact .inl (by assumption)
  · simp only
    split
    · simp
    · split
      · simp
      · simp
      · rename_i c q heq
        split
        · simp
        · rename_i hc
          intro _
          exact .inr ⟨c, q, heq, by simpa using hc⟩

/-- a transient errno at the `send` site (EINTR, ENOMEM, ENOBUFS; EAGAIN is its own answer): the
whole payload is queued, the write event armed, `send` returns true -/
theorem C06_send_transient_error_queues (s : S) (d : List Byte) (c : Nat) (q : List WEnt)
    (hw : s.hasWr = true) (hr : s.st = .running) (he : s.sendQ = [])
    (ha : popW s .send d.length = (.err c, q)) (ht : transientErr c = true) :
    (send s d).2 = true ∧ (send s d).1.sendQ = d ∧ (send s d).1.writeArmed = true ∧
    (send s d).1.wire = s.wire := by
  simp [send, hw, hr, he, ha, ht]

/-- the code as found: a payload is dropped only when the kernel answered that very `write` with an
error … -/
theorem C06_send_drop_only_on_error (s : S) (d : List Byte) :
    (sendOld s d).1.drops ≠ s.drops → ∃ c q, popW s .send d.length = (.err c, q) := by
  unfold sendOld
  split
  · simp
  · simp only
    split
    · simp
    · split
      · simp
      · simp
      · rename_i c q heq
        intro _
        exact ⟨c, q, heq⟩

/-- **C06_send_drop_counterexample_unpatched** … and it did so for EINTR (nothing wrong with the
connection, which stays up): `send` returns true, the byte is neither on the wire nor queued, and
later data flows as if it had never been handed over. -/
theorem C06_send_drop_counterexample_unpatched :
    let s := run init [.init 3, .enable, .kw [⟨some .send, .err 4⟩]]
    (sendOld s [1]).2 = true ∧ (sendOld s [1]).1.sentAll = [1] ∧ (sendOld s [1]).1.st = .running ∧
    (sendOld s [1]).1.wire ++ (sendOld s [1]).1.sendQ = [] ∧
    (run (sendOld s [1]).1 [.send [2], .wr, .wr]).wire = [2] := by
  decide

/-- **C06_send_progress.** Whenever the descriptor is running and bytes are queued, the write
event is armed — so the next writable pass writes. -/
theorem C06_send_progress (ops : List Op) :
    (run init ops).st = .running → (run init ops).sendQ ≠ [] → (run init ops).writeArmed = true :=
  (run_pres sendInv_frame ops init (fun _ _ => trivial) init_compInv.1).prog

/-- the same, spelled out for fault schedules: after ANY history, ANY list of kernel answers —
accepts of any size, EAGAIN, EINTR or any other errno, each addressed to the `write` in `send()`,
to the `write` in the write-ready callback, or to whichever comes first — and ANY continuation,
a running descriptor with queued bytes has its write event armed -/
theorem C06_send_progress_any_answers (ops : List Op) (answers : List WEnt) (ops' : List Op) :
    let s := run init (ops ++ [.kw answers] ++ ops')
    s.st = .running → s.sendQ ≠ [] → s.writeArmed = true :=
  C06_send_progress _

/-- an error answer to the `write` of the write-ready callback — whatever the errno — leaves the
queue, the wire and the write event as they are: only the write-error callback (if set) runs -/
theorem C06_write_error_keeps_queue (s : S) (c : Nat) (q : List WEnt) (hq : s.sendQ ≠ [])
    (ha : popW s .cb s.sendQ.length = (.err c, q)) :
    onWrite s = fire { s with wq := q } s.wecb (.writeError c) := by
  simp [onWrite, hq, ha]

/-- **C06_write_error_reported.** A failing `write` of the write-ready callback is reported to the
write-error callback exactly once, with the errno the kernel gave — for EVERY errno (EINTR, EPIPE,
ECONNRESET, ETIMEDOUT, EHOSTUNREACH, …: the code makes no distinction at this site) — and with a
callback that does nothing, or with none set (the failure is only logged), nothing else moves: state,
queue, wire, write event, ghosts. -/
theorem C06_write_error_reported (s : S) (c : Nat) (q : List WEnt) (hq : s.sendQ ≠ [])
    (ha : popW s .cb s.sendQ.length = (.err c, q)) :
    (s.wecb = some [] → onWrite s = { s with wq := q, hist := s.hist ++ [.writeError c] }) ∧
    (s.wecb = none → onWrite s = { s with wq := q }) := by
  constructor <;> intro h <;> simp [onWrite, hq, ha, fire, h, runActs]

/-- the answers the next `k` writes of the write-ready callback get, one errno each -/
def cbErrs (cs : List Nat) : List WEnt := cs.map fun c => ⟨some .cb, .err c⟩

/-- **C06_write_error_each_pass.** A run of failing writable passes — any errnos `cs`, in any order,
any number of them — is reported pass by pass, in order, each errno once; the queue and the wire are
the same afterwards, the write event is still armed and the answers addressed to the `write` of
`send()` (`rest` may hold them) are untouched: the next writable pass the kernel lets through sends
the queue (`C06_send_drains`). -/
theorem C06_write_error_each_pass (cs : List Nat) (s : S) (rest : List WEnt)
    (hq : s.sendQ ≠ []) (ha : s.writeArmed = true) (hc : s.wecb = some [])
    (hw : s.wq = cbErrs cs ++ rest) :
    let s' := (cs.map fun _ => Op.wr).foldl (fun s o => (step s o).1) s
    s' = { s with wq := rest, hist := s.hist ++ cs.map .writeError } := by
  induction cs generalizing s with
  | nil => simp [cbErrs] at hw ⊢; cases s; simp_all
  | cons c cs ih =>
      have hp : popW s .cb s.sendQ.length = (.err c, cbErrs cs ++ rest) := by
        simp [popW, hw, cbErrs, popAt]
      have h1 := (C06_write_error_reported s c _ hq hp).1 hc
      simp only [List.map_cons, List.foldl_cons]
      have hs : (step s .wr).1 = { s with wq := cbErrs cs ++ rest, hist := s.hist ++ [.writeError c] } := by
        simp [step, ha, h1]
      rw [hs, ih _ (by simpa using hq) (by simpa using ha) (by simpa using hc) rfl]
      simp

/-- non-vacuity: three bytes queued behind a one-byte accept; EPIPE, ECONNRESET, ETIMEDOUT and EINTR
at the callback site are reported in that order, two bytes stay queued and armed; the pass after
them writes the rest and the one after that reports send-complete -/
example :
    let s := run init [.init 3, .setScb (some []), .setWecb (some []), .enable,
                       .kw (⟨some .send, .accept 1⟩ :: cbErrs [32, 104, 110, 4]), .send [1, 2, 3]]
    let t := run s [.wr, .wr, .wr, .wr]
    let u := run t [.wr, .wr]
    s.sendQ = [2, 3] ∧ s.writeArmed = true ∧ s.wq = cbErrs [32, 104, 110, 4] ++ [] ∧
    t.hist = [.writeError 32, .writeError 104, .writeError 110, .writeError 4] ∧ t.sendQ = [2, 3] ∧ t.wire = [1] ∧
    t.writeArmed = true ∧ u.wire = [1, 2, 3] ∧ u.hist = t.hist ++ [.sendComplete 0] := by
  decide

/-- **C06_send_progress_counterexample_disarm** (the seeded variant C06-5, not the code: the error
branch of `onWriteCallback` switches the write event off).  One EINTR at the callback site and the
descriptor is running with two bytes queued and nobody to write them. -/
theorem C06_send_progress_counterexample_disarm :
    let s := run init [.init 3, .enable, .kw [⟨some .send, .accept 1⟩, ⟨some .cb, .err 4⟩], .send [1, 2, 3]]
    s.writeArmed = true ∧ (onWriteDisarm s).st = .running ∧ (onWriteDisarm s).sendQ = [2, 3] ∧
    (onWriteDisarm s).writeArmed = false ∧
    (onWrite s).writeArmed = true ∧ (onWrite s).sendQ = [2, 3] := by
  decide

/-- the two `write` sites are scheduled separately: an answer addressed to the callback site is
passed by the direct write of `send()`, and the other way round -/
theorem C06_write_sites_separate :
    let s := run init [.init 3, .enable, .kw [⟨some .cb, .err 4⟩, ⟨some .send, .eagain⟩]]
    popW s .send 3 = (.eagain, [⟨some .cb, .err 4⟩]) ∧ popW s .cb 3 = (.err 4, [⟨some .send, .eagain⟩]) := by
  decide

/-- … and a writable pass in which the kernel accepts `k` bytes moves exactly the first `k`
queued bytes to the peer. -/
theorem C06_send_drains (s : S) (k : Nat) (q : List WEnt)
    (ha : s.writeArmed = true) (hq : s.sendQ ≠ []) (hw : popW s .cb s.sendQ.length = (.accept k, q)) :
    (step s .wr).1.wire = s.wire ++ s.sendQ.take k ∧ (step s .wr).1.sendQ = s.sendQ.drop k := by
  simp [step, ha, onWrite, hq, hw]

/-- **C06_send_eventually_drains** (the progress `C06_send_progress` is for).  From any state in
which queued bytes have the write event armed, with no user script in the way (no write-error and no
send-complete callback: a script may legitimately disable the descriptor) and a kernel that by
itself accepts what it is offered: however many fault answers are queued — short counts, EAGAIN,
EINTR, ENOBUFS, EPIPE …, for either `write` site — after at most one writable pass per queued answer
plus one, every queued byte is on the wire, in order, and the queue is empty. -/
theorem C06_send_eventually_drains (s : S) (hw : s.wecb = none) (hs : s.scb = none) (hm : s.wmax = 0)
    (ha : s.sendQ ≠ [] → s.writeArmed = true) :
    (run s (List.replicate (s.wq.length + 1) .wr)).wire = s.wire ++ s.sendQ ∧
    (run s (List.replicate (s.wq.length + 1) .wr)).sendQ = [] :=
  drains_wr _ s (Nat.le_refl _) hw hs hm ha

/-- **C06_send_complete_only_when_empty.** Every send-complete notification was made at a moment
when every byte accepted by `send` so far had reached the peer (ghost snapshot
`kept.length - wire.length = 0`). -/
theorem C06_send_complete_only_when_empty (ops : List Op) : completeOk (run init ops).hist :=
  (run_pres compInv_frame ops init (fun _ _ => trivial) init_compInv).2

/-- **C06_send_progress_counterexample_unpatched.** The code as found (`enable()` does not arm the
write event): after `initialize; send; enable` the descriptor is running with a byte queued and
the write event off, and nothing — not even later sends, however many writable passes follow —
ever reaches the peer. -/
theorem C06_send_progress_counterexample_unpatched :
    (runOld init [.init 3, .send [1], .enable]).st = .running ∧
    (runOld init [.init 3, .send [1], .enable]).sendQ ≠ [] ∧
    (runOld init [.init 3, .send [1], .enable]).writeArmed = false ∧
    ∀ n, (runOld init ([.init 3, .send [1], .enable, .send [2]] ++ List.replicate n .wr)).wire = [] := by
  refine ⟨by decide, by decide, by decide, ?_⟩
  intro n
  have hstuck : ∀ (s : S), s.writeArmed = false → ∀ n, runOld s (List.replicate n .wr) = s := by
    intro s hs n
    induction n with
    | zero => rfl
    | succ n ih =>
        simp only [List.replicate_succ, runOld, List.foldl_cons] at ih ⊢
        have : (if Op.okIn s .wr = true then (stepOld s .wr).1 else s) = s := by
          simp [Op.okIn, stepOld, step, hs]
        rw [this]; exact ih
  have hsplit : runOld init ([.init 3, .send [1], .enable, .send [2]] ++ List.replicate n .wr)
      = runOld (runOld init [.init 3, .send [1], .enable, .send [2]]) (List.replicate n .wr) := by
    simp only [runOld, List.foldl_append]
  rw [hsplit, hstuck _ (by decide)]
  decide

/-! ## receiving -/

/-- **C06_recv_stream.** The bytes read from the kernel are the bytes the peer wrote, in order
(`got ++ pending = fed`); the bytes taken out of the receive buffer (consumed by the receive
callback, or discarded with a warning when no callback is set) followed by what the buffer still
holds are exactly the bytes read from the kernel (`taken ++ recvQ = got`); and every presentation
to the receive callback starts with the bytes the previous presentation left unconsumed
(`chainOk`). -/
theorem C06_recv_stream (ops : List Op) :
    (run init ops).got ++ (run init ops).pending = (run init ops).fed ∧
    (run init ops).taken ++ (run init ops).recvQ = (run init ops).got ∧
    chainOk [] (run init ops).hist = true := by
  have h := run_pres streamInv_frame ops init (fun _ _ => trivial) init_streamInv
  exact ⟨h.kern, h.recv, h.chain⟩

/-- each presentation shows the whole receive buffer, and consuming `k` bytes removes exactly the
first `k` of them -/
theorem C06_recv_presentation (s : S) (k : Nat) (as : List Act)
    (hcb : s.rcb = some (k, as)) (ht : s.thr ≤ s.recvQ.length) :
    present s = runActs { s with hist := s.hist ++ [.recv s.recvQ k], recvQ := s.recvQ.drop k,
                                 taken := s.taken ++ s.recvQ.take k, pres := s.got.length } as := by
  simp [present, presentAny, ht, hcb]

/-- **C06_close_after_data.** Every read-zero notification, and every `disconnected` notification of
a TcpConnection caused by EOF, was made when every byte the peer had written had been read from
the kernel and presented to the receive callback (ghost snapshot `fed.length - pres = 0`; when no
receive callback is set "presented" is the documented discard) — for every threshold, chunking and
consumption pattern (patches/C06-02: what is still buffered below the threshold is delivered
before the close is reported). -/
theorem C06_close_after_data (ops : List Op) : closeOk (run init ops).hist :=
  (run_pres closeInv_frame ops init (fun _ _ => trivial) init_closeInv).close

/-- **C06_close_after_data_counterexample.** The code as found, threshold 2: one byte arrives (below
the threshold, not presented), the peer closes; read-zero is reported with that byte never presented. -/
theorem C06_close_after_data_counterexample :
    ¬ closeOk (runOld init [.init 3, .setRcb 2 (some (0, [])), .setZcb (some []), .enable,
                            .feed [7], .rd, .peof, .rd]).hist := by
  intro h
  have := h.1 1 (by decide)
  cases this

/-- **C06_close_once.** The peer's close is reported at most once, whatever happens afterwards
(further readable passes, disable/enable, more operations): at most one read-zero notification of a
BufferedFd (patches/C06-03) and at most one `disconnected` notification of a TcpConnection. -/
theorem C06_close_once (ops : List Op) :
    zeroCount (run init ops).hist ≤ 1 ∧ discCount (run init ops).hist ≤ 1 := by
  have h := run_pres onceInv_frame ops init (fun _ _ => trivial) init_onceInv
  have h1 := h.zonce
  have h2 := h.once
  constructor
  · split at h1 <;> omega
  · split at h2 <;> omega

/-- … and it is reported: a readable pass at EOF with nothing left to read or to present calls the
read-zero callback (and, by `C06_close_once`, never again). -/
theorem C06_close_reported (s : S) (as : List Act) (hr : s.readOn = true) (hp : s.pending = [])
    (he : s.eof = true) (hq : s.rq = []) (hb : s.recvQ = []) (hc : s.conn = false) (hz : s.zcb = some as) :
    (step s .rd).1 = runActs { s with rq := [], readOn := false, eofSeen := true,
                                      hist := s.hist ++ [.readZero (s.fed.length - s.pres)] } as := by
  simp [step, hr, hp, he, hq, hb, hc, hz, onRead, firstRead, emptyRes, flushThen, closeTail, fire, unpresented]

/-- **C06_close_once_counterexample.** The code as found: read-zero is reported again in every
readable pass until the user disables the descriptor. -/
theorem C06_close_once_counterexample :
    zeroCount (runOld init [.init 3, .setZcb (some []), .enable, .peof, .rd, .rd, .rd]).hist = 3 := by
  decide

/-! ## `readv`: EINTR, and the 1 KiB spill buffer -/

/-- **C06_read_eintr_harmless** (patches/C06-10).  A readable pass whose first `readv` is
interrupted changes nothing but the oracle queue: no callback, no byte moved, the read event stays
on — the next pass reads. -/
theorem C06_read_eintr_harmless (s : S) (q : List RAns) (hr : s.readOn = true)
    (hp : s.pending ≠ [] ∨ s.eof = true) (hq : s.rq = .eintr :: q) :
    (step s .rd).1 = { s with rq := q } := by
  simp [step, hr, hp, hq, onRead, firstRead]

/-- **C06_read_eintr_counterexample_unpatched.** The code as found reports EINTR through the
read-error callback; a TcpConnection takes that for the end of the stream: a live connection (the
peer has not closed) is disconnected with a byte of the peer never read, and refuses to send. -/
theorem C06_read_eintr_counterexample_unpatched :
    let s := runOld init [.cinit, .setDcb (some []), .setRcb 0 (some (9, [])), .feed [7], .kr [.eintr], .rd]
    s.hist = [.disconnected true 1] ∧ s.eof = false ∧ s.pending = [7] ∧ s.expired = true ∧
    (run init [.cinit, .setDcb (some []), .setRcb 0 (some (9, [])), .feed [7], .kr [.eintr], .rd, .rd]).hist
      = [.recv [7] 9] := by
  decide

/-- **C06_spill_keeps_order.** However the bytes of one `readv` are split between the writable
space of the receive buffer (`w` bytes, any `w`) and the spill buffer, the code's accounting
(`hasWritten(w)` + `append(extbuf, rsize - w)`, or `hasWritten(rsize)`) leaves the receive queue
with exactly those bytes appended in order — the FIFO view `recvQ ++ d` used by the model. -/
theorem C06_spill_keeps_order (q : List Byte) (w : Nat) (d : List Byte) : afterReadv q w d = q ++ d := by
  unfold afterReadv landReadv
  split
  · have h1 : List.take (d.length - w) (List.drop w d) = List.drop w d :=
      List.take_of_length_le (by rw [List.length_drop]; exact Nat.le_refl _)
    simp only [h1, List.append_assoc, List.take_append_drop]
  · rename_i h
    have h2 : min d.length w = d.length := Nat.min_eq_left (by omega)
    simp only [List.take_take, h2, List.take_length]

/-- … and the kernel, which returns at most `w + 1024` bytes, never puts more than 1024 of them in
`extbuf`; exactly `rsize - w` when the writable space is full (0 when the read fits exactly) -/
theorem C06_spill_bound (w : Nat) (d : List Byte) (h : d.length ≤ w + extbufSize) :
    (landReadv w d).2.length = d.length - w ∧ (landReadv w d).2.length ≤ extbufSize ∧
    (landReadv w d).1.length = min w d.length := by
  have h' : d.length ≤ w + 1024 := h
  refine ⟨by simp [landReadv], ?_, by simp [landReadv]⟩
  show (List.drop w d).length ≤ 1024
  rw [List.length_drop]; omega

/-! ## non-vacuity -/

/-- the hypotheses of `C06_send_progress` are met: a partial write leaves bytes queued while running -/
example :
    let s := run init [.init 3, .enable, .kw [⟨none, .accept 1⟩], .send [1, 2, 3]]
    s.st = .running ∧ s.sendQ = [2, 3] ∧ s.wire = [1] ∧ s.writeArmed = true := by decide

/-- send before enable, partial accepts, EAGAIN: everything arrives, in order, and completion is
reported once at the end -/
example :
    let s := run init [.init 3, .setScb (some []), .send [1, 2], .enable, .send [3],
                       .kw [⟨none, .accept 1⟩, ⟨some .cb, .err 4⟩, ⟨none, .eagain⟩, ⟨none, .accept 5⟩], .wr, .wr, .wr, .wr, .wr]
    s.wire = [1, 2, 3] ∧ s.sendQ = [] ∧ s.hist = [.sendComplete 0] ∧ s.drops = 0 := by decide

/-- unconsumed bytes are re-presented; at EOF what is buffered below the threshold is presented,
then read-zero is reported — once, however many readable passes follow -/
example :
    let ops := [Op.init 3, .setRcb 3 (some (1, [])), .setZcb (some []), .enable,
                .feed [7, 8, 9], .kr [.chunk 0], .rd, .feed [5], .peof, .rd, .rd, .disable, .enable, .rd]
    (run init ops).hist = [.recv [7, 8, 9] 1, .recv [8, 9, 5] 1, .recv [9, 5] 1, .readZero 0] := by decide

/-- one dispatch reporting readable and writable: the read callback's `send` arms the write event,
which is not served in that dispatch (it was not subscribed when the dispatch started) -/
example :
    let s := run init [.init 3, .setRcb 0 (some (9, [.send [1]])), .enable, .kw [⟨none, .eagain⟩], .feed [5], .rw]
    s.hist = [.recv [5] 9] ∧ s.sendQ = [1] ∧ s.wire = [] ∧ s.writeArmed = true := by decide

/-- a TcpConnection: EOF disables, expires and notifies once; later sends are refused -/
example :
    let s := run init [.cinit, .setDcb (some [.send [5]]), .setRcb 0 (some (9, [])),
                       .feed [1], .peof, .rd, .rd, .rd, .send [6]]
    s.hist = [.recv [1] 9, .disconnected false 0] ∧ s.expired = true ∧ s.wire = [] := by decide

/-- `send` hits write errors: ENOBUFS keeps the payload queued and it arrives before later data; after
EPIPE `send` returns false and the payload is not counted as handed over -/
example :
    let s := run init [.init 3, .enable, .kw [⟨some .send, .err 105⟩], .send [1], .send [2], .wr]
    s.drops = 0 ∧ s.wire = [1, 2] ∧ s.sentAll = [1, 2] ∧ s.sendQ = [] := by decide

example :
    let s := run init [.init 3, .enable, .kw [⟨none, .err 32⟩]]
    (send s [1]).2 = false ∧ (send s [1]).1.sentAll = [] ∧ (send s [1]).1.wq = [] ∧
    popW s .send 1 = (.err 32, []) ∧ transientErr 32 = false := by decide

/-- the hypotheses of `C06_send_transient_error_queues` / `C06_write_error_keeps_queue` are met -/
example :
    let s := run init [.init 3, .enable, .kw [⟨some .send, .err 4⟩]]
    s.hasWr = true ∧ s.st = .running ∧ s.sendQ = [] ∧ popW s .send 2 = (.err 4, []) ∧ transientErr 4 = true := by decide

example :
    let s := run init [.init 3, .enable, .kw [⟨none, .eagain⟩, ⟨some .cb, .err 12⟩], .send [1, 2]]
    s.sendQ ≠ [] ∧ popW s .cb s.sendQ.length = (.err 12, []) := by decide

/-- the hypotheses of `C06_send_eventually_drains` are met by a state with a fault schedule in front of it -/
example :
    let s := run init [.init 3, .enable, .kw [⟨some .send, .err 4⟩, ⟨some .cb, .accept 1⟩, ⟨some .cb, .err 105⟩, ⟨none, .eagain⟩], .send [1, 2, 3]]
    s.wecb = none ∧ s.scb = none ∧ s.wmax = 0 ∧ s.sendQ = [1, 2, 3] ∧ s.writeArmed = true ∧ s.wq.length = 3 ∧
    (run s (List.replicate 4 .wr)).wire = [1, 2, 3] := by decide

/-- a read that fills the writable space exactly (spill used with 0 bytes), by one byte more, by 1024 more -/
example : landReadv 4 [1, 2, 3, 4] = ([1, 2, 3, 4], []) ∧ landReadv 4 [1, 2, 3, 4, 5] = ([1, 2, 3, 4], [5]) ∧
    afterReadv [9] 4 [1, 2, 3, 4, 5] = [9, 1, 2, 3, 4, 5] ∧ afterReadv [9] 0 [1] = [9, 1] := by decide

/-- EINTR in the middle of the read loop, ECONNRESET after data: what was read is presented, the
rest stays pending for the next pass -/
example :
    let s := run init [.init 3, .setRcb 0 (some (9, [])), .setRecb (some []), .enable, .feed [1, 2, 3],
                       .kr [.chunk 0, .eintr, .chunk 0, .err, .err], .rd, .rd, .rd]
    s.hist = [.recv [1] 9, .recv [2] 9, .readError 104] ∧ s.pending = [3] := by decide

end Tbox.C06
