/-
C06 — the vocabulary of the property: predicates over the model state and its recorded history.
(Executable / decidable; no proofs here.)
-/
import TboxModel.C06.Model
namespace Tbox.C06

/-- what is left in `recv_buff_` after the presentations recorded in a history, starting from `left` -/
def leftAfter : List Byte → List Ev → List Byte
  | left, [] => left
  | _, .recv p k :: es => leftAfter (p.drop k) es
  | _, .discard _ :: es => leftAfter [] es
  | left, _ :: es => leftAfter left es

/-- every presentation starts with the bytes the previous presentation left unconsumed -/
def chainOk : List Byte → List Ev → Bool
  | _, [] => true
  | left, .recv p k :: es => left.isPrefixOf p && chainOk (p.drop k) es
  | left, .discard p :: es => left.isPrefixOf p && chainOk [] es
  | left, _ :: es => chainOk left es

/-- number of `disconnected` notifications in a history -/
def discCount : List Ev → Nat
  | [] => 0
  | .disconnected _ _ :: es => discCount es + 1
  | _ :: es => discCount es

/-- number of read-zero notifications in a history -/
def zeroCount : List Ev → Nat
  | [] => 0
  | .readZero _ :: es => zeroCount es + 1
  | _ :: es => zeroCount es

/-- send-complete notifications were all made with nothing outstanding -/
def completeOk (h : List Ev) : Prop := ∀ n, Ev.sendComplete n ∈ h → n = 0

/-- close notifications caused by EOF were all made with every byte of the peer presented before -/
def closeOk (h : List Ev) : Prop :=
  (∀ u, Ev.readZero u ∈ h → u = 0) ∧ (∀ u, Ev.disconnected false u ∈ h → u = 0)

end Tbox.C06
