/- C07 — per-buffer lemmas: every operation preserves the invariant and acts on the
readable window like the corresponding FIFO operation. -/
import TboxModel.C07.Proofs
namespace Tbox.C07
open Buf

theorem mk'_inv (cap : Nat) : (Buf.mk' cap).Inv := by simp [Buf.mk', Buf.Inv]
theorem mk'_readable (cap : Nat) : (Buf.mk' cap).readable = [] := by simp [Buf.mk', Buf.readable]
theorem empty_inv : Buf.empty.Inv := by simp [Buf.empty, Buf.Inv]
theorem empty_readable : Buf.empty.readable = [] := by simp [Buf.empty, Buf.readable]

theorem readable_poke (m : List Byte) (off : Nat) (d : List Byte) (w : Nat)
    (h : off + d.length ≤ m.length) (hw : w - off = d.length) :
    ({ mem := poke m off d, r := off, w := w } : Buf).readable = d := by
  simp only [Buf.readable]; rw [hw]; exact drop_take_poke_same m off d h

/-! #### ensureWritableSize -/

theorem ensure_spec (b : Buf) (n : Nat) (h : b.Inv) :
    (b.ensure n).1.Inv ∧ (b.ensure n).1.readable = b.readable ∧ (b.ensure n).1.writable ≥ n := by
  obtain ⟨hrw, hws⟩ := h
  unfold Buf.ensure
  split
  · subst_vars; exact ⟨⟨hrw, hws⟩, rfl, Nat.zero_le _⟩
  · split
    · exact ⟨⟨hrw, hws⟩, rfl, by assumption⟩
    · have hl : b.readable.length = b.w - b.r := readable_length b ⟨hrw, hws⟩
      split
      · -- compaction
        rename_i h1 h2 h3
        have hp : (poke b.mem 0 b.readable).length = b.mem.length :=
          poke_length _ _ _ (by rw [hl]; omega)
        refine ⟨⟨by simp, by simp only [hp]; omega⟩, ?_, ?_⟩
        · exact readable_poke b.mem 0 b.readable _ (by rw [hl]; omega) (by rw [hl]; omega)
        · simp only [Buf.writable, Buf.size, hp] at *; omega
      · -- growth
        rename_i h1 h2 h3
        have hcap : b.r + b.readable.length ≤ (List.replicate (growSize b.w n) (0:Byte)).length := by
          simp [growSize, hl]; omega
        have hp := poke_length (List.replicate (growSize b.w n) (0:Byte)) b.r b.readable hcap
        refine ⟨⟨hrw, by simp only [hp]; simp [growSize]; omega⟩, ?_, ?_⟩
        · exact readable_poke _ b.r b.readable _ hcap (by rw [hl])
        · simp only [Buf.writable, Buf.size, hp]; simp [growSize]; omega

theorem ensure_accesses_ok (b : Buf) (n : Nat) (h : b.Inv) :
    ∀ a ∈ (b.ensure n).2, a.ok := by
  obtain ⟨hrw, hws⟩ := h
  unfold Buf.ensure
  split
  · simp
  · split
    · simp
    · split
      · intro a ha
        simp at ha
        rcases ha with rfl | rfl <;> (right; simp [Buf.size]; omega)
      · intro a ha
        split at ha
        · simp at ha
        · simp at ha
          rcases ha with rfl | rfl <;> (right; simp [Buf.size, growSize]; omega)

/-! #### write into the reserved region and commit -/

theorem write_commit_spec (b : Buf) (d : List Byte) (h : b.Inv) (hd : d.length ≤ b.writable) :
    ((b.userWrite d).1.hasWritten d.length).Inv ∧
    ((b.userWrite d).1.hasWritten d.length).readable = b.readable ++ d ∧
    (∀ a ∈ (b.userWrite d).2, a.ok) := by
  obtain ⟨hrw, hws⟩ := h
  simp only [Buf.writable, Buf.size] at hd
  have hcap : b.w + d.length ≤ b.mem.length := by omega
  have hp := poke_length b.mem b.w d hcap
  unfold Buf.userWrite Buf.hasWritten
  simp only [Buf.size, hp]
  rw [if_neg (by omega)]
  refine ⟨⟨by simp; omega, by simp only [hp]; omega⟩, ?_, ?_⟩
  · simp only [Buf.readable]
    have e : b.w + d.length - b.r = (b.w - b.r) + d.length := by omega
    rw [e, List.take_add]
    congr 1
    · exact drop_take_poke_before b.mem b.w d b.r (b.w - b.r) (by omega) hws
    · rw [List.drop_drop]
      have : b.r + (b.w - b.r) = b.w := by omega
      rw [Nat.add_comm] at this
      rw [Nat.add_comm, this]
      exact drop_take_poke_same b.mem b.w d hcap
  · intro a ha; simp at ha; subst ha; right; simp [Buf.size]; omega

theorem append_spec (b : Buf) (d : List Byte) (h : b.Inv) :
    (b.append d).1.Inv ∧ (b.append d).1.readable = b.readable ++ d ∧
    (∀ a ∈ (b.append d).2, a.ok) := by
  have he := ensure_spec b d.length h
  have hw := write_commit_spec (b.ensure d.length).1 d he.1 he.2.2
  unfold Buf.append
  refine ⟨hw.1, by rw [hw.2.1, he.2.1], ?_⟩
  intro a ha
  simp only [List.mem_append] at ha
  rcases ha with ha | ha
  · exact ensure_accesses_ok b _ h a ha
  · exact hw.2.2 a ha

theorem rwc_spec (b : Buf) (n : Nat) (d : List Byte) (h : b.Inv) (hn : d.length ≤ n) :
    (b.reserveWriteCommit n d).1.Inv ∧ (b.reserveWriteCommit n d).1.readable = b.readable ++ d ∧
    (∀ a ∈ (b.reserveWriteCommit n d).2, a.ok) := by
  have he := ensure_spec b n h
  have hw := write_commit_spec (b.ensure n).1 d he.1 (by omega)
  unfold Buf.reserveWriteCommit
  refine ⟨hw.1, by rw [hw.2.1, he.2.1], ?_⟩
  intro a ha
  simp only [List.mem_append] at ha
  rcases ha with ha | ha
  · exact ensure_accesses_ok b _ h a ha
  · exact hw.2.2 a ha

/-- `hasWritten` with any argument (including over-commit) keeps the invariant -/
theorem hasWritten_inv (b : Buf) (n : Nat) (h : b.Inv) : (b.hasWritten n).Inv := by
  obtain ⟨hrw, hws⟩ := h
  unfold Buf.hasWritten Buf.Inv Buf.size
  split <;> simp <;> omega

theorem userWrite_inv (b : Buf) (d : List Byte) (h : b.Inv) (hd : d.length ≤ b.writable) :
    (b.userWrite d).1.Inv ∧ ∀ a ∈ (b.userWrite d).2, a.ok := by
  obtain ⟨hrw, hws⟩ := h
  simp only [Buf.writable, Buf.size] at hd
  have hp := poke_length b.mem b.w d (by omega)
  unfold Buf.userWrite
  refine ⟨⟨hrw, by simp only [hp]; exact hws⟩, ?_⟩
  intro a ha; simp at ha; subst ha; right; simp [Buf.size]; omega

/-! #### reading -/

theorem hasRead_spec (b : Buf) (n : Nat) (h : b.Inv) :
    (b.hasRead n).Inv ∧ (b.hasRead n).readable = b.readable.drop n := by
  obtain ⟨hrw, hws⟩ := h
  have hl : b.readable.length = b.w - b.r := readable_length b ⟨hrw, hws⟩
  unfold Buf.hasRead
  split
  · refine ⟨by simp [Buf.Inv], ?_⟩
    rw [List.drop_of_length_le (by omega)]; simp [Buf.readable]
  · split
    · refine ⟨by simp [Buf.Inv], ?_⟩
      rw [List.drop_of_length_le (by omega)]; simp [Buf.readable]
    · refine ⟨⟨by simp; omega, hws⟩, ?_⟩
      simp only [Buf.readable]
      rw [List.drop_take, List.drop_drop]
      have : b.w - (b.r + n) = b.w - b.r - n := by omega
      rw [this]

theorem hasReadAll_spec (b : Buf) : b.hasReadAll.Inv ∧ b.hasReadAll.readable = [] := by
  simp [Buf.hasReadAll, Buf.Inv, Buf.readable]

theorem fetch_spec (b : Buf) (n : Nat) (h : b.Inv) :
    (b.fetch n).1.Inv ∧ (b.fetch n).1.readable = b.readable.drop n ∧
    (b.fetch n).2.1 = b.readable.take n ∧ (∀ a ∈ (b.fetch n).2.2, a.ok) := by
  have hl : b.readable.length = b.w - b.r := readable_length b h
  obtain ⟨hrw, hws⟩ := h
  unfold Buf.fetch
  simp only [Buf.readableSize]
  by_cases hgt : n > b.w - b.r
  · simp only [hgt, ↓reduceIte]
    have hr := hasRead_spec b (b.w - b.r) ⟨hrw, hws⟩
    refine ⟨hr.1, ?_, ?_, ?_⟩
    · rw [hr.2, List.drop_of_length_le (by omega), List.drop_of_length_le (by omega)]
    · rw [List.take_of_length_le (by omega), List.take_of_length_le (by omega)]
    · intro a ha; simp at ha; subst ha; right; simp [Buf.size]; omega
  · simp only [hgt, ↓reduceIte]
    have hr := hasRead_spec b n ⟨hrw, hws⟩
    refine ⟨hr.1, hr.2, trivial, ?_⟩
    intro a ha; simp at ha; subst ha; right; simp [Buf.size]; omega

/-! #### copy -/

theorem cloneOf_spec (o : Buf) (h : o.Inv) :
    (Buf.cloneOf o).1.Inv ∧ (Buf.cloneOf o).1.readable = o.readable ∧
    (∀ a ∈ (Buf.cloneOf o).2, a.ok) := by
  have hl : o.readable.length = o.w - o.r := readable_length o h
  obtain ⟨hrw, hws⟩ := h
  unfold Buf.cloneOf
  simp only [Buf.readableSize]
  by_cases hpos : o.w - o.r > 0
  · simp only [hpos, ↓reduceIte]
    refine ⟨by simp [Buf.Inv, hl], ?_, ?_⟩
    · simp only [Buf.readable, List.drop_zero, Nat.sub_zero]
      rw [List.take_of_length_le]; simp; omega
    · intro a ha; simp at ha
      rcases ha with rfl | rfl <;> (right; simp [Buf.size]; try omega)
  · simp only [hpos, ↓reduceIte]
    refine ⟨by simp [Buf.Inv], ?_, by simp⟩
    have : o.w - o.r = 0 := by omega
    simp [Buf.readable, this]

end Tbox.C07
