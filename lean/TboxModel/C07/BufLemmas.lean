/- C07 — per-buffer lemmas: every operation preserves the invariant and acts on the
readable window like the corresponding FIFO operation; a failing operation changes nothing. -/
import TboxModel.C07.Proofs
namespace Tbox.C07
open Buf

theorem mk'_inv (cap : Nat) (h : cap < W) : (Buf.mk' cap).Inv := by simp [Buf.mk', Buf.Inv, h]
theorem mk'_readable (cap : Nat) : (Buf.mk' cap).readable = [] := by simp [Buf.mk', Buf.readable]
theorem empty_inv : Buf.empty.Inv := by simp [Buf.empty, Buf.Inv, W]
theorem empty_readable : Buf.empty.readable = [] := by simp [Buf.empty, Buf.readable]

theorem readable_poke (m : List Byte) (off : Nat) (d : List Byte) (w : Nat)
    (h : off + d.length ≤ m.length) (hw : w - off = d.length) :
    ({ mem := poke m off d, r := off, w := w } : Buf).readable = d := by
  simp only [Buf.readable]; rw [hw]; exact drop_take_poke_same m off d h

/-! #### ensureWritableSize -/

theorem compact_spec (b : Buf) (h : b.Inv) :
    b.compact.buf.Inv ∧ b.compact.buf.readable = b.readable ∧
    b.compact.buf.mem.length = b.mem.length ∧ b.compact.buf.w = b.w - b.r ∧ b.compact.buf.r = 0 ∧
    b.compact.st = .ok ∧ (∀ a ∈ b.compact.acc, a.ok) := by
  have hl : b.readable.length = b.w - b.r := readable_length b h
  obtain ⟨hrw, hws, hW⟩ := h
  have hs : usub b.w b.r = b.w - b.r := usub_eq _ _ hrw (by omega)
  have hp : (poke b.mem 0 b.readable).length = b.mem.length :=
    poke_length _ _ _ (by rw [hl]; omega)
  unfold Buf.compact
  simp only [hs]
  refine ⟨⟨by simp, by simp only [hp]; omega, by simp only [hp]; exact hW⟩, ?_, hp, (by first | rfl | trivial), (by first | rfl | trivial), (by first | rfl | trivial), ?_⟩
  · exact readable_poke b.mem 0 b.readable _ (by rw [hl]; omega) (by rw [hl]; omega)
  · intro a ha
    simp at ha
    rcases ha with rfl | rfl <;> (right; simp [Buf.size]; omega)

theorem growSize_eq (w n : Nat) (h : w + n ≤ maxHalf) : growSize w n = (w + n) * 2 := by
  unfold growSize
  rw [uadd_eq _ _ (by unfold maxHalf W at *; omega), ushl1_eq _ (by unfold maxHalf W at *; omega)]

theorem regrow_ok (al : Alloc) (b : Buf) (n : Nat) (h : b.Inv) (hs : b.w + n ≤ maxHalf)
    (hal : al ((b.w + n) * 2) = true) :
    (b.regrow al n).buf.Inv ∧ (b.regrow al n).buf.readable = b.readable ∧
    (b.regrow al n).buf.mem.length = (b.w + n) * 2 ∧ (b.regrow al n).buf.w = b.w ∧
    (b.regrow al n).buf.r = b.r ∧
    (b.regrow al n).st = .ok ∧ (∀ a ∈ (b.regrow al n).acc, a.ok) := by
  have hl : b.readable.length = b.w - b.r := readable_length b h
  obtain ⟨hrw, hws, hW⟩ := h
  have hsub : usub b.w b.r = b.w - b.r := usub_eq _ _ hrw (by omega)
  have hg := growSize_eq b.w n hs
  unfold Buf.regrow
  simp only [hg, hal, ↓reduceIte, hsub]
  have hcap : b.r + b.readable.length ≤ (List.replicate ((b.w + n) * 2) (0:Byte)).length := by
    simp [hl]; omega
  have hp := poke_length (List.replicate ((b.w + n) * 2) (0:Byte)) b.r b.readable hcap
  refine ⟨⟨hrw, by simp only [hp]; simp; omega, by simp only [hp]; simp; unfold maxHalf W at *; omega⟩,
          ?_, by simp only [hp]; simp, (by first | rfl | trivial), (by first | rfl | trivial), (by first | rfl | trivial), ?_⟩
  · exact readable_poke _ b.r b.readable _ hcap (by rw [hl])
  · intro a ha
    split at ha
    · simp at ha
    · simp at ha
      rcases ha with rfl | rfl <;> (right; simp [Buf.size]; omega)

theorem regrow_fail (al : Alloc) (b : Buf) (n : Nat) (hal : al (growSize b.w n) = false) :
    (b.regrow al n).buf = b ∧ (b.regrow al n).st = .badAlloc ∧ (b.regrow al n).acc = [] := by
  unfold Buf.regrow; simp [hal]

/-- the request needs the reallocation branch -/
def Buf.needsGrowth (b : Buf) (n : Nat) : Prop :=
  n ≠ 0 ∧ b.mem.length - b.w < n ∧ b.mem.length - b.w + b.r < n
instance (b : Buf) (n : Nat) : Decidable (b.needsGrowth n) := by unfold Buf.needsGrowth; exact inferInstance

/-- `ensure` by cases, with the `size_t` expressions resolved under the invariant -/
theorem ensure_cases (al : Alloc) (b : Buf) (n : Nat) (h : b.Inv) :
    b.ensure al n =
      if n = 0 then { buf := b }
      else if b.mem.length - b.w ≥ n then { buf := b }
      else if b.mem.length - b.w + b.r ≥ n then b.compact
      else if b.w + n > maxHalf then { buf := b, st := .refused }
      else b.regrow al n := by
  have hw := writable_eq b h
  obtain ⟨hrw, hws, hW⟩ := h
  have ha : uadd (b.mem.length - b.w) b.r = b.mem.length - b.w + b.r := uadd_eq _ _ (by omega)
  unfold Buf.ensure
  simp only [hw, ha]
  have : (b.w > maxHalf ∨ n > maxHalf - b.w) ↔ b.w + n > maxHalf := by omega
  simp only [this]

theorem ensure_spec (al : Alloc) (b : Buf) (n : Nat) (h : b.Inv) :
    ((b.ensure al n).st = .ok →
      (b.ensure al n).buf.Inv ∧ (b.ensure al n).buf.readable = b.readable ∧
      (b.ensure al n).buf.w + n ≤ (b.ensure al n).buf.mem.length) ∧
    ((b.ensure al n).st ≠ .ok → (b.ensure al n).buf = b) ∧
    (∀ a ∈ (b.ensure al n).acc, a.ok) := by
  rw [ensure_cases al b n h]
  have hI := h
  obtain ⟨hrw, hws, hW⟩ := h
  split
  · subst_vars; exact ⟨fun _ => ⟨hI, rfl, by simpa using hws⟩, fun _ => rfl, by simp⟩
  · split
    · exact ⟨fun _ => ⟨hI, rfl, by simp only; omega⟩, fun _ => rfl, by simp⟩
    · split
      · have c := compact_spec b hI
        refine ⟨fun _ => ⟨c.1, c.2.1, ?_⟩, fun hne => absurd c.2.2.2.2.2.1 hne, c.2.2.2.2.2.2⟩
        rw [c.2.2.1, c.2.2.2.1]; omega
      · split
        · exact ⟨fun hst => by simp at hst, fun _ => rfl, by simp⟩
        · rename_i hgr
          by_cases hal : al ((b.w + n) * 2) = true
          · have g := regrow_ok al b n hI (by omega) hal
            refine ⟨fun _ => ⟨g.1, g.2.1, ?_⟩, fun hne => absurd g.2.2.2.2.2.1 hne, g.2.2.2.2.2.2⟩
            rw [g.2.2.1, g.2.2.2.1]; omega
          · have hal' : al (growSize b.w n) = false := by
              rw [growSize_eq b.w n (by omega)]; simpa using hal
            have g := regrow_fail al b n hal'
            refine ⟨fun hst => ?_, fun _ => g.1, by rw [g.2.2]; simp⟩
            rw [g.2.1] at hst; simp at hst

/-- exact characterisation of the outcome of a reservation -/
theorem ensure_status (al : Alloc) (b : Buf) (n : Nat) (h : b.Inv) :
    (b.ensure al n).st =
      if ¬ b.needsGrowth n then .ok
      else if b.w + n > maxHalf then .refused
      else if al ((b.w + n) * 2) then .ok else .badAlloc := by
  rw [ensure_cases al b n h]
  unfold Buf.needsGrowth
  by_cases h0 : n = 0
  · simp [h0]
  · by_cases h1 : b.mem.length - b.w ≥ n
    · have : ¬ (b.mem.length - b.w < n) := by omega
      simp [h0, h1, this]
    · by_cases h2 : b.mem.length - b.w + b.r ≥ n
      · have : ¬ (b.mem.length - b.w + b.r < n) := by omega
        simp [h0, h1, h2, this, (compact_spec b h).2.2.2.2.2.1]
      · have h1' : b.mem.length - b.w < n := by omega
        have h2' : b.mem.length - b.w + b.r < n := by omega
        by_cases h3 : b.w + n > maxHalf
        · simp [h0, h1, h2, h1', h2', h3]
        · simp only [h0, h1, h2, h3, ↓reduceIte, ne_eq, not_false_eq_true, h1', h2', and_self, not_true_eq_false]
          by_cases hal : al ((b.w + n) * 2) = true
          · simp [hal, (regrow_ok al b n h (by omega) hal).2.2.2.2.2.1]
          · have hal' : al (growSize b.w n) = false := by
              rw [growSize_eq b.w n (by omega)]; simpa using hal
            simp [hal, (regrow_fail al b n hal').2.1]

/-! #### write into the reserved region and commit -/

theorem write_commit_spec (b : Buf) (d : List Byte) (h : b.Inv) (hd : b.w + d.length ≤ b.mem.length) :
    ((b.userWrite d).1.hasWritten d.length).Inv ∧
    ((b.userWrite d).1.hasWritten d.length).readable = b.readable ++ d ∧
    (∀ a ∈ (b.userWrite d).2, a.ok) := by
  obtain ⟨hrw, hws, hW⟩ := h
  have hcap : b.w + d.length ≤ b.mem.length := hd
  have hp := poke_length b.mem b.w d hcap
  unfold Buf.userWrite Buf.hasWritten
  simp only [Buf.size, hp]
  rw [usub_eq _ _ hws hW, uadd_eq _ _ (by omega), if_neg (by omega)]
  refine ⟨⟨by simp; omega, by simp only [hp]; omega, by simp only [hp]; exact hW⟩, ?_, ?_⟩
  · simp only [Buf.readable]
    have e : b.w + d.length - b.r = (b.w - b.r) + d.length := by omega
    rw [e, List.take_add]
    congr 1
    · exact drop_take_poke_before b.mem b.w d b.r (b.w - b.r) (by omega) hws
    · rw [List.drop_drop]
      have : b.r + (b.w - b.r) = b.w := by omega
      rw [Nat.add_comm] at this
      rw [Nat.add_comm, this]
      exact drop_take_poke_same b.mem b.w d hcap
  · intro a ha; simp at ha; subst ha; right; simp [Buf.size]; omega

theorem append_spec (al : Alloc) (b : Buf) (d : List Byte) (h : b.Inv) :
    ((b.append al d).st = .ok →
      (b.append al d).buf.Inv ∧ (b.append al d).buf.readable = b.readable ++ d ∧ (b.append al d).ret = d.length) ∧
    ((b.append al d).st ≠ .ok → (b.append al d).buf = b ∧ (b.append al d).ret = 0) ∧
    (∀ a ∈ (b.append al d).acc, a.ok) := by
  have he := ensure_spec al b d.length h
  unfold Buf.append
  by_cases hst : (b.ensure al d.length).st = .ok
  · have hk := he.1 hst
    have hw := write_commit_spec (b.ensure al d.length).buf d hk.1 hk.2.2
    simp only [hst, ↓reduceIte]
    refine ⟨fun _ => ⟨hw.1, by rw [hw.2.1, hk.2.1], (by first | rfl | trivial)⟩, fun hne => (hne rfl).elim, ?_⟩
    intro a ha
    simp only [List.mem_append] at ha
    rcases ha with ha | ha
    · exact he.2.2 a ha
    · exact hw.2.2 a ha
  · simp only [hst, ↓reduceIte]
    exact ⟨fun h' => h'.elim, fun _ => ⟨(by first | rfl | trivial), (by first | rfl | trivial)⟩, he.2.2⟩

theorem rwc_spec (al : Alloc) (b : Buf) (n : Nat) (d : List Byte) (h : b.Inv) (hn : d.length ≤ n) :
    ((b.reserveWriteCommit al n d).st = .ok →
      (b.reserveWriteCommit al n d).buf.Inv ∧ (b.reserveWriteCommit al n d).buf.readable = b.readable ++ d) ∧
    ((b.reserveWriteCommit al n d).st ≠ .ok → (b.reserveWriteCommit al n d).buf = b) ∧
    (∀ a ∈ (b.reserveWriteCommit al n d).acc, a.ok) := by
  have he := ensure_spec al b n h
  unfold Buf.reserveWriteCommit
  by_cases hst : (b.ensure al n).st = .ok
  · have hk := he.1 hst
    have hw := write_commit_spec (b.ensure al n).buf d hk.1 (by omega)
    simp only [hst, ↓reduceIte]
    refine ⟨fun _ => ⟨hw.1, by rw [hw.2.1, hk.2.1]⟩, fun hne => (hne rfl).elim, ?_⟩
    intro a ha
    simp only [List.mem_append] at ha
    rcases ha with ha | ha
    · exact he.2.2 a ha
    · exact hw.2.2 a ha
  · simp only [hst, ↓reduceIte]
    exact ⟨fun h' => h'.elim, fun _ => (by first | rfl | trivial), he.2.2⟩

/-- `hasWritten` with any argument (including over-commit) keeps the invariant -/
theorem hasWritten_inv (b : Buf) (n : Nat) (h : b.Inv) : (b.hasWritten n).Inv := by
  obtain ⟨hrw, hws, hW⟩ := h
  unfold Buf.hasWritten Buf.size
  rw [usub_eq _ _ hws hW]
  split
  · exact ⟨by simp; omega, by simp, hW⟩
  · rw [uadd_eq _ _ (by omega)]
    exact ⟨by simp; omega, by simp; omega, hW⟩

theorem userWrite_inv (b : Buf) (d : List Byte) (h : b.Inv) (hd : d.length ≤ b.writable) :
    (b.userWrite d).1.Inv ∧ ∀ a ∈ (b.userWrite d).2, a.ok := by
  rw [writable_eq b h] at hd
  obtain ⟨hrw, hws, hW⟩ := h
  have hp := poke_length b.mem b.w d (by omega)
  unfold Buf.userWrite
  refine ⟨⟨hrw, by simp only [hp]; exact hws, by simp only [hp]; exact hW⟩, ?_⟩
  intro a ha; simp at ha; subst ha; right; simp [Buf.size]; omega

/-! #### reading -/

theorem hasRead_spec (b : Buf) (n : Nat) (h : b.Inv) :
    (b.hasRead n).Inv ∧ (b.hasRead n).readable = b.readable.drop n ∧ (b.hasRead n).mem = b.mem := by
  have hl : b.readable.length = b.w - b.r := readable_length b h
  obtain ⟨hrw, hws, hW⟩ := h
  unfold Buf.hasRead
  rw [usub_eq _ _ hrw (by omega)]
  split
  · refine ⟨by simp [Buf.Inv, hW], ?_, rfl⟩
    rw [List.drop_of_length_le (by omega)]; simp [Buf.readable]
  · rw [uadd_eq _ _ (by omega)]
    refine ⟨⟨by simp; omega, hws, hW⟩, ?_, rfl⟩
    simp only [Buf.readable]
    rw [List.drop_take, List.drop_drop]
    have : b.w - (b.r + n) = b.w - b.r - n := by omega
    rw [this]

theorem hasReadAll_spec (b : Buf) (h : b.Inv) : b.hasReadAll.Inv ∧ b.hasReadAll.readable = [] := by
  simp [Buf.hasReadAll, Buf.Inv, Buf.readable, h.2.2]

theorem fetch_spec (b : Buf) (n : Nat) (h : b.Inv) :
    (b.fetch n).1.Inv ∧ (b.fetch n).1.readable = b.readable.drop n ∧
    (b.fetch n).2.1 = b.readable.take n ∧ (∀ a ∈ (b.fetch n).2.2, a.ok) := by
  have hl : b.readable.length = b.w - b.r := readable_length b h
  have hrs := readableSize_eq b h
  obtain ⟨hrw, hws, hW⟩ := h
  unfold Buf.fetch
  simp only [hrs]
  by_cases hgt : n > b.w - b.r
  · simp only [hgt, ↓reduceIte]
    have hr := hasRead_spec b (b.w - b.r) ⟨hrw, hws, hW⟩
    refine ⟨hr.1, ?_, ?_, ?_⟩
    · rw [hr.2.1, List.drop_of_length_le (by omega), List.drop_of_length_le (by omega)]
    · rw [List.take_of_length_le (by omega), List.take_of_length_le (by omega)]
    · intro a ha; simp at ha; subst ha; right; simp [Buf.size]; omega
  · simp only [hgt, ↓reduceIte]
    have hr := hasRead_spec b n ⟨hrw, hws, hW⟩
    refine ⟨hr.1, hr.2.1, trivial, ?_⟩
    intro a ha; simp at ha; subst ha; right; simp [Buf.size]; omega

/-! #### copy -/

theorem cloneInto_spec (al : Alloc) (dst o : Buf) (h : o.Inv) :
    ((Buf.cloneInto al dst o).st = .ok →
      (Buf.cloneInto al dst o).buf.Inv ∧ (Buf.cloneInto al dst o).buf.readable = o.readable) ∧
    ((Buf.cloneInto al dst o).st ≠ .ok → (Buf.cloneInto al dst o).buf = dst) ∧
    (∀ a ∈ (Buf.cloneInto al dst o).acc, a.ok) := by
  have hl : o.readable.length = o.w - o.r := readable_length o h
  have hrs := readableSize_eq o h
  obtain ⟨hrw, hws, hW⟩ := h
  unfold Buf.cloneInto
  simp only [hrs]
  by_cases hpos : o.w - o.r > 0
  · simp only [hpos, ↓reduceIte]
    by_cases hal : al (o.w - o.r) = true
    · simp only [hal, ↓reduceIte]
      refine ⟨fun _ => ⟨by simp [Buf.Inv, hl]; omega, ?_⟩, fun hne => (hne rfl).elim, ?_⟩
      · simp only [Buf.readable, List.drop_zero, Nat.sub_zero]
        rw [List.take_of_length_le]; simp; omega
      · intro a ha; simp at ha
        rcases ha with rfl | rfl <;> (right; simp [Buf.size]; try omega)
    · simp only [hal]
      exact ⟨fun hst => by simp at hst, fun _ => rfl, by simp⟩
  · simp only [hpos, ↓reduceIte]
    refine ⟨fun _ => ⟨by simp [Buf.Inv, W], ?_⟩, fun hne => (hne rfl).elim, by simp⟩
    have : o.w - o.r = 0 := by omega
    simp [Buf.readable, this]

theorem construct_spec (al : Alloc) (old : Buf) (cap : Nat) (hc : cap < W) :
    ((Buf.construct al old cap).st = .ok →
      (Buf.construct al old cap).buf.Inv ∧ (Buf.construct al old cap).buf.readable = []) ∧
    ((Buf.construct al old cap).st ≠ .ok → (Buf.construct al old cap).buf = old) ∧
    (Buf.construct al old cap).acc = [] := by
  unfold Buf.construct
  split
  · exact ⟨fun _ => ⟨empty_inv, empty_readable⟩, fun hne => (hne rfl).elim, rfl⟩
  · split
    · exact ⟨fun _ => ⟨mk'_inv cap hc, mk'_readable cap⟩, fun hne => (hne rfl).elim, rfl⟩
    · exact ⟨fun hst => by simp at hst, fun _ => rfl, rfl⟩

/-! #### append from the own storage -/

/-- With `k` bytes already writable, `append(readableBegin()+off, k)` neither moves nor
reallocates: the source is read intact, source and destination are disjoint, and the effect is
the FIFO append of that slice of the queue. -/
theorem appendSelfRaw_reserved (al : Alloc) (b : Buf) (off k : Nat) (h : b.Inv)
    (hk : b.w + k ≤ b.mem.length) (ho : off + k ≤ b.w - b.r) :
    (b.appendSelfRaw al off k).2 = .none ∧ (b.appendSelfRaw al off k).1.st = .ok ∧
    (b.appendSelfRaw al off k).1.buf.Inv ∧
    (b.appendSelfRaw al off k).1.buf.readable = b.readable ++ (b.readable.drop off).take k ∧
    (b.appendSelfRaw al off k).1.news = 0 ∧ (b.appendSelfRaw al off k).1.dels = 0 ∧
    (∀ a ∈ (b.appendSelfRaw al off k).1.acc, a.ok) := by
  have hI := h
  obtain ⟨hrw, hws, hW⟩ := h
  have he : b.ensure al k = { buf := b } := by
    rw [ensure_cases al b k hI]
    by_cases h0 : k = 0
    · simp [h0]
    · have : b.mem.length - b.w ≥ k := by omega
      simp [h0, this]
  have hsrc : uadd b.r off = b.r + off := uadd_eq _ _ (by omega)
  -- the bytes the memcpy reads are the slice of the queue
  have hdata : ((b.mem.drop (b.r + off)).take k) = (b.readable.drop off).take k := by
    simp only [Buf.readable]
    rw [List.drop_take, List.drop_drop, List.take_take]
    congr 1
    omega
  have hlen : ((b.readable.drop off).take k).length = k := by
    rw [List.length_take, List.length_drop, readable_length b hI]; omega
  have hw := write_commit_spec b ((b.readable.drop off).take k) hI (by rw [hlen]; exact hk)
  rw [hlen] at hw
  unfold Buf.appendSelfRaw
  simp only [he, hsrc, hdata]
  refine ⟨?_, by simp, by simpa using hw.1, by simpa using hw.2.1, by simp, by simp, ?_⟩
  · have : ¬ (k ≠ 0 ∧ b.r + off < b.w + k ∧ b.w < b.r + off + k) := by omega
    simp [this]
  · intro a ha
    simp only [ne_eq, not_true_eq_false, ↓reduceIte, List.nil_append,
      List.mem_append, List.mem_cons, List.not_mem_nil, or_false] at ha
    rcases ha with rfl | ha
    · right; simp [Buf.size]; omega
    · have := hw.2.2 a (by simpa [Buf.userWrite, hlen] using ha)
      exact this

/-- in the reallocation branch the source pointer dangles, whatever the sizes -/
theorem appendSelfRaw_growth_dangling (al : Alloc) (b : Buf) (off k : Nat) (h : b.Inv)
    (hg : b.needsGrowth k) (hs : b.w + k ≤ maxHalf) (hal : al ((b.w + k) * 2) = true) :
    (b.appendSelfRaw al off k).2 = .dangling := by
  have hst := ensure_status al b k h
  have hcs := ensure_cases al b k h
  obtain ⟨h0, h1, h2⟩ := hg
  have e1 : ¬ (b.mem.length - b.w ≥ k) := by omega
  have e2 : ¬ (b.mem.length - b.w + b.r ≥ k) := by omega
  have e3 : ¬ (b.w + k > maxHalf) := by omega
  simp only [h0, e1, e2, e3, ↓reduceIte] at hcs
  have hn : (b.regrow al k).news = 1 := by
    unfold Buf.regrow; rw [growSize_eq b.w k hs]; simp [hal]
  have hok := (regrow_ok al b k h hs hal).2.2.2.2.2.1
  unfold Buf.appendSelfRaw
  simp [hcs, hn, hok]


/-! #### fetch into the own writable region -/

theorem fetchIntoRaw_writable (b : Buf) (n : Nat) (h : b.Inv)
    (hk : b.w + min n (b.w - b.r) ≤ b.mem.length) :
    (b.fetchIntoRaw b.w n).2.2 = .none ∧ (b.fetchIntoRaw b.w n).1.buf.Inv ∧
    (b.fetchIntoRaw b.w n).1.buf.readable = b.readable.drop n ∧
    (b.fetchIntoRaw b.w n).2.1 = b.readable.take n ∧
    (b.fetchIntoRaw b.w n).1.buf.mem.length = b.mem.length ∧
    ((b.fetchIntoRaw b.w n).1.buf.mem.drop b.w).take (min n (b.w - b.r)) = b.readable.take n ∧
    (b.fetchIntoRaw b.w n).1.st = .ok ∧
    (∀ a ∈ (b.fetchIntoRaw b.w n).1.acc, a.ok) := by
  have hl := readable_length b h
  have hrs := readableSize_eq b h
  obtain ⟨hrw, hws, hW⟩ := h
  generalize hkdef : (if n > b.readableSize then b.readableSize else n) = k
  have hkv : k = min n (b.w - b.r) := by rw [← hkdef, hrs]; split <;> omega
  have hdl : (b.readable.take k).length = k := by rw [List.length_take, hl]; omega
  have hcap : b.w + (b.readable.take k).length ≤ b.mem.length := by rw [hdl]; omega
  have hp : (poke b.mem b.w (b.readable.take k)).length = b.mem.length := poke_length _ _ _ hcap
  have hI' : ({ b with mem := poke b.mem b.w (b.readable.take k) } : Buf).Inv :=
    ⟨hrw, by simp only [hp]; exact hws, by simp only [hp]; exact hW⟩
  have hr' : ({ b with mem := poke b.mem b.w (b.readable.take k) } : Buf).readable = b.readable := by
    simp only [Buf.readable]
    exact drop_take_poke_before b.mem b.w _ b.r (b.w - b.r) (by omega) hws
  have hh := hasRead_spec _ k hI'
  have htk : b.readable.take k = b.readable.take n := by
    rw [hkv]; by_cases hc : n ≤ b.w - b.r
    · rw [Nat.min_eq_left hc]
    · rw [Nat.min_eq_right (by omega), List.take_of_length_le (by omega), List.take_of_length_le (by omega)]
  have hdk : b.readable.drop k = b.readable.drop n := by
    rw [hkv]; by_cases hc : n ≤ b.w - b.r
    · rw [Nat.min_eq_left hc]
    · rw [Nat.min_eq_right (by omega), List.drop_of_length_le (by omega), List.drop_of_length_le (by omega)]
  unfold Buf.fetchIntoRaw
  simp only [hkdef]
  refine ⟨?_, hh.1, ?_, htk, ?_, ?_, trivial, ?_⟩
  · have : ¬ (k ≠ 0 ∧ b.r < b.w + k ∧ b.w < b.r + k) := by omega
    simp [this]
  · rw [hh.2.1, hr', hdk]
  · rw [hh.2.2]; exact hp
  · rw [hh.2.2, ← hkv, ← htk]
    have := drop_take_poke_same b.mem b.w (b.readable.take k) hcap
    rw [hdl] at this; exact this
  · intro a ha
    simp only [List.mem_cons, List.not_mem_nil, or_false] at ha
    rcases ha with rfl | rfl <;> (right; simp [Buf.size]; omega)


/-- the composite of `step (.fetchSelf …)`: reserve `min(n, readable)` bytes, then fetch into `writableBegin()` -/
theorem fetchSelf_spec (al : Alloc) (b : Buf) (n : Nat) (h : b.Inv) :
    ((b.ensure al (if n > b.readableSize then b.readableSize else n)).st = .ok →
      let e := b.ensure al (if n > b.readableSize then b.readableSize else n)
      (e.buf.fetchIntoRaw e.buf.w n).2.2 = .none ∧ (e.buf.fetchIntoRaw e.buf.w n).1.buf.Inv ∧
      (e.buf.fetchIntoRaw e.buf.w n).1.buf.readable = b.readable.drop n ∧
      (e.buf.fetchIntoRaw e.buf.w n).2.1 = b.readable.take n ∧
      (∀ a ∈ e.acc ++ (e.buf.fetchIntoRaw e.buf.w n).1.acc, a.ok)) := by
  have hrs := readableSize_eq b h
  have hkv : (if n > b.readableSize then b.readableSize else n) = min n (b.w - b.r) := by
    rw [hrs]; split <;> omega
  generalize (if n > b.readableSize then b.readableSize else n) = k at hkv ⊢
  intro hst
  have he := ensure_spec al b k h
  have hk := he.1 hst
  have hlen : (b.ensure al k).buf.w - (b.ensure al k).buf.r = b.w - b.r := by
    rw [← readable_length _ hk.1, hk.2.1, readable_length _ h]
  have hroom : (b.ensure al k).buf.w + min n ((b.ensure al k).buf.w - (b.ensure al k).buf.r) ≤
      (b.ensure al k).buf.mem.length := by
    rw [hlen, ← hkv]; exact hk.2.2
  have hf := fetchIntoRaw_writable _ n hk.1 hroom
  refine ⟨hf.1, hf.2.1, by rw [hf.2.2.1, hk.2.1], by rw [hf.2.2.2.1, hk.2.1], ?_⟩
  intro a ha
  simp only [List.mem_append] at ha
  rcases ha with ha | ha
  · exact he.2.2 a ha
  · exact hf.2.2.2.2.2.2.2 a ha

/-- the source operand of `b_i.append(b_j.readableBegin() + off, k)` lies inside `b_j`'s block -/
theorem appendFrom_source_ok (o : Buf) (off k : Nat) (h : o.Inv) (hk : ¬ (off + k > o.readableSize)) :
    (⟨o.size, uadd o.r off, k⟩ : Access).ok := by
  rw [readableSize_eq o h] at hk
  obtain ⟨hrw, hws, hW⟩ := h
  right
  rw [uadd_eq _ _ (by omega)]
  simp [Buf.size]; omega

end Tbox.C07
