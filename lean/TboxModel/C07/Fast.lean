/-
C07 — the buffer over a `ByteArray`: the SAME functions as `Buf` in Model.lean, line by line, over a
container with O(1) indexing and block copies (`ByteArray.copySlice` = `memcpy`/`memmove`, in place
when the array is not shared).  The driver executes `BufA`/`stepA`; FastProofs.lean proves that every
`BufA` function commutes with `toBuf` and that `stepA`/`runA`/`runScriptA` compute exactly the runs of
the list model (`C07_array_refines`), without any hypothesis on the state — also for histories of
10^5 operations and payloads of 10^6 bytes that the list model could not execute in the time of a check.
Core Lean only (imported by the driver).

Run-time notes.  A result record (`ResA`) and a buffer (`BufA`) are taken apart by pattern matching
before their block is handed to `copySlice`, so that the block has one owner and is updated in place;
`stepA` swaps the slot out of the store (`StoreA.take`) for the same reason.
-/
import TboxModel.C07.Spec
namespace Tbox.C07
open Buf (Hazard)

/-! ## blocks -/

/-- a fresh zeroed block of `n` bytes -/
def zeros (n : Nat) : ByteArray := ⟨Array.replicate n 0⟩

/-- `Buf.poke` over byte arrays: overwrite `mem[off .. off+d.size)` with `d` -/
def pokeA (mem : ByteArray) (off : Nat) (d : ByteArray) : ByteArray := d.copySlice 0 mem off d.size

structure BufA where
  mem : ByteArray := ByteArray.empty
  r   : Nat := 0
  w   : Nat := 0

/-- result of a buffer-level operation (`Res` over `BufA`) -/
structure ResA where
  buf  : BufA
  st   : Status := .ok
  acc  : List Access := []
  news : Nat := 0
  dels : Nat := 0
  ret  : Nat := 0

namespace BufA

/-- the list buffer an array buffer stands for -/
def toBuf (a : BufA) : Buf := { mem := a.mem.data.toList, r := a.r, w := a.w }

def size (b : BufA) : Nat := b.mem.size
def writable (b : BufA) : Nat := usub b.size b.w
def readableSize (b : BufA) : Nat := usub b.w b.r
/-- the readable window `[r, w)` (a copy) -/
def readable (b : BufA) : ByteArray := b.mem.extract b.r b.w
def owns (b : BufA) : Nat := if b.mem.size = 0 then 0 else 1

def mk' (cap : Nat) : BufA := { mem := zeros cap, r := 0, w := 0 }

def empty : BufA := { mem := ByteArray.empty, r := 0, w := 0 }

def regrow (al : Alloc) (b : BufA) (n : Nat) : ResA :=
  let ns := Buf.growSize b.w n
  if al ns then
    let sz := b.size
    let own := b.owns
    let d := b.readable
    match b with
    | ⟨_, r, w⟩ =>
      { buf := { mem := pokeA (zeros ns) r d, r := r, w := w },
        acc := if sz = 0 then [] else [⟨sz, r, usub w r⟩, ⟨ns, r, usub w r⟩],
        news := 1, dels := own }
  else { buf := b, st := .badAlloc, news := 1 }

def compact (b : BufA) : ResA :=
  let sz := b.size
  let d := b.readable
  match b with
  | ⟨mem, r, w⟩ =>
    { buf := { mem := pokeA mem 0 d, r := 0, w := usub w r },
      acc := [⟨sz, r, usub w r⟩, ⟨sz, 0, usub w r⟩] }

def ensure (al : Alloc) (b : BufA) (n : Nat) : ResA :=
  if n = 0 then { buf := b }
  else if b.writable ≥ n then { buf := b }
  else if uadd b.writable b.r ≥ n then b.compact
  else if b.w > maxHalf ∨ n > maxHalf - b.w then { buf := b, st := .refused }
  else b.regrow al n

def hasWritten (b : BufA) (n : Nat) : BufA :=
  if n > usub b.size b.w then { b with w := b.size } else { b with w := uadd b.w n }

def userWrite (b : BufA) (d : ByteArray) : BufA × List Access :=
  match b with
  | ⟨mem, r, w⟩ =>
    let sz := mem.size
    ({ mem := pokeA mem w d, r := r, w := w }, [⟨sz, w, d.size⟩])

/-- `append`.  In the failing case the list model hands back the buffer it was given; `ensure` hands
back that very buffer when it fails (`FastProofs.ensureA_fail_buf`), so the result of `ensure` is used
and the argument has a single owner while `ensure` runs. -/
def append (al : Alloc) (b : BufA) (d : ByteArray) : ResA :=
  match b.ensure al d.size with
  | ⟨eb, st, acc, news, dels, _⟩ =>
    if st = .ok then
      match eb.userWrite d with
      | (b2, a2) => { buf := b2.hasWritten d.size, st := st, acc := acc ++ a2, news := news, dels := dels, ret := d.size }
    else { buf := eb, st := st, acc := acc, news := news, dels := dels, ret := 0 }

def reserveWriteCommit (al : Alloc) (b : BufA) (n : Nat) (d : ByteArray) : ResA :=
  match b.ensure al n with
  | ⟨eb, st, acc, news, dels, ret⟩ =>
    if st = .ok then
      match eb.userWrite d with
      | (b2, a2) => { buf := b2.hasWritten d.size, st := st, acc := acc ++ a2, news := news, dels := dels, ret := ret }
    else { buf := eb, st := st, acc := acc, news := news, dels := dels, ret := ret }

def hasRead (b : BufA) (n : Nat) : BufA :=
  if n ≥ usub b.w b.r then { b with r := 0, w := 0 } else { b with r := uadd b.r n }

def hasReadAll (b : BufA) : BufA := { b with r := 0, w := 0 }

/-- `fetch`: the bytes copied out are `mem[r .. r + min k (w - r))` = `readable.take k`, copied once -/
def fetch (b : BufA) (n : Nat) : BufA × ByteArray × List Access :=
  let k := if n > b.readableSize then b.readableSize else n
  let out := b.mem.extract b.r (b.r + min k (b.w - b.r))
  let a : List Access := [⟨b.size, b.r, k⟩]
  (b.hasRead k, out, a)

def cloneInto (al : Alloc) (dst o : BufA) : ResA :=
  if o.readableSize > 0 then
    if al o.readableSize then
      { buf := { mem := o.readable, r := 0, w := o.readableSize },
        acc := [⟨o.size, o.r, o.readableSize⟩, ⟨o.readableSize, 0, o.readableSize⟩],
        news := 1, dels := dst.owns }
    else { buf := dst, st := .badAlloc, news := 1 }
  else { buf := { mem := ByteArray.empty, r := 0, w := 0 }, dels := dst.owns }

def shrink (al : Alloc) (b : BufA) : ResA := cloneInto al b b

def construct (al : Alloc) (old : BufA) (cap : Nat) : ResA :=
  if cap = 0 then { buf := empty, dels := old.owns }
  else if al cap then { buf := mk' cap, news := 1, dels := old.owns }
  else { buf := old, st := .badAlloc, news := 1 }

def appendSelfRaw (al : Alloc) (b : BufA) (off k : Nat) : ResA × Hazard :=
  let src := uadd b.r off
  match b.ensure al k with
  | ⟨eb, st, acc, news, dels, ret⟩ =>
    if st ≠ .ok then ({ buf := eb, st := st, acc := acc, news := news, dels := dels, ret := ret }, .none)
    else if news ≠ 0 then ({ buf := eb, st := st, acc := acc, news := news, dels := dels, ret := ret }, .dangling)
    else
      let data := eb.mem.extract src (src + k)
      let dst := eb.w
      let hz := if k ≠ 0 ∧ src < dst + k ∧ dst < src + k then Hazard.overlap else Hazard.none
      let sz := eb.size
      match eb.userWrite data with
      | (b2, a2) =>
        ({ buf := b2.hasWritten k, st := st, acc := acc ++ [⟨sz, src, k⟩] ++ a2, news := news, dels := dels, ret := k }, hz)

def fetchIntoRaw (b : BufA) (dst n : Nat) : ResA × ByteArray × Hazard :=
  let k := if n > b.readableSize then b.readableSize else n
  let data := b.mem.extract b.r (b.r + min k (b.w - b.r))
  let hz := if k ≠ 0 ∧ b.r < dst + k ∧ dst < b.r + k then Hazard.overlap else Hazard.none
  let sz := b.size
  match b with
  | ⟨mem, r, w⟩ =>
    ({ buf := ({ mem := pokeA mem dst data, r := r, w := w } : BufA).hasRead k,
       acc := [⟨sz, r, k⟩, ⟨sz, dst, k⟩], ret := k }, data, hz)

end BufA

def ResA.toRes (x : ResA) : Res :=
  { buf := x.buf.toBuf, st := x.st, acc := x.acc, news := x.news, dels := x.dels, ret := x.ret }

/-! ## the operation language with `ByteArray` payloads -/

inductive OpA where
  | construct (i : Nat) (cap : Nat)
  | defaultCtor (i : Nat)
  | append (i : Nat) (d : ByteArray)
  | appendSelf (i : Nat) (off k : Nat)
  | appendFrom (i j : Nat) (off k : Nat)
  | fetchSelf (i : Nat) (n : Nat)
  | reserve (i : Nat) (n : Nat)
  | rwc (i : Nat) (n : Nat) (d : ByteArray)
  | over (i : Nat) (n : Nat)
  | fetch (i : Nat) (n : Nat)
  | consume (i : Nat) (n : Nat)
  | consumeAll (i : Nat)
  | shrink (i : Nat)
  | copyAssign (dst src : Nat)
  | moveAssign (dst src : Nat)
  | copyCtor (dst src : Nat)
  | moveCtor (dst src : Nat)
  | swap (i j : Nat)
  | reset (i : Nat)

def OpA.toOp : OpA → Op
  | .construct i cap => .construct i cap
  | .defaultCtor i => .defaultCtor i
  | .append i d => .append i d.data.toList
  | .appendSelf i off k => .appendSelf i off k
  | .appendFrom i j off k => .appendFrom i j off k
  | .fetchSelf i n => .fetchSelf i n
  | .reserve i n => .reserve i n
  | .rwc i n d => .rwc i n d.data.toList
  | .over i n => .over i n
  | .fetch i n => .fetch i n
  | .consume i n => .consume i n
  | .consumeAll i => .consumeAll i
  | .shrink i => .shrink i
  | .copyAssign d s => .copyAssign d s
  | .moveAssign d s => .moveAssign d s
  | .copyCtor d s => .copyCtor d s
  | .moveCtor d s => .moveCtor d s
  | .swap i j => .swap i j
  | .reset i => .reset i

structure OutA where
  fetched  : ByteArray := ByteArray.empty
  ret      : Nat := 0
  accesses : List Access := []
  st       : Status := .ok
  news     : Nat := 0
  dels     : Nat := 0

def OutA.toOut (o : OutA) : Out :=
  { fetched := o.fetched.data.toList, ret := o.ret, accesses := o.accesses, st := o.st, news := o.news, dels := o.dels }

def OutA.ofRes (x : ResA) : OutA := { ret := x.ret, accesses := x.acc, st := x.st, news := x.news, dels := x.dels }

abbrev StoreA := Array BufA

def StoreA.get (s : StoreA) (i : Nat) : BufA := s.getD i BufA.empty
def StoreA.put (s : StoreA) (i : Nat) (b : BufA) : StoreA := s.setIfInBounds i b
/-- take the buffer of slot `i` out of the store (the slot holds the empty buffer meanwhile), so that
the buffer has a single owner while an operation works on it -/
def StoreA.take (s : StoreA) (i : Nat) : BufA × StoreA := (s.getD i BufA.empty, s.setIfInBounds i BufA.empty)
def StoreA.toStore (s : StoreA) : Store := s.toList.map BufA.toBuf

def stepA (al : Alloc) (s : StoreA) : OpA → StoreA × OutA
  | .construct i cap =>
      let x := BufA.construct al (s.get i) cap
      (s.put i x.buf, OutA.ofRes x)
  | .defaultCtor i =>
      let x := BufA.construct al (s.get i) kInitialSize
      (s.put i x.buf, OutA.ofRes x)
  | .append i d =>
      match s.take i with
      | (b, s1) =>
        let x := b.append al d
        (s1.put i x.buf, OutA.ofRes x)
  | .appendSelf i off k =>
      match s.take i with
      | (b, s1) =>
        if off + k ≤ b.readableSize then
          match b.ensure al k with
          | ⟨eb, st, acc, news, dels, ret⟩ =>
            if st = .ok then
              let x := (eb.appendSelfRaw al off k).1
              (s1.put i x.buf, { OutA.ofRes x with accesses := acc ++ x.acc, news := news + x.news, dels := dels + x.dels })
            else (s1.put i eb, { ret := ret, accesses := acc, st := st, news := news, dels := dels })
        else (s1.put i b, {})
  | .appendFrom i j off k =>
      let o := s.get j
      if i = j ∨ off + k > o.readableSize then (s, {}) else
      let d := o.mem.extract (o.r + off) (o.r + off + min k (o.w - o.r - off))
      let a : Access := ⟨o.size, uadd o.r off, k⟩
      match s.take i with
      | (b, s1) =>
        let x := b.append al d
        (s1.put i x.buf, { OutA.ofRes x with accesses := if x.st = .ok then a :: x.acc else x.acc })
  | .fetchSelf i n =>
      match s.take i with
      | (b, s1) =>
        let k := if n > b.readableSize then b.readableSize else n
        match b.ensure al k with
        | ⟨eb, st, acc, news, dels, ret⟩ =>
          if st = .ok then
            match eb.fetchIntoRaw eb.w n with
            | (x, out, _) =>
              (s1.put i x.buf, { fetched := out, ret := out.size, accesses := acc ++ x.acc, news := news, dels := dels })
          else (s1.put i eb, { ret := ret, accesses := acc, st := st, news := news, dels := dels })
  | .reserve i n =>
      match s.take i with
      | (b, s1) =>
        let x := b.ensure al n
        (s1.put i x.buf, { OutA.ofRes x with ret := if x.st = .ok then 1 else 0 })
  | .rwc i n d =>
      match s.take i with
      | (b, s1) =>
        let x := b.reserveWriteCommit al n d
        (s1.put i x.buf, OutA.ofRes x)
  | .over i n =>
      match s.take i with
      | (b, s1) =>
        let wr := b.writable
        match b.userWrite (zeros wr) with
        | (b1, a) => (s1.put i (b1.hasWritten (max wr n)), { accesses := a })
  | .fetch i n =>
      match (s.get i).fetch n with
      | (b, out, a) => (s.put i b, { fetched := out, ret := out.size, accesses := a })
  | .consume i n => (s.put i ((s.get i).hasRead n), {})
  | .consumeAll i => (s.put i (s.get i).hasReadAll, {})
  | .shrink i =>
      let x := (s.get i).shrink al
      (s.put i x.buf, OutA.ofRes x)
  | .copyAssign dst src =>
      if dst = src then (s, {}) else
      let x := BufA.cloneInto al (s.get dst) (s.get src)
      (s.put dst x.buf, OutA.ofRes x)
  | .moveAssign dst src =>
      if dst = src then (s, {}) else
      ((s.put dst (s.get src)).put src BufA.empty, { dels := (s.get dst).owns })
  | .copyCtor dst src =>
      if dst = src then (s, {}) else
      let x := BufA.cloneInto al (s.get dst) (s.get src)
      (s.put dst x.buf, OutA.ofRes x)
  | .moveCtor dst src =>
      if dst = src then (s, {}) else
      ((s.put dst (s.get src)).put src BufA.empty, { dels := (s.get dst).owns })
  | .swap i j =>
      let bi := s.get i
      let bj := s.get j
      ((s.put i bj).put j bi, {})
  | .reset i => (s.put i BufA.empty, { dels := (s.get i).owns })

def initA : StoreA := Array.replicate nSlots (BufA.mk' kInitialSize)

/-! ## runs (tail recursive: 10^5 operations and more in one call) -/

def runA.go (s : StoreA) : List (Alloc × OpA) → Array OutA → StoreA × Array OutA
  | [], acc => (s, acc)
  | (al, op) :: ops, acc =>
      match stepA al s op with
      | (s1, o) => runA.go s1 ops (acc.push o)

/-- `run` over the array store -/
def runA (s : StoreA) (ops : List (Alloc × OpA)) : StoreA × List OutA :=
  match runA.go s ops #[] with
  | (s1, os) => (s1, os.toList)

def runUntilThrowA.go (s : StoreA) : List (Alloc × OpA) → Array OutA → StoreA × Array OutA
  | [], acc => (s, acc)
  | (al, op) :: ops, acc =>
      match stepA al s op with
      | (s1, o) =>
        if o.st = .badAlloc then (s1, acc.push o)
        else runUntilThrowA.go s1 ops (acc.push o)

/-- `runUntilThrow` over the array store -/
def runUntilThrowA (s : StoreA) (ops : List (Alloc × OpA)) : StoreA × List OutA :=
  match runUntilThrowA.go s ops #[] with
  | (s1, os) => (s1, os.toList)

/-- `runScript` over the array store -/
def runScriptA (s : StoreA) (body cleanup : List (Alloc × OpA)) : StoreA × List OutA :=
  match runUntilThrowA s body with
  | (s1, os) =>
    match runA s1 cleanup with
    | (s2, os2) => (s2, os ++ os2)

/-- the list-model operations of a script of array operations -/
def opsToList (ops : List (Alloc × OpA)) : List (Alloc × Op) := ops.map (fun p => (p.1, p.2.toOp))

/-! ## synthetic payloads and digests -/

def patternA.go (seed : Nat) : Nat → Nat → ByteArray → ByteArray
  | 0, _, acc => acc
  | k + 1, idx, acc => patternA.go seed k (idx + 1) (acc.push (patByte seed idx))

/-- the payload `%n:seed` -/
def patternA (seed n : Nat) : ByteArray := patternA.go seed n 0 (ByteArray.emptyWithCapacity n)

/-- fold `f` over the `k` bytes of `a` from index `i` on, reading them in place -/
@[specialize] def foldBytes {β : Type} (f : β → UInt8 → β) (a : ByteArray) : Nat → Nat → β → β
  | 0, _, h => h
  | k + 1, i, h => foldBytes f a k (i + 1) (f h (a.get! i))

/-- FNV-1a of the bytes `[lo, hi)` of `a` (clamped to the array), without copying them -/
def fnvA (a : ByteArray) (lo hi : Nat) : UInt64 := foldBytes fnvStep a (min hi a.size - lo) lo 14695981039346656037

/-- digest of the readable window -/
def BufA.digest (a : BufA) : UInt64 := fnvA a.mem a.r a.w


/-! ## entering the ByteArray model from the list model (the driver's `fast` line) -/

/-- an operation of the list model as one of the ByteArray model -/
def opAofOp : Op → OpA
  | .construct i cap => .construct i cap
  | .defaultCtor i => .defaultCtor i
  | .append i d => .append i ⟨d.toArray⟩
  | .appendSelf i off k => .appendSelf i off k
  | .appendFrom i j off k => .appendFrom i j off k
  | .fetchSelf i n => .fetchSelf i n
  | .reserve i n => .reserve i n
  | .rwc i n d => .rwc i n ⟨d.toArray⟩
  | .over i n => .over i n
  | .fetch i n => .fetch i n
  | .consume i n => .consume i n
  | .consumeAll i => .consumeAll i
  | .shrink i => .shrink i
  | .copyAssign d s => .copyAssign d s
  | .moveAssign d s => .moveAssign d s
  | .copyCtor d s => .copyCtor d s
  | .moveCtor d s => .moveCtor d s
  | .swap i j => .swap i j
  | .reset i => .reset i

/-- the ByteArray representation of a list store -/
def storeAofStore (s : Store) : StoreA :=
  (s.map fun b => ({ mem := ⟨b.mem.toArray⟩, r := b.r, w := b.w } : BufA)).toArray

end Tbox.C07
