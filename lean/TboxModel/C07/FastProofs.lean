/- C07 — the `ByteArray` buffer (`Fast.lean`) computes exactly what the list model computes.
No hypothesis on the state is needed anywhere: every `BufA` function commutes with `toBuf`. -/
import TboxModel.C07.Fast
namespace Tbox.C07
open Buf (Hazard)
set_option linter.unusedSimpArgs false

/-! ### blocks -/

theorem size_eq_length (a : ByteArray) : a.size = a.data.toList.length := rfl
theorem length_toList (a : ByteArray) : a.data.toList.length = a.size := rfl

theorem zeros_toList (n : Nat) : (zeros n).data.toList = List.replicate n 0 := by
  simp [zeros]

theorem extract_toList (a : ByteArray) (lo hi : Nat) :
    (a.extract lo hi).data.toList = (a.data.toList.drop lo).take (hi - lo) := by
  simp [ByteArray.data_extract, Array.toList_extract, List.extract]

theorem extract_size (a : ByteArray) (lo hi : Nat) :
    (a.extract lo hi).size = ((a.data.toList.drop lo).take (hi - lo)).length := by
  rw [size_eq_length, extract_toList]

theorem empty_toList : ByteArray.empty.data.toList = [] := rfl

theorem pokeA_toList (mem : ByteArray) (off : Nat) (d : ByteArray) :
    (pokeA mem off d).data.toList = Buf.poke mem.data.toList off d.data.toList := by
  simp only [pokeA, ByteArray.copySlice, Buf.poke, Array.toList_append, Array.toList_extract, List.extract,
    List.drop_zero, Nat.sub_zero, Nat.zero_add]
  rw [List.take_of_length_le (l := d.data.toList) (by simp),
    List.take_of_length_le (l := List.drop _ mem.data.toList) (by simp)]
  simp

/-- a failing `ensureWritableSize` hands back the buffer it was given -/
theorem Buf.ensure_fail_buf (al : Alloc) (b : Buf) (n : Nat) (h : (b.ensure al n).st ≠ .ok) :
    (b.ensure al n).buf = b := by
  simp only [Buf.ensure, Buf.compact, Buf.regrow] at h ⊢
  repeat' split
  all_goals first | rfl | simp_all

/-! ### the buffer functions -/
namespace BufA

theorem toBuf_mk (m : ByteArray) (r w : Nat) : (BufA.mk m r w).toBuf = ⟨m.data.toList, r, w⟩ := rfl
theorem toBuf_size (a : BufA) : a.toBuf.size = a.size := rfl
theorem toBuf_writable (a : BufA) : a.toBuf.writable = a.writable := rfl
theorem toBuf_readableSize (a : BufA) : a.toBuf.readableSize = a.readableSize := rfl
theorem toBuf_r (a : BufA) : a.toBuf.r = a.r := rfl
theorem toBuf_w (a : BufA) : a.toBuf.w = a.w := rfl
theorem toBuf_mem (a : BufA) : a.toBuf.mem = a.mem.data.toList := rfl
theorem toBuf_mem_nil (a : BufA) : (a.toBuf.mem = []) = (a.mem.size = 0) := by
  rw [toBuf_mem, size_eq_length]; exact propext List.length_eq_zero_iff.symm
theorem toBuf_owns (a : BufA) : a.toBuf.owns = a.owns := by
  unfold Buf.owns owns; simp only [toBuf_mem_nil]
theorem toBuf_readable (a : BufA) : a.toBuf.readable = a.readable.data.toList := by
  unfold readable Buf.readable; rw [extract_toList]; rfl
theorem toBuf_empty : empty.toBuf = Buf.empty := rfl
theorem toBuf_mk' (cap : Nat) : (mk' cap).toBuf = Buf.mk' cap := by
  simp only [mk', Buf.mk', toBuf_mk, zeros_toList]

theorem toList_eq_nil (m : ByteArray) : (m.data.toList = []) = (m.size = 0) := by
  rw [size_eq_length]; exact propext List.length_eq_zero_iff.symm
theorem toRes_mk (b : BufA) (st : Status) (acc : List Access) (n d r : Nat) :
    (ResA.mk b st acc n d r).toRes = ⟨b.toBuf, st, acc, n, d, r⟩ := rfl
theorem toRes_ite (c : Prop) [Decidable c] (x y : ResA) :
    (if c then x else y).toRes = if c then x.toRes else y.toRes := by split <;> rfl

theorem toBuf_ite (c : Prop) [Decidable c] (x y : BufA) :
    (if c then x else y).toBuf = if c then x.toBuf else y.toBuf := by split <;> rfl

/-- closes a goal whose sides differ only in `Decidable` instances -/
macro "buf_close" : tactic => `(tactic| first | done | with_reducible rfl | (congr 1; done) | (congr 2; done) | (congr 3; done) | (congr 4; done) | (congr 5; done) | (congr 6; done))

/-- phase 1: every observation of `a.toBuf` becomes the observation of `a`;
phase 2: the remaining `toBuf` of constructed buffers are pushed to the blocks -/
macro "buf_norm" : tactic => `(tactic| (
  simp only [toBuf_readable, toBuf_size, toBuf_owns, toBuf_writable, toBuf_readableSize, toBuf_r, toBuf_w,
    toBuf_mem_nil, toRes_ite, toBuf_ite]
  try simp only [toBuf_mk, toRes_mk, toBuf_mem, pokeA_toList, zeros_toList, extract_toList, empty_toList,
    length_toList, toList_eq_nil,
    BufA.size, BufA.owns, BufA.readable, BufA.writable, BufA.readableSize]))

theorem regrow_eq (al : Alloc) (a : BufA) (n : Nat) : (a.regrow al n).toRes = a.toBuf.regrow al n := by
  obtain ⟨m, r, w⟩ := a
  simp only [regrow, Buf.regrow]
  buf_norm
  buf_close

theorem compact_eq (a : BufA) : a.compact.toRes = a.toBuf.compact := by
  obtain ⟨m, r, w⟩ := a
  simp only [compact, Buf.compact]
  buf_norm

theorem ensure_eq (al : Alloc) (a : BufA) (n : Nat) : (a.ensure al n).toRes = a.toBuf.ensure al n := by
  simp only [ensure, Buf.ensure, toRes_ite, compact_eq, regrow_eq, toBuf_writable, toBuf_r, toBuf_w]
  rfl

theorem hasWritten_eq (a : BufA) (n : Nat) : (a.hasWritten n).toBuf = a.toBuf.hasWritten n := by
  obtain ⟨m, r, w⟩ := a
  simp only [hasWritten, Buf.hasWritten]
  buf_norm
  buf_close

theorem userWrite_eq (a : BufA) (d : ByteArray) :
    ((a.userWrite d).1.toBuf, (a.userWrite d).2) = a.toBuf.userWrite d.data.toList := by
  obtain ⟨m, r, w⟩ := a
  simp only [userWrite, Buf.userWrite]
  buf_norm

theorem hasRead_eq (a : BufA) (n : Nat) : (a.hasRead n).toBuf = a.toBuf.hasRead n := by
  obtain ⟨m, r, w⟩ := a
  simp only [hasRead, Buf.hasRead]
  buf_norm
  buf_close

theorem hasReadAll_eq (a : BufA) : a.hasReadAll.toBuf = a.toBuf.hasReadAll := rfl

/-- `buf_norm`, then the index updates are pushed through `toBuf` -/
macro "buf_norm2" : tactic => `(tactic| (
  buf_norm
  try simp only [hasWritten_eq, hasRead_eq, hasReadAll_eq, toBuf_mk, toRes_mk, pokeA_toList, zeros_toList,
    extract_toList, empty_toList, length_toList]))

theorem append_eq (al : Alloc) (a : BufA) (d : ByteArray) :
    (a.append al d).toRes = a.toBuf.append al d.data.toList := by
  have he := ensure_eq al a d.size
  have hf := Buf.ensure_fail_buf al a.toBuf d.size
  simp only [append, Buf.append, length_toList]
  rw [← he] at hf ⊢
  generalize a.ensure al d.size = e at *
  obtain ⟨⟨m, r, w⟩, st, acc, news, dels, ret⟩ := e
  simp only [toRes_mk] at hf ⊢
  by_cases h : st = .ok
  · simp only [h, if_true, userWrite, Buf.userWrite]
    buf_norm2
  · simp only [h, if_false]
    rw [toRes_mk, hf h]

theorem reserveWriteCommit_eq (al : Alloc) (a : BufA) (n : Nat) (d : ByteArray) :
    (a.reserveWriteCommit al n d).toRes = a.toBuf.reserveWriteCommit al n d.data.toList := by
  have he := ensure_eq al a n
  have hf := Buf.ensure_fail_buf al a.toBuf n
  simp only [reserveWriteCommit, Buf.reserveWriteCommit, length_toList]
  rw [← he] at hf ⊢
  generalize a.ensure al n = e at *
  obtain ⟨⟨m, r, w⟩, st, acc, news, dels, ret⟩ := e
  simp only [toRes_mk] at hf ⊢
  by_cases h : st = .ok
  · simp only [h, if_true, userWrite, Buf.userWrite]
    buf_norm2
  · simp only [h, if_false]
    rw [toRes_mk, hf h]

theorem fetch_eq (a : BufA) (n : Nat) :
    ((a.fetch n).1.toBuf, (a.fetch n).2.1.data.toList, (a.fetch n).2.2) = a.toBuf.fetch n := by
  obtain ⟨m, r, w⟩ := a
  simp only [fetch, Buf.fetch]
  buf_norm2
  simp only [Nat.add_sub_cancel_left, List.take_take]
  buf_close

theorem cloneInto_eq (al : Alloc) (dst o : BufA) :
    (cloneInto al dst o).toRes = Buf.cloneInto al dst.toBuf o.toBuf := by
  obtain ⟨m, r, w⟩ := o
  simp only [cloneInto, Buf.cloneInto]
  buf_norm2
  buf_close

theorem shrink_eq (al : Alloc) (a : BufA) : (a.shrink al).toRes = a.toBuf.shrink al := cloneInto_eq al a a

theorem construct_eq (al : Alloc) (old : BufA) (cap : Nat) :
    (construct al old cap).toRes = Buf.construct al old.toBuf cap := by
  simp only [construct, Buf.construct, toRes_ite, toRes_mk, toBuf_empty, toBuf_mk', toBuf_owns]

theorem appendSelfRaw_eq (al : Alloc) (a : BufA) (off k : Nat) :
    ((a.appendSelfRaw al off k).1.toRes, (a.appendSelfRaw al off k).2) = a.toBuf.appendSelfRaw al off k := by
  have he := ensure_eq al a k
  have hf := Buf.ensure_fail_buf al a.toBuf k
  simp only [appendSelfRaw, Buf.appendSelfRaw, toBuf_r]
  rw [← he] at hf ⊢
  generalize a.ensure al k = e at *
  obtain ⟨⟨m, r, w⟩, st, acc, news, dels, ret⟩ := e
  simp only [toRes_mk] at hf ⊢
  by_cases h : st = .ok
  · by_cases h2 : news = 0
    · simp only [h, h2, ne_eq, not_true_eq_false, if_false, userWrite, Buf.userWrite]
      buf_norm2
      simp only [extract_size, Nat.add_sub_cancel_left]
      buf_close
    · simp only [h, h2, ne_eq, not_true_eq_false, not_false_eq_true, if_false, if_true, toRes_mk]
  · simp only [h, ne_eq, not_false_eq_true, if_true]
    rw [toRes_mk, hf h]

theorem fetchIntoRaw_eq (a : BufA) (dst n : Nat) :
    ((a.fetchIntoRaw dst n).1.toRes, (a.fetchIntoRaw dst n).2.1.data.toList, (a.fetchIntoRaw dst n).2.2) =
      a.toBuf.fetchIntoRaw dst n := by
  obtain ⟨m, r, w⟩ := a
  simp only [fetchIntoRaw, Buf.fetchIntoRaw]
  buf_norm2
  simp only [Nat.add_sub_cancel_left, List.take_take]
  buf_close

end BufA

/-! ### the store -/
namespace StoreA

theorem toStore_get (s : StoreA) (i : Nat) : s.toStore.get i = (s.get i).toBuf := by
  simp only [toStore, Store.get, get, List.getD_eq_getElem?_getD, List.getElem?_map, Array.getElem?_toList,
    Array.getD_eq_getD_getElem?]
  cases s[i]? <;> rfl

theorem toStore_put (s : StoreA) (i : Nat) (b : BufA) : (s.put i b).toStore = s.toStore.put i b.toBuf := by
  simp only [toStore, Store.put, put, Array.toList_setIfInBounds, List.map_set]

theorem take_eq (s : StoreA) (i : Nat) : s.take i = (s.get i, s.put i BufA.empty) := rfl

theorem put_put (s : StoreA) (i : Nat) (a b : BufA) : (s.put i a).put i b = s.put i b :=
  Array.setIfInBounds_setIfInBounds a

theorem put_get (s : StoreA) (i : Nat) : s.put i (s.get i) = s := by
  apply Array.ext'
  simp only [put, get, Array.toList_setIfInBounds, Array.getD_eq_getD_getElem?, ← Array.getElem?_toList]
  generalize s.toList = l
  apply List.ext_getElem?
  intro j
  rw [List.getElem?_set]
  split
  · next h => subst h; split <;> simp_all
  · rfl

end StoreA

theorem OutA.toOut_ofRes (x : ResA) : (OutA.ofRes x).toOut = Out.ofRes x.toRes := rfl
theorem ResA.toRes_buf (x : ResA) : x.toRes.buf = x.buf.toBuf := rfl
theorem ResA.toRes_st (x : ResA) : x.toRes.st = x.st := rfl
theorem ResA.toRes_acc (x : ResA) : x.toRes.acc = x.acc := rfl
theorem ResA.toRes_news (x : ResA) : x.toRes.news = x.news := rfl
theorem ResA.toRes_dels (x : ResA) : x.toRes.dels = x.dels := rfl
theorem ResA.toRes_ret (x : ResA) : x.toRes.ret = x.ret := rfl

/-- the source of `appendFrom`: `k` bytes at offset `off` of the readable window, cut out of the block directly -/
theorem BufA.slice_readable (o : BufA) (off k : Nat) :
    (o.mem.extract (o.r + off) (o.r + off + min k (o.w - o.r - off))).data.toList =
      (o.toBuf.readable.drop off).take k := by
  simp only [extract_toList, Buf.readable, BufA.toBuf_mem, BufA.toBuf_r, BufA.toBuf_w, Nat.add_sub_cancel_left,
    List.drop_take, List.take_take, List.drop_drop]

theorem OutA.toOut_appendFrom (x : ResA) (a : Access) :
    ({ OutA.ofRes x with accesses := if x.st = .ok then a :: x.acc else x.acc } : OutA).toOut =
      { Out.ofRes x.toRes with accesses := if x.toRes.st = .ok then a :: x.toRes.acc else x.toRes.acc } := by
  obtain ⟨xb, st, acc, news, dels, ret⟩ := x
  rfl

open StoreA BufA in
theorem stepA_refines (al : Alloc) (s : StoreA) (op : OpA) :
    ((stepA al s op).1.toStore, (stepA al s op).2.toOut) = step al s.toStore op.toOp := by
  cases op with
  | construct i cap =>
      simp only [stepA, step, OpA.toOp, toStore_get, toStore_put, ← construct_eq, OutA.toOut_ofRes, ResA.toRes_buf]
  | defaultCtor i =>
      simp only [stepA, step, OpA.toOp, toStore_get, toStore_put, ← construct_eq, OutA.toOut_ofRes, ResA.toRes_buf]
  | append i d =>
      simp only [stepA, step, OpA.toOp, take_eq, put_put, toStore_get, toStore_put, ← append_eq, OutA.toOut_ofRes,
        ResA.toRes_buf]
  | reserve i n =>
      simp only [stepA, step, OpA.toOp, take_eq, put_put, toStore_get, toStore_put, ← ensure_eq, OutA.toOut_ofRes,
        ResA.toRes_buf, ResA.toRes_st]
      rfl
  | rwc i n d =>
      simp only [stepA, step, OpA.toOp, take_eq, put_put, toStore_get, toStore_put, ← reserveWriteCommit_eq,
        OutA.toOut_ofRes, ResA.toRes_buf]
  | shrink i =>
      simp only [stepA, step, OpA.toOp, toStore_get, toStore_put, ← shrink_eq, OutA.toOut_ofRes, ResA.toRes_buf]
  | consume i n =>
      simp only [stepA, step, OpA.toOp, toStore_get, toStore_put, ← hasRead_eq]; rfl
  | consumeAll i =>
      simp only [stepA, step, OpA.toOp, toStore_get, toStore_put, ← hasReadAll_eq]; rfl
  | reset i =>
      simp only [stepA, step, OpA.toOp, toStore_get, toStore_put, toBuf_owns, toBuf_empty]; rfl
  | swap i j =>
      simp only [stepA, step, OpA.toOp, toStore_get, toStore_put]; rfl
  | copyAssign dst src =>
      by_cases h : dst = src
      · simp only [stepA, step, OpA.toOp, h, if_true]; rfl
      · simp only [stepA, step, OpA.toOp, h, if_false, toStore_get, toStore_put, ← cloneInto_eq, OutA.toOut_ofRes,
          ResA.toRes_buf]
  | copyCtor dst src =>
      by_cases h : dst = src
      · simp only [stepA, step, OpA.toOp, h, if_true]; rfl
      · simp only [stepA, step, OpA.toOp, h, if_false, toStore_get, toStore_put, ← cloneInto_eq, OutA.toOut_ofRes,
          ResA.toRes_buf]
  | moveAssign dst src =>
      simp only [stepA, step, OpA.toOp, toStore_get, toStore_put, toBuf_owns, ← toBuf_empty]
      split <;> simp only [toStore_put] <;> rfl
  | moveCtor dst src =>
      simp only [stepA, step, OpA.toOp, toStore_get, toStore_put, toBuf_owns, ← toBuf_empty]
      split <;> simp only [toStore_put] <;> rfl
  | fetch i n =>
      have h := fetch_eq (s.get i) n
      simp only [stepA, step, OpA.toOp, toStore_get, toStore_put, ← h, length_toList]
      rfl
  | over i n =>
      have h := userWrite_eq (s.get i) (zeros (s.get i).writable)
      simp only [stepA, step, OpA.toOp, take_eq, put_put, toStore_get, toStore_put, toBuf_writable, ← zeros_toList, ← h,
        ← hasWritten_eq]
      rfl
  | appendSelf i off k =>
      have he := ensure_eq al (s.get i) k
      have hf := Buf.ensure_fail_buf al (s.get i).toBuf k
      simp only [stepA, step, OpA.toOp, take_eq, put_put, toStore_get, toBuf_readableSize]
      by_cases h1 : off + k ≤ (s.get i).readableSize
      · simp only [h1, if_true]
        rw [← he] at hf ⊢
        generalize (s.get i).ensure al k = e at *
        obtain ⟨eb, st, acc, news, dels, ret⟩ := e
        simp only [BufA.toRes_mk] at hf ⊢
        by_cases h : st = .ok
        · have ha := appendSelfRaw_eq al eb off k
          simp only [h, if_true, ← ha, toStore_put, OutA.toOut_ofRes]
          rfl
        · simp only [h, if_false, toStore_put, hf h]
          rw [← toStore_put, put_get]
          rfl
      · simp only [h1, if_false, put_get]
        rfl
  | fetchSelf i n =>
      simp only [stepA, step, OpA.toOp, take_eq, put_put, toStore_get, toBuf_readableSize]
      by_cases hn : n > (s.get i).readableSize
      · have he := ensure_eq al (s.get i) (s.get i).readableSize
        have hf := Buf.ensure_fail_buf al (s.get i).toBuf (s.get i).readableSize
        simp only [hn, if_true]
        rw [← he] at hf ⊢
        generalize (s.get i).ensure al _ = e at *
        obtain ⟨eb, st, acc, news, dels, ret⟩ := e
        simp only [BufA.toRes_mk] at hf ⊢
        by_cases h : st = .ok
        · have ha := fetchIntoRaw_eq eb eb.w n
          simp only [h, if_true, toBuf_w, ← ha, toStore_put, length_toList]
          rfl
        · simp only [h, if_false, toStore_put, hf h]
          rw [← toStore_put, put_get]
          rfl
      · have he := ensure_eq al (s.get i) n
        have hf := Buf.ensure_fail_buf al (s.get i).toBuf n
        simp only [hn, if_false]
        rw [← he] at hf ⊢
        generalize (s.get i).ensure al _ = e at *
        obtain ⟨eb, st, acc, news, dels, ret⟩ := e
        simp only [BufA.toRes_mk] at hf ⊢
        by_cases h : st = .ok
        · have ha := fetchIntoRaw_eq eb eb.w n
          simp only [h, if_true, toBuf_w, ← ha, toStore_put, length_toList]
          rfl
        · simp only [h, if_false, toStore_put, hf h]
          rw [← toStore_put, put_get]
          rfl
  | appendFrom i j off k =>
      simp only [stepA, step, OpA.toOp, take_eq, put_put, toStore_get, toBuf_readableSize]
      by_cases h1 : i = j ∨ off + k > (s.get j).readableSize
      · simp only [h1, if_true]; rfl
      · simp only [h1, if_false, ← slice_readable, ← append_eq, toStore_put, ResA.toRes_buf, toBuf_size, toBuf_r]
        exact Prod.ext rfl (OutA.toOut_appendFrom _ _)

theorem stepA_store (al : Alloc) (s : StoreA) (op : OpA) :
    (stepA al s op).1.toStore = (step al s.toStore op.toOp).1 := by rw [← stepA_refines]
theorem stepA_out (al : Alloc) (s : StoreA) (op : OpA) :
    (stepA al s op).2.toOut = (step al s.toStore op.toOp).2 := by rw [← stepA_refines]
theorem stepA_st (al : Alloc) (s : StoreA) (op : OpA) :
    (stepA al s op).2.st = (step al s.toStore op.toOp).2.st := by rw [← stepA_refines]; rfl

/-! ### runs -/

theorem runA_go_eq (s : StoreA) (ops : List (Alloc × OpA)) (acc : Array OutA) :
    (runA.go s ops acc).1.toStore = (run s.toStore (opsToList ops)).1 ∧
    (runA.go s ops acc).2.toList.map OutA.toOut =
      acc.toList.map OutA.toOut ++ (run s.toStore (opsToList ops)).2 := by
  induction ops generalizing s acc with
  | nil => simp [runA.go, run, opsToList]
  | cons p ops ih =>
      obtain ⟨al, op⟩ := p
      have h := ih (stepA al s op).1 (acc.push (stepA al s op).2)
      rw [stepA_store] at h
      simp only [runA.go, run, opsToList, List.map_cons] at h ⊢
      refine ⟨h.1, ?_⟩
      rw [h.2, ← stepA_out]
      simp

theorem runA_refines (s : StoreA) (ops : List (Alloc × OpA)) :
    ((runA s ops).1.toStore, (runA s ops).2.map OutA.toOut) = run s.toStore (opsToList ops) := by
  have h := runA_go_eq s ops #[]
  simp only [runA]
  exact Prod.ext h.1 (by simpa using h.2)

theorem runUntilThrowA_go_eq (s : StoreA) (ops : List (Alloc × OpA)) (acc : Array OutA) :
    (runUntilThrowA.go s ops acc).1.toStore = (runUntilThrow s.toStore (opsToList ops)).1 ∧
    (runUntilThrowA.go s ops acc).2.toList.map OutA.toOut =
      acc.toList.map OutA.toOut ++ (runUntilThrow s.toStore (opsToList ops)).2 := by
  induction ops generalizing s acc with
  | nil => simp [runUntilThrowA.go, runUntilThrow, opsToList]
  | cons p ops ih =>
      obtain ⟨al, op⟩ := p
      have h := ih (stepA al s op).1 (acc.push (stepA al s op).2)
      rw [stepA_store] at h
      simp only [runUntilThrowA.go, runUntilThrow, opsToList, List.map_cons, stepA_st] at h ⊢
      by_cases hb : (step al s.toStore op.toOp).2.st = .badAlloc
      · simp only [hb, if_true]
        refine ⟨stepA_store al s op, ?_⟩
        rw [← stepA_out]
        simp
      · simp only [hb, if_false]
        refine ⟨h.1, ?_⟩
        rw [h.2, ← stepA_out]
        simp

theorem runUntilThrowA_refines (s : StoreA) (ops : List (Alloc × OpA)) :
    ((runUntilThrowA s ops).1.toStore, (runUntilThrowA s ops).2.map OutA.toOut) =
      runUntilThrow s.toStore (opsToList ops) := by
  have h := runUntilThrowA_go_eq s ops #[]
  simp only [runUntilThrowA]
  exact Prod.ext h.1 (by simpa using h.2)

theorem runScriptA_refines (s : StoreA) (body cleanup : List (Alloc × OpA)) :
    ((runScriptA s body cleanup).1.toStore, (runScriptA s body cleanup).2.map OutA.toOut) =
      runScript s.toStore (opsToList body) (opsToList cleanup) := by
  have h1 := runUntilThrowA_refines s body
  have h2 := runA_refines (runUntilThrowA s body).1 cleanup
  simp only [runScriptA, runScript, ← h1, ← h2, List.map_append]

theorem initA_toStore : initA.toStore = init := by
  simp only [initA, init, StoreA.toStore, Array.toList_replicate, List.map_replicate, BufA.toBuf_mk']

/-! ### payloads and digests -/

theorem patternA_go_toList (seed k idx : Nat) (acc : ByteArray) :
    (patternA.go seed k idx acc).data.toList = acc.data.toList ++ (List.range' idx k).map (patByte seed) := by
  induction k generalizing idx acc with
  | zero => simp [patternA.go]
  | succ k ih =>
      simp only [patternA.go, ih, ByteArray.data_push, Array.toList_push, List.range'_succ, List.map_cons,
        List.append_assoc, List.singleton_append]

theorem patternA_toList (seed n : Nat) : (patternA seed n).data.toList = pattern seed n := by
  simp only [patternA, pattern, patternA_go_toList, List.range_eq_range']
  rfl

theorem patternA_size (seed n : Nat) : (patternA seed n).size = n := by
  rw [size_eq_length, patternA_toList]; simp [pattern]

theorem get!_eq (a : ByteArray) (i : Nat) (hi : i < a.data.toList.length) : a.get! i = a.data.toList[i] := by
  have : i < a.data.size := hi
  show a.data[i]! = _
  rw [getElem!_pos a.data i this]
  rfl

theorem foldBytes_eq {β : Type} (f : β → UInt8 → β) (a : ByteArray) (k i : Nat) (h : β) (hk : i + k ≤ a.size) :
    foldBytes f a k i h = ((a.data.toList.drop i).take k).foldl f h := by
  induction k generalizing i h with
  | zero => rfl
  | succ k ih =>
      have hi : i < a.data.toList.length := by rw [length_toList]; omega
      rw [foldBytes, ih (i + 1) _ (by omega), List.drop_eq_getElem_cons hi, List.take_succ_cons, List.foldl_cons,
        get!_eq a i hi]

/-- the digest loop over `[lo, hi)` is FNV-1a of those bytes (no hypothesis: the loop is clamped to the block) -/
theorem fnvA_eq (a : ByteArray) (lo hi : Nat) :
    fnvA a lo hi = fnv ((a.data.toList.drop lo).take (hi - lo)) := by
  have hl : (a.data.toList.drop lo).length = a.size - lo := by rw [List.length_drop, length_toList]
  have key : (a.data.toList.drop lo).take (hi - lo) = (a.data.toList.drop lo).take (min hi a.size - lo) := by
    by_cases h2 : hi ≤ a.size
    · rw [Nat.min_eq_left h2]
    · rw [Nat.min_eq_right (by omega), List.take_of_length_le (by omega), List.take_of_length_le (by omega)]
  rw [key]
  by_cases h : lo ≤ a.size
  · exact foldBytes_eq fnvStep a _ lo _ (by omega)
  · have h0 : min hi a.size - lo = 0 := by omega
    unfold fnvA
    rw [h0, List.take_zero]
    rfl

theorem digest_eq (a : BufA) : a.digest = fnv a.toBuf.readable := fnvA_eq a.mem a.r a.w

/-! ### the statement audited -/

/-- The array buffer refines the list model: runs, scripts, the initial store and the synthetic payloads. -/
theorem C07_array_refines :
    (∀ (s : StoreA) (ops : List (Alloc × OpA)),
      ((runA s ops).1.toStore, (runA s ops).2.map OutA.toOut) = run s.toStore (opsToList ops)) ∧
    (∀ (s : StoreA) (body cleanup : List (Alloc × OpA)),
      ((runScriptA s body cleanup).1.toStore, (runScriptA s body cleanup).2.map OutA.toOut) =
        runScript s.toStore (opsToList body) (opsToList cleanup)) ∧
    initA.toStore = init ∧
    (∀ seed n : Nat, (patternA seed n).data.toList = pattern seed n) :=
  ⟨runA_refines, runScriptA_refines, initA_toStore, patternA_toList⟩


/-! ## the glue of the driver -/

theorem opAofOp_toOp (op : Op) : (opAofOp op).toOp = op := by
  cases op <;> rfl

theorem storeAofStore_toStore (s : Store) : (storeAofStore s).toStore = s := by
  unfold storeAofStore StoreA.toStore
  simp only [List.toList_toArray, List.map_map]
  induction s with
  | nil => rfl
  | cons b s ih => simp only [List.map_cons, ih]; rfl

/-- **C07_array_glue.** What the driver does around the ByteArray model: entering it from a list store
and translating an operation are right inverses of the abstraction, and the digest it prints is the
FNV of the list model's readable window. -/
theorem C07_array_glue :
    (∀ op : Op, (opAofOp op).toOp = op) ∧ (∀ s : Store, (storeAofStore s).toStore = s) ∧
    (∀ a : BufA, a.digest = fnv a.toBuf.readable) ∧
    (∀ (al : Alloc) (s : StoreA) (op : OpA), ((stepA al s op).1.toStore, (stepA al s op).2.toOut) = step al s.toStore op.toOp) :=
  ⟨opAofOp_toOp, storeAofStore_toStore, digest_eq, stepA_refines⟩

end Tbox.C07
