/-
C07 — model of `tbox::util::Buffer` (modules/util/buffer.{h,cpp}).

Transcribed function by function.  `mem` is the storage (`[]` = `nullptr`,
`mem.length` = `buffer_size_`), `r`/`w` are `read_index_`/`write_index_`.
Every `memcpy`/`memmove` of the C++ is recorded as an `Access` so that
"no operation reads or writes outside the buffer's own storage" is a statement
about the access list.  Sizes are `Nat` (the `size_t` overflow of
`(write_index_ + n) << 1` is outside the model; stated in DESIGN.md).
-/
namespace Tbox.C07

abbrev Byte := UInt8

structure Buf where
  mem : List Byte := []
  r   : Nat := 0
  w   : Nat := 0
deriving Repr, DecidableEq

/-- one `memcpy`/`memmove` operand: `len` bytes at offset `off` of a storage of `cap` bytes -/
structure Access where
  cap : Nat
  off : Nat
  len : Nat
deriving Repr, DecidableEq

def Access.ok (a : Access) : Prop := a.len = 0 ∨ a.off + a.len ≤ a.cap
instance (a : Access) : Decidable a.ok := by unfold Access.ok; exact inferInstance

namespace Buf

def size (b : Buf) : Nat := b.mem.length
def writable (b : Buf) : Nat := b.size - b.w
def readableSize (b : Buf) : Nat := b.w - b.r
/-- the readable window `[r, w)` -/
def readable (b : Buf) : List Byte := (b.mem.drop b.r).take (b.w - b.r)

/-- `Buffer::Buffer(size_t reverse_size)` -/
def mk' (cap : Nat) : Buf := { mem := List.replicate cap 0, r := 0, w := 0 }

/-- overwrite `mem[off .. off+d.length)` with `d` (a `memcpy`/`memmove` destination) -/
def poke (mem : List Byte) (off : Nat) (d : List Byte) : List Byte :=
  mem.take off ++ d ++ mem.drop (off + d.length)

/-- growth policy of the code: `(write_index_ + write_size) << 1` -/
def growSize (w n : Nat) : Nat := (w + n) * 2

/-- `ensureWritableSize` (allocation failure is not modelled: `new` throws) -/
def ensure (b : Buf) (n : Nat) : Buf × List Access :=
  if n = 0 then (b, [])
  else if b.writable ≥ n then (b, [])
  else if b.writable + b.r ≥ n then
    -- memmove(buffer_ptr_, buffer_ptr_ + read_index_, write_index_ - read_index_)
    let d := b.readable
    ({ mem := poke b.mem 0 d, r := 0, w := b.w - b.r },
     [⟨b.size, b.r, b.w - b.r⟩, ⟨b.size, 0, b.w - b.r⟩])
  else
    let ns := growSize b.w n
    let d := b.readable
    -- memcpy(p_buff + read_index_, buffer_ptr_ + read_index_, write_index_ - read_index_)
    ({ mem := poke (List.replicate ns 0) b.r d, r := b.r, w := b.w },
     if b.mem = [] then [] else [⟨b.size, b.r, b.w - b.r⟩, ⟨ns, b.r, b.w - b.r⟩])

/-- `hasWritten` (clamps at the end of the storage) -/
def hasWritten (b : Buf) (n : Nat) : Buf :=
  if b.w + n > b.size then { b with w := b.size } else { b with w := b.w + n }

/-- the user's write into `[writableBegin, writableBegin + d.length)` after a reservation -/
def userWrite (b : Buf) (d : List Byte) : Buf × List Access :=
  ({ b with mem := poke b.mem b.w d }, [⟨b.size, b.w, d.length⟩])

/-- `append` -/
def append (b : Buf) (d : List Byte) : Buf × List Access :=
  let (b1, a1) := b.ensure d.length
  let (b2, a2) := b1.userWrite d
  (b2.hasWritten d.length, a1 ++ a2)

/-- reserve `n`, write `d` (the caller guarantees `d.length ≤ n`), commit `d.length` -/
def reserveWriteCommit (b : Buf) (n : Nat) (d : List Byte) : Buf × List Access :=
  let (b1, a1) := b.ensure n
  let (b2, a2) := b1.userWrite d
  (b2.hasWritten d.length, a1 ++ a2)

/-- `hasRead` -/
def hasRead (b : Buf) (n : Nat) : Buf :=
  if b.r + n > b.w then { b with r := 0, w := 0 }
  else if b.r + n = b.w then { b with r := 0, w := 0 }
  else { b with r := b.r + n }

/-- `hasReadAll` -/
def hasReadAll (b : Buf) : Buf := { b with r := 0, w := 0 }

/-- `fetch`: returns the new buffer, the bytes copied out, the access -/
def fetch (b : Buf) (n : Nat) : Buf × List Byte × List Access :=
  let k := if n > b.readableSize then b.readableSize else n
  (b.hasRead k, b.readable.take k, [⟨b.size, b.r, k⟩])

/-- `cloneFrom(other)` — the value the destination takes -/
def cloneOf (o : Buf) : Buf × List Access :=
  if o.readableSize > 0 then
    ({ mem := o.readable, r := 0, w := o.readableSize },
     [⟨o.size, o.r, o.readableSize⟩, ⟨o.readableSize, 0, o.readableSize⟩])
  else ({ mem := [], r := 0, w := 0 }, [])

/-- `shrink` = copy-construct a temporary from `*this`, swap -/
def shrink (b : Buf) : Buf × List Access := cloneOf b

def empty : Buf := { mem := [], r := 0, w := 0 }

end Buf

/-! ### a store of named buffers and the operation language of the harness -/

inductive Op where
  | construct (i : Nat) (cap : Nat)           -- (re)construct slot i as Buffer(cap)
  | append (i : Nat) (d : List Byte)
  | reserve (i : Nat) (n : Nat)
  | rwc (i : Nat) (n : Nat) (d : List Byte)   -- ensure n; write d (|d| ≤ n); hasWritten |d|
  | over (i : Nat) (n : Nat)                  -- zero-fill writable region; hasWritten (max writable n): clamps
  | fetch (i : Nat) (n : Nat)
  | consume (i : Nat) (n : Nat)
  | consumeAll (i : Nat)
  | shrink (i : Nat)
  | copyAssign (dst src : Nat)
  | moveAssign (dst src : Nat)
  | copyCtor (dst src : Nat)                  -- destroy dst, construct it as Buffer(src)
  | moveCtor (dst src : Nat)                  -- destroy dst, construct it as Buffer(std::move(src))
  | swap (i j : Nat)
  | reset (i : Nat)
deriving Repr

abbrev Store := List Buf

def Store.get (s : Store) (i : Nat) : Buf := s.getD i Buf.empty
def Store.put (s : Store) (i : Nat) (b : Buf) : Store := s.set i b

/-- observable result of one operation -/
structure Out where
  fetched  : List Byte := []      -- bytes returned by fetch
  ret      : Nat := 0             -- numeric return value (append/fetch)
  accesses : List Access := []
deriving Repr

def step (s : Store) : Op → Store × Out
  | .construct i cap => (s.put i (Buf.mk' cap), {})
  | .append i d =>
      let (b, a) := (s.get i).append d
      (s.put i b, { ret := d.length, accesses := a })
  | .reserve i n =>
      let (b, a) := (s.get i).ensure n
      (s.put i b, { ret := 1, accesses := a })
  | .rwc i n d =>
      let (b, a) := (s.get i).reserveWriteCommit n d
      (s.put i b, { accesses := a })
  | .over i n =>
      -- the caller zero-fills the whole writable region, then over-commits by n
      let b := s.get i
      let (b1, a) := b.userWrite (List.replicate b.writable 0)
      (s.put i (b1.hasWritten (max b.writable n)), { accesses := a })
  | .fetch i n =>
      let (b, out, a) := (s.get i).fetch n
      (s.put i b, { fetched := out, ret := out.length, accesses := a })
  | .consume i n => (s.put i ((s.get i).hasRead n), {})
  | .consumeAll i => (s.put i (s.get i).hasReadAll, {})
  | .shrink i =>
      let (b, a) := (s.get i).shrink
      (s.put i b, { accesses := a })
  | .copyAssign dst src =>
      if dst = src then (s, {}) else
      let (b, a) := Buf.cloneOf (s.get src)
      (s.put dst b, { accesses := a })
  | .moveAssign dst src =>
      if dst = src then (s, {}) else
      -- reset(); swap(other): dst takes src's representation, src the empty one
      ((s.put dst (s.get src)).put src Buf.empty, {})
  | .copyCtor dst src =>
      if dst = src then (s, {}) else
      let (b, a) := Buf.cloneOf (s.get src)
      (s.put dst b, { accesses := a })
  | .moveCtor dst src =>
      if dst = src then (s, {}) else
      ((s.put dst (s.get src)).put src Buf.empty, {})
  | .swap i j =>
      let bi := s.get i
      let bj := s.get j
      ((s.put i bj).put j bi, {})
  | .reset i => (s.put i Buf.empty, {})

/-- number of buffer slots used by the harness -/
def nSlots : Nat := 4

def init : Store := List.replicate nSlots (Buf.mk' 256)

end Tbox.C07
