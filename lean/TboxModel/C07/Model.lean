/-
C07 — model of `tbox::util::Buffer` (modules/util/buffer.{h,cpp}).

Transcribed function by function.  `mem` is the storage (`[]` = `nullptr`,
`mem.length` = `buffer_size_`), `r`/`w` are `read_index_`/`write_index_`.
Every `memcpy`/`memmove` of the C++ is recorded as an `Access` so that
"no operation reads or writes outside the buffer's own storage" is a statement
about the access list.

Width: every index/size expression of buffer.cpp is `size_t` arithmetic.  The fields are `Nat`
(kept `< W = 2^64` by the invariant) and every `+`, `-`, `<<` of the C++ is `uadd`/`usub`/`ushl1`
(reduction mod `W`), so a wrap-around of the code is a wrap-around of the model.

Allocation: `operator new[]` is an oracle input of every operation (`Alloc`: requested size ↦
does the request succeed); a failing request throws `std::bad_alloc` in the code, which the model
reports as status `badAlloc`.  The definitions without suffix transcribe the code WITH the
repairs patches/C07-01 (growth size that wraps is refused) and C07-02 (clone allocates before it
releases); the `…AsFound` definitions transcribe the code as found and carry the counterexamples.

Round 3: `appendFrom` (source of `append` inside ANOTHER buffer's block), `fetchSelf` / `fetchIntoRaw`
(destination of `fetch` inside the own block: overlap hazard of the `memcpy` explicit), synthetic payloads
(`pattern`) and digests (`fnv`) for large histories.  Composite statement sequences (`Buffer c(b); b = c;`)
are `runUntilThrow` / `runScript` in Spec.lean: one allocator answer per statement, so every allocation
inside one composite operation can fail on its own.  `Fast.lean` is the same model over `ByteArray`
(`C07_array_refines`: equal to this one).
-/
namespace Tbox.C07

abbrev Byte := UInt8

/-- `SIZE_MAX + 1` (LP64: the harness is built for the platform the check runs on) -/
def W : Nat := 18446744073709551616
/-- `SIZE_MAX >> 1` -/
def maxHalf : Nat := 9223372036854775807

/-! `size_t` arithmetic on operands `< W` (every value the code holds is one).  Written with a
comparison instead of `%` (`Proofs.lean`: `uadd_mod`, `usub_mod`, `ushl1_mod` show they ARE the
reductions mod `2^64`), because the kernel evaluates `x % W` on open terms by unfolding a
well-founded recursion. -/
/-- `size_t` addition -/
def uadd (a b : Nat) : Nat := if a + b < W then a + b else a + b - W
/-- `size_t` subtraction -/
def usub (a b : Nat) : Nat := if b ≤ a then a - b else a + W - b
/-- `size_t` `x << 1` -/
def ushl1 (a : Nat) : Nat := if a * 2 < W then a * 2 else a * 2 - W

structure Buf where
  mem : List Byte := []
  r   : Nat := 0
  w   : Nat := 0
deriving Repr, DecidableEq

/-- one `memcpy`/`memmove` operand: `len` bytes at offset `off` of a storage of `cap` bytes -/
structure Access where
  cap : Nat
  off : Nat
  len : Nat
deriving Repr, DecidableEq

def Access.ok (a : Access) : Prop := a.len = 0 ∨ a.off + a.len ≤ a.cap
instance (a : Access) : Decidable a.ok := by unfold Access.ok; exact inferInstance

/-- the allocator's answers for one operation: may a request of that many bytes succeed? -/
abbrev Alloc := Nat → Bool

/-- how an operation ended: `refused` = returned `false`/`0` without touching anything,
`badAlloc` = `operator new[]` threw -/
inductive Status where
  | ok | refused | badAlloc
deriving Repr, DecidableEq

/-- result of a buffer-level operation -/
structure Res where
  buf  : Buf
  st   : Status := .ok
  acc  : List Access := []
  news : Nat := 0          -- `new[]` requests made (successful or not)
  dels : Nat := 0          -- `delete[]` calls made
  ret  : Nat := 0
deriving Repr

namespace Buf

def size (b : Buf) : Nat := b.mem.length
/-- `writableSize()`: `buffer_size_ - write_index_` -/
def writable (b : Buf) : Nat := usub b.size b.w
/-- `readableSize()`: `write_index_ - read_index_` -/
def readableSize (b : Buf) : Nat := usub b.w b.r
/-- the readable window `[r, w)` -/
def readable (b : Buf) : List Byte := (b.mem.drop b.r).take (b.w - b.r)

/-- 1 if the buffer owns a block (`delete[]` will be called when it lets go of it) -/
def owns (b : Buf) : Nat := if b.mem = [] then 0 else 1

/-- `Buffer::Buffer(size_t reverse_size)` with a successful allocation -/
def mk' (cap : Nat) : Buf := { mem := List.replicate cap 0, r := 0, w := 0 }

/-- overwrite `mem[off .. off+d.length)` with `d` (a `memcpy`/`memmove` destination) -/
def poke (mem : List Byte) (off : Nat) (d : List Byte) : List Byte :=
  mem.take off ++ d ++ mem.drop (off + d.length)

/-- growth policy of the code: `(write_index_ + write_size) << 1`, in `size_t` -/
def growSize (w n : Nat) : Nat := ushl1 (uadd w n)

/-- the reallocation branch of `ensureWritableSize` (shared by the repaired and the as-found code) -/
def regrow (al : Alloc) (b : Buf) (n : Nat) : Res :=
  let ns := growSize b.w n
  if al ns then
    -- memcpy(p_buff + read_index_, buffer_ptr_ + read_index_, write_index_ - read_index_)
    { buf := { mem := poke (List.replicate ns 0) b.r b.readable, r := b.r, w := b.w },
      acc := if b.mem = [] then [] else [⟨b.size, b.r, usub b.w b.r⟩, ⟨ns, b.r, usub b.w b.r⟩],
      news := 1, dels := b.owns }
  else { buf := b, st := .badAlloc, news := 1 }

/-- the compaction branch: `memmove(buffer_ptr_, buffer_ptr_ + read_index_, write_index_ - read_index_)` -/
def compact (b : Buf) : Res :=
  { buf := { mem := poke b.mem 0 b.readable, r := 0, w := usub b.w b.r },
    acc := [⟨b.size, b.r, usub b.w b.r⟩, ⟨b.size, 0, usub b.w b.r⟩] }

/-- `ensureWritableSize` (with patch C07-01) -/
def ensure (al : Alloc) (b : Buf) (n : Nat) : Res :=
  if n = 0 then { buf := b }
  else if b.writable ≥ n then { buf := b }
  else if uadd b.writable b.r ≥ n then b.compact
  else if b.w > maxHalf ∨ n > maxHalf - b.w then { buf := b, st := .refused }
  else b.regrow al n

/-- `ensureWritableSize` as found: no overflow check in front of the reallocation -/
def ensureAsFound (al : Alloc) (b : Buf) (n : Nat) : Res :=
  if n = 0 then { buf := b }
  else if b.writable ≥ n then { buf := b }
  else if uadd b.writable b.r ≥ n then b.compact
  else b.regrow al n

/-- `hasWritten` (clamps at the end of the storage; compares without adding) -/
def hasWritten (b : Buf) (n : Nat) : Buf :=
  if n > usub b.size b.w then { b with w := b.size } else { b with w := uadd b.w n }

/-- the user's write into `[writableBegin, writableBegin + d.length)` after a reservation -/
def userWrite (b : Buf) (d : List Byte) : Buf × List Access :=
  ({ b with mem := poke b.mem b.w d }, [⟨b.size, b.w, d.length⟩])

/-- `append`: `if (ensureWritableSize(n)) { memcpy; hasWritten(n); return n; } return 0;` -/
def append (al : Alloc) (b : Buf) (d : List Byte) : Res :=
  let e := b.ensure al d.length
  if e.st = .ok then
    let (b2, a2) := e.buf.userWrite d
    { e with buf := b2.hasWritten d.length, acc := e.acc ++ a2, ret := d.length }
  else { e with buf := b, ret := 0 }

/-- reserve `n`; if that succeeded write `d` (the caller guarantees `d.length ≤ n`) and commit -/
def reserveWriteCommit (al : Alloc) (b : Buf) (n : Nat) (d : List Byte) : Res :=
  let e := b.ensure al n
  if e.st = .ok then
    let (b2, a2) := e.buf.userWrite d
    { e with buf := b2.hasWritten d.length, acc := e.acc ++ a2 }
  else { e with buf := b }

/-- `hasRead` (compares without adding) -/
def hasRead (b : Buf) (n : Nat) : Buf :=
  if n ≥ usub b.w b.r then { b with r := 0, w := 0 } else { b with r := uadd b.r n }

/-- `hasReadAll` -/
def hasReadAll (b : Buf) : Buf := { b with r := 0, w := 0 }

/-- `fetch`: returns the new buffer, the bytes copied out, the access -/
def fetch (b : Buf) (n : Nat) : Buf × List Byte × List Access :=
  let k := if n > b.readableSize then b.readableSize else n
  (b.hasRead k, b.readable.take k, [⟨b.size, b.r, k⟩])

/-- `dst.cloneFrom(o)` (with patch C07-02: allocate and copy, then release the old block) -/
def cloneInto (al : Alloc) (dst o : Buf) : Res :=
  if o.readableSize > 0 then
    if al o.readableSize then
      { buf := { mem := o.readable, r := 0, w := o.readableSize },
        acc := [⟨o.size, o.r, o.readableSize⟩, ⟨o.readableSize, 0, o.readableSize⟩],
        news := 1, dels := dst.owns }
    else { buf := dst, st := .badAlloc, news := 1 }
  else { buf := { mem := [], r := 0, w := 0 }, dels := dst.owns }

/-- `cloneFrom` as found: the old block is released first; when the allocation throws the
object keeps `buffer_size_`, `read_index_`, `write_index_` over a null storage -/
def cloneIntoAsFound (al : Alloc) (dst o : Buf) : Res :=
  if o.readableSize > 0 then
    if al o.readableSize then
      { buf := { mem := o.readable, r := 0, w := o.readableSize },
        acc := [⟨o.size, o.r, o.readableSize⟩, ⟨o.readableSize, 0, o.readableSize⟩],
        news := 1, dels := dst.owns }
    else { buf := { mem := [], r := dst.r, w := dst.w }, st := .badAlloc, news := 1, dels := dst.owns }
  else { buf := { mem := [], r := 0, w := 0 }, dels := dst.owns }

/-- `shrink` = copy-construct a temporary from `*this`, swap, destroy the temporary -/
def shrink (al : Alloc) (b : Buf) : Res := cloneInto al b b

def empty : Buf := { mem := [], r := 0, w := 0 }

/-- `Buffer(cap)` replacing the object `old` (the harness destroys `old` after the new one exists) -/
def construct (al : Alloc) (old : Buf) (cap : Nat) : Res :=
  if cap = 0 then { buf := empty, dels := old.owns }
  else if al cap then { buf := mk' cap, news := 1, dels := old.owns }
  else { buf := old, st := .badAlloc, news := 1 }

/-! #### `append` whose source lies in the buffer's OWN storage -/

/-- what can go wrong with a source pointer into the own storage -/
inductive Hazard where
  | none
  | overlap      -- memcpy with overlapping source and destination
  | dangling     -- the block the source pointed into was deleted by the reallocation
deriving Repr, DecidableEq

/-- `b.append(b.readableBegin() + off, k)`: `p_data` is the address `buffer_ptr_ + read_index_ + off`
taken BEFORE the call; `ensureWritableSize(k)` may move the bytes under it (compaction) or delete
the block (growth); the `memcpy` then reads whatever is at that address. -/
def appendSelfRaw (al : Alloc) (b : Buf) (off k : Nat) : Res × Hazard :=
  let src := uadd b.r off
  let e := b.ensure al k
  if e.st ≠ .ok then ({ e with buf := b }, .none)
  else if e.news ≠ 0 then (e, .dangling)
  else
    let data := (e.buf.mem.drop src).take k
    let dst := e.buf.w
    let hz := if k ≠ 0 ∧ src < dst + k ∧ dst < src + k then Hazard.overlap else Hazard.none
    let (b2, a2) := e.buf.userWrite data
    ({ e with buf := b2.hasWritten k, acc := e.acc ++ [⟨e.buf.size, src, k⟩] ++ a2, ret := k }, hz)

/-! #### `fetch` whose destination lies in the buffer's OWN storage -/

/-- `b.fetch(buffer_ptr_ + dst, n)`: the `memcpy` copies `min(n, readableSize())` bytes from
`[read_index_, …)` to `[dst, …)` of the same block, then `hasRead`.  `overlap` = the two ranges of the
`memcpy` intersect (undefined behaviour; a `memmove` would be needed).  Returns the bytes found at the
destination afterwards (what the caller reads there). -/
def fetchIntoRaw (b : Buf) (dst n : Nat) : Res × List Byte × Hazard :=
  let k := if n > b.readableSize then b.readableSize else n
  let data := b.readable.take k
  let hz := if k ≠ 0 ∧ b.r < dst + k ∧ dst < b.r + k then Hazard.overlap else Hazard.none
  ({ buf := ({ b with mem := poke b.mem dst data } : Buf).hasRead k,
     acc := [⟨b.size, b.r, k⟩, ⟨b.size, dst, k⟩], ret := k }, data, hz)

end Buf

/-! ### a store of named buffers and the operation language of the harness -/

inductive Op where
  | construct (i : Nat) (cap : Nat)           -- (re)construct slot i as Buffer(cap)
  | defaultCtor (i : Nat)                     -- (re)construct slot i as Buffer()  (kInitialSize)
  | append (i : Nat) (d : List Byte)
  | appendSelf (i : Nat) (off k : Nat)        -- ensure k; append(readableBegin()+off, k)  (if off+k ≤ readable)
  | appendFrom (i j : Nat) (off k : Nat)      -- b_i.append(b_j.readableBegin()+off, k): source inside ANOTHER buffer's block
  | fetchSelf (i : Nat) (n : Nat)             -- ensure min(n, readable); fetch(writableBegin(), n): destination in the own block
  | reserve (i : Nat) (n : Nat)
  | rwc (i : Nat) (n : Nat) (d : List Byte)   -- ensure n; write d (|d| ≤ n); hasWritten |d|
  | over (i : Nat) (n : Nat)                  -- zero-fill writable region; hasWritten (max writable n): clamps
  | fetch (i : Nat) (n : Nat)
  | consume (i : Nat) (n : Nat)
  | consumeAll (i : Nat)
  | shrink (i : Nat)
  | copyAssign (dst src : Nat)
  | moveAssign (dst src : Nat)
  | copyCtor (dst src : Nat)                  -- construct Buffer(src), then destroy dst and put it there
  | moveCtor (dst src : Nat)                  -- construct Buffer(std::move(src)), destroy dst, put it there
  | swap (i j : Nat)
  | reset (i : Nat)
deriving Repr

/-- `Buffer::kInitialSize` -/
def kInitialSize : Nat := 256

abbrev Store := List Buf

def Store.get (s : Store) (i : Nat) : Buf := s.getD i Buf.empty
def Store.put (s : Store) (i : Nat) (b : Buf) : Store := s.set i b

/-- observable result of one operation -/
structure Out where
  fetched  : List Byte := []      -- bytes returned by fetch
  ret      : Nat := 0             -- numeric return value (append/fetch)
  accesses : List Access := []
  st       : Status := .ok
  news     : Nat := 0
  dels     : Nat := 0
deriving Repr

def Out.ofRes (x : Res) : Out := { ret := x.ret, accesses := x.acc, st := x.st, news := x.news, dels := x.dels }

def step (al : Alloc) (s : Store) : Op → Store × Out
  | .construct i cap =>
      let x := Buf.construct al (s.get i) cap
      (s.put i x.buf, Out.ofRes x)
  | .defaultCtor i =>
      let x := Buf.construct al (s.get i) kInitialSize
      (s.put i x.buf, Out.ofRes x)
  | .append i d =>
      let x := (s.get i).append al d
      (s.put i x.buf, Out.ofRes x)
  | .appendSelf i off k =>
      let b := s.get i
      if off + k ≤ b.readableSize then
        -- the caller reserves first, so that the append itself neither moves nor reallocates
        let e := b.ensure al k
        if e.st = .ok then
          let x := (e.buf.appendSelfRaw al off k).1
          (s.put i x.buf, { Out.ofRes x with accesses := e.acc ++ x.acc, news := e.news + x.news, dels := e.dels + x.dels })
        else (s, Out.ofRes { e with buf := b })
      else (s, {})
  | .appendFrom i j off k =>
      let o := s.get j
      if i = j ∨ off + k > o.readableSize then (s, {}) else
      -- the source block belongs to another buffer: whatever `ensureWritableSize` does to b_i leaves it alone
      let x := (s.get i).append al ((o.readable.drop off).take k)
      (s.put i x.buf, { Out.ofRes x with accesses := if x.st = .ok then ⟨o.size, uadd o.r off, k⟩ :: x.acc else x.acc })
  | .fetchSelf i n =>
      let b := s.get i
      let k := if n > b.readableSize then b.readableSize else n
      -- the caller makes room for the bytes first, then hands `writableBegin()` to `fetch`
      let e := b.ensure al k
      if e.st = .ok then
        let (x, out, _) := e.buf.fetchIntoRaw e.buf.w n
        (s.put i x.buf, { fetched := out, ret := out.length, accesses := e.acc ++ x.acc, news := e.news, dels := e.dels })
      else (s, Out.ofRes { e with buf := b })
  | .reserve i n =>
      let x := (s.get i).ensure al n
      (s.put i x.buf, { Out.ofRes x with ret := if x.st = .ok then 1 else 0 })
  | .rwc i n d =>
      let x := (s.get i).reserveWriteCommit al n d
      (s.put i x.buf, Out.ofRes x)
  | .over i n =>
      -- the caller zero-fills the whole writable region, then over-commits by n
      let b := s.get i
      let (b1, a) := b.userWrite (List.replicate b.writable 0)
      (s.put i (b1.hasWritten (max b.writable n)), { accesses := a })
  | .fetch i n =>
      let (b, out, a) := (s.get i).fetch n
      (s.put i b, { fetched := out, ret := out.length, accesses := a })
  | .consume i n => (s.put i ((s.get i).hasRead n), {})
  | .consumeAll i => (s.put i (s.get i).hasReadAll, {})
  | .shrink i =>
      let x := (s.get i).shrink al
      (s.put i x.buf, Out.ofRes x)
  | .copyAssign dst src =>
      if dst = src then (s, {}) else
      let x := Buf.cloneInto al (s.get dst) (s.get src)
      (s.put dst x.buf, Out.ofRes x)
  | .moveAssign dst src =>
      if dst = src then (s, {}) else
      -- reset(); swap(other): dst takes src's representation, src the empty one
      ((s.put dst (s.get src)).put src Buf.empty, { dels := (s.get dst).owns })
  | .copyCtor dst src =>
      if dst = src then (s, {}) else
      let x := Buf.cloneInto al (s.get dst) (s.get src)
      (s.put dst x.buf, Out.ofRes x)
  | .moveCtor dst src =>
      if dst = src then (s, {}) else
      ((s.put dst (s.get src)).put src Buf.empty, { dels := (s.get dst).owns })
  | .swap i j =>
      let bi := s.get i
      let bj := s.get j
      ((s.put i bj).put j bi, {})
  | .reset i => (s.put i Buf.empty, { dels := (s.get i).owns })

/-! ### synthetic payloads and digests (large histories: the op file names a payload by length and
seed, both sides print a digest instead of the bytes) -/

/-- byte `idx` of the payload with seed `seed` (harness: `(uint8_t)(seed*131 + idx*7 + idx/256)`) -/
def patByte (seed idx : Nat) : Byte := UInt8.ofNat (seed * 131 + idx * 7 + idx / 256)
/-- the payload `%n:seed` -/
def pattern (seed n : Nat) : List Byte := (List.range n).map (patByte seed)

/-- FNV-1a, 64 bit -/
def fnvStep (h : UInt64) (b : Byte) : UInt64 := (h ^^^ b.toUInt64) * 1099511628211
def fnv (bs : List Byte) : UInt64 := bs.foldl fnvStep 14695981039346656037

/-- number of buffer slots used by the harness -/
def nSlots : Nat := 4

def init : Store := List.replicate nSlots (Buf.mk' kInitialSize)

end Tbox.C07
