/- C07 — helper lemmas (core Lean only). Property theorems are in `Props.lean`. -/
import TboxModel.C07.Spec
namespace Tbox.C07
open Buf

/-- representation invariant: `read_index_ ≤ write_index_ ≤ buffer_size_`, and the size is a `size_t` -/
def Buf.Inv (b : Buf) : Prop := b.r ≤ b.w ∧ b.w ≤ b.mem.length ∧ b.mem.length < W
instance (b : Buf) : Decidable b.Inv := by unfold Buf.Inv; exact inferInstance

/-! `size_t` arithmetic equals the mathematical one where nothing wraps -/
theorem usub_eq (a b : Nat) (h : b ≤ a) (_ha : a < W) : usub a b = a - b := by
  unfold usub; simp [h]
theorem uadd_eq (a b : Nat) (h : a + b < W) : uadd a b = a + b := by
  unfold uadd; simp [h]
theorem ushl1_eq (a : Nat) (h : a * 2 < W) : ushl1 a = a * 2 := by
  unfold ushl1; simp [h]
/-- the three operations are arithmetic modulo `2^64` on `size_t` operands -/
theorem uadd_mod (a b : Nat) (ha : a < W) (hb : b < W) : uadd a b = (a + b) % W := by
  unfold uadd; split <;> (unfold W at *; omega)
theorem usub_mod (a b : Nat) (ha : a < W) (hb : b < W) : usub a b = (a + W - b) % W := by
  unfold usub; split <;> (unfold W at *; omega)
theorem ushl1_mod (a : Nat) (ha : a < W) : ushl1 a = (a * 2) % W := by
  unfold ushl1; split <;> (unfold W at *; omega)

theorem writable_eq (b : Buf) (h : b.Inv) : b.writable = b.mem.length - b.w := by
  unfold Buf.writable Buf.size; exact usub_eq _ _ h.2.1 h.2.2
theorem readableSize_eq (b : Buf) (h : b.Inv) : b.readableSize = b.w - b.r := by
  unfold Buf.readableSize; exact usub_eq _ _ h.1 (by have := h.2.1; have := h.2.2; omega)

theorem poke_length (mem : List Byte) (off : Nat) (d : List Byte)
    (h : off + d.length ≤ mem.length) : (poke mem off d).length = mem.length := by
  unfold poke; simp; omega

theorem drop_take_poke_same (mem : List Byte) (off : Nat) (d : List Byte)
    (h : off + d.length ≤ mem.length) :
    ((poke mem off d).drop off).take d.length = d := by
  unfold poke
  have h1 : (mem.take off).length = off := by simp; omega
  rw [List.append_assoc, List.drop_append_of_le_length (by omega)]
  simp [h1]

/-- bytes in front of the poked window are untouched -/
theorem take_poke (mem : List Byte) (off : Nat) (d : List Byte) (k : Nat) (hk : k ≤ off)
    (h : off ≤ mem.length) : (poke mem off d).take k = mem.take k := by
  unfold poke
  rw [List.append_assoc, List.take_append_of_le_length (by simp; omega)]
  simp [List.take_take, Nat.min_eq_left hk]

theorem drop_take_poke_before (mem : List Byte) (off : Nat) (d : List Byte) (a n : Nat)
    (h1 : a + n ≤ off) (h : off ≤ mem.length) :
    ((poke mem off d).drop a).take n = (mem.drop a).take n := by
  have e1 : ((poke mem off d).drop a).take n = (((poke mem off d).take (a+n)).drop a) := by
    rw [List.drop_take]; simp
  have e2 : ((mem.drop a).take n) = ((mem.take (a+n)).drop a) := by
    rw [List.drop_take]; simp
  rw [e1, e2, take_poke mem off d (a+n) h1 h]

theorem readable_length (b : Buf) (h : b.Inv) : b.readable.length = b.w - b.r := by
  unfold Buf.readable; simp; unfold Buf.Inv at h; omega

end Tbox.C07
