/- C07 — helper lemmas (core Lean only). Property theorems are in `Props.lean`. -/
import TboxModel.C07.Spec
namespace Tbox.C07
open Buf

def Buf.Inv (b : Buf) : Prop := b.r ≤ b.w ∧ b.w ≤ b.mem.length

theorem poke_length (mem : List Byte) (off : Nat) (d : List Byte)
    (h : off + d.length ≤ mem.length) : (poke mem off d).length = mem.length := by
  unfold poke; simp; omega

theorem drop_take_poke_same (mem : List Byte) (off : Nat) (d : List Byte)
    (h : off + d.length ≤ mem.length) :
    ((poke mem off d).drop off).take d.length = d := by
  unfold poke
  have h1 : (mem.take off).length = off := by simp; omega
  rw [List.append_assoc, List.drop_append_of_le_length (by omega)]
  simp [h1]

/-- bytes in front of the poked window are untouched -/
theorem take_poke (mem : List Byte) (off : Nat) (d : List Byte) (k : Nat) (hk : k ≤ off)
    (h : off ≤ mem.length) : (poke mem off d).take k = mem.take k := by
  unfold poke
  rw [List.append_assoc, List.take_append_of_le_length (by simp; omega)]
  simp [List.take_take, Nat.min_eq_left hk]

theorem drop_take_poke_before (mem : List Byte) (off : Nat) (d : List Byte) (a n : Nat)
    (h1 : a + n ≤ off) (h : off ≤ mem.length) :
    ((poke mem off d).drop a).take n = (mem.drop a).take n := by
  have e1 : ((poke mem off d).drop a).take n = (((poke mem off d).take (a+n)).drop a) := by
    rw [List.drop_take]; simp
  have e2 : ((mem.drop a).take n) = ((mem.take (a+n)).drop a) := by
    rw [List.drop_take]; simp
  rw [e1, e2, take_poke mem off d (a+n) h1 h]

theorem readable_length (b : Buf) (h : b.Inv) : b.readable.length = b.w - b.r := by
  unfold Buf.readable; simp; unfold Buf.Inv at h; omega

end Tbox.C07
