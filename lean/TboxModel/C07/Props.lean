/-
C07 — PROPERTY THEOREMS (statements only rely on Model.lean / Spec.lean;
helper lemmas live in Proofs.lean / BufLemmas.lean).

Property: "The byte buffer behaves as an unbounded FIFO byte queue … across any
mixture of append, reserve-write-commit, fetch, consume, consume-all, shrink,
copy, move, swap and reset; readable size = written − consumed; a copy is
independent of its source; a moved-from or reset buffer is empty and reusable;
no operation reads or writes outside the buffer's own storage."

All sizes are `size_t` values (`Op.wf`), all index arithmetic of the model wraps like the code's,
and every operation takes the allocator's answers as an oracle (`Alloc`); the theorems hold for
every oracle.  An operation that reports failure is a no-op on the representation.

`C07_fifo_byte_queue` is the property statement as one theorem (refinement + size + bounds + reservation +
copy independence + moved-from/reset); the theorems before it are its parts and the exact contracts
(reservation, strong exception guarantee of composite copies, aliasing of source / destination with the
buffer's own or another buffer's storage, pointer epochs).
-/
import TboxModel.C07.BufLemmas
namespace Tbox.C07
open Buf

/-- abstraction: a store of buffers is the list of their readable windows -/
def abs (s : Store) : Spec := s.map Buf.readable

def StoreInv (s : Store) : Prop := ∀ b ∈ s, b.Inv

theorem kInit_lt : kInitialSize < W := by unfold kInitialSize W; omega

/-! projections of `Out.ofRes` as rewrite rules (stated for a variable result, so that no proof
step has to evaluate a buffer operation) -/
theorem ofRes_accesses (x : Res) : (Out.ofRes x).accesses = x.acc := rfl
theorem ofRes_fetched (x : Res) : (Out.ofRes x).fetched = [] := rfl
theorem ofRes_failed (x : Res) : (Out.ofRes x).failed = (x.st != .ok) := rfl
theorem shrink_eq (al : Alloc) (b : Buf) : Buf.shrink al b = Buf.cloneInto al b b := rfl

/-! ### store plumbing -/

theorem abs_get (s : Store) (i : Nat) : Spec.get (abs s) i = (s.get i).readable := by
  unfold Spec.get abs Store.get
  rw [← empty_readable]
  induction s generalizing i with
  | nil => simp
  | cons b s ih => cases i <;> simp [ih]

theorem abs_put (s : Store) (i : Nat) (b : Buf) : abs (s.put i b) = Spec.put (abs s) i b.readable := by
  unfold abs Store.put Spec.put; exact List.map_set

theorem get_inv (s : Store) (i : Nat) (h : StoreInv s) : (s.get i).Inv := by
  unfold Store.get
  rw [List.getD_eq_getElem?_getD]
  cases h' : s[i]? with
  | none => exact empty_inv
  | some b => exact h b (List.mem_of_getElem? h')

theorem set_getD_self {α} (l : List α) (i : Nat) (d : α) : l.set i (l.getD i d) = l := by
  induction l generalizing i with
  | nil => simp
  | cons x l ih =>
      cases i with
      | zero => simp
      | succ n => simpa using ih n

theorem put_get_self (s : Store) (i : Nat) : s.put i (s.get i) = s := set_getD_self _ _ _

theorem spec_put_get_self (q : Spec) (i : Nat) : Spec.put q i (Spec.get q i) = q := set_getD_self _ _ _

theorem put_inv (s : Store) (i : Nat) (b : Buf) (h : StoreInv s) (hb : b.Inv) : StoreInv (s.put i b) := by
  intro x hx
  unfold Store.put at hx
  rcases List.mem_or_eq_of_mem_set hx with hx | hx
  · exact h x hx
  · exact hx ▸ hb

/-- a buffer-level result that is either a success with an invariant-keeping buffer or a no-op -/
theorem put_res_inv (s : Store) (i : Nat) (x : Res) (h : StoreInv s)
    (hok : x.st = .ok → x.buf.Inv) (hfail : x.st ≠ .ok → x.buf = s.get i) : StoreInv (s.put i x.buf) := by
  by_cases hst : x.st = .ok
  · exact put_inv _ _ _ h (hok hst)
  · rw [hfail hst]; exact put_inv _ _ _ h (get_inv s i h)

theorem len_readable (b : Buf) (h : b.Inv) : b.readable.length = b.readableSize := by
  rw [readable_length b h, readableSize_eq b h]

/-! ### C07_inv / C07_refines_fifo / C07_in_bounds — one step -/

/-- One step, any allocator: the invariant `r ≤ w ≤ size < 2^64` is preserved by EVERY operation
(also the over-commit that the reserve/commit contract forbids, also a failing one), and every
memory access lies inside the storage it touches. -/
theorem C07_step_safe (al : Alloc) (s : Store) (op : Op) (h : StoreInv s)
    (hw : op.wf = true) (hc : op.rwcOk = true) :
    StoreInv (step al s op).1 ∧ ∀ a ∈ (step al s op).2.accesses, a.ok := by
  cases op with
  | construct i cap =>
      have := construct_spec al (s.get i) cap (by simpa [Op.wf] using hw)
      exact ⟨put_res_inv _ _ _ h (fun e => (this.1 e).1) this.2.1, by simp [step, Out.ofRes, this.2.2]⟩
  | defaultCtor i =>
      have := construct_spec al (s.get i) kInitialSize kInit_lt
      exact ⟨put_res_inv _ _ _ h (fun e => (this.1 e).1) this.2.1, by simp [step, Out.ofRes, this.2.2]⟩
  | append i d =>
      have := append_spec al (s.get i) d (get_inv s i h)
      exact ⟨put_res_inv _ _ _ h (fun e => (this.1 e).1) (fun e => (this.2.1 e).1), this.2.2⟩
  | appendSelf i off k =>
      have hI := get_inv s i h
      simp only [step]
      split
      · rename_i hcond
        have he := ensure_spec al (s.get i) k hI
        split
        · rename_i hst
          have hk := he.1 hst
          have hlen : ((s.get i).ensure al k).buf.w - ((s.get i).ensure al k).buf.r = (s.get i).w - (s.get i).r := by
            rw [← readable_length _ hk.1, hk.2.1, readable_length _ hI]
          have ha := appendSelfRaw_reserved al ((s.get i).ensure al k).buf off k hk.1 hk.2.2
            (by rw [hlen, ← readableSize_eq _ hI]; exact hcond)
          refine ⟨put_inv _ _ _ h ha.2.2.1, ?_⟩
          intro a hmem
          simp only [List.mem_append] at hmem
          rcases hmem with hmem | hmem
          · exact he.2.2 a hmem
          · exact ha.2.2.2.2.2.2 a hmem
        · exact ⟨h, by simpa [Out.ofRes] using he.2.2⟩
      · exact ⟨h, by simp⟩
  | appendFrom i j off k =>
      simp only [step]
      split
      · exact ⟨h, by simp⟩
      · rename_i hcond
        have hc' : ¬ (off + k > (s.get j).readableSize) := fun hgt => hcond (Or.inr hgt)
        have := append_spec al (s.get i) (((s.get j).readable.drop off).take k) (get_inv s i h)
        refine ⟨put_res_inv _ _ _ h (fun e => (this.1 e).1) (fun e => (this.2.1 e).1), ?_⟩
        intro a ha
        simp only [ofRes_accesses] at ha
        split at ha
        · rcases List.mem_cons.1 ha with rfl | ha
          · exact appendFrom_source_ok _ off k (get_inv s j h) hc'
          · exact this.2.2 a ha
        · exact this.2.2 a ha
  | fetchSelf i n =>
      by_cases hst : ((s.get i).ensure al (if n > (s.get i).readableSize then (s.get i).readableSize else n)).st = .ok
      · have := fetchSelf_spec al (s.get i) n (get_inv s i h) hst
        simp only [step, hst, ↓reduceIte]
        exact ⟨put_inv _ _ _ h this.2.1, this.2.2.2.2⟩
      · have he := ensure_spec al (s.get i) (if n > (s.get i).readableSize then (s.get i).readableSize else n) (get_inv s i h)
        simp only [step, hst, ↓reduceIte]
        exact ⟨h, he.2.2⟩
  | reserve i n =>
      have := ensure_spec al (s.get i) n (get_inv s i h)
      exact ⟨put_res_inv _ _ _ h (fun e => (this.1 e).1) this.2.1, by simpa [step, Out.ofRes] using this.2.2⟩
  | rwc i n d =>
      have := rwc_spec al (s.get i) n d (get_inv s i h) (by simpa [Op.rwcOk] using hc)
      exact ⟨put_res_inv _ _ _ h (fun e => (this.1 e).1) this.2.1, this.2.2⟩
  | over i n =>
      have hI := get_inv s i h
      have := userWrite_inv (s.get i) (List.replicate (s.get i).writable 0) hI (by simp)
      exact ⟨put_inv _ _ _ h (hasWritten_inv _ _ this.1), this.2⟩
  | fetch i n =>
      have := fetch_spec (s.get i) n (get_inv s i h)
      exact ⟨put_inv _ _ _ h this.1, this.2.2.2⟩
  | consume i n => exact ⟨put_inv _ _ _ h (hasRead_spec _ n (get_inv s i h)).1, by simp [step]⟩
  | consumeAll i => exact ⟨put_inv _ _ _ h (hasReadAll_spec _ (get_inv s i h)).1, by simp [step]⟩
  | shrink i =>
      have := cloneInto_spec al (s.get i) (s.get i) (get_inv s i h)
      refine ⟨put_res_inv _ _ _ h (fun e => (this.1 e).1) this.2.1, ?_⟩
      simp only [step, ofRes_accesses, shrink_eq]; exact this.2.2
  | copyAssign dst src =>
      simp only [step]; split
      · exact ⟨h, by simp⟩
      · have := cloneInto_spec al (s.get dst) (s.get src) (get_inv s src h)
        refine ⟨put_res_inv _ _ _ h (fun e => (this.1 e).1) this.2.1, ?_⟩
        simp only [ofRes_accesses]; exact this.2.2
  | moveAssign dst src =>
      simp only [step]; split
      · exact ⟨h, by simp⟩
      · exact ⟨put_inv _ _ _ (put_inv _ _ _ h (get_inv s src h)) empty_inv, by simp⟩
  | copyCtor dst src =>
      simp only [step]; split
      · exact ⟨h, by simp⟩
      · have := cloneInto_spec al (s.get dst) (s.get src) (get_inv s src h)
        refine ⟨put_res_inv _ _ _ h (fun e => (this.1 e).1) this.2.1, ?_⟩
        simp only [ofRes_accesses]; exact this.2.2
  | moveCtor dst src =>
      simp only [step]; split
      · exact ⟨h, by simp⟩
      · exact ⟨put_inv _ _ _ (put_inv _ _ _ h (get_inv s src h)) empty_inv, by simp⟩
  | swap i j =>
      exact ⟨put_inv _ _ _ (put_inv _ _ _ h (get_inv s j h)) (get_inv s i h), by simp [step]⟩
  | reset i => exact ⟨put_inv _ _ _ h empty_inv, by simp [step]⟩

/-- **C07_fail_noop.** An operation that reports failure (allocation failed, or the requested size
is not representable) leaves every buffer exactly as it was — storage, indices and content. -/
theorem C07_fail_noop (al : Alloc) (s : Store) (op : Op) (h : StoreInv s)
    (hf : (step al s op).2.failed = true) : (step al s op).1 = s := by
  have key : ∀ (i : Nat) (x : Res), (x.st ≠ .ok → x.buf = s.get i) → (Out.ofRes x).failed = true →
      s.put i x.buf = s := by
    intro i x hx hfl
    have : x.st ≠ .ok := by simpa [Out.failed, Out.ofRes] using hfl
    rw [hx this]; exact put_get_self s i
  cases op with
  | construct i cap =>
      by_cases hc : cap < W
      · exact key i _ (construct_spec al (s.get i) cap hc).2.1 hf
      · -- a capacity that is no size_t: the model still answers like the code would for cap mod 2^64; not a failure of a well-formed op
        simp only [step] at hf ⊢
        have hx : (Buf.construct al (s.get i) cap).st ≠ .ok → (Buf.construct al (s.get i) cap).buf = s.get i := by
          unfold Buf.construct; split
          · intro hne; exact (hne rfl).elim
          · split
            · intro hne; exact (hne rfl).elim
            · intro _; rfl
        exact key i _ hx hf
  | defaultCtor i => exact key i _ (construct_spec al (s.get i) kInitialSize kInit_lt).2.1 hf
  | append i d => exact key i _ (fun e => ((append_spec al (s.get i) d (get_inv s i h)).2.1 e).1) hf
  | appendSelf i off k =>
      simp only [step] at hf ⊢
      split
      · split
        · rename_i hcond hst
          have hI := get_inv s i h
          have he := ensure_spec al (s.get i) k hI
          have hk := he.1 hst
          have hlen : ((s.get i).ensure al k).buf.w - ((s.get i).ensure al k).buf.r = (s.get i).w - (s.get i).r := by
            rw [← readable_length _ hk.1, hk.2.1, readable_length _ hI]
          have ha := appendSelfRaw_reserved al ((s.get i).ensure al k).buf off k hk.1 hk.2.2
            (by rw [hlen, ← readableSize_eq _ hI]; exact hcond)
          simp [hcond, hst, Out.failed, Out.ofRes, ha.2.1] at hf
        · rfl
      · rfl
  | appendFrom i j off k =>
      simp only [step] at hf ⊢
      split
      · rfl
      · rename_i hcond; simp only [hcond, ↓reduceIte] at hf
        have hx := (append_spec al (s.get i) (((s.get j).readable.drop off).take k) (get_inv s i h)).2.1
        have hne : ((s.get i).append al (((s.get j).readable.drop off).take k)).st ≠ .ok := by
          simpa [Out.failed, Out.ofRes] using hf
        rw [(hx hne).1]; exact put_get_self s i
  | fetchSelf i n =>
      by_cases hst : ((s.get i).ensure al (if n > (s.get i).readableSize then (s.get i).readableSize else n)).st = .ok
      · simp [step, hst, Out.failed] at hf
      · simp only [step, hst, ↓reduceIte]
  | reserve i n =>
      simp only [step] at hf ⊢
      have := (ensure_spec al (s.get i) n (get_inv s i h)).2.1
      have hne : ((s.get i).ensure al n).st ≠ .ok := by simpa [Out.failed, Out.ofRes] using hf
      rw [this hne]; exact put_get_self s i
  | rwc i n d =>
      simp only [step] at hf ⊢
      have hne : ((s.get i).reserveWriteCommit al n d).st ≠ .ok := by simpa [Out.failed, Out.ofRes] using hf
      have : ((s.get i).reserveWriteCommit al n d).buf = s.get i := by
        unfold Buf.reserveWriteCommit at hne ⊢
        by_cases hst : ((s.get i).ensure al n).st = .ok
        · simp [hst] at hne
        · simp [hst]
      rw [this]; exact put_get_self s i
  | over i n => simp [step, Out.failed] at hf
  | fetch i n => simp [step, Out.failed] at hf
  | consume i n => simp [step, Out.failed] at hf
  | consumeAll i => simp [step, Out.failed] at hf
  | shrink i => exact key i _ (cloneInto_spec al (s.get i) (s.get i) (get_inv s i h)).2.1 hf
  | copyAssign dst src =>
      simp only [step] at hf ⊢; split
      · rfl
      · rename_i hne; simp only [hne, ↓reduceIte] at hf
        exact key dst _ (cloneInto_spec al (s.get dst) (s.get src) (get_inv s src h)).2.1 hf
  | moveAssign dst src => simp only [step] at hf; split at hf <;> simp [Out.failed] at hf
  | copyCtor dst src =>
      simp only [step] at hf ⊢; split
      · rfl
      · rename_i hne; simp only [hne, ↓reduceIte] at hf
        exact key dst _ (cloneInto_spec al (s.get dst) (s.get src) (get_inv s src h)).2.1 hf
  | moveCtor dst src => simp only [step] at hf; split at hf <;> simp [Out.failed] at hf
  | swap i j => simp [step, Out.failed] at hf
  | reset i => simp [step, Out.failed] at hf

/-- One step refines the FIFO specification for every allocator: a successful operation commutes
with the FIFO operation, a failing one with the identity, and the bytes handed to the reader are
the FIFO's. -/
theorem C07_step_refines (al : Alloc) (s : Store) (op : Op) (h : StoreInv s) (hc : op.inContract = true) :
    abs (step al s op).1 = (specStepF (step al s op).2.failed (abs s) op).1 ∧
    (step al s op).2.fetched = (specStepF (step al s op).2.failed (abs s) op).2 := by
  by_cases hf : (step al s op).2.failed = true
  · have hn := C07_fail_noop al s op h hf
    have hfe : (step al s op).2.fetched = [] := by
      cases op <;> simp [step, Out.failed, Out.ofRes] at hf ⊢ <;> (try split) <;> (try split) <;> simp_all [Out.ofRes]
    simp [specStepF, hf, hn, hfe]
  · have hf' : (step al s op).2.failed = false := by simpa using hf
    rw [hf']
    simp only [specStepF, Bool.false_eq_true, ↓reduceIte]
    -- success (or an operation that cannot fail)
    have okOf : ∀ (x : Res), (Out.ofRes x).failed = false → x.st = .ok := by
      intro x hx; simpa [Out.failed, Out.ofRes] using hx
    cases op with
    | construct i cap =>
        have hst := okOf _ hf'
        have hb : (Buf.construct al (s.get i) cap).buf.readable = [] := by
          unfold Buf.construct at hst ⊢
          split
          · exact empty_readable
          · split
            · exact mk'_readable cap
            · rename_i h1 h2; simp [h1, h2] at hst
        simp [step, specStep, abs_put, hb, Out.ofRes]
    | defaultCtor i =>
        have hst := okOf _ hf'
        have := (construct_spec al (s.get i) kInitialSize kInit_lt).1 hst
        simp [step, specStep, abs_put, this.2, Out.ofRes]
    | append i d =>
        have hst := okOf _ hf'
        have := (append_spec al (s.get i) d (get_inv s i h)).1 hst
        simp [step, specStep, abs_put, abs_get, this.2.1, Out.ofRes]
    | appendSelf i off k =>
        have hI := get_inv s i h
        have hl := len_readable (s.get i) hI
        simp only [step, specStep, abs_get, hl]
        split
        · rename_i hcond
          split
          · rename_i hst
            have he := ensure_spec al (s.get i) k hI
            have hk := he.1 hst
            have hlen : ((s.get i).ensure al k).buf.w - ((s.get i).ensure al k).buf.r = (s.get i).w - (s.get i).r := by
              rw [← readable_length _ hk.1, hk.2.1, readable_length _ hI]
            have ha := appendSelfRaw_reserved al ((s.get i).ensure al k).buf off k hk.1 hk.2.2
              (by rw [hlen, ← readableSize_eq _ hI]; exact hcond)
            simp [abs_put, ha.2.2.2.1, hk.2.1, Out.ofRes]
          · rename_i hst
            simp [step, hcond, hst, Out.failed, Out.ofRes] at hf'
        · simp
    | appendFrom i j off k =>
        have hl := len_readable (s.get j) (get_inv s j h)
        simp only [step, specStep, abs_get, hl] at hf' ⊢
        split
        · simp
        · rename_i hcond; simp only [hcond, ↓reduceIte] at hf'
          have hst : ((s.get i).append al (((s.get j).readable.drop off).take k)).st = .ok := by
            simpa [Out.failed, Out.ofRes] using hf'
          have := (append_spec al (s.get i) _ (get_inv s i h)).1 hst
          simp [abs_put, this.2.1, Out.ofRes]
    | fetchSelf i n =>
        by_cases hst : ((s.get i).ensure al (if n > (s.get i).readableSize then (s.get i).readableSize else n)).st = .ok
        · have := fetchSelf_spec al (s.get i) n (get_inv s i h) hst
          simp only [step, hst, ↓reduceIte, specStep, abs_get, abs_put, this.2.2.1, this.2.2.2.1, and_self]
        · simp [step, hst, Out.failed, Out.ofRes] at hf'
    | reserve i n =>
        have hst : ((s.get i).ensure al n).st = .ok := by simpa [step, Out.failed, Out.ofRes] using hf'
        have := (ensure_spec al (s.get i) n (get_inv s i h)).1 hst
        simp only [step, specStep, abs_put, this.2.1, Out.ofRes, and_true]
        rw [← abs_get]; exact spec_put_get_self _ _
    | rwc i n d =>
        have hn : d.length ≤ n := by simpa [Op.inContract] using hc
        have hst := okOf _ hf'
        have := (rwc_spec al (s.get i) n d (get_inv s i h) hn).1 hst
        simp [step, specStep, abs_put, abs_get, this.2, Out.ofRes]
    | over i n => simp [Op.inContract] at hc
    | fetch i n =>
        have := fetch_spec (s.get i) n (get_inv s i h)
        simp [step, specStep, abs_put, abs_get, this.2.1, this.2.2.1]
    | consume i n =>
        simp [step, specStep, abs_put, abs_get, (hasRead_spec _ n (get_inv s i h)).2.1]
    | consumeAll i => simp [step, specStep, abs_put, (hasReadAll_spec _ (get_inv s i h)).2]
    | shrink i =>
        have hst := okOf _ hf'
        have := (cloneInto_spec al (s.get i) (s.get i) (get_inv s i h)).1 hst
        simp only [step, specStep, abs_put, Buf.shrink, this.2, Out.ofRes, and_true]
        rw [← abs_get]; exact spec_put_get_self _ _
    | copyAssign dst src =>
        simp only [step, specStep] at hf' ⊢; split
        · simp
        · rename_i hne; simp only [hne, ↓reduceIte] at hf'
          have := (cloneInto_spec al (s.get dst) (s.get src) (get_inv s src h)).1 (okOf _ hf')
          simp [abs_put, abs_get, this.2, Out.ofRes]
    | moveAssign dst src =>
        simp only [step, specStep]; split <;> simp [abs_put, abs_get, empty_readable]
    | copyCtor dst src =>
        simp only [step, specStep] at hf' ⊢; split
        · simp
        · rename_i hne; simp only [hne, ↓reduceIte] at hf'
          have := (cloneInto_spec al (s.get dst) (s.get src) (get_inv s src h)).1 (okOf _ hf')
          simp [abs_put, abs_get, this.2, Out.ofRes]
    | moveCtor dst src =>
        simp only [step, specStep]; split <;> simp [abs_put, abs_get, empty_readable]
    | swap i j => simp [step, specStep, abs_put, abs_get]
    | reset i => simp [step, specStep, abs_put, empty_readable]

/-! ### the statements for every operation sequence and every allocator behaviour -/

theorem init_inv : StoreInv init := by
  intro b hb; simp [init] at hb; rw [hb.2]; exact mk'_inv _ kInit_lt

/-- **C07_inv / C07_in_bounds.** For every sequence of well-formed operations that keeps the
reserve/commit contract (`|d| ≤ n` in reserve-write-commit; over-commit allowed!), every answer of
the allocator to every request, from any consistent store: all buffers stay consistent and every
`memcpy`/`memmove` performed lies inside the storage it touches (zero-length copies are allowed
anywhere). -/
theorem C07_in_bounds (s : Store) (ops : List (Alloc × Op)) (h : StoreInv s)
    (hc : ∀ aop ∈ ops, aop.2.wf = true ∧ aop.2.rwcOk = true) :
    StoreInv (run s ops).1 ∧ ∀ o ∈ (run s ops).2, ∀ a ∈ o.accesses, a.ok := by
  induction ops generalizing s with
  | nil => exact ⟨h, by simp [run]⟩
  | cons aop ops ih =>
      obtain ⟨al, op⟩ := aop
      have hop := hc (al, op) List.mem_cons_self
      have h1 := C07_step_safe al s op h hop.1 hop.2
      have h2 := ih (step al s op).1 h1.1 (fun o ho => hc o (List.mem_cons_of_mem _ ho))
      refine ⟨h2.1, ?_⟩
      intro o ho
      simp only [run, List.mem_cons] at ho
      rcases ho with rfl | ho
      · exact h1.2
      · exact h2.2 o ho

/-- **C07_refines_fifo.** For every in-contract operation sequence and every behaviour of the
allocator the buffer store behaves exactly like a store of FIFO byte queues in which the
operations that reported failure are skipped: the bytes obtained by every `fetch` and the final
contents are those of the FIFO specification — written bytes, in order, once each. -/
theorem C07_refines_fifo (s : Store) (ops : List (Alloc × Op)) (h : StoreInv s)
    (hc : ∀ aop ∈ ops, aop.2.wf = true ∧ aop.2.inContract = true) :
    abs (run s ops).1 = (specRun (abs s) (failures s ops)).1 ∧
    (run s ops).2.map (·.fetched) = (specRun (abs s) (failures s ops)).2 := by
  induction ops generalizing s with
  | nil => simp [run, specRun, failures]
  | cons aop ops ih =>
      obtain ⟨al, op⟩ := aop
      have hop := hc (al, op) List.mem_cons_self
      have h1 := C07_step_refines al s op h hop.2
      have hs : StoreInv (step al s op).1 := by
        refine (C07_step_safe al s op h hop.1 ?_).1
        have := hop.2
        cases op <;> simp_all [Op.inContract, Op.rwcOk]
      have h2 := ih (step al s op).1 hs (fun o ho => hc o (List.mem_cons_of_mem _ ho))
      simp only [run, specRun, failures, List.map_cons]
      rw [← h1.1, ← h1.2]
      exact ⟨h2.1, by rw [h2.2]⟩

/-- **C07_total_alloc.** With an allocator that never fails, the only operations that can report
failure are reservations whose size is not representable (`write_index_ + n > SIZE_MAX/2`). -/
theorem C07_no_badAlloc (al : Alloc) (b : Buf) (n : Nat) (h : b.Inv) (hal : ∀ sz, al sz = true) :
    (b.ensure al n).st = .ok ∨ ((b.ensure al n).st = .refused ∧ b.w + n > maxHalf) := by
  rw [ensure_status al b n h]
  by_cases hg : b.needsGrowth n
  · by_cases hm : b.w + n > maxHalf
    · right; simp [hg, hm]
    · left; simp [hg, hm, hal]
  · left; simp [hg]

/-- **C07_size.** The reported readable size (`size_t` subtraction) is the length of the FIFO content. -/
theorem C07_size (b : Buf) (h : b.Inv) : b.readableSize = b.readable.length :=
  (len_readable b h).symm

/-- **C07_reserve.** (code with patch C07-01) For every `size_t` request and every allocator:
a reservation that reports success leaves at least `n` bytes physically inside the storage behind
`write_index_` (so `writableSize() ≥ n` is not an artefact of a wrapped subtraction) and the
content unchanged; one that reports failure changes nothing; and it reports failure exactly when
the request needs a reallocation and either `write_index_ + n` exceeds `SIZE_MAX/2` (`refused`)
or the allocator refuses `2·(write_index_ + n)` bytes (`badAlloc`). -/
theorem C07_reserve (al : Alloc) (b : Buf) (n : Nat) (h : b.Inv) :
    ((b.ensure al n).st = .ok →
        (b.ensure al n).buf.w + n ≤ (b.ensure al n).buf.mem.length ∧ (b.ensure al n).buf.writable ≥ n ∧
        (b.ensure al n).buf.readable = b.readable ∧ (b.ensure al n).buf.Inv) ∧
    ((b.ensure al n).st ≠ .ok → (b.ensure al n).buf = b) ∧
    (b.ensure al n).st =
      (if ¬ b.needsGrowth n then .ok
       else if b.w + n > maxHalf then .refused
       else if al ((b.w + n) * 2) then .ok else .badAlloc) := by
  have e := ensure_spec al b n h
  refine ⟨fun hst => ?_, e.2.1, ensure_status al b n h⟩
  have k := e.1 hst
  refine ⟨k.2.2, ?_, k.2.1, k.1⟩
  rw [writable_eq _ k.1]; omega

/-- **C07_reserve_asfound_partial.** The code as found (no overflow check) agrees with the
repaired code — and therefore keeps the reservation contract — whenever `2·(write_index_ + n)`
is representable. -/
theorem C07_reserve_asfound_partial (al : Alloc) (b : Buf) (n : Nat)
    (hs : (b.w + n) * 2 < W) : b.ensureAsFound al n = b.ensure al n := by
  unfold Buf.ensureAsFound Buf.ensure
  have : ¬ (b.w > maxHalf ∨ n > maxHalf - b.w) := by unfold W maxHalf at *; omega
  simp [this]

/-- **C07_reserve_asfound_weakest.** That hypothesis is the weakest: at EVERY point outside it
where the reallocation branch is taken and the allocator grants the (wrapped) size, the code as
found reports success with a new block that cannot hold `write_index_ + n` bytes. -/
theorem C07_reserve_asfound_weakest (al : Alloc) (b : Buf) (n : Nat) (h : b.Inv) (hn : n < W)
    (hg : b.needsGrowth n) (hov : ¬ (b.w + n) * 2 < W) (hal : al (growSize b.w n) = true) :
    (b.ensureAsFound al n).st = .ok ∧ (b.ensureAsFound al n).news = 1 ∧ growSize b.w n < b.w + n := by
  have hw := writable_eq b h
  obtain ⟨hrw, hws, hW⟩ := h
  obtain ⟨h0, h1, h2⟩ := hg
  have ha : uadd (b.mem.length - b.w) b.r = b.mem.length - b.w + b.r := uadd_eq _ _ (by omega)
  have e1 : ¬ (b.mem.length - b.w ≥ n) := by omega
  have e2 : ¬ (b.mem.length - b.w + b.r ≥ n) := by omega
  refine ⟨?_, ?_, ?_⟩
  · unfold Buf.ensureAsFound; simp only [hw, ha, h0, e1, e2, ↓reduceIte]; unfold Buf.regrow; simp [hal]
  · unfold Buf.ensureAsFound; simp only [hw, ha, h0, e1, e2, ↓reduceIte]; unfold Buf.regrow; simp [hal]
  · unfold growSize ushl1 uadd
    (repeat' split) <;> (unfold W at *; omega)

/-- **C07_reserve_asfound_counterexample.** As found: `Buffer b(0); b.ensureWritableSize(2^63)`
allocates `(0 + 2^63) << 1 = 0` bytes and returns `true`. -/
theorem C07_reserve_asfound_counterexample :
    let b : Buf := { mem := [], r := 0, w := 0 }
    let e := b.ensureAsFound (fun _ => true) 9223372036854775808
    b.Inv ∧ e.st = .ok ∧ e.buf.mem.length = 0 := by
  decide +kernel

/-- **C07_in_bounds_asfound_counterexample.** As found: 16 readable bytes, request `2^63 − 10`:
the new block has `(16 + 2^63 − 10) << 1 = 12` bytes and the 16 readable bytes are copied into it. -/
theorem C07_in_bounds_asfound_counterexample :
    let b : Buf := { mem := List.replicate 16 7, r := 0, w := 16 }
    let e := b.ensureAsFound (fun _ => true) 9223372036854775798
    b.Inv ∧ e.st = .ok ∧ growSize b.w 9223372036854775798 = 12 ∧ (∃ a ∈ e.acc, ¬ a.ok) := by
  decide +kernel

/-- the same request on the repaired code is refused and changes nothing -/
theorem C07_reserve_huge_refused :
    let b : Buf := { mem := List.replicate 16 7, r := 0, w := 16 }
    let e := b.ensure (fun _ => true) 9223372036854775798
    e.st = .refused ∧ e.buf = b ∧ e.acc = [] := by
  decide +kernel

/-- **C07_alloc_failure_asfound_counterexample.** As found, a copy assignment whose allocation
throws leaves the destination with a null storage under its old indices: it still reports 4
readable bytes and the next `fetch` copies them from `nullptr`. -/
theorem C07_alloc_failure_asfound_counterexample :
    let dst : Buf := { mem := [1, 2, 3, 4], r := 0, w := 4 }
    let src : Buf := { mem := [9, 9], r := 0, w := 2 }
    let x := Buf.cloneIntoAsFound (fun _ => false) dst src
    dst.Inv ∧ src.Inv ∧ x.st = .badAlloc ∧ ¬ x.buf.Inv ∧ x.buf.readableSize = 4 ∧
    (∃ a ∈ (x.buf.fetch 1).2.2, ¬ a.ok) := by
  decide +kernel

/-- **C07_copy_independent.** After `dst = src` the two are equal as queues and any later
operation on one slot leaves every other slot's content unchanged (the store is functional:
what this rules out in the C++ — shared storage after copy — is what the correspondence
harness exercises by mutating the source and re-reading the copy). -/
theorem C07_copy_equal (al : Alloc) (s : Store) (dst src : Nat) (h : StoreInv s) (hd : dst < s.length)
    (hne : dst ≠ src) (hok : (step al s (.copyAssign dst src)).2.failed = false) :
    ((step al s (.copyAssign dst src)).1.get dst).readable = (s.get src).readable := by
  have hr := (C07_step_refines al s (.copyAssign dst src) h rfl).1
  rw [hok] at hr
  have := congrArg (fun q => Spec.get q dst) hr
  simp only [abs_get, specStepF, specStep, hne, ↓reduceIte, Bool.false_eq_true] at this
  rw [this]
  have hd' : dst < (abs s).length := by simpa [abs] using hd
  simp [Spec.get, Spec.put, hd', ← abs_get]

/-- **C07_moved_from_empty.** A moved-from or reset buffer is empty. -/
theorem C07_moved_from_empty (al : Alloc) (s : Store) (dst src : Nat) (hs : src < s.length) (hne : dst ≠ src) :
    ((step al s (.moveAssign dst src)).1.get src).readable = [] ∧
    ((step al s (.reset src)).1.get src).readable = [] := by
  simp [step, hne, Store.get, Store.put, hs, empty_readable]

/-! ### append whose source is the buffer's own storage (aliasing) -/

/-- **C07_self_append_reserved.** If the `k` bytes are reserved before the source pointer is
taken, `b.append(b.readableBegin()+off, k)` is inside the contract: nothing moves, nothing is
reallocated, source and destination are disjoint, every access is in bounds and the effect is
the FIFO append of that slice. -/
theorem C07_self_append_reserved (al : Alloc) (b : Buf) (off k : Nat) (h : b.Inv)
    (hk : b.w + k ≤ b.mem.length) (ho : off + k ≤ b.w - b.r) :
    (b.appendSelfRaw al off k).2 = .none ∧ (b.appendSelfRaw al off k).1.st = .ok ∧
    (b.appendSelfRaw al off k).1.buf.Inv ∧
    (b.appendSelfRaw al off k).1.buf.readable = b.readable ++ (b.readable.drop off).take k ∧
    (b.appendSelfRaw al off k).1.news = 0 ∧ (b.appendSelfRaw al off k).1.dels = 0 ∧
    (∀ a ∈ (b.appendSelfRaw al off k).1.acc, a.ok) :=
  appendSelfRaw_reserved al b off k h hk ho

/-- **C07_self_append_growth_dangling.** Without the reservation: whenever the append has to
reallocate, the block the source points into is deleted before it is read. -/
theorem C07_self_append_growth_dangling (al : Alloc) (b : Buf) (off k : Nat) (h : b.Inv)
    (hg : b.needsGrowth k) (hs : b.w + k ≤ maxHalf) (hal : al ((b.w + k) * 2) = true) :
    (b.appendSelfRaw al off k).2 = .dangling :=
  appendSelfRaw_growth_dangling al b off k h hg hs hal

/-- **C07_self_append_compaction_counterexample.** Without the reservation, compaction moves the
bytes under the source pointer: an 8-byte buffer holding `3 4 5 6 7 8` (two bytes consumed),
`append(readableBegin(), 2)` appends `5 6` instead of `3 4` (no overlap, no out-of-bounds access:
silent corruption); with `r = 3, w = 8, size = 10, k = 4` source and destination of the `memcpy` overlap. -/
theorem C07_self_append_compaction_counterexample :
    (let b : Buf := { mem := [1, 2, 3, 4, 5, 6, 7, 8], r := 2, w := 8 }
     let x := b.appendSelfRaw (fun _ => true) 0 2
     b.Inv ∧ x.2 = .none ∧ (∀ a ∈ x.1.acc, a.ok) ∧ b.readable = [3, 4, 5, 6, 7, 8] ∧
     x.1.buf.readable = [3, 4, 5, 6, 7, 8, 5, 6]) ∧
    (let b : Buf := { mem := [0, 1, 2, 3, 4, 5, 6, 7, 8, 9], r := 3, w := 8 }
     b.Inv ∧ (b.appendSelfRaw (fun _ => true) 0 4).2 = .overlap) := by
  decide +kernel

/-! ### pointer validity epochs -/

/-- **C07_storage_epoch.** Pointers obtained from `readableBegin()/writableBegin()` are offsets
into the current block.  (1) Reading operations keep the block and its bytes: such pointers stay
valid and see the same bytes.  (2) A reservation that makes no `new[]` request keeps the block
(its size is unchanged: old pointers stay inside it), and one that performs no copy at all leaves
the buffer identical.  (3) A reservation that does make a successful request replaces the block
(`delete[]` of the old one is counted): every earlier pointer is invalid. -/
theorem C07_storage_epoch (al : Alloc) (b : Buf) (n : Nat) (h : b.Inv) :
    (b.hasRead n).mem = b.mem ∧ (b.fetch n).1.mem = b.mem ∧ b.hasReadAll.mem = b.mem ∧
    (b.hasWritten n).mem = b.mem ∧
    ((b.ensure al n).news = 0 → (b.ensure al n).buf.mem.length = b.mem.length ∧ (b.ensure al n).dels = 0) ∧
    ((b.ensure al n).st = .ok → (b.ensure al n).acc = [] → (b.ensure al n).news = 0 → (b.ensure al n).buf = b) ∧
    ((b.ensure al n).st = .ok → (b.ensure al n).news = 1 → (b.ensure al n).dels = b.owns) := by
  refine ⟨(hasRead_spec b n h).2.2, ?_, rfl, ?_, ?_, ?_, ?_⟩
  · unfold Buf.fetch; exact (hasRead_spec b _ h).2.2
  · unfold Buf.hasWritten; split <;> rfl
  all_goals
    rw [ensure_cases al b n h]
    have c := compact_spec b h
    have rn : (b.regrow al n).news = 1 := by
      by_cases hal : al (growSize b.w n) = true <;> simp [Buf.regrow, hal]
    have rd : (b.regrow al n).st = .ok → (b.regrow al n).dels = b.owns := by
      by_cases hal : al (growSize b.w n) = true <;> simp [Buf.regrow, hal]
    (repeat' split) <;> simp_all [Buf.compact]


/-! ### frame: an operation touches only the buffers it names -/

theorem get_put_ne (s : Store) (i k : Nat) (b : Buf) (h : k ≠ i) : (s.put i b).get k = s.get k := by
  unfold Store.get Store.put
  rw [List.getD_eq_getElem?_getD, List.getD_eq_getElem?_getD, List.getElem?_set_ne (Ne.symm h)]

theorem get_put_self (s : Store) (i : Nat) (b : Buf) (h : i < s.length) : (s.put i b).get i = b := by
  unfold Store.get Store.put
  rw [List.getD_eq_getElem?_getD, List.getElem?_set_self h]; rfl

theorem step_frame (al : Alloc) (s : Store) (op : Op) (k : Nat) (hk : k ∉ op.slots) :
    (step al s op).1.get k = s.get k := by
  cases op <;> simp only [Op.slots, List.mem_cons, List.not_mem_nil, or_false, not_or] at hk <;>
    simp only [step] <;> (repeat' split) <;>
    first
      | rfl
      | exact get_put_ne _ _ _ _ hk
      | (rw [get_put_ne _ _ _ _ hk.2, get_put_ne _ _ _ _ hk.1])
      | (rw [get_put_ne _ _ _ _ hk.1, get_put_ne _ _ _ _ hk.2])
      | exact get_put_ne _ _ _ _ hk.1
      | exact get_put_ne _ _ _ _ hk.2

theorem run_frame (s : Store) (ops : List (Alloc × Op)) (k : Nat) (hk : ∀ aop ∈ ops, k ∉ aop.2.slots) :
    (run s ops).1.get k = s.get k := by
  induction ops generalizing s with
  | nil => rfl
  | cons aop ops ih =>
      obtain ⟨al, op⟩ := aop
      simp only [run]
      rw [ih _ (fun o ho => hk o (List.mem_cons_of_mem _ ho))]
      exact step_frame al s op k (hk (al, op) List.mem_cons_self)


theorem put_put_same (s : Store) (i : Nat) (a b : Buf) : (s.put i a).put i b = s.put i b := by
  unfold Store.put; exact List.set_set _

/-- **C07_copy_independent.** "A copy is independent of its source": after `dst = src` succeeded,
(1) whatever is done afterwards to buffers other than the copy — in particular to the source: append,
consume, reset, reallocation, destruction and reconstruction — the copy still holds the bytes the source
held at the time of the copy; (2) whatever is done afterwards to buffers other than the source — in
particular to the copy — leaves the source identical (storage, indices, content).  For every
allocator behaviour and every operation sequence. -/
theorem C07_copy_independent (al : Alloc) (s : Store) (dst src : Nat) (h : StoreInv s) (hd : dst < s.length)
    (hne : dst ≠ src) (hok : (step al s (.copyAssign dst src)).2.failed = false) (ops : List (Alloc × Op)) :
    ((∀ aop ∈ ops, dst ∉ aop.2.slots) →
      ((run (step al s (.copyAssign dst src)).1 ops).1.get dst).readable = (s.get src).readable) ∧
    ((∀ aop ∈ ops, src ∉ aop.2.slots) →
      (run (step al s (.copyAssign dst src)).1 ops).1.get src = s.get src) := by
  refine ⟨fun hk => ?_, fun hk => ?_⟩
  · rw [run_frame _ ops dst hk]; exact C07_copy_equal al s dst src h hd hne hok
  · rw [run_frame _ ops src hk]
    simp only [step, hne, ↓reduceIte]
    exact get_put_ne _ _ _ _ (Ne.symm hne)

/-! ### composite statements and the strong exception guarantee -/

/-- a composite statement sequence that may be cut short by `std::bad_alloc` is a run of a prefix of
it: every theorem about `run` (refinement, bounds, invariant) covers composite operations. -/
theorem C07_script_is_run (s : Store) (ops : List (Alloc × Op)) :
    ∃ k, runUntilThrow s ops = run s (ops.take k) := by
  induction ops generalizing s with
  | nil => exact ⟨0, rfl⟩
  | cons aop ops ih =>
      obtain ⟨al, op⟩ := aop
      by_cases hb : (step al s op).2.st = .badAlloc
      · exact ⟨1, by simp [runUntilThrow, run, hb]⟩
      · obtain ⟨k, hk⟩ := ih (step al s op).1
        exact ⟨k + 1, by simp [runUntilThrow, run, hb, hk]⟩

/-- **C07_roundtrip_strong.** `{ Buffer c(b); b = c; }` — two allocations inside one composite
operation, each with its own allocator answer: if EITHER throws, the store is exactly what it was
(strong guarantee: storage, indices, content of `b`; the temporary is gone); if both succeed `b`
holds the same bytes.  `t` is the temporary's slot (empty before and after). -/
theorem C07_roundtrip_strong (al1 al2 al3 : Alloc) (s : Store) (i t : Nat) (h : StoreInv s)
    (hi : i < s.length) (ht : t < s.length) (hne : i ≠ t) (hempty : s.get t = Buf.empty) :
    let r := runScript s [(al1, .copyCtor t i), (al2, .copyAssign i t)] [(al3, .reset t)]
    StoreInv r.1 ∧ r.1.get t = Buf.empty ∧ (r.1.get i).readable = (s.get i).readable ∧
    ((∃ o ∈ r.2, o.failed = true) → r.1 = s) := by
  have hne' : t ≠ i := Ne.symm hne
  have hreset : ∀ s' : Store, (step al3 s' (.reset t)).1 = s'.put t Buf.empty := fun _ => rfl
  by_cases hf1 : (step al1 s (.copyCtor t i)).2.failed = true
  · -- the copy constructor throws: nothing was built
    have hn := C07_fail_noop al1 s _ h hf1
    have hb : (step al1 s (.copyCtor t i)).2.st = .badAlloc := by
      simp only [step, hne', ↓reduceIte] at hf1 ⊢
      have := (cloneInto_spec al1 (s.get t) (s.get i) (get_inv s i h))
      unfold Buf.cloneInto at hf1 ⊢
      (repeat' split) <;> simp_all [Out.failed, Out.ofRes]
    have hfin : (runScript s [(al1, .copyCtor t i), (al2, .copyAssign i t)] [(al3, .reset t)]).1 = s := by
      simp only [runScript, runUntilThrow, run, hb, ↓reduceIte, hn, hreset]
      rw [← hempty]; exact put_get_self s t
    simp only
    rw [hfin]
    exact ⟨h, hempty, rfl, fun _ => rfl⟩
  · have hf1' : (step al1 s (.copyCtor t i)).2.failed = false := by simpa using hf1
    have hb1 : (step al1 s (.copyCtor t i)).2.st ≠ .badAlloc := by
      intro hb; simp [Out.failed, hb] at hf1'
    have hs1 : StoreInv (step al1 s (.copyCtor t i)).1 := (C07_step_safe al1 s _ h rfl rfl).1
    have hr1 := (C07_step_refines al1 s (.copyCtor t i) h rfl).1
    rw [hf1'] at hr1
    -- the temporary holds b's bytes, b is untouched
    have hgi : (step al1 s (.copyCtor t i)).1.get i = s.get i := by
      simp only [step, hne', ↓reduceIte]; exact get_put_ne _ _ _ _ hne
    have hgt : ((step al1 s (.copyCtor t i)).1.get t).readable = (s.get i).readable := by
      have := congrArg (fun q => Spec.get q t) hr1
      simp only [abs_get, specStepF, specStep, hne', ↓reduceIte, Bool.false_eq_true] at this
      rw [this]
      have ht' : t < (abs s).length := by simpa [abs] using ht
      simp [Spec.get, Spec.put, ht', ← abs_get]
    have hput1 : (step al1 s (.copyCtor t i)).1 = s.put t ((step al1 s (.copyCtor t i)).1.get t) := by
      simp only [step, hne', ↓reduceIte]
      rw [get_put_self _ _ _ ht]
    generalize hS1 : (step al1 s (.copyCtor t i)).1 = s1 at *
    by_cases hf2 : (step al2 s1 (.copyAssign i t)).2.failed = true
    · have hn2 := C07_fail_noop al2 s1 _ hs1 hf2
      have hfin : (runScript s [(al1, .copyCtor t i), (al2, .copyAssign i t)] [(al3, .reset t)]).1 = s := by
        simp only [runScript, runUntilThrow, run, hb1, ↓reduceIte, hS1, hn2, hreset]
        split <;> (rw [hput1, put_put_same, ← hempty]; exact put_get_self s t)
      simp only
      rw [hfin]
      exact ⟨h, hempty, rfl, fun _ => rfl⟩
    · have hf2' : (step al2 s1 (.copyAssign i t)).2.failed = false := by simpa using hf2
      have hb2 : (step al2 s1 (.copyAssign i t)).2.st ≠ .badAlloc := by
        intro hb; simp [Out.failed, hb] at hf2'
      have hs2 : StoreInv (step al2 s1 (.copyAssign i t)).1 := (C07_step_safe al2 s1 _ hs1 rfl rfl).1
      have hi1 : i < s1.length := by rw [hput1]; simpa [Store.put] using hi
      have hc := C07_copy_equal al2 s1 i t hs1 hi1 hne hf2'
      have hfin : (runScript s [(al1, .copyCtor t i), (al2, .copyAssign i t)] [(al3, .reset t)]).1 =
          (step al2 s1 (.copyAssign i t)).1.put t Buf.empty := by
        simp only [runScript, runUntilThrow, run, hb1, hb2, ↓reduceIte, hS1, hreset]
      have hlen2 : t < (step al2 s1 (.copyAssign i t)).1.length := by
        simp only [step, hne, ↓reduceIte, Store.put, List.length_set]
        rw [hput1]; simpa [Store.put] using ht
      have houts : (runScript s [(al1, .copyCtor t i), (al2, .copyAssign i t)] [(al3, .reset t)]).2 =
          [(step al1 s (.copyCtor t i)).2, (step al2 s1 (.copyAssign i t)).2, (step al3 (step al2 s1 (.copyAssign i t)).1 (.reset t)).2] := by
        simp only [runScript, runUntilThrow, run, hb1, hb2, ↓reduceIte, hS1, List.cons_append, List.nil_append]
      simp only
      rw [hfin]
      refine ⟨put_inv _ _ _ hs2 empty_inv, get_put_self _ _ _ hlen2, ?_, ?_⟩
      · rw [get_put_ne _ _ _ _ hne, hc, hgt]
      · rintro ⟨o, ho, hof⟩
        rw [houts] at ho
        simp only [List.mem_cons, List.not_mem_nil, or_false] at ho
        rcases ho with rfl | rfl | rfl
        · rw [hf1'] at hof; cases hof
        · rw [hf2'] at hof; cases hof
        · simp [step, Out.failed] at hof

/-- **C07_shrink_strong.** `shrink()` (clone into a temporary, swap, destroy the temporary): one
allocation; if it throws the buffer is identical and nothing was released; if it succeeds the
content is the same, the storage is exactly as large as the content and the read offset is 0. -/
theorem C07_shrink_strong (al : Alloc) (b : Buf) (h : b.Inv) :
    ((b.shrink al).st = .ok →
      (b.shrink al).buf.readable = b.readable ∧ (b.shrink al).buf.mem.length = b.readableSize ∧
      (b.shrink al).buf.r = 0 ∧ (b.shrink al).buf.Inv ∧ (b.shrink al).dels = b.owns) ∧
    ((b.shrink al).st ≠ .ok → (b.shrink al).buf = b ∧ (b.shrink al).st = .badAlloc ∧ (b.shrink al).dels = 0) ∧
    (b.shrink al).news ≤ 1 := by
  have c := cloneInto_spec al b b h
  have hl := len_readable b h
  rw [shrink_eq]
  refine ⟨fun hst => ⟨(c.1 hst).2, ?_, ?_, (c.1 hst).1, ?_⟩, fun hne => ⟨c.2.1 hne, ?_, ?_⟩, ?_⟩ <;>
    (unfold Buf.cloneInto at *; (repeat' split) <;> simp_all)

/-- **C07_fetch_into_writable.** `b.fetch(b.writableBegin(), n)` with room for the bytes: source
`[r, r+k)` and destination `[w, w+k)` of the `memcpy` never overlap (`k ≤ w − r`), both lie inside the
block, the caller finds exactly the fetched bytes at the destination, and the queue loses exactly them. -/
theorem C07_fetch_into_writable (b : Buf) (n : Nat) (h : b.Inv)
    (hk : b.w + min n (b.w - b.r) ≤ b.mem.length) :
    (b.fetchIntoRaw b.w n).2.2 = .none ∧ (b.fetchIntoRaw b.w n).1.buf.Inv ∧
    (b.fetchIntoRaw b.w n).1.buf.readable = b.readable.drop n ∧
    (b.fetchIntoRaw b.w n).2.1 = b.readable.take n ∧
    (b.fetchIntoRaw b.w n).1.buf.mem.length = b.mem.length ∧
    ((b.fetchIntoRaw b.w n).1.buf.mem.drop b.w).take (min n (b.w - b.r)) = b.readable.take n ∧
    (b.fetchIntoRaw b.w n).1.st = .ok ∧
    (∀ a ∈ (b.fetchIntoRaw b.w n).1.acc, a.ok) :=
  fetchIntoRaw_writable b n h hk

/-- **C07_fetch_into_own_counterexample.** A destination inside the readable window is outside the
contract: `fetch(readableBegin() + 1, 3)` on `1 2 3 4` is a `memcpy` with overlapping operands; and a
destination behind the storage (`writableBegin()` of a full buffer) is an out-of-bounds write. -/
theorem C07_fetch_into_own_counterexample :
    (let b : Buf := { mem := [1, 2, 3, 4, 0, 0], r := 0, w := 4 }
     b.Inv ∧ (b.fetchIntoRaw 1 3).2.2 = .overlap) ∧
    (let b : Buf := { mem := [1, 2, 3, 4], r := 0, w := 4 }
     b.Inv ∧ (∃ a ∈ (b.fetchIntoRaw b.w 2).1.acc, ¬ a.ok)) := by
  decide +kernel

/-- **C07_append_from_other.** `b_i.append(b_j.readableBegin() + off, k)` with `i ≠ j`: whatever the
append does to `b_i` (compaction, reallocation, failure), `b_j` stays identical, the source range lies
inside `b_j`'s block, and `b_i` gains exactly that slice of `b_j`'s queue. -/
theorem C07_append_from_other (al : Alloc) (s : Store) (i j off k : Nat) (h : StoreInv s)
    (hi : i < s.length) (hne : i ≠ j) (hk : off + k ≤ (s.get j).readableSize) :
    (step al s (.appendFrom i j off k)).1.get j = s.get j ∧
    (∀ a ∈ (step al s (.appendFrom i j off k)).2.accesses, a.ok) ∧
    ((step al s (.appendFrom i j off k)).2.failed = false →
      ((step al s (.appendFrom i j off k)).1.get i).readable =
        (s.get i).readable ++ ((s.get j).readable.drop off).take k) ∧
    ((step al s (.appendFrom i j off k)).2.failed = true → (step al s (.appendFrom i j off k)).1 = s) := by
  have hc : ¬ (i = j ∨ off + k > (s.get j).readableSize) := by
    intro hc; rcases hc with hc | hc
    · exact hne hc
    · omega
  have hwf : (Op.appendFrom i j off k).wf = true := by
    have hj := get_inv s j h
    rw [readableSize_eq _ hj] at hk
    obtain ⟨_, h2, h3⟩ := hj
    simp only [Op.wf, decide_eq_true_eq, Bool.decide_and, Bool.and_eq_true]
    omega
  refine ⟨?_, (C07_step_safe al s _ h hwf rfl).2, ?_, C07_fail_noop al s _ h⟩
  · simp only [step, hc, ↓reduceIte]; exact get_put_ne _ _ _ _ (Ne.symm hne)
  · intro hok
    simp only [step, hc, ↓reduceIte] at hok ⊢
    have hst : ((s.get i).append al (((s.get j).readable.drop off).take k)).st = .ok := by
      simpa [Out.failed, Out.ofRes] using hok
    rw [get_put_self _ _ _ hi]
    exact ((append_spec al (s.get i) _ (get_inv s i h)).1 hst).2.1


/-! ### the property, in one statement -/

/-- **C07_fifo_byte_queue.** The property statement as ONE theorem.  For every consistent store of
buffers (in particular the initial one, any initial capacities), every sequence of well-formed
in-contract operations — append, append from own / foreign storage, reserve-write-commit, fetch
(also into the own writable region), consume, consume-all, shrink, copy, move, swap, reset,
(re)construction — with every combination of `size_t` sizes, and every answer of the allocator to
every request:
1. the bytes obtained by reading are exactly the bytes previously written, in order and once each:
   contents and fetched bytes are those of the FIFO specification in which failed operations are skipped;
2. the readable size of every buffer is the length of its queue (bytes written − bytes consumed);
3. every buffer stays consistent and no `memcpy`/`memmove` touches memory outside the storage it names;
4. a reservation of ANY size on ANY buffer reached either reports success with `n` bytes physically
   behind the write index and the content unchanged, or reports failure and changes nothing;
5. a copy made at this point is independent of its source (both directions, for every continuation),
   and a moved-from or reset buffer is empty (and, being a consistent buffer, reusable: 1–5 apply to it). -/
theorem C07_fifo_byte_queue (s : Store) (ops : List (Alloc × Op)) (h : StoreInv s)
    (hc : ∀ aop ∈ ops, aop.2.wf = true ∧ aop.2.inContract = true) :
    (abs (run s ops).1 = (specRun (abs s) (failures s ops)).1 ∧
     (run s ops).2.map (·.fetched) = (specRun (abs s) (failures s ops)).2) ∧
    (∀ i, ((run s ops).1.get i).readableSize = (Spec.get (specRun (abs s) (failures s ops)).1 i).length) ∧
    (StoreInv (run s ops).1 ∧ ∀ o ∈ (run s ops).2, ∀ a ∈ o.accesses, a.ok) ∧
    (∀ b ∈ (run s ops).1, ∀ (al : Alloc) (n : Nat),
      ((b.ensure al n).st = .ok →
        (b.ensure al n).buf.w + n ≤ (b.ensure al n).buf.mem.length ∧ (b.ensure al n).buf.writable ≥ n ∧
        (b.ensure al n).buf.readable = b.readable ∧ (b.ensure al n).buf.Inv) ∧
      ((b.ensure al n).st ≠ .ok → (b.ensure al n).buf = b)) ∧
    (∀ (al : Alloc) (dst src : Nat), dst < (run s ops).1.length → dst ≠ src →
      (step al (run s ops).1 (.copyAssign dst src)).2.failed = false → ∀ ops' : List (Alloc × Op),
      ((∀ aop ∈ ops', dst ∉ aop.2.slots) →
        ((run (step al (run s ops).1 (.copyAssign dst src)).1 ops').1.get dst).readable = ((run s ops).1.get src).readable) ∧
      ((∀ aop ∈ ops', src ∉ aop.2.slots) →
        (run (step al (run s ops).1 (.copyAssign dst src)).1 ops').1.get src = (run s ops).1.get src)) ∧
    (∀ (al : Alloc) (dst src : Nat), src < (run s ops).1.length → dst ≠ src →
      ((step al (run s ops).1 (.moveAssign dst src)).1.get src).readable = [] ∧
      ((step al (run s ops).1 (.reset src)).1.get src).readable = []) := by
  have hrw : ∀ aop ∈ ops, aop.2.wf = true ∧ aop.2.rwcOk = true := by
    intro aop ha
    have := hc aop ha
    refine ⟨this.1, ?_⟩
    have h2 := this.2
    cases hop : aop.2 <;> simp_all [Op.inContract, Op.rwcOk]
  have hR := C07_refines_fifo s ops h hc
  have hB := C07_in_bounds s ops h hrw
  refine ⟨hR, ?_, hB, ?_, ?_, ?_⟩
  · intro i
    rw [← hR.1, abs_get]
    exact C07_size _ (get_inv _ i hB.1)
  · intro b hb al n
    have := C07_reserve al b n (hB.1 b hb)
    exact ⟨this.1, this.2.1⟩
  · intro al dst src hd hne hok ops'
    exact C07_copy_independent al _ dst src hB.1 hd hne hok ops'
  · intro al dst src hs hne
    exact C07_moved_from_empty al _ dst src hs hne


/-! ### non-vacuity: the hypotheses are met by a concrete, non-trivial run -/

example : StoreInv init := init_inv

/-- allocator of the harness: requests above 16 MiB are refused, `F`-prefixed operations get a
refusing allocator -/
def okAl : Alloc := fun sz => sz ≤ 16777216
def noAl : Alloc := fun _ => false

example :
    let ops : List (Alloc × Op) :=
      [(okAl, .append 0 [1,2,3]), (okAl, .rwc 0 300 [4,5]), (okAl, .consume 0 1), (noAl, .reserve 0 700),
       (okAl, .reserve 0 700), (noAl, .copyAssign 1 0), (okAl, .copyAssign 1 0), (okAl, .fetch 1 2),
       (okAl, .moveAssign 2 0), (okAl, .fetch 2 10), (okAl, .over 3 5),
       (okAl, .reserve 3 9223372036854775807), (okAl, .appendSelf 2 0 0)]
    (∀ aop ∈ ops, aop.2.wf = true ∧ aop.2.rwcOk = true) ∧
    (run init ops).2.map (·.fetched) = [[], [], [], [], [], [], [], [2,3], [], [2,3,4,5], [], [], []] ∧
    (run init ops).2.map (·.failed) = [false, false, false, true, false, true, false, false, false, false, false, true, false] := by
  decide +kernel

/-- the extended operation set, a composite with its temporary in slot 4, and the hypotheses of the
strong-guarantee / independence / aliasing theorems on concrete states -/
example :
    let ops : List (Alloc × Op) :=
      [(okAl, .append 0 [1,2,3,4,5]), (okAl, .consume 0 1), (okAl, .appendFrom 1 0 1 2), (okAl, .fetchSelf 0 3),
       (noAl, .appendFrom 2 0 0 1), (okAl, .appendSelf 1 0 2), (okAl, .fetchSelf 1 100)]
    (∀ aop ∈ ops, aop.2.wf = true ∧ aop.2.inContract = true) ∧
    (run init ops).2.map (·.fetched) = [[], [], [], [2,3,4], [], [], [3,4,3,4]] ∧
    ((run init ops).1.get 0).readable = [5] := by
  decide +kernel

example :
    let s : Store := [{ mem := [7, 8, 9, 0], r := 1, w := 3 }, Buf.mk' 2, Buf.empty]
    (∀ b ∈ s, b.Inv) ∧ (0 : Nat) < s.length ∧ (2 : Nat) < s.length ∧ s.get 2 = Buf.empty ∧
    -- both allocations succeed / the second one throws
    ((runScript s [(okAl, .copyCtor 2 0), (okAl, .copyAssign 0 2)] [(okAl, .reset 2)]).1.get 0).mem = [8, 9] ∧
    (runScript s [(okAl, .copyCtor 2 0), (noAl, .copyAssign 0 2)] [(okAl, .reset 2)]).1 = s ∧
    (runScript s [(okAl, .copyCtor 2 0), (noAl, .copyAssign 0 2)] [(okAl, .reset 2)]).2.map (·.failed) = [false, true, false] ∧
    -- hypotheses of C07_copy_independent / C07_append_from_other
    (step okAl s (.copyAssign 1 0)).2.failed = false ∧ 0 + 2 ≤ (s.get 0).readableSize := by
  decide +kernel

example :
    let b : Buf := { mem := [1, 2, 3, 4, 0, 0, 0], r := 1, w := 4 }
    b.Inv ∧ b.w + min 9 (b.w - b.r) ≤ b.mem.length ∧ (b.fetchIntoRaw b.w 9).2.1 = [2, 3, 4] := by
  decide +kernel

example : (Buf.mk' 8).Inv ∧ (Buf.mk' 8).needsGrowth 9 ∧ ¬ (((Buf.mk' 8).w + 9223372036854775808) * 2 < W) := by
  decide +kernel

end Tbox.C07
