/-
C07 — PROPERTY THEOREMS (statements only rely on Model.lean / Spec.lean;
helper lemmas live in Proofs.lean / BufLemmas.lean).

Property: "The byte buffer behaves as an unbounded FIFO byte queue … across any
mixture of append, reserve-write-commit, fetch, consume, consume-all, shrink,
copy, move, swap and reset; readable size = written − consumed; a copy is
independent of its source; a moved-from or reset buffer is empty and reusable;
no operation reads or writes outside the buffer's own storage."
-/
import TboxModel.C07.BufLemmas
namespace Tbox.C07
open Buf

/-- abstraction: a store of buffers is the list of their readable windows -/
def abs (s : Store) : Spec := s.map Buf.readable

def StoreInv (s : Store) : Prop := ∀ b ∈ s, b.Inv

/-! ### store plumbing -/

theorem abs_get (s : Store) (i : Nat) : Spec.get (abs s) i = (s.get i).readable := by
  unfold Spec.get abs Store.get
  rw [← empty_readable]
  induction s generalizing i with
  | nil => simp
  | cons b s ih => cases i <;> simp [ih]

theorem abs_put (s : Store) (i : Nat) (b : Buf) : abs (s.put i b) = Spec.put (abs s) i b.readable := by
  unfold abs Store.put Spec.put; exact List.map_set

theorem get_inv (s : Store) (i : Nat) (h : StoreInv s) : (s.get i).Inv := by
  unfold Store.get
  rw [List.getD_eq_getElem?_getD]
  cases h' : s[i]? with
  | none => exact empty_inv
  | some b => exact h b (List.mem_of_getElem? h')

theorem set_getD_self {α} (l : List α) (i : Nat) (d : α) : l.set i (l.getD i d) = l := by
  induction l generalizing i with
  | nil => simp
  | cons x l ih =>
      cases i with
      | zero => simp
      | succ n => simpa using ih n

theorem put_inv (s : Store) (i : Nat) (b : Buf) (h : StoreInv s) (hb : b.Inv) : StoreInv (s.put i b) := by
  intro x hx
  unfold Store.put at hx
  rcases List.mem_or_eq_of_mem_set hx with hx | hx
  · exact h x hx
  · exact hx ▸ hb

/-! ### C07_inv / C07_refines_fifo / C07_in_bounds — one step -/

/-- One step: the invariant `r ≤ w ≤ size` is preserved by EVERY operation (also the
over-commit that the reserve/commit contract forbids), and every memory access lies inside
the storage it touches. -/
theorem C07_step_safe (s : Store) (op : Op) (h : StoreInv s)
    (hc : op.rwcOk = true) :
    StoreInv (step s op).1 ∧ ∀ a ∈ (step s op).2.accesses, a.ok := by
  cases op with
  | construct i cap => exact ⟨put_inv _ _ _ h (mk'_inv cap), by simp [step]⟩
  | append i d =>
      have := append_spec (s.get i) d (get_inv s i h)
      exact ⟨put_inv _ _ _ h this.1, this.2.2⟩
  | reserve i n =>
      have := ensure_spec (s.get i) n (get_inv s i h)
      exact ⟨put_inv _ _ _ h this.1, ensure_accesses_ok _ _ (get_inv s i h)⟩
  | rwc i n d =>
      have := rwc_spec (s.get i) n d (get_inv s i h) (by simpa [Op.rwcOk] using hc)
      exact ⟨put_inv _ _ _ h this.1, this.2.2⟩
  | over i n =>
      have := userWrite_inv (s.get i) (List.replicate (s.get i).writable 0) (get_inv s i h) (by simp)
      exact ⟨put_inv _ _ _ h (hasWritten_inv _ _ this.1), this.2⟩
  | fetch i n =>
      have := fetch_spec (s.get i) n (get_inv s i h)
      exact ⟨put_inv _ _ _ h this.1, this.2.2.2⟩
  | consume i n => exact ⟨put_inv _ _ _ h (hasRead_spec _ n (get_inv s i h)).1, by simp [step]⟩
  | consumeAll i => exact ⟨put_inv _ _ _ h (hasReadAll_spec _).1, by simp [step]⟩
  | shrink i =>
      have := cloneOf_spec (s.get i) (get_inv s i h)
      exact ⟨put_inv _ _ _ h this.1, this.2.2⟩
  | copyAssign dst src =>
      simp only [step]; split
      · exact ⟨h, by simp⟩
      · have := cloneOf_spec (s.get src) (get_inv s src h)
        exact ⟨put_inv _ _ _ h this.1, this.2.2⟩
  | moveAssign dst src =>
      simp only [step]; split
      · exact ⟨h, by simp⟩
      · exact ⟨put_inv _ _ _ (put_inv _ _ _ h (get_inv s src h)) empty_inv, by simp⟩
  | copyCtor dst src =>
      simp only [step]; split
      · exact ⟨h, by simp⟩
      · have := cloneOf_spec (s.get src) (get_inv s src h)
        exact ⟨put_inv _ _ _ h this.1, this.2.2⟩
  | moveCtor dst src =>
      simp only [step]; split
      · exact ⟨h, by simp⟩
      · exact ⟨put_inv _ _ _ (put_inv _ _ _ h (get_inv s src h)) empty_inv, by simp⟩
  | swap i j =>
      exact ⟨put_inv _ _ _ (put_inv _ _ _ h (get_inv s j h)) (get_inv s i h), by simp [step]⟩
  | reset i => exact ⟨put_inv _ _ _ h empty_inv, by simp [step]⟩

/-- One step refines the FIFO specification: the abstraction commutes with the operation and
the bytes handed to the reader are the FIFO's. -/
theorem C07_step_refines (s : Store) (op : Op) (h : StoreInv s) (hc : op.inContract = true) :
    abs (step s op).1 = (specStep (abs s) op).1 ∧ (step s op).2.fetched = (specStep (abs s) op).2 := by
  cases op with
  | construct i cap => simp [step, specStep, abs_put, mk'_readable]
  | append i d =>
      have := append_spec (s.get i) d (get_inv s i h)
      simp [step, specStep, abs_put, abs_get, this.2.1]
  | reserve i n =>
      have := ensure_spec (s.get i) n (get_inv s i h)
      simp only [step, specStep, abs_put, this.2.1, and_true]
      rw [← abs_get]; unfold Spec.put Spec.get
      exact set_getD_self _ _ _
  | rwc i n d =>
      have hn : d.length ≤ n := by simpa [Op.inContract] using hc
      have := rwc_spec (s.get i) n d (get_inv s i h) hn
      simp [step, specStep, abs_put, abs_get, this.2.1]
  | over i n => simp [Op.inContract] at hc
  | fetch i n =>
      have := fetch_spec (s.get i) n (get_inv s i h)
      simp [step, specStep, abs_put, abs_get, this.2.1, this.2.2.1]
  | consume i n =>
      simp [step, specStep, abs_put, abs_get, (hasRead_spec _ n (get_inv s i h)).2]
  | consumeAll i => simp [step, specStep, abs_put, (hasReadAll_spec _).2]
  | shrink i =>
      have := cloneOf_spec (s.get i) (get_inv s i h)
      simp only [step, specStep, abs_put, Buf.shrink, this.2.1, and_true]
      rw [← abs_get]; unfold Spec.put Spec.get
      exact set_getD_self _ _ _
  | copyAssign dst src =>
      have := cloneOf_spec (s.get src) (get_inv s src h)
      simp only [step, specStep]; split <;> simp [abs_put, abs_get, this.2.1]
  | moveAssign dst src =>
      simp only [step, specStep]; split <;> simp [abs_put, abs_get, empty_readable]
  | copyCtor dst src =>
      have := cloneOf_spec (s.get src) (get_inv s src h)
      simp only [step, specStep]; split <;> simp [abs_put, abs_get, this.2.1]
  | moveCtor dst src =>
      simp only [step, specStep]; split <;> simp [abs_put, abs_get, empty_readable]
  | swap i j => simp [step, specStep, abs_put, abs_get]
  | reset i => simp [step, specStep, abs_put, empty_readable]

/-! ### the statements for every operation sequence -/

theorem init_inv : StoreInv init := by
  intro b hb; simp [init] at hb; rw [hb.2]; exact mk'_inv _

/-- **C07_inv / C07_in_bounds.** For every operation sequence that keeps the
reserve/commit contract (`|d| ≤ n` in reserve-write-commit; over-commit allowed!),
from any consistent store: all buffers stay consistent and every `memcpy`/`memmove`
performed lies inside the storage it touches (zero-length copies are allowed anywhere). -/
theorem C07_in_bounds (s : Store) (ops : List Op) (h : StoreInv s)
    (hc : ∀ op ∈ ops, op.rwcOk = true) :
    StoreInv (run s ops).1 ∧ ∀ o ∈ (run s ops).2, ∀ a ∈ o.accesses, a.ok := by
  induction ops generalizing s with
  | nil => exact ⟨h, by simp [run]⟩
  | cons op ops ih =>
      have h1 := C07_step_safe s op h (hc op (List.mem_cons_self))
      have h2 := ih (step s op).1 h1.1 (fun o ho => hc o (List.mem_cons_of_mem _ ho))
      refine ⟨h2.1, ?_⟩
      intro o ho
      simp only [run, List.mem_cons] at ho
      rcases ho with rfl | ho
      · exact h1.2
      · exact h2.2 o ho

/-- **C07_refines_fifo.** For every in-contract operation sequence the buffer store behaves
exactly like a store of FIFO byte queues: the bytes obtained by every `fetch` and the final
contents are those of the FIFO specification — written bytes, in order, once each. -/
theorem C07_refines_fifo (s : Store) (ops : List Op) (h : StoreInv s)
    (hc : ∀ op ∈ ops, op.inContract = true) :
    abs (run s ops).1 = (specRun (abs s) ops).1 ∧
    (run s ops).2.map (·.fetched) = (specRun (abs s) ops).2 := by
  induction ops generalizing s with
  | nil => simp [run, specRun]
  | cons op ops ih =>
      have hop := hc op List.mem_cons_self
      have h1 := C07_step_refines s op h hop
      have hs : StoreInv (step s op).1 := by
        refine (C07_step_safe s op h ?_).1
        cases op <;> simp_all [Op.inContract, Op.rwcOk]
      have h2 := ih (step s op).1 hs (fun o ho => hc o (List.mem_cons_of_mem _ ho))
      simp only [run, specRun, List.map_cons]
      rw [← h1.1, ← h1.2]
      exact ⟨h2.1, by rw [h2.2]⟩

/-- **C07_size.** The reported readable size is the length of the FIFO content. -/
theorem C07_size (b : Buf) (h : b.Inv) : b.readableSize = b.readable.length := by
  rw [readable_length b h]; rfl

/-- **C07_reserve.** After reserving `n` bytes at least `n` bytes are writable and the
content is unchanged. -/
theorem C07_reserve (b : Buf) (n : Nat) (h : b.Inv) :
    (b.ensure n).1.writable ≥ n ∧ (b.ensure n).1.readable = b.readable :=
  ⟨(ensure_spec b n h).2.2, (ensure_spec b n h).2.1⟩

/-- **C07_copy_independent.** After `dst = src` the two are equal as queues and any later
operation on one slot leaves every other slot's content unchanged (the store is functional:
what this rules out in the C++ — shared storage after copy — is what the correspondence
harness exercises by mutating the source and re-reading the copy). -/
theorem C07_copy_equal (s : Store) (dst src : Nat) (h : StoreInv s) (hd : dst < s.length)
    (hne : dst ≠ src) :
    ((step s (.copyAssign dst src)).1.get dst).readable = (s.get src).readable := by
  have := (cloneOf_spec (s.get src) (get_inv s src h)).2.1
  simp only [Store.get, List.getD_eq_getElem?_getD] at this
  simp [step, hne, Store.get, Store.put, hd, this]

/-- **C07_moved_from_empty.** A moved-from or reset buffer is empty. -/
theorem C07_moved_from_empty (s : Store) (dst src : Nat) (hs : src < s.length) (hne : dst ≠ src) :
    ((step s (.moveAssign dst src)).1.get src).readable = [] ∧
    ((step s (.reset src)).1.get src).readable = [] := by
  simp [step, hne, Store.get, Store.put, hs, empty_readable]

/-! ### non-vacuity: the hypotheses are met by a concrete, non-trivial run -/

example : StoreInv init := init_inv

example :
    let ops := [Op.append 0 [1,2,3], .rwc 0 300 [4,5], .consume 0 1, .reserve 0 600,
                .copyAssign 1 0, .fetch 1 2, .moveAssign 2 0, .fetch 2 10, .over 3 5]
    (∀ op ∈ ops, op.rwcOk = true) ∧
    (run init ops).2.map (·.fetched) = [[], [], [], [], [], [2,3], [], [2,3,4,5], []] := by
  decide +kernel

end Tbox.C07
