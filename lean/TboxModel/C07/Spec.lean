/-
C07 — the abstract specification: each buffer is an unbounded FIFO byte queue
(`List Byte`, oldest first).  This is what the property statement describes.
-/
import TboxModel.C07.Model
namespace Tbox.C07

abbrev Spec := List (List Byte)

def Spec.get (s : Spec) (i : Nat) : List Byte := s.getD i []
def Spec.put (s : Spec) (i : Nat) (q : List Byte) : Spec := s.set i q

/-- operations whose effect the property defines (the caller keeps the reserve/commit contract) -/
def Op.inContract : Op → Bool
  | .rwc _ n d => d.length ≤ n
  | .over _ _ => false
  | _ => true

/-- the reserve/commit contract alone (over-commit allowed): used by the safety theorem -/
def Op.rwcOk : Op → Bool
  | .rwc _ n d => d.length ≤ n
  | _ => true

/-- the FIFO meaning of every operation: new queues and the bytes handed to the reader -/
def specStep (s : Spec) : Op → Spec × List Byte
  | .construct i _ => (s.put i [], [])
  | .append i d => (s.put i (s.get i ++ d), [])
  | .reserve _ _ => (s, [])
  | .rwc i _ d => (s.put i (s.get i ++ d), [])
  | .over _ _ => (s, [])          -- outside the contract, never used by the theorems
  | .fetch i n => (s.put i ((s.get i).drop n), (s.get i).take n)
  | .consume i n => (s.put i ((s.get i).drop n), [])
  | .consumeAll i => (s.put i [], [])
  | .shrink _ => (s, [])
  | .copyAssign dst src => if dst = src then (s, []) else (s.put dst (s.get src), [])
  | .moveAssign dst src => if dst = src then (s, []) else ((s.put dst (s.get src)).put src [], [])
  | .copyCtor dst src => if dst = src then (s, []) else (s.put dst (s.get src), [])
  | .moveCtor dst src => if dst = src then (s, []) else ((s.put dst (s.get src)).put src [], [])
  | .swap i j => ((s.put i (s.get j)).put j (s.get i), [])
  | .reset i => (s.put i [], [])

def specRun (s : Spec) : List Op → Spec × List (List Byte)
  | [] => (s, [])
  | op :: ops =>
      let (s1, o) := specStep s op
      let (s2, os) := specRun s1 ops
      (s2, o :: os)

def run (s : Store) : List Op → Store × List Out
  | [] => (s, [])
  | op :: ops =>
      let (s1, o) := step s op
      let (s2, os) := run s1 ops
      (s2, o :: os)

end Tbox.C07
