/-
C07 — the abstract specification: each buffer is an unbounded FIFO byte queue
(`List Byte`, oldest first).  This is what the property statement describes.
An operation that reports failure (allocation refused / size not representable) is a no-op.
-/
import TboxModel.C07.Model
namespace Tbox.C07

abbrev Spec := List (List Byte)

def Spec.get (s : Spec) (i : Nat) : List Byte := s.getD i []
def Spec.put (s : Spec) (i : Nat) (q : List Byte) : Spec := s.set i q

/-- operations whose effect the property defines (the caller keeps the reserve/commit contract) -/
def Op.inContract : Op → Bool
  | .rwc _ n d => d.length ≤ n
  | .over _ _ => false
  | _ => true

/-- the reserve/commit contract alone (over-commit allowed): used by the safety theorem -/
def Op.rwcOk : Op → Bool
  | .rwc _ n d => d.length ≤ n
  | _ => true

/-- every size argument is a `size_t` value -/
def Op.wf : Op → Bool
  | .construct _ cap => cap < W
  | .append _ d => d.length < W
  | .appendSelf _ off k => off < W ∧ k < W
  | .reserve _ n => n < W
  | .rwc _ n d => n < W ∧ d.length < W
  | .over _ n => n < W
  | .fetch _ n => n < W
  | .consume _ n => n < W
  | _ => true

/-- the FIFO meaning of every (successful) operation: new queues and the bytes handed to the reader -/
def specStep (s : Spec) : Op → Spec × List Byte
  | .construct i _ => (s.put i [], [])
  | .defaultCtor i => (s.put i [], [])
  | .append i d => (s.put i (s.get i ++ d), [])
  | .appendSelf i off k =>
      if off + k ≤ (s.get i).length then (s.put i (s.get i ++ ((s.get i).drop off).take k), []) else (s, [])
  | .reserve _ _ => (s, [])
  | .rwc i _ d => (s.put i (s.get i ++ d), [])
  | .over _ _ => (s, [])          -- outside the contract, never used by the theorems
  | .fetch i n => (s.put i ((s.get i).drop n), (s.get i).take n)
  | .consume i n => (s.put i ((s.get i).drop n), [])
  | .consumeAll i => (s.put i [], [])
  | .shrink _ => (s, [])
  | .copyAssign dst src => if dst = src then (s, []) else (s.put dst (s.get src), [])
  | .moveAssign dst src => if dst = src then (s, []) else ((s.put dst (s.get src)).put src [], [])
  | .copyCtor dst src => if dst = src then (s, []) else (s.put dst (s.get src), [])
  | .moveCtor dst src => if dst = src then (s, []) else ((s.put dst (s.get src)).put src [], [])
  | .swap i j => ((s.put i (s.get j)).put j (s.get i), [])
  | .reset i => (s.put i [], [])

/-- a step of the specification given whether the implementation reported failure -/
def specStepF (failed : Bool) (s : Spec) (op : Op) : Spec × List Byte :=
  if failed then (s, []) else specStep s op

def Out.failed (o : Out) : Bool := o.st != .ok

/-- the implementation run: every operation comes with the allocator's answers for it -/
def run (s : Store) : List (Alloc × Op) → Store × List Out
  | [] => (s, [])
  | (al, op) :: ops =>
      let (s1, o) := step al s op
      let (s2, os) := run s1 ops
      (s2, o :: os)

/-- the specification run over the same operations, told which of them failed -/
def specRun (s : Spec) : List (Bool × Op) → Spec × List (List Byte)
  | [] => (s, [])
  | (f, op) :: ops =>
      let (s1, o) := specStepF f s op
      let (s2, os) := specRun s1 ops
      (s2, o :: os)

/-- the operations of a run paired with the failure reports of the implementation -/
def failures (s : Store) : List (Alloc × Op) → List (Bool × Op)
  | [] => []
  | (al, op) :: ops => ((step al s op).2.failed, op) :: failures (step al s op).1 ops

end Tbox.C07
