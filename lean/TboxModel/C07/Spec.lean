/-
C07 — the abstract specification: each buffer is an unbounded FIFO byte queue
(`List Byte`, oldest first).  This is what the property statement describes.
An operation that reports failure (allocation refused / size not representable) is a no-op.
-/
import TboxModel.C07.Model
namespace Tbox.C07

abbrev Spec := List (List Byte)

def Spec.get (s : Spec) (i : Nat) : List Byte := s.getD i []
def Spec.put (s : Spec) (i : Nat) (q : List Byte) : Spec := s.set i q

/-- operations whose effect the property defines (the caller keeps the reserve/commit contract) -/
def Op.inContract : Op → Bool
  | .rwc _ n d => d.length ≤ n
  | .over _ _ => false
  | _ => true

/-- the reserve/commit contract alone (over-commit allowed): used by the safety theorem -/
def Op.rwcOk : Op → Bool
  | .rwc _ n d => d.length ≤ n
  | _ => true

/-- every size argument is a `size_t` value -/
def Op.wf : Op → Bool
  | .construct _ cap => cap < W
  | .append _ d => d.length < W
  | .appendSelf _ off k => off < W ∧ k < W
  | .appendFrom _ _ off k => off < W ∧ k < W
  | .fetchSelf _ n => n < W
  | .reserve _ n => n < W
  | .rwc _ n d => n < W ∧ d.length < W
  | .over _ n => n < W
  | .fetch _ n => n < W
  | .consume _ n => n < W
  | _ => true

/-- the FIFO meaning of every (successful) operation: new queues and the bytes handed to the reader -/
def specStep (s : Spec) : Op → Spec × List Byte
  | .construct i _ => (s.put i [], [])
  | .defaultCtor i => (s.put i [], [])
  | .append i d => (s.put i (s.get i ++ d), [])
  | .appendSelf i off k =>
      if off + k ≤ (s.get i).length then (s.put i (s.get i ++ ((s.get i).drop off).take k), []) else (s, [])
  | .appendFrom i j off k =>
      if i = j ∨ off + k > (s.get j).length then (s, []) else (s.put i (s.get i ++ ((s.get j).drop off).take k), [])
  | .fetchSelf i n => (s.put i ((s.get i).drop n), (s.get i).take n)
  | .reserve _ _ => (s, [])
  | .rwc i _ d => (s.put i (s.get i ++ d), [])
  | .over _ _ => (s, [])          -- outside the contract, never used by the theorems
  | .fetch i n => (s.put i ((s.get i).drop n), (s.get i).take n)
  | .consume i n => (s.put i ((s.get i).drop n), [])
  | .consumeAll i => (s.put i [], [])
  | .shrink _ => (s, [])
  | .copyAssign dst src => if dst = src then (s, []) else (s.put dst (s.get src), [])
  | .moveAssign dst src => if dst = src then (s, []) else ((s.put dst (s.get src)).put src [], [])
  | .copyCtor dst src => if dst = src then (s, []) else (s.put dst (s.get src), [])
  | .moveCtor dst src => if dst = src then (s, []) else ((s.put dst (s.get src)).put src [], [])
  | .swap i j => ((s.put i (s.get j)).put j (s.get i), [])
  | .reset i => (s.put i [], [])

/-- a step of the specification given whether the implementation reported failure -/
def specStepF (failed : Bool) (s : Spec) (op : Op) : Spec × List Byte :=
  if failed then (s, []) else specStep s op

def Out.failed (o : Out) : Bool := o.st != .ok

/-- the implementation run: every operation comes with the allocator's answers for it -/
def run (s : Store) : List (Alloc × Op) → Store × List Out
  | [] => (s, [])
  | (al, op) :: ops =>
      let (s1, o) := step al s op
      let (s2, os) := run s1 ops
      (s2, o :: os)

/-- the specification run over the same operations, told which of them failed -/
def specRun (s : Spec) : List (Bool × Op) → Spec × List (List Byte)
  | [] => (s, [])
  | (f, op) :: ops =>
      let (s1, o) := specStepF f s op
      let (s2, os) := specRun s1 ops
      (s2, o :: os)

/-- the buffers an operation names -/
def Op.slots : Op → List Nat
  | .construct i _ | .defaultCtor i | .append i _ | .appendSelf i _ _ | .fetchSelf i _ | .reserve i _ | .rwc i _ _
  | .over i _ | .fetch i _ | .consume i _ | .consumeAll i | .shrink i | .reset i => [i]
  | .appendFrom i j _ _ | .swap i j => [i, j]
  | .copyAssign d c | .moveAssign d c | .copyCtor d c | .moveCtor d c => [d, c]

/-- A composite C++ statement sequence (`Buffer c(b); b = c;`): the statements run until one throws
`std::bad_alloc`; the rest is skipped. -/
def runUntilThrow (s : Store) : List (Alloc × Op) → Store × List Out
  | [] => (s, [])
  | (al, op) :: ops =>
      let (s1, o) := step al s op
      if o.st = .badAlloc then (s1, [o])
      else
        let (s2, os) := runUntilThrow s1 ops
        (s2, o :: os)

/-- … and the destructors of its temporaries (`cleanup`) run in either case -/
def runScript (s : Store) (body cleanup : List (Alloc × Op)) : Store × List Out :=
  let (s1, os) := runUntilThrow s body
  let (s2, os2) := run s1 cleanup
  (s2, os ++ os2)

/-- the operations of a run paired with the failure reports of the implementation -/
def failures (s : Store) : List (Alloc × Op) → List (Bool × Op)
  | [] => []
  | (al, op) :: ops => ((step al s op).2.failed, op) :: failures (step al s op).1 ops

end Tbox.C07
