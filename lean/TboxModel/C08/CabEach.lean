/- C08 — `foreach` with removal: which cells get visited (helper lemmas). -/
import TboxModel.C08.CabProofs
namespace Tbox.C08
namespace Cab

/-- freeing only kills: a cell that is live afterwards was the same live cell before -/
theorem free_live_mono (c : Cab) (t : Token) (p : Nat) (x : Cell)
    (h : (c.free t).1.cells[p]? = some x) (hx : x.id ≠ 0) : c.cells[p]? = some x := by
  cases hl : c.lookup t with
  | none => rw [free_miss c t hl] at h; exact h
  | some o =>
      rw [free_hit c t o hl] at h
      simp only [List.getElem?_set] at h
      split at h
      · split at h
        · cases h; exact absurd rfl hx
        · cases h
      · exact h

theorem freeAll_live_mono (c : Cab) (ts : List Token) (p : Nat) (x : Cell)
    (h : (c.freeAll ts).cells[p]? = some x) (hx : x.id ≠ 0) : c.cells[p]? = some x := by
  induction ts generalizing c with
  | nil => exact h
  | cons t ts ih => exact free_live_mono c t p x (ih _ h) hx

theorem free_length (c : Cab) (t : Token) : (c.free t).1.cells.length = c.cells.length := by
  unfold free; split <;> simp

theorem freeAll_length (c : Cab) (ts : List Token) : (c.freeAll ts).cells.length = c.cells.length := by
  induction ts generalizing c with
  | nil => rfl
  | cons t ts ih => simp only [freeAll]; rw [ih, free_length]

/-- the state of the iteration after the cell positions `< n` have been handled -/
structure EachInv (c : Cab) (f : Nat → List Token) (n : Nat) (st : Cab × List (Nat × Nat)) : Prop where
  cab : st.1 = c.freeAll ((List.range st.2.length).flatMap f)
  bound : ∀ q, q ∈ st.2 → q.1 < n
  sorted : (st.2.map (·.1)).Pairwise (· < ·)
  wasLive : ∀ (k : Nat) (hk : k < st.2.length), ∃ id, id ≠ 0 ∧
      (c.freeAll ((List.range k).flatMap f)).cells[(st.2[k]).1]? = some ⟨id, (st.2[k]).2⟩
  covered : ∀ (p : Nat) (cell : Cell), p < n → st.1.cells[p]? = some cell → cell.id ≠ 0 → (p, cell.w) ∈ st.2

theorem eachStep_inv (c : Cab) (f : Nat → List Token) (n : Nat) (st : Cab × List (Nat × Nat))
    (h : EachInv c f n st) : EachInv c f (n + 1) (eachStep f st n) := by
  unfold eachStep
  cases hc : st.1.cells[n]? with
  | none =>
      refine ⟨h.cab, fun q hq => Nat.lt_succ_of_lt (h.bound q hq), h.sorted, h.wasLive, ?_⟩
      intro p cell hp hcell hid
      by_cases e : p = n
      · subst e; rw [hc] at hcell; cases hcell
      · exact h.covered p cell (by omega) hcell hid
  | some cell =>
      by_cases hid : cell.id = 0
      · simp only [hid, ne_eq, not_true_eq_false, if_false]
        refine ⟨h.cab, fun q hq => Nat.lt_succ_of_lt (h.bound q hq), h.sorted, h.wasLive, ?_⟩
        intro p x hp hx hxid
        by_cases e : p = n
        · subst e; rw [hc] at hx; cases hx; exact absurd hid hxid
        · exact h.covered p x (by omega) hx hxid
      · simp only [ne_eq, hid, not_false_eq_true, if_true]
        refine ⟨?_, ?_, ?_, ?_, ?_⟩
        · simp only [List.length_append, List.length_singleton, List.range_succ, List.flatMap_append,
            List.flatMap_singleton, freeAll_append]
          rw [← h.cab]
        · intro q hq
          simp only [List.mem_append, List.mem_singleton] at hq
          rcases hq with hq | hq
          · exact Nat.lt_succ_of_lt (h.bound q hq)
          · subst hq; exact Nat.lt_succ_self n
        · simp only [List.map_append, List.map_singleton]
          rw [List.pairwise_append]
          refine ⟨h.sorted, by simp, ?_⟩
          intro a ha b hb
          simp only [List.mem_singleton] at hb; subst hb
          obtain ⟨q, hq, rfl⟩ := List.mem_map.1 ha
          exact h.bound q hq
        · intro k hk
          simp only [List.length_append, List.length_singleton] at hk
          by_cases e : k < st.2.length
          · rw [List.getElem_append_left e]; exact h.wasLive k e
          · have ek : k = st.2.length := by omega
            subst ek
            rw [List.getElem_append_right (Nat.le_refl _)]
            simp only [Nat.sub_self, List.getElem_singleton]
            exact ⟨cell.id, hid, by rw [← h.cab]; exact hc⟩
        · intro p x hp hx hxid
          have hx' := freeAll_live_mono _ _ p x hx hxid
          simp only [List.mem_append, List.mem_singleton]
          by_cases e : p = n
          · subst e; rw [hc] at hx'; cases hx'; right; rfl
          · left; exact h.covered p x (by omega) hx' hxid

theorem foreach_inv (c : Cab) (f : Nat → List Token) (n : Nat) :
    EachInv c f n ((List.range n).foldl (eachStep f) (c, [])) := by
  induction n with
  | zero =>
      refine ⟨rfl, by simp, by simp, ?_, ?_⟩
      · intro k hk; simp at hk
      · intro p cell hp; omega
  | succ n ih =>
      rw [List.range_succ, List.foldl_append]
      exact eachStep_inv c f n _ ih

end Cab
end Tbox.C08
