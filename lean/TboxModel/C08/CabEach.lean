/- C08 — `foreach` with calls from inside the callback: which cells get visited (helper lemmas). -/
import TboxModel.C08.CabProofs
namespace Tbox.C08
namespace Cab

/-- freeing only kills: a cell that is live afterwards was the same live cell before -/
theorem free_live_mono (c : Cab) (t : Token) (p : Nat) (x : Cell)
    (h : (c.free t).1.cells[p]? = some x) (hx : x.id ≠ 0) : c.cells[p]? = some x := by
  cases hl : c.lookup t with
  | none => rw [free_miss c t hl] at h; exact h
  | some o =>
      rw [free_hit c t o hl] at h
      simp only [List.getElem?_set] at h
      split at h
      · split at h
        · cases h; exact absurd rfl hx
        · cases h
      · exact h

/-- an entry carrying an id issued before (`≤ L ≤ last_id_`) that is live after a call was live,
under the same id and in the same cell, before it: ids are never re-issued -/
theorem act_old_mono (c : Cab) (a : CbAct) (p : Nat) (x : Cell) (L : Nat) (hi : Inv c)
    (hL : L ≤ c.lastId) (hnw : (c.act a).1.wrapped = false)
    (h : (c.act a).1.cells[p]? = some x) (hx : x.id ≠ 0) (hxl : x.id ≤ L) :
    ∃ y, c.cells[p]? = some y ∧ y.id = x.id := by
  cases a with
  | alloc o =>
      have hne : c.lastId ≠ sizeMax := by
        intro e
        have := alloc_wrapped c o
        simp only [act] at hnw
        rw [hnw, e] at this; simp at this
      simp only [act] at h
      rcases inv_first c hi with ⟨hf, _⟩ | ⟨hf, cell, hcell, _⟩
      · rw [alloc_push c o hf hne] at h
        simp only [List.getElem?_append] at h
        split at h
        · exact ⟨x, h, rfl⟩
        · cases hq : p - c.cells.length with
          | zero => simp [hq] at h; subst h; simp at hxl; omega
          | succ n => simp [hq] at h
      · rw [alloc_reuse c o cell hf hcell hne] at h
        simp only [List.getElem?_set] at h
        split at h
        · split at h
          · cases h; simp at hxl; omega
          · cases h
        · exact ⟨x, h, rfl⟩
  | update t o =>
      simp only [act, update] at h
      cases hl : c.lookup t with
      | none => simp only [hl] at h; exact ⟨x, h, rfl⟩
      | some old =>
          simp only [hl, List.getElem?_set] at h
          obtain ⟨_, hcell⟩ := (lookup_some c t old).1 hl
          split at h
          · rename_i e
            split at h
            · cases h; exact ⟨⟨t.id, old⟩, e ▸ hcell, rfl⟩
            · cases h
          · exact ⟨x, h, rfl⟩
  | free t => exact ⟨x, free_live_mono c t p x h hx, rfl⟩
  | clear => simp [act, clear] at h

theorem runActs_old_mono (c : Cab) (as : List CbAct) (p : Nat) (x : Cell) (L : Nat) (hi : Inv c)
    (hL : L ≤ c.lastId) (hnw : (c.runActs as).wrapped = false)
    (h : (c.runActs as).cells[p]? = some x) (hx : x.id ≠ 0) (hxl : x.id ≤ L) :
    ∃ y, c.cells[p]? = some y ∧ y.id = x.id := by
  induction as generalizing c with
  | nil => exact ⟨x, h, rfl⟩
  | cons a as ih =>
      have hwa : (c.act a).1.wrapped = false := by
        cases hq : (c.act a).1.wrapped with
        | false => rfl
        | true => have := runActs_wrapped_mono _ as hq; simp only [runActs] at hnw; rw [hnw] at this; cases this
      have h1 := act_inv c a hi hwa
      obtain ⟨y, hy, hyid⟩ := ih _ h1.1 (Nat.le_trans hL h1.2) hnw h
      obtain ⟨z, hz, hzid⟩ := act_old_mono c a p y L hi hL hwa hy (by omega) (by omega)
      exact ⟨z, hz, by omega⟩

/-- the state of the iteration after the cell positions `< n` have been handled -/
structure EachInv (c : Cab) (f : Nat → List CbAct) (n : Nat) (st : Cab × List (Nat × Nat)) : Prop where
  cab : st.1 = c.runActs ((List.range st.2.length).flatMap f)
  bound : ∀ q, q ∈ st.2 → q.1 < n
  sorted : (st.2.map (·.1)).Pairwise (· < ·)
  wasLive : ∀ (k : Nat) (hk : k < st.2.length), ∃ id, id ≠ 0 ∧
      (c.runActs ((List.range k).flatMap f)).cells[(st.2[k]).1]? = some ⟨id, (st.2[k]).2⟩
  covered : st.1.wrapped = false → ∀ (p : Nat) (x : Cell), p < n → st.1.cells[p]? = some x → x.id ≠ 0 →
      x.id ≤ c.lastId → p ∈ st.2.map (·.1)

theorem eachStep_inv (c : Cab) (f : Nat → List CbAct) (n : Nat) (st : Cab × List (Nat × Nat))
    (hc0 : Inv c) (h : EachInv c f n st) : EachInv c f (n + 1) (eachStep f st n) := by
  unfold eachStep
  cases hc : st.1.cells[n]? with
  | none =>
      refine ⟨h.cab, fun q hq => Nat.lt_succ_of_lt (h.bound q hq), h.sorted, h.wasLive, ?_⟩
      intro hw p cell hp hcell hid hold
      by_cases e : p = n
      · subst e; rw [hc] at hcell; cases hcell
      · exact h.covered hw p cell (by omega) hcell hid hold
  | some cell =>
      by_cases hid : cell.id = 0
      · simp only [hid, ne_eq, not_true_eq_false, if_false]
        refine ⟨h.cab, fun q hq => Nat.lt_succ_of_lt (h.bound q hq), h.sorted, h.wasLive, ?_⟩
        intro hw p x hp hx hxid hold
        by_cases e : p = n
        · subst e; rw [hc] at hx; cases hx; exact absurd hid hxid
        · exact h.covered hw p x (by omega) hx hxid hold
      · simp only [ne_eq, hid, not_false_eq_true, if_true]
        refine ⟨?_, ?_, ?_, ?_, ?_⟩
        · simp only [List.length_append, List.length_singleton, List.range_succ, List.flatMap_append,
            List.flatMap_singleton, runActs_append]
          rw [← h.cab]
        · intro q hq
          simp only [List.mem_append, List.mem_singleton] at hq
          rcases hq with hq | hq
          · exact Nat.lt_succ_of_lt (h.bound q hq)
          · subst hq; exact Nat.lt_succ_self n
        · simp only [List.map_append, List.map_singleton]
          rw [List.pairwise_append]
          refine ⟨h.sorted, by simp, ?_⟩
          intro a ha b hb
          simp only [List.mem_singleton] at hb; subst hb
          obtain ⟨q, hq, rfl⟩ := List.mem_map.1 ha
          exact h.bound q hq
        · intro k hk
          simp only [List.length_append, List.length_singleton] at hk
          by_cases e : k < st.2.length
          · rw [List.getElem_append_left e]; exact h.wasLive k e
          · have ek : k = st.2.length := by omega
            subst ek
            rw [List.getElem_append_right (Nat.le_refl _)]
            simp only [Nat.sub_self, List.getElem_singleton]
            exact ⟨cell.id, hid, by rw [← h.cab]; exact hc⟩
        · intro hw p x hp hx hxid hold
          simp only at hw hx
          have hw0 : st.1.wrapped = false := by
            cases hq : st.1.wrapped with
            | false => rfl
            | true => have := runActs_wrapped_mono _ (f st.2.length) hq; rw [hw] at this; cases this
          have hst : Inv st.1 ∧ c.lastId ≤ st.1.lastId := by
            rw [h.cab] at hw0 ⊢; exact runActs_inv c _ hc0 hw0
          obtain ⟨y, hy, hyid⟩ := runActs_old_mono st.1 _ p x c.lastId hst.1 hst.2 hw hx hxid hold
          simp only [List.map_append, List.map_singleton, List.mem_append, List.mem_singleton]
          by_cases e : p = n
          · right; exact e
          · left; exact h.covered hw0 p y (by omega) hy (by omega) (by omega)

theorem foreach_inv (c : Cab) (f : Nat → List CbAct) (hc0 : Inv c) (n : Nat) :
    EachInv c f n ((List.range n).foldl (eachStep f) (c, [])) := by
  induction n with
  | zero =>
      refine ⟨rfl, by simp, by simp, ?_, ?_⟩
      · intro k hk; simp at hk
      · intro _ p cell hp; omega
  | succ n ih =>
      rw [List.range_succ, List.foldl_append]
      exact eachStep_inv c f n _ hc0 ih

end Cab
end Tbox.C08
