/- C08 — helper lemmas for the cabinet model (core Lean only). Property theorems are in `Props.lean`. -/
import TboxModel.C08.Spec
namespace Tbox.C08
namespace Cab

/-- `Chain cells p l`: following `next_free` from position `p` visits exactly the positions `l`,
all of them free cells, and ends at the sentinel -/
def Chain (cells : List Cell) : Nat → List Nat → Prop
  | p, [] => p = sizeMax
  | p, q :: l => p = q ∧ p ≠ sizeMax ∧ ∃ cell, cells[p]? = some cell ∧ cell.id = 0 ∧ Chain cells cell.w l

def liveCount (cells : List Cell) : Nat := cells.countP (fun c => c.id != 0)

structure Inv (c : Cab) : Prop where
  idBound : ∀ (p : Nat) (cell : Cell), c.cells[p]? = some cell → cell.id ≤ c.lastId
  idDistinct : ∀ (p q : Nat) (a b : Cell), c.cells[p]? = some a → c.cells[q]? = some b → a.id ≠ 0 → a.id = b.id → p = q
  chain : ∃ l, Chain c.cells c.firstFree l ∧ l.Nodup ∧ ∀ p, p ∈ l ↔ ∃ cell, c.cells[p]? = some cell ∧ cell.id = 0
  count : c.count = liveCount c.cells
  lenBound : c.cells.length ≤ c.lastId
  idMax : c.lastId ≤ sizeMax
  noWrap : c.wrapped = false

theorem chain_set_notin (cells : List Cell) (p : Nat) (l : List Nat) (q : Nat) (x : Cell)
    (h : Chain cells p l) (hq : q ∉ l) : Chain (cells.set q x) p l := by
  induction l generalizing p with
  | nil => exact h
  | cons a l ih =>
      obtain ⟨h1, h2, cell, h3, h4, h5⟩ := h
      simp only [List.mem_cons, not_or] at hq
      refine ⟨h1, h2, cell, ?_, h4, ih _ h5 hq.2⟩
      rw [List.getElem?_set_ne (by omega)]; exact h3

theorem chain_append (cells : List Cell) (p : Nat) (l : List Nat) (x : Cell)
    (h : Chain cells p l) : Chain (cells ++ [x]) p l := by
  induction l generalizing p with
  | nil => exact h
  | cons a l ih =>
      obtain ⟨h1, h2, cell, h3, h4, h5⟩ := h
      refine ⟨h1, h2, cell, ?_, h4, ih _ h5⟩
      have : p < cells.length := by
        rcases Nat.lt_or_ge p cells.length with h | h
        · exact h
        · rw [List.getElem?_eq_none h] at h3; cases h3
      rw [List.getElem?_append_left this]; exact h3

theorem init_inv : Inv ({} : Cab) := by
  refine ⟨by simp, by simp, ⟨[], rfl, by simp, by simp⟩, rfl, by simp, by simp [sizeMax], rfl⟩

/-! ### alloc -/

theorem alloc_reuse (c : Cab) (o : Nat) (cell : Cell) (h1 : c.firstFree ≠ sizeMax)
    (h2 : c.cells[c.firstFree]? = some cell) (hw : c.lastId ≠ sizeMax) :
    c.alloc o = ({ lastId := c.lastId + 1, cells := c.cells.set c.firstFree ⟨c.lastId + 1, o⟩,
                   firstFree := cell.w, count := c.count + 1, wrapped := c.wrapped },
                 some ⟨c.lastId + 1, c.firstFree⟩) := by
  simp [alloc, allocId, allocPos, h1, h2, hw]

theorem alloc_push (c : Cab) (o : Nat) (h1 : c.firstFree = sizeMax) (hw : c.lastId ≠ sizeMax) :
    c.alloc o = ({ lastId := c.lastId + 1, cells := c.cells ++ [⟨c.lastId + 1, o⟩],
                   firstFree := sizeMax, count := c.count + 1, wrapped := c.wrapped },
                 some ⟨c.lastId + 1, c.cells.length⟩) := by
  simp [alloc, allocId, allocPos, h1, hw]

/-- what the free list says about `firstFree` -/
theorem inv_first (c : Cab) (h : Inv c) :
    (c.firstFree = sizeMax ∧ ∀ (p : Nat) (cell : Cell), c.cells[p]? = some cell → cell.id ≠ 0) ∨
    (c.firstFree ≠ sizeMax ∧ ∃ cell, c.cells[c.firstFree]? = some cell ∧ cell.id = 0) := by
  obtain ⟨l, hc, _, hm⟩ := h.chain
  cases l with
  | nil =>
      left; refine ⟨hc, ?_⟩
      intro p cell hp h0
      have := (hm p).2 ⟨cell, hp, h0⟩
      simp at this
  | cons a l =>
      obtain ⟨_, h2, cell, h3, h4, _⟩ := hc
      right; exact ⟨h2, cell, h3, h4⟩

theorem liveCount_set (cells : List Cell) (p : Nat) (old x : Cell) (h : cells[p]? = some old) :
    liveCount (cells.set p x) + (if old.id = 0 then 0 else 1) = liveCount cells + (if x.id = 0 then 0 else 1) := by
  have hp : p < cells.length := by
    rcases Nat.lt_or_ge p cells.length with h' | h'
    · exact h'
    · rw [List.getElem?_eq_none h'] at h; cases h
  have ho : cells[p] = old := by
    rw [List.getElem?_eq_getElem hp] at h; exact Option.some.inj h
  unfold liveCount
  rw [List.countP_set hp, ho]
  have hpos : old.id ≠ 0 → 0 < List.countP (fun c => c.id != 0) cells := by
    intro hne
    apply List.countP_pos_iff.2
    exact ⟨old, ho ▸ List.getElem_mem hp, by simpa using hne⟩
  by_cases h1 : old.id = 0 <;> by_cases h2 : x.id = 0 <;> simp [h1, h2]
  · have := hpos h1; omega
  · have := hpos h1; omega

theorem alloc_inv (c : Cab) (o : Nat) (h : Inv c) (hw : c.lastId < sizeMax) :
    Inv (c.alloc o).1 ∧ ∃ pos, (c.alloc o).2 = some ⟨c.lastId + 1, pos⟩ ∧ (c.alloc o).1.lastId = c.lastId + 1 := by
  have hw' : c.lastId ≠ sizeMax := by omega
  rcases inv_first c h with ⟨hf, hall⟩ | ⟨hf, cell, hcell, hid⟩
  · -- no free cell: push_back
    rw [alloc_push c o hf hw']
    refine ⟨⟨?_, ?_, ?_, ?_, ?_, ?_, h.noWrap⟩, _, rfl, rfl⟩
    · intro p x hp
      simp only [List.getElem?_append] at hp
      split at hp
      · have := h.idBound p x hp; simp; omega
      · have : x = ⟨c.lastId + 1, o⟩ := by
          cases hq : p - c.cells.length with
          | zero => simp [hq] at hp; exact hp.symm
          | succ n => simp [hq] at hp
        subst this; simp
    · intro p q a b hp hq ha hab
      simp only [List.getElem?_append] at hp hq
      split at hp <;> split at hq
      · exact h.idDistinct p q a b hp hq ha hab
      · have hb : b = ⟨c.lastId + 1, o⟩ := by
          cases hq' : q - c.cells.length with
          | zero => simp [hq'] at hq; exact hq.symm
          | succ n => simp [hq'] at hq
        have := h.idBound p a hp; subst hb; simp at hab; omega
      · have ha' : a = ⟨c.lastId + 1, o⟩ := by
          cases hp' : p - c.cells.length with
          | zero => simp [hp'] at hp; exact hp.symm
          | succ n => simp [hp'] at hp
        have := h.idBound q b hq; subst ha'; simp at hab; omega
      · have hp' : p - c.cells.length = 0 := by
          cases hp' : p - c.cells.length with
          | zero => rfl
          | succ n => simp [hp'] at hp
        have hq' : q - c.cells.length = 0 := by
          cases hq' : q - c.cells.length with
          | zero => rfl
          | succ n => simp [hq'] at hq
        omega
    · refine ⟨[], rfl, by simp, ?_⟩
      intro p
      simp only [List.not_mem_nil, false_iff, not_exists, not_and]
      intro x hp
      simp only [List.getElem?_append] at hp
      split at hp
      · exact hall p x hp
      · have : x = ⟨c.lastId + 1, o⟩ := by
          cases hq : p - c.cells.length with
          | zero => simp [hq] at hp; exact hp.symm
          | succ n => simp [hq] at hp
        subst this; simp
    · simp [liveCount, List.countP_append, h.count]
    · have := h.lenBound; simp; omega
    · simp; omega
  · -- reuse the head of the free list
    rw [alloc_reuse c o cell hf hcell hw']
    obtain ⟨l, hc, hnd, hm⟩ := h.chain
    have hlt : c.firstFree < c.cells.length := by
      rcases Nat.lt_or_ge c.firstFree c.cells.length with h' | h'
      · exact h'
      · rw [List.getElem?_eq_none h'] at hcell; cases hcell
    cases l with
    | nil => exact absurd hc hf
    | cons a l =>
      obtain ⟨ha, _, cell', hcell', _, hrest⟩ := hc
      have hcc : cell' = cell := by rw [hcell] at hcell'; exact (Option.some.inj hcell').symm
      subst hcc
      have hal : a ∉ l := (List.nodup_cons.1 hnd).1
      refine ⟨⟨?_, ?_, ?_, ?_, ?_, ?_, h.noWrap⟩, _, rfl, rfl⟩
      · intro p x hp
        simp only [List.getElem?_set] at hp
        split at hp
        · simp at hp; subst hp; simp
        · have := h.idBound p x hp; simp; omega
      · intro p q x y hp hq hx hxy
        simp only [List.getElem?_set] at hp hq
        split at hp <;> split at hq
        · omega
        · simp at hp; subst hp
          have := h.idBound q y hq; simp at hxy; omega
        · simp at hq; subst hq
          have := h.idBound p x hp; simp at hxy; omega
        · exact h.idDistinct p q x y hp hq hx hxy
      · refine ⟨l, ?_, (List.nodup_cons.1 hnd).2, ?_⟩
        · exact chain_set_notin _ _ _ _ _ hrest (ha ▸ hal)
        · intro p
          simp only [List.getElem?_set]
          by_cases hpa : c.firstFree = p
          · subst hpa
            simp only [if_true, hlt]
            constructor
            · intro hp; exact absurd hp (ha ▸ hal)
            · rintro ⟨x, hx, hx0⟩; simp at hx; subst hx; simp at hx0
          · simp only [hpa, if_false]
            rw [← hm p]
            simp only [List.mem_cons]
            constructor
            · intro hp; exact Or.inr hp
            · rintro (hp | hp)
              · omega
              · exact hp
      · have := liveCount_set c.cells c.firstFree cell' ⟨c.lastId + 1, o⟩ hcell
        simp only [hid, if_true, Nat.add_zero] at this
        have h2 : (if c.lastId + 1 = 0 then 0 else 1) = 1 := by simp
        rw [h2] at this
        simp only [this, h.count]
      · have := h.lenBound; simp; omega
      · simp; omega

/-! ### lookup / free / update / clear -/

theorem lookup_some (c : Cab) (t : Token) (o : Nat) :
    c.lookup t = some o ↔ t.id ≠ 0 ∧ c.cells[t.pos]? = some ⟨t.id, o⟩ := by
  unfold lookup
  by_cases h0 : t.id = 0
  · simp [h0]
  · simp only [h0, if_false, ne_eq, not_false_eq_true, true_and]
    cases hc : c.cells[t.pos]? with
    | none => simp
    | some cell =>
        obtain ⟨i, w⟩ := cell
        by_cases hi : i = t.id
        · subst hi; simp
        · simp [hi]

theorem lookup_none (c : Cab) (t : Token) :
    c.lookup t = none ↔ t.id = 0 ∨ ∀ cell, c.cells[t.pos]? = some cell → cell.id ≠ t.id := by
  unfold lookup
  by_cases h0 : t.id = 0
  · simp [h0]
  · simp only [h0, if_false, false_or]
    cases hc : c.cells[t.pos]? with
    | none => simp
    | some cell =>
        by_cases hi : cell.id = t.id
        · simp [hi]
        · simp [hi]

theorem free_hit (c : Cab) (t : Token) (o : Nat) (h : c.lookup t = some o) :
    c.free t = ({ c with cells := c.cells.set t.pos ⟨0, c.firstFree⟩, firstFree := t.pos,
                         count := if c.count = 0 then sizeMax else c.count - 1 }, o) := by
  simp [free, h]

theorem free_miss (c : Cab) (t : Token) (h : c.lookup t = none) : c.free t = (c, 0) := by
  simp [free, h]

theorem getElem?_lt {α} (l : List α) (p : Nat) (x : α) (h : l[p]? = some x) : p < l.length := by
  rcases Nat.lt_or_ge p l.length with h' | h'
  · exact h'
  · rw [List.getElem?_eq_none h'] at h; cases h

theorem free_inv (c : Cab) (t : Token) (h : Inv c) : Inv (c.free t).1 := by
  cases hl : c.lookup t with
  | none => rw [free_miss c t hl]; exact h
  | some o =>
    rw [free_hit c t o hl]
    obtain ⟨hid, hcell⟩ := (lookup_some c t o).1 hl
    have hlt := getElem?_lt _ _ _ hcell
    obtain ⟨l, hc, hnd, hm⟩ := h.chain
    have hnl : t.pos ∉ l := by
      intro hin
      obtain ⟨x, hx, hx0⟩ := (hm t.pos).1 hin
      rw [hcell] at hx; cases hx; exact hid hx0
    refine ⟨?_, ?_, ?_, ?_, ?_, h.idMax, h.noWrap⟩
    · intro p x hp
      simp only [List.getElem?_set] at hp
      split at hp
      · simp at hp; subst hp; simp
      · exact h.idBound p x hp
    · intro p q x y hp hq hx hxy
      simp only [List.getElem?_set] at hp hq
      split at hp <;> split at hq
      · omega
      · simp at hp; subst hp; simp at hx
      · simp at hq; subst hq; simp at hxy; omega
      · exact h.idDistinct p q x y hp hq hx hxy
    · refine ⟨t.pos :: l, ?_, List.nodup_cons.2 ⟨hnl, hnd⟩, ?_⟩
      · refine ⟨rfl, ?_, ⟨0, c.firstFree⟩, ?_, rfl, chain_set_notin _ _ _ _ _ hc hnl⟩
        · have := h.lenBound; have := h.idMax; simp only; omega
        · simp [hlt]
      · intro p
        simp only [List.getElem?_set, List.mem_cons]
        by_cases hpa : t.pos = p
        · subst hpa; simp [hlt]
        · simp only [hpa, if_false]
          rw [← hm p]
          constructor
          · rintro (hp | hp)
            · omega
            · exact hp
          · intro hp; exact Or.inr hp
    · have := liveCount_set c.cells t.pos ⟨t.id, o⟩ ⟨0, c.firstFree⟩ hcell
      simp only [hid, if_false, if_true, Nat.add_zero] at this
      have hc := h.count
      simp only
      split <;> omega
    · simp only [List.length_set]; exact h.lenBound

theorem update_inv (c : Cab) (t : Token) (o : Nat) (h : Inv c) : Inv (c.update t o).1 := by
  unfold update
  cases hl : c.lookup t with
  | none => exact h
  | some old =>
    obtain ⟨hid, hcell⟩ := (lookup_some c t old).1 hl
    have hlt := getElem?_lt _ _ _ hcell
    obtain ⟨l, hc, hnd, hm⟩ := h.chain
    have hnl : t.pos ∉ l := by
      intro hin
      obtain ⟨x, hx, hx0⟩ := (hm t.pos).1 hin
      rw [hcell] at hx; cases hx; exact hid hx0
    refine ⟨?_, ?_, ?_, ?_, ?_, h.idMax, h.noWrap⟩
    · intro p x hp
      simp only [List.getElem?_set] at hp
      split at hp
      · simp at hp; subst hp; exact h.idBound t.pos ⟨t.id, old⟩ hcell
      · exact h.idBound p x hp
    · intro p q x y hp hq hx hxy
      simp only [List.getElem?_set] at hp hq
      split at hp <;> split at hq
      · omega
      · simp at hp; subst hp
        rename_i hpq _; rw [← hpq]
        exact h.idDistinct t.pos q _ y hcell hq hid hxy
      · simp at hq; subst hq
        rename_i _ hpq; rw [← hpq]
        exact h.idDistinct p t.pos x _ hp hcell hx hxy
      · exact h.idDistinct p q x y hp hq hx hxy
    · refine ⟨l, chain_set_notin _ _ _ _ _ hc hnl, hnd, ?_⟩
      intro p
      simp only [List.getElem?_set]
      by_cases hpa : t.pos = p
      · subst hpa
        simp only [if_true, hlt]
        constructor
        · intro hp; exact absurd hp hnl
        · rintro ⟨x, hx, hx0⟩; simp at hx; subst hx; exact absurd hx0 hid
      · simp only [hpa, if_false]; exact hm p
    · have := liveCount_set c.cells t.pos ⟨t.id, old⟩ ⟨t.id, o⟩ hcell
      simp only [hid, if_false] at this
      have hc := h.count
      simp only; omega
    · simp only [List.length_set]; exact h.lenBound

theorem clear_inv (c : Cab) (h : Inv c) : Inv c.clear := by
  refine ⟨by simp [clear], by simp [clear], ⟨[], rfl, by simp, by simp [clear]⟩, rfl, by simp [clear], h.idMax, h.noWrap⟩

/-! ### action lists and `foreach` -/

theorem allocPos_wrapped (c c2 : Cab) (p : Nat) (h : c.allocPos = some (c2, p)) : c2.wrapped = c.wrapped := by
  unfold allocPos at h
  split at h
  · split at h
    · cases h
    · cases h; rfl
  · cases h; rfl

theorem alloc_wrapped (c : Cab) (o : Nat) :
    (c.alloc o).1.wrapped = (c.wrapped || decide (c.lastId = sizeMax)) := by
  have hid : c.allocId.1.wrapped = (c.wrapped || decide (c.lastId = sizeMax)) := by
    unfold allocId; split <;> simp_all
  unfold alloc
  simp only []
  cases hp : c.allocId.1.allocPos with
  | none => simpa using hid
  | some r =>
      obtain ⟨c2, p⟩ := r
      have := allocPos_wrapped _ _ _ hp
      simp only [this]; exact hid

theorem act_wrapped (c : Cab) (a : CbAct) :
    (c.act a).1.wrapped = (c.wrapped || (match a with | .alloc _ => decide (c.lastId = sizeMax) | _ => false)) := by
  cases a with
  | alloc o => exact alloc_wrapped c o
  | update t o => simp only [act, update]; split <;> simp
  | free t => simp only [act, free]; split <;> simp
  | clear => simp [act, clear]

theorem act_wrapped_mono (c : Cab) (a : CbAct) (h : c.wrapped = true) : (c.act a).1.wrapped = true := by
  rw [act_wrapped, h]; rfl

theorem runActs_wrapped_mono (c : Cab) (as : List CbAct) (h : c.wrapped = true) :
    (c.runActs as).wrapped = true := by
  induction as generalizing c with
  | nil => exact h
  | cons a as ih => exact ih _ (act_wrapped_mono c a h)

theorem act_inv (c : Cab) (a : CbAct) (h : Inv c) (hw : (c.act a).1.wrapped = false) :
    Inv (c.act a).1 ∧ c.lastId ≤ (c.act a).1.lastId := by
  cases a with
  | alloc o =>
      have hne : c.lastId ≠ sizeMax := by
        intro e
        have := alloc_wrapped c o
        simp only [act] at hw
        rw [hw, e] at this; simp at this
      have hlt : c.lastId < sizeMax := by have := h.idMax; omega
      obtain ⟨h1, _, _, h3⟩ := alloc_inv c o h hlt
      exact ⟨h1, by simp only [act]; omega⟩
  | update t o =>
      refine ⟨update_inv c t o h, ?_⟩
      simp only [act, update]; split <;> exact Nat.le_refl _
  | free t =>
      refine ⟨free_inv c t h, ?_⟩
      simp only [act, free]; split <;> exact Nat.le_refl _
  | clear => exact ⟨clear_inv c h, Nat.le_refl _⟩

theorem runActs_inv (c : Cab) (as : List CbAct) (h : Inv c) (hw : (c.runActs as).wrapped = false) :
    Inv (c.runActs as) ∧ c.lastId ≤ (c.runActs as).lastId := by
  induction as generalizing c with
  | nil => exact ⟨h, Nat.le_refl _⟩
  | cons a as ih =>
      have hwa : (c.act a).1.wrapped = false := by
        cases hx : (c.act a).1.wrapped with
        | false => rfl
        | true => have := runActs_wrapped_mono _ as hx; simp only [runActs] at hw; rw [hw] at this; cases this
      have h1 := act_inv c a h hwa
      have h2 := ih _ h1.1 hw
      exact ⟨h2.1, Nat.le_trans h1.2 h2.2⟩

theorem runActs_append (c : Cab) (a b : List CbAct) : c.runActs (a ++ b) = (c.runActs a).runActs b := by
  induction a generalizing c with
  | nil => rfl
  | cons t ts ih => simp only [List.cons_append, runActs]; exact ih _

/-- `foreach` changes the cabinet only through the calls its callbacks make -/
theorem foldl_each (f : Nat → List CbAct) (ps : List Nat) (st : Cab × List (Nat × Nat)) :
    ((ps.foldl (eachStep f) st).1 =
      st.1.runActs ((List.range' st.2.length ((ps.foldl (eachStep f) st).2.length - st.2.length)).flatMap f)) ∧
    st.2.length ≤ (ps.foldl (eachStep f) st).2.length := by
  induction ps generalizing st with
  | nil => simp [runActs]
  | cons p ps ih =>
      simp only [List.foldl_cons]
      have hstep : (eachStep f st p = st) ∨
          (eachStep f st p).1 = st.1.runActs (f st.2.length) ∧ (eachStep f st p).2.length = st.2.length + 1 := by
        unfold eachStep
        split
        · left; rfl
        · split
          · right; simp
          · left; rfl
      rcases hstep with he | ⟨h1, h2⟩
      · rw [he]; exact ih st
      · have := ih (eachStep f st p)
        refine ⟨?_, by omega⟩
        rw [this.1, h1, h2, ← runActs_append]
        congr 1
        have hk : (List.foldl (eachStep f) (eachStep f st p) ps).2.length - st.2.length
            = ((List.foldl (eachStep f) (eachStep f st p) ps).2.length - (st.2.length + 1)) + 1 := by omega
        rw [hk, List.range'_succ]
        simp

theorem foreach_eq_runActs (c : Cab) (f : Nat → List CbAct) :
    (c.foreach f).1 = c.runActs (c.eachActs f) := by
  have := (foldl_each f (List.range c.cells.length) (c, [])).1
  simp only [List.length_nil, Nat.sub_zero] at this
  unfold eachActs foreach
  rw [this, List.range_eq_range' (n := (List.foldl (eachStep f) (c, []) (List.range c.cells.length)).snd.length)]

theorem step_inv (c : Cab) (op : CabOp) (h : Inv c) (hw : (c.step op).wrapped = false) :
    Inv (c.step op) ∧ c.lastId ≤ (c.step op).lastId := by
  cases op with
  | act a => exact act_inv c a h hw
  | each f =>
      simp only [step] at hw ⊢
      rw [foreach_eq_runActs] at hw ⊢
      exact runActs_inv c _ h hw

theorem step_wrapped_mono (c : Cab) (op : CabOp) (h : c.wrapped = true) : (c.step op).wrapped = true := by
  cases op with
  | act a => exact act_wrapped_mono c a h
  | each f => simp only [step]; rw [foreach_eq_runActs]; exact runActs_wrapped_mono c _ h

theorem run_wrapped_mono (c : Cab) (ops : List CabOp) (h : c.wrapped = true) : (c.run ops).wrapped = true := by
  induction ops generalizing c with
  | nil => exact h
  | cons op ops ih => exact ih _ (step_wrapped_mono c op h)

/-- a history that ends unwrapped never wrapped: every intermediate state is consistent and the id
counter never decreases -/
theorem run_inv (c : Cab) (ops : List CabOp) (h : Inv c) (hw : (c.run ops).wrapped = false) :
    Inv (c.run ops) ∧ c.lastId ≤ (c.run ops).lastId := by
  induction ops generalizing c with
  | nil => exact ⟨h, Nat.le_refl _⟩
  | cons op ops ih =>
      have hwa : (c.step op).wrapped = false := by
        cases hx : (c.step op).wrapped with
        | false => rfl
        | true => have := run_wrapped_mono _ ops hx; simp only [run] at hw; rw [hw] at this; cases this
      have h1 := step_inv c op h hwa
      have h2 := ih _ h1.1 hw
      exact ⟨h2.1, Nat.le_trans h1.2 h2.2⟩

end Cab
end Tbox.C08
