/- C08 — the cabinet refines its specification (helper lemmas; theorems are in `Props.lean`). -/
import TboxModel.C08.CabProofs
namespace Tbox.C08
namespace Cab

theorem token_ext (a b : Token) (h1 : a.id = b.id) (h2 : a.pos = b.pos) : a = b := by
  cases a; cases b; simp_all

theorem lookup_alloc (c : Cab) (o : Nat) (h : Inv c) (hw : c.lastId < sizeMax) :
    ∃ tok, (c.alloc o).2 = some tok ∧ tok.id = c.lastId + 1 ∧
      ∀ t, (c.alloc o).1.lookup t = if t = tok then some o else c.lookup t := by
  have hw' : c.lastId ≠ sizeMax := by omega
  rcases inv_first c h with ⟨hf, _⟩ | ⟨hf, cell, hcell, hid⟩
  · rw [alloc_push c o hf hw']
    refine ⟨_, rfl, rfl, ?_⟩
    intro t
    by_cases ht : t = ⟨c.lastId + 1, c.cells.length⟩
    · subst ht; simp [lookup]
    · simp only [ht, if_false]
      unfold lookup
      by_cases h0 : t.id = 0
      · simp [h0]
      · simp only [h0, if_false]
        by_cases hlt : t.pos < c.cells.length
        · rw [List.getElem?_append_left hlt]
        · have hn : c.cells[t.pos]? = none := List.getElem?_eq_none (by omega)
          rw [hn, List.getElem?_append_right (by omega)]
          cases hq : t.pos - c.cells.length with
          | zero =>
              have hne : ¬ (c.lastId + 1 = t.id) :=
                fun hid => ht (token_ext _ _ hid.symm (by simp only; omega))
              simp [hne]
          | succ n => simp
  · rw [alloc_reuse c o cell hf hcell hw']
    have hlt := getElem?_lt _ _ _ hcell
    refine ⟨_, rfl, rfl, ?_⟩
    intro t
    by_cases ht : t = ⟨c.lastId + 1, c.firstFree⟩
    · subst ht; simp [lookup, hlt]
    · simp only [ht, if_false]
      unfold lookup
      by_cases h0 : t.id = 0
      · simp [h0]
      · simp only [h0, if_false, List.getElem?_set]
        by_cases hp : c.firstFree = t.pos
        · simp only [hp, if_true]
          rw [← hp, hcell]
          simp only [hlt, if_true]
          have h1 : ¬ (c.lastId + 1 = t.id) := fun hid' => ht (token_ext _ _ hid'.symm hp.symm)
          have h2 : ¬ (cell.id = t.id) := by rw [hid]; exact fun h => h0 h.symm
          simp [h1, h2]
        · simp [hp]

theorem lookup_free (c : Cab) (t0 : Token) (o : Nat) (hl : c.lookup t0 = some o) (t : Token) :
    (c.free t0).1.lookup t = if t = t0 then none else c.lookup t := by
  rw [free_hit c t0 o hl]
  obtain ⟨hid, hcell⟩ := (lookup_some c t0 o).1 hl
  have hlt := getElem?_lt _ _ _ hcell
  unfold lookup
  by_cases h0 : t.id = 0
  · simp [h0]
  · simp only [h0, if_false, List.getElem?_set]
    by_cases hp : t0.pos = t.pos
    · simp only [hp, if_true]
      rw [← hp, hcell]
      simp only [hlt, if_true]
      by_cases ht : t = t0
      · subst ht
        have h00 : ¬ (0 = t.id) := fun h => h0 h.symm
        simp [h00]
      · have : ¬ (t0.id = t.id) := fun h => ht (token_ext _ _ h.symm hp.symm)
        have h00 : ¬ (0 = t.id) := fun h => h0 h.symm
        simp [ht, this, h00]
    · have ht : t ≠ t0 := fun h => hp (by rw [h])
      simp [hp, ht]

theorem lookup_update (c : Cab) (t0 : Token) (o old : Nat) (hl : c.lookup t0 = some old) (t : Token) :
    (c.update t0 o).1.lookup t = if t = t0 then some o else c.lookup t := by
  simp only [update, hl]
  obtain ⟨hid, hcell⟩ := (lookup_some c t0 old).1 hl
  have hlt := getElem?_lt _ _ _ hcell
  unfold lookup
  by_cases h0 : t.id = 0
  · have : t ≠ t0 := fun h => hid (h ▸ h0)
    simp [h0, this]
  · simp only [h0, if_false, List.getElem?_set]
    by_cases hp : t0.pos = t.pos
    · simp only [hp, if_true]
      rw [← hp, hcell]
      simp only [hlt, if_true]
      by_cases ht : t = t0
      · subst ht; simp
      · have : ¬ (t0.id = t.id) := fun h => ht (token_ext _ _ h.symm hp.symm)
        simp [ht, this]
    · have ht : t ≠ t0 := fun h => hp (by rw [h])
      simp [hp, ht]

theorem lookup_clear (c : Cab) (t : Token) : c.clear.lookup t = none := by
  simp [lookup, clear]

/-- a token that resolves was issued: its id is at most the id counter -/
theorem lookup_id_le (c : Cab) (h : Inv c) (t : Token) (o : Nat) (hl : c.lookup t = some o) :
    t.id ≠ 0 ∧ t.id ≤ c.lastId := by
  obtain ⟨hid, hcell⟩ := (lookup_some c t o).1 hl
  exact ⟨hid, h.idBound _ _ hcell⟩

/-! ### refinement -/

structure Refines (c : Cab) (s : SpecCab) : Prop where
  look : ∀ t, c.lookup t = s.lookup t
  deadBound : ∀ t, s.dead t = true → t.id ≤ c.lastId

theorem spec_free_hit (s : SpecCab) (t0 : Token) (o : Nat) (hs : s.lookup t0 = some o) :
    s.free t0 = { live := fun t => if t = t0 then none else s.live t,
                  dead := fun t => decide (t = t0) || s.dead t } := by
  simp [SpecCab.free, hs]

theorem spec_update_hit (s : SpecCab) (t0 : Token) (o old : Nat) (hs : s.lookup t0 = some old) :
    s.update t0 o = { s with live := fun t => if t = t0 then some o else s.live t } := by
  simp [SpecCab.update, hs]

theorem free_refines (c : Cab) (s : SpecCab) (t0 : Token) (h : Inv c) (r : Refines c s) :
    Refines (c.free t0).1 (s.free t0) := by
  cases hl : c.lookup t0 with
  | none =>
      have hs : s.lookup t0 = none := by rw [← r.look]; exact hl
      rw [free_miss c t0 hl]
      simpa [SpecCab.free, hs] using r
  | some o =>
      have hs : s.lookup t0 = some o := by rw [← r.look]; exact hl
      have hlast : (c.free t0).1.lastId = c.lastId := by rw [free_hit c t0 o hl]
      constructor
      · intro t
        rw [lookup_free c t0 o hl t, spec_free_hit s t0 o hs]
        simp only [SpecCab.lookup]
        by_cases ht : t = t0
        · simp [ht]
        · have := r.look t
          simp only [SpecCab.lookup] at this
          simp [ht, this]
      · intro t hd
        rw [hlast]
        rw [spec_free_hit s t0 o hs] at hd
        simp only [Bool.or_eq_true, decide_eq_true_eq] at hd
        rcases hd with hd | hd
        · rw [hd]; exact (lookup_id_le c h t0 o hl).2
        · exact r.deadBound t hd

theorem act_refines (c : Cab) (s : SpecCab) (a : CbAct) (h : Inv c) (r : Refines c s)
    (hwr : (c.act a).1.wrapped = false) : Refines (c.act a).1 (specAct c s a) := by
  have hmono := (act_inv c a h hwr).2
  cases a with
  | alloc o =>
      have hne : c.lastId ≠ sizeMax := by
        intro e
        have := alloc_wrapped c o
        simp only [act] at hwr
        rw [hwr, e] at this; simp at this
      have hw : c.lastId < sizeMax := by have := h.idMax; omega
      obtain ⟨tok, h1, h2, h3⟩ := lookup_alloc c o h hw
      obtain ⟨_, pos, _, hlast⟩ := alloc_inv c o h hw
      simp only [act, specAct, h1]
      constructor
      · intro t
        rw [h3 t]
        simp only [SpecCab.alloc, SpecCab.lookup]
        by_cases ht : t = tok
        · have hnd : s.dead tok = false := by
            cases hd : s.dead tok with
            | false => rfl
            | true => have := r.deadBound tok hd; omega
          simp [ht, hnd]
        · have := r.look t
          simp only [SpecCab.lookup] at this
          simp [ht, this]
      · intro t hd
        rw [hlast]
        have := r.deadBound t hd
        omega
  | update t0 o =>
      simp only [act, specAct]
      cases hl : c.lookup t0 with
      | none =>
          have hs : s.lookup t0 = none := by rw [← r.look]; exact hl
          simpa [update, hl, SpecCab.update, hs] using r
      | some old =>
          have hs : s.lookup t0 = some old := by rw [← r.look]; exact hl
          constructor
          · intro t
            rw [lookup_update c t0 o old hl t, spec_update_hit s t0 o old hs]
            simp only [SpecCab.lookup]
            by_cases ht : t = t0
            · have hnd : s.dead t0 = false := by
                cases hd : s.dead t0 with
                | false => rfl
                | true => simp [SpecCab.lookup, hd] at hs
              simp [ht, hnd]
            · have := r.look t
              simp only [SpecCab.lookup] at this
              simp [ht, this]
          · intro t hd
            rw [spec_update_hit s t0 o old hs] at hd
            have := r.deadBound t hd
            simpa [update, hl] using this
  | free t0 => exact free_refines c s t0 h r
  | clear =>
      simp only [act, specAct]
      constructor
      · intro t
        rw [lookup_clear]
        simp [SpecCab.clear, SpecCab.lookup]
      · intro t hd
        simp only [SpecCab.clear, Bool.or_eq_true] at hd
        show t.id ≤ c.lastId
        rcases hd with hd | hd
        · exact r.deadBound t hd
        · rw [← r.look t] at hd
          cases hl : c.lookup t with
          | none => simp [hl] at hd
          | some o => exact (lookup_id_le c h t o hl).2

theorem runActs_refines (c : Cab) (s : SpecCab) (as : List CbAct) (h : Inv c) (r : Refines c s)
    (hw : (c.runActs as).wrapped = false) : Refines (c.runActs as) (specActs c s as) := by
  induction as generalizing c s with
  | nil => exact r
  | cons a as ih =>
      have hwa : (c.act a).1.wrapped = false := by
        cases hx : (c.act a).1.wrapped with
        | false => rfl
        | true => have := runActs_wrapped_mono _ as hx; simp only [runActs] at hw; rw [hw] at this; cases this
      exact ih _ _ (act_inv c a h hwa).1 (act_refines c s a h r hwa) hw

theorem step_refines (c : Cab) (s : SpecCab) (op : CabOp) (h : Inv c) (r : Refines c s)
    (hw : (c.step op).wrapped = false) : Refines (c.step op) (specStep c s op) := by
  cases op with
  | act a => exact act_refines c s a h r hw
  | each f =>
      simp only [step, specStep] at hw ⊢
      rw [foreach_eq_runActs] at hw ⊢
      exact runActs_refines c s _ h r hw

theorem run_refines (c : Cab) (s : SpecCab) (ops : List CabOp) (h : Inv c) (r : Refines c s)
    (hw : (c.run ops).wrapped = false) : Refines (c.run ops) (specRun c s ops) := by
  induction ops generalizing c s with
  | nil => exact r
  | cons op ops ih =>
      have hwa : (c.step op).wrapped = false := by
        cases hx : (c.step op).wrapped with
        | false => rfl
        | true => have := run_wrapped_mono _ ops hx; simp only [run] at hw; rw [hw] at this; cases this
      exact ih _ _ (step_inv c op h hwa).1 (step_refines c s op h r hwa) hw

end Cab
end Tbox.C08
