/- C08 — the live tokens of a cabinet: one per occupied cell (helper lemmas). -/
import TboxModel.C08.CabProofs
namespace Tbox.C08
namespace Cab

theorem filterMap_congr' {α β} (l : List α) (f g : α → Option β) (h : ∀ x ∈ l, f x = g x) :
    l.filterMap f = l.filterMap g := by
  induction l with
  | nil => rfl
  | cons a l ih =>
      have ha := h a List.mem_cons_self
      have := ih (fun x hx => h x (List.mem_cons_of_mem _ hx))
      simp only [List.filterMap_cons, ha, this]

theorem tokenAt_length (l : List Cell) (k : Nat) :
    ((List.range' k l.length).filterMap (tokenAt l k)).length = l.countP (fun x => x.id != 0) := by
  induction l generalizing k with
  | nil => simp
  | cons x l ih =>
      have hcongr : (List.range' (k + 1) l.length).filterMap (tokenAt (x :: l) k) =
          (List.range' (k + 1) l.length).filterMap (tokenAt l (k + 1)) := by
        apply filterMap_congr'
        intro p hp
        have hp' := (List.mem_range'_1.1 hp).1
        have e : p - k = (p - (k + 1)) + 1 := by omega
        simp only [tokenAt, e, List.getElem?_cons_succ]
      simp only [List.length_cons, List.range'_succ, List.filterMap_cons]
      have h0 : tokenAt (x :: l) k k = if x.id ≠ 0 then some ⟨x.id, k⟩ else none := by
        simp [tokenAt]
      rw [h0, hcongr]
      by_cases hx : x.id = 0
      · simp [hx, ih (k + 1), List.countP_cons]
      · simp [hx, ih (k + 1), List.countP_cons]

theorem liveTokens_length (c : Cab) : c.liveTokens.length = c.cells.countP (fun x => x.id != 0) := by
  unfold liveTokens
  rw [List.range_eq_range']
  exact tokenAt_length c.cells 0

theorem mem_liveTokens (c : Cab) (t : Token) : t ∈ c.liveTokens ↔ (c.lookup t).isSome = true := by
  unfold liveTokens
  rw [List.mem_filterMap]
  constructor
  · rintro ⟨p, _, hp⟩
    simp only [tokenAt, Nat.sub_zero] at hp
    cases hc : c.cells[p]? with
    | none => simp [hc] at hp
    | some cell =>
        simp only [hc] at hp
        split at hp
        · rename_i hid
          cases hp
          have : c.lookup ⟨cell.id, p⟩ = some cell.w := (lookup_some c _ _).2 ⟨hid, hc⟩
          simp [this]
        · cases hp
  · intro h
    obtain ⟨o, ho⟩ := Option.isSome_iff_exists.1 h
    obtain ⟨hid, hcell⟩ := (lookup_some c t o).1 ho
    refine ⟨t.pos, List.mem_range.2 (getElem?_lt _ _ _ hcell), ?_⟩
    simp [tokenAt, hcell, hid]

theorem liveTokens_nodup (c : Cab) : c.liveTokens.Nodup := by
  unfold liveTokens
  apply List.Pairwise.filterMap (R := fun a b => a ≠ b) _ _ List.nodup_range
  intro p q hpq a ha b hb hab
  subst hab
  have pa : a.pos = p := by
    simp only [tokenAt, Nat.sub_zero] at ha
    split at ha
    · split at ha
      · cases ha; rfl
      · cases ha
    · cases ha
  have pb : a.pos = q := by
    simp only [tokenAt, Nat.sub_zero] at hb
    split at hb
    · split at hb
      · cases hb; rfl
      · cases hb
    · cases hb
  exact hpq (pa.symm.trans pb)

end Cab
end Tbox.C08
