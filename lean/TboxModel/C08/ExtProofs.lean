/- C08 — helper lemmas for histories with failed allocations (core Lean only). -/
import TboxModel.C08.CabRefine
import TboxModel.C08.FastProofs
namespace Tbox.C08
open Cab

theorem allocThrow_wrapped_mono (c : Cab) (b : Bool) (h : c.wrapped = true) : (c.allocThrow b).wrapped = true := by
  unfold Cab.allocThrow Cab.allocId
  cases b with
  | false => simpa using h
  | true => simp only [if_true]; split <;> simp [h]

theorem stepX_wrapped_mono (c : Cab) (x : CabOpX) (h : c.wrapped = true) : (c.stepX x).wrapped = true := by
  cases x with
  | op o => exact step_wrapped_mono c o h
  | allocFail b => exact allocThrow_wrapped_mono c b h

theorem runX_wrapped_mono (c : Cab) (xs : List CabOpX) (h : c.wrapped = true) : (c.runX xs).wrapped = true := by
  induction xs generalizing c with
  | nil => exact h
  | cons x xs ih => exact ih _ (stepX_wrapped_mono c x h)

/-- a failed allocation that does not wrap the counter is the identity or a jump of the counter by one -/
theorem allocThrow_eq (c : Cab) (b : Bool) (hw : (c.allocThrow b).wrapped = false) (hm : c.lastId ≤ sizeMax) :
    c.allocThrow b = c.jump (if b then c.lastId + 1 else c.lastId) ∧ (if b then c.lastId + 1 else c.lastId) ≤ sizeMax := by
  unfold Cab.allocThrow Cab.allocId at *
  cases b with
  | false => exact ⟨rfl, hm⟩
  | true =>
      simp only [if_true] at hw ⊢
      by_cases e : c.lastId = sizeMax
      · simp [e] at hw
      · simp only [e, if_false]; exact ⟨rfl, by omega⟩

theorem allocThrow_inv (c : Cab) (b : Bool) (h : Inv c) (hw : (c.allocThrow b).wrapped = false) :
    Inv (c.allocThrow b) ∧ c.lastId ≤ (c.allocThrow b).lastId := by
  obtain ⟨e, hle⟩ := allocThrow_eq c b hw h.idMax
  rw [e]
  refine ⟨jump_inv c _ h (by split <;> omega) hle, ?_⟩
  show c.lastId ≤ (if b then c.lastId + 1 else c.lastId)
  split <;> omega

theorem allocThrow_refines (c : Cab) (s : SpecCab) (b : Bool) (h : Inv c) (r : Refines c s)
    (hw : (c.allocThrow b).wrapped = false) : Refines (c.allocThrow b) s := by
  obtain ⟨e, _⟩ := allocThrow_eq c b hw h.idMax
  have hmono := (allocThrow_inv c b h hw).2
  rw [e] at hmono ⊢
  exact ⟨fun t => r.look t, fun t hd => Nat.le_trans (r.deadBound t hd) hmono⟩

theorem runX_inv_refines (c : Cab) (s : SpecCab) (xs : List CabOpX) (h : Inv c) (r : Refines c s)
    (hw : (c.runX xs).wrapped = false) : Inv (c.runX xs) ∧ Refines (c.runX xs) (specRunX c s xs) := by
  induction xs generalizing c s with
  | nil => exact ⟨h, r⟩
  | cons x xs ih =>
      have hwa : (c.stepX x).wrapped = false := by
        cases hq : (c.stepX x).wrapped with
        | false => rfl
        | true => have := runX_wrapped_mono _ xs hq; simp only [Cab.runX] at hw; rw [hw] at this; cases this
      cases x with
      | op o =>
          exact ih (c.step o) (specStep c s o) (step_inv c o h hwa).1 (step_refines c s o h r hwa) hw
      | allocFail b =>
          exact ih (c.allocThrow b) s (allocThrow_inv c b h hwa).1 (allocThrow_refines c s b h r hwa) hw

end Tbox.C08
