/-
C08 — (a) the class `tbox::cabinet::Token` (modules/base/cabinet_token.h) member by member,
      (b) runs of many calls in a row (`allocN`, `freeN`, `atN`): the histories the `bulk` ops of the
          harness perform,
      (c) `CabA`: the cabinet with `cells_` as an `Array` — the SAME functions as `Cab` in Model.lean,
          line by line, over a container with O(1) indexing.  The driver executes `CabA`; FastProofs.lean
          proves that every `CabA` function commutes with `toCab`, so what the driver computes IS the
          run of the list model (`C08_cab_array_refines`), also for histories of 10^5 live entries
          that the list model could not execute in the time of a check.
Core Lean only (imported by the driver).
-/
import TboxModel.C08.Model
namespace Tbox.C08

/-! ## cabinet::Token -/

namespace Token

/-- number of values of `size_t` (`Id` and `Pos` are both `size_t`) -/
def word : Nat := 18446744073709551616

/-- `Token()` -/
def dflt : Token := ⟨0, 0⟩

/-- `Token(Id id, Pos pos) : id_(id), pos_(pos)` — both members are full `size_t` words; the
arguments are `size_t` values (a wider number is reduced by the conversion at the call) -/
def ctor (id pos : Nat) : Token := ⟨id % word, pos % word⟩

/-- `reset()` -/
def reset (_ : Token) : Token := ⟨0, 0⟩

/-- `isNull()` -/
def isNull (t : Token) : Bool := t.id == 0

/-- `operator bool` -/
def toBool (t : Token) : Bool := t.id != 0

/-- `equal(other)` / `operator ==` -/
def equal (a b : Token) : Bool := a.id == b.id && a.pos == b.pos

/-- `less(other)` / `operator <` -/
def less (a b : Token) : Bool := if a.id != b.id then decide (a.id < b.id) else decide (a.pos < b.pos)

/-- `hash()` (also `std::hash<Token>`): `(id_ << 8) | (pos_ & 0xff)` in `size_t` arithmetic -/
def hash (t : Token) : Nat := ((t.id <<< 8) ||| (t.pos &&& 0xff)) % word

def ne (a b : Token) : Bool := !(equal a b)                    -- `operator !=`
def le (a b : Token) : Bool := less a b || equal a b           -- `operator <=`
def gt (a b : Token) : Bool := !(less a b) && !(equal a b)     -- `operator >`
def ge (a b : Token) : Bool := !(less a b)                     -- `operator >=`

end Token

/-! ## many calls in a row (list model: the reference the theorems speak about) -/

namespace Cab

/-- `alloc(o)` for every `o` of the list, in order; the tokens returned (null for an exception) -/
def allocN (c : Cab) : List Nat → Cab × List Token
  | [] => (c, [])
  | o :: os =>
      let r := c.alloc o
      let r2 := r.1.allocN os
      (r2.1, r.2.getD {} :: r2.2)

/-- `free(t)` for every token of the list, in order; the pointers returned -/
def freeN (c : Cab) : List Token → Cab × List Nat
  | [] => (c, [])
  | t :: ts =>
      let r := c.free t
      let r2 := r.1.freeN ts
      (r2.1, r.2 :: r2.2)

/-- `at(t)` for every token of the list -/
def atN (c : Cab) (ts : List Token) : List Nat := ts.map c.at'

/-- test access of the harness (`last_id_` written directly): the id counter jumps forward to `v`, as
if `v − last_id_` entries had been allocated and freed in between.  Used to reach ids near 2^64. -/
def jump (c : Cab) (v : Nat) : Cab := { c with lastId := v }

/-- the cells `n` appending allocations write: ids `k+1, k+2, …` -/
def pushedCells (k : Nat) : List Nat → List Cell
  | [] => []
  | o :: os => ⟨k + 1, o⟩ :: pushedCells (k + 1) os

/-- and the tokens they return: ids `k+1, k+2, …` at positions `L, L+1, …` -/
def pushedToks (k L : Nat) : List Nat → List Token
  | [] => []
  | _ :: os => ⟨k + 1, L⟩ :: pushedToks (k + 1) (L + 1) os

end Cab

/-! ## the cabinet over an `Array` -/

structure CabA where
  lastId    : Nat := 0
  cells     : Array Cell := #[]
  firstFree : Nat := sizeMax
  count     : Nat := 0
  wrapped   : Bool := false

namespace CabA

def toCab (a : CabA) : Cab :=
  { lastId := a.lastId, cells := a.cells.toList, firstFree := a.firstFree, count := a.count, wrapped := a.wrapped }

def ofCab (c : Cab) : CabA :=
  { lastId := c.lastId, cells := c.cells.toArray, firstFree := c.firstFree, count := c.count, wrapped := c.wrapped }

def allocId (c : CabA) : CabA × Nat :=
  if c.lastId = sizeMax then ({ c with lastId := 1, wrapped := true }, 1)
  else ({ c with lastId := c.lastId + 1 }, c.lastId + 1)

/-- as `Cab.allocPos`; the cabinet is handed back in the failing case too, so that the caller does
not have to keep a second reference to it (the array is then updated in place) -/
def allocPos (c : CabA) : CabA × Option Nat :=
  let ff := c.firstFree
  if ff ≠ sizeMax then
    match c.cells[ff]? with
    | none => (c, none)
    | some cell => ({ c with firstFree := cell.w }, some ff)
  else
    let n := c.cells.size
    ({ c with cells := c.cells.push {} }, some n)

def alloc (c : CabA) (obj : Nat) : CabA × Option Token :=
  let (c1, id) := c.allocId
  match c1.allocPos with
  | (c2, none) => (c2, none)
  | (c2, some pos) =>
      ({ c2 with cells := c2.cells.setIfInBounds pos { id := id, w := obj }, count := c2.count + 1 }, some ⟨id, pos⟩)

def lookup (c : CabA) (t : Token) : Option Nat :=
  if t.id = 0 then none else
  match c.cells[t.pos]? with
  | none => none
  | some cell => if cell.id = t.id then some cell.w else none

def at' (c : CabA) (t : Token) : Nat := (c.lookup t).getD 0

def update (c : CabA) (t : Token) (obj : Nat) : CabA × Bool :=
  match c.lookup t with
  | none => (c, false)
  | some _ => ({ c with cells := c.cells.setIfInBounds t.pos { id := t.id, w := obj } }, true)

def free (c : CabA) (t : Token) : CabA × Nat :=
  match c.lookup t with
  | none => (c, 0)
  | some o =>
      ({ c with cells := c.cells.setIfInBounds t.pos { id := 0, w := c.firstFree },
                firstFree := t.pos,
                count := if c.count = 0 then sizeMax else c.count - 1 }, o)

def clear (c : CabA) : CabA := { c with cells := #[], firstFree := sizeMax, count := 0 }

def size (c : CabA) : Nat := c.count

def act (c : CabA) : CbAct → CabA × Option Token
  | .alloc o => c.alloc o
  | .update t o => ((c.update t o).1, none)
  | .free t => ((c.free t).1, none)
  | .clear => (c.clear, none)

def runActs (c : CabA) : List CbAct → CabA
  | [] => c
  | a :: as => ((c.act a).1).runActs as

/-- `allocN`, tail recursive (70 000 and more calls in one op) -/
def allocN (c : CabA) : List Nat → Array Token → CabA × Array Token
  | [], acc => (c, acc)
  | o :: os, acc =>
      let r := c.alloc o
      r.1.allocN os (acc.push (r.2.getD {}))

def freeN (c : CabA) : List Token → Array Nat → CabA × Array Nat
  | [], acc => (c, acc)
  | t :: ts, acc =>
      let r := c.free t
      r.1.freeN ts (acc.push r.2)

def atN (c : CabA) (ts : List Token) : List Nat := ts.map c.at'

def jump (c : CabA) (v : Nat) : CabA := { c with lastId := v }

end CabA

/-! ## object pool: many calls in a row (no nesting; any number of objects alive at once) -/

namespace Pool

/-- one complete `alloc()` whose constructor does nothing to the pool; returns the block -/
def allocFull (p : Pool) : Pool × Nat :=
  let r := p.allocA
  (r.1.ctorEnter.allocB, r.2)

/-- `n` complete allocs; the blocks handed out, in order -/
def allocMany (p : Pool) : Nat → Pool × List Nat
  | 0 => (p, [])
  | n + 1 =>
      let r := p.allocFull
      let r2 := r.1.allocMany n
      (r2.1, r.2 :: r2.2)

/-- `free()` of every block of the list, in order -/
def freeMany (p : Pool) : List Nat → Pool
  | [] => p
  | b :: bs => (p.free b).freeMany bs

/-- tail-recursive form of `allocMany` for the driver (blocks accumulated in reverse) -/
def allocManyTR (p : Pool) : Nat → List Nat → Pool × List Nat
  | 0, acc => (p, acc)
  | n + 1, acc =>
      let r := p.allocFull
      r.1.allocManyTR n (r.2 :: acc)

end Pool

end Tbox.C08
